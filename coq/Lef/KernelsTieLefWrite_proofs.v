(** Tie (a) of DESIGN.md 2.3 for the LEF writer (family "lef_write", properties C04, C05): the definitions generated from
    lef21/src/write.rs `LefWriter::format_mask`, `format_geom`, `write_geom`, `write_layer_geom`, `write_property`, `write_symmetries`,
    `write_macro_class`, `write_via_shape`, `write_density`, `write_units`, `write_site`, `write_via_layer_geom`, `write_via`, `write_port`,
    `write_pin` (Gen/KernelsLefWriteGen.v), read as in Lef/KernelsInstLefWrite.v (monadic self: indentation + session version + the lines
    written; `write_line` = one more line; strings as byte strings with the model's `Display` texts), write EXACTLY the lines of the
    functions of the same names of Lef/LefWrite.v, at the current indentation, and leave the writer as it was.  The functions whose model
    carries a variant flag (write_property, write_site, write_pin) are tied under [cf_now cf]: the flags of the code as it is now.
    `write_macro`, `format_numeric_prop_def` and `write_lib`: Lef/KernelsTieLefWriteL_proofs.v. *)
From Coq Require Import ZArith Bool List String Lia.
From L21 Require Import Lef.LefDec Lef.LefData Lef.LefLex Lef.LefParse Lef.LefWrite.
From L21 Require Import Base.KernelOps Base.KernelOpsX Base.KernelOpsS Base.KernelOpsL Base.Outcome Gen.KernelsLefWriteGen.
From L21 Require Import Lef.KernelsInstLefWrite.
Import ListNotations.
Local Open Scope Z_scope.

Ltac ws := cbn [wm_xops kx_base wm_kops k_bind k_ret k_panic k_fail i_lit]; unfold wm_bind, wm_ret, wm_pan, wm_err.

Lemma tie_format_mask : forall m s, g_format_mask m s = Ok (format_mask m, s).
Proof. intros [d|] s; reflexivity. Qed.

Lemma dpoint_G : forall p, x_dpoint (Gpoint p) = pt_str p.
Proof. intros [x y]. reflexivity. Qed.
Lemma map_dpoint : forall pts, map x_dpoint (map Gpoint pts) = map pt_str pts.
Proof. induction pts as [|[x y] pts IH]; [reflexivity|]. cbn [map]. rewrite IH. reflexivity. Qed.

Lemma tie_format_geom : forall sh p s, g_format_geom sh p s = Ok (format_geom sh p, s).
Proof.
  intros sh p s. unfold g_format_geom, g_LefWriter_format_geom, format_geom.
  destruct sh as [m p0 p1|m pts|m pts]; destruct m as [d|]; destruct p as [[nx ny sx sy]|]; cbn [Gshape Gmask option_map Gstep]; ws;
    cbn -[x_dkey x_ddec x_dpoint pt_str]; rewrite ?map_dpoint, ?dpoint_G; repeat rewrite <- app_assoc; rewrite ?app_nil_r; reflexivity.
Qed.

(** a line written: the state after *)
Lemma wl : forall txt s, x_write_line txt s = Ok (tt, (fst s, snd s ++ [(w_indent (fst s), txt)])).
Proof. reflexivity. Qed.

Lemma tie_write_geom : forall g s, g_write_geom g s = wrote s (write_geom (w_indent (fst s)) g).
Proof.
  intros g s. unfold g_write_geom, g_LefWriter_write_geom, write_geom. ws.
  destruct g as [sh|sh p]; cbn [Ggeometry].
  - change (g_LefWriter_format_geom wm_xops dec bytes x_ddec x_dkey x_dmask x_dpoint (Gshape sh) None s) with (g_format_geom sh None s).
    rewrite tie_format_geom. reflexivity.
  - change (g_LefWriter_format_geom wm_xops dec bytes x_ddec x_dkey x_dmask x_dpoint (Gshape sh) (Some (Gstep p)) s) with (g_format_geom sh (Some p) s).
    rewrite tie_format_geom. reflexivity.
Qed.

(** a `for` loop whose body writes the lines [f i a] of the element a at the indentation i and leaves the writer as it was *)
Lemma w_foreach : forall (A B : Type) (conv : A -> B) (body : B -> unit -> wm (ctrl unit unit)) (f : nat -> A -> list line),
  (forall a s, body (conv a) tt s = Ok (Cont tt, (fst s, snd s ++ f (w_indent (fst s)) a))) ->
  forall l s, k_foreach wm_kops (map conv l) body tt s = Ok (Cont tt, (fst s, snd s ++ flat_map (f (w_indent (fst s))) l)).
Proof.
  intros A B conv body f Hb. induction l as [|a l IH]; intros s; cbn [map k_foreach flat_map].
  - ws. rewrite app_nil_r. destruct s; reflexivity.
  - ws. rewrite Hb. rewrite IH. cbn [fst snd]. rewrite <- app_assoc. reflexivity.
Qed.

Lemma lg_loop1 : forall g s,
  g_LefWriter_write_layer_geom_loop1 wm_xops dec bytes x_write_line x_ddec x_dkey x_dmask x_dpoint x_concat x_join x_lit (Ggeometry g) tt s
  = Ok (Cont tt, (fst s, snd s ++ write_geom (w_indent (fst s)) g)).
Proof.
  intros g s. unfold g_LefWriter_write_layer_geom_loop1. ws.
  change (g_LefWriter_write_geom wm_xops dec bytes x_write_line x_ddec x_dkey x_dmask x_dpoint x_concat x_join x_lit (Ggeometry g) s) with (g_write_geom g s).
  rewrite tie_write_geom. reflexivity.
Qed.
Definition via_line (i : nat) (v : lef_via_inst) : list line := [(i, cat [kw K_Via; sp; pt_str (vi_pt v); sp; vi_via_name v; bs " ;"])].
Lemma lg_loop2 : forall v s,
  g_LefWriter_write_layer_geom_loop2 wm_xops dec bytes x_write_line x_dkey x_dpoint x_concat x_lit (Gvia_inst v) tt s
  = Ok (Cont tt, (fst s, snd s ++ via_line (w_indent (fst s)) v)).
Proof. intros [nm [x y]] s. reflexivity. Qed.
Lemma flat_map_single : forall (A B : Type) (f : A -> B) l, flat_map (fun a => [f a]) l = map f l.
Proof. induction l as [|a l IH]; [reflexivity|]. cbn [flat_map map app]. rewrite IH. reflexivity. Qed.

Lemma tie_write_layer_geom : forall l s, g_write_layer_geom l s = wrote s (write_layer_geom (w_indent (fst s)) l).
Proof.
  intros [nm gs vs pg spc w] [wr out]. unfold g_write_layer_geom, g_LefWriter_write_layer_geom, Glayer_geoms, write_layer_geom, wrote.
  cbn [lg_layer_name lg_geometries lg_vias lg_except_pg_net lg_spacing lg_width
       gLefLayerGeometries_layer_name gLefLayerGeometries_geometries gLefLayerGeometries_vias gLefLayerGeometries_except_pg_net
       gLefLayerGeometries_spacing gLefLayerGeometries_width fst snd].
  ws. rewrite wl. cbn [fst snd]. unfold x_get at 1. cbn [fst snd]. unfold x_add_assign. ws. unfold x_put at 1. cbn [fst snd].
  destruct wr as [ind ses]. cbn [gLefWriter_indent gLefWriter_session w_indent].
  change (Z.to_nat 1) with 1%nat. replace (ind + 1)%nat with (S ind) by lia.
  assert (T : forall s0, (match w with
                          | Some v => fun s : wst => match x_write_line (x_concat [x_dkey gLefKey_Width; x_lit " "; x_ddec v; x_lit " ; "]) s with
                                                      | Ok (_, s') => Ok (tt, s') | Err e => Err e | Panic => Panic | OutOfFuel => OutOfFuel end
                          | None => fun s : wst => Ok (tt, s) end) s0
                         = Ok (tt, (fst s0, snd s0 ++ match w with Some v => [(w_indent (fst s0), cat [kw K_Width; sp; dstr v; bs " ; "])] | None => [] end))).
  { intros s0. destruct w; [reflexivity|]. rewrite app_nil_r. destruct s0; reflexivity. }
  rewrite T. clear T. cbn [fst snd].
  rewrite (w_foreach _ _ Ggeometry _ write_geom lg_loop1). cbn [fst snd].
  rewrite (w_foreach _ _ Gvia_inst _ via_line lg_loop2). cbn [fst snd w_indent gLefWriter_indent].
  unfold x_get, x_sub_assign, x_put. cbn [fst snd gLefWriter_indent gLefWriter_session].
  replace (Z.of_nat (S ind) <? 1) with false by (symmetry; apply Z.ltb_ge; lia). ws.
  change (Z.to_nat 1) with 1%nat. replace (S ind - 1)%nat with ind by lia.
  unfold via_line. rewrite flat_map_single.
  repeat rewrite <- app_assoc. cbn [app].
  destruct pg as [[|]|]; destruct spc as [[d|d]|]; reflexivity.
Qed.

(** * second batch *)

Ltac bytes_eq := unfold cat, x_concat, x_join, x_lit, x_dkey, x_ddec, x_dmask; cbn [List.concat gLefMask_mask]; repeat rewrite <- app_assoc; rewrite ?app_nil_r; reflexivity.
(** one line: the same text *)
Ltac line_eq := match goal with |- Ok (tt, (?a, ?b ++ [(?i, ?x)])) = Ok (tt, (?a, ?b ++ [(?i, ?y)])) => replace x with y; [reflexivity|bytes_eq] end.
Section Cf.
Variable cf : cfg.
Hypothesis Hcf : cf_now cf.

Lemma tie_write_property : forall p s, g_write_property p s = wrote s (write_property cf (w_indent (fst s)) p).
Proof.
  intros [nm v] s. destruct Hcf as [_ Hp]. unfold g_write_property, g_LefWriter_write_property, write_property, wrote. rewrite Hp. ws. rewrite wl. cbn [pr_name pr_value Gproperty gLefProperty_name gLefProperty_value].
  unfold cat, x_concat.
  replace (List.concat [x_dkey gLefKey_Property; x_lit " "; nm; x_lit " "; v; x_lit " ;"]) with (List.concat [kw K_Property; sp; nm; sp; v] ++ bs " ;")
    by (cbn [List.concat]; repeat rewrite <- app_assoc; rewrite !app_nil_r; reflexivity).
  reflexivity.
Qed.

Lemma map_dsym : forall l, map x_dsym (map GLefSymmetry l) = map (enum_s LefSymmetry_to_str) l.
Proof. induction l as [|a l IH]; [reflexivity|]. cbn [map]. rewrite IH. destruct a; reflexivity. Qed.
Lemma tie_write_symmetries : forall l s, g_write_symmetries l s = wrote s (write_symmetries (w_indent (fst s)) l).
Proof.
  intros l s. unfold g_write_symmetries, g_LefWriter_write_symmetries, write_symmetries, wrote. ws. rewrite wl. rewrite map_dsym. reflexivity.
Qed.

Lemma tie_write_macro_class : forall c s, g_write_macro_class c s = wrote s (write_macro_class (w_indent (fst s)) c).
Proof.
  intros c s. unfold g_write_macro_class, g_LefWriter_write_macro_class, write_macro_class, wrote.
  destruct c as [b| |t|t|t|t]; cbn [Gmacro_class]; ws; try (destruct b); try (destruct t as [t|]; [destruct t|]); try reflexivity.
  destruct t; reflexivity.
Qed.

Lemma tie_write_via_shape : forall sh s, g_write_via_shape sh s = wrote s (write_via_shape (w_indent (fst s)) sh).
Proof.
  intros sh s. unfold g_write_via_shape, g_LefWriter_write_via_shape, write_via_shape, wrote.
  destruct sh as [m p0 p1|m pts]; destruct m as [d|]; cbn [Gvia_shape Gmask option_map]; ws; rewrite ?wl; rewrite ?dpoint_G.
  all: try rewrite map_dpoint.
  all: try reflexivity.
  all: line_eq.
Qed.

Lemma add1 : forall n, x_add_assign n 1 = wm_ret nat (S n).
Proof. intros n. unfold x_add_assign. change (Z.to_nat 1) with 1%nat. replace (n + 1)%nat with (S n) by lia. reflexivity. Qed.
Lemma sub1 : forall n, x_sub_assign (S n) 1 = wm_ret nat n.
Proof.
  intros n. unfold x_sub_assign. replace (Z.of_nat (S n) <? 1) with false by (symmetry; apply Z.ltb_ge; lia).
  change (Z.to_nat 1) with 1%nat. replace (S n - 1)%nat with n by lia. reflexivity.
Qed.
(** indentation in: `self.indent += 1` / out: `self.indent -= 1` *)
Lemma indent_in : forall ind ses out (k : gwriter -> wm unit),
  (match x_get (mk_gLefWriter nat dec ind ses, out) with
   | Ok (a, s') => match (match x_add_assign (gLefWriter_indent nat dec a) 1 s' with Ok (a0, s'0) => Ok (mk_gLefWriter nat dec a0 (gLefWriter_session nat dec a), s'0) | Err e => Err e | Panic => Panic | OutOfFuel => OutOfFuel end) with
                   | Ok (a0, s'0) => k a0 s'0 | Err e => Err e | Panic => Panic | OutOfFuel => OutOfFuel end
   | Err e => Err e | Panic => Panic | OutOfFuel => OutOfFuel end)
  = k (mk_gLefWriter nat dec (S ind) ses) (mk_gLefWriter nat dec ind ses, out).
Proof. intros. unfold x_get. cbn [fst snd gLefWriter_indent gLefWriter_session]. rewrite add1. reflexivity. Qed.
Lemma indent_out : forall ind ses out (k : gwriter -> wm unit),
  (match x_get (mk_gLefWriter nat dec (S ind) ses, out) with
   | Ok (a, s') => match (match x_sub_assign (gLefWriter_indent nat dec a) 1 s' with Ok (a0, s'0) => Ok (mk_gLefWriter nat dec a0 (gLefWriter_session nat dec a), s'0) | Err e => Err e | Panic => Panic | OutOfFuel => OutOfFuel end) with
                   | Ok (a0, s'0) => k a0 s'0 | Err e => Err e | Panic => Panic | OutOfFuel => OutOfFuel end
   | Err e => Err e | Panic => Panic | OutOfFuel => OutOfFuel end)
  = k (mk_gLefWriter nat dec ind ses) (mk_gLefWriter nat dec (S ind) ses, out).
Proof. intros. unfold x_get. cbn [fst snd gLefWriter_indent gLefWriter_session]. rewrite sub1. reflexivity. Qed.
Lemma put_x : forall w w' out, x_put w (w', out) = Ok (tt, (w, out)).
Proof. reflexivity. Qed.
Ltac wst := repeat first [ rewrite wl | rewrite indent_in | rewrite indent_out | rewrite put_x | progress cbn [fst snd w_indent gLefWriter_indent gLefWriter_session] ].

Definition dens_rect_line (i : nat) (r : lef_density_rect) : list line :=
  [(i, cat [kw K_Rect; sp; pt_str (dr_pt1 r); sp; pt_str (dr_pt2 r); sp; dstr (dr_density_value r); bs " ; "])].
Definition dens_geom_lines (i : nat) (g : lef_density_geoms) : list line :=
  (i, cat [kw K_Layer; sp; dg_layer_name g; bs " ; "]) :: flat_map (dens_rect_line i) (dg_geometries g).
Lemma dens_loop2 : forall r s,
  g_LefWriter_write_density_loop2 wm_xops dec bytes x_write_line x_ddec x_dkey x_dpoint x_concat x_lit (Gdensity_rect r) tt s
  = Ok (Cont tt, (fst s, snd s ++ dens_rect_line (w_indent (fst s)) r)).
Proof. intros [[x1 y1] [x2 y2] v] s. reflexivity. Qed.
Lemma dens_loop1 : forall g s,
  g_LefWriter_write_density_loop1 wm_xops dec bytes x_write_line x_ddec x_dkey x_dpoint x_concat x_lit (Gdensity_geoms g) tt s
  = Ok (Cont tt, (fst s, snd s ++ dens_geom_lines (w_indent (fst s)) g)).
Proof.
  intros [nm rs] s. unfold g_LefWriter_write_density_loop1, Gdensity_geoms. cbn [dg_layer_name dg_geometries gLefDensityGeometries_layer_name gLefDensityGeometries_geometries].
  ws. rewrite wl. cbn [fst snd]. rewrite (w_foreach _ _ Gdensity_rect _ dens_rect_line dens_loop2). cbn [fst snd].
  unfold dens_geom_lines. cbn [dg_layer_name dg_geometries]. rewrite <- app_assoc. reflexivity.
Qed.
Lemma tie_write_density : forall d s, g_write_density d s = wrote s (write_density (w_indent (fst s)) d).
Proof.
  intros d [[ind ses] out]. unfold g_write_density, g_LefWriter_write_density, write_density, wrote. ws. wst.
  rewrite (w_foreach _ _ Gdensity_geoms _ dens_geom_lines dens_loop1). wst.
  repeat rewrite <- app_assoc. cbn [app].
  replace (flat_map (dens_geom_lines (S ind)) d) with
    (flat_map (fun g => (S ind, cat [kw K_Layer; sp; dg_layer_name g; bs " ; "])
        :: map (fun r => (S ind, cat [kw K_Rect; sp; pt_str (dr_pt1 r); sp; pt_str (dr_pt2 r); sp; dstr (dr_density_value r); bs " ; "])) (dg_geometries g)) d).
  - reflexivity.
  - apply flat_map_ext. intros g. unfold dens_geom_lines, dens_rect_line. rewrite flat_map_single. reflexivity.
Qed.

(** an optional line: `if let Some(ref v) = x { self.write_line(..)?; }` *)
Lemma opt_line : forall (A : Type) (o : option A) (f : A -> bytes) s,
  (match o with
   | Some v => fun s0 : wst => match x_write_line (f v) s0 with Ok (_, s') => Ok (tt, s') | Err e => Err e | Panic => Panic | OutOfFuel => OutOfFuel end
   | None => fun s0 : wst => Ok (tt, s0)
   end) s = Ok (tt, (fst s, snd s ++ match o with Some v => [(w_indent (fst s), f v)] | None => [] end)).
Proof. intros A [v|] f s; [reflexivity|]. rewrite app_nil_r. destruct s; reflexivity. Qed.

Lemma tie_write_units : forall u s, g_write_units u s = wrote s (write_units (w_indent (fst s)) u).
Proof.
  intros [db t c r p i v f] [[ind ses] out]. unfold g_write_units, g_LefWriter_write_units, write_units, wrote, Gunits.
  cbn [u_database_microns u_time_ns u_capacitance_pf u_resistance_ohms u_power_mw u_current_ma u_voltage_volts u_frequency_mhz
       gLefUnits_database_microns gLefUnits_time_ns gLefUnits_capacitance_pf gLefUnits_resistance_ohms gLefUnits_power_mw gLefUnits_current_ma
       gLefUnits_voltage_volts gLefUnits_frequency_mhz].
  ws. wst.
  repeat (rewrite opt_line; wst).
  repeat rewrite <- app_assoc. cbn [app].
  destruct db; reflexivity.
Qed.

Lemma tie_write_site : forall st s, g_write_site st s = wrote s (write_site cf (w_indent (fst s)) st).
Proof.
  intros [nm cl [sx sy] sym] [[ind ses] out]. destruct Hcf as [Hs _]. unfold g_write_site, g_LefWriter_write_site, write_site, wrote, Gsite. rewrite Hs.
  cbn [site_name site_class site_size site_symmetry gLefSite_name gLefSite_class gLefSite_size gLefSite_symmetry fst snd].
  ws. wst.
  destruct sym as [sy0|]; cbn [option_map].
  - change (g_LefWriter_write_symmetries wm_xops bytes x_write_line x_dkey x_dsym x_concat x_join x_lit (map GLefSymmetry sy0)) with (g_write_symmetries sy0).
    rewrite tie_write_symmetries. unfold wrote. wst. repeat rewrite <- app_assoc. cbn [app]. destruct cl; reflexivity.
  - wst. repeat rewrite <- app_assoc. cbn [app]. destruct cl; reflexivity.
Qed.

Lemma via_lg_loop : forall sh s,
  g_LefWriter_write_via_layer_geom_loop1 wm_xops dec bytes x_write_line x_dkey x_dmask x_dpoint x_concat x_join x_lit (Gvia_shape sh) tt s
  = Ok (Cont tt, (fst s, snd s ++ write_via_shape (w_indent (fst s)) sh)).
Proof.
  intros sh s. unfold g_LefWriter_write_via_layer_geom_loop1. ws.
  change (g_LefWriter_write_via_shape wm_xops dec bytes x_write_line x_dkey x_dmask x_dpoint x_concat x_join x_lit (Gvia_shape sh) s) with (g_write_via_shape sh s).
  rewrite tie_write_via_shape. reflexivity.
Qed.
Lemma tie_write_via_layer_geom : forall l s, g_write_via_layer_geom l s = wrote s (write_via_layer_geom (w_indent (fst s)) l).
Proof.
  intros [nm shs] [[ind ses] out]. unfold g_write_via_layer_geom, g_LefWriter_write_via_layer_geom, write_via_layer_geom, wrote, Gvia_lg.
  cbn [vl_layer_name vl_shapes gLefViaLayerGeometries_layer_name gLefViaLayerGeometries_shapes]. ws. wst.
  rewrite (w_foreach _ _ Gvia_shape _ write_via_shape via_lg_loop). wst. rewrite <- app_assoc. reflexivity.
Qed.

Lemma via_loop : forall l s,
  g_LefWriter_write_via_loop1 wm_xops nat dec bytes x_get x_put x_add_assign x_sub_assign x_write_line x_dkey x_dmask x_dpoint x_concat x_join x_lit (Gvia_lg l) tt s
  = Ok (Cont tt, (fst s, snd s ++ write_via_layer_geom (w_indent (fst s)) l)).
Proof.
  intros l s. unfold g_LefWriter_write_via_loop1. ws.
  change (g_LefWriter_write_via_layer_geom wm_xops nat dec bytes x_get x_put x_add_assign x_sub_assign x_write_line x_dkey x_dmask x_dpoint x_concat x_join x_lit (Gvia_lg l) s)
    with (g_write_via_layer_geom l s).
  rewrite tie_write_via_layer_geom. reflexivity.
Qed.
Lemma tie_write_via : forall v s, g_write_via v s = wrote s (write_via (w_indent (fst s)) v).
Proof.
  intros [nm dflt data] [[ind ses] out]. unfold g_write_via, g_LefWriter_write_via, write_via, wrote, Gvia_def.
  cbn [vd_name vd_default vd_data gLefViaDef_name gLefViaDef_default gLefViaDef_data]. ws.
  destruct dflt; wst.
  all: destruct data as [[res lys]|g]; cbn [Gvia_data]; ws;
    cbn [fv_resistance_ohms fv_layers gLefFixedViaDef_resistance_ohms gLefFixedViaDef_layers]; wst.
  1,3: rewrite opt_line; wst; rewrite (w_foreach _ _ Gvia_lg _ write_via_layer_geom via_loop); wst;
       repeat rewrite <- app_assoc; cbn [app]; reflexivity.
  all: destruct g as [rn csx csy bml cl tml spx spy bex bey tex tey rc orig off];
    cbn [gv_via_rule_name gv_cut_size_x gv_cut_size_y gv_bot_metal_layer gv_cut_layer gv_top_metal_layer gv_cut_spacing_x gv_cut_spacing_y gv_bot_enc_x gv_bot_enc_y
         gv_top_enc_x gv_top_enc_y gv_rowcol gv_origin gv_offset
         gLefGeneratedViaDef_via_rule_name gLefGeneratedViaDef_cut_size_x gLefGeneratedViaDef_cut_size_y gLefGeneratedViaDef_bot_metal_layer gLefGeneratedViaDef_cut_layer
         gLefGeneratedViaDef_top_metal_layer gLefGeneratedViaDef_cut_spacing_x gLefGeneratedViaDef_cut_spacing_y gLefGeneratedViaDef_bot_enc_x gLefGeneratedViaDef_bot_enc_y
         gLefGeneratedViaDef_top_enc_x gLefGeneratedViaDef_top_enc_y gLefGeneratedViaDef_rowcol gLefGeneratedViaDef_origin gLefGeneratedViaDef_offset];
    wst; repeat (rewrite opt_line; wst); repeat rewrite <- app_assoc; cbn [app];
    destruct rc as [[rr rcc]|], orig as [[ox oy]|], off as [[o1 o2 o3 o4]|]; reflexivity.
Qed.

Lemma port_loop : forall l s,
  g_LefWriter_write_port_loop1 wm_xops nat dec bytes x_get x_put x_add_assign x_sub_assign x_write_line x_ddec x_dkey x_dmask x_dpoint x_concat x_join x_lit (Glayer_geoms l) tt s
  = Ok (Cont tt, (fst s, snd s ++ write_layer_geom (w_indent (fst s)) l)).
Proof.
  intros l s. unfold g_LefWriter_write_port_loop1. ws.
  change (g_LefWriter_write_layer_geom wm_xops nat dec bytes x_get x_put x_add_assign x_sub_assign x_write_line x_ddec x_dkey x_dmask x_dpoint x_concat x_join x_lit (Glayer_geoms l) s)
    with (g_write_layer_geom l s).
  rewrite tie_write_layer_geom. reflexivity.
Qed.
Lemma tie_write_port : forall p s, g_write_port p s = wrote s (write_port (w_indent (fst s)) p).
Proof.
  intros [cl lys] [[ind ses] out]. unfold g_write_port, g_LefWriter_write_port, write_port, wrote, Gport.
  cbn [po_class po_layers gLefPort_class gLefPort_layers]. ws. wst. rewrite opt_line. wst.
  rewrite (w_foreach _ _ Glayer_geoms _ write_layer_geom port_loop). wst.
  repeat rewrite <- app_assoc. cbn [app]. destruct cl as [c|]; [destruct c|]; reflexivity.
Qed.

Definition ant_line (i : nat) (a : lef_antenna_attr) : list line :=
  [(i, cat [aa_key a; sp; dstr (aa_val a); sp; (match aa_layer a with Some l => cat [kw K_Layer; sp; l] | None => [] end); bs " ;"])].
Lemma pin_loop1 : forall a s,
  g_LefWriter_write_pin_loop1 wm_xops dec bytes x_write_line x_ddec x_dkey x_concat x_lit (Gantenna a) tt s
  = Ok (Cont tt, (fst s, snd s ++ ant_line (w_indent (fst s)) a)).
Proof. intros [k v [l|]] s; reflexivity. Qed.
Lemma pin_loop2 : forall p s,
  g_LefWriter_write_pin_loop2 wm_xops bytes x_write_line x_dkey x_concat x_lit (Gproperty p) tt s
  = Ok (Cont tt, (fst s, snd s ++ write_property cf (w_indent (fst s)) p)).
Proof.
  intros p s. unfold g_LefWriter_write_pin_loop2. ws.
  change (g_LefWriter_write_property wm_xops bytes x_write_line x_dkey x_concat x_lit (Gproperty p) s) with (g_write_property p s).
  rewrite tie_write_property. reflexivity.
Qed.
Lemma pin_loop3 : forall p s,
  g_LefWriter_write_pin_loop3 wm_xops nat dec bytes x_get x_put x_add_assign x_sub_assign x_write_line x_ddec x_dkey x_dmask x_dpoint x_dportclass x_concat x_join x_lit (Gport p) tt s
  = Ok (Cont tt, (fst s, snd s ++ write_port (w_indent (fst s)) p)).
Proof.
  intros p s. unfold g_LefWriter_write_pin_loop3. ws.
  change (g_LefWriter_write_port wm_xops nat dec bytes x_get x_put x_add_assign x_sub_assign x_write_line x_ddec x_dkey x_dmask x_dpoint x_dportclass x_concat x_join x_lit (Gport p) s)
    with (g_write_port p s).
  rewrite tie_write_port. reflexivity.
Qed.
Lemma tie_write_pin : forall p s, g_write_pin p s = wrote s (write_pin cf (w_indent (fst s)) p).
Proof.
  intros [nm ports dir use shp am aas tr ss gs mj ne props] [[ind ses] out]. unfold g_write_pin, g_LefWriter_write_pin, write_pin, wrote, Gpin.
  cbn [pin_name pin_ports pin_direction pin_use_ pin_shape pin_antenna_model pin_antenna_attrs pin_taper_rule pin_supply_sensitivity pin_ground_sensitivity
       pin_must_join pin_net_expr pin_properties
       gLefPin_name gLefPin_ports gLefPin_direction gLefPin_use_ gLefPin_shape gLefPin_antenna_model gLefPin_antenna_attrs gLefPin_taper_rule
       gLefPin_supply_sensitivity gLefPin_ground_sensitivity gLefPin_must_join gLefPin_net_expr gLefPin_properties].
  ws. wst. repeat (rewrite opt_line; wst).
  rewrite (w_foreach _ _ Gantenna _ ant_line pin_loop1). wst. repeat (rewrite opt_line; wst).
  rewrite (w_foreach _ _ Gproperty _ (write_property cf) pin_loop2). wst.
  rewrite (w_foreach _ _ Gport _ write_port pin_loop3). wst.
  repeat rewrite <- app_assoc. cbn [app]. unfold ant_line. rewrite flat_map_single.
  destruct dir as [[|b| |]|], use as [u|], shp as [sh|], am as [a|]; try destruct u; try destruct sh; try destruct a; try destruct b; reflexivity.
Qed.
End Cf.
