(** Tie (a) of DESIGN.md 2.3 for the LEF parser (family "lef_parse", properties C04, C05, C11): the definitions generated from
    lef21/src/read.rs `LefParser::advance`, `matches`, `expect`, `peek_key`, `get_key`, `expect_key`, `parse_ident`, `parse_number`,
    `parse_point` and the WHOLE of `parse_density` (two nested `loop { match self.peek_key()? {..} }` with `break`, each entered with the fuel
    the state gives; the derive_builder of `LefDensityGeometries`; the context stack) (Gen/KernelsLefReadGen.v), read as in
    Lef/KernelsInstLefRead.v (monadic self = the model's parser state), EQUAL the functions of the same names of Lef/LefParse.v
    ([density_rect_loop], [density_loop], [parse_density]), the error value apart. *)
From Coq Require Import ZArith Bool List String Lia.
From L21 Require Import Lef.LefDec Lef.LefData Lef.LefLex Lef.LefParse.
From L21 Require Import Base.KernelOps Base.KernelOpsX Base.KernelOpsS Base.KernelOpsL Base.Outcome Gen.KernelsLefReadGen.
From L21 Require Import Lef.KernelsInstLefRead.
Import ListNotations.
Local Open Scope Z_scope.

Lemma MG_key : forall k, MLefKey (GLefKey k) = k.
Proof. destruct k; reflexivity. Qed.
Lemma MG_tty : forall t, Mtty (Gtty t) = t.
Proof. destruct t; reflexivity. Qed.
Lemma MG_tok : forall t, Mtok (Gtok t) = t.
Proof. intros [a b c ty]. unfold Mtok, Gtok. cbn. rewrite MG_tty. reflexivity. Qed.
Lemma MG_ctx : forall c, Mctx (Gctx c) = c.
Proof. destruct c; reflexivity. Qed.
Lemma tty_eqb_G : forall a b, gTokenType_eqb a (Gtty b) = ttype_eqb (Mtty a) b.
Proof. destruct a; destruct b; reflexivity. Qed.
Lemma key_eqb_M : forall a b, gLefKey_eqb a b = LefKey_eqb (MLefKey a) (MLefKey b).
Proof. destruct a; destruct b; reflexivity. Qed.

Section Ties.
Variable cf : cfg.
Variable src : bytes.
Ltac ls := cbn [lm_xops kx_base lm_kops k_bind k_ret k_panic k_fail]; unfold lm_bind, lm_ret, lm_pan.
Local Notation lu := (@lunit _).

Lemma next_token_x : forall s, x_next_token s = backl (option_map Gtok) (lunit (next_token s)).
Proof. intros s. unfold x_next_token, bind, ret. destruct (next_token s) as [[t s']| | | |]; reflexivity. Qed.

Lemma tie_advance : forall s, g_advance cf src s = lunit (advance s).
Proof.
  intros s. unfold g_advance, g_LefParser_advance, g_LefParser_next_token, advance, bind, ret. ls.
  rewrite next_token_x. destruct (next_token s) as [[t s']| | | |]; reflexivity.
Qed.
Lemma tie_matches : forall t s, g_matches cf src t s = Ok (matches t s, s).
Proof.
  intros t s. unfold g_matches, g_LefParser_matches, g_LefParser_peek_token, matches. ls. unfold x_peek_token.
  destruct (peek_token s) as [tk|]; cbn [option_map]; [|reflexivity].
  rewrite tty_eqb_G. destruct tk as [a b c ty]. cbn [Gtok gToken_ttype t_ty]. rewrite MG_tty. destruct (ttype_eqb ty t); reflexivity.
Qed.
Lemma fail_x : forall A B tp s, lm_fail cf src A s = match lunit (@LefParse.fail cf src B tp s) with Ok _ => Panic | Err e => Err e | Panic => Panic | OutOfFuel => OutOfFuel end.
Proof. intros A B tp s. unfold lm_fail, LefParse.fail, fail_msg. destruct (state cf src s) as [[[[? ?] ?] ?]|]; reflexivity. Qed.
Lemma fail_any : forall A B tp tp' s, lunit (@LefParse.fail cf src A tp s) = match lunit (@LefParse.fail cf src B tp' s) with Ok _ => Panic | Err e => Err e | Panic => Panic | OutOfFuel => OutOfFuel end.
Proof. intros. unfold LefParse.fail, fail_msg. destruct (state cf src s) as [[[[? ?] ?] ?]|]; reflexivity. Qed.
(** `self.fail(..)` in the generated code and any `fail tp` of the model: the same class *)
Lemma fail_lu : forall A tp s, lm_fail cf src A s = lunit (@LefParse.fail cf src A tp s).
Proof. intros A tp s. unfold lm_fail, LefParse.fail, fail_msg. destruct (state cf src s) as [[[[? ?] ?] ?]|]; reflexivity. Qed.

Lemma tie_expect : forall t s, backl Mtok (g_expect cf src t s) = lunit (expect cf src t s).
Proof.
  intros t s. unfold g_expect, g_LefParser_expect, g_LefParser_next_token, expect, bind. ls.
  rewrite next_token_x. destruct (next_token s) as [[tk s']| | | |]; cbn [lunit backl omap obind fst snd]; try reflexivity.
  destruct tk as [tk|]; cbn [option_map].
  - rewrite tty_eqb_G. destruct tk as [a b c ty]. cbn [Gtok gToken_ttype t_ty]. rewrite MG_tty.
    destruct (ttype_eqb ty t); [cbn [ret lunit backl omap obind fst snd]; rewrite (MG_tok (mktok a b c ty)); reflexivity|].
    cbn [k_fail lm_xops]. unfold lm_fail, LefParse.fail, fail_msg. destruct (state cf src s') as [[[[? ?] ?] ?]|]; reflexivity.
  - cbn [k_fail lm_xops]. unfold lm_fail, LefParse.fail, fail_msg. destruct (state cf src s') as [[[[? ?] ?] ?]|]; reflexivity.
Qed.

Ltac ur := repeat match goal with u : unit |- _ => destruct u end; reflexivity.
Ltac flt := cbn [k_fail lm_xops]; unfold lm_fail, LefParse.fail, fail_msg;
  match goal with |- context [state cf src ?st] => destruct (state cf src st) as [[[[? ?] ?] ?]|]; reflexivity end.

Lemma txt_x : forall t s, x_txt src (Gtok t) s = lunit (txt src t s).
Proof. intros t s. unfold x_txt. rewrite MG_tok. reflexivity. Qed.

Lemma tie_peek_key : forall s, backl MLefKey (g_peek_key cf src s) = lunit (peek_key cf src s).
Proof.
  intros s. unfold g_peek_key, g_LefParser_peek_key, g_LefParser_peek_token, peek_key. ls. unfold x_peek_token.
  destruct (peek_token s) as [tk|]; cbn [option_map]; [|flt].
  destruct tk as [a b c ty]. cbn [Gtok gToken_ttype t_ty]. change gTokenType_Name with (Gtty TName). rewrite tty_eqb_G, MG_tty.
  destruct (ttype_eqb ty TName); [|flt].
  unfold bind. change (mk_gToken (mk_gSourceLocation a b c) (Gtty ty)) with (Gtok (mktok a b c ty)). rewrite txt_x.
  destruct (txt src (mktok a b c ty) s) as [[tx s']| | | |]; cbn [lunit]; try reflexivity.
  unfold x_key_parse, lm_ret. destruct (LefKey_parse tx) as [k|]; cbn [option_map]; [|flt].
  cbn [ret lunit backl omap obind fst snd]. rewrite MG_key. reflexivity.
Qed.

Lemma tie_expect_and_get_str : forall t s, g_LefParser_expect_and_get_str (lm_xops cf src) bytes x_next_token (x_txt src) (Gtty t) s = lunit (expect_and_get_str cf src t s).
Proof.
  intros t s. unfold g_LefParser_expect_and_get_str, expect_and_get_str, bind. ls.
  pose proof (tie_expect t s) as E. unfold g_expect in E.
  destruct (g_LefParser_expect (lm_xops cf src) x_next_token (Gtty t) s) as [[g s']| | |]; destruct (expect cf src t s) as [[tk s0]| | | |];
    cbn [backl omap obind lunit fst snd] in E; try discriminate E; try ur.
  inversion E; subst. unfold x_txt. destruct (txt src (Mtok g) s0) as [[? ?]| | | |]; reflexivity.
Qed.
Lemma tie_get_key : forall s, backl MLefKey (g_get_key cf src s) = lunit (get_key cf src s).
Proof.
  intros s. unfold g_get_key, g_LefParser_get_key, get_key, bind. ls. change gTokenType_Name with (Gtty TName). rewrite tie_expect_and_get_str.
  destruct (expect_and_get_str cf src TName s) as [[tx s']| | | |]; cbn [lunit backl omap obind]; try reflexivity.
  unfold x_key_parse, lm_ret. destruct (LefKey_parse tx) as [k|]; cbn [option_map]; [|flt].
  cbn [ret lunit backl omap obind fst snd]. rewrite MG_key. reflexivity.
Qed.
Lemma tie_expect_key : forall k s, g_expect_key cf src k s = lunit (expect_key cf src k s).
Proof.
  intros k s. unfold g_expect_key, g_LefParser_expect_key, expect_key, bind. ls.
  pose proof (tie_get_key s) as E. unfold g_get_key in E.
  destruct (g_LefParser_get_key (lm_xops cf src) bytes x_key_parse x_next_token (x_txt src) s) as [[g s']| | |]; destruct (get_key cf src s) as [[k0 s0]| | | |];
    cbn [backl omap obind lunit fst snd] in E; try discriminate E; try ur.
  inversion E; subst. rewrite key_eqb_M, MG_key. destruct (LefKey_eqb (MLefKey g) k); cbn [negb]; [reflexivity|].
  cbn [k_bind lm_kops]. unfold lm_bind. cbn [k_fail lm_xops]. unfold lm_fail, LefParse.fail, fail_msg. destruct (state cf src s0) as [[[[? ?] ?] ?]|]; reflexivity.
Qed.
Lemma tie_parse_ident : forall s, g_parse_ident cf src s = lunit (parse_ident cf src s).
Proof.
  intros s. unfold g_parse_ident, g_LefParser_parse_ident, g_LefParser_get_name, parse_ident, get_name. ls.
  change gTokenType_Name with (Gtty TName). rewrite tie_expect_and_get_str. destruct (expect_and_get_str cf src TName s) as [[tx s']| | | |]; reflexivity.
Qed.
Lemma tie_parse_number : forall s, g_parse_number cf src s = lunit (parse_number cf src s).
Proof.
  intros s. unfold g_parse_number, g_LefParser_parse_number, parse_number, bind. ls.
  pose proof (tie_expect TNumber s) as E. unfold g_expect in E. change gTokenType_Number with (Gtty TNumber).
  destruct (g_LefParser_expect (lm_xops cf src) x_next_token (Gtty TNumber) s) as [[g s']| | |]; destruct (expect cf src TNumber s) as [[tk s0]| | | |];
    cbn [backl omap obind lunit fst snd] in E; try discriminate E; try ur.
  inversion E; subst. unfold x_txt. destruct (txt src (Mtok g) s0) as [[tx s1]| | | |]; cbn [lunit]; try reflexivity.
  unfold x_from_str, lift, ret. destruct (dec_of_bytes tx); reflexivity.
Qed.
Lemma tie_parse_point : forall s, backl Mpoint (g_parse_point cf src s) = lunit (parse_point cf src s).
Proof.
  intros s. unfold g_parse_point, g_LefParser_parse_point, g_LefPoint_new, parse_point, bind. ls.
  change (g_LefParser_parse_number (lm_xops cf src) dec bytes x_from_str x_next_token (x_txt src)) with (g_parse_number cf src).
  rewrite tie_parse_number. destruct (parse_number cf src s) as [[x s1]| | | |]; cbn [lunit backl omap obind]; try reflexivity.
  rewrite tie_parse_number. destruct (parse_number cf src s1) as [[y s2]| | | |]; reflexivity.
Qed.

Lemma map_MG_ctx : forall l, map Mctx (map Gctx l) = l.
Proof. induction l as [|c l IH]; [reflexivity|]. cbn [map]. rewrite MG_ctx, IH. reflexivity. Qed.
Lemma removelast_map : forall (A B : Type) (f : A -> B) l, removelast (map f l) = map f (removelast l).
Proof. induction l as [|a [|b l] IH]; try reflexivity. cbn [map removelast] in *. rewrite IH. reflexivity. Qed.

(** ** parse_density *)
Definition lres (A : Type) := LefParse.res (A * pst).
Definition lmap {A B : Type} (f : A -> B) (x : lres A) : lres B :=
  match x with LefParse.Ok (a, st) => LefParse.Ok (f a, st) | LefParse.Err e => LefParse.Err e | LefParse.Panic => LefParse.Panic
             | LefParse.OutOfFuel => LefParse.OutOfFuel | LefParse.Unmodelled => LefParse.Unmodelled end.
Definition unctrl {R S B : Type} (f : R -> B) (g : S -> B) (c : ctrl R S) : B := match c with Brk r => f r | Cont s => g s end.
Definition rect_run (f : nat) (acc : list (gLefDensityRectangle dec unit Z)) (s : pst) :=
  k_loop lm_kops (lm_nofuel _) f
    (fun fuel st => g_LefParser_parse_density_loop2 (lm_xops cf src) dec bytes x_from_str x_key_parse x_next_token x_peek_token (x_txt src) fuel st) acc s.

Lemma tie_parse_density_rect_loop : forall f s acc,
  backl (unctrl (fun _ => None) (fun l => Some (map Mdrect l))) (rect_run f acc s) = lunit (lmap Some (density_rect_loop cf src f (map Mdrect acc) s)).
Proof.
  induction f as [|f IH]; intros s acc; unfold rect_run; [reflexivity|].
  cbn [k_loop density_rect_loop]. ls. unfold g_LefParser_parse_density_loop2 at 1. ls. unfold bind at 1.
  pose proof (tie_peek_key s) as E. unfold g_peek_key in E.
  destruct (g_LefParser_peek_key (lm_xops cf src) bytes x_key_parse x_peek_token (x_txt src) s) as [[g s1]| | |]; destruct (peek_key cf src s) as [[k s0]| | | |];
    cbn [backl omap obind lunit fst snd] in E; try discriminate E; try ur.
  inversion E; subst. clear E.
  destruct g; cbn [MLefKey]; try (cbn [lmap lunit backl omap obind]; flt); try reflexivity.
  (* RECT *)
  unfold bind.
  change (g_LefParser_advance (lm_xops cf src) x_next_token s0) with (g_advance cf src s0). rewrite tie_advance.
  destruct (advance s0) as [[[] s2]| | | |]; cbn [lunit lmap backl omap obind]; try reflexivity.
  change (g_LefParser_parse_point (lm_xops cf src) dec bytes x_from_str x_next_token (x_txt src)) with (g_parse_point cf src).
  pose proof (tie_parse_point s2) as E1.
  destruct (g_parse_point cf src s2) as [[p1 s3]| | |]; destruct (parse_point cf src s2) as [[q1 s3']| | | |];
    cbn [backl omap obind lunit fst snd] in E1; try discriminate E1; try ur.
  inversion E1; subst. clear E1.
  pose proof (tie_parse_point s3') as E2.
  destruct (g_parse_point cf src s3') as [[p2 s4]| | |]; destruct (parse_point cf src s3') as [[q2 s4']| | | |];
    cbn [backl omap obind lunit fst snd] in E2; try discriminate E2; try ur.
  inversion E2; subst. clear E2.
  change (g_LefParser_parse_number (lm_xops cf src) dec bytes x_from_str x_next_token (x_txt src) s4') with (g_parse_number cf src s4'). rewrite tie_parse_number.
  destruct (parse_number cf src s4') as [[v s5]| | | |]; cbn [lunit lmap backl omap obind]; try reflexivity.
  unfold expect_semi, bind.
  pose proof (tie_expect TSemi s5) as E3. unfold g_expect in E3. change gTokenType_SemiColon with (Gtty TSemi).
  destruct (g_LefParser_expect (lm_xops cf src) x_next_token (Gtty TSemi) s5) as [[g s6]| | |]; destruct (expect cf src TSemi s5) as [[tk s6']| | | |];
    cbn [backl omap obind lunit fst snd] in E3; try discriminate E3; try ur.
  inversion E3; subst. clear E3. cbn [ret].
  pose proof (IH s6' (acc ++ [mk_gLefDensityRectangle dec p1 p2 v])) as P. unfold rect_run in P. rewrite map_app in P. exact P.
Qed.

Definition dens_run (f : nat) (acc : list (gLefDensityGeometries dec bytes unit Z)) (s : pst) :=
  k_loop lm_kops (lm_nofuel _) f
    (fun fuel st => g_LefParser_parse_density_loop1 (lm_xops cf src) dec bytes lm_nofuel x_from_str x_key_parse x_next_token x_peek_token (x_txt src) x_fuel fuel st) acc s.

Lemma tie_parse_density_loop : forall f s acc,
  backl (unctrl (fun _ => None) (fun l => Some (map Mdgeoms l))) (dens_run f acc s) = lunit (lmap Some (density_loop cf src f (map Mdgeoms acc) s)).
Proof.
  induction f as [|f IH]; intros s acc; unfold dens_run; [reflexivity|].
  cbn [k_loop density_loop]. ls. unfold g_LefParser_parse_density_loop1 at 1. ls. unfold bind at 1.
  pose proof (tie_peek_key s) as E. unfold g_peek_key in E.
  destruct (g_LefParser_peek_key (lm_xops cf src) bytes x_key_parse x_peek_token (x_txt src) s) as [[g s1]| | |]; destruct (peek_key cf src s) as [[k s0]| | | |];
    cbn [backl omap obind lunit fst snd] in E; try discriminate E; try ur.
  inversion E; subst. clear E.
  destruct g; cbn [MLefKey]; try (cbn [lmap lunit backl omap obind]; flt).
  - (* END *) unfold bind.
    change (g_LefParser_advance (lm_xops cf src) x_next_token s0) with (g_advance cf src s0). rewrite tie_advance.
    destruct (advance s0) as [[[] s2]| | | |]; reflexivity.
  - (* LAYER *) unfold bind.
    change (g_LefParser_expect_key (lm_xops cf src) bytes x_key_parse x_next_token (x_txt src) gLefKey_Layer s0) with (g_expect_key cf src K_Layer s0).
    rewrite tie_expect_key. destruct (expect_key cf src K_Layer s0) as [[[] s2]| | | |]; cbn [lunit lmap backl omap obind]; try reflexivity.
    change (g_LefParser_parse_ident (lm_xops cf src) bytes x_next_token (x_txt src) s2) with (g_parse_ident cf src s2). rewrite tie_parse_ident.
    destruct (parse_ident cf src s2) as [[nm s3]| | | |]; cbn [lunit lmap backl omap obind]; try reflexivity.
    unfold g_LefDensityGeometriesBuilder_layer_name. ls. unfold expect_semi, bind.
    pose proof (tie_expect TSemi s3) as E3. unfold g_expect in E3. change gTokenType_SemiColon with (Gtty TSemi).
    destruct (g_LefParser_expect (lm_xops cf src) x_next_token (Gtty TSemi) s3) as [[g s4]| | |]; destruct (expect cf src TSemi s3) as [[tk s4']| | | |];
      cbn [backl omap obind lunit fst snd] in E3; try discriminate E3; try ur.
    inversion E3; subst. clear E3. cbn [ret]. unfold x_fuel at 1. unfold get.
    fold (rect_run (fuel_of s4') [] s4').
    pose proof (tie_parse_density_rect_loop (fuel_of s4') s4' []) as P. cbn [map] in P.
    destruct (rect_run (fuel_of s4') [] s4') as [[[v|rs] s5]| | |]; destruct (density_rect_loop cf src (fuel_of s4') [] s4') as [[rects s5']| | | |];
      cbn [backl omap obind lunit lmap fst snd unctrl] in P; try discriminate P; try ur.
    inversion P; subst. clear P.
    unfold g_LefDensityGeometriesBuilder_geometries, g_LefDensityGeometriesBuilder_build. ls.
    cbn [gLefDensityGeometriesBuilder_layer_name gLefDensityGeometriesBuilder_geometries].
    pose proof (IH s5' (acc ++ [mk_gLefDensityGeometries dec bytes nm rs])) as Q. unfold dens_run in Q. rewrite map_app in Q. exact Q.
Qed.

Lemma tie_parse_density : forall s, backl (map Mdgeoms) (g_parse_density cf src s) = lunit (parse_density cf src s).
Proof.
  intros s. unfold g_parse_density, g_LefParser_parse_density, parse_density, bind, push, pop. ls.
  unfold x_get at 1. unfold x_put at 1. cbn [gLefParser_ctx]. rewrite map_app, map_MG_ctx. cbn [map Mctx].
  change (g_LefParser_expect_key (lm_xops cf src) bytes x_key_parse x_next_token (x_txt src) gLefKey_Density) with (g_expect_key cf src K_Density).
  rewrite tie_expect_key. destruct (expect_key cf src K_Density (with_ctx s (p_ctx s ++ [CtxDensity]))) as [[[] s2]| | | |]; cbn [lunit backl omap obind]; try reflexivity.
  unfold x_fuel at 1. unfold get. fold (dens_run (fuel_of s2) [] s2).
  pose proof (tie_parse_density_loop (fuel_of s2) s2 []) as P. cbn [map] in P.
  destruct (dens_run (fuel_of s2) [] s2) as [[[v|ds] s3]| | |]; destruct (density_loop cf src (fuel_of s2) [] s2) as [[d s3']| | | |];
    cbn [backl omap obind lunit lmap fst snd unctrl] in P; try discriminate P; try ur.
  inversion P; subst. clear P.
  unfold x_get, x_put. cbn [gLefParser_ctx]. unfold k_pop. rewrite removelast_map, map_MG_ctx. reflexivity.
Qed.
End Ties.
