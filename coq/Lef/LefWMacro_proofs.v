(** C05, writer side: the MACRO block (CLASS line, FOREIGN, DENSITY, the container) as the writer prints it.
    PIN, LAYER blocks and SYMMETRY lines are parameters of the section (proved by other files). *)
From Coq Require Import String.
From Coq Require Import ZArith List Bool Lia.
From L21 Require Import Lef.LefDec Lef.LefData Lef.LefLex Lef.LefParse Lef.LefWrite Lef.LefSpec Lef.LefCheck
                        Lef.LefLex_proofs Lef.LefRtLex_proofs Lef.LefRtFrame_proofs Lef.LefRtPerm_proofs
                        Lef.LefRtConstr_proofs Lef.LefRtLib_proofs Lef.LefRtRender_proofs Lef.LefWDec_proofs
                        Lef.LefRtPin_proofs Lef.LefRtMacro_proofs Lef.LefWFrame_proofs.
Import ListNotations.
Local Open Scope list_scope.
Local Open Scope Z_scope.

(** * 0. Layout helpers *)
Lemma lays_ct : forall t s rest ts, blank s -> s <> [] -> lays rest ts -> lays (wtok_text t ++ s ++ rest) (t :: ts).
Proof.
  intros t s rest ts B N L. rewrite app_assoc. change (t :: ts) with ([t] ++ ts).
  apply lays_app; [apply lays_tok; assumption | exact L].
Qed.

Ltac blk :=
  unfold blank;
  repeat first [ apply Forall_nil
               | apply Forall_cons; [first [left; reflexivity | right; reflexivity]|]
               | apply blank_indent
               | apply Forall_app; split ].

(** one step of a layout proof on a right-nested byte string *)
Ltac lay1 :=
  lazymatch goal with
  | |- lays [] [] => apply lays_nil
  | |- lays _ [] => apply lays_blank; solve [blk]
  | |- lays (_ ++ _ ++ _) (?t :: _) =>
    first [ apply (lays_ct t); [solve [blk] | discriminate |] | apply lays_blank_l; [solve [blk]|] ]
  | |- lays (_ ++ _) [?t] =>
    first [ apply (lays_tok t); [solve [blk] | discriminate] | apply lays_blank_l; [solve [blk]|] ]
  end.
Ltac lay := repeat lay1.

(** a line: strip the indentation, right-nest the text *)
Ltac line_norm :=
  rewrite render_lines_one; apply lays_blank_l; [apply blank_indent|];
  unfold pt_str, cat, sp; cbn [concat]; rewrite ?app_nil_r; repeat rewrite <- app_assoc; rewrite ?app_nil_l.

Lemma semi_nl : bs " ;" ++ [10] = [32] ++ wtok_text SSemi ++ [10].
Proof. reflexivity. Qed.
Lemma semi_sp_nl : bs " ; " ++ [10] = [32] ++ wtok_text SSemi ++ [32; 10].
Proof. reflexivity. Qed.

Lemma render_lines_flat_map {X} : forall (f : X -> list line) l,
  render_lines (flat_map f l) = flat_map (fun x => render_lines (f x)) l.
Proof.
  induction l as [|x l IH]; [reflexivity|]. cbn [flat_map]. rewrite render_lines_app, IH. reflexivity.
Qed.

(** enum texts *)
Lemma enum_block : forall x, enum_s LefBlockClassType_to_str x = wtok_text (K (s_block x)).
Proof. destruct x; reflexivity. Qed.
Lemma enum_pad : forall x, enum_s LefPadClassType_to_str x = wtok_text (K (s_pad x)).
Proof. destruct x; reflexivity. Qed.
Lemma enum_core : forall x, enum_s LefCoreClassType_to_str x = wtok_text (K (s_core x)).
Proof. destruct x; reflexivity. Qed.
Lemma enum_endcap : forall x, enum_s LefEndCapClassType_to_str x = wtok_text (K (s_endcap x)).
Proof. destruct x; reflexivity. Qed.
Lemma enum_orient : forall x, enum_s LefOrient_to_str x = wtok_text (K (s_orient x)).
Proof. destruct x; reflexivity. Qed.
Lemma enum_source : forall x, enum_s LefDefSource_to_str x = wtok_text (K (s_source x)).
Proof. destruct x; reflexivity. Qed.

(** * 1. CLASS *)
Lemma lays_macro_class : forall i c, lays (render_lines (write_macro_class i c)) (t_macro_class c).
Proof.
  intros i c. unfold write_macro_class, t_macro_class, display_option.
  destruct c as [b| |t|t|t|t].
  - destruct b; cbn [app]; line_norm; rewrite semi_nl; lay.
  - cbn [app]; line_norm; rewrite semi_nl; lay.
  - destruct t as [x|]; [rewrite enum_block|]; cbn [app]; line_norm; rewrite semi_nl; lay.
  - destruct t as [x|]; [rewrite enum_pad|]; cbn [app]; line_norm; rewrite semi_nl; lay.
  - destruct t as [x|]; [rewrite enum_core|]; cbn [app]; line_norm; rewrite semi_nl; lay.
  - rewrite enum_endcap; cbn [app]; line_norm; rewrite semi_nl; lay.
Qed.

(** * 2. DENSITY *)
Lemma render_lines_map {X} : forall (f : X -> line) l,
  render_lines (map f l) = flat_map (fun x => render_lines [f x]) l.
Proof.
  induction l as [|x l IH]; [reflexivity|]. cbn [map flat_map]. change (f x :: map f l) with ([f x] ++ map f l).
  rewrite render_lines_app, IH. reflexivity.
Qed.

Lemma lays_density : forall i d, lays (render_lines (write_density i d)) (t_density d).
Proof.
  intros i d. unfold write_density, t_density. rewrite !render_lines_app.
  apply lays_app; [line_norm; lay | apply lays_app; [|line_norm; lay]].
  rewrite render_lines_flat_map. apply lays_flat_map. intros g _.
  match goal with |- lays (render_lines (?a :: ?l)) _ => change (a :: l) with ([a] ++ l) end.
  rewrite render_lines_app. apply lays_app.
  - line_norm. rewrite semi_sp_nl. lay.
  - rewrite render_lines_map. apply lays_flat_map. intros r _.
    unfold t_point. cbn [app]. line_norm. rewrite semi_sp_nl. lay.
Qed.

(** * 3. the single-line statements of a MACRO block *)
(** FOREIGN as the writer prints it: the orientation is printed also when there is no point *)
Definition w_foreign (f : lef_foreign) : list stok :=
  [K "FOREIGN"; SName (fo_cell_name f)]
  ++ (match fo_pt f with Some p => t_point p | None => [] end)
  ++ (match fo_orient f with Some o => [K (s_orient o)] | None => [] end)
  ++ [SSemi].
Lemma w_foreign_wf : forall f, foreign_wf f -> w_foreign f = t_foreign f.
Proof.
  intros f WF. unfold w_foreign, t_foreign, foreign_wf in *. destruct (fo_pt f) as [p|].
  - rewrite <- app_assoc. reflexivity.
  - rewrite (WF eq_refl). reflexivity.
Qed.

Lemma lays_foreign_line : forall i v,
  lays (render_lines [(i, cat [kw K_Foreign; sp; fo_cell_name v; sp;
                               match fo_pt v with Some p => pt_str p | None => [] end; sp;
                               display_option LefOrient_to_str (fo_orient v); bs " ;"])]) (w_foreign v).
Proof.
  intros i v. unfold w_foreign, display_option, t_point.
  destruct (fo_pt v) as [p|]; destruct (fo_orient v) as [o|]; try rewrite enum_orient; cbn [app];
    line_norm; rewrite semi_nl; lay.
Qed.

Lemma lays_macro_head : forall i n, lays (render_lines [(i, cat [kw K_Macro; sp; n])]) [K "MACRO"; SName n].
Proof. intros. line_norm. lay. Qed.
Lemma lays_macro_end : forall i n, lays (render_lines [(i, cat [kw K_End; sp; n; sp])]) [K "END"; SName n].
Proof. intros. line_norm. lay. Qed.
Lemma lays_fixedmask : forall i, lays (render_lines [(i, kw K_FixedMask ++ bs " ;")]) [K "FIXEDMASK"; SSemi].
Proof. intros. line_norm. rewrite semi_nl. lay. Qed.
Lemma lays_origin : forall i v,
  lays (render_lines [(i, cat [kw K_Origin; sp; pt_str v; bs " ;"])]) ([K "ORIGIN"] ++ t_point v ++ [SSemi]).
Proof. intros. unfold t_point. cbn [app]. line_norm. rewrite semi_nl. lay. Qed.
Lemma lays_source : forall i v,
  lays (render_lines [(i, cat [kw K_Source; sp; enum_s LefDefSource_to_str v; bs " ;"])]) [K "SOURCE"; K (s_source v); SSemi].
Proof. intros. rewrite enum_source. line_norm. rewrite semi_nl. lay. Qed.
Lemma lays_eeq : forall i c, lays (render_lines [(i, cat [kw K_Eeq; sp; c; bs " ;"])]) [K "EEQ"; SName c; SSemi].
Proof. intros. line_norm. rewrite semi_nl. lay. Qed.
Lemma lays_site_stmt : forall i c, lays (render_lines [(i, cat [kw K_Site; sp; c; bs " ;"])]) [K "SITE"; SName c; SSemi].
Proof. intros. line_norm. rewrite semi_nl. lay. Qed.
Lemma lays_size : forall i v,
  lays (render_lines [(i, cat [kw K_Size; sp; dstr (fst v); sp; kw K_By; sp; dstr (snd v); bs " ;"])]) (t_size v).
Proof. intros. unfold t_size. line_norm. rewrite semi_nl. lay. Qed.
Lemma lays_property : forall i p, lays (render_lines (write_property cfg_fixed i p)) (prop_toks [p]).
Proof.
  intros. unfold write_property, prop_toks. cbn [c_w_prop_nosemi cfg_fixed flat_map app].
  line_norm. rewrite semi_nl. lay.
Qed.

(** * 4. the MACRO block *)
Section WMacro.
Variable w_pin : lef_pin -> list stok.
Hypothesis lays_pin : forall i p, lays (render_lines (write_pin cfg_fixed i p)) (w_pin p).
Hypothesis wok_pin : forall p, pin_wr p -> Forall wtok_ok (w_pin p).
Hypothesis toksP_pin_w : forall p atoks, pin_wr p -> Forall2 arel (w_pin p) atoks -> pin_toksP p atoks.
Hypothesis w_pin_head : forall p, exists r, w_pin p = K "PIN" :: r.
Variable w_layer : lef_layer_geoms -> list stok.
Hypothesis lays_layer : forall i l, lays (render_lines (write_layer_geom i l)) (w_layer l).
Hypothesis wok_layer : forall l, layer_wr l -> Forall wtok_ok (w_layer l).
Hypothesis toksP_layer_w : forall l atoks, layer_wr l -> Forall2 arel (w_layer l) atoks -> layer_toksP l atoks.
Hypothesis lays_symmetries : forall i s, lays (render_lines (write_symmetries i s)) (t_symmetry s).

Definition w_obs (ls : list lef_layer_geoms) : list stok := [K "OBS"] ++ flat_map w_layer ls ++ [K "END"].
Definition optl {A} (f : A -> list stok) (o : option A) : list stok := match o with Some x => f x | None => [] end.

(** the tokens of a MACRO block in the order the writer prints them *)
Definition w_macro (m : lef_macro) : list stok :=
  [K "MACRO"; SName (mac_name m)]
  ++ optl t_macro_class (mac_class m)
  ++ (if mac_fixed_mask m then [K "FIXEDMASK"; SSemi] else [])
  ++ optl w_foreign (mac_foreign m)
  ++ optl (fun p => [K "ORIGIN"] ++ t_point p ++ [SSemi]) (mac_origin m)
  ++ optl (fun v => [K "SOURCE"; K (s_source v); SSemi]) (mac_source m)
  ++ optl (fun v => [K "EEQ"; SName v; SSemi]) (mac_eeq m)
  ++ optl t_size (mac_size m)
  ++ optl t_symmetry (mac_symmetry m)
  ++ optl (fun v => [K "SITE"; SName v; SSemi]) (mac_site m)
  ++ flat_map w_pin (mac_pins m)
  ++ (match mac_obs m with [] => [] | obs => w_obs obs end)
  ++ flat_map (fun p => prop_toks [p]) (mac_properties m)
  ++ optl t_density (mac_density m)
  ++ [K "END"; SName (mac_name m)].

Lemma lays_obs : forall i ls,
  lays (render_lines ([(S i, kw K_Obs ++ sp)] ++ flat_map (write_layer_geom (S (S i))) ls ++ [(S i, kw K_End ++ sp)])) (w_obs ls).
Proof.
  intros i ls. unfold w_obs. rewrite !render_lines_app.
  apply lays_app; [line_norm; lay | apply lays_app; [|line_norm; lay]].
  rewrite render_lines_flat_map. apply lays_flat_map. intros l _. apply lays_layer.
Qed.

Lemma lays_macro : forall ver i m lines, write_macro cfg_fixed ver i m = Ok lines -> lays (render_lines lines) (w_macro m).
Proof.
  intros ver i m lines H. unfold write_macro in H.
  match type of H with context [Ok (?a ++ ?b)] => set (body := a ++ b) in * end.
  assert (L : lays (render_lines body) (w_macro m)).
  { clear H. subst body. unfold w_macro. rewrite !render_lines_app.
    apply lays_app; [apply lays_macro_head|].
    apply lays_app; [destruct (mac_class m); [apply lays_macro_class | apply lays_nil]|].
    apply lays_app; [destruct (mac_fixed_mask m); [apply lays_fixedmask | apply lays_nil]|].
    apply lays_app; [destruct (mac_foreign m); [apply lays_foreign_line | apply lays_nil]|].
    apply lays_app; [destruct (mac_origin m); [apply lays_origin | apply lays_nil]|].
    apply lays_app; [destruct (mac_source m); [apply lays_source | apply lays_nil]|].
    apply lays_app; [destruct (mac_eeq m); [apply lays_eeq | apply lays_nil]|].
    apply lays_app; [destruct (mac_size m); [apply lays_size | apply lays_nil]|].
    apply lays_app; [destruct (mac_symmetry m); [apply lays_symmetries | apply lays_nil]|].
    apply lays_app; [destruct (mac_site m); [apply lays_site_stmt | apply lays_nil]|].
    apply lays_app; [rewrite render_lines_flat_map; apply lays_flat_map; intros p _; apply lays_pin|].
    apply lays_app; [destruct (mac_obs m) as [|o obs]; [apply lays_nil | apply lays_obs]|].
    apply lays_app; [rewrite render_lines_flat_map; apply lays_flat_map; intros p _; apply lays_property|].
    apply lays_app; [destruct (mac_density m); [apply lays_density | apply lays_nil]|].
    apply lays_macro_end. }
  clearbody body. revert H. destruct (mac_source m) as [s|]; [destruct (dec_gt ver V5P4)|]; intros H;
    try discriminate H; injection H as <-; exact L.
Qed.

Lemma write_macro_ok : forall ver i m, (mac_source m <> None -> dec_gt ver V5P4 = false) ->
  exists lines, write_macro cfg_fixed ver i m = Ok lines.
Proof.
  intros ver i m H. unfold write_macro. destruct (mac_source m) as [s|].
  - rewrite H by discriminate. eexists. reflexivity.
  - eexists. reflexivity.
Qed.

Lemma lays_macros : forall ver ms lines, write_macros cfg_fixed ver ms = Ok lines ->
  lays (render_lines lines) (flat_map w_macro ms).
Proof.
  intros ver. induction ms as [|m ms IH]; intros lines H; cbn [write_macros flat_map] in H |- *.
  - injection H as <-. apply lays_nil.
  - destruct (write_macro cfg_fixed ver 0 m) as [l| | | |] eqn:E1; try discriminate H.
    destruct (write_macros cfg_fixed ver ms) as [l'| | | |] eqn:E2; try discriminate H.
    injection H as <-. rewrite render_lines_app. apply lays_app; [apply (lays_macro ver 0%nat m l E1) | apply IH; reflexivity].
Qed.

Lemma write_macros_ok : forall ver ms, Forall (fun m => mac_source m <> None -> dec_gt ver V5P4 = false) ms ->
  exists lines, write_macros cfg_fixed ver ms = Ok lines.
Proof.
  intros ver. induction ms as [|m ms IH]; intros F; cbn [write_macros].
  - eexists. reflexivity.
  - inversion F as [|m' ms' Hm Hms]; subst. destruct (write_macro_ok ver 0%nat m Hm) as (l & ->).
    destruct (IH Hms) as (l' & ->). eexists. reflexivity.
Qed.

(** ** the tokens are lexed as themselves *)
Ltac wk := repeat (apply Forall_cons; [first [reflexivity | exact I | assumption]|]); try apply Forall_nil.

Lemma Forall_flat_map_in {X Y} (P : Y -> Prop) (f : X -> list Y) l :
  (forall x, In x l -> Forall P (f x)) -> Forall P (flat_map f l).
Proof.
  induction l as [|x l IH]; intros H; cbn [flat_map]; [constructor|].
  apply Forall_app. split; [apply H; left; reflexivity | apply IH; intros y Hy; apply H; right; exact Hy].
Qed.

Lemma wok_macro_class : forall c, Forall wtok_ok (t_macro_class c).
Proof. intros c. unfold t_macro_class. destruct c as [[|]| |[[]|]|[[]|]|[[]|]|[]]; cbn [app]; wk. Qed.
Lemma wok_point : forall p, point_wr p -> Forall wtok_ok (t_point p).
Proof. intros p [Hx Hy]. unfold t_point. wk. Qed.
Lemma wok_foreign : forall f, foreign_wr f -> Forall wtok_ok (w_foreign f).
Proof.
  intros f (N & P & _). unfold w_foreign. apply Forall_app. split; [wk|].
  apply Forall_app. split; [destruct (fo_pt f); [apply wok_point; exact P | constructor]|].
  apply Forall_app. split; [destruct (fo_orient f) as [[]|]; wk | wk].
Qed.
Lemma wok_symmetry : forall s, Forall wtok_ok (t_symmetry s).
Proof.
  intros s. unfold t_symmetry. apply Forall_app. split; [wk|]. apply Forall_app. split; [|wk].
  induction s as [|x s IH]; cbn [map]; constructor; [destruct x; reflexivity | exact IH].
Qed.
Lemma val_tok_any : forall b, val_tok b -> any_tok b.
Proof. intros b (ty & H & _). exists ty. exact H. Qed.
Lemma wok_property : forall p, property_wr p -> Forall wtok_ok (prop_toks [p]).
Proof.
  intros p [N V]. unfold prop_toks. cbn [flat_map app]. pose proof (val_tok_any _ V) as A. wk.
Qed.
Lemma wok_density : forall d, density_wr d -> Forall wtok_ok (t_density d).
Proof.
  intros d W. unfold t_density. apply Forall_app. split; [wk|]. apply Forall_app. split; [|wk].
  apply Forall_flat_map_in. intros g Hg. unfold density_wr in W. rewrite Forall_forall in W. destruct (W g Hg) as [N R].
  apply Forall_app. split; [wk|]. apply Forall_flat_map_in. intros r Hr. rewrite Forall_forall in R.
  destruct (R r Hr) as ([X1 Y1] & [X2 Y2] & V). unfold t_point. cbn [app]. wk.
Qed.

Lemma wok_macro : forall m, macro_wr m -> Forall wtok_ok (w_macro m).
Proof.
  intros m (N & Pins & Obs & Fo & Or & Sz & Si & Ee & Pr & De). unfold w_macro.
  apply Forall_app. split; [wk|].
  apply Forall_app. split; [destruct (mac_class m); [apply wok_macro_class | constructor]|].
  apply Forall_app. split; [destruct (mac_fixed_mask m); wk|].
  apply Forall_app. split; [destruct (mac_foreign m); [apply wok_foreign; exact Fo | constructor]|].
  apply Forall_app. split; [destruct (mac_origin m) as [p|]; [|constructor]|].
  { cbn [optl optP] in *. apply Forall_app. split; [wk|]. apply Forall_app. split; [apply wok_point; exact Or | wk]. }
  apply Forall_app. split; [destruct (mac_source m) as [[]|]; cbn [optl]; wk|].
  apply Forall_app. split; [destruct (mac_eeq m); cbn [optl optP] in *; wk|].
  apply Forall_app. split; [destruct (mac_size m) as [sz|]; cbn [optl optP] in *; [destruct Sz; unfold t_size; wk | constructor]|].
  apply Forall_app. split; [destruct (mac_symmetry m); [apply wok_symmetry | constructor]|].
  apply Forall_app. split; [destruct (mac_site m); cbn [optl optP] in *; wk|].
  apply Forall_app. split; [apply Forall_flat_map_in; intros p Hp; apply wok_pin; rewrite Forall_forall in Pins; apply Pins; exact Hp|].
  apply Forall_app. split.
  { destruct (mac_obs m) as [|o obs]; [constructor|]. unfold w_obs. apply Forall_app. split; [wk|]. apply Forall_app. split; [|wk].
    apply Forall_flat_map_in. intros l Hl. apply wok_layer. rewrite Forall_forall in Obs. apply Obs. exact Hl. }
  apply Forall_app. split; [apply Forall_flat_map_in; intros p Hp; apply wok_property; rewrite Forall_forall in Pr; apply Pr; exact Hp|].
  apply Forall_app. split; [destruct (mac_density m); [apply wok_density; exact De | constructor]|].
  wk.
Qed.

(** ** the tokens are read back as the macro *)
(** the statements with their tokens, in the writer's order *)
Definition w_body (m : lef_macro) : list titem :=
  opt_body MsClass t_macro_class (mac_class m)
  ++ (if mac_fixed_mask m then [(MsFixedMask, [K "FIXEDMASK"; SSemi])] else [])
  ++ opt_body MsForeign w_foreign (mac_foreign m)
  ++ opt_body MsOrigin (fun p => [K "ORIGIN"] ++ t_point p ++ [SSemi]) (mac_origin m)
  ++ opt_body MsSource (fun v => [K "SOURCE"; K (s_source v); SSemi]) (mac_source m)
  ++ opt_body MsEeq (fun v => [K "EEQ"; SName v; SSemi]) (mac_eeq m)
  ++ opt_body MsSize t_size (mac_size m)
  ++ opt_body MsSymmetry t_symmetry (mac_symmetry m)
  ++ opt_body MsSite (fun v => [K "SITE"; SName v; SSemi]) (mac_site m)
  ++ map (fun p => (MsPin p, w_pin p)) (mac_pins m)
  ++ (match mac_obs m with [] => [] | x :: r => [(MsObs (x :: r), w_obs (x :: r))] end)
  ++ map (fun p => (MsProps [p], prop_toks [p])) (mac_properties m)
  ++ opt_body MsDensity t_density (mac_density m).

Lemma fm_opt_body {A} (C : A -> mstmt) (f : A -> list stok) o : flat_map snd (opt_body C f o) = optl f o.
Proof. destruct o; cbn [opt_body flat_map snd optl]; [apply app_nil_r | reflexivity]. Qed.
Lemma fm_map {A} (C : A -> mstmt) (f : A -> list stok) l : flat_map snd (map (fun p => (C p, f p)) l) = flat_map f l.
Proof. induction l as [|x l IH]; [reflexivity|]. cbn [map flat_map snd]. rewrite IH. reflexivity. Qed.

Lemma w_macro_body : forall m,
  w_macro m = [K "MACRO"; SName (mac_name m)] ++ flat_map snd (w_body m) ++ [K "END"; SName (mac_name m)].
Proof.
  intros m. unfold w_macro, w_body. rewrite !flat_map_app, !fm_opt_body.
  rewrite (fm_map MsPin w_pin), (fm_map (fun p => MsProps [p]) (fun p => prop_toks [p])).
  repeat rewrite <- app_assoc.
  destruct (mac_fixed_mask m); destruct (mac_obs m); cbn [flat_map snd]; rewrite ?app_nil_r; reflexivity.
Qed.

Lemma val_tok_not_semi : forall p, property_wr p -> prop_val_ok p.
Proof.
  intros p [_ (ty & L & T)]. unfold prop_val_ok. destruct (bytes_eqb (pr_value p) [59]) eqn:E; [|reflexivity].
  apply bytes_eqb_eq in E. rewrite E in L. apply tok_lex_ok_raw_ty in L. vm_compute in L. subst ty.
  destruct T as [T|[T|T]]; discriminate T.
Qed.

Lemma layers_toksP_w : forall ls aLs, Forall layer_wr ls ->
  Forall2 (fun l ax => Forall2 arel (w_layer l) ax) ls aLs -> Forall2 layer_toksP ls aLs.
Proof.
  intros ls aLs W F. induction F as [|l ax ls aLs Fl F IH]; [constructor|]. inversion W; subst.
  constructor; [apply toksP_layer_w; assumption | apply IH; assumption].
Qed.

Lemma obs_toksP_w : forall ls atoks, Forall layer_wr ls -> Forall2 arel (w_obs ls) atoks -> obs_toksP ls atoks.
Proof.
  intros ls atoks W F. unfold w_obs, K in F. cbn [app] in F.
  apply LefRt_Forall2_cons_inv in F. destruct F as (a0 & at0 & -> & A0 & F).
  apply Forall2_app_inv_l in F. destruct F as (at_l & at_e & Fl & Fe & ->).
  apply LefRt_Forall2_cons_inv in Fe. destruct Fe as (aend & at1 & -> & AE & Fe).
  apply LefRt_Forall2_nil_inv in Fe. subst at1.
  destruct (Forall2_flat_map_inv w_layer ls at_l Fl) as (aLs & -> & FL).
  exists a0, aLs, aend. split; [reflexivity|]. split; [exact A0|]. split; [|exact AE].
  apply layers_toksP_w; assumption.
Qed.

Lemma good_opt {A} (C : A -> mstmt) (f : A -> list stok) o :
  (forall x, o = Some x -> good pin_toksP (C x, f x)) -> Forall (good pin_toksP) (opt_body C f o).
Proof. intros H. destruct o as [x|]; cbn [opt_body]; [constructor; [apply H; reflexivity | constructor] | constructor]. Qed.

Lemma w_body_good : forall m, macro_wr m -> Forall (good pin_toksP) (w_body m).
Proof.
  intros m (N & Pins & Obs & Fo & Or & Sz & Si & Ee & Pr & De). unfold w_body.
  repeat (apply Forall_app; split).
  - apply good_opt. intros x _ ax F. exact F.
  - destruct (mac_fixed_mask m); constructor; [|constructor]. intros ax F. exact F.
  - apply good_opt. intros x E ax F. rewrite E in Fo. cbn [optP] in Fo. destruct Fo as (_ & _ & WF). cbn [fst snd] in *.
    rewrite (w_foreign_wf x WF) in F. split; [exact F | exact WF].
  - apply good_opt. intros x _ ax F. exact F.
  - apply good_opt. intros x _ ax F. exact F.
  - apply good_opt. intros x _ ax F. exact F.
  - apply good_opt. intros x _ ax F. exact F.
  - apply good_opt. intros x _ ax F. exact F.
  - apply good_opt. intros x _ ax F. exact F.
  - apply Forall_forall. intros x Hx. apply in_map_iff in Hx. destruct Hx as (p & <- & Hp).
    intros ax F. cbn [fst snd] in *. rewrite Forall_forall in Pins. split; [apply toksP_pin_w; [apply Pins; exact Hp | exact F]|].
    destruct (w_pin_head p) as (r & E). rewrite E in F. unfold K in F.
    apply LefRt_Forall2_cons_inv in F. destruct F as (a & at' & -> & A & _). eauto.
  - destruct (mac_obs m) as [|x r]; constructor; [|constructor]. intros ax F. cbn [fst snd] in *.
    apply obs_toksP_w; assumption.
  - apply Forall_forall. intros x Hx. apply in_map_iff in Hx. destruct Hx as (p & <- & Hp).
    intros ax F. cbn [fst snd] in *. split; [exact F|]. constructor; [|constructor].
    apply val_tok_not_semi. rewrite Forall_forall in Pr. apply Pr. exact Hp.
  - apply good_opt. intros x _ ax F. exact F.
Qed.

(** the statement kinds: each kind is one contiguous group, in the writer's order as in the canonical one *)
Notation kf k := (fun x : mstmt => Nat.eqb (ms_kind x) k).
Lemma filter_group : forall (G : list mstmt) i k, Forall (fun x => ms_kind x = i) G ->
  filter (kf k) G = if Nat.eqb i k then G else [].
Proof.
  intros G i k H. destruct (Nat.eqb i k) eqn:E; induction H as [|x G Hx _ IH]; cbn [filter]; try reflexivity;
    rewrite Hx, E, IH; reflexivity.
Qed.
Lemma filter_opt {A} (C : A -> mstmt) i : (forall x, ms_kind (C x) = i) -> forall o k,
  filter (kf k) (opt_list C o) = if Nat.eqb i k then opt_list C o else [].
Proof.
  intros H o k. apply filter_group. destruct o; cbn [opt_list]; [constructor; [apply H | constructor] | constructor].
Qed.
Lemma filter_mapk {A} (C : A -> mstmt) i : (forall x, ms_kind (C x) = i) -> forall l k,
  filter (kf k) (map C l) = if Nat.eqb i k then map C l else [].
Proof.
  intros H l k. apply filter_group. apply Forall_forall. intros x Hx. apply in_map_iff in Hx. destruct Hx as (y & <- & _). apply H.
Qed.
Lemma filter_fixed : forall (b : bool) k,
  filter (kf k) (if b then [MsFixedMask] else []) = if Nat.eqb 1 k then (if b then [MsFixedMask] else []) else [].
Proof. intros b k. apply filter_group. destruct b; [constructor; [reflexivity | constructor] | constructor]. Qed.
Lemma filter_obs : forall l k, filter (kf k) (obs_list l) = if Nat.eqb 10 k then obs_list l else [].
Proof. intros l k. apply filter_group. destruct l; cbn [obs_list]; [constructor | constructor; [reflexivity | constructor]]. Qed.

Definition w_canon (m : lef_macro) (pss : list (list lef_property)) : list mstmt :=
  opt_list MsClass (mac_class m)
  ++ (if mac_fixed_mask m then [MsFixedMask] else [])
  ++ opt_list MsForeign (mac_foreign m)
  ++ opt_list MsOrigin (mac_origin m)
  ++ opt_list MsSource (mac_source m)
  ++ opt_list MsEeq (mac_eeq m)
  ++ opt_list MsSize (mac_size m)
  ++ opt_list MsSymmetry (mac_symmetry m)
  ++ opt_list MsSite (mac_site m)
  ++ map MsPin (mac_pins m)
  ++ obs_list (mac_obs m)
  ++ map MsProps pss
  ++ opt_list MsDensity (mac_density m).

Lemma w_body_fst : forall m, map fst (w_body m) = w_canon m (map (fun x => [x]) (mac_properties m)).
Proof.
  intros m. unfold w_body, w_canon. rewrite !map_app.
  repeat match goal with |- ?a ++ ?b = ?c ++ ?d => apply (f_equal2 (@app _)) end;
    try (match goal with |- context [opt_list _ ?o] => destruct o; reflexivity end).
  - destruct (mac_fixed_mask m); reflexivity.
  - rewrite map_map. reflexivity.
  - destruct (mac_obs m); reflexivity.
  - rewrite !map_map. reflexivity.
Qed.

Lemma w_canon_filter : forall m pss k, filter (kf k) (w_canon m pss) = filter (kf k) (macro_canon m pss).
Proof.
  intros m pss k. unfold w_canon, macro_canon. rewrite !filter_app.
  rewrite !(filter_opt MsClass 0 (fun _ => eq_refl)), !filter_fixed, !(filter_opt MsForeign 2 (fun _ => eq_refl)),
    !(filter_opt MsOrigin 3 (fun _ => eq_refl)), !(filter_opt MsEeq 4 (fun _ => eq_refl)),
    !(filter_opt MsSize 5 (fun _ => eq_refl)), !(filter_opt MsSymmetry 6 (fun _ => eq_refl)),
    !(filter_opt MsSite 7 (fun _ => eq_refl)), !(filter_opt MsSource 8 (fun _ => eq_refl)),
    !(filter_mapk MsPin 9 (fun _ => eq_refl)), !filter_obs, !(filter_opt MsDensity 11 (fun _ => eq_refl)),
    !(filter_mapk MsProps 12 (fun _ => eq_refl)).
  do 13 (destruct k as [|k]; [cbn [Nat.eqb app]; rewrite ?app_nil_r; reflexivity|]).
  cbn [Nat.eqb app]. reflexivity.
Qed.

Lemma concat_singletons {A} : forall l : list A, concat (map (fun x => [x]) l) = l.
Proof. induction l as [|x l IH]; [reflexivity|]. cbn [map concat app]. rewrite IH. reflexivity. Qed.

Lemma toksP_macro_w : forall m atoks, macro_wr m -> Forall2 arel (w_macro m) atoks -> macro_toksP pin_toksP m atoks.
Proof.
  intros m atoks W F. rewrite w_macro_body in F. set (IL := w_body m) in *.
  unfold K in F. cbn [app] in F.
  apply LefRt_Forall2_cons_inv in F. destruct F as (a1 & at1 & -> & A1 & F).
  apply LefRt_Forall2_cons_inv in F. destruct F as (a2 & at2 & -> & A2 & F).
  apply Forall2_app_inv_l in F. destruct F as (at_b & at_e & Fb & Fe & ->).
  apply LefRt_Forall2_cons_inv in Fe. destruct Fe as (aend & at3 & -> & AE & Fe).
  apply LefRt_Forall2_cons_inv in Fe. destruct Fe as (an & at4 & -> & AN & Fe).
  apply LefRt_Forall2_nil_inv in Fe. subst at4.
  destruct (Forall2_flat_map_inv snd IL at_b Fb) as (atL & -> & FL).
  exists (map fst IL), (map (fun x => [x]) (mac_properties m)), atL, a1, a2, aend, an.
  split; [reflexivity|]. split; [exact A1|]. split; [exact A2|]. split; [exact AE|]. split; [exact AN|].
  split; [|split].
  - apply Forall2_good; [apply w_body_good; exact W | exact FL].
  - apply concat_singletons.
  - intros k. unfold IL. rewrite w_body_fst. apply w_canon_filter.
Qed.

End WMacro.

Check lays_macro_class. Check lays_density.
Check lays_macro. Check write_macro_ok. Check lays_macros. Check write_macros_ok. Check wok_macro. Check toksP_macro_w.
Print Assumptions lays_macro_class.
Print Assumptions lays_density.
Print Assumptions lays_macro.
Print Assumptions lays_macros.
Print Assumptions write_macro_ok.
Print Assumptions write_macros_ok.
Print Assumptions wok_macro.
Print Assumptions toksP_macro_w.
