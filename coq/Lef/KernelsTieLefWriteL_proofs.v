(** Tie (a) of DESIGN.md 2.3 for the LEF writer, the top (family "lef_write_lib", properties C04, C05): the definitions generated from
    lef21/src/write.rs `LefWriter::write_macro` (with its version gate, the three loops and the optional blocks), `format_numeric_prop_def`
    and `write_lib` (the whole file: VERSION, the two version-gated statements, the optional statements, PROPERTYDEFINITIONS, vias, sites,
    macros, extensions, END LIBRARY, flush), read as in Lef/KernelsInstLefWrite.v, write EXACTLY the lines of `write_macro`,
    `format_numeric_prop_def`, `write_lib_lines` of Lef/LefWrite.v and fail exactly when they fail (error value apart), under [cf_now cf]. *)
From Coq Require Import ZArith Bool List String Lia.
From L21 Require Import Lef.LefDec Lef.LefData Lef.LefLex Lef.LefParse Lef.LefWrite.
From L21 Require Import Base.KernelOps Base.KernelOpsX Base.KernelOpsS Base.KernelOpsL Base.Outcome Gen.KernelsLefWriteGen.
From L21 Require Import Lef.KernelsInstLefWrite Lef.KernelsTieLefWrite_proofs.
Import ListNotations.
Local Open Scope Z_scope.
Ltac ws := cbn [wm_xops kx_base wm_kops k_bind k_ret k_panic k_fail i_lit]; unfold wm_bind, wm_ret, wm_pan, wm_err.

Ltac wst := repeat first [ rewrite wl | rewrite indent_in | rewrite indent_out | rewrite put_x | progress cbn [fst snd w_indent gLefWriter_indent gLefWriter_session] ].
(** an optional call: `if let Some(ref v) = x { self.write_thing(v)?; }` *)
Lemma opt_call : forall (A B : Type) (conv : A -> B) (o : option A) (g : B -> wm unit) (f : nat -> A -> list line),
  (forall a s, g (conv a) s = wrote s (f (w_indent (fst s)) a)) ->
  forall s,
  (match option_map conv o with
   | Some v => fun s0 : wst => match g v s0 with Ok (_, s') => Ok (tt, s') | Err e => Err e | Panic => Panic | OutOfFuel => OutOfFuel end
   | None => fun s0 : wst => Ok (tt, s0)
   end) s = Ok (tt, (fst s, snd s ++ match o with Some a => f (w_indent (fst s)) a | None => [] end)).
Proof. intros A B conv [a|] g f H s; cbn [option_map]; [rewrite H; reflexivity|]. rewrite app_nil_r. destruct s; reflexivity. Qed.

(** an optional line under a flag: `if flag { self.write_line(..)?; }` *)
Lemma bool_line : forall (b : bool) (t : bytes) s,
  (if b then fun s0 : wst => match x_write_line t s0 with Ok (_, s') => Ok (tt, s') | Err e => Err e | Panic => Panic | OutOfFuel => OutOfFuel end
   else fun s0 : wst => Ok (tt, s0)) s = Ok (tt, (fst s, snd s ++ if b then [(w_indent (fst s), t)] else [])).
Proof. intros [|] t s; [reflexivity|]. rewrite app_nil_r. destruct s; reflexivity. Qed.
Lemma MG_objtype : forall ot, MLefPropertyDefinitionObjectType (GLefPropertyDefinitionObjectType ot) = ot.
Proof. destruct ot; reflexivity. Qed.
Lemma MG_key : forall k, MLefKey (GLefKey k) = k.
Proof. destruct k; reflexivity. Qed.
Section Cf.
Variable cf : cfg.
Hypothesis Hcf : cf_now cf.

Lemma macro_pin_loop : forall body, body = (fun (pin : gLefPin dec bytes unit Z) (st__ : unit) =>
    g_LefWriter_write_macro_loop1 wm_xops nat dec bytes x_get x_put x_add_assign x_sub_assign x_write_line x_dant x_ddec x_dkey x_dmask x_ddir x_dpinshape x_dpinuse x_dpoint
      x_dportclass x_concat x_join x_lit pin st__) \/ body = (fun (pin : gLefPin dec bytes unit Z) (st__ : unit) =>
    g_LefWriter_write_macro_loop4 wm_xops nat dec bytes x_get x_put x_add_assign x_sub_assign x_write_line x_dant x_ddec x_dkey x_dmask x_ddir x_dpinshape x_dpinuse x_dpoint
      x_dportclass x_concat x_join x_lit pin st__) ->
  forall p s, body (Gpin p) tt s = Ok (Cont tt, (fst s, snd s ++ write_pin cf (w_indent (fst s)) p)).
Proof.
  intros body [-> | ->] p s; [unfold g_LefWriter_write_macro_loop1 | unfold g_LefWriter_write_macro_loop4]; ws;
    change (g_LefWriter_write_pin wm_xops nat dec bytes x_get x_put x_add_assign x_sub_assign x_write_line x_dant x_ddec x_dkey x_dmask x_ddir x_dpinshape x_dpinuse x_dpoint
              x_dportclass x_concat x_join x_lit (Gpin p) s) with (g_write_pin p s);
    rewrite (tie_write_pin cf Hcf); reflexivity.
Qed.
Lemma macro_obs_loop : forall body, body = (fun (layer : gLefLayerGeometries dec bytes unit Z) (st__ : unit) =>
    g_LefWriter_write_macro_loop2 wm_xops nat dec bytes x_get x_put x_add_assign x_sub_assign x_write_line x_ddec x_dkey x_dmask x_dpoint x_concat x_join x_lit layer st__)
  \/ body = (fun (layer : gLefLayerGeometries dec bytes unit Z) (st__ : unit) =>
    g_LefWriter_write_macro_loop5 wm_xops nat dec bytes x_get x_put x_add_assign x_sub_assign x_write_line x_ddec x_dkey x_dmask x_dpoint x_concat x_join x_lit layer st__) ->
  forall l s, body (Glayer_geoms l) tt s = Ok (Cont tt, (fst s, snd s ++ write_layer_geom (w_indent (fst s)) l)).
Proof.
  intros body [-> | ->] l s; [unfold g_LefWriter_write_macro_loop2 | unfold g_LefWriter_write_macro_loop5]; ws;
    change (g_LefWriter_write_layer_geom wm_xops nat dec bytes x_get x_put x_add_assign x_sub_assign x_write_line x_ddec x_dkey x_dmask x_dpoint x_concat x_join x_lit (Glayer_geoms l) s)
      with (g_write_layer_geom l s);
    rewrite tie_write_layer_geom; reflexivity.
Qed.
Lemma macro_prop_loop : forall body, body = (fun (prop : gLefProperty bytes unit Z) (st__ : unit) =>
    g_LefWriter_write_macro_loop3 wm_xops bytes x_write_line x_dkey x_concat x_lit prop st__)
  \/ body = (fun (prop : gLefProperty bytes unit Z) (st__ : unit) =>
    g_LefWriter_write_macro_loop6 wm_xops bytes x_write_line x_dkey x_concat x_lit prop st__) ->
  forall p s, body (Gproperty p) tt s = Ok (Cont tt, (fst s, snd s ++ write_property cf (w_indent (fst s)) p)).
Proof.
  intros body [-> | ->] p s; [unfold g_LefWriter_write_macro_loop3 | unfold g_LefWriter_write_macro_loop6]; ws;
    change (g_LefWriter_write_property wm_xops bytes x_write_line x_dkey x_concat x_lit (Gproperty p) s) with (g_write_property p s);
    rewrite (tie_write_property cf Hcf); reflexivity.
Qed.
Lemma dens_call : forall d s, g_LefWriter_write_density wm_xops nat dec bytes x_get x_put x_add_assign x_sub_assign x_write_line x_ddec x_dkey x_dpoint x_concat x_lit (map Gdensity_geoms d) s
  = wrote s (write_density (w_indent (fst s)) d).
Proof. intros. exact (tie_write_density d s). Qed.
Lemma sym_call : forall l s, g_LefWriter_write_symmetries wm_xops bytes x_write_line x_dkey x_dsym x_concat x_join x_lit (map GLefSymmetry l) s
  = wrote s (write_symmetries (w_indent (fst s)) l).
Proof. intros. exact (tie_write_symmetries l s). Qed.

(** PROPERTY loop, DENSITY, END *)
Ltac macro_tail :=
  match goal with |- context [k_foreach wm_kops (map Gproperty ?l) ?body tt ?s] =>
    rewrite (w_foreach _ _ Gproperty body (write_property cf) (macro_prop_loop body ltac:(first [left; reflexivity | right; reflexivity])) l s) end; wst;
  rewrite (opt_call _ _ (map Gdensity_geoms) _ _ write_density dens_call); wst.
Ltac macro_obs obs :=
  destruct obs as [|o1 obs1]; cbn [map negb];
  [ | change (Glayer_geoms o1 :: map Glayer_geoms obs1) with (map Glayer_geoms (o1 :: obs1)); wst;
      match goal with |- context [k_foreach wm_kops (map Glayer_geoms ?l) ?body tt ?s] =>
        rewrite (w_foreach _ _ Glayer_geoms body write_layer_geom (macro_obs_loop body ltac:(first [left; reflexivity | right; reflexivity])) l s) end; wst ].
(** from SIZE on: the rest of write_macro *)
Ltac macro_rest :=
  rewrite opt_line; wst;                                            (* EEQ *)
  rewrite opt_line; wst;                                            (* SIZE *)
  rewrite (opt_call _ _ (map GLefSymmetry) _ _ write_symmetries sym_call); wst;
  rewrite opt_line; wst;                                            (* SITE *)
  match goal with |- context [k_foreach wm_kops (map Gpin ?l) ?body tt ?s] =>
    rewrite (w_foreach _ _ Gpin body (write_pin cf) (macro_pin_loop body ltac:(first [left; reflexivity | right; reflexivity])) l s) end; wst.
Lemma tie_write_macro : forall m s, g_write_macro m s = wrote_res s (write_macro cf (w_ver (fst s)) (w_indent (fst s)) m).
Proof.
  intros [nm pins obs cl fo orig sz sym site src eeq fm props dens] [[ind [ver]] out].
  unfold g_write_macro, g_LefWriter_write_macro, write_macro, wrote_res, Gmacro, w_ver.
  cbn [mac_name mac_pins mac_obs mac_class mac_foreign mac_origin mac_size mac_symmetry mac_site mac_source mac_eeq mac_fixed_mask mac_properties mac_density
       gLefMacro_name gLefMacro_pins gLefMacro_obs gLefMacro_class gLefMacro_foreign gLefMacro_origin gLefMacro_size gLefMacro_symmetry gLefMacro_site gLefMacro_source
       gLefMacro_eeq gLefMacro_fixed_mask gLefMacro_properties gLefMacro_density fst snd gLefWriter_session gLefWriterSession_lef_version w_indent gLefWriter_indent].
  ws. wst.
  rewrite (opt_call _ _ Gmacro_class cl _ write_macro_class tie_write_macro_class). wst.
  rewrite bool_line. wst. rewrite opt_line. wst. rewrite opt_line. wst.
  destruct src as [sv|]; cbn [option_map].
  2: { macro_rest. macro_obs obs; macro_tail.
       all: repeat rewrite <- app_assoc; cbn [app];
         destruct fo as [[fc [[fx fy]|] [fori|]]|], orig as [[ox oy]|], sz as [[sa sb]|]; cbn [option_map fo_cell_name fo_pt fo_orient Gforeign gLefForeign_cell_name gLefForeign_pt gLefForeign_orient fst snd];
         try destruct fori; reflexivity. }
  unfold x_get at 1. cbn [fst snd gLefWriter_session gLefWriterSession_lef_version]. unfold x_lt. destruct (dec_gt ver V5P4) eqn:Ev.
  - unfold x_get. cbn [fst snd gLefWriter_session gLefWriterSession_lef_version]. reflexivity.
  - wst. macro_rest. macro_obs obs; macro_tail.
    all: repeat rewrite <- app_assoc; cbn [app];
      destruct fo as [[fc [[fx fy]|] [fori|]]|], orig as [[ox oy]|], sz as [[sa sb]|]; cbn [option_map fo_cell_name fo_pt fo_orient Gforeign gLefForeign_cell_name gLefForeign_pt gLefForeign_orient fst snd];
      try destruct fori; destruct sv; reflexivity.
Qed.

Lemma tie_format_numeric_prop_def : forall ot nm k v r s, g_format_numeric_prop_def ot nm k v r s = Ok (format_numeric_prop_def ot nm k v r, s).
Proof.
  intros ot nm k v r s. unfold g_format_numeric_prop_def, g_LefWriter_format_numeric_prop_def, format_numeric_prop_def. ws.
  destruct r as [[b e]|], v as [v|]; cbn [option_map Grange gLefPropertyRange_begin gLefPropertyRange_end fst snd app];
    unfold x_join, x_dobjtype, x_dkey; rewrite ?MG_objtype, ?MG_key; reflexivity.
Qed.

(** a `for` loop whose body can fail: the macros of a library *)
Lemma w_foreach_macros : forall (body : gLefMacro dec bytes unit Z -> unit -> wm (ctrl unit unit)),
  (forall m s, body (Gmacro m) tt s = match write_macro cf (w_ver (fst s)) (w_indent (fst s)) m with
                                      | LefParse.Ok ls => Ok (Cont tt, (fst s, snd s ++ ls)) | LefParse.Err _ => Err tt | LefParse.Panic => Panic
                                      | LefParse.OutOfFuel => OutOfFuel | LefParse.Unmodelled => OutOfFuel end) ->
  forall ms (w : gwriter) out, w_indent w = O -> k_foreach wm_kops (map Gmacro ms) body tt (w, out) =
    match write_macros cf (w_ver w) ms with
    | LefParse.Ok ls => Ok (Cont tt, (w, out ++ ls)) | LefParse.Err _ => Err tt | LefParse.Panic => Panic
    | LefParse.OutOfFuel => OutOfFuel | LefParse.Unmodelled => OutOfFuel end.
Proof.
  intros body Hb. induction ms as [|m ms IH]; intros w out Hw; cbn [map k_foreach write_macros].
  - ws. rewrite app_nil_r. reflexivity.
  - ws. rewrite Hb. cbn [fst snd]. rewrite Hw.
    destruct (write_macro cf (w_ver w) 0 m) as [ls| | | |]; try reflexivity.
    rewrite (IH _ _ Hw). destruct (write_macros cf (w_ver w) ms) as [ls'| | | |]; try reflexivity.
    rewrite <- app_assoc. reflexivity.
Qed.
Ltac lib_loops := cbv beta delta [g_LefWriter_write_lib_loop1 g_LefWriter_write_lib_loop2 g_LefWriter_write_lib_loop3 g_LefWriter_write_lib_loop4 g_LefWriter_write_lib_loop5
  g_LefWriter_write_lib_loop6 g_LefWriter_write_lib_loop7 g_LefWriter_write_lib_loop8 g_LefWriter_write_lib_loop9 g_LefWriter_write_lib_loop10
  g_LefWriter_write_lib_loop11 g_LefWriter_write_lib_loop12 g_LefWriter_write_lib_loop13 g_LefWriter_write_lib_loop14 g_LefWriter_write_lib_loop15
  g_LefWriter_write_lib_loop16 g_LefWriter_write_lib_loop17 g_LefWriter_write_lib_loop18 g_LefWriter_write_lib_loop19 g_LefWriter_write_lib_loop20].
Definition propdef_line (i : nat) (p : lef_propdef) : list line := [(i, propdef_str p ++ bs " ; ")].
Definition ext_line (i : nat) (e : lef_extension) : list line := [(i, cat [kw K_BeginExtension; sp; ext_name e; sp; ext_data e; sp; kw K_EndExtension])].
(** the five loops of write_lib *)
Ltac lib_foreach :=
  match goal with
  | |- context [k_foreach wm_kops (map Gpropdef ?l) ?body tt ?s] =>
      let H := fresh in
      assert (H : forall a s0, body (Gpropdef a) tt s0 = Ok (Cont tt, (fst s0, snd s0 ++ propdef_line (w_indent (fst s0)) a)));
      [ intros a s0; lib_loops; ws; destruct a as [ot nm [pv|]|ot nm pv r|ot nm pv r]; cbn [Gpropdef]; ws;
        try (match goal with |- context [g_LefWriter_format_numeric_prop_def wm_xops dec bytes x_ddec x_dkey x_dobjtype x_concat x_join x_lit (GLefPropertyDefinitionObjectType ?ot) ?nm ?k ?v (option_map Grange ?r) ?s1] =>
               first [ change (g_LefWriter_format_numeric_prop_def wm_xops dec bytes x_ddec x_dkey x_dobjtype x_concat x_join x_lit (GLefPropertyDefinitionObjectType ot) nm k v (option_map Grange r) s1) with (g_format_numeric_prop_def ot nm K_Real v r s1)
                     | change (g_LefWriter_format_numeric_prop_def wm_xops dec bytes x_ddec x_dkey x_dobjtype x_concat x_join x_lit (GLefPropertyDefinitionObjectType ot) nm k v (option_map Grange r) s1) with (g_format_numeric_prop_def ot nm K_Integer v r s1) ];
               rewrite tie_format_numeric_prop_def end);
        rewrite wl; unfold propdef_line, propdef_str; try reflexivity;
        (destruct ot; match goal with |- Ok (?c, (?a0, ?b0 ++ [(?i0, ?x)])) = Ok (?c, (?a0, ?b0 ++ [(?i0, ?y)])) => replace x with y; [reflexivity|unfold cat, x_concat, x_lit, x_dkey, x_dobjtype; cbn [List.concat]; repeat rewrite <- app_assoc; rewrite ?app_nil_r; reflexivity] end)
      | rewrite (w_foreach _ _ Gpropdef body propdef_line H l s); clear H ]
  | |- context [k_foreach wm_kops (map Gvia_def ?l) ?body tt ?s] =>
      let H := fresh in
      assert (H : forall a s0, body (Gvia_def a) tt s0 = Ok (Cont tt, (fst s0, snd s0 ++ write_via (w_indent (fst s0)) a)));
      [ intros a s0; lib_loops; ws;
        change (g_LefWriter_write_via wm_xops nat dec bytes x_get x_put x_add_assign x_sub_assign x_write_line x_ddec x_dkey x_dmask x_dpoint x_concat x_join x_lit (Gvia_def a) s0) with (g_write_via a s0);
        rewrite tie_write_via; reflexivity
      | rewrite (w_foreach _ _ Gvia_def body write_via H l s); clear H ]
  | |- context [k_foreach wm_kops (map Gsite ?l) ?body tt ?s] =>
      let H := fresh in
      assert (H : forall a s0, body (Gsite a) tt s0 = Ok (Cont tt, (fst s0, snd s0 ++ write_site cf (w_indent (fst s0)) a)));
      [ intros a s0; lib_loops; ws;
        change (g_LefWriter_write_site wm_xops nat dec bytes x_get x_put x_add_assign x_sub_assign x_write_line x_ddec x_dkey x_dsiteclass x_dsym x_concat x_join x_lit (Gsite a) s0) with (g_write_site a s0);
        rewrite (tie_write_site cf Hcf); reflexivity
      | rewrite (w_foreach _ _ Gsite body (write_site cf) H l s); clear H ]
  | |- context [k_foreach wm_kops (map Gextension ?l) ?body tt ?s] =>
      let H := fresh in
      assert (H : forall a s0, body (Gextension a) tt s0 = Ok (Cont tt, (fst s0, snd s0 ++ ext_line (w_indent (fst s0)) a)));
      [ intros [en ed] s0; lib_loops; ws; rewrite wl; reflexivity
      | rewrite (w_foreach _ _ Gextension body ext_line H l s); clear H ]
  end.
Lemma flat_map_ext : forall i l, flat_map (ext_line i) l = map (fun e : lef_extension => (i, cat [kw K_BeginExtension; sp; ext_name e; sp; ext_data e; sp; kw K_EndExtension])) l.
Proof. induction l as [|e l IH]; cbn [flat_map map ext_line app]; [reflexivity | rewrite IH; reflexivity]. Qed.
Lemma flat_map_propdef : forall i l, flat_map (propdef_line i) l = map (fun p => (i, propdef_str p ++ bs " ; ")) l.
Proof. induction l as [|e l IH]; cbn [flat_map map propdef_line app]; [reflexivity | rewrite IH; reflexivity]. Qed.
Lemma units_call : forall u s, g_LefWriter_write_units wm_xops nat dec bytes x_get x_put x_add_assign x_sub_assign x_write_line x_ddec x_dkey x_dint x_concat x_lit (Gunits u) s
  = wrote s (write_units (w_indent (fst s)) u).
Proof. intros. exact (tie_write_units u s). Qed.
Definition lib_ver (l : lef_lib) : dec := match lib_version l with Some v => v | None => V5P8 end.
Lemma tie_write_lib : forall l,
  g_write_lib l (w_new, []) =
  match write_lib_lines cf l with
  | LefParse.Ok ls => Ok (tt, (mk_gLefWriter nat dec O (mk_gLefWriterSession dec (lib_ver l)), ls))
  | LefParse.Err _ => Err tt | LefParse.Panic => Panic | LefParse.OutOfFuel => OutOfFuel | LefParse.Unmodelled => OutOfFuel
  end.
Proof.
  intros [macros sites vias version ncs nwe bbc dc units fmask cm exts mg ums pds].
  unfold g_write_lib, g_LefWriter_write_lib, write_lib_lines, Glib, lib_ver, w_new.
  cbn [lib_macros lib_sites lib_vias lib_version lib_names_case_sensitive lib_no_wire_extension_at_pin lib_bus_bit_chars lib_divider_char lib_units lib_fixed_mask
       lib_clearance_measure lib_extensions lib_manufacturing_grid lib_use_min_spacing lib_property_definitions
       gLefLibrary_macros gLefLibrary_sites gLefLibrary_vias gLefLibrary_version gLefLibrary_names_case_sensitive gLefLibrary_no_wire_extension_at_pin
       gLefLibrary_bus_bit_chars gLefLibrary_divider_char gLefLibrary_units gLefLibrary_fixed_mask gLefLibrary_clearance_measure gLefLibrary_extensions
       gLefLibrary_manufacturing_grid gLefLibrary_use_min_spacing gLefLibrary_property_definitions].
  ws.
  destruct version as [v|]; unfold x_get at 1; cbn [fst snd]; rewrite ?put_x; rewrite ?wl; cbn [fst snd gLefWriter_indent gLefWriter_session w_indent].
  all: destruct ncs as [n|]; cbn [option_map]; [ unfold x_get at 1; cbn [fst snd gLefWriter_session gLefWriterSession_lef_version]; unfold x_lt;
         match goal with |- context [dec_gt ?vv V5P4] => destruct (dec_gt vv V5P4) eqn:Ev1 end;
         [ unfold x_get; cbn [fst snd gLefWriter_session gLefWriterSession_lef_version andb]; reflexivity | rewrite wl; cbn [fst snd andb] ] | ].
  all: destruct nwe as [nw|]; cbn [option_map]; [ unfold x_get at 1; cbn [fst snd gLefWriter_session gLefWriterSession_lef_version]; unfold x_lt;
         match goal with |- context [dec_gt ?vv V5P4] => destruct (dec_gt vv V5P4) eqn:Ev2 end;
         [ unfold x_get; cbn [fst snd gLefWriter_session gLefWriterSession_lef_version andb]; try reflexivity; try congruence | rewrite wl; cbn [fst snd andb] ] | ].
  all: try (exfalso; match goal with E : dec_gt V5P8 V5P4 = false |- _ => vm_compute in E; discriminate E end).
  all: wst; rewrite opt_line; wst; rewrite opt_line; wst.
  all: rewrite (opt_call _ _ Gunits _ _ write_units units_call); wst.
  all: rewrite opt_line; wst; rewrite opt_line; wst; rewrite opt_line; wst.
  all: cbn [i_lt v_len wm_kops]; destruct pds as [|pd0 pds0]; cbn [map Datatypes.length].
       all: try (change (0 <? Z.of_nat 0) with false; cbv beta iota).
       all: try (replace (0 <? Z.of_nat (S (Datatypes.length (map Gpropdef pds0)))) with true by (symmetry; apply Z.ltb_lt; lia); cbv iota;
                 change (Gpropdef pd0 :: map Gpropdef pds0) with (map Gpropdef (pd0 :: pds0)); wst; lib_foreach; wst).
       all: rewrite bool_line; wst; lib_foreach; wst; lib_foreach; wst.
       all: match goal with |- context [k_foreach wm_kops (map Gmacro ?l) ?body tt (?w, ?out)] =>
              let H := fresh in
              assert (H : forall m s0, body (Gmacro m) tt s0 = match write_macro cf (w_ver (fst s0)) (w_indent (fst s0)) m with
                                      | LefParse.Ok ls => Ok (Cont tt, (fst s0, snd s0 ++ ls)) | LefParse.Err _ => Err tt | LefParse.Panic => Panic
                                      | LefParse.OutOfFuel => OutOfFuel | LefParse.Unmodelled => OutOfFuel end);
              [ intros m s0; lib_loops; ws; try unfold x_lt; pose proof (tie_write_macro m s0) as T; unfold g_write_macro, x_lt in T; rewrite T; unfold wrote_res;
                destruct (write_macro cf (w_ver (fst s0)) (w_indent (fst s0)) m); reflexivity
              | rewrite (w_foreach_macros body H l w out eq_refl); clear H ] end.
       all: unfold w_ver; cbn [gLefWriter_session gLefWriterSession_lef_version].
       all: match goal with |- context [write_macros cf ?vv ?ml] => destruct (write_macros cf vv ml) as [mls| | | |]; try reflexivity end.
       all: lib_foreach; wst.
       all: unfold x_flush, wm_ret; cbn [andb]; cbv iota; rewrite ?flat_map_ext, ?flat_map_propdef; repeat rewrite <- app_assoc.
       all: destruct bbc as [[b1 b2]|]; destruct dc as [dch|]; destruct units as [un|]; destruct mg as [mgv|]; destruct ums as [umv|]; destruct cm as [cmv|]; destruct fmask; cbn [option_map fst snd];
         repeat match goal with x : LefOnOff |- _ => destruct x | x : LefClearanceStyle |- _ => destruct x end; reflexivity.
Qed.
End Cf.
