(** C11, "time proportional to the input length" at the level of the model: a count of loop iterations.

    Lef/LefParseG.v (generated from Lef/LefParse.v by tools/gen_lef_parse_g.py) is a copy of the parser model in
    which every loop iteration ticks a counter that is returned with every outcome.  This file proves, function by
    function and in lock-step with the model ([SpecG], tactic [grun]), that the copy returns what the model returns
    and that the counter obeys an amortised bound: two units per consumed token pay for the iterations (a loop
    may owe one more for its last, non-consuming iteration; a function that consumes a token has one to spare).
    Result [parse_count_ok]: [fst (parse_count cf src) = parse cf src] and at most [2 * length src + 1] iterations of
    all parser loops together, on every outcome (library or error).  The lexer's loop is bounded by its fuel
    [length src + 1] ([lex_terminates]). *)
From Coq Require Import ZArith List Bool Lia.
From L21 Require Import Lef.LefDec Lef.LefData Lef.LefLex Lef.LefParse Lef.LefLex_proofs Lef.LefParse_proofs.
From L21 Require Import Lef.LefParseG.
Import ListNotations.
Local Open Scope list_scope.

(** * The counting copy returns what the model returns, after at most 2 * tokens + 1 loop iterations *)
Section Count.
Variable cf : cfg.
Variable src : bytes.
Hypothesis Hcf : c_charpos cf = false.
Hypothesis Hsrc : starts_on_boundary src = true.
#[local] Hint Extern 0 (c_charpos _ = false) => eassumption : typeclass_instances.
#[local] Hint Extern 0 (starts_on_boundary _ = true) => eassumption : typeclass_instances.

Notation st_ok := (st_ok src).
Notation Spec := (Spec src).

(** outcome of a counting run [xg] against the model's [x], both started from a state reached from (st0, n0):
    same result; on success the counter plus [a] is covered by two units per token consumed plus [b]; on an error
    by two units per token that remained plus one *)
Definition RG {A} (st0 : pst) (n0 a b : nat) (xg : res (A * pst) * nat) (x : res (A * pst)) : Prop :=
  fst xg = x /\
  match x with
  | Ok (_, st') => (snd xg + a + 2 * len st' <= n0 + 2 * len st0 + b)%nat
  | _ => (snd xg + a <= n0 + 2 * len st0 + 1)%nat
  end.

Class SpecG {A} (mg : G A) (m : P A) (pre : pst -> Prop) (a b : nat) : Prop :=
  specg : forall st n, st_ok st -> pre st -> RG st n a b (mg st n) (m st).

(** ** rules *)
Lemma RG_bind_lift {A B} (m : P A) (kg : A -> G B) (k : A -> P B) pre c Q st0 n0 a b st n :
  Spec m pre c Q -> st_ok st -> pre st -> (n + a <= n0 + 2 * len st0 + 1)%nat ->
  (forall x st', st_ok st' -> (len st' + c <= len st)%nat -> Q x -> RG st0 n0 a b (kg x st' n) (k x st')) ->
  RG st0 n0 a b (bindG (liftP m) kg st n) (bind m k st).
Proof.
  intros S Hok Hpre Hn K. unfold bindG, liftP, bind. pose proof (S st Hok Hpre) as H.
  destruct (m st) as [[x st']|e| | |]; simpl in H; try contradiction.
  - destruct H as (H1 & H2 & H3). apply K; auto.
  - split; [reflexivity | simpl; exact Hn].
  - split; [reflexivity | simpl; exact Hn].
Qed.
Lemma RG_tail_lift {A} (m : P A) pre c Q st0 n0 a b st n :
  Spec m pre c Q -> st_ok st -> pre st -> (n + a <= n0 + 2 * len st0 + 1)%nat ->
  (forall x st', Q x -> (len st' + c <= len st)%nat -> (n + a + 2 * len st' <= n0 + 2 * len st0 + b)%nat) ->
  RG st0 n0 a b (liftP m st n) (m st).
Proof.
  intros S Hok Hpre Hn K. unfold liftP. pose proof (S st Hok Hpre) as H.
  destruct (m st) as [[x st']|e| | |]; simpl in H; try contradiction; (split; [reflexivity | simpl]); auto.
  destruct H as (H1 & H2 & H3). eapply K; eauto.
Qed.
Lemma RG_bind_G {A B} (mg : G A) (m : P A) (kg : A -> G B) (k : A -> P B) pre c Q a1 b1 st0 n0 a b st n :
  Spec m pre c Q -> SpecG mg m pre a1 b1 -> st_ok st -> pre st ->
  (forall cnt, (cnt + a1 <= n + 2 * len st + 1)%nat -> (cnt + a <= n0 + 2 * len st0 + 1)%nat) ->
  (forall x st' n', st_ok st' -> (len st' + c <= len st)%nat -> Q x ->
     (n' + a1 + 2 * len st' <= n + 2 * len st + b1)%nat -> RG st0 n0 a b (kg x st' n') (k x st')) ->
  RG st0 n0 a b (bindG mg kg st n) (bind m k st).
Proof.
  intros S SG Hok Hpre He K. unfold bindG, bind. pose proof (S st Hok Hpre) as H.
  destruct (SG st n Hok Hpre) as [E1 E2]. destruct (mg st n) as [rg n']. simpl in E1, E2. subst rg.
  destruct (m st) as [[x st']|e| | |]; simpl in H; try contradiction.
  - destruct H as (H1 & H2 & H3). apply K; auto.
  - split; [reflexivity | simpl; apply He; exact E2].
  - split; [reflexivity | simpl; apply He; exact E2].
Qed.
Lemma RG_tail_G {A} (mg : G A) (m : P A) pre c Q a1 b1 st0 n0 a b st n :
  Spec m pre c Q -> SpecG mg m pre a1 b1 -> st_ok st -> pre st ->
  (forall cnt, (cnt + a1 <= n + 2 * len st + 1)%nat -> (cnt + a <= n0 + 2 * len st0 + 1)%nat) ->
  (forall st' n', (len st' + c <= len st)%nat -> (n' + a1 + 2 * len st' <= n + 2 * len st + b1)%nat ->
     (n' + a + 2 * len st' <= n0 + 2 * len st0 + b)%nat) ->
  RG st0 n0 a b (mg st n) (m st).
Proof.
  intros S SG Hok Hpre He K. pose proof (S st Hok Hpre) as H.
  destruct (SG st n Hok Hpre) as [E1 E2]. destruct (mg st n) as [rg n']. simpl in E1, E2. subst rg.
  destruct (m st) as [[x st']|e| | |]; simpl in H; try contradiction; (split; [reflexivity | simpl]); auto.
  destruct H as (H1 & H2 & H3). apply K; auto.
Qed.
Lemma RG_assoc {A B C} (mg : G A) (k1g : A -> G B) (k2g : B -> G C) (m : P A) (k1 : A -> P B) (k2 : B -> P C) st0 n0 a b st n :
  RG st0 n0 a b (bindG mg (fun x => bindG (k1g x) k2g) st n) (bind m (fun x => bind (k1 x) k2) st) ->
  RG st0 n0 a b (bindG (bindG mg k1g) k2g st n) (bind (bind m k1) k2 st).
Proof.
  unfold bindG, bind. destruct (mg st n) as [[[x s]|e| | |] n']; destruct (m st) as [[y s']|e'| | |]; auto.
Qed.
Lemma RG_get {B} (kg : pst -> G B) (k : pst -> P B) st0 n0 a b st n :
  RG st0 n0 a b (kg st st n) (k st st) -> RG st0 n0 a b (bindG getG kg st n) (bind LefParse.get k st).
Proof. exact (fun x => x). Qed.
Lemma RG_ret_bind {A B} (x : A) (kg : A -> G B) (k : A -> P B) st0 n0 a b st n :
  RG st0 n0 a b (kg x st n) (k x st) -> RG st0 n0 a b (bindG (retG x) kg st n) (bind (LefParse.ret x) k st).
Proof. exact (fun x => x). Qed.
Lemma RG_tick {B} (kg : unit -> G B) (x : res (B * pst)) st0 n0 a b st n :
  RG st0 n0 a b (kg tt st (S n)) x -> RG st0 n0 a b (bindG tick kg st n) x.
Proof. exact (fun x => x). Qed.
Lemma RG_ret {A} (x : A) st0 n0 a b st n :
  (n + a + 2 * len st <= n0 + 2 * len st0 + b)%nat -> RG st0 n0 a b (retG x st n) (LefParse.ret x st).
Proof. intros H. split; [reflexivity | exact H]. Qed.

(** ** the state-dependent primitives *)
Lemma peek_key_cases : forall st, st_ok st ->
  match LefParse.peek_key cf src st with
  | Ok (_, st') => st' = st /\ (1 <= len st)%nat
  | Panic | OutOfFuel => False
  | _ => True
  end.
Proof.
  intros st Hok.
  pose proof (R_peek_key cf src Hcf Hsrc (fun key => LefParse.ret key) st 0 (fun _ => True) st Hok) as H.
  assert (HK : forall key, (1 <= len st)%nat -> R src st 0 (fun _ : LefKey => True) (LefParse.ret key st)).
  { intros key _. simpl. split; [exact Hok | split; [lia | exact I]]. }
  specialize (H HK). unfold bind in H.
  assert (E : forall k st', LefParse.peek_key cf src st = Ok (k, st') -> st' = st /\ (1 <= len st)%nat).
  { intros k st' E. unfold LefParse.peek_key in E. destruct (peek_token st) as [t|] eqn:PT.
    - assert (L : (1 <= len st)%nat).
      { unfold peek_token in PT. unfold len. destruct (p_toks st); [discriminate | simpl; lia]. }
      destruct (ttype_eqb (t_ty t) TName).
      + unfold bind, LefParse.txt in E. destruct (substr src t); [|discriminate].
        destruct (LefKey_parse b).
        * simpl in E. injection E as _ <-. auto.
        * unfold LefParse.fail, LefParse.fail_msg in E. destruct (state cf src st) as [[[[? ?] ?] ?]|]; discriminate.
      + unfold LefParse.fail, LefParse.fail_msg in E. destruct (state cf src st) as [[[[? ?] ?] ?]|]; discriminate.
    - unfold LefParse.fail, LefParse.fail_msg in E. destruct (state cf src st) as [[[[? ?] ?] ?]|]; discriminate. }
  destruct (LefParse.peek_key cf src st) as [[k st']|e| | |]; simpl in H; try contradiction; try exact I.
  eapply E; reflexivity.
Qed.
Lemma RG_peek_key {B} (kg : LefKey -> G B) (k : LefKey -> P B) st0 n0 a b st n :
  st_ok st -> (n + a <= n0 + 2 * len st0 + 1)%nat ->
  (forall key, (1 <= len st)%nat -> RG st0 n0 a b (kg key st n) (k key st)) ->
  RG st0 n0 a b (bindG (liftP (LefParse.peek_key cf src)) kg st n) (bind (LefParse.peek_key cf src) k st).
Proof.
  intros Hok Hn K. unfold bindG, liftP, bind. pose proof (peek_key_cases st Hok) as H.
  destruct (LefParse.peek_key cf src st) as [[key st']|e| | |]; try contradiction.
  - destruct H as [-> L]. apply K. exact L.
  - split; [reflexivity | simpl; exact Hn].
  - split; [reflexivity | simpl; exact Hn].
Qed.
Lemma next_token_cases : forall st, st_ok st ->
  match LefParse.next_token st with
  | Ok (Some t, st') => st_ok st' /\ S (len st') = len st /\ tok_ok src t
  | Ok (None, st') => st' = st /\ len st = 0%nat
  | Panic | OutOfFuel => False
  | _ => True
  end.
Proof.
  intros st Hok. unfold LefParse.next_token. destruct (p_toks st) as [|ti r] eqn:E.
  - split; [reflexivity | unfold len; rewrite E; reflexivity].
  - destruct (st_ok_tail src st ti r Hok E) as [Hok' Ht].
    assert (L : S (len (with_toks st r)) = len st) by (unfold len; rewrite E; reflexivity).
    pose proof (proj2 Hok) as HE.
    destruct r as [|ti2 r2]; [destruct (p_end st); simpl in HE; try contradiction; auto|]; auto.
Qed.
Lemma RG_next_token {B} (kg : option token -> G B) (k : option token -> P B) st0 n0 a b st n :
  st_ok st -> (n + a <= n0 + 2 * len st0 + 1)%nat ->
  (forall t st', st_ok st' -> S (len st') = len st -> tok_ok src t -> RG st0 n0 a b (kg (Some t) st' n) (k (Some t) st')) ->
  (len st = 0%nat -> RG st0 n0 a b (kg None st n) (k None st)) ->
  RG st0 n0 a b (bindG (liftP LefParse.next_token) kg st n) (bind LefParse.next_token k st).
Proof.
  intros Hok Hn K1 K2. unfold bindG, liftP, bind. pose proof (next_token_cases st Hok) as H.
  destruct (LefParse.next_token st) as [[[t|] st']|e| | |]; try contradiction.
  - destruct H as (H1 & H2 & H3). apply K1; auto.
  - destruct H as [-> H]. apply K2; auto.
  - split; [reflexivity | simpl; exact Hn].
  - split; [reflexivity | simpl; exact Hn].
Qed.
Lemma RG_txt {B} (t : token) (kg : bytes -> G B) (k : bytes -> P B) st0 n0 a b st n :
  tok_ok src t -> (forall s, RG st0 n0 a b (kg s st n) (k s st)) ->
  RG st0 n0 a b (bindG (liftP (LefParse.txt src t)) kg st n) (bind (LefParse.txt src t) k st).
Proof.
  intros Ht K. unfold bindG, liftP, bind, LefParse.txt. destruct (tok_ok_substr _ _ Ht) as [s ->]. apply K.
Qed.

(** [advance] after a successful [peek_key]: the stream is not empty, one token goes *)
Global Instance advance_ne_spec : Spec LefParse.advance (fun st => (1 <= len st)%nat) 1 T.
Proof.
  intros st Hok Hpre. unfold LefParse.advance.
  apply (R_next_token src (fun _ => LefParse.ret tt) st 1 T st Hok).
  - intros t st' H1 H2 _. simpl. split; [exact H1 | split; [lia | exact I]].
  - intros H0. lia.
Qed.

(** ** lock-step symbolic execution *)
#[local] Hint Unfold LefParseG.ret LefParseG.get LefParseG.lift LefParseG.when LefParseG.txt LefParseG.next_token
  LefParseG.advance LefParseG.fail_msg LefParseG.fail LefParseG.fail_ignored LefParseG.push LefParseG.pop
  LefParseG.peek_key LefParseG.expect LefParseG.get_name LefParseG.get_key LefParseG.expect_key LefParseG.expect_ident
  LefParseG.parse_ident LefParseG.parse_enum LefParseG.parse_number LefParseG.parse_point LefParseG.expect_semi
  LefParseG.parse_version LefParseG.parse_size LefParseG.parse_macro_class LefParseG.parse_geometry_mask
  LefParseG.parse_iterate LefParseG.parse_geometry_tail LefParseG.parse_via_mask LefParseG.parse_pin_direction
  LefParseG.ident_stmt LefParseG.enum_stmt LefParseG.parse_property_definition_tail LefParseG.unit_stmt
  LefParseG.parse_bus_bit_chars LefParseG.parse_divider_char LefParseG.onoff_stmt LefParseG.dbu_try_new : gwrap.

Lemma peek_some_len : forall st t, peek_token st = Some t -> (1 <= len st)%nat.
Proof. intros st t H. unfold peek_token in H. unfold len. destruct (p_toks st); [discriminate | simpl; lia]. Qed.
Ltac gside :=
  first [ exact I | assumption
        | solve [unfold T, Tp; auto]
        | (cbv beta; intros; try contradiction;
           repeat match goal with H : peek_token ?s = Some _ |- _ => apply peek_some_len in H end;
           unfold len, fuel_of in *; simpl in *; lia) ].

Ltac gstep :=
  cbv beta;
  lazymatch goal with
  | |- RG _ _ _ _ (bindG tick _ _ _) _ => apply RG_tick
  | |- RG _ _ _ _ (bindG ?mg ?kg ?st ?n) (bind ?m ?k ?st) =>
    lazymatch mg with
    | getG => apply RG_get
    | retG _ => apply RG_ret_bind
    | bindG _ _ => apply RG_assoc
    | whenG _ _ => unfold whenG, LefParse.when
    | match ?x with _ => _ end => destruct x eqn:?
    | liftP (LefParse.peek_key _ _) => apply RG_peek_key; [assumption | gside | let key := fresh "key" in intros key ?]
    | liftP LefParse.next_token => apply RG_next_token; [assumption | gside | intros ? ? ? ? ? | intros ?]
    | liftP (LefParse.txt _ ?t) => apply RG_txt; [solve [eauto using peek_tok_ok] | intros ?]
    | liftP _ => eapply RG_bind_lift; [typeclasses eauto | assumption | gside | gside | intros ? ? ? ? ?; try contradiction]
    | _ => eapply RG_bind_G; [typeclasses eauto | typeclasses eauto | assumption | gside | gside | intros ? ? ? ? ? ? ?]
    end
  | |- RG _ _ _ _ (retG _ _ _) (LefParse.ret _ _) => apply RG_ret; gside
  | |- RG _ _ _ _ (whenG _ _ _ _) _ => unfold whenG, LefParse.when
  | |- RG _ _ _ _ (liftP _ _ _) _ => eapply RG_tail_lift; [typeclasses eauto | assumption | gside | gside | gside]
  | |- RG _ _ _ _ (?fg ?st ?n) (?f ?st) =>
    lazymatch fg with
    | match ?x with _ => _ end => destruct x eqn:?
    | _ => eapply RG_tail_G; [typeclasses eauto | typeclasses eauto | assumption | gside | gside | gside]
    end
  end.
Ltac grun := repeat gstep.
Ltac gstart := let st := fresh "st" in let n := fresh "n" in let Hok := fresh "Hok" in let Hpre := fresh "Hpre" in
  intros st n Hok Hpre; autounfold with gwrap.
Ltac gloop f := induction f as [|f IH]; intros; gstart; [exfalso; gside|].
Notation fuel_pre f := (fun st : pst => (len st < f)%nat).

Global Instance point_list_loop_g f : forall acc,
  SpecG (LefParseG.point_list_loop cf src f acc) (LefParse.point_list_loop cf src f acc) (fuel_pre f) 0 1.
Proof. gloop f. cbn [LefParseG.point_list_loop LefParse.point_list_loop]. autounfold with gwrap. grun. Qed.
Global Instance parse_point_list_g :
  SpecG (LefParseG.parse_point_list cf src) (LefParse.parse_point_list cf src) Tp 0 1.
Proof. gstart. unfold LefParseG.parse_point_list, LefParse.parse_point_list. autounfold with gwrap. grun. Qed.
Global Instance symm_loop_g f : forall acc,
  SpecG (LefParseG.symm_loop cf src f acc) (LefParse.symm_loop cf src f acc) (fuel_pre f) 0 1.
Proof. gloop f. cbn [LefParseG.symm_loop LefParse.symm_loop]. autounfold with gwrap. grun. Qed.
Global Instance parse_symmetries_g :
  SpecG (LefParseG.parse_symmetries cf src) (LefParse.parse_symmetries cf src) Tp 1 0.
Proof. gstart. unfold LefParseG.parse_symmetries, LefParse.parse_symmetries. autounfold with gwrap. grun. Qed.
Global Instance parse_geometry_g :
  SpecG (LefParseG.parse_geometry cf src) (LefParse.parse_geometry cf src) Tp 1 0.
Proof. gstart. unfold LefParseG.parse_geometry, LefParse.parse_geometry. autounfold with gwrap. grun. Qed.
Global Instance layer_opts_loop_g f : forall lg,
  SpecG (LefParseG.layer_opts_loop cf src f lg) (LefParse.layer_opts_loop cf src f lg) (fuel_pre f) 0 1.
Proof. gloop f. cbn [LefParseG.layer_opts_loop LefParse.layer_opts_loop]. autounfold with gwrap. grun. Qed.
Global Instance layer_body_loop_g f : forall lg,
  SpecG (LefParseG.layer_body_loop cf src f lg) (LefParse.layer_body_loop cf src f lg) (fuel_pre f) 0 1.
Proof. gloop f. cbn [LefParseG.layer_body_loop LefParse.layer_body_loop]. autounfold with gwrap. grun. Qed.
Global Instance parse_layer_geometries_g :
  SpecG (LefParseG.parse_layer_geometries cf src) (LefParse.parse_layer_geometries cf src) Tp 1 0.
Proof. gstart. unfold LefParseG.parse_layer_geometries, LefParse.parse_layer_geometries. autounfold with gwrap. grun. Qed.
Global Instance parse_via_shape_g :
  SpecG (LefParseG.parse_via_shape cf src) (LefParse.parse_via_shape cf src) Tp 1 0.
Proof. gstart. unfold LefParseG.parse_via_shape, LefParse.parse_via_shape. autounfold with gwrap. grun. Qed.
Global Instance via_layer_loop_g f : forall acc,
  SpecG (LefParseG.via_layer_loop cf src f acc) (LefParse.via_layer_loop cf src f acc) (fuel_pre f) 0 1.
Proof. gloop f. cbn [LefParseG.via_layer_loop LefParse.via_layer_loop]. autounfold with gwrap. grun. Qed.
Global Instance parse_via_layer_geometries_g :
  SpecG (LefParseG.parse_via_layer_geometries cf src) (LefParse.parse_via_layer_geometries cf src) Tp 1 0.
Proof. gstart. unfold LefParseG.parse_via_layer_geometries, LefParse.parse_via_layer_geometries. autounfold with gwrap. grun. Qed.
Global Instance port_loop_g f : forall cl ly,
  SpecG (LefParseG.port_loop cf src f cl ly) (LefParse.port_loop cf src f cl ly) (fuel_pre f) 0 1.
Proof. gloop f. cbn [LefParseG.port_loop LefParse.port_loop]. autounfold with gwrap. grun. Qed.
Global Instance parse_port_g :
  SpecG (LefParseG.parse_port cf src) (LefParse.parse_port cf src) Tp 1 0.
Proof. gstart. unfold LefParseG.parse_port, LefParse.parse_port. autounfold with gwrap. grun. Qed.
Global Instance density_rect_loop_g f : forall acc,
  SpecG (LefParseG.density_rect_loop cf src f acc) (LefParse.density_rect_loop cf src f acc) (fuel_pre f) 0 1.
Proof. gloop f. cbn [LefParseG.density_rect_loop LefParse.density_rect_loop]. autounfold with gwrap. grun. Qed.
Global Instance density_loop_g f : forall acc,
  SpecG (LefParseG.density_loop cf src f acc) (LefParse.density_loop cf src f acc) (fuel_pre f) 0 1.
Proof. gloop f. cbn [LefParseG.density_loop LefParse.density_loop]. autounfold with gwrap. grun. Qed.
Global Instance parse_density_g :
  SpecG (LefParseG.parse_density cf src) (LefParse.parse_density cf src) Tp 1 0.
Proof. gstart. unfold LefParseG.parse_density, LefParse.parse_density. autounfold with gwrap. grun. Qed.
Global Instance obs_loop_g f : forall acc,
  SpecG (LefParseG.obs_loop cf src f acc) (LefParse.obs_loop cf src f acc) (fuel_pre f) 0 1.
Proof. gloop f. cbn [LefParseG.obs_loop LefParse.obs_loop]. autounfold with gwrap. grun. Qed.
Global Instance parse_obstructions_g :
  SpecG (LefParseG.parse_obstructions cf src) (LefParse.parse_obstructions cf src) Tp 1 0.
Proof. gstart. unfold LefParseG.parse_obstructions, LefParse.parse_obstructions. autounfold with gwrap. grun. Qed.
Global Instance property_loop_g f : forall acc,
  SpecG (LefParseG.property_loop cf src f acc) (LefParse.property_loop cf src f acc) (fuel_pre f) 0 1.
Proof. gloop f. cbn [LefParseG.property_loop LefParse.property_loop]. autounfold with gwrap. grun. Qed.
Global Instance parse_property_g acc :
  SpecG (LefParseG.parse_property cf src acc) (LefParse.parse_property cf src acc) Tp 1 0.
Proof. gstart. unfold LefParseG.parse_property, LefParse.parse_property. autounfold with gwrap. grun. Qed.
Global Instance pin_loop_g f : forall pin props,
  SpecG (LefParseG.pin_loop cf src f pin props) (LefParse.pin_loop cf src f pin props) (fuel_pre f) 0 1.
Proof. gloop f. cbn [LefParseG.pin_loop LefParse.pin_loop]. autounfold with gwrap. grun. Qed.
Global Instance parse_pin_g :
  SpecG (LefParseG.parse_pin cf src) (LefParse.parse_pin cf src) Tp 1 0.
Proof. gstart. unfold LefParseG.parse_pin, LefParse.parse_pin. autounfold with gwrap. grun. Qed.
Global Instance macro_loop_g f : forall mac props,
  SpecG (LefParseG.macro_loop cf src f mac props) (LefParse.macro_loop cf src f mac props) (fuel_pre f) 0 1.
Proof. gloop f. cbn [LefParseG.macro_loop LefParse.macro_loop]. autounfold with gwrap. grun. Qed.
Global Instance parse_macro_g :
  SpecG (LefParseG.parse_macro cf src) (LefParse.parse_macro cf src) Tp 1 0.
Proof. gstart. unfold LefParseG.parse_macro, LefParse.parse_macro. autounfold with gwrap. grun. Qed.
Global Instance propdefs_loop_g f : forall acc,
  SpecG (LefParseG.propdefs_loop cf src f acc) (LefParse.propdefs_loop cf src f acc) (fuel_pre f) 0 1.
Proof. gloop f. cbn [LefParseG.propdefs_loop LefParse.propdefs_loop]. autounfold with gwrap. grun. Qed.
Global Instance parse_property_definitions_g :
  SpecG (LefParseG.parse_property_definitions cf src) (LefParse.parse_property_definitions cf src) Tp 1 0.
Proof. gstart. unfold LefParseG.parse_property_definitions, LefParse.parse_property_definitions. autounfold with gwrap. grun. Qed.
Global Instance units_loop_g f : forall u,
  SpecG (LefParseG.units_loop cf src f u) (LefParse.units_loop cf src f u) (fuel_pre f) 0 1.
Proof. gloop f. cbn [LefParseG.units_loop LefParse.units_loop]. autounfold with gwrap. grun. Qed.
Global Instance parse_units_g :
  SpecG (LefParseG.parse_units cf src) (LefParse.parse_units cf src) Tp 1 0.
Proof. gstart. unfold LefParseG.parse_units, LefParse.parse_units. autounfold with gwrap. grun. Qed.
Global Instance site_loop_g f : forall name cl sz sy,
  SpecG (LefParseG.site_loop cf src f name cl sz sy) (LefParse.site_loop cf src f name cl sz sy) (fuel_pre f) 0 1.
Proof. gloop f. cbn [LefParseG.site_loop LefParse.site_loop]. autounfold with gwrap. grun. Qed.
Global Instance parse_site_def_g :
  SpecG (LefParseG.parse_site_def cf src) (LefParse.parse_site_def cf src) Tp 1 0.
Proof. gstart. unfold LefParseG.parse_site_def, LefParse.parse_site_def. autounfold with gwrap. grun. Qed.
Global Instance gen_via_loop_g f : forall b,
  SpecG (LefParseG.gen_via_loop cf src f b) (LefParse.gen_via_loop cf src f b) (fuel_pre f) 0 1.
Proof. gloop f. cbn [LefParseG.gen_via_loop LefParse.gen_via_loop]. autounfold with gwrap. grun. Qed.
Global Instance fixed_via_layers_loop_g f : forall acc,
  SpecG (LefParseG.fixed_via_layers_loop cf src f acc) (LefParse.fixed_via_layers_loop cf src f acc) (fuel_pre f) 0 1.
Proof. gloop f. cbn [LefParseG.fixed_via_layers_loop LefParse.fixed_via_layers_loop]. autounfold with gwrap. grun. Qed.
Global Instance parse_via_g :
  SpecG (LefParseG.parse_via cf src) (LefParse.parse_via cf src) Tp 1 0.
Proof. gstart. unfold LefParseG.parse_via, LefParse.parse_via. autounfold with gwrap. grun. Qed.
Global Instance ext_loop_g f : forall data,
  SpecG (LefParseG.ext_loop cf src f data) (LefParse.ext_loop cf src f data) (fuel_pre f) 0 1.
Proof. gloop f. cbn [LefParseG.ext_loop LefParse.ext_loop]. autounfold with gwrap. grun. Qed.
Global Instance lib_loop_g f : forall lib,
  SpecG (LefParseG.lib_loop cf src f lib) (LefParse.lib_loop cf src f lib) (fuel_pre f) 0 1.
Proof. gloop f. cbn [LefParseG.lib_loop LefParse.lib_loop]. autounfold with gwrap. grun. Qed.
Global Instance parse_lib_g :
  SpecG (LefParseG.parse_lib cf src) (LefParse.parse_lib cf src) Tp 0 1.
Proof. gstart. unfold LefParseG.parse_lib, LefParse.parse_lib. autounfold with gwrap. grun. Qed.

End Count.

(** the counting copy returns exactly what [parse] returns, and the parser loops run at most
    2 * (number of tokens) + 1 <= 2 * length src + 1 iterations in total, whatever the outcome *)
Theorem parse_count_gen : forall cf src, c_charpos cf = false -> starts_on_boundary src = true ->
  fst (parse_count cf src) = parse cf src /\ (snd (parse_count cf src) <= 2 * length src + 1)%nat.
Proof.
  intros cf src Hcf Hsrc. unfold parse_count, parse. rewrite Hcf.
  destruct (lex false src) as [toks e] eqn:L.
  destruct (lex_ok_gen _ _ _ Hsrc L) as (F & E & N).
  assert (Hok : st_ok src (mkpst toks e V5P8 [])) by (split; assumption).
  destruct (parse_lib_g cf src Hcf Hsrc (mkpst toks e V5P8 []) 0 Hok I) as [E1 E2].
  destruct (LefParseG.parse_lib cf src (mkpst toks e V5P8 []) 0) as [rg n]. simpl in E1, E2. subst rg.
  assert (B : (n <= 2 * length src + 1)%nat).
  { unfold len in E2. simpl in E2. destruct (LefParse.parse_lib cf src (mkpst toks e V5P8 [])) as [[l st']|er| | |]; lia. }
  destruct toks; destruct e; simpl in E; try contradiction;
    destruct (LefParse.parse_lib cf src _) as [[l st']|er| | |]; simpl; split; auto; lia.
Qed.
Theorem parse_count_ok : forall cf src, c_charpos cf = false -> utf8_valid src ->
  fst (parse_count cf src) = parse cf src /\ (snd (parse_count cf src) <= 2 * length src + 1)%nat.
Proof. intros cf src Hcf V. apply parse_count_gen; [exact Hcf | apply valid_starts_on_boundary; exact V]. Qed.
