(** Model of lef21/src/read.rs: LefParser (one function per `parse_*`), LefParseSession version
    gates, the error path (`fail`, `fail_msg`, `state`), and of the pieces of data.rs the parser
    calls (`LefDbuPerMicron::try_new`, the derive_builder `build()` checks).

    The token stream comes from [LefLex.lex] (eager model of the one-token lookahead). A parser
    state [pst] is the remaining stream (head = the lookahead `next_tok`), how the stream ends,
    the session version and the context stack.

    Results: [Ok], [Err e] (a `LefError`, with every field the `Debug` text shows), [Panic]
    (a slice off a character boundary / out of range), [OutOfFuel] (never, see the proofs),
    [Unmodelled] (a number whose `Decimal::from_str` path is not specified in LefDec.v).

    Loops: every `loop { .. }` / `while` of the code is a Fixpoint on a fuel that is initialised
    to (number of remaining tokens + 1) where the loop starts: each iteration that does not
    return consumes at least one token.

    [cfg] selects, defect by defect, the code as found (true) or as repaired by the patches in
    work/lef/fix-*.patch (false). [cfg_fixed] is the main model; [cfg_orig] is kept to state the
    refutations and to replay the unpatched implementation. No proofs in this file. *)
From Coq Require Import ZArith List String Bool.
From L21 Require Import Lef.LefDec Lef.LefData Lef.LefLex.
Import ListNotations.
Local Open Scope string_scope.
Local Open Scope list_scope.
Local Open Scope Z_scope.

Record cfg := mkcfg {
  c_charpos : bool;        (* lexer positions count characters; `state` measures the line from the lexer's iterator *)
  c_drop_props : bool;     (* parse_macro / parse_pin never hand `properties` to the builder *)
  c_points_to_semi : bool; (* parse_point_list runs until `;` (ITERATE .. DO cannot be parsed) *)
  c_dbu_mantissa : bool;   (* LefDbuPerMicron::try_new looks at mantissa() and ignores the scale *)
  c_nowire_ungated : bool; (* reader accepts NOWIREEXTENSIONATPIN at any version, writer refuses it above 5.4 *)
  c_w_site_orig : bool;    (* writer: `SITE name ;`, `CLASS x;`, `END name ;` *)
  c_w_prop_nosemi : bool;  (* writer: `PROPERTY name value` without `;` *)
  c_version_repeat : bool  (* reader accepts a second VERSION statement (which can raise the version after a
                              statement of LEF <= 5.4 was accepted; the writer then refuses the library) *)
}.
Definition cfg_orig : cfg := mkcfg true true true true true true true true.
Definition cfg_fixed : cfg := mkcfg false false false false false false false false.

Inductive ctx := CtxLibrary | CtxMacro | CtxPin | CtxPort | CtxPropertyDefinitions | CtxGeometry
               | CtxSite | CtxUnits | CtxDensity | CtxVia | CtxUnknown.
Definition ctx_code (c : ctx) : Z :=
  match c with CtxLibrary => 0 | CtxMacro => 1 | CtxPin => 2 | CtxPort => 3 | CtxPropertyDefinitions => 4
  | CtxGeometry => 5 | CtxSite => 6 | CtxUnits => 7 | CtxDensity => 8 | CtxVia => 9 | CtxUnknown => 10 end.
Definition ctx_eqb (a b : ctx) : bool := ctx_code a =? ctx_code b.

Inductive err_type :=
| EtUnsupported | EtInvalidKey | EtInvalidValue
| EtInvalidToken (expected : ttype)
| EtRequiredWord (expected : bytes)
| EtOther.
Definition err_type_eqb (a b : err_type) : bool :=
  match a, b with
  | EtUnsupported, EtUnsupported | EtInvalidKey, EtInvalidKey | EtInvalidValue, EtInvalidValue
  | EtOther, EtOther => true
  | EtInvalidToken x, EtInvalidToken y => ttype_eqb x y
  | EtRequiredWord x, EtRequiredWord y => bytes_eqb x y
  | _, _ => false
  end.
(** the `fail_msg` texts (MsgNoWire, MsgVersionTwice exist only in the repaired code) *)
Inductive err_msg := MsgNone | MsgNamesCase | MsgSource | MsgProperty | MsgNoWire | MsgVersionTwice.
Definition err_msg_eqb (a b : err_msg) : bool :=
  match a, b with
  | MsgNone, MsgNone | MsgNamesCase, MsgNamesCase | MsgSource, MsgSource | MsgProperty, MsgProperty
  | MsgNoWire, MsgNoWire | MsgVersionTwice, MsgVersionTwice => true
  | _, _ => false
  end.

(** `LefError` *)
Inductive lef_err :=
| ELex (next_char : option Z) (line pos : Z)
| EParse (tp : err_type) (msg : err_msg) (cx : list ctx) (token line_content : bytes) (line_num pos : Z)
| EDecimal                       (* Boxed(rust_decimal::Error) *)
| EStr (msg : bytes).            (* Str(..): builder / try_new / writer messages *)
Definition lef_err_eqb (a b : lef_err) : bool :=
  match a, b with
  | ELex c l p, ELex c' l' p' => option_eqb Z.eqb c c' && (l =? l') && (p =? p')
  | EParse t m c k lc l p, EParse t' m' c' k' lc' l' p' =>
    err_type_eqb t t' && err_msg_eqb m m' && list_eqb ctx_eqb c c' && bytes_eqb k k'
    && bytes_eqb lc lc' && (l =? l') && (p =? p')
  | EDecimal, EDecimal => true
  | EStr m, EStr m' => bytes_eqb m m'
  | _, _ => false
  end.

Inductive res (A : Type) :=
| Ok (a : A) | Err (e : lef_err) | Panic | OutOfFuel | Unmodelled.
Arguments Ok {A} a. Arguments Err {A} e. Arguments Panic {A}. Arguments OutOfFuel {A}. Arguments Unmodelled {A}.

Definition V5P4 : dec := mkdec false 54 1.
Definition V5P6 : dec := mkdec false 56 1.
Definition V5P8 : dec := mkdec false 58 1.

Record pst := mkpst { p_toks : list tokinfo; p_end : lex_end; p_ver : dec; p_ctx : list ctx }.
Definition with_toks (st : pst) (t : list tokinfo) : pst := mkpst t (p_end st) (p_ver st) (p_ctx st).
Definition with_ver (st : pst) (v : dec) : pst := mkpst (p_toks st) (p_end st) v (p_ctx st).
Definition with_ctx (st : pst) (c : list ctx) : pst := mkpst (p_toks st) (p_end st) (p_ver st) c.

Definition P (A : Type) : Type := pst -> res (A * pst).
Definition ret {A} (a : A) : P A := fun st => Ok (a, st).
Definition bind {A B} (m : P A) (k : A -> P B) : P B :=
  fun st => match m st with
            | Ok (a, st') => k a st'
            | Err e => Err e | Panic => Panic | OutOfFuel => OutOfFuel | Unmodelled => Unmodelled
            end.
Notation "x <- m ;; k" := (bind m (fun x => k)) (at level 61, m at next level, right associativity).
Notation "m ;;; k" := (bind m (fun _ => k)) (at level 61, right associativity).
Definition get : P pst := fun st => Ok (st, st).
Definition lift {A} (r : res A) : P A :=
  fun st => match r with Ok a => Ok (a, st) | Err e => Err e | Panic => Panic
                    | OutOfFuel => OutOfFuel | Unmodelled => Unmodelled end.
Definition when (b : bool) (m : P unit) : P unit := if b then m else ret tt.
Definition fuel_of (st : pst) : nat := S (List.length (p_toks st)).

(** up to [left] characters of [s] before a newline: (characters, bytes) *)
Fixpoint line_span (s : bytes) (left nch nb : Z) : Z * Z :=
  match s with
  | [] => (nch, nb)
  | b :: r =>
    if is_cont b then line_span r left nch (nb + 1)
    else if (b =? 10) || (left <=? 0) then (nch, nb)
    else line_span r (left - 1) (nch + 1) (nb + 1)
  end.

Section Parser.
Variable cf : cfg.
Variable src : bytes.

(** `self.txt(&tok)`: a panic when the span is not a valid byte range of the source *)
Definition txt (t : token) : P bytes :=
  fun st => match substr src t with Some b => Ok (b, st) | None => Panic end.

Definition peek_token (st : pst) : option token :=
  match p_toks st with ti :: _ => Some (ti_tok ti) | [] => None end.

(** `LefLexer::next_token` through the parser *)
Definition next_token : P (option token) :=
  fun st =>
    match p_toks st with
    | [] => Ok (None, st)
    | ti :: rest =>
      match rest, p_end st with
      | [], LErr c l p => Err (ELex (Some c) l p)
      | [], LPanic => Panic
      | [], LFuel => OutOfFuel
      | _, _ => Ok (Some (ti_tok ti), with_toks st rest)
      end
    end.
Definition advance : P unit := _ <- next_token ;; ret tt.
Definition matches (ty : ttype) (st : pst) : bool :=
  match peek_token st with Some t => ttype_eqb (t_ty t) ty | None => false end.
Definition matchesP (ty : ttype) : P bool := fun st => Ok (matches ty st, st).

(** `LefParser::state`: the lexer as it stands while the head of the stream is the lookahead *)
Definition lexer_view (st : pst) : bytes * Z * Z * Z :=
  match p_toks st with
  | ti :: _ => (ti_rem ti, t_stop (ti_tok ti), t_line (ti_tok ti), ti_linestart ti)
  | [] => match p_end st with LEof p l ls => ([], p, l, ls) | _ => ([], 0, 0, 0) end
  end.
(** token text, line content, line number, pos -- or None when building it panics *)
Definition state (st : pst) : option (bytes * bytes * Z * Z) :=
  let tok := match peek_token st with
             | Some t => substr src t
             | None => Some (bs "EOF")
             end in
  match tok with
  | None => None
  | Some tk =>
    let '(rem, pos, line, linestart) := lexer_view st in
    let content :=
      if c_charpos cf then
        (* chars = self.lex.chars.clone(): the input after the lexer's peeked character *)
        let '(k, _) := line_span (fst (next_char true rem 0)) 200 0 0 in
        slice src linestart (linestart + k)
      else
        (* repaired: the characters of src[linestart..] *)
        match (if 0 <=? linestart then drop (Z.to_nat linestart) src else None) with
        | None => None
        | Some s =>
          if starts_on_boundary s then
            let '(_, nb) := line_span s 200 0 0 in slice src linestart (linestart + nb)
          else None
        end in
    match content with
    | None => None
    | Some lc => Some (tk, lc, line, pos)
    end
  end.
Definition fail_msg {A} (tp : err_type) (m : err_msg) : P A :=
  fun st => match state st with
            | None => Panic
            | Some (tk, lc, line, pos) => Err (EParse tp m (p_ctx st) tk lc line pos)
            end.
Definition fail {A} (tp : err_type) : P A := fail_msg tp MsgNone.
(** `let _ignore = self.fail(..)`: only a panic inside `state` matters *)
Definition fail_ignored : P unit :=
  fun st => match state st with None => Panic | Some _ => Ok (tt, st) end.

Definition push (c : ctx) : P unit := fun st => Ok (tt, with_ctx st (p_ctx st ++ [c])).
Definition pop : P unit := fun st => Ok (tt, with_ctx st (removelast (p_ctx st))).

Definition peek_key : P LefKey :=
  fun st =>
    match peek_token st with
    | Some t =>
      if ttype_eqb (t_ty t) TName then
        (s <- txt t ;;
         match LefKey_parse s with Some k => ret k | None => fail EtInvalidKey end) st
      else fail (EtInvalidToken TName) st
    | None => fail (EtInvalidToken TName) st
    end.
Definition expect (ty : ttype) : P token :=
  tok <- next_token ;;
  match tok with
  | Some t => if ttype_eqb (t_ty t) ty then ret t else fail (EtInvalidToken ty)
  | None => fail (EtInvalidToken ty)
  end.
Definition expect_and_get_str (ty : ttype) : P bytes := t <- expect ty ;; txt t.
Definition get_name : P bytes := expect_and_get_str TName.
Definition get_key : P LefKey :=
  s <- expect_and_get_str TName ;;
  match LefKey_parse s with Some k => ret k | None => fail EtInvalidKey end.
Definition expect_key (key : LefKey) : P unit :=
  parsed <- get_key ;;
  if LefKey_eqb parsed key then ret tt
  else fail (EtRequiredWord (bytes_of_string (LefKey_to_str key))).
Definition expect_ident (ident : bytes) : P unit :=
  s <- get_name ;;
  if bytes_eqb s ident then ret tt else fail (EtRequiredWord ident).
Definition parse_ident : P bytes := get_name.
Definition parse_enum {T} (from_str : bytes -> option T) : P T :=
  s <- get_name ;;
  match from_str (upper_bytes s) with Some t => ret t | None => fail EtInvalidValue end.
Definition parse_number : P dec :=
  t <- expect TNumber ;;
  s <- txt t ;;
  match dec_of_bytes s with
  | DOk d => ret d
  | DErr => lift (Err EDecimal)
  | DUnmodelled => lift Unmodelled
  end.
Definition parse_point : P lef_point :=
  x <- parse_number ;; y <- parse_number ;; ret (Build_lef_point x y).
Definition expect_semi : P unit := _ <- expect TSemi ;; ret tt.

(** `parse_point_list` *)
Fixpoint point_list_loop (fuel : nat) (acc : list lef_point) : P (list lef_point) :=
  match fuel with
  | O => lift OutOfFuel
  | S f =>
    st <- get ;;
    let continue_ := if c_points_to_semi cf then negb (matches TSemi st) else matches TNumber st in
    if continue_ then p <- parse_point ;; point_list_loop f (acc ++ [p]) else ret acc
  end.
Definition parse_point_list : P (list lef_point) := st <- get ;; point_list_loop (fuel_of st) [].

(** `parse_version` *)
Definition version_ok (num : dec) : bool :=
  let p := 10 ^ d_scale num in
  let fr := 10 * (d_mant num mod p) in
  (dec_floor num =? 5) && (fr mod p =? 0) && (fr / p <=? 8).
Definition parse_version : P dec :=
  advance ;;;
  num <- parse_number ;;
  expect_semi ;;;
  when (negb (version_ok num)) (fail EtInvalidValue) ;;;
  (fun st => Ok (num, with_ver st num)).

Definition parse_size : P (dec * dec) :=
  expect_key K_Size ;;;
  x <- parse_number ;;
  expect_key K_By ;;;
  y <- parse_number ;;
  expect_semi ;;;
  ret (x, y).

(** `parse_symmetries` *)
Fixpoint symm_loop (fuel : nat) (acc : list LefSymmetry) : P (list LefSymmetry) :=
  match fuel with
  | O => lift OutOfFuel
  | S f =>
    st <- get ;;
    if negb (matches TSemi st) then s <- parse_enum LefSymmetry_from_str ;; symm_loop f (acc ++ [s])
    else ret acc
  end.
Definition parse_symmetries : P (list LefSymmetry) :=
  expect_key K_Symmetry ;;;
  st <- get ;;
  l <- symm_loop (fuel_of st) [] ;;
  expect_semi ;;;
  ret l.

(** `parse_macro_class` *)
Definition opt_sub {T} (from_str : bytes -> option T) : P (option T) :=
  st <- get ;;
  tp <- (if negb (matches TSemi st) then (e <- parse_enum from_str ;; ret (Some e)) else ret None) ;;
  expect_semi ;;;
  ret tp.
Definition parse_macro_class : P lef_macro_class :=
  expect_key K_Class ;;;
  n <- parse_enum LefMacroClassName_from_str ;;
  match n with
  | LefMacroClassName_Block => tp <- opt_sub LefBlockClassType_from_str ;; ret (McBlock tp)
  | LefMacroClassName_Pad => tp <- opt_sub LefPadClassType_from_str ;; ret (McPad tp)
  | LefMacroClassName_Core => tp <- opt_sub LefCoreClassType_from_str ;; ret (McCore tp)
  | LefMacroClassName_EndCap =>
    tp <- parse_enum LefEndCapClassType_from_str ;; expect_semi ;;; ret (McEndCap tp)
  | LefMacroClassName_Cover =>
    st <- get ;;
    bump <- (if negb (matches TSemi st) then (expect_key K_Bump ;;; ret true) else ret false) ;;
    expect_semi ;;;
    ret (McCover bump)
  | LefMacroClassName_Ring => expect_semi ;;; ret McRing
  end.

(** `parse_geometry_mask`, `parse_iterate`, `parse_step_pattern`, `parse_geometry_tail`, `parse_geometry` *)
Definition parse_geometry_mask : P (option dec) :=
  st <- get ;;
  if matches TName st then
    k <- peek_key ;;
    if LefKey_eqb k K_Mask then advance ;;; d <- parse_number ;; ret (Some d) else ret None
  else ret None.
Definition parse_iterate : P bool :=
  st <- get ;;
  if matches TName st then
    k <- peek_key ;;
    if LefKey_eqb k K_Iterate then advance ;;; ret true else ret false
  else ret false.
Definition parse_step_pattern : P lef_step :=
  expect_key K_Do ;;;
  numx <- parse_number ;;
  expect_key K_By ;;;
  numy <- parse_number ;;
  expect_key K_Step ;;;
  spacex <- parse_number ;;
  spacey <- parse_number ;;
  ret (Build_lef_step numx numy spacex spacey).
Definition parse_geometry_tail (is_iterate : bool) (shape : lef_shape) : P lef_geometry :=
  if is_iterate then
    pattern <- parse_step_pattern ;; expect_semi ;;; ret (GIterate shape pattern)
  else expect_semi ;;; ret (GShape shape).
Definition parse_geometry : P lef_geometry :=
  k <- get_key ;;
  match k with
  | K_Rect =>
    mask <- parse_geometry_mask ;;
    it <- parse_iterate ;;
    p1 <- parse_point ;;
    p2 <- parse_point ;;
    parse_geometry_tail it (ShRect mask p1 p2)
  | K_Polygon =>
    mask <- parse_geometry_mask ;;
    it <- parse_iterate ;;
    pts <- parse_point_list ;;
    when (Nat.ltb (List.length pts) 3) (fail EtInvalidValue) ;;;
    parse_geometry_tail it (ShPolygon mask pts)
  | K_Path =>
    mask <- parse_geometry_mask ;;
    it <- parse_iterate ;;
    pts <- parse_point_list ;;
    when (Nat.ltb (List.length pts) 2) (fail EtInvalidValue) ;;;
    parse_geometry_tail it (ShPath mask pts)
  | _ => fail EtInvalidKey
  end.

(** `parse_layer_geometries` *)
Fixpoint layer_opts_loop (fuel : nat) (lg : lef_layer_geoms) : P lef_layer_geoms :=
  match fuel with
  | O => lift OutOfFuel
  | S f =>
    st <- get ;;
    if negb (matches TSemi st) then
      k <- get_key ;;
      match k with
      | K_ExceptPgNet => layer_opts_loop f (set_lg_except_pg_net (Some true) lg)
      | K_Spacing => d <- parse_number ;; layer_opts_loop f (set_lg_spacing (Some (LsSpacing d)) lg)
      | K_DesignRuleWidth =>
        d <- parse_number ;; layer_opts_loop f (set_lg_spacing (Some (LsDesignRuleWidth d)) lg)
      | _ => fail EtInvalidKey
      end
    else ret lg
  end.
Fixpoint layer_body_loop (fuel : nat) (lg : lef_layer_geoms) : P lef_layer_geoms :=
  match fuel with
  | O => lift OutOfFuel
  | S f =>
    st <- get ;;
    match peek_token st with
    | None => ret lg
    | Some _ =>
      k <- peek_key ;;
      match k with
      | K_Layer | K_End => ret lg
      | K_Path | K_Polygon | K_Rect =>
        g <- parse_geometry ;; layer_body_loop f (set_lg_geometries (lg_geometries lg ++ [g]) lg)
      | K_Via =>
        advance ;;;
        st1 <- get ;;
        when (matches TName st1) (fail EtUnsupported) ;;;
        pt <- parse_point ;;
        via_name <- parse_ident ;;
        expect_semi ;;;
        layer_body_loop f (set_lg_vias (lg_vias lg ++ [Build_lef_via_inst via_name pt]) lg)
      | K_Width =>
        advance ;;;
        w <- parse_number ;;
        expect_semi ;;;
        layer_body_loop f (set_lg_width (Some w) lg)
      | _ => fail EtInvalidKey
      end
    end
  end.
Definition parse_layer_geometries : P lef_layer_geoms :=
  push CtxGeometry ;;;
  expect_key K_Layer ;;;
  name <- parse_ident ;;
  st <- get ;;
  lg <- layer_opts_loop (fuel_of st) (Build_lef_layer_geoms name [] [] None None None) ;;
  expect_semi ;;;
  st1 <- get ;;
  lg1 <- layer_body_loop (fuel_of st1) lg ;;
  pop ;;;
  ret lg1.

(** `parse_via_shape`, `parse_via_layer_geometries` *)
Definition parse_via_mask : P (option dec) :=
  st <- get ;;
  if matches TName st then
    k <- get_key ;;
    if LefKey_eqb k K_Mask then d <- parse_number ;; ret (Some d) else fail EtUnsupported
  else ret None.
Definition parse_via_shape : P lef_via_shape :=
  k <- peek_key ;;
  match k with
  | K_Rect =>
    advance ;;;
    mask <- parse_via_mask ;;
    p1 <- parse_point ;;
    p2 <- parse_point ;;
    expect_semi ;;;
    ret (VsRect mask p1 p2)
  | K_Polygon =>
    advance ;;;
    mask <- parse_via_mask ;;
    pts <- parse_point_list ;;
    when (Nat.ltb (List.length pts) 3) (fail EtInvalidValue) ;;;
    expect_semi ;;;
    ret (VsPolygon mask pts)
  | _ => fail EtInvalidKey
  end.
Fixpoint via_layer_loop (fuel : nat) (acc : list lef_via_shape) : P (list lef_via_shape) :=
  match fuel with
  | O => lift OutOfFuel
  | S f =>
    st <- get ;;
    match peek_token st with
    | None => ret acc
    | Some _ =>
      k <- peek_key ;;
      match k with
      | K_Layer | K_Property | K_End => ret acc
      | K_Polygon | K_Rect => s <- parse_via_shape ;; via_layer_loop f (acc ++ [s])
      | _ => fail EtInvalidKey
      end
    end
  end.
Definition parse_via_layer_geometries : P lef_via_layer_geoms :=
  push CtxGeometry ;;;
  expect_key K_Layer ;;;
  name <- parse_ident ;;
  expect_semi ;;;
  st <- get ;;
  shapes <- via_layer_loop (fuel_of st) [] ;;
  pop ;;;
  ret (Build_lef_via_layer_geoms name shapes).

(** `parse_port` *)
Fixpoint port_loop (fuel : nat) (class : option LefPortClass) (layers : list lef_layer_geoms) : P lef_port :=
  match fuel with
  | O => lift OutOfFuel
  | S f =>
    k <- peek_key ;;
    match k with
    | K_Class =>
      advance ;;;
      c <- parse_enum LefPortClass_from_str ;;
      expect_semi ;;;
      port_loop f (Some c) layers
    | K_Layer => lg <- parse_layer_geometries ;; port_loop f class (layers ++ [lg])
    | K_End => advance ;;; ret (Build_lef_port class layers)
    | _ => fail EtInvalidKey
    end
  end.
Definition parse_port : P lef_port :=
  push CtxPort ;;;
  expect_key K_Port ;;;
  st <- get ;;
  p <- port_loop (fuel_of st) None [] ;;
  pop ;;;
  ret p.

(** `parse_density` *)
Fixpoint density_rect_loop (fuel : nat) (acc : list lef_density_rect) : P (list lef_density_rect) :=
  match fuel with
  | O => lift OutOfFuel
  | S f =>
    k <- peek_key ;;
    match k with
    | K_Layer | K_End => ret acc
    | K_Rect =>
      advance ;;;
      p1 <- parse_point ;;
      p2 <- parse_point ;;
      v <- parse_number ;;
      expect_semi ;;;
      density_rect_loop f (acc ++ [Build_lef_density_rect p1 p2 v])
    | _ => fail EtInvalidKey
    end
  end.
Fixpoint density_loop (fuel : nat) (acc : list lef_density_geoms) : P (list lef_density_geoms) :=
  match fuel with
  | O => lift OutOfFuel
  | S f =>
    k <- peek_key ;;
    match k with
    | K_Layer =>
      expect_key K_Layer ;;;
      name <- parse_ident ;;
      expect_semi ;;;
      st <- get ;;
      rects <- density_rect_loop (fuel_of st) [] ;;
      density_loop f (acc ++ [Build_lef_density_geoms name rects])
    | K_End => advance ;;; ret acc
    | _ => fail EtInvalidKey
    end
  end.
Definition parse_density : P (list lef_density_geoms) :=
  push CtxDensity ;;;
  expect_key K_Density ;;;
  st <- get ;;
  d <- density_loop (fuel_of st) [] ;;
  pop ;;;
  ret d.

(** `parse_obstructions` *)
Fixpoint obs_loop (fuel : nat) (acc : list lef_layer_geoms) : P (list lef_layer_geoms) :=
  match fuel with
  | O => lift OutOfFuel
  | S f =>
    st <- get ;;
    match peek_token st with
    | None => ret acc
    | Some _ =>
      k <- peek_key ;;
      match k with
      | K_Layer => lg <- parse_layer_geometries ;; obs_loop f (acc ++ [lg])
      | K_End => advance ;;; ret acc
      | _ => fail EtInvalidKey
      end
    end
  end.
Definition parse_obstructions : P (list lef_layer_geoms) :=
  expect_key K_Obs ;;;
  st <- get ;;
  obs_loop (fuel_of st) [].

(** `parse_property` *)
Fixpoint property_loop (fuel : nat) (acc : list lef_property) : P (list lef_property) :=
  match fuel with
  | O => lift OutOfFuel
  | S f =>
    st <- get ;;
    if negb (matches TSemi st) then
      name <- parse_ident ;;
      st1 <- get ;;
      match peek_token st1 with
      | Some t =>
        match t_ty t with
        | TName | TNumber | TString =>
          value <- txt t ;;
          advance ;;;
          property_loop f (acc ++ [Build_lef_property name value])
        | _ => fail_msg EtInvalidValue MsgProperty
        end
      | None => fail_msg EtInvalidValue MsgProperty
      end
    else ret acc
  end.
Definition parse_property (acc : list lef_property) : P (list lef_property) :=
  expect_key K_Property ;;;
  st <- get ;;
  l <- property_loop (fuel_of st) acc ;;
  expect_semi ;;;
  ret l.

(** `parse_pin_direction` *)
Definition parse_pin_direction : P lef_pin_direction :=
  expect_key K_Direction ;;;
  k <- get_key ;;
  d <- match k with
       | K_Input => ret DirInput
       | K_FeedThru => ret DirFeedThru
       | K_Inout => ret DirInout
       | K_Output =>
         st <- get ;;
         if negb (matches TSemi st) then expect_key K_Tristate ;;; ret (DirOutput true)
         else ret (DirOutput false)
       | _ => fail EtInvalidValue
       end ;;
  expect_semi ;;;
  ret d.

(** `parse_pin` *)
Definition ident_stmt : P bytes := advance ;;; v <- parse_ident ;; expect_semi ;;; ret v.
Definition enum_stmt {T} (from_str : bytes -> option T) : P T :=
  advance ;;; e <- parse_enum from_str ;; expect_semi ;;; ret e.

Fixpoint pin_loop (fuel : nat) (pin : lef_pin) (props : list lef_property) : P (lef_pin * list lef_property) :=
  match fuel with
  | O => lift OutOfFuel
  | S f =>
    k <- peek_key ;;
    match k with
    | K_End => advance ;;; ret (pin, props)
    | K_Port => p <- parse_port ;; pin_loop f (set_pin_ports (pin_ports pin ++ [p]) pin) props
    | K_Direction => d <- parse_pin_direction ;; pin_loop f (set_pin_direction (Some d) pin) props
    | K_Use => e <- enum_stmt LefPinUse_from_str ;; pin_loop f (set_pin_use_ (Some e) pin) props
    | K_Shape => e <- enum_stmt LefPinShape_from_str ;; pin_loop f (set_pin_shape (Some e) pin) props
    | K_AntennaModel =>
      e <- enum_stmt LefAntennaModel_from_str ;; pin_loop f (set_pin_antenna_model (Some e) pin) props
    | K_AntennaDiffArea | K_AntennaGateArea | K_AntennaPartialMetalArea | K_AntennaPartialMetalSideArea
    | K_AntennaPartialCutArea | K_AntennaPartialDiffArea | K_AntennaMaxAreaCar | K_AntennaMaxSideAreaCar
    | K_AntennaMaxCutCar =>
      key <- parse_ident ;;
      val <- parse_number ;;
      st <- get ;;
      layer <- (if negb (matches TSemi st) then
                  (expect_key K_Layer ;;; l <- parse_ident ;; ret (Some l))
                else ret None) ;;
      expect_semi ;;;
      pin_loop f (set_pin_antenna_attrs (pin_antenna_attrs pin ++ [Build_lef_antenna_attr key val layer]) pin) props
    | K_TaperRule => v <- ident_stmt ;; pin_loop f (set_pin_taper_rule (Some v) pin) props
    | K_MustJoin => v <- ident_stmt ;; pin_loop f (set_pin_must_join (Some v) pin) props
    | K_SupplySensitivity => v <- ident_stmt ;; pin_loop f (set_pin_supply_sensitivity (Some v) pin) props
    | K_GroundSensitivity => v <- ident_stmt ;; pin_loop f (set_pin_ground_sensitivity (Some v) pin) props
    | K_NetExpr =>
      advance ;;;
      vt <- expect TString ;;
      expect_semi ;;;
      v <- txt vt ;;
      pin_loop f (set_pin_net_expr (Some v) pin) props
    | K_Property => props' <- parse_property props ;; pin_loop f pin props'
    | _ => fail EtInvalidKey
    end
  end.
Definition empty_pin (name : bytes) : lef_pin :=
  Build_lef_pin name [] None None None None [] None None None None None [].
Definition parse_pin : P lef_pin :=
  push CtxPin ;;;
  expect_key K_Pin ;;;
  name <- parse_ident ;;
  st <- get ;;
  r <- pin_loop (fuel_of st) (empty_pin name) [] ;;
  let '(pin, props) := r in
  expect_ident name ;;;
  pop ;;;
  ret (if c_drop_props cf then pin else set_pin_properties props pin).

(** `parse_macro` *)
Fixpoint macro_loop (fuel : nat) (mac : lef_macro) (props : list lef_property) : P (lef_macro * list lef_property) :=
  match fuel with
  | O => lift OutOfFuel
  | S f =>
    k <- peek_key ;;
    match k with
    | K_Class => c <- parse_macro_class ;; macro_loop f (set_mac_class (Some c) mac) props
    | K_Site => v <- ident_stmt ;; macro_loop f (set_mac_site (Some v) mac) props
    | K_Eeq => v <- ident_stmt ;; macro_loop f (set_mac_eeq (Some v) mac) props
    | K_FixedMask => advance ;;; expect_semi ;;; macro_loop f (set_mac_fixed_mask true mac) props
    | K_Foreign =>
      advance ;;;
      cell_name <- parse_ident ;;
      st <- get ;;
      pt <- (if negb (matches TSemi st) then (p <- parse_point ;; ret (Some p)) else ret None) ;;
      st1 <- get ;;
      orient <- (if negb (matches TSemi st1) then (o <- parse_enum LefOrient_from_str ;; ret (Some o)) else ret None) ;;
      expect_semi ;;;
      macro_loop f (set_mac_foreign (Some (Build_lef_foreign cell_name pt orient)) mac) props
    | K_Origin =>
      advance ;;; pt <- parse_point ;; expect_semi ;;; macro_loop f (set_mac_origin (Some pt) mac) props
    | K_Size => s <- parse_size ;; macro_loop f (set_mac_size (Some s) mac) props
    | K_Pin => p <- parse_pin ;; macro_loop f (set_mac_pins (mac_pins mac ++ [p]) mac) props
    | K_Obs => o <- parse_obstructions ;; macro_loop f (set_mac_obs o mac) props
    | K_Property => props' <- parse_property props ;; macro_loop f mac props'
    | K_Symmetry => s <- parse_symmetries ;; macro_loop f (set_mac_symmetry (Some s) mac) props
    | K_Source =>
      st <- get ;;
      when (dec_gt (p_ver st) V5P4) (fail_msg EtInvalidKey MsgSource) ;;;
      e <- enum_stmt LefDefSource_from_str ;;
      macro_loop f (set_mac_source (Some e) mac) props
    | K_Density => d <- parse_density ;; macro_loop f (set_mac_density (Some d) mac) props
    | K_End => advance ;;; ret (mac, props)
    | _ => fail EtInvalidKey
    end
  end.
Definition empty_macro (name : bytes) : lef_macro :=
  Build_lef_macro name [] [] None None None None None None None None false [] None.
Definition parse_macro : P lef_macro :=
  push CtxMacro ;;;
  expect_key K_Macro ;;;
  name <- parse_ident ;;
  st <- get ;;
  r <- macro_loop (fuel_of st) (empty_macro name) [] ;;
  let '(mac, props) := r in
  expect_ident name ;;;
  pop ;;;
  ret (if c_drop_props cf then mac else set_mac_properties props mac).

(** `parse_property_definitions` *)
Definition parse_property_definition_tail : P (option dec * option (dec * dec)) :=
  st <- get ;;
  range <- (if matches TName st then
              (expect_key K_Range ;;; b <- parse_number ;; e <- parse_number ;; ret (Some (b, e)))
            else ret None) ;;
  st1 <- get ;;
  value <- (if matches TNumber st1 then (v <- parse_number ;; ret (Some v)) else ret None) ;;
  expect_semi ;;;
  ret (value, range).
Fixpoint propdefs_loop (fuel : nat) (acc : list lef_propdef) : P (list lef_propdef) :=
  match fuel with
  | O => lift OutOfFuel
  | S f =>
    k <- peek_key ;;
    match k with
    | K_Layer | K_Library | K_Macro | K_NonDefaultRule | K_Pin | K_Via | K_ViaRule =>
      objtype <- parse_enum LefPropertyDefinitionObjectType_from_str ;;
      propname <- get_name ;;
      ty <- get_key ;;
      match ty with
      | K_String =>
        st <- get ;;
        value <- (if matches TSemi st then ret None
                  else (t <- expect TString ;; s <- txt t ;; ret (Some s))) ;;
        expect_semi ;;;
        propdefs_loop f (acc ++ [PdLefString objtype propname value])
      | K_Real =>
        vr <- parse_property_definition_tail ;;
        propdefs_loop f (acc ++ [PdLefReal objtype propname (fst vr) (snd vr)])
      | K_Integer =>
        vr <- parse_property_definition_tail ;;
        propdefs_loop f (acc ++ [PdLefInteger objtype propname (fst vr) (snd vr)])
      | _ => fail EtInvalidKey
      end
    | K_End => advance ;;; expect_key K_PropertyDefinitions ;;; ret acc
    | _ => fail EtInvalidKey
    end
  end.
Definition parse_property_definitions : P (list lef_propdef) :=
  push CtxPropertyDefinitions ;;;
  expect_key K_PropertyDefinitions ;;;
  st <- get ;;
  l <- propdefs_loop (fuel_of st) [] ;;
  pop ;;;
  ret l.

(** `LefDbuPerMicron::try_new` *)
Definition dbu_allowed (v : Z) : bool :=
  existsb (Z.eqb v) [100; 200; 400; 800; 1000; 2000; 4000; 8000; 10000; 20000].
Definition dbu_try_new (x : dec) : res Z :=
  if negb (dec_fract_is_zero x) then Err (EStr (bs "DBU per Micron must be an integer"))
  else
    let m := if c_dbu_mantissa cf then d_smant x else dec_trunc x in
    if dbu_allowed m then Ok m else Err (EStr (bs "Invalid DBU per Micron value")).

(** `parse_units` *)
Definition unit_stmt (k : LefKey) : P dec :=
  expect_key k ;;; n <- parse_number ;; expect_semi ;;; ret n.
Fixpoint units_loop (fuel : nat) (u : lef_units) : P lef_units :=
  match fuel with
  | O => lift OutOfFuel
  | S f =>
    k <- get_key ;;
    match k with
    | K_Database =>
      n <- unit_stmt K_Microns ;; v <- lift (dbu_try_new n) ;; units_loop f (set_u_database_microns (Some v) u)
    | K_Time => n <- unit_stmt K_Nanoseconds ;; units_loop f (set_u_time_ns (Some n) u)
    | K_Capacitance => n <- unit_stmt K_Picofarads ;; units_loop f (set_u_capacitance_pf (Some n) u)
    | K_Resistance => n <- unit_stmt K_Ohms ;; units_loop f (set_u_resistance_ohms (Some n) u)
    | K_Power => n <- unit_stmt K_Milliwatts ;; units_loop f (set_u_power_mw (Some n) u)
    | K_Current => n <- unit_stmt K_Milliamps ;; units_loop f (set_u_current_ma (Some n) u)
    | K_Voltage => n <- unit_stmt K_Volts ;; units_loop f (set_u_voltage_volts (Some n) u)
    | K_Frequency => n <- unit_stmt K_Megahertz ;; units_loop f (set_u_frequency_mhz (Some n) u)
    | K_End => expect_key K_Units ;;; ret u
    | _ => fail EtInvalidKey
    end
  end.
Definition parse_units : P lef_units :=
  push CtxUnits ;;;
  expect_key K_Units ;;;
  st <- get ;;
  u <- units_loop (fuel_of st) (Build_lef_units None None None None None None None None) ;;
  pop ;;;
  ret u.

(** `parse_site_def`; `LefSiteBuilder::build` needs `class` and `size` *)
Fixpoint site_loop (fuel : nat) (name : bytes) (class : option LefSiteClass) (size : option (dec * dec))
         (symm : option (list LefSymmetry)) : P (option LefSiteClass * option (dec * dec) * option (list LefSymmetry)) :=
  match fuel with
  | O => lift OutOfFuel
  | S f =>
    k <- peek_key ;;
    match k with
    | K_End => advance ;;; expect_ident name ;;; ret (class, size, symm)
    | K_Class => e <- enum_stmt LefSiteClass_from_str ;; site_loop f name (Some e) size symm
    | K_Symmetry => s <- parse_symmetries ;; site_loop f name class size (Some s)
    | K_Size => s <- parse_size ;; site_loop f name class (Some s) symm
    | K_RowPattern => fail EtUnsupported
    | _ => fail EtInvalidValue
    end
  end.
Definition must_init (field : string) : bytes := bs "`" ++ bs field ++ bs "` must be initialized".
Definition parse_site_def : P lef_site :=
  push CtxSite ;;;
  expect_key K_Site ;;;
  name <- parse_ident ;;
  st <- get ;;
  r <- site_loop (fuel_of st) name None None None ;;
  let '(class, size, symm) := r in
  pop ;;;
  match class, size with
  | None, _ => lift (Err (EStr (must_init "class")))
  | Some _, None => lift (Err (EStr (must_init "size")))
  | Some c, Some s => ret (Build_lef_site name c s symm)
  end.

(** `parse_via` *)
Record gv_builder := mkgvb {
  gb_cut_size : option (dec * dec); gb_layers : option (bytes * bytes * bytes);
  gb_cut_spacing : option (dec * dec); gb_enclosure : option (dec * dec * dec * dec);
  gb_rowcol : option lef_rowcol; gb_origin : option lef_point; gb_offset : option lef_offset }.
Fixpoint gen_via_loop (fuel : nat) (b : gv_builder) : P gv_builder :=
  match fuel with
  | O => lift OutOfFuel
  | S f =>
    k <- peek_key ;;
    match k with
    | K_CutSize =>
      advance ;;; x <- parse_number ;; y <- parse_number ;; expect_semi ;;;
      gen_via_loop f (mkgvb (Some (x, y)) (gb_layers b) (gb_cut_spacing b) (gb_enclosure b) (gb_rowcol b) (gb_origin b) (gb_offset b))
    | K_Layers =>
      advance ;;; l1 <- parse_ident ;; l2 <- parse_ident ;; l3 <- parse_ident ;; expect_semi ;;;
      gen_via_loop f (mkgvb (gb_cut_size b) (Some (l1, l2, l3)) (gb_cut_spacing b) (gb_enclosure b) (gb_rowcol b) (gb_origin b) (gb_offset b))
    | K_CutSpacing =>
      advance ;;; x <- parse_number ;; y <- parse_number ;; expect_semi ;;;
      gen_via_loop f (mkgvb (gb_cut_size b) (gb_layers b) (Some (x, y)) (gb_enclosure b) (gb_rowcol b) (gb_origin b) (gb_offset b))
    | K_Enclosure =>
      advance ;;; a <- parse_number ;; b2 <- parse_number ;; c <- parse_number ;; d <- parse_number ;; expect_semi ;;;
      gen_via_loop f (mkgvb (gb_cut_size b) (gb_layers b) (gb_cut_spacing b) (Some (a, b2, c, d)) (gb_rowcol b) (gb_origin b) (gb_offset b))
    | K_RowCol =>
      advance ;;; r <- parse_number ;; c <- parse_number ;; expect_semi ;;;
      gen_via_loop f (mkgvb (gb_cut_size b) (gb_layers b) (gb_cut_spacing b) (gb_enclosure b) (Some (Build_lef_rowcol r c)) (gb_origin b) (gb_offset b))
    | K_Origin =>
      advance ;;; p <- parse_point ;; expect_semi ;;;
      gen_via_loop f (mkgvb (gb_cut_size b) (gb_layers b) (gb_cut_spacing b) (gb_enclosure b) (gb_rowcol b) (Some p) (gb_offset b))
    | K_Offset =>
      advance ;;; a <- parse_number ;; b2 <- parse_number ;; c <- parse_number ;; d <- parse_number ;; expect_semi ;;;
      gen_via_loop f (mkgvb (gb_cut_size b) (gb_layers b) (gb_cut_spacing b) (gb_enclosure b) (gb_rowcol b) (gb_origin b) (Some (Build_lef_offset a b2 c d)))
    | K_Pattern | K_Property => fail EtUnsupported
    | K_End => ret b
    | _ => fail EtInvalidKey
    end
  end.
(** `LefGeneratedViaDefBuilder::build`: the first uninitialised required field, in declaration order *)
Definition gen_via_build (rule : bytes) (b : gv_builder) : res lef_gen_via :=
  match gb_cut_size b, gb_layers b, gb_cut_spacing b, gb_enclosure b with
  | None, _, _, _ => Err (EStr (must_init "cut_size_x"))
  | Some _, None, _, _ => Err (EStr (must_init "bot_metal_layer"))
  | Some _, Some _, None, _ => Err (EStr (must_init "cut_spacing_x"))
  | Some _, Some _, Some _, None => Err (EStr (must_init "bot_enc_x"))
  | Some (cx, cy), Some (l1, l2, l3), Some (sx, sy), Some (e1, e2, e3, e4) =>
    Ok (Build_lef_gen_via rule cx cy l1 l2 l3 sx sy e1 e2 e3 e4 (gb_rowcol b) (gb_origin b) (gb_offset b))
  end.
Fixpoint fixed_via_layers_loop (fuel : nat) (acc : list lef_via_layer_geoms) : P (list lef_via_layer_geoms) :=
  match fuel with
  | O => lift OutOfFuel
  | S f =>
    k <- peek_key ;;
    match k with
    | K_Layer => l <- parse_via_layer_geometries ;; fixed_via_layers_loop f (acc ++ [l])
    | _ => ret acc
    end
  end.
Definition parse_via : P lef_via_def :=
  push CtxVia ;;;
  expect_key K_Via ;;;
  name <- parse_ident ;;
  k0 <- peek_key ;;
  default <- (if LefKey_eqb k0 K_Default then advance ;;; ret true else ret false) ;;
  k1 <- peek_key ;;
  data <- (if LefKey_eqb k1 K_ViaRule then
             advance ;;;
             rule <- parse_ident ;;
             expect_semi ;;;
             st <- get ;;
             b <- gen_via_loop (fuel_of st) (mkgvb None None None None None None None) ;;
             g <- lift (gen_via_build rule b) ;;
             ret (VdGenerated g)
           else
             k2 <- peek_key ;;
             res_ <- (if LefKey_eqb k2 K_Resistance then
                        advance ;;; r <- parse_number ;; expect_semi ;;; ret (Some r)
                      else ret None) ;;
             st <- get ;;
             layers <- fixed_via_layers_loop (fuel_of st) [] ;;
             ret (VdFixed (Build_lef_fixed_via res_ layers))) ;;
  k3 <- peek_key ;;
  match k3 with
  | K_Property => fail EtUnsupported
  | K_End => advance
  | _ => fail EtInvalidKey
  end ;;;
  expect_ident name ;;;
  pop ;;;
  ret (Build_lef_via_def name default data).

(** `parse_bus_bit_chars`, `parse_divider_char`: the characters of the string literal's text *)
Fixpoint chars_of (s : bytes) : list Z :=
  match s with
  | [] => []
  | b :: r => if is_cont b then chars_of r else cp_at s :: chars_of r
  end.
Definition parse_bus_bit_chars : P (Z * Z) :=
  expect_key K_BusBitChars ;;;
  s <- expect_and_get_str TString ;;
  match chars_of s with
  | [_; c1; c2; _] => expect_semi ;;; ret (c1, c2)
  | _ => fail EtInvalidValue
  end.
Definition parse_divider_char : P Z :=
  expect_key K_DividerChar ;;;
  s <- expect_and_get_str TString ;;
  match chars_of s with
  | [_; c1; _] => expect_semi ;;; ret c1
  | _ => fail EtInvalidValue
  end.

(** BEGINEXT .. ENDEXT body *)
Fixpoint ext_loop (fuel : nat) (data : bytes) : P bytes :=
  match fuel with
  | O => lift OutOfFuel
  | S f =>
    nexttok <- next_token ;;
    match nexttok with
    | Some tok =>
      stop <- (if ttype_eqb (t_ty tok) TName then
                 s <- txt tok ;;
                 match LefKey_parse s with
                 | Some key => ret (LefKey_eqb key K_EndExtension)
                 | None => fail_ignored ;;; ret false
                 end
               else ret false) ;;
      if (stop : bool) then ret data
      else s <- txt tok ;; ext_loop f (data ++ s ++ [32])
    | None => fail EtInvalidKey
    end
  end.

(** `parse_lib` *)
Definition onoff_stmt : P LefOnOff := e <- parse_enum LefOnOff_from_str ;; expect_semi ;;; ret e.
Fixpoint lib_loop (fuel : nat) (lib : lef_lib) : P lef_lib :=
  match fuel with
  | O => lift OutOfFuel
  | S f =>
    st <- get ;;
    match peek_token st, dec_ge (p_ver st) V5P6 with
    | None, true => ret lib
    | _, _ =>
      k <- peek_key ;;
      match k with
      | K_Macro => m <- parse_macro ;; lib_loop f (set_lib_macros (lib_macros lib ++ [m]) lib)
      | K_Version =>
        when (negb (c_version_repeat cf) && match lib_version lib with Some _ => true | None => false end)
             (fail_msg EtInvalidKey MsgVersionTwice) ;;;
        v <- parse_version ;; lib_loop f (set_lib_version (Some v) lib)
      | K_BusBitChars => c <- parse_bus_bit_chars ;; lib_loop f (set_lib_bus_bit_chars (Some c) lib)
      | K_DividerChar => c <- parse_divider_char ;; lib_loop f (set_lib_divider_char (Some c) lib)
      | K_NamesCaseSensitive =>
        when (dec_gt (p_ver st) V5P4) (fail_msg EtInvalidKey MsgNamesCase) ;;;
        advance ;;;
        e <- onoff_stmt ;;
        lib_loop f (set_lib_names_case_sensitive (Some e) lib)
      | K_NoWireExtensionAtPin =>
        when (negb (c_nowire_ungated cf) && dec_gt (p_ver st) V5P4) (fail_msg EtInvalidKey MsgNoWire) ;;;
        advance ;;;
        e <- onoff_stmt ;;
        lib_loop f (set_lib_no_wire_extension_at_pin (Some e) lib)
      | K_Units => u <- parse_units ;; lib_loop f (set_lib_units (Some u) lib)
      | K_Site => s <- parse_site_def ;; lib_loop f (set_lib_sites (lib_sites lib ++ [s]) lib)
      | K_End => advance ;;; expect_key K_Library ;;; ret lib
      | K_FixedMask => advance ;;; expect_semi ;;; lib_loop f (set_lib_fixed_mask true lib)
      | K_UseMinSpacing =>
        advance ;;; expect_key K_Obs ;;; e <- onoff_stmt ;; lib_loop f (set_lib_use_min_spacing (Some e) lib)
      | K_Via => v <- parse_via ;; lib_loop f (set_lib_vias (lib_vias lib ++ [v]) lib)
      | K_ClearanceMeasure =>
        advance ;;;
        e <- parse_enum LefClearanceStyle_from_str ;;
        expect_semi ;;;
        lib_loop f (set_lib_clearance_measure (Some e) lib)
      | K_ManufacturingGrid =>
        advance ;;; n <- parse_number ;; expect_semi ;;; lib_loop f (set_lib_manufacturing_grid (Some n) lib)
      | K_BeginExtension =>
        advance ;;;
        vt <- expect TString ;;
        name <- txt vt ;;
        st1 <- get ;;
        data <- ext_loop (fuel_of st1) [] ;;
        lib_loop f (set_lib_extensions (lib_extensions lib ++ [Build_lef_extension name data]) lib)
      | K_PropertyDefinitions =>
        pd <- parse_property_definitions ;;
        lib_loop f (set_lib_property_definitions (lib_property_definitions lib ++ pd) lib)
      | K_MaxViaStack | K_ViaRule | K_Generate | K_NonDefaultRule => fail EtUnsupported
      | _ => fail EtInvalidKey
      end
    end
  end.
Definition empty_lib : lef_lib :=
  Build_lef_lib [] [] [] None None None None None None false None [] None None [].
Definition parse_lib : P lef_lib :=
  push CtxLibrary ;;;
  st <- get ;;
  lib <- lib_loop (fuel_of st) empty_lib ;;
  pop ;;;
  ret lib.

End Parser.

(** `parse_str`: `LefParser::new` (which lexes the first token) then `parse_lib` *)
Definition parse (cf : cfg) (src : bytes) : res lef_lib :=
  let '(toks, e) := lex (c_charpos cf) src in
  match toks, e with
  | [], LErr c l p => Err (ELex (Some c) l p)
  | [], LPanic => Panic
  | [], LFuel => OutOfFuel
  | _, _ =>
    match parse_lib cf src (mkpst toks e V5P8 []) with
    | Ok (l, _) => Ok l
    | Err er => Err er | Panic => Panic | OutOfFuel => OutOfFuel | Unmodelled => Unmodelled
    end
  end.
