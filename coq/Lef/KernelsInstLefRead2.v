(** Reading of the generated LEF statement parsers (Gen/KernelsLefRead2Gen.v: lef21/src/read.rs `LefParser`, unit "lefr2") at the level of the
    parser model Lef/LefParse.v.  MONADIC SELF as in Lef/KernelsInstLefRead.v: the `LefParser` is the state of the effect, the model's [pst];
    [lm], [lunit], [lm_xops] (`self.fail(..)` = the model's [fail], the error value abstract) are taken from there.

    - external HERE, tied to the Rust source in the family lef_parse (Lef/KernelsTieLefRead_proofs.v, against Gen/KernelsLefReadGen.v): `advance`,
      `matches`, `expect`, `peek_key`, `get_key`, `expect_key`, `parse_ident`, `parse_number`, `parse_point` = the model's functions of the
      same names, their values carried into the types of this generated file ([GLefKey], [Gtok], [Gpoint]);
    - external: `self.lex.peek_token()` = [peek_token], `self.txt(&tok)` = [txt], `parse_enum::<T>()` at each T = [parse_enum T_from_str]
      (generic over the enumstr! tables: Gen/LefKeysGen.v ties the tables), `LefDbuPerMicron::try_new` = [dbu_try_new] (rust_decimal),
      `==` on strings = [bytes_eqb];
    - `XBuilder::build()` with a required field not set = an error (never a panic: no parser state is read);
    - `self.ctx` through get / put = [p_ctx]; every `loop` / `while` starts with the fuel [fuel_of] the state gives.
    No proofs in this file. *)
From Coq Require Import ZArith Bool List String.
From L21 Require Import Lef.LefDec Lef.LefData Lef.LefLex Lef.LefParse.
From L21 Require Import Base.KernelOps Base.KernelOpsX Base.KernelOpsS Base.KernelOpsL Base.Outcome Gen.KernelsLefRead2Gen.
From L21 Require Import Lef.KernelsInstLefRead.
Import ListNotations.
Local Open Scope Z_scope.

(** * enumerations and tokens: generated <-> model *)
Definition GLefKey (x : LefKey) : gLefKey unit Z :=
  match x with K_Library => gLefKey_Library | K_Version => gLefKey_Version | K_Foreign => gLefKey_Foreign | K_Origin => gLefKey_Origin | K_Source => gLefKey_Source | K_NamesCaseSensitive => gLefKey_NamesCaseSensitive | K_NoWireExtensionAtPin => gLefKey_NoWireExtensionAtPin | K_Macro => gLefKey_Macro | K_End => gLefKey_End | K_Pin => gLefKey_Pin | K_Port => gLefKey_Port | K_Obs => gLefKey_Obs | K_Layer => gLefKey_Layer | K_Direction => gLefKey_Direction | K_Use => gLefKey_Use | K_Shape => gLefKey_Shape | K_Path => gLefKey_Path | K_Polygon => gLefKey_Polygon | K_Rect => gLefKey_Rect | K_Via => gLefKey_Via | K_Width => gLefKey_Width | K_Class => gLefKey_Class | K_Symmetry => gLefKey_Symmetry | K_RowPattern => gLefKey_RowPattern | K_Site => gLefKey_Site | K_Size => gLefKey_Size | K_Do => gLefKey_Do | K_Iterate => gLefKey_Iterate | K_Step => gLefKey_Step | K_By => gLefKey_By | K_BusBitChars => gLefKey_BusBitChars | K_DividerChar => gLefKey_DividerChar | K_BeginExtension => gLefKey_BeginExtension | K_EndExtension => gLefKey_EndExtension | K_Tristate => gLefKey_Tristate | K_Input => gLefKey_Input | K_Output => gLefKey_Output | K_Inout => gLefKey_Inout | K_FeedThru => gLefKey_FeedThru | K_ExceptPgNet => gLefKey_ExceptPgNet | K_DesignRuleWidth => gLefKey_DesignRuleWidth | K_Spacing => gLefKey_Spacing | K_Bump => gLefKey_Bump | K_Eeq => gLefKey_Eeq | K_FixedMask => gLefKey_FixedMask | K_Mask => gLefKey_Mask | K_UseMinSpacing => gLefKey_UseMinSpacing | K_TaperRule => gLefKey_TaperRule | K_NetExpr => gLefKey_NetExpr | K_SupplySensitivity => gLefKey_SupplySensitivity | K_GroundSensitivity => gLefKey_GroundSensitivity | K_MustJoin => gLefKey_MustJoin | K_Property => gLefKey_Property | K_ManufacturingGrid => gLefKey_ManufacturingGrid | K_ClearanceMeasure => gLefKey_ClearanceMeasure | K_Density => gLefKey_Density | K_Units => gLefKey_Units | K_Time => gLefKey_Time | K_Nanoseconds => gLefKey_Nanoseconds | K_Capacitance => gLefKey_Capacitance | K_Picofarads => gLefKey_Picofarads | K_Resistance => gLefKey_Resistance | K_Ohms => gLefKey_Ohms | K_Power => gLefKey_Power | K_Milliwatts => gLefKey_Milliwatts | K_Current => gLefKey_Current | K_Milliamps => gLefKey_Milliamps | K_Voltage => gLefKey_Voltage | K_Volts => gLefKey_Volts | K_Database => gLefKey_Database | K_Microns => gLefKey_Microns | K_Frequency => gLefKey_Frequency | K_Megahertz => gLefKey_Megahertz | K_AntennaModel => gLefKey_AntennaModel | K_AntennaDiffArea => gLefKey_AntennaDiffArea | K_AntennaGateArea => gLefKey_AntennaGateArea | K_AntennaPartialMetalArea => gLefKey_AntennaPartialMetalArea | K_AntennaPartialMetalSideArea => gLefKey_AntennaPartialMetalSideArea | K_AntennaPartialCutArea => gLefKey_AntennaPartialCutArea | K_AntennaPartialDiffArea => gLefKey_AntennaPartialDiffArea | K_AntennaMaxAreaCar => gLefKey_AntennaMaxAreaCar | K_AntennaMaxSideAreaCar => gLefKey_AntennaMaxSideAreaCar | K_AntennaMaxCutCar => gLefKey_AntennaMaxCutCar | K_Default => gLefKey_Default | K_ViaRule => gLefKey_ViaRule | K_CutSize => gLefKey_CutSize | K_Layers => gLefKey_Layers | K_CutSpacing => gLefKey_CutSpacing | K_Enclosure => gLefKey_Enclosure | K_RowCol => gLefKey_RowCol | K_Offset => gLefKey_Offset | K_Pattern => gLefKey_Pattern | K_PropertyDefinitions => gLefKey_PropertyDefinitions | K_String => gLefKey_String | K_Real => gLefKey_Real | K_Range => gLefKey_Range | K_Integer => gLefKey_Integer | K_MaxViaStack => gLefKey_MaxViaStack | K_Generate => gLefKey_Generate | K_NonDefaultRule => gLefKey_NonDefaultRule end.
Definition MLefKey (x : gLefKey unit Z) : LefKey :=
  match x with gLefKey_Library => K_Library | gLefKey_Version => K_Version | gLefKey_Foreign => K_Foreign | gLefKey_Origin => K_Origin | gLefKey_Source => K_Source | gLefKey_NamesCaseSensitive => K_NamesCaseSensitive | gLefKey_NoWireExtensionAtPin => K_NoWireExtensionAtPin | gLefKey_Macro => K_Macro | gLefKey_End => K_End | gLefKey_Pin => K_Pin | gLefKey_Port => K_Port | gLefKey_Obs => K_Obs | gLefKey_Layer => K_Layer | gLefKey_Direction => K_Direction | gLefKey_Use => K_Use | gLefKey_Shape => K_Shape | gLefKey_Path => K_Path | gLefKey_Polygon => K_Polygon | gLefKey_Rect => K_Rect | gLefKey_Via => K_Via | gLefKey_Width => K_Width | gLefKey_Class => K_Class | gLefKey_Symmetry => K_Symmetry | gLefKey_RowPattern => K_RowPattern | gLefKey_Site => K_Site | gLefKey_Size => K_Size | gLefKey_Do => K_Do | gLefKey_Iterate => K_Iterate | gLefKey_Step => K_Step | gLefKey_By => K_By | gLefKey_BusBitChars => K_BusBitChars | gLefKey_DividerChar => K_DividerChar | gLefKey_BeginExtension => K_BeginExtension | gLefKey_EndExtension => K_EndExtension | gLefKey_Tristate => K_Tristate | gLefKey_Input => K_Input | gLefKey_Output => K_Output | gLefKey_Inout => K_Inout | gLefKey_FeedThru => K_FeedThru | gLefKey_ExceptPgNet => K_ExceptPgNet | gLefKey_DesignRuleWidth => K_DesignRuleWidth | gLefKey_Spacing => K_Spacing | gLefKey_Bump => K_Bump | gLefKey_Eeq => K_Eeq | gLefKey_FixedMask => K_FixedMask | gLefKey_Mask => K_Mask | gLefKey_UseMinSpacing => K_UseMinSpacing | gLefKey_TaperRule => K_TaperRule | gLefKey_NetExpr => K_NetExpr | gLefKey_SupplySensitivity => K_SupplySensitivity | gLefKey_GroundSensitivity => K_GroundSensitivity | gLefKey_MustJoin => K_MustJoin | gLefKey_Property => K_Property | gLefKey_ManufacturingGrid => K_ManufacturingGrid | gLefKey_ClearanceMeasure => K_ClearanceMeasure | gLefKey_Density => K_Density | gLefKey_Units => K_Units | gLefKey_Time => K_Time | gLefKey_Nanoseconds => K_Nanoseconds | gLefKey_Capacitance => K_Capacitance | gLefKey_Picofarads => K_Picofarads | gLefKey_Resistance => K_Resistance | gLefKey_Ohms => K_Ohms | gLefKey_Power => K_Power | gLefKey_Milliwatts => K_Milliwatts | gLefKey_Current => K_Current | gLefKey_Milliamps => K_Milliamps | gLefKey_Voltage => K_Voltage | gLefKey_Volts => K_Volts | gLefKey_Database => K_Database | gLefKey_Microns => K_Microns | gLefKey_Frequency => K_Frequency | gLefKey_Megahertz => K_Megahertz | gLefKey_AntennaModel => K_AntennaModel | gLefKey_AntennaDiffArea => K_AntennaDiffArea | gLefKey_AntennaGateArea => K_AntennaGateArea | gLefKey_AntennaPartialMetalArea => K_AntennaPartialMetalArea | gLefKey_AntennaPartialMetalSideArea => K_AntennaPartialMetalSideArea | gLefKey_AntennaPartialCutArea => K_AntennaPartialCutArea | gLefKey_AntennaPartialDiffArea => K_AntennaPartialDiffArea | gLefKey_AntennaMaxAreaCar => K_AntennaMaxAreaCar | gLefKey_AntennaMaxSideAreaCar => K_AntennaMaxSideAreaCar | gLefKey_AntennaMaxCutCar => K_AntennaMaxCutCar | gLefKey_Default => K_Default | gLefKey_ViaRule => K_ViaRule | gLefKey_CutSize => K_CutSize | gLefKey_Layers => K_Layers | gLefKey_CutSpacing => K_CutSpacing | gLefKey_Enclosure => K_Enclosure | gLefKey_RowCol => K_RowCol | gLefKey_Offset => K_Offset | gLefKey_Pattern => K_Pattern | gLefKey_PropertyDefinitions => K_PropertyDefinitions | gLefKey_String => K_String | gLefKey_Real => K_Real | gLefKey_Range => K_Range | gLefKey_Integer => K_Integer | gLefKey_MaxViaStack => K_MaxViaStack | gLefKey_Generate => K_Generate | gLefKey_NonDefaultRule => K_NonDefaultRule end.
Definition GLefSymmetry (x : LefSymmetry) : gLefSymmetry unit Z :=
  match x with LefSymmetry_X => gLefSymmetry_X | LefSymmetry_Y => gLefSymmetry_Y | LefSymmetry_R90 => gLefSymmetry_R90 end.
Definition MLefSymmetry (x : gLefSymmetry unit Z) : LefSymmetry :=
  match x with gLefSymmetry_X => LefSymmetry_X | gLefSymmetry_Y => LefSymmetry_Y | gLefSymmetry_R90 => LefSymmetry_R90 end.
Definition GLefMacroClassName (x : LefMacroClassName) : gLefMacroClassName unit Z :=
  match x with LefMacroClassName_Block => gLefMacroClassName_Block | LefMacroClassName_Pad => gLefMacroClassName_Pad | LefMacroClassName_Core => gLefMacroClassName_Core | LefMacroClassName_EndCap => gLefMacroClassName_EndCap | LefMacroClassName_Cover => gLefMacroClassName_Cover | LefMacroClassName_Ring => gLefMacroClassName_Ring end.
Definition MLefMacroClassName (x : gLefMacroClassName unit Z) : LefMacroClassName :=
  match x with gLefMacroClassName_Block => LefMacroClassName_Block | gLefMacroClassName_Pad => LefMacroClassName_Pad | gLefMacroClassName_Core => LefMacroClassName_Core | gLefMacroClassName_EndCap => LefMacroClassName_EndCap | gLefMacroClassName_Cover => LefMacroClassName_Cover | gLefMacroClassName_Ring => LefMacroClassName_Ring end.
Definition GLefPadClassType (x : LefPadClassType) : gLefPadClassType unit Z :=
  match x with LefPadClassType_Input => gLefPadClassType_Input | LefPadClassType_Output => gLefPadClassType_Output | LefPadClassType_Inout => gLefPadClassType_Inout | LefPadClassType_Power => gLefPadClassType_Power | LefPadClassType_Spacer => gLefPadClassType_Spacer | LefPadClassType_AreaIo => gLefPadClassType_AreaIo end.
Definition MLefPadClassType (x : gLefPadClassType unit Z) : LefPadClassType :=
  match x with gLefPadClassType_Input => LefPadClassType_Input | gLefPadClassType_Output => LefPadClassType_Output | gLefPadClassType_Inout => LefPadClassType_Inout | gLefPadClassType_Power => LefPadClassType_Power | gLefPadClassType_Spacer => LefPadClassType_Spacer | gLefPadClassType_AreaIo => LefPadClassType_AreaIo end.
Definition GLefEndCapClassType (x : LefEndCapClassType) : gLefEndCapClassType unit Z :=
  match x with LefEndCapClassType_Pre => gLefEndCapClassType_Pre | LefEndCapClassType_Post => gLefEndCapClassType_Post | LefEndCapClassType_TopLeft => gLefEndCapClassType_TopLeft | LefEndCapClassType_TopRight => gLefEndCapClassType_TopRight | LefEndCapClassType_BottomLeft => gLefEndCapClassType_BottomLeft | LefEndCapClassType_BottomRight => gLefEndCapClassType_BottomRight end.
Definition MLefEndCapClassType (x : gLefEndCapClassType unit Z) : LefEndCapClassType :=
  match x with gLefEndCapClassType_Pre => LefEndCapClassType_Pre | gLefEndCapClassType_Post => LefEndCapClassType_Post | gLefEndCapClassType_TopLeft => LefEndCapClassType_TopLeft | gLefEndCapClassType_TopRight => LefEndCapClassType_TopRight | gLefEndCapClassType_BottomLeft => LefEndCapClassType_BottomLeft | gLefEndCapClassType_BottomRight => LefEndCapClassType_BottomRight end.
Definition GLefBlockClassType (x : LefBlockClassType) : gLefBlockClassType unit Z :=
  match x with LefBlockClassType_BlackBox => gLefBlockClassType_BlackBox | LefBlockClassType_Soft => gLefBlockClassType_Soft end.
Definition MLefBlockClassType (x : gLefBlockClassType unit Z) : LefBlockClassType :=
  match x with gLefBlockClassType_BlackBox => LefBlockClassType_BlackBox | gLefBlockClassType_Soft => LefBlockClassType_Soft end.
Definition GLefCoreClassType (x : LefCoreClassType) : gLefCoreClassType unit Z :=
  match x with LefCoreClassType_FeedThru => gLefCoreClassType_FeedThru | LefCoreClassType_TieHigh => gLefCoreClassType_TieHigh | LefCoreClassType_TieLow => gLefCoreClassType_TieLow | LefCoreClassType_Spacer => gLefCoreClassType_Spacer | LefCoreClassType_AntennaCell => gLefCoreClassType_AntennaCell | LefCoreClassType_WellTap => gLefCoreClassType_WellTap end.
Definition MLefCoreClassType (x : gLefCoreClassType unit Z) : LefCoreClassType :=
  match x with gLefCoreClassType_FeedThru => LefCoreClassType_FeedThru | gLefCoreClassType_TieHigh => LefCoreClassType_TieHigh | gLefCoreClassType_TieLow => LefCoreClassType_TieLow | gLefCoreClassType_Spacer => LefCoreClassType_Spacer | gLefCoreClassType_AntennaCell => LefCoreClassType_AntennaCell | gLefCoreClassType_WellTap => LefCoreClassType_WellTap end.
Definition GLefSiteClass (x : LefSiteClass) : gLefSiteClass unit Z :=
  match x with LefSiteClass_Pad => gLefSiteClass_Pad | LefSiteClass_Core => gLefSiteClass_Core end.
Definition MLefSiteClass (x : gLefSiteClass unit Z) : LefSiteClass :=
  match x with gLefSiteClass_Pad => LefSiteClass_Pad | gLefSiteClass_Core => LefSiteClass_Core end.
Definition GLefPortClass (x : LefPortClass) : gLefPortClass unit Z :=
  match x with LefPortClass_None => gLefPortClass_None | LefPortClass_Core => gLefPortClass_Core | LefPortClass_Bump => gLefPortClass_Bump end.
Definition MLefPortClass (x : gLefPortClass unit Z) : LefPortClass :=
  match x with gLefPortClass_None => LefPortClass_None | gLefPortClass_Core => LefPortClass_Core | gLefPortClass_Bump => LefPortClass_Bump end.
Definition GLefPropertyDefinitionObjectType (x : LefPropertyDefinitionObjectType) : gLefPropertyDefinitionObjectType unit Z :=
  match x with LefPropertyDefinitionObjectType_Layer => gLefPropertyDefinitionObjectType_Layer | LefPropertyDefinitionObjectType_Library => gLefPropertyDefinitionObjectType_Library | LefPropertyDefinitionObjectType_Macro => gLefPropertyDefinitionObjectType_Macro | LefPropertyDefinitionObjectType_NonDefaultRule => gLefPropertyDefinitionObjectType_NonDefaultRule | LefPropertyDefinitionObjectType_Pin => gLefPropertyDefinitionObjectType_Pin | LefPropertyDefinitionObjectType_Via => gLefPropertyDefinitionObjectType_Via | LefPropertyDefinitionObjectType_ViaRule => gLefPropertyDefinitionObjectType_ViaRule end.
Definition MLefPropertyDefinitionObjectType (x : gLefPropertyDefinitionObjectType unit Z) : LefPropertyDefinitionObjectType :=
  match x with gLefPropertyDefinitionObjectType_Layer => LefPropertyDefinitionObjectType_Layer | gLefPropertyDefinitionObjectType_Library => LefPropertyDefinitionObjectType_Library | gLefPropertyDefinitionObjectType_Macro => LefPropertyDefinitionObjectType_Macro | gLefPropertyDefinitionObjectType_NonDefaultRule => LefPropertyDefinitionObjectType_NonDefaultRule | gLefPropertyDefinitionObjectType_Pin => LefPropertyDefinitionObjectType_Pin | gLefPropertyDefinitionObjectType_Via => LefPropertyDefinitionObjectType_Via | gLefPropertyDefinitionObjectType_ViaRule => LefPropertyDefinitionObjectType_ViaRule end.
Definition GLefPinUse (x : LefPinUse) : gLefPinUse unit Z :=
  match x with LefPinUse_Signal => gLefPinUse_Signal | LefPinUse_Analog => gLefPinUse_Analog | LefPinUse_Power => gLefPinUse_Power | LefPinUse_Ground => gLefPinUse_Ground | LefPinUse_Clock => gLefPinUse_Clock end.
Definition MLefPinUse (x : gLefPinUse unit Z) : LefPinUse :=
  match x with gLefPinUse_Signal => LefPinUse_Signal | gLefPinUse_Analog => LefPinUse_Analog | gLefPinUse_Power => LefPinUse_Power | gLefPinUse_Ground => LefPinUse_Ground | gLefPinUse_Clock => LefPinUse_Clock end.
Definition GLefPinShape (x : LefPinShape) : gLefPinShape unit Z :=
  match x with LefPinShape_Abutment => gLefPinShape_Abutment | LefPinShape_Ring => gLefPinShape_Ring | LefPinShape_FeedThru => gLefPinShape_FeedThru end.
Definition MLefPinShape (x : gLefPinShape unit Z) : LefPinShape :=
  match x with gLefPinShape_Abutment => LefPinShape_Abutment | gLefPinShape_Ring => LefPinShape_Ring | gLefPinShape_FeedThru => LefPinShape_FeedThru end.
Definition GLefAntennaModel (x : LefAntennaModel) : gLefAntennaModel unit Z :=
  match x with LefAntennaModel_Oxide1 => gLefAntennaModel_Oxide1 | LefAntennaModel_Oxide2 => gLefAntennaModel_Oxide2 | LefAntennaModel_Oxide3 => gLefAntennaModel_Oxide3 | LefAntennaModel_Oxide4 => gLefAntennaModel_Oxide4 end.
Definition MLefAntennaModel (x : gLefAntennaModel unit Z) : LefAntennaModel :=
  match x with gLefAntennaModel_Oxide1 => LefAntennaModel_Oxide1 | gLefAntennaModel_Oxide2 => LefAntennaModel_Oxide2 | gLefAntennaModel_Oxide3 => LefAntennaModel_Oxide3 | gLefAntennaModel_Oxide4 => LefAntennaModel_Oxide4 end.
Definition GLefOrient (x : LefOrient) : gLefOrient unit Z :=
  match x with LefOrient_N => gLefOrient_N | LefOrient_S => gLefOrient_S | LefOrient_E => gLefOrient_E | LefOrient_W => gLefOrient_W | LefOrient_FN => gLefOrient_FN | LefOrient_FS => gLefOrient_FS | LefOrient_FE => gLefOrient_FE | LefOrient_FW => gLefOrient_FW end.
Definition MLefOrient (x : gLefOrient unit Z) : LefOrient :=
  match x with gLefOrient_N => LefOrient_N | gLefOrient_S => LefOrient_S | gLefOrient_E => LefOrient_E | gLefOrient_W => LefOrient_W | gLefOrient_FN => LefOrient_FN | gLefOrient_FS => LefOrient_FS | gLefOrient_FE => LefOrient_FE | gLefOrient_FW => LefOrient_FW end.
Definition GLefDefSource (x : LefDefSource) : gLefDefSource unit Z :=
  match x with LefDefSource_Netlist => gLefDefSource_Netlist | LefDefSource_Dist => gLefDefSource_Dist | LefDefSource_Timing => gLefDefSource_Timing | LefDefSource_User => gLefDefSource_User end.
Definition MLefDefSource (x : gLefDefSource unit Z) : LefDefSource :=
  match x with gLefDefSource_Netlist => LefDefSource_Netlist | gLefDefSource_Dist => LefDefSource_Dist | gLefDefSource_Timing => LefDefSource_Timing | gLefDefSource_User => LefDefSource_User end.

Definition Mtty (t : gTokenType unit Z) : ttype :=
  match t with gTokenType_Name => TName | gTokenType_Number => TNumber | gTokenType_SemiColon => TSemi | gTokenType_StringLiteral => TString
             | gTokenType_NewLine => TNewLine | gTokenType_WhiteSpace => TWhiteSpace | gTokenType_Comment => TComment | gTokenType_End => TEnd end.
Definition Gtty (t : ttype) : gTokenType unit Z :=
  match t with TName => gTokenType_Name | TNumber => gTokenType_Number | TSemi => gTokenType_SemiColon | TString => gTokenType_StringLiteral
             | TNewLine => gTokenType_NewLine | TWhiteSpace => gTokenType_WhiteSpace | TComment => gTokenType_Comment | TEnd => gTokenType_End end.
Definition Mtok (t : gToken unit Z) : token :=
  mktok (gSourceLocation_start (gToken_loc t)) (gSourceLocation_stop (gToken_loc t)) (gSourceLocation_line (gToken_loc t)) (Mtty (gToken_ttype t)).
Definition Gtok (t : token) : gToken unit Z := mk_gToken (mk_gSourceLocation (t_start t) (t_stop t) (t_line t)) (Gtty (t_ty t)).
Definition Mctx (c : gLefParseContext unit Z) : ctx :=
  match c with gLefParseContext_Library => CtxLibrary | gLefParseContext_Macro => CtxMacro | gLefParseContext_Pin => CtxPin | gLefParseContext_Port => CtxPort
             | gLefParseContext_PropertyDefinitions => CtxPropertyDefinitions | gLefParseContext_Geometry => CtxGeometry | gLefParseContext_Site => CtxSite
             | gLefParseContext_Units => CtxUnits | gLefParseContext_Density => CtxDensity | gLefParseContext_Via => CtxVia | gLefParseContext_Unknown => CtxUnknown end.
Definition Gctx (c : ctx) : gLefParseContext unit Z :=
  match c with CtxLibrary => gLefParseContext_Library | CtxMacro => gLefParseContext_Macro | CtxPin => gLefParseContext_Pin | CtxPort => gLefParseContext_Port
             | CtxPropertyDefinitions => gLefParseContext_PropertyDefinitions | CtxGeometry => gLefParseContext_Geometry | CtxSite => gLefParseContext_Site
             | CtxUnits => gLefParseContext_Units | CtxDensity => gLefParseContext_Density | CtxVia => gLefParseContext_Via | CtxUnknown => gLefParseContext_Unknown end.

(** * the model's data <-> the generated records (T_LefDecimal = dec, T_String = bytes, T_LefDbuPerMicron = Z) *)
Notation gpoint := (gLefPoint dec unit Z).
Definition Mpoint (p : gpoint) : lef_point := Build_lef_point (gLefPoint_x dec p) (gLefPoint_y dec p).
Definition Gpoint (p : lef_point) : gpoint := mk_gLefPoint dec (pt_x p) (pt_y p).
Definition Mmask (m : option (gLefMask dec unit Z)) : option dec := option_map (gLefMask_mask dec) m.
Definition Mshape (s : gLefShape dec unit Z) : lef_shape :=
  match s with
  | gLefShape_Rect _ m p1 p2 => ShRect (Mmask m) (Mpoint p1) (Mpoint p2)
  | gLefShape_Polygon _ m ps => ShPolygon (Mmask m) (map Mpoint ps)
  | gLefShape_Path _ m ps => ShPath (Mmask m) (map Mpoint ps)
  end.
Definition Mstep (p : gLefStepPattern dec unit Z) : lef_step :=
  Build_lef_step (gLefStepPattern_numx dec p) (gLefStepPattern_numy dec p) (gLefStepPattern_spacex dec p) (gLefStepPattern_spacey dec p).
Definition Mgeometry (g : gLefGeometry dec unit Z) : lef_geometry :=
  match g with gLefGeometry_Shape _ s => GShape (Mshape s) | gLefGeometry_Iterate _ s p => GIterate (Mshape s) (Mstep p) end.
Definition Munits (u : gLefUnits Z dec unit Z) : lef_units :=
  Build_lef_units (gLefUnits_database_microns Z dec u) (gLefUnits_time_ns Z dec u) (gLefUnits_capacitance_pf Z dec u) (gLefUnits_resistance_ohms Z dec u)
                  (gLefUnits_power_mw Z dec u) (gLefUnits_current_ma Z dec u) (gLefUnits_voltage_volts Z dec u) (gLefUnits_frequency_mhz Z dec u).
Definition Mmacro_class (c : gLefMacroClass unit Z) : lef_macro_class :=
  match c with
  | gLefMacroClass_Cover b => McCover b
  | gLefMacroClass_Ring => McRing
  | gLefMacroClass_Block tp => McBlock (option_map MLefBlockClassType tp)
  | gLefMacroClass_Pad tp => McPad (option_map MLefPadClassType tp)
  | gLefMacroClass_Core tp => McCore (option_map MLefCoreClassType tp)
  | gLefMacroClass_EndCap tp => McEndCap (MLefEndCapClassType tp)
  end.
Definition Msite (s : gLefSite dec bytes unit Z) : lef_site :=
  Build_lef_site (gLefSite_name dec bytes s) (MLefSiteClass (gLefSite_class dec bytes s)) (gLefSite_size dec bytes s)
                 (option_map (map MLefSymmetry) (gLefSite_symmetry dec bytes s)).
Definition Mproperty (p : gLefProperty bytes unit Z) : lef_property := Build_lef_property (gLefProperty_name bytes p) (gLefProperty_value bytes p).
Definition Gproperty (p : lef_property) : gLefProperty bytes unit Z := mk_gLefProperty bytes (pr_name p) (pr_value p).
Definition Mpin_direction (d : gLefPinDirection unit Z) : lef_pin_direction :=
  match d with gLefPinDirection_Input => DirInput | gLefPinDirection_Output t => DirOutput t | gLefPinDirection_Inout => DirInout
             | gLefPinDirection_FeedThru => DirFeedThru end.

(** the statement parsers of the family lef_parse3 *)
Definition Mvia (v : gLefVia dec bytes unit Z) : lef_via_inst := Build_lef_via_inst (gLefVia_via_name dec bytes v) (Mpoint (gLefVia_pt dec bytes v)).
Definition Mspacing (x : gLefLayerSpacing dec unit Z) : lef_layer_spacing :=
  match x with gLefLayerSpacing_Spacing _ d => LsSpacing d | gLefLayerSpacing_DesignRuleWidth _ d => LsDesignRuleWidth d end.
Definition Mlayer_geoms (l : gLefLayerGeometries dec bytes unit Z) : lef_layer_geoms :=
  Build_lef_layer_geoms (gLefLayerGeometries_layer_name dec bytes l) (map Mgeometry (gLefLayerGeometries_geometries dec bytes l))
                        (map Mvia (gLefLayerGeometries_vias dec bytes l)) (gLefLayerGeometries_except_pg_net dec bytes l)
                        (option_map Mspacing (gLefLayerGeometries_spacing dec bytes l)) (gLefLayerGeometries_width dec bytes l).
Definition Mvia_shape (x : gLefViaShape dec unit Z) : lef_via_shape :=
  match x with gLefViaShape_Rect _ m p1 p2 => VsRect (Mmask m) (Mpoint p1) (Mpoint p2) | gLefViaShape_Polygon _ m ps => VsPolygon (Mmask m) (map Mpoint ps) end.
Definition Mvia_layer_geoms (l : gLefViaLayerGeometries dec bytes unit Z) : lef_via_layer_geoms :=
  Build_lef_via_layer_geoms (gLefViaLayerGeometries_layer_name dec bytes l) (map Mvia_shape (gLefViaLayerGeometries_shapes dec bytes l)).
Definition Mport (p : gLefPort dec bytes unit Z) : lef_port :=
  Build_lef_port (option_map MLefPortClass (gLefPort_class dec bytes p)) (map Mlayer_geoms (gLefPort_layers dec bytes p)).
Definition Mrange (r : gLefPropertyRange dec unit Z) : dec * dec := (gLefPropertyRange_begin dec r, gLefPropertyRange_end dec r).
Definition Mpropdef (d : gLefPropertyDefinition dec bytes unit Z) : lef_propdef :=
  match d with
  | gLefPropertyDefinition_LefString _ _ o n v => PdLefString (MLefPropertyDefinitionObjectType o) n v
  | gLefPropertyDefinition_LefReal _ _ o n v r => PdLefReal (MLefPropertyDefinitionObjectType o) n v (option_map Mrange r)
  | gLefPropertyDefinition_LefInteger _ _ o n v r => PdLefInteger (MLefPropertyDefinitionObjectType o) n v (option_map Mrange r)
  end.

(** the family lef_parse_lib *)
Definition Mantenna_attr (a : gLefPinAntennaAttr dec bytes unit Z) : lef_antenna_attr :=
  Build_lef_antenna_attr (gLefPinAntennaAttr_key dec bytes a) (gLefPinAntennaAttr_val dec bytes a) (gLefPinAntennaAttr_layer dec bytes a).
Definition Mpin (p : gLefPin dec bytes unit Z) : lef_pin :=
  Build_lef_pin (gLefPin_name dec bytes p) (map Mport (gLefPin_ports dec bytes p)) (option_map Mpin_direction (gLefPin_direction dec bytes p))
                (option_map MLefPinUse (gLefPin_use_ dec bytes p)) (option_map MLefPinShape (gLefPin_shape dec bytes p))
                (option_map MLefAntennaModel (gLefPin_antenna_model dec bytes p)) (map Mantenna_attr (gLefPin_antenna_attrs dec bytes p))
                (gLefPin_taper_rule dec bytes p) (gLefPin_supply_sensitivity dec bytes p) (gLefPin_ground_sensitivity dec bytes p)
                (gLefPin_must_join dec bytes p) (gLefPin_net_expr dec bytes p) (map Mproperty (gLefPin_properties dec bytes p)).
Definition Mdrect (r : gLefDensityRectangle dec unit Z) : lef_density_rect :=
  Build_lef_density_rect (Mpoint (gLefDensityRectangle_pt1 dec r)) (Mpoint (gLefDensityRectangle_pt2 dec r)) (gLefDensityRectangle_density_value dec r).
Definition Gdrect (r : lef_density_rect) : gLefDensityRectangle dec unit Z := mk_gLefDensityRectangle dec (Gpoint (dr_pt1 r)) (Gpoint (dr_pt2 r)) (dr_density_value r).
Definition Mdgeoms (g : gLefDensityGeometries dec bytes unit Z) : lef_density_geoms :=
  Build_lef_density_geoms (gLefDensityGeometries_layer_name dec bytes g) (map Mdrect (gLefDensityGeometries_geometries dec bytes g)).
Definition Gdgeoms (g : lef_density_geoms) : gLefDensityGeometries dec bytes unit Z := mk_gLefDensityGeometries dec bytes (dg_layer_name g) (map Gdrect (dg_geometries g)).
Definition Mforeign (f : gLefForeign dec bytes unit Z) : lef_foreign :=
  Build_lef_foreign (gLefForeign_cell_name dec bytes f) (option_map Mpoint (gLefForeign_pt dec bytes f)) (option_map MLefOrient (gLefForeign_orient dec bytes f)).
Definition Mmacro (m : gLefMacro dec bytes unit Z) : lef_macro :=
  Build_lef_macro (gLefMacro_name dec bytes m) (map Mpin (gLefMacro_pins dec bytes m)) (map Mlayer_geoms (gLefMacro_obs dec bytes m))
                  (option_map Mmacro_class (gLefMacro_class dec bytes m)) (option_map Mforeign (gLefMacro_foreign dec bytes m))
                  (option_map Mpoint (gLefMacro_origin dec bytes m)) (gLefMacro_size dec bytes m) (option_map (map MLefSymmetry) (gLefMacro_symmetry dec bytes m))
                  (gLefMacro_site dec bytes m) (option_map MLefDefSource (gLefMacro_source dec bytes m)) (gLefMacro_eeq dec bytes m) (gLefMacro_fixed_mask dec bytes m)
                  (map Mproperty (gLefMacro_properties dec bytes m)) (option_map (map Mdgeoms) (gLefMacro_density dec bytes m)).
(** the family lef_parse_via *)
Definition Mrowcol (r : gLefRowCol dec unit Z) : lef_rowcol := Build_lef_rowcol (gLefRowCol_rows dec r) (gLefRowCol_cols dec r).
Definition Moffset (o : gLefOffset dec unit Z) : lef_offset := Build_lef_offset (gLefOffset_bot_x dec o) (gLefOffset_bot_y dec o) (gLefOffset_top_x dec o) (gLefOffset_top_y dec o).
Definition Mgen_via (g : gLefGeneratedViaDef dec bytes unit Z) : lef_gen_via :=
  Build_lef_gen_via (gLefGeneratedViaDef_via_rule_name dec bytes g) (gLefGeneratedViaDef_cut_size_x dec bytes g) (gLefGeneratedViaDef_cut_size_y dec bytes g)
    (gLefGeneratedViaDef_bot_metal_layer dec bytes g) (gLefGeneratedViaDef_cut_layer dec bytes g) (gLefGeneratedViaDef_top_metal_layer dec bytes g)
    (gLefGeneratedViaDef_cut_spacing_x dec bytes g) (gLefGeneratedViaDef_cut_spacing_y dec bytes g)
    (gLefGeneratedViaDef_bot_enc_x dec bytes g) (gLefGeneratedViaDef_bot_enc_y dec bytes g) (gLefGeneratedViaDef_top_enc_x dec bytes g) (gLefGeneratedViaDef_top_enc_y dec bytes g)
    (option_map Mrowcol (gLefGeneratedViaDef_rowcol dec bytes g)) (option_map Mpoint (gLefGeneratedViaDef_origin dec bytes g)) (option_map Moffset (gLefGeneratedViaDef_offset dec bytes g)).
Definition Mfixed_via (f : gLefFixedViaDef dec bytes unit Z) : lef_fixed_via :=
  Build_lef_fixed_via (gLefFixedViaDef_resistance_ohms dec bytes f) (map Mvia_layer_geoms (gLefFixedViaDef_layers dec bytes f)).
Definition Mvia_data (d : gLefViaDefData dec bytes unit Z) : lef_via_data :=
  match d with gLefViaDefData_Fixed _ _ f => VdFixed (Mfixed_via f) | gLefViaDefData_Generated _ _ g => VdGenerated (Mgen_via g) end.
Definition Mvia_def (v : gLefViaDef dec bytes unit Z) : lef_via_def :=
  Build_lef_via_def (gLefViaDef_name dec bytes v) (gLefViaDef_default dec bytes v) (Mvia_data (gLefViaDef_data dec bytes v)).

(** the reader as it is now in /repo, for the ties of the functions whose model carries a variant flag *)
Definition cfr_now (cf : cfg) : Prop := c_points_to_semi cf = false.
Definition cfr_now_props (cf : cfg) : Prop := c_drop_props cf = false.

Section Reading.
Variable cf : cfg.
Variable src : bytes.
(** a run of the model, its value carried into the generated types *)
Definition lmG {A B : Type} (f : A -> B) (m : P A) : lm B := fun s => backl f (lunit (m s)).
Definition lmU {A : Type} (m : P A) : lm A := fun s => lunit (m s).

(** * external *)
Definition x_get : lm (gLefParser unit Z) := fun s => Ok (mk_gLefParser (map Gctx (p_ctx s)), s).
Definition x_put (w : gLefParser unit Z) : lm unit := fun s => Ok (tt, with_ctx s (map Mctx (gLefParser_ctx w))).
Definition x_build_err (A : Type) : lm A := fun _ => Err tt.
Definition x_fuel : lm nat := fun s => Ok (fuel_of s, s).
Definition x_peek_token : lm (option (gToken unit Z)) := fun s => Ok (option_map Gtok (peek_token s), s).
Definition x_txt (t : gToken unit Z) : lm bytes := lmU (txt src (Mtok t)).
Definition x_advance : lm unit := lmU advance.
Definition x_matches (t : gTokenType unit Z) : lm bool := fun s => Ok (matches (Mtty t) s, s).
Definition x_expect (t : gTokenType unit Z) : lm (gToken unit Z) := lmG Gtok (expect cf src (Mtty t)).
Definition x_peek_key : lm (gLefKey unit Z) := lmG GLefKey (peek_key cf src).
Definition x_get_key : lm (gLefKey unit Z) := lmG GLefKey (get_key cf src).
Definition x_expect_key (k : gLefKey unit Z) : lm unit := lmU (expect_key cf src (MLefKey k)).
Definition x_parse_ident : lm bytes := lmU (parse_ident cf src).
Definition x_parse_number : lm dec := lmU (parse_number cf src).
Definition x_parse_point : lm gpoint := lmG Gpoint (parse_point cf src).
Definition x_try_new (n : dec) : lm Z := lmU (lift (dbu_try_new cf n)).
(** `self.session.lef_version`, the constant V5P4, `<` on decimals (rust_decimal's PartialOrd: [dec_cmp]); `parse_density` (its own tie: family lef_parse) *)
Definition x_session_lef_version : lm dec := fun s => Ok (p_ver s, s).
Definition x_dec_lt (a b : dec) : bool := dec_gt b a.
Definition x_parse_density : lm (list (gLefDensityGeometries dec bytes unit Z)) := lmG (map Gdgeoms) (parse_density cf src).
(** `txt.chars().collect::<Vec<char>>()`: the characters (code points) of the text, [chars_of] *)
Definition x_chars (s : bytes) : lm (list Z) := lm_ret _ (chars_of s).
Definition x_collect (l : list Z) : lm (list Z) := lm_ret _ l.
Definition x_enum {T G : Type} (g : T -> G) (from_str : bytes -> option T) : lm G := lmG g (parse_enum cf src from_str).

(** * the translated functions at this reading *)
(* BEGIN instantiation lines *)
Definition g_parse_units_loop1 := g_LefParser_parse_units_loop1 (lm_xops cf src) Z dec x_try_new x_expect x_expect_key x_get_key x_parse_number.
Definition g_parse_units := g_LefParser_parse_units (lm_xops cf src) Z dec x_get x_put lm_nofuel x_try_new x_expect x_expect_key x_get_key x_parse_number x_fuel.
Definition g_parse_size := g_LefParser_parse_size (lm_xops cf src) dec x_expect x_expect_key x_parse_number.
Definition g_parse_symmetries_loop1 := g_LefParser_parse_symmetries_loop1 (lm_xops cf src) x_matches (x_enum GLefSymmetry LefSymmetry_from_str).
Definition g_parse_symmetries := g_LefParser_parse_symmetries (lm_xops cf src) lm_nofuel x_expect x_expect_key x_matches (x_enum GLefSymmetry LefSymmetry_from_str) x_fuel.
Definition g_parse_macro_class := g_LefParser_parse_macro_class (lm_xops cf src) x_expect x_expect_key x_matches (x_enum GLefBlockClassType LefBlockClassType_from_str) (x_enum GLefCoreClassType LefCoreClassType_from_str) (x_enum GLefEndCapClassType LefEndCapClassType_from_str) (x_enum GLefMacroClassName LefMacroClassName_from_str) (x_enum GLefPadClassType LefPadClassType_from_str).
Definition g_expect_and_get_str := g_LefParser_expect_and_get_str (lm_xops cf src) bytes x_expect x_txt.
Definition g_get_name := g_LefParser_get_name (lm_xops cf src) bytes x_expect x_txt.
Definition g_expect_ident := g_LefParser_expect_ident (lm_xops cf src) bytes x_expect x_txt bytes_eqb.
Definition g_parse_site_def_loop1 := g_LefParser_parse_site_def_loop1 (lm_xops cf src) dec bytes lm_nofuel x_advance x_expect x_expect_key x_matches (x_enum GLefSiteClass LefSiteClass_from_str) (x_enum GLefSymmetry LefSymmetry_from_str) x_parse_number x_peek_key x_txt bytes_eqb x_fuel.
Definition g_parse_site_def := g_LefParser_parse_site_def (lm_xops cf src) dec bytes x_get x_put x_build_err lm_nofuel x_advance x_expect x_expect_key x_matches (x_enum GLefSiteClass LefSiteClass_from_str) (x_enum GLefSymmetry LefSymmetry_from_str) x_parse_ident x_parse_number x_peek_key x_txt bytes_eqb x_fuel.
Definition g_peek_token := g_LefParser_peek_token x_peek_token.
Definition g_parse_property_loop1 := g_LefParser_parse_property_loop1 (lm_xops cf src) bytes x_advance x_peek_token x_matches x_parse_ident x_txt.
Definition g_parse_property := g_LefParser_parse_property (lm_xops cf src) bytes lm_nofuel x_advance x_expect x_expect_key x_peek_token x_matches x_parse_ident x_txt x_fuel.
Definition g_parse_pin_direction := g_LefParser_parse_pin_direction (lm_xops cf src) x_expect x_expect_key x_get_key x_matches.
Definition g_parse_geometry_mask := g_LefParser_parse_geometry_mask (lm_xops cf src) dec x_advance x_matches x_parse_number x_peek_key.
Definition g_parse_iterate := g_LefParser_parse_iterate (lm_xops cf src) x_advance x_matches x_peek_key.
Definition g_parse_step_pattern := g_LefParser_parse_step_pattern (lm_xops cf src) dec x_expect_key x_parse_number.
Definition g_parse_point_list_loop1 := g_LefParser_parse_point_list_loop1 (lm_xops cf src) dec x_matches x_parse_point.
Definition g_parse_point_list := g_LefParser_parse_point_list (lm_xops cf src) dec lm_nofuel x_matches x_parse_point x_fuel.
Definition g_parse_geometry_tail := g_LefParser_parse_geometry_tail (lm_xops cf src) dec x_expect x_expect_key x_parse_number.
Definition g_parse_geometry := g_LefParser_parse_geometry (lm_xops cf src) dec lm_nofuel x_advance x_expect x_expect_key x_get_key x_matches x_parse_number x_parse_point x_peek_key x_fuel.
Definition g_parse_layer_geometries_loop1 := g_LefParser_parse_layer_geometries_loop1 (lm_xops cf src) dec bytes x_get_key x_matches x_parse_number.
Definition g_parse_layer_geometries_loop2 := g_LefParser_parse_layer_geometries_loop2 (lm_xops cf src) dec bytes lm_nofuel x_advance x_expect x_expect_key x_get_key x_peek_token x_matches x_parse_ident x_parse_number x_parse_point x_peek_key x_fuel.
Definition g_parse_layer_geometries := g_LefParser_parse_layer_geometries (lm_xops cf src) dec bytes x_get x_put x_build_err lm_nofuel x_advance x_expect x_expect_key x_get_key x_peek_token x_matches x_parse_ident x_parse_number x_parse_point x_peek_key x_fuel.
Definition g_parse_via_shape := g_LefParser_parse_via_shape (lm_xops cf src) dec lm_nofuel x_advance x_expect x_get_key x_matches x_parse_number x_parse_point x_peek_key x_fuel.
Definition g_parse_via_layer_geometries_loop1 := g_LefParser_parse_via_layer_geometries_loop1 (lm_xops cf src) dec bytes lm_nofuel x_advance x_expect x_get_key x_peek_token x_matches x_parse_number x_parse_point x_peek_key x_fuel.
Definition g_parse_via_layer_geometries := g_LefParser_parse_via_layer_geometries (lm_xops cf src) dec bytes x_get x_put x_build_err lm_nofuel x_advance x_expect x_expect_key x_get_key x_peek_token x_matches x_parse_ident x_parse_number x_parse_point x_peek_key x_fuel.
Definition g_parse_obstructions_loop1 := g_LefParser_parse_obstructions_loop1 (lm_xops cf src) dec bytes x_get x_put x_build_err lm_nofuel x_advance x_expect x_expect_key x_get_key x_peek_token x_matches x_parse_ident x_parse_number x_parse_point x_peek_key x_fuel.
Definition g_parse_obstructions := g_LefParser_parse_obstructions (lm_xops cf src) dec bytes x_get x_put x_build_err lm_nofuel x_advance x_expect x_expect_key x_get_key x_peek_token x_matches x_parse_ident x_parse_number x_parse_point x_peek_key x_fuel.
Definition g_parse_port_loop1 := g_LefParser_parse_port_loop1 (lm_xops cf src) dec bytes x_get x_put x_build_err lm_nofuel x_advance x_expect x_expect_key x_get_key x_peek_token x_matches (x_enum GLefPortClass LefPortClass_from_str) x_parse_ident x_parse_number x_parse_point x_peek_key x_fuel.
Definition g_parse_port := g_LefParser_parse_port (lm_xops cf src) dec bytes x_get x_put x_build_err lm_nofuel x_advance x_expect x_expect_key x_get_key x_peek_token x_matches (x_enum GLefPortClass LefPortClass_from_str) x_parse_ident x_parse_number x_parse_point x_peek_key x_fuel.
Definition g_parse_property_definition_tail := g_LefParser_parse_property_definition_tail (lm_xops cf src) dec x_expect x_expect_key x_matches x_parse_number.
Definition g_parse_property_definitions_loop1 := g_LefParser_parse_property_definitions_loop1 (lm_xops cf src) dec bytes x_advance x_expect x_expect_key x_get_key x_matches (x_enum GLefPropertyDefinitionObjectType LefPropertyDefinitionObjectType_from_str) x_parse_number x_peek_key x_txt.
Definition g_parse_property_definitions := g_LefParser_parse_property_definitions (lm_xops cf src) dec bytes x_get x_put lm_nofuel x_advance x_expect x_expect_key x_get_key x_matches (x_enum GLefPropertyDefinitionObjectType LefPropertyDefinitionObjectType_from_str) x_parse_number x_peek_key x_txt x_fuel.
Definition g_parse_pin_loop1 := g_LefParser_parse_pin_loop1 (lm_xops cf src) dec bytes x_get x_put x_build_err lm_nofuel x_advance x_expect x_expect_key x_get_key x_peek_token x_matches (x_enum GLefAntennaModel LefAntennaModel_from_str) (x_enum GLefPinShape LefPinShape_from_str) (x_enum GLefPinUse LefPinUse_from_str) (x_enum GLefPortClass LefPortClass_from_str) x_parse_ident x_parse_number x_parse_point x_peek_key x_txt x_fuel.
Definition g_parse_pin := g_LefParser_parse_pin (lm_xops cf src) dec bytes x_get x_put x_build_err lm_nofuel x_advance x_expect x_expect_key x_get_key x_peek_token x_matches (x_enum GLefAntennaModel LefAntennaModel_from_str) (x_enum GLefPinShape LefPinShape_from_str) (x_enum GLefPinUse LefPinUse_from_str) (x_enum GLefPortClass LefPortClass_from_str) x_parse_ident x_parse_number x_parse_point x_peek_key x_txt bytes_eqb x_fuel.
Definition g_parse_macro_loop1 := g_LefParser_parse_macro_loop1 (lm_xops cf src) dec bytes x_get x_put x_build_err lm_nofuel x_dec_lt x_advance x_expect x_expect_key x_get_key x_peek_token x_matches x_parse_density (x_enum GLefAntennaModel LefAntennaModel_from_str) (x_enum GLefBlockClassType LefBlockClassType_from_str) (x_enum GLefCoreClassType LefCoreClassType_from_str) (x_enum GLefDefSource LefDefSource_from_str) (x_enum GLefEndCapClassType LefEndCapClassType_from_str) (x_enum GLefMacroClassName LefMacroClassName_from_str) (x_enum GLefOrient LefOrient_from_str) (x_enum GLefPadClassType LefPadClassType_from_str) (x_enum GLefPinShape LefPinShape_from_str) (x_enum GLefPinUse LefPinUse_from_str) (x_enum GLefPortClass LefPortClass_from_str) (x_enum GLefSymmetry LefSymmetry_from_str) x_parse_ident x_parse_number x_parse_point x_peek_key x_txt bytes_eqb V5P4 x_fuel x_session_lef_version.
Definition g_parse_macro := g_LefParser_parse_macro (lm_xops cf src) dec bytes x_get x_put x_build_err lm_nofuel x_dec_lt x_advance x_expect x_expect_key x_get_key x_peek_token x_matches x_parse_density (x_enum GLefAntennaModel LefAntennaModel_from_str) (x_enum GLefBlockClassType LefBlockClassType_from_str) (x_enum GLefCoreClassType LefCoreClassType_from_str) (x_enum GLefDefSource LefDefSource_from_str) (x_enum GLefEndCapClassType LefEndCapClassType_from_str) (x_enum GLefMacroClassName LefMacroClassName_from_str) (x_enum GLefOrient LefOrient_from_str) (x_enum GLefPadClassType LefPadClassType_from_str) (x_enum GLefPinShape LefPinShape_from_str) (x_enum GLefPinUse LefPinUse_from_str) (x_enum GLefPortClass LefPortClass_from_str) (x_enum GLefSymmetry LefSymmetry_from_str) x_parse_ident x_parse_number x_parse_point x_peek_key x_txt bytes_eqb V5P4 x_fuel x_session_lef_version.
Definition g_parse_bus_bit_chars := g_LefParser_parse_bus_bit_chars (lm_xops cf src) (list Z) bytes x_collect x_expect x_expect_key x_txt x_chars.
Definition g_parse_divider_char := g_LefParser_parse_divider_char (lm_xops cf src) (list Z) bytes x_collect x_expect x_expect_key x_txt x_chars.
Definition g_parse_via_loop1 := g_LefParser_parse_via_loop1 (lm_xops cf src) dec bytes x_advance x_expect x_parse_ident x_parse_number x_parse_point x_peek_key.
Definition g_parse_via_loop2 := g_LefParser_parse_via_loop2 (lm_xops cf src) dec bytes x_get x_put x_build_err lm_nofuel x_advance x_expect x_expect_key x_get_key x_peek_token x_matches x_parse_ident x_parse_number x_parse_point x_peek_key x_fuel.
Definition g_parse_via := g_LefParser_parse_via (lm_xops cf src) dec bytes x_get x_put x_build_err lm_nofuel x_advance x_expect x_expect_key x_get_key x_peek_token x_matches x_parse_ident x_parse_number x_parse_point x_peek_key x_txt bytes_eqb x_fuel.
(* END instantiation lines *)
End Reading.
