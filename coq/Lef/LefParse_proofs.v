(** Lemmas about the parser model (Lef/LefParse.v): the reader neither panics nor runs out of fuel.

    Setting: any [cfg] whose lexer counts bytes ([c_charpos cf = false], the repaired code), any source that
    starts on a character boundary (every valid UTF-8 text does, [valid_starts_on_boundary]).

    Token-stream invariant [st_ok]: every remaining token's span and line start are character boundaries of
    the source (from [lex_ok_gen]) and the stream does not end in LPanic / LFuel.
    Outcome predicate [R st0 c Q r]: r is not Panic and not OutOfFuel, and when r = Ok (a, st') then st' is
    again [st_ok], at least [c] tokens of st0 were consumed, and Q a.
    [Spec m pre c Q]: from every [st_ok] state satisfying [pre], running m has outcome R.  There is one
    [Spec] instance per `parse_*` function / loop of the model; loops carry the precondition
    "fuel > number of remaining tokens" and are proved by induction on the fuel (every iteration that goes
    round again has consumed a token).  The tactic [run] executes the monadic code symbolically: at each
    bind it looks the callee's [Spec] up by typeclass resolution; `txt`, `state()` (through `fail`,
    `fail_msg`, `fail_ignored`), `next_token`, `advance`, `peek_key` have hand-proved rules.

    The code as found (character positions) is refuted by [parse_orig_panics_version/_macro]. *)
From Coq Require Import ZArith List Bool Lia.
From L21 Require Import Lef.LefDec Lef.LefData Lef.LefLex Lef.LefParse Lef.LefLex_proofs.
Import ListNotations.
Local Open Scope list_scope.
Local Open Scope Z_scope.

Lemma parse_orig_panics_version : parse cfg_orig witness_version = Panic.
Proof. vm_compute. reflexivity. Qed.
Lemma parse_orig_panics_macro : parse cfg_orig witness_macro = Panic.
Proof. vm_compute. reflexivity. Qed.
Lemma parse_fixed_version : exists e, parse cfg_fixed witness_version = Err e.
Proof. vm_compute. eexists. reflexivity. Qed.

Lemma line_span_moved : forall s left nch nb k nb',
  line_span s left nch nb = (k, nb') ->
  exists x r, s = x ++ r /\ nb' = nb + Z.of_nat (length x) /\ starts_on_boundary r = true.
Proof.
  induction s as [|b s IH]; intros left nch nb k nb' H; simpl in H.
  - injection H as <- <-. exists [], []. simpl. repeat split; lia.
  - destruct (is_cont b) eqn:C.
    + destruct (IH _ _ _ _ _ H) as (x & r & -> & -> & S). exists (b :: x), r.
      repeat split; auto. simpl length. lia.
    + destruct ((b =? 10) || (left <=? 0)).
      * injection H as <- <-. exists [], (b :: s). simpl. rewrite C. repeat split; lia.
      * destruct (IH _ _ _ _ _ H) as (x & r & -> & -> & S). exists (b :: x), r.
        repeat split; auto. simpl length. lia.
Qed.

Section Safe.
Variable cf : cfg.
Variable src : bytes.
Hypothesis Hcf : c_charpos cf = false.
Hypothesis Hsrc : starts_on_boundary src = true.

Definition len (st : pst) : nat := List.length (p_toks st).
Definition st_ok (st : pst) : Prop := Forall (ti_ok src) (p_toks st) /\ end_ok src (p_end st).

(** outcome of a parser step started in a state reached from [st0]: no panic, no fuel exhaustion, and a
    returned state is well-formed and has consumed at least [c] tokens of [st0] *)
Definition R {A} (st0 : pst) (c : nat) (Q : A -> Prop) (r : res (A * pst)) : Prop :=
  match r with
  | Ok (a, st') => st_ok st' /\ (len st' + c <= len st0)%nat /\ Q a
  | Panic | OutOfFuel => False
  | _ => True
  end.

Class Spec {A} (m : P A) (pre : pst -> Prop) (c : nat) (Q : A -> Prop) : Prop :=
  spec : forall st, st_ok st -> pre st -> R st c Q (m st).

Definition T {A} : A -> Prop := fun _ => True.
Definition Tp : pst -> Prop := fun _ => True.

(** ** structural rules *)
Lemma R_bind {A B} (m : P A) (k : A -> P B) pre c1 Q1 st0 c (Q : B -> Prop) st :
  Spec m pre c1 Q1 -> st_ok st -> pre st ->
  (forall a st', st_ok st' -> (len st' + c1 <= len st)%nat -> Q1 a -> R st0 c Q (k a st')) ->
  R st0 c Q (bind m k st).
Proof.
  intros S Hok Hpre K. unfold bind. pose proof (S st Hok Hpre) as H.
  destruct (m st) as [[a st']|e| | |]; simpl in *; auto.
  destruct H as (H1 & H2 & H3). apply K; auto.
Qed.
Lemma R_tail {A} (m : P A) pre c1 Q1 st0 c (Q : A -> Prop) st :
  Spec m pre c1 Q1 -> st_ok st -> pre st ->
  (forall a st', st_ok st' -> (len st' + c1 <= len st)%nat -> Q1 a -> (len st' + c <= len st0)%nat /\ Q a) ->
  R st0 c Q (m st).
Proof.
  intros S Hok Hpre K. pose proof (S st Hok Hpre) as H.
  destruct (m st) as [[a st']|e| | |]; simpl in *; auto.
  destruct H as (H1 & H2 & H3). destruct (K a st' H1 H2 H3). auto.
Qed.
Lemma R_assoc {A B C} (m : P A) (k1 : A -> P B) (k2 : B -> P C) st0 c (Q : C -> Prop) st :
  R st0 c Q (bind m (fun a => bind (k1 a) k2) st) -> R st0 c Q (bind (bind m k1) k2 st).
Proof. unfold bind. destruct (m st) as [[a st']|e| | |]; auto. Qed.
Lemma R_get {B} (k : pst -> P B) st0 c (Q : B -> Prop) st :
  R st0 c Q (k st st) -> R st0 c Q (bind get k st).
Proof. exact (fun x => x). Qed.
Lemma R_ret_bind {A B} (a : A) (k : A -> P B) st0 c (Q : B -> Prop) st :
  R st0 c Q (k a st) -> R st0 c Q (bind (ret a) k st).
Proof. exact (fun x => x). Qed.
Lemma R_ret {A} (a : A) st0 c (Q : A -> Prop) st :
  st_ok st -> (len st + c <= len st0)%nat -> Q a -> R st0 c Q (ret a st).
Proof. intros; simpl; auto. Qed.
Lemma R_ok {A} (a : A) st0 c (Q : A -> Prop) st :
  st_ok st -> (len st + c <= len st0)%nat -> Q a -> R st0 c Q (Ok (a, st)).
Proof. intros; simpl; auto. Qed.

(** ** the error path *)
Lemma peek_tok_ok : forall st t, st_ok st -> peek_token st = Some t -> tok_ok src t.
Proof.
  intros st t [F _] H. unfold peek_token in H. destruct (p_toks st) as [|ti r]; [discriminate|].
  injection H as <-. inversion F as [|? ? [H1 _] _]. exact H1.
Qed.
Lemma content_ok : forall ls, bnd src ls ->
  exists lc,
    match (if 0 <=? ls then drop (Z.to_nat ls) src else None) with
    | None => None
    | Some s =>
      if starts_on_boundary s then
        let '(_, nb) := line_span s 200 0 0 in slice src ls (ls + nb)
      else None
    end = Some lc.
Proof.
  intros ls B. pose proof B as (pre & rem & E & -> & S).
  replace (0 <=? Z.of_nat (Datatypes.length pre)) with true by (symmetry; apply Z.leb_le; lia).
  rewrite Nat2Z.id.
  assert (D : drop (Datatypes.length pre) src = Some rem) by (rewrite E; apply drop_app).
  rewrite D, S.
  destruct (line_span rem 200 0 0) as [k nb] eqn:L.
  destruct (line_span_moved _ _ _ _ _ _ L) as (x & r & -> & -> & Sr).
  assert (B2 : bnd src (Z.of_nat (Datatypes.length pre) + (0 + Z.of_nat (Datatypes.length x)))).
  { exists (pre ++ x), r. rewrite E, app_assoc, app_length. repeat split; auto. lia. }
  destruct (slice_bnd _ _ _ B B2 ltac:(lia)) as (s & Es & _). exists s. exact Es.
Qed.
Lemma lexer_view_bnd : forall st, st_ok st ->
  bnd src (snd (lexer_view st)).
Proof.
  intros st [F E]. unfold lexer_view. destruct (p_toks st) as [|ti r].
  - destruct (p_end st); simpl in *; auto; try (apply bnd_zero; exact Hsrc).
  - inversion F as [|? ? [_ H2] _]. exact H2.
Qed.
Lemma state_ok : forall st, st_ok st -> exists x, state cf src st = Some x.
Proof.
  intros st Hok. unfold state.
  pose proof (lexer_view_bnd st Hok) as B.
  destruct (lexer_view st) as [[[rem pos] line] ls]. simpl in B.
  rewrite Hcf. destruct (content_ok ls B) as [lc EC].
  destruct (peek_token st) as [t|] eqn:E.
  - destruct (tok_ok_substr _ _ (peek_tok_ok _ _ Hok E)) as [tk ->]. rewrite EC. eexists; reflexivity.
  - rewrite EC. eexists; reflexivity.
Qed.

Global Instance fail_msg_spec {A} tp m : Spec (@fail_msg cf src A tp m) Tp 0 (fun _ => False).
Proof.
  intros st Hok _. unfold fail_msg. destruct (state_ok st Hok) as [[[[tk lc] line] pos] ->]. exact I.
Qed.
Global Instance fail_spec {A} tp : Spec (@fail cf src A tp) Tp 0 (fun _ => False).
Proof. unfold fail. apply fail_msg_spec. Qed.
Global Instance fail_ignored_spec : Spec (fail_ignored cf src) Tp 0 T.
Proof.
  intros st Hok _. unfold fail_ignored. destruct (state_ok st Hok) as [x ->].
  simpl. split; [exact Hok | split; [lia | exact I]].
Qed.
Lemma R_fail {A} tp st0 c (Q : A -> Prop) st : st_ok st -> R st0 c Q (@fail cf src A tp st).
Proof.
  intros Hok. pose proof (fail_spec (A:=A) tp st Hok I) as H.
  destruct (fail cf src tp st) as [[a st']|e| | |]; simpl in *; auto. destruct H as (_ & _ & []).
Qed.
Lemma R_fail_msg {A} tp m st0 c (Q : A -> Prop) st : st_ok st -> R st0 c Q (@fail_msg cf src A tp m st).
Proof.
  intros Hok. pose proof (fail_msg_spec (A:=A) tp m st Hok I) as H.
  destruct (fail_msg cf src tp m st) as [[a st']|e| | |]; simpl in *; auto. destruct H as (_ & _ & []).
Qed.

(** ** token primitives *)
Lemma st_ok_tail : forall st ti r, st_ok st -> p_toks st = ti :: r -> st_ok (with_toks st r) /\ tok_ok src (ti_tok ti).
Proof.
  intros st ti r [F E] H. rewrite H in F. inversion F as [|? ? [H1 _] H2]. subst.
  split; [split; assumption | assumption].
Qed.
Lemma R_next_token {B} (k : option token -> P B) st0 c (Q : B -> Prop) st :
  st_ok st ->
  (forall t st', st_ok st' -> S (len st') = len st -> tok_ok src t -> R st0 c Q (k (Some t) st')) ->
  (len st = 0%nat -> R st0 c Q (k None st)) ->
  R st0 c Q (bind next_token k st).
Proof.
  intros Hok K1 K2. unfold bind, next_token. destruct (p_toks st) as [|ti r] eqn:E.
  - apply K2. unfold len. rewrite E. reflexivity.
  - destruct (st_ok_tail _ _ _ Hok E) as [Hok' Ht].
    assert (L : S (len (with_toks st r)) = len st) by (unfold len; rewrite E; reflexivity).
    pose proof (proj2 Hok) as HE.
    destruct r as [|ti2 r2]; [destruct (p_end st); simpl in HE; try contradiction; try exact I|]; apply K1; auto.
Qed.
Lemma R_advance {B} (k : unit -> P B) st0 c (Q : B -> Prop) st :
  st_ok st ->
  (forall st', st_ok st' -> len st' = (len st - 1)%nat -> R st0 c Q (k tt st')) ->
  R st0 c Q (bind (advance) k st).
Proof.
  intros Hok K. unfold advance. apply R_assoc. apply R_next_token; auto.
  - intros t st' H1 H2 _. apply R_ret_bind. apply K; auto. lia.
  - intros H0. apply R_ret_bind. apply K; auto. lia.
Qed.
Lemma R_advance_tail st0 c (Q : unit -> Prop) st :
  st_ok st -> (1 <= len st)%nat -> (len st <= len st0 + 1 - c)%nat -> Q tt -> R st0 c Q (advance st).
Proof.
  intros Hok L1 L2 Hq. unfold advance.
  apply R_next_token; auto.
  - intros t st' H1 H2 _. apply R_ret; auto. lia.
  - intros H0. lia.
Qed.
Lemma R_txt {B} (t : token) (k : bytes -> P B) st0 c (Q : B -> Prop) st :
  tok_ok src t -> (forall s, R st0 c Q (k s st)) -> R st0 c Q (bind (txt src t) k st).
Proof.
  intros Ht K. unfold bind, txt. destruct (tok_ok_substr _ _ Ht) as [s ->]. apply K.
Qed.
Lemma R_txt_tail (t : token) st0 c (Q : bytes -> Prop) st :
  tok_ok src t -> st_ok st -> (len st + c <= len st0)%nat -> (forall s, Q s) -> R st0 c Q (txt src t st).
Proof.
  intros Ht Hok L Hq. unfold txt. destruct (tok_ok_substr _ _ Ht) as [s ->]. simpl. auto.
Qed.
Lemma match_fail {A B} tp (k : A -> P B) st0 c (Q : B -> Prop) st : st_ok st ->
  R st0 c Q (match fail cf src tp st with
             | Ok (a, st') => k a st'
             | Err e => Err e | Panic => Panic | OutOfFuel => OutOfFuel | Unmodelled => Unmodelled
             end).
Proof.
  intros Hok. pose proof (fail_spec (A:=A) tp st Hok I) as H2.
  destruct (fail cf src tp st) as [[a st']|e| | |]; simpl in *; auto. destruct H2 as (_ & _ & []).
Qed.
Lemma R_peek_key {B} (k : LefKey -> P B) st0 c (Q : B -> Prop) st :
  st_ok st -> (forall key, (1 <= len st)%nat -> R st0 c Q (k key st)) -> R st0 c Q (bind (peek_key cf src) k st).
Proof.
  intros Hok K. unfold bind at 1. unfold peek_key. destruct (peek_token st) as [t|] eqn:E.
  - assert (L : (1 <= len st)%nat).
    { unfold peek_token in E. unfold len. destruct (p_toks st); [discriminate | simpl; lia]. }
    destruct (ttype_eqb (t_ty t) TName).
    + unfold bind, txt. destruct (tok_ok_substr _ _ (peek_tok_ok _ _ Hok E)) as [s ->].
      destruct (LefKey_parse s) as [key|].
      * simpl. apply K. exact L.
      * apply match_fail. exact Hok.
    + apply match_fail. exact Hok.
  - apply match_fail. exact Hok.
Qed.

Lemma st_ok_with_ver : forall st v, st_ok st -> st_ok (with_ver st v).
Proof. intros st v H. exact H. Qed.
Lemma st_ok_with_ctx : forall st c, st_ok st -> st_ok (with_ctx st c).
Proof. intros st c H. exact H. Qed.

Global Instance push_spec c : Spec (push c) Tp 0 T.
Proof. intros st Hok _. simpl. unfold T, len. simpl. repeat split; try apply Hok. lia. Qed.
Global Instance pop_spec : Spec pop Tp 0 T.
Proof. intros st Hok _. simpl. unfold T, len. simpl. repeat split; try apply Hok. lia. Qed.
Global Instance lift_err_spec {A} e : Spec (@lift A (Err e)) Tp 0 T.
Proof. intros st Hok _. exact I. Qed.
Global Instance lift_unm_spec {A} : Spec (@lift A Unmodelled) Tp 0 T.
Proof. intros st Hok _. exact I. Qed.
Global Instance lift_dbu_spec x : Spec (lift (dbu_try_new cf x)) Tp 0 T.
Proof.
  intros st Hok _. unfold lift, dbu_try_new.
  destruct (negb (dec_fract_is_zero x)); [exact I|].
  destruct (dbu_allowed _); simpl; auto. split; [exact Hok | split; [lia | exact I]].
Qed.
Global Instance lift_gvb_spec rule b : Spec (lift (gen_via_build rule b)) Tp 0 T.
Proof.
  intros st Hok _. unfold lift, gen_via_build.
  destruct (gb_cut_size b) as [[? ?]|]; [|exact I].
  destruct (gb_layers b) as [[[? ?] ?]|]; [|exact I].
  destruct (gb_cut_spacing b) as [[? ?]|]; [|exact I].
  destruct (gb_enclosure b) as [[[[? ?] ?] ?]|]; [|exact I].
  simpl. split; [exact Hok | split; [lia | exact I]].
Qed.

(** ** symbolic execution *)
Ltac side :=
  first [ exact I | assumption
        | solve [unfold T, Tp; auto]
        | (cbv beta; unfold len, fuel_of in *; simpl in *; lia) ].

Ltac fin :=
  first [ apply R_ret; [assumption | side | side]
        | apply R_ok; [first [assumption | apply st_ok_with_ver; assumption | apply st_ok_with_ctx; assumption] | side | side] ].

Ltac step :=
  cbv beta;
  lazymatch goal with
  | |- R _ _ _ (bind ?m ?k ?st) =>
    lazymatch m with
    | get => apply R_get
    | peek_key _ _ => apply R_peek_key; [assumption | let key := fresh "key" in intros key ?]
    | advance => apply R_advance; [assumption | intros ? ? ?]
    | next_token => apply R_next_token; [assumption | intros ? ? ? ? ? | intros ?]
    | txt _ ?t => apply R_txt; [solve [eauto using peek_tok_ok] | intros ?]
    | ret _ => apply R_ret_bind
    | bind _ _ => apply R_assoc
    | when _ _ => unfold when
    | match ?x with _ => _ end => destruct x eqn:?
    | _ => eapply R_bind; [typeclasses eauto | assumption | side | intros ? ? ? ? ?; try contradiction]
    end
  | |- R _ _ _ (ret _ _) => fin
  | |- R _ _ _ (Ok _) => fin
  | |- R _ _ _ (fail _ _ _ _) => apply R_fail; assumption
  | |- R _ _ _ (fail_msg _ _ _ _ _) => apply R_fail_msg; assumption
  | |- R _ _ _ (advance _) => apply R_advance_tail; [assumption | side | side | side]
  | |- R _ _ _ (txt _ _ _) => apply R_txt_tail; [solve [eauto using peek_tok_ok] | assumption | side | intros; side]
  | |- R _ _ _ (lift OutOfFuel _) => exfalso; side
  | |- R _ _ _ (when _ _ _) => unfold when
  | |- R _ _ _ (?f ?st) =>
    lazymatch f with
    | match ?x with _ => _ end => destruct x eqn:?
    | _ => eapply R_tail; [typeclasses eauto | assumption | side | intros ? ? ? ? ?; split; side]
    end
  end.
Ltac run := repeat step.
Ltac start := let st := fresh "st" in let Hok := fresh "Hok" in let Hpre := fresh "Hpre" in
  intros st Hok Hpre.

(** ** the parser, function by function *)
Global Instance expect_spec ty : Spec (expect cf src ty) Tp 1 (tok_ok src).
Proof. start. unfold expect. run. Qed.
Global Instance expect_and_get_str_spec ty : Spec (expect_and_get_str cf src ty) Tp 1 T.
Proof. start. unfold expect_and_get_str. run. Qed.
Global Instance get_name_spec : Spec (get_name cf src) Tp 1 T.
Proof. unfold get_name. typeclasses eauto. Qed.
Global Instance parse_ident_spec : Spec (parse_ident cf src) Tp 1 T.
Proof. unfold parse_ident. typeclasses eauto. Qed.
Global Instance get_key_spec : Spec (get_key cf src) Tp 1 T.
Proof. start. unfold get_key. run. Qed.
Global Instance expect_key_spec k : Spec (expect_key cf src k) Tp 1 T.
Proof. start. unfold expect_key. run. Qed.
Global Instance expect_ident_spec i : Spec (expect_ident cf src i) Tp 1 T.
Proof. start. unfold expect_ident. run. Qed.
Global Instance parse_enum_spec {X} (f : bytes -> option X) : Spec (parse_enum cf src f) Tp 1 T.
Proof. start. unfold parse_enum. run. Qed.
Global Instance parse_number_spec : Spec (parse_number cf src) Tp 1 T.
Proof. start. unfold parse_number. run. Qed.
Global Instance parse_point_spec : Spec (parse_point cf src) Tp 1 T.
Proof. start. unfold parse_point. run. Qed.
Global Instance expect_semi_spec : Spec (expect_semi cf src) Tp 1 T.
Proof. start. unfold expect_semi. run. Qed.

Ltac loop f := induction f as [|f IH]; intros; start; [exfalso; side|].
Notation fuel_pre f := (fun st : pst => (len st < f)%nat).

Global Instance point_list_loop_spec f : forall acc, Spec (point_list_loop cf src f acc) (fuel_pre f) 0 T.
Proof. loop f. cbn [point_list_loop]. run. Qed.
Global Instance parse_point_list_spec : Spec (parse_point_list cf src) Tp 0 T.
Proof. start. unfold parse_point_list. run. Qed.
Global Instance parse_version_spec : Spec (parse_version cf src) Tp 1 T.
Proof. start. unfold parse_version. run. Qed.
Global Instance parse_size_spec : Spec (parse_size cf src) Tp 1 T.
Proof. start. unfold parse_size. run. Qed.
Global Instance symm_loop_spec f : forall acc, Spec (symm_loop cf src f acc) (fuel_pre f) 0 T.
Proof. loop f. cbn [symm_loop]. run. Qed.
Global Instance parse_symmetries_spec : Spec (parse_symmetries cf src) Tp 1 T.
Proof. start. unfold parse_symmetries. run. Qed.
Global Instance opt_sub_spec {X} (f : bytes -> option X) : Spec (opt_sub cf src f) Tp 1 T.
Proof. start. unfold opt_sub. run. Qed.
Global Instance parse_macro_class_spec : Spec (parse_macro_class cf src) Tp 1 T.
Proof. start. unfold parse_macro_class. run. Qed.
Global Instance parse_geometry_mask_spec : Spec (parse_geometry_mask cf src) Tp 0 T.
Proof. start. unfold parse_geometry_mask. run. Qed.
Global Instance parse_iterate_spec : Spec (parse_iterate cf src) Tp 0 T.
Proof. start. unfold parse_iterate. run. Qed.
Global Instance parse_step_pattern_spec : Spec (parse_step_pattern cf src) Tp 1 T.
Proof. start. unfold parse_step_pattern. run. Qed.
Global Instance parse_geometry_tail_spec it sh : Spec (parse_geometry_tail cf src it sh) Tp 1 T.
Proof. start. unfold parse_geometry_tail. run. Qed.
Global Instance parse_geometry_spec : Spec (parse_geometry cf src) Tp 1 T.
Proof. start. unfold parse_geometry. run. Qed.
Global Instance layer_opts_loop_spec f : forall lg, Spec (layer_opts_loop cf src f lg) (fuel_pre f) 0 T.
Proof. loop f. cbn [layer_opts_loop]. run. Qed.
Global Instance layer_body_loop_spec f : forall lg, Spec (layer_body_loop cf src f lg) (fuel_pre f) 0 T.
Proof. loop f. cbn [layer_body_loop]. run. Qed.
Global Instance parse_layer_geometries_spec : Spec (parse_layer_geometries cf src) Tp 1 T.
Proof. start. unfold parse_layer_geometries. run. Qed.
Global Instance parse_via_mask_spec : Spec (parse_via_mask cf src) Tp 0 T.
Proof. start. unfold parse_via_mask. run. Qed.
Global Instance parse_via_shape_spec : Spec (parse_via_shape cf src) Tp 1 T.
Proof. start. unfold parse_via_shape. run. Qed.
Global Instance via_layer_loop_spec f : forall acc, Spec (via_layer_loop cf src f acc) (fuel_pre f) 0 T.
Proof. loop f. cbn [via_layer_loop]. run. Qed.
Global Instance parse_via_layer_geometries_spec : Spec (parse_via_layer_geometries cf src) Tp 1 T.
Proof. start. unfold parse_via_layer_geometries. run. Qed.
Global Instance port_loop_spec f : forall cl ly, Spec (port_loop cf src f cl ly) (fuel_pre f) 0 T.
Proof. loop f. cbn [port_loop]. run. Qed.
Global Instance parse_port_spec : Spec (parse_port cf src) Tp 1 T.
Proof. start. unfold parse_port. run. Qed.
Global Instance density_rect_loop_spec f : forall acc, Spec (density_rect_loop cf src f acc) (fuel_pre f) 0 T.
Proof. loop f. cbn [density_rect_loop]. run. Qed.
Global Instance density_loop_spec f : forall acc, Spec (density_loop cf src f acc) (fuel_pre f) 0 T.
Proof. loop f. cbn [density_loop]. run. Qed.
Global Instance parse_density_spec : Spec (parse_density cf src) Tp 1 T.
Proof. start. unfold parse_density. run. Qed.
Global Instance obs_loop_spec f : forall acc, Spec (obs_loop cf src f acc) (fuel_pre f) 0 T.
Proof. loop f. cbn [obs_loop]. run. Qed.
Global Instance parse_obstructions_spec : Spec (parse_obstructions cf src) Tp 1 T.
Proof. start. unfold parse_obstructions. run. Qed.
Global Instance property_loop_spec f : forall acc, Spec (property_loop cf src f acc) (fuel_pre f) 0 T.
Proof. loop f. cbn [property_loop]. run. Qed.
Global Instance parse_property_spec acc : Spec (parse_property cf src acc) Tp 1 T.
Proof. start. unfold parse_property. run. Qed.
Global Instance parse_pin_direction_spec : Spec (parse_pin_direction cf src) Tp 1 T.
Proof. start. unfold parse_pin_direction. run. Qed.
Global Instance ident_stmt_spec : Spec (ident_stmt cf src) Tp 1 T.
Proof. start. unfold ident_stmt. run. Qed.
Global Instance enum_stmt_spec {X} (f : bytes -> option X) : Spec (enum_stmt cf src f) Tp 1 T.
Proof. start. unfold enum_stmt. run. Qed.
Global Instance pin_loop_spec f : forall pin props, Spec (pin_loop cf src f pin props) (fuel_pre f) 0 T.
Proof. loop f. cbn [pin_loop]. run. Qed.
Global Instance parse_pin_spec : Spec (parse_pin cf src) Tp 1 T.
Proof. start. unfold parse_pin. run. Qed.
Global Instance macro_loop_spec f : forall mac props, Spec (macro_loop cf src f mac props) (fuel_pre f) 0 T.
Proof. loop f. cbn [macro_loop]. run. Qed.
Global Instance parse_macro_spec : Spec (parse_macro cf src) Tp 1 T.
Proof. start. unfold parse_macro. run. Qed.
Global Instance parse_property_definition_tail_spec : Spec (parse_property_definition_tail cf src) Tp 1 T.
Proof. start. unfold parse_property_definition_tail. run. Qed.
Global Instance propdefs_loop_spec f : forall acc, Spec (propdefs_loop cf src f acc) (fuel_pre f) 0 T.
Proof. loop f. cbn [propdefs_loop]. run. Qed.
Global Instance parse_property_definitions_spec : Spec (parse_property_definitions cf src) Tp 1 T.
Proof. start. unfold parse_property_definitions. run. Qed.
Global Instance unit_stmt_spec k : Spec (unit_stmt cf src k) Tp 1 T.
Proof. start. unfold unit_stmt. run. Qed.
Global Instance units_loop_spec f : forall u, Spec (units_loop cf src f u) (fuel_pre f) 0 T.
Proof. loop f. cbn [units_loop]. run. Qed.
Global Instance parse_units_spec : Spec (parse_units cf src) Tp 1 T.
Proof. start. unfold parse_units. run. Qed.
Global Instance site_loop_spec f : forall name cl sz sy, Spec (site_loop cf src f name cl sz sy) (fuel_pre f) 0 T.
Proof. loop f. cbn [site_loop]. run. Qed.
Global Instance parse_site_def_spec : Spec (parse_site_def cf src) Tp 1 T.
Proof. start. unfold parse_site_def. run. Qed.
Global Instance gen_via_loop_spec f : forall b, Spec (gen_via_loop cf src f b) (fuel_pre f) 0 T.
Proof. loop f. cbn [gen_via_loop]. run. Qed.
Global Instance fixed_via_layers_loop_spec f : forall acc, Spec (fixed_via_layers_loop cf src f acc) (fuel_pre f) 0 T.
Proof. loop f. cbn [fixed_via_layers_loop]. run. Qed.
Global Instance parse_via_spec : Spec (parse_via cf src) Tp 1 T.
Proof. start. unfold parse_via. run. Qed.
Global Instance parse_bus_bit_chars_spec : Spec (parse_bus_bit_chars cf src) Tp 1 T.
Proof. start. unfold parse_bus_bit_chars. run. Qed.
Global Instance parse_divider_char_spec : Spec (parse_divider_char cf src) Tp 1 T.
Proof. start. unfold parse_divider_char. run. Qed.
Global Instance ext_loop_spec f : forall data, Spec (ext_loop cf src f data) (fuel_pre f) 0 T.
Proof. loop f. cbn [ext_loop]. run. Qed.
Global Instance onoff_stmt_spec : Spec (onoff_stmt cf src) Tp 1 T.
Proof. start. unfold onoff_stmt. run. Qed.
Global Instance lib_loop_spec f : forall lib, Spec (lib_loop cf src f lib) (fuel_pre f) 0 T.
Proof. loop f. cbn [lib_loop]. run. Qed.
Global Instance parse_lib_spec : Spec (parse_lib cf src) Tp 0 T.
Proof. start. unfold parse_lib. run. Qed.

End Safe.

Theorem parse_safe_gen : forall cf src, c_charpos cf = false -> starts_on_boundary src = true ->
  parse cf src <> Panic /\ parse cf src <> OutOfFuel.
Proof.
  intros cf src Hcf Hsrc. unfold parse. rewrite Hcf.
  destruct (lex false src) as [toks e] eqn:L.
  destruct (lex_ok_gen _ _ _ Hsrc L) as (F & E & _).
  assert (Hok : st_ok src (mkpst toks e V5P8 [])) by (split; assumption).
  pose proof (parse_lib_spec cf src Hcf Hsrc _ Hok I) as H.
  destruct (parse_lib cf src (mkpst toks e V5P8 [])) as [[l st']|er| | |]; simpl in H; try contradiction;
    destruct toks; destruct e; simpl in E; try contradiction; split; discriminate.
Qed.

Theorem parse_no_panic : forall cf src, c_charpos cf = false -> utf8_valid src -> parse cf src <> Panic.
Proof. intros cf src Hcf V. apply (parse_safe_gen cf src Hcf (valid_starts_on_boundary _ V)). Qed.
Theorem parse_terminates : forall cf src, c_charpos cf = false -> utf8_valid src -> parse cf src <> OutOfFuel.
Proof. intros cf src Hcf V. apply (parse_safe_gen cf src Hcf (valid_starts_on_boundary _ V)). Qed.
Theorem parse_total : forall cf src, c_charpos cf = false -> utf8_valid src ->
  (exists l, parse cf src = Ok l) \/ (exists e, parse cf src = Err e) \/ parse cf src = Unmodelled.
Proof.
  intros cf src Hcf V. destruct (parse_safe_gen cf src Hcf (valid_starts_on_boundary _ V)) as [A B].
  destruct (parse cf src) as [l|e| | |]; try congruence; eauto.
Qed.
Theorem fuel_linear : forall cm src, lex_fuel src = S (length src) /\
  forall v c, (fuel_of (mkpst (fst (lex cm src)) (snd (lex cm src)) v c) <= S (length src))%nat.
Proof.
  intros cm src. split; [reflexivity|]. intros v c. unfold fuel_of. simpl.
  pose proof (lex_count cm src). lia.
Qed.

Theorem loops_advance :
  forall cf src, c_charpos cf = false -> utf8_valid src ->
  forall f st, st_ok src st -> (len st < f)%nat ->
    (forall acc, R src st 0 T (point_list_loop cf src f acc st)) /\
    (forall acc, R src st 0 T (symm_loop cf src f acc st)) /\
    (forall data, R src st 0 T (ext_loop cf src f data st)) /\
    (forall acc, R src st 0 T (property_loop cf src f acc st)) /\
    (forall p props, R src st 0 T (pin_loop cf src f p props st)) /\
    (forall m props, R src st 0 T (macro_loop cf src f m props st)) /\
    (forall lib, R src st 0 T (lib_loop cf src f lib st)).
Proof.
  intros cf src Hcf V f st Hok Hf. pose proof (valid_starts_on_boundary _ V) as Hs.
  repeat split; intros.
  - exact (point_list_loop_spec cf src Hcf Hs f acc st Hok Hf).
  - exact (symm_loop_spec cf src Hcf Hs f acc st Hok Hf).
  - exact (ext_loop_spec cf src Hcf Hs f data st Hok Hf).
  - exact (property_loop_spec cf src Hcf Hs f acc st Hok Hf).
  - exact (pin_loop_spec cf src Hcf Hs f p props st Hok Hf).
  - exact (macro_loop_spec cf src Hcf Hs f m props st Hok Hf).
  - exact (lib_loop_spec cf src Hcf Hs f lib st Hok Hf).
Qed.
