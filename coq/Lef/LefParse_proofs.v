(** Lemmas about the parser model (Lef/LefParse.v). *)
From Coq Require Import ZArith List Bool Lia.
From L21 Require Import Lef.LefDec Lef.LefData Lef.LefLex Lef.LefParse Lef.LefLex_proofs.
Import ListNotations.
Local Open Scope Z_scope.

Lemma parse_orig_panics_version : parse cfg_orig witness_version = Panic.
Proof. vm_compute. reflexivity. Qed.
Lemma parse_orig_panics_macro : parse cfg_orig witness_macro = Panic.
Proof. vm_compute. reflexivity. Qed.
Lemma parse_fixed_version : exists e, parse cfg_fixed witness_version = Err e.
Proof. vm_compute. eexists. reflexivity. Qed.
