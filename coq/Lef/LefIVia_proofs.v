(** C05, reader-image side: SIZE, SYMMETRY, VIA, SITE, UNITS. *)
From Coq Require Import String.
From Coq Require Import ZArith List Bool Lia.
From L21 Require Import Lef.LefDec Lef.LefData Lef.LefLex Lef.LefParse Lef.LefSpec Lef.LefCheck
                        Lef.LefLex_proofs Lef.LefParse_proofs Lef.LefRtLex_proofs Lef.LefRtFrame_proofs
                        Lef.LefRtLib_proofs Lef.LefWDec_proofs Lef.LefWFrame_proofs Lef.LefIFrame_proofs
                        Lef.LefIConstr_proofs.
Import ListNotations.
Local Open Scope list_scope.
Local Open Scope Z_scope.

Lemma app_ne_l {X} : forall (c c2 : list X), c <> [] -> c ++ c2 <> [].
Proof. intros [|x c] c2 H; [congruence | discriminate]. Qed.
Lemma app_ne_r {X} : forall (c c2 : list X), c2 <> [] -> c ++ c2 <> [].
Proof. intros [|x c] c2 H; [exact H | discriminate]. Qed.

Section ImgVia.
Variable src : bytes.
Hypothesis Hsrc : starts_on_boundary src = true.
Notation cf := cfg_fixed.
Notation ispec := (ispec src).
Notation iR := (iR src).
Notation isees := (isees src).

(** a consumed keyword makes the consumed list non-empty *)
Ltac ne_fact :=
  lazymatch goal with
  | |- ?c <> [] =>
    match goal with
    | q : exists b, c = [_] /\ _ |- _ => destruct q as (? & -> & _); discriminate
    | q : exists x, c = [x] |- _ => destruct q as (? & ->); discriminate
    | q : _ /\ (exists b, c = [_]) |- _ => destruct q as (_ & ? & ->); discriminate
    | q : c = [_] /\ _ |- _ => rewrite (proj1 q); discriminate
    | q : c = [_] |- _ => rewrite q; discriminate
    | q : _ /\ c <> [] |- _ => exact (proj2 q)
    | q : _ /\ _ /\ c <> [] |- _ => exact (proj2 (proj2 q))
    | q : c <> [] |- _ => exact q
    end
  end.
Ltac ne :=
  first [ ne_fact | apply app_ne_l; ne_fact | apply app_ne_r; ne ].
Ltac ne_key := ne.

Global Instance parse_size_ispec : ispec (parse_size cf src) (fun s c a' => dec_wf (fst s) /\ dec_wf (snd s) /\ c <> []).
Proof.
  intros st a Hs. unfold parse_size. do 5 istep. iret. cbn [fst snd].
  isplit; [apply q0 | apply q2 | ne_key].
Qed.

Global Instance symm_loop_ispec f : forall acc, ispec (symm_loop cf src f acc) (fun _ _ _ => True).
Proof.
  induction f as [|f IH]; intros acc st a Hs; [exact I|]. cbn [symm_loop].
  istep. destruct (negb (matches TSemi st)); [|iret; exact I].
  istep. eapply iR_weaken; [|eapply iR_spec; [eapply IH | eassumption | congruence]]. auto.
Qed.
Global Instance parse_symmetries_ispec : ispec (parse_symmetries cf src) (fun _ c a' => c <> []).
Proof.
  intros st a Hs. unfold parse_symmetries. do 4 istep. iret. ne_key.
Qed.

(** VIA shapes *)
Global Instance parse_via_mask_ispec : ispec (parse_via_mask cf src) (fun m c a' => optP dec_wf m).
Proof.
  intros st a Hs. unfold parse_via_mask. istep. destruct (matches TName st); [|iret; exact I].
  istep. destruct (LefKey_eqb x K_Mask); [|istep]. istep. iret. apply q0.
Qed.
Global Instance parse_via_shape_ispec : ispec (parse_via_shape cf src) (fun s c a' => via_shape_wr s /\ c <> []).
Proof.
  intros st a Hs. unfold parse_via_shape. istep. destruct key; try apply iR_fail.
  - (* POLYGON *)
    istep. istep. istep. unfold when.
    match goal with |- context [Nat.ltb (List.length ?l) 3] => destruct (Nat.ltb (List.length l) 3) eqn:L; [istep|] end.
    istep. istep. iret. apply Nat.ltb_ge in L. split; [cbn [via_shape_wr]; isplit; assumption | ne].
  - (* RECT *)
    istep. istep. istep. istep. istep. iret. split; [|ne].
    repeat match goal with H : point_wr _ /\ _ |- _ => destruct H as [H _] end. cbn [via_shape_wr]. isplit; assumption.
Qed.

Global Instance via_layer_loop_ispec f : forall acc,
  ispec (via_layer_loop cf src f acc) (fun l c a' => Forall via_shape_wr acc -> Forall via_shape_wr l).
Proof.
  induction f as [|f IH]; intros acc st a Hs; [exact I|]. cbn [via_layer_loop].
  istep. destruct (peek_token st) as [t|]; [|iret; auto].
  istep. destruct key; try apply iR_fail; try (iret; auto; fail).
  - istep. eapply iR_weaken; [|eapply iR_spec; [eapply IH | eassumption | congruence]].
    cbv beta. intros l cc aa _ G Fa. apply G. apply Forall_app. split; [exact Fa | constructor; [apply q | constructor]].
  - istep. eapply iR_weaken; [|eapply iR_spec; [eapply IH | eassumption | congruence]].
    cbv beta. intros l cc aa _ G Fa. apply G. apply Forall_app. split; [exact Fa | constructor; [apply q | constructor]].
Qed.
Global Instance parse_via_layer_geometries_ispec :
  ispec (parse_via_layer_geometries cf src) (fun l c a' => via_layer_wr l /\ c <> []).
Proof.
  intros st a Hs. unfold parse_via_layer_geometries. do 7 istep. iret. split; [|ne].
  split; cbn [vl_layer_name vl_shapes].
  - match goal with q : _ = [(TName, ?n)] /\ tok_fact _ _ |- name_tok ?n => exact (tok_fact_name _ _ (proj2 q)) end.
  - match goal with G : Forall via_shape_wr [] -> _ |- _ => apply G; constructor end.
Qed.

(** generated vias: every component of the builder that is set is well formed *)
Definition gv_inv (b : gv_builder) : Prop :=
  optP (fun s => dec_wf (fst s) /\ dec_wf (snd s)) (gb_cut_size b)
  /\ optP (fun l => name_tok (fst (fst l)) /\ name_tok (snd (fst l)) /\ name_tok (snd l)) (gb_layers b)
  /\ optP (fun s => dec_wf (fst s) /\ dec_wf (snd s)) (gb_cut_spacing b)
  /\ optP (fun e => dec_wf (fst (fst (fst e))) /\ dec_wf (snd (fst (fst e))) /\ dec_wf (snd (fst e)) /\ dec_wf (snd e))
          (gb_enclosure b)
  /\ optP (fun r => dec_wf (rc_rows r) /\ dec_wf (rc_cols r)) (gb_rowcol b)
  /\ optP point_wr (gb_origin b)
  /\ optP (fun o => Forall dec_wf [of_bot_x o; of_bot_y o; of_top_x o; of_top_y o]) (gb_offset b).

Ltac wf_fact :=
  match goal with
  | q : dec_wf ?d /\ _ |- dec_wf ?d => exact (proj1 q)
  | q : point_wr ?p /\ _ |- point_wr ?p => exact (proj1 q)
  | q : _ = [(TName, ?n)] /\ tok_fact _ _ |- name_tok ?n => exact (tok_fact_name _ _ (proj2 q))
  end.
Ltac gv_close :=
  cbv beta; intros ? ? ? _ G I0; apply G; destruct I0 as (? & ? & ? & ? & ? & ? & ?); unfold gv_inv;
  cbn [gb_cut_size gb_layers gb_cut_spacing gb_enclosure gb_rowcol gb_origin gb_offset]; isplit; try assumption;
  cbn [optP fst snd rc_rows rc_cols of_bot_x of_bot_y of_top_x of_top_y]; isplit;
  repeat (apply Forall_cons || apply Forall_nil); wf_fact.

Global Instance gen_via_loop_ispec f : forall b,
  ispec (gen_via_loop cf src f b) (fun b' c a' => gv_inv b -> gv_inv b').
Proof.
  induction f as [|f IH]; intros b st a Hs; [exact I|]. cbn [gen_via_loop].
  istep. destruct key; try apply iR_fail; try (iret; auto; fail);
    repeat istep; (eapply iR_weaken; [|eapply iR_spec; [eapply IH | eassumption | congruence]]); gv_close.
Qed.

(** [lift r]: succeeds only with the value of [r], consumes nothing *)
Global Instance lift_ispec {A} (r : res A) : ispec (lift r) (fun x c a' => r = Ok x /\ c = []).
Proof.
  intros st a Hs. unfold lift. destruct r; try exact I. apply iR_ok; [exact Hs | reflexivity | split; reflexivity].
Qed.

Lemma gen_via_build_wr : forall rule b g, gen_via_build rule b = Ok g -> name_tok rule -> gv_inv b -> gen_via_wr g.
Proof.
  intros rule b g E Hr (I1 & I2 & I3 & I4 & I5 & I6 & I7). unfold gen_via_build in E.
  destruct (gb_cut_size b) as [[cx cy]|]; [|discriminate].
  destruct (gb_layers b) as [[[l1 l2] l3]|]; [|discriminate].
  destruct (gb_cut_spacing b) as [[sx sy]|]; [|discriminate].
  destruct (gb_enclosure b) as [[[[e1 e2] e3] e4]|]; [|discriminate].
  injection E as <-. cbn [optP fst snd] in *.
  destruct I1 as [? ?]. destruct I2 as (? & ? & ?). destruct I3 as [? ?]. destruct I4 as (? & ? & ? & ?).
  unfold gen_via_wr.
  cbn [gv_via_rule_name gv_cut_size_x gv_cut_size_y gv_bot_metal_layer gv_cut_layer gv_top_metal_layer gv_cut_spacing_x
       gv_cut_spacing_y gv_bot_enc_x gv_bot_enc_y gv_top_enc_x gv_top_enc_y gv_rowcol gv_origin gv_offset].
  isplit; try assumption. repeat (apply Forall_cons || apply Forall_nil); assumption.
Qed.

Global Instance fixed_via_layers_loop_ispec f : forall acc,
  ispec (fixed_via_layers_loop cf src f acc) (fun l c a' => Forall via_layer_wr acc -> Forall via_layer_wr l).
Proof.
  induction f as [|f IH]; intros acc st a Hs; [exact I|]. cbn [fixed_via_layers_loop].
  istep. destruct key; try (iret; auto; fail).
  istep. eapply iR_weaken; [|eapply iR_spec; [eapply IH | eassumption | congruence]].
  cbv beta. intros l cc aa _ G Fa. apply G. apply Forall_app. split; [exact Fa | constructor; [apply q | constructor]].
Qed.

(** run up to the next [peek_key] *)
Ltac run_to_peek :=
  repeat (lazymatch goal with
          | |- LefIFrame_proofs.iR _ _ _ _ (bind (peek_key _ _) _ _) => fail
          | _ => istep
          end).

Global Instance parse_via_ispec : ispec (parse_via cf src) (fun v c a' => via_wr v /\ c <> []).
Proof.
  intros st a Hs. unfold parse_via. do 3 istep.
  istep. run_to_peek.
  all: istep; run_to_peek.
  all: try (lazymatch goal with |- context [K_Resistance] => istep; run_to_peek end).
  all: istep; istep; try (istep; fail).
  all: do 3 istep; iret.
  all: split; [|ne].
  all: split; cbn [vd_name vd_data fv_resistance_ohms fv_layers]; [wf_fact|].
  all: try (split; [cbn [optP]; first [exact I | wf_fact]
                   | match goal with G : Forall via_layer_wr [] -> _ |- _ => apply G; constructor end]).
  all: match goal with
       | E : gen_via_build ?rule ?b = Ok ?g /\ _, G : gv_inv _ -> gv_inv ?b |- gen_via_wr ?g =>
         apply (gen_via_build_wr rule b g (proj1 E)); [wf_fact | apply G]
       end.
  all: unfold gv_inv; cbn [gb_cut_size gb_layers gb_cut_spacing gb_enclosure gb_rowcol gb_origin gb_offset optP]; isplit; exact I.
Qed.

(** SITE *)
Global Instance site_enum_stmt_ispec {T} (from_str : bytes -> option T) :
  ispec (enum_stmt cf src from_str) (fun _ _ _ => True).
Proof. intros st a Hs. unfold enum_stmt. do 3 istep. iret. exact I. Qed.

Definition size_wf (s : dec * dec) : Prop := dec_wf (fst s) /\ dec_wf (snd s).
Global Instance site_loop_ispec f : forall name class size symm,
  ispec (site_loop cf src f name class size symm)
        (fun r c a' => optP size_wf size -> optP size_wf (snd (fst r))).
Proof.
  induction f as [|f IH]; intros name class size symm st a Hs; [exact I|]. cbn [site_loop].
  istep. destruct key; try apply iR_fail.
  - (* END *) istep. istep. iret. cbn [fst snd]. auto.
  - (* CLASS *) istep. eapply iR_weaken; [|eapply iR_spec; [eapply IH | eassumption | congruence]]. cbv beta. auto.
  - (* SYMMETRY *) istep. eapply iR_weaken; [|eapply iR_spec; [eapply IH | eassumption | congruence]]. cbv beta. auto.
  - (* SIZE *) istep. eapply iR_weaken; [|eapply iR_spec; [eapply IH | eassumption | congruence]].
    cbv beta. intros rr cc aa _ G _. apply G. cbn [optP]. split; [apply q | apply q].
Qed.
Global Instance parse_site_def_ispec : ispec (parse_site_def cf src) (fun s c a' => site_wr s /\ c <> []).
Proof.
  intros st a Hs. unfold parse_site_def. do 5 istep.
  match goal with x : (_ * _ * _)%type |- _ => destruct x as [[class size] symm] end. cbn [fst snd] in *.
  istep. destruct class as [cl|]; [|exact I]. destruct size as [sz|]; [|exact I].
  iret. split; [|ne]. unfold site_wr. cbn [site_name site_size].
  match goal with G : optP size_wf None -> optP size_wf (Some sz) |- _ => destruct (G I) as [W1 W2] end.
  isplit; [wf_fact | exact W1 | exact W2].
Qed.

(** UNITS *)
Lemma dbu_try_new_allowed : forall x v, dbu_try_new cf x = Ok v -> dbu_allowed v = true.
Proof.
  intros x v H. unfold dbu_try_new in H. destruct (negb (dec_fract_is_zero x)); [discriminate|].
  match type of H with (if dbu_allowed ?m then _ else _) = _ => destruct (dbu_allowed m) eqn:E; [|discriminate] end.
  injection H as <-. exact E.
Qed.
Global Instance unit_stmt_ispec k : ispec (unit_stmt cf src k) (fun n c a' => dec_wf n /\ c <> []).
Proof.
  intros st a Hs. unfold unit_stmt. do 3 istep. iret. split; [wf_fact | ne].
Qed.

Ltac units_close :=
  cbv beta; intros ? ? ? _ G I0; apply G; destruct I0 as [D F]; unfold units_wr in *;
  cbn [u_database_microns u_time_ns u_capacitance_pf u_resistance_ohms u_power_mw u_current_ma u_voltage_volts u_frequency_mhz
       set_u_database_microns set_u_time_ns set_u_capacitance_pf set_u_resistance_ohms set_u_power_mw set_u_current_ma
       set_u_voltage_volts set_u_frequency_mhz] in *;
  repeat match goal with F : Forall _ (_ :: _) |- _ =>
           let H := fresh "W" in let F' := fresh "F" in destruct (proj1 (Forall_cons_iff _ _ _) F) as [H F']; clear F end;
  split; [first [assumption | cbn [optP]; match goal with q : dbu_try_new cf _ = Ok ?v /\ _ |- dbu_allowed ?v = true =>
                                            exact (dbu_try_new_allowed _ _ (proj1 q)) end] | repeat (apply Forall_cons || apply Forall_nil); try assumption; cbn [optP]; wf_fact].

Global Instance units_loop_ispec f : forall u,
  ispec (units_loop cf src f u) (fun u' c a' => units_wr u -> units_wr u').
Proof.
  induction f as [|f IH]; intros u st a Hs; [exact I|]. cbn [units_loop].
  istep. destruct x; try apply iR_fail.
  - (* END *) istep. iret. auto.
  - istep. (eapply iR_weaken; [|eapply iR_spec; [eapply IH | eassumption | congruence]]); units_close.
  - istep. (eapply iR_weaken; [|eapply iR_spec; [eapply IH | eassumption | congruence]]); units_close.
  - istep. (eapply iR_weaken; [|eapply iR_spec; [eapply IH | eassumption | congruence]]); units_close.
  - istep. (eapply iR_weaken; [|eapply iR_spec; [eapply IH | eassumption | congruence]]); units_close.
  - istep. (eapply iR_weaken; [|eapply iR_spec; [eapply IH | eassumption | congruence]]); units_close.
  - istep. (eapply iR_weaken; [|eapply iR_spec; [eapply IH | eassumption | congruence]]); units_close.
  - (* DATABASE *) istep. istep. (eapply iR_weaken; [|eapply iR_spec; [eapply IH | eassumption | congruence]]); units_close.
  - (* FREQUENCY *) istep. (eapply iR_weaken; [|eapply iR_spec; [eapply IH | eassumption | congruence]]); units_close.
Qed.
Global Instance parse_units_ispec : ispec (parse_units cf src) (fun u c a' => units_wr u /\ c <> []).
Proof.
  intros st a Hs. unfold parse_units. do 5 istep. iret. split; [|ne].
  match goal with G : units_wr _ -> units_wr ?u |- units_wr ?u => apply G end.
  unfold units_wr.
  cbn [u_database_microns u_time_ns u_capacitance_pf u_resistance_ohms u_power_mw u_current_ma u_voltage_volts u_frequency_mhz optP].
  split; [exact I | repeat (apply Forall_cons || apply Forall_nil); exact I].
Qed.

End ImgVia.

Print Assumptions parse_size_ispec.
Print Assumptions parse_symmetries_ispec.
Print Assumptions parse_via_ispec.
Print Assumptions parse_site_def_ispec.
Print Assumptions parse_units_ispec.
