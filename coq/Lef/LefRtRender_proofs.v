(** C04: the lexical bridge between the specification renderer (Lef/LefSpec.v, Stage 2) and the lexer
    lemma [lex_items] (Lef/LefRtLex_proofs.v).

    [render_items sty ts]: the rendering of the token list [ts] as a list of [item]s (lead separator, tokens
    separated by the style's separators, trail separator, final comment), with
      [render_toks_items]  : render_toks sty ts = flatten (render_items sty ts)
      [render_items_ok]    : the items satisfy [items_ok] when the style is well formed and every token is
                             lexically well formed ([stok_ok])
      [render_items_arel]  : the abstract tokens of the items are lexical forms ([arel]) of the tokens
      [toks_of_lib_ok]     : every token of a supported library is lexically well formed. *)
From Coq Require Import String.
From Coq Require Import ZArith List Bool Lia.
From L21 Require Import Lef.LefDec Lef.LefData Lef.LefLex Lef.LefParse Lef.LefSpec Lef.LefCheck
                        Lef.LefLex_proofs Lef.LefParse_proofs Lef.LefRtLex_proofs Lef.LefRtFrame_proofs
                        Lef.LefRtDec_proofs Lef.LefRtPerm_proofs.
Import ListNotations.
Local Open Scope list_scope.
Local Open Scope Z_scope.

(* ------------------------------------------------------------------------------------------ *)
(** * Definitions *)
Definition LefRtRender_is_upper (b : Z) : bool := (65 <=? b) && (b <=? 90).
Definition LefRtRender_kwchar (b : Z) : bool := LefRtRender_is_upper b || is_digit_b b.

(** a keyword: non-empty, upper-case ASCII letters and digits, the first one a letter *)
Definition kw_ok (k : string) : bool :=
  match bytes_of_string k with
  | [] => false
  | b :: r => LefRtRender_is_upper b && forallb LefRtRender_kwchar r
  end.

Definition stok_ok (t : stok) : bool :=
  match t with
  | SKw k => kw_ok k
  | SName n => name_ok n
  | SNum d => dec_ok d
  | SRaw b => quoted_ok b || plain_tok_ok b || bytes_eqb b [59]
  | SSemi => true
  end.

(** the type the lexer gives to the text of a verbatim token *)
Definition raw_ty (b : bytes) : ttype :=
  match b with
  | [] => TName
  | b0 :: _ =>
    if b0 =? 34 then TString
    else if bytes_eqb b [59] then TSemi
    else if numstart b0 && is_rust_float b then TNumber else TName
  end.

Definition LefRtRender_ty (t : stok) : ttype :=
  match t with
  | SKw _ => TName
  | SName _ => TName
  | SNum _ => TNumber
  | SRaw b => raw_ty b
  | SSemi => TSemi
  end.

Fixpoint render_items_from (sty : style) (i kc nc : nat) (ts : list stok) : list item :=
  match ts with
  | [] => []
  | t :: r =>
    let '(b, kc', nc') := render_tok sty kc nc t in
    ITok (LefRtRender_ty t, b) ::
    match r with
    | [] => []
    | _ => ISep (cyc [SWs 32] (sty_seps sty) i) :: render_items_from sty (S i) kc' nc' r
    end
  end.

Definition LefRtRender_trail (sty : style) : list item :=
  (match sty_trail sty with [] => [] | s => [ISep s] end)
  ++ (match sty_trail_comment sty with Some t => [ITrailC t] | None => [] end).

Definition render_items (sty : style) (ts : list stok) : list item :=
  ISep (sty_lead sty) :: render_items_from sty 0 0 0 ts ++ LefRtRender_trail sty.

(* ------------------------------------------------------------------------------------------ *)
(** * The text of the items is the rendering *)
Lemma LefRtRender_flatten_app : forall a b, flatten (a ++ b) = flatten a ++ flatten b.
Proof. intros. unfold flatten. apply flat_map_app. Qed.

Lemma LefRtRender_from_flatten : forall sty ts i kc nc,
  flatten (render_items_from sty i kc nc ts) = render_toks_from sty i kc nc ts.
Proof.
  induction ts as [|t r IH]; intros i kc nc; [reflexivity|].
  cbn [render_items_from render_toks_from].
  destruct (render_tok sty kc nc t) as [[b kc'] nc'].
  specialize (IH (S i) kc' nc').
  destruct r as [|t2 r2].
  - unfold flatten. cbn [flat_map item_bytes snd]. apply app_nil_r.
  - cbv beta iota. unfold flatten in *. cbn [flat_map item_bytes snd]. rewrite IH. reflexivity.
Qed.

Lemma LefRtRender_trail_flatten : forall sty,
  flatten (LefRtRender_trail sty)
  = render_sep (sty_trail sty) ++ match sty_trail_comment sty with Some t => [35] ++ t | None => [] end.
Proof.
  intros sty. unfold LefRtRender_trail. rewrite LefRtRender_flatten_app. f_equal.
  - destruct (sty_trail sty) as [|x s]; [reflexivity|]. unfold flatten. cbn [flat_map item_bytes]. apply app_nil_r.
  - destruct (sty_trail_comment sty) as [t|]; [|reflexivity]. unfold flatten. cbn [flat_map item_bytes app]. rewrite app_nil_r. reflexivity.
Qed.

Theorem render_toks_items : forall sty ts, render_toks sty ts = flatten (render_items sty ts).
Proof.
  intros sty ts. unfold render_toks, render_items.
  change (flatten (ISep (sty_lead sty) :: render_items_from sty 0 0 0 ts ++ LefRtRender_trail sty))
    with (render_sep (sty_lead sty) ++ flatten (render_items_from sty 0 0 0 ts ++ LefRtRender_trail sty)).
  rewrite LefRtRender_flatten_app, LefRtRender_from_flatten, LefRtRender_trail_flatten. reflexivity.
Qed.

(* ------------------------------------------------------------------------------------------ *)
(** * ASCII bytes *)
Definition LefRtRender_is_lower (b : Z) : bool := (97 <=? b) && (b <=? 122).
Definition LefRtRender_alpha (b : Z) : bool := LefRtRender_is_upper b || LefRtRender_is_lower b.
Definition LefRtRender_alnum (b : Z) : bool := LefRtRender_alpha b || is_digit_b b.
Definition LefRtRender_vis (b : Z) : bool := (33 <=? b) && (b <? 127).

Ltac LefRtRender_bd :=
  repeat match goal with
  | H : context [Z.ltb ?a ?b] |- _ => destruct (Z.ltb_spec a b)
  | H : context [Z.leb ?a ?b] |- _ => destruct (Z.leb_spec a b)
  | H : context [Z.eqb ?a ?b] |- _ => destruct (Z.eqb_spec a b)
  | |- context [Z.ltb ?a ?b] => destruct (Z.ltb_spec a b)
  | |- context [Z.leb ?a ?b] => destruct (Z.leb_spec a b)
  | |- context [Z.eqb ?a ?b] => destruct (Z.eqb_spec a b)
  end; cbn [andb orb negb] in *; try discriminate; try reflexivity; try lia.

Lemma LefRtRender_bytes_eqb_eq : forall a b, bytes_eqb a b = true -> a = b.
Proof.
  induction a as [|x a IH]; intros [|y b] H; cbn [bytes_eqb] in H; try discriminate; [reflexivity|].
  apply andb_prop in H. destruct H as [H1 H2]. apply Z.eqb_eq in H1. rewrite H1, (IH _ H2). reflexivity.
Qed.

Lemma LefRtRender_cp_at_ascii : forall b r, b < 128 -> cp_at (b :: r) = b.
Proof. intros b r H. cbn [cp_at]. replace (b <? 128) with true by (symmetry; apply Z.ltb_lt; lia). reflexivity. Qed.

Lemma LefRtRender_vis_range : forall b, LefRtRender_vis b = true -> 33 <= b < 127.
Proof. intros b H. unfold LefRtRender_vis in H. LefRtRender_bd. Qed.

Lemma LefRtRender_vis_not_ws : forall b, 33 <= b < 128 -> is_whitespace b = false.
Proof. intros b H. unfold is_whitespace. replace (b <? 128) with true by (symmetry; apply Z.ltb_lt; lia). LefRtRender_bd. Qed.

Lemma LefRtRender_vis_U8 : forall s, forallb LefRtRender_vis s = true -> U8 s.
Proof.
  intros s H. apply U8_ascii. induction s as [|b r IH]; [constructor|].
  cbn [forallb] in H. apply andb_prop in H. destruct H as [Hb Hr].
  constructor; [apply LefRtRender_vis_range in Hb; lia | apply IH; exact Hr].
Qed.

Lemma LefRtRender_vis_no_space : forall s, forallb LefRtRender_vis s = true -> no_space s = true.
Proof.
  induction s as [|b r IH]; intros H; [reflexivity|].
  cbn [forallb] in H. apply andb_prop in H. destruct H as [Hb Hr]. apply LefRtRender_vis_range in Hb.
  cbn [no_space]. rewrite not_cont_lt by lia. rewrite LefRtRender_cp_at_ascii by lia.
  rewrite LefRtRender_vis_not_ws by lia. rewrite (IH Hr). reflexivity.
Qed.

Lemma LefRtRender_forallb_impl : forall {A} (p q : A -> bool) l,
  (forall x, p x = true -> q x = true) -> forallb p l = true -> forallb q l = true.
Proof.
  intros A p q l I. induction l as [|x l IH]; intros H; [reflexivity|].
  cbn [forallb] in *. apply andb_prop in H. destruct H as [H1 H2]. rewrite (I _ H1), (IH H2). reflexivity.
Qed.

Lemma LefRtRender_alnum_vis : forall b, LefRtRender_alnum b = true -> LefRtRender_vis b = true.
Proof.
  intros b H. unfold LefRtRender_alnum, LefRtRender_alpha, LefRtRender_is_upper, LefRtRender_is_lower, is_digit_b, LefRtRender_vis in *.
  LefRtRender_bd.
Qed.
Lemma LefRtRender_alpha_alnum : forall b, LefRtRender_alpha b = true -> LefRtRender_alnum b = true.
Proof. intros b H. unfold LefRtRender_alnum. rewrite H. reflexivity. Qed.
Lemma LefRtRender_num_char_vis : forall b, num_char b = true -> LefRtRender_vis b = true.
Proof. intros b H. unfold num_char, is_digit_b, LefRtRender_vis in *. LefRtRender_bd. Qed.

Lemma LefRtRender_alpha_alphabetic : forall b, LefRtRender_alpha b = true -> b < 128 /\ is_alphabetic b = true.
Proof.
  intros b H. unfold LefRtRender_alpha, LefRtRender_is_upper, LefRtRender_is_lower in H.
  assert (R : 65 <= b <= 90 \/ 97 <= b <= 122) by LefRtRender_bd.
  split; [lia|]. unfold is_alphabetic. replace (b <? 128) with true by (symmetry; apply Z.ltb_lt; lia).
  clear H. LefRtRender_bd.
Qed.

(** a name made of ASCII letters and digits that starts with a letter *)
Lemma LefRtRender_alnum_tok : forall b0 r, LefRtRender_alpha b0 = true -> forallb LefRtRender_alnum r = true ->
  tok_lex_ok (TName, b0 :: r).
Proof.
  intros b0 r A R.
  assert (V : forallb LefRtRender_vis (b0 :: r) = true).
  { cbn [forallb]. rewrite (LefRtRender_alnum_vis _ (LefRtRender_alpha_alnum _ A)).
    apply (LefRtRender_forallb_impl _ _ _ LefRtRender_alnum_vis R). }
  destruct (LefRtRender_alpha_alphabetic _ A) as [L AL].
  apply tlo_name; [apply LefRtRender_vis_U8; exact V | discriminate | apply LefRtRender_vis_no_space; exact V|].
  rewrite LefRtRender_cp_at_ascii by lia. exact AL.
Qed.

Lemma LefRtRender_alnum_name_ok : forall b0 r, LefRtRender_alpha b0 = true -> forallb LefRtRender_alnum r = true ->
  name_ok (b0 :: r) = true.
Proof.
  intros b0 r A R.
  assert (V : forallb LefRtRender_vis (b0 :: r) = true).
  { cbn [forallb]. rewrite (LefRtRender_alnum_vis _ (LefRtRender_alpha_alnum _ A)).
    apply (LefRtRender_forallb_impl _ _ _ LefRtRender_alnum_vis R). }
  destruct (LefRtRender_alpha_alphabetic _ A) as [L AL].
  cbv beta iota zeta delta [name_ok]. rewrite LefRtRender_cp_at_ascii by lia. rewrite AL.
  rewrite (U8_valid _ (LefRtRender_vis_U8 _ V)), (LefRtRender_vis_no_space _ V). reflexivity.
Qed.

(** * Keywords *)
Lemma LefRtRender_case_byte : forall (c : bool) b, LefRtRender_kwchar b = true ->
  LefRtRender_alnum (if c then lower_b b else b) = true /\ upper_b (if c then lower_b b else b) = b
  /\ (LefRtRender_is_upper b = true -> LefRtRender_alpha (if c then lower_b b else b) = true).
Proof.
  intros c b H.
  unfold LefRtRender_kwchar, LefRtRender_alnum, LefRtRender_alpha, LefRtRender_is_upper, LefRtRender_is_lower, is_digit_b, lower_b, upper_b in *.
  assert (R : 65 <= b <= 90 \/ 48 <= b <= 57) by LefRtRender_bd. clear H.
  destruct c; (split; [|split; [|intros H]]); LefRtRender_bd.
Qed.

Lemma LefRtRender_apply_case : forall s mask j, forallb LefRtRender_kwchar s = true ->
  forallb LefRtRender_alnum (apply_case mask j s) = true /\ upper_bytes (apply_case mask j s) = s.
Proof.
  induction s as [|b r IH]; intros mask j H; [split; reflexivity|].
  cbn [forallb] in H. apply andb_prop in H. destruct H as [Hb Hr].
  destruct (IH mask (S j) Hr) as [I1 I2].
  destruct (LefRtRender_case_byte (cyc false mask j) b Hb) as (C1 & C2 & _).
  cbn [apply_case forallb]. unfold upper_bytes in *. cbn [map]. rewrite C1, C2, I1, I2. split; reflexivity.
Qed.

Lemma LefRtRender_kw : forall k mask, kw_ok k = true ->
  tok_lex_ok (TName, apply_case mask 0 (bytes_of_string k))
  /\ upper_bytes (apply_case mask 0 (bytes_of_string k)) = bytes_of_string k.
Proof.
  intros k mask H. unfold kw_ok in H. destruct (bytes_of_string k) as [|b r]; [discriminate|].
  apply andb_prop in H. destruct H as [Hb Hr].
  assert (Hk : LefRtRender_kwchar b = true) by (unfold LefRtRender_kwchar; rewrite Hb; reflexivity).
  assert (Ha : forallb LefRtRender_kwchar (b :: r) = true) by (cbn [forallb]; rewrite Hk, Hr; reflexivity).
  destruct (LefRtRender_apply_case (b :: r) mask 0%nat Ha) as [A U]. split; [|exact U].
  cbn [apply_case] in *. cbn [forallb] in A. apply andb_prop in A. destruct A as [_ A].
  destruct (LefRtRender_case_byte (cyc false mask 0) b Hk) as (_ & _ & C3).
  apply LefRtRender_alnum_tok; [apply C3; exact Hb | exact A].
Qed.

(** * Names and verbatim tokens *)
Lemma LefRtRender_numstart_head : forall b0 r, U8 (b0 :: r) -> numstart (cp_at (b0 :: r)) = true ->
  cp_at (b0 :: r) = b0 /\ numstart b0 = true.
Proof.
  intros b0 r U H. destruct (Z_lt_ge_dec b0 128) as [L|G].
  - rewrite LefRtRender_cp_at_ascii in * by lia. split; [reflexivity | exact H].
  - pose proof (U8_multibyte_ge _ _ U ltac:(lia)) as G2.
    destruct (numstart_facts _ H) as (L & _). lia.
Qed.

(** a token that the lexer takes as a name or a number *)
Lemma LefRtRender_plain : forall b0 r, U8 (b0 :: r) -> no_space (b0 :: r) = true ->
  (is_alphabetic (cp_at (b0 :: r)) = true \/ numstart (cp_at (b0 :: r)) = true) ->
  tok_lex_ok (raw_ty (b0 :: r), b0 :: r)
  /\ raw_ty (b0 :: r) = (if numstart b0 && is_rust_float (b0 :: r) then TNumber else TName)
  /\ (is_alphabetic (cp_at (b0 :: r)) = true -> raw_ty (b0 :: r) = TName).
Proof.
  intros b0 r U NS [AL|ST].
  - destruct (alpha_not_special _ AL) as (_ & N59 & N34 & _ & ND).
    assert (E : (b0 =? 34) = false /\ (b0 =? 59) = false /\ numstart b0 = false).
    { destruct (Z_lt_ge_dec b0 128) as [L|G].
      - rewrite LefRtRender_cp_at_ascii in * by lia. auto.
      - unfold numstart, is_digit10. clear - G. split; [|split]; LefRtRender_bd. }
    destruct E as (E34 & E59 & ENS).
    assert (RT : raw_ty (b0 :: r) = TName).
    { unfold raw_ty. rewrite E34. cbn [bytes_eqb]. rewrite E59, ENS. reflexivity. }
    split; [|split; [|intros _; exact RT]].
    + rewrite RT. apply tlo_name; [exact U | discriminate | exact NS | exact AL].
    + rewrite RT, ENS. reflexivity.
  - destruct (LefRtRender_numstart_head _ _ U ST) as [E ST0].
    destruct (numstart_facts _ ST0) as (_ & _ & _ & N59 & N34 & _).
    assert (RT : raw_ty (b0 :: r) = if is_rust_float (b0 :: r) then TNumber else TName).
    { unfold raw_ty. rewrite N34. cbn [bytes_eqb]. rewrite N59, ST0. reflexivity. }
    split; [|split].
    + rewrite RT. apply tlo_numlike; assumption.
    + rewrite RT, ST0. reflexivity.
    + intros AL. rewrite E in AL. destruct (alpha_not_special _ AL) as (_ & _ & _ & _ & ND).
      unfold numstart in ST0. congruence.
Qed.

Lemma LefRtRender_name : forall n, name_ok n = true -> tok_lex_ok (TName, n).
Proof.
  intros [|b0 r] H; [discriminate|].
  cbv beta iota zeta delta [name_ok] in H.
  apply andb_prop in H. destruct H as [H NS]. apply andb_prop in H. destruct H as [H V].
  pose proof (valid_U8 _ V) as U.
  apply orb_prop in H. destruct H as [AL|H].
  - apply tlo_name; [exact U | discriminate | exact NS | exact AL].
  - apply andb_prop in H. destruct H as [ST F]. apply negb_true_iff in F.
    fold (numstart (cp_at (b0 :: r))) in ST.
    destruct (LefRtRender_numstart_head _ _ U ST) as [_ ST0].
    pose proof (tlo_numlike b0 r U NS ST0) as T. rewrite F in T. exact T.
Qed.

Lemma LefRtRender_rev_cons : forall (r m : bytes) x, rev r = x :: m -> r = rev m ++ [x].
Proof. intros r m x H. rewrite <- (rev_involutive r), H. reflexivity. Qed.

Lemma LefRtRender_quoted_inv : forall s, quoted_ok s = true ->
  exists body, s = 34 :: body ++ [34] /\ U8 body /\ ~ In 34 body.
Proof.
  intros [|b0 r] H; [discriminate|].
  destruct (Z.eq_dec b0 34) as [->|N].
  - cbv beta iota delta [quoted_ok] in H.
    destruct (rev r) as [|x m] eqn:E; [discriminate|].
    destruct (Z.eq_dec x 34) as [->|N].
    + apply andb_prop in H. destruct H as [H1 H2]. apply negb_true_iff in H1.
      exists (rev m). split; [rewrite (LefRtRender_rev_cons _ _ _ E); reflexivity|].
      split; [apply valid_U8; exact H2|].
      intros I. apply in_rev in I.
      assert (X : existsb (fun b => b =? 34) m = true) by (apply existsb_exists; exists 34; split; [exact I | reflexivity]).
      congruence.
    + exfalso. destruct x as [|p|p]; try discriminate.
      do 6 (destruct p as [p|p|]; try discriminate). apply N; reflexivity.
  - exfalso. unfold quoted_ok in H. destruct b0 as [|p|p]; try discriminate.
    do 6 (destruct p as [p|p|]; try discriminate). apply N; reflexivity.
Qed.

Lemma LefRtRender_quoted_intro : forall body, U8 body -> ~ In 34 body -> quoted_ok (34 :: body ++ [34]) = true.
Proof.
  intros body U N. cbv beta iota delta [quoted_ok]. rewrite rev_app_distr. cbn [rev app].
  rewrite rev_involutive, (U8_valid _ U).
  destruct (existsb (fun b => b =? 34) (rev body)) eqn:E; [|reflexivity].
  exfalso. apply existsb_exists in E. destruct E as (x & I & Ex). apply Z.eqb_eq in Ex. subst x.
  apply N. apply in_rev. exact I.
Qed.

Lemma LefRtRender_raw : forall b, stok_ok (SRaw b) = true -> tok_lex_ok (raw_ty b, b).
Proof.
  intros b H. cbn [stok_ok] in H. apply orb_prop in H. destruct H as [H|H]; [apply orb_prop in H; destruct H as [H|H]|].
  - destruct (LefRtRender_quoted_inv _ H) as (body & -> & U & N). apply tlo_string; assumption.
  - destruct b as [|b0 r]; [discriminate|]. cbv beta iota delta [plain_tok_ok] in H.
    apply andb_prop in H. destruct H as [H NS]. apply andb_prop in H. destruct H as [H V].
    apply (LefRtRender_plain b0 r (valid_U8 _ V) NS).
    unfold tok_start_ok, numstart in *. cbv zeta in H.
    destruct (is_alphabetic (cp_at (b0 :: r))); [left; reflexivity | right; exact H].
  - apply LefRtRender_bytes_eqb_eq in H. subst b. exact tlo_semi.
Qed.

Lemma LefRtRender_raw_arel : forall b, arel (SRaw b) (raw_ty b, b).
Proof.
  intros b. unfold arel. cbn [fst snd]. split; [reflexivity|].
  destruct b as [|b0 r]; [cbn [bytes_eqb raw_ty]; left; reflexivity|].
  destruct (Z.eq_dec b0 34) as [->|N]; [reflexivity|].
  assert (E : (b0 =? 34) = false) by (apply Z.eqb_neq; exact N).
  assert (G : if bytes_eqb (b0 :: r) [59] then raw_ty (b0 :: r) = TSemi
              else raw_ty (b0 :: r) = TName \/ raw_ty (b0 :: r) = TNumber).
  { unfold raw_ty. rewrite E. destruct (bytes_eqb (b0 :: r) [59]); [reflexivity|].
    destruct (numstart b0 && is_rust_float (b0 :: r)); [right | left]; reflexivity. }
  destruct b0 as [|p|p]; try exact G.
  do 6 (destruct p as [p|p|]; try exact G). exfalso; apply N; reflexivity.
Qed.

(** * One token *)
Lemma LefRtRender_tok_ok : forall sty kc nc t, stok_ok t = true ->
  tok_lex_ok (LefRtRender_ty t, fst (fst (render_tok sty kc nc t))).
Proof.
  intros sty kc nc t H. destruct t as [k|n|d|b|]; cbn [LefRtRender_ty render_tok fst stok_ok] in *.
  - apply LefRtRender_kw. exact H.
  - apply LefRtRender_name. exact H.
  - set (sp := cyc _ _ _). destruct (spell_chars sp d H) as [NE C].
    pose proof (spell_float sp d H) as F.
    destruct (spell sp d) as [|b0 r] eqn:E; [congruence|].
    assert (V : forallb LefRtRender_vis (b0 :: r) = true)
      by (apply (LefRtRender_forallb_impl _ _ _ LefRtRender_num_char_vis C)).
    assert (ST : numstart b0 = true) by (cbn [forallb] in C; apply andb_prop in C; destruct C as [C _]; exact C).
    pose proof (tlo_numlike b0 r (LefRtRender_vis_U8 _ V) (LefRtRender_vis_no_space _ V) ST) as T.
    rewrite F in T. exact T.
  - apply LefRtRender_raw. exact H.
  - exact tlo_semi.
Qed.

Lemma LefRtRender_tok_arel : forall sty kc nc t, stok_ok t = true ->
  arel t (LefRtRender_ty t, fst (fst (render_tok sty kc nc t))).
Proof.
  intros sty kc nc t H. destruct t as [k|n|d|b|]; cbn [LefRtRender_ty render_tok fst stok_ok] in *.
  - unfold arel. cbn [fst snd]. split; [reflexivity|]. apply LefRtRender_kw. exact H.
  - unfold arel. split; reflexivity.
  - unfold arel. cbn [fst snd]. split; [reflexivity|].
    destruct (spell_parses (cyc (mknumsp 0 false 0 false) (sty_nums sty) nc) d H) as (d' & P & Q & W & _).
    exists d'. auto.
  - apply LefRtRender_raw_arel.
  - reflexivity.
Qed.

(* ------------------------------------------------------------------------------------------ *)
(** * The items of a rendering *)
Lemma LefRtRender_cyc_ok : forall {A} (p : A -> bool) d l k,
  p d = true -> forallb p l = true -> p (cyc d l k) = true.
Proof.
  intros A p d l k Hd Hl. unfold cyc. destruct l as [|x l']; [exact Hd|].
  destruct (nth_in_or_default (Nat.modulo k (List.length (x :: l'))) (x :: l') d) as [I|E].
  - rewrite forallb_forall in Hl. apply Hl. exact I.
  - rewrite E. exact Hd.
Qed.

Lemma LefRtRender_sep_ok : forall s, sep_ok s = true ->
  (exists c r, s = SWs c :: r) /\ forallb sep_item_ok s = true.
Proof. intros [|[c|t] r] H; try discriminate. split; [eauto | exact H]. Qed.

Definition LefRtRender_follow (r : list item) : Prop :=
  match r with [] => True | ISep (SWs _ :: _) :: _ => True | _ => False end.

Lemma LefRtRender_from_ok : forall sty ts i kc nc tail,
  forallb sep_ok (sty_seps sty) = true -> forallb stok_ok ts = true ->
  items_ok tail -> LefRtRender_follow tail ->
  items_ok (render_items_from sty i kc nc ts ++ tail).
Proof.
  intros sty. induction ts as [|t r IH]; intros i kc nc tail Hs Ht Hok Hf; [exact Hok|].
  cbn [forallb] in Ht. apply andb_prop in Ht. destruct Ht as [Ht Hr].
  pose proof (LefRtRender_tok_ok sty kc nc t Ht) as T.
  cbn [render_items_from].
  destruct (render_tok sty kc nc t) as [[b kc'] nc'] eqn:E. cbn [fst] in T.
  specialize (IH (S i) kc' nc' tail Hs Hr Hok Hf).
  destruct r as [|t2 r2].
  - cbn [app items_ok]. split; [exact T|]. split; [exact Hf | exact Hok].
  - cbv beta iota.
    assert (S1 : sep_ok (cyc [SWs 32] (sty_seps sty) i) = true)
      by (apply LefRtRender_cyc_ok; [reflexivity | exact Hs]).
    destruct (LefRtRender_sep_ok _ S1) as [(c & s & Es) Fs].
    cbn [app items_ok]. rewrite Es in *. split; [exact T|]. split; [exact I|]. split; [exact Fs | exact IH].
Qed.

Lemma LefRtRender_trail_ok : forall sty, trail_ok sty = true ->
  items_ok (LefRtRender_trail sty) /\ LefRtRender_follow (LefRtRender_trail sty).
Proof.
  intros sty H. unfold trail_ok, LefRtRender_trail in *.
  destruct (sty_trail sty) as [|x s]; destruct (sty_trail_comment sty) as [t|]; cbv beta iota in H; try discriminate.
  - cbn [app items_ok LefRtRender_follow]. split; exact I.
  - apply andb_prop in H. destruct H as [H C]. cbn [optb] in C.
    destruct (LefRtRender_sep_ok _ H) as [(c & s' & Es) Fs]. rewrite Es in *.
    cbn [app items_ok LefRtRender_follow]. split; [|exact I]. split; [exact Fs|]. split; [exact C | reflexivity].
  - apply andb_prop in H. destruct H as [H _].
    destruct (LefRtRender_sep_ok _ H) as [(c & s' & Es) Fs]. rewrite Es in *.
    cbn [app items_ok LefRtRender_follow]. split; [|exact I]. split; [exact Fs | exact I].
Qed.

Theorem render_items_ok : forall sty l ts, style_okb sty l = true -> forallb stok_ok ts = true ->
  items_ok (render_items sty ts).
Proof.
  intros sty l ts H Ht. unfold style_okb in H.
  apply andb_prop in H. destruct H as [H _]. apply andb_prop in H. destruct H as [H Htr].
  apply andb_prop in H. destruct H as [Hl Hs].
  destruct (LefRtRender_trail_ok sty Htr) as [T1 T2].
  unfold render_items. cbn [items_ok]. split; [exact Hl|].
  apply LefRtRender_from_ok; assumption.
Qed.

Lemma LefRtRender_toks_of_app : forall a b, toks_of (a ++ b) = toks_of a ++ toks_of b.
Proof. induction a as [|[x|s|t] a IH]; intros b; cbn [app toks_of]; rewrite ?IH; reflexivity. Qed.

Lemma LefRtRender_trail_toks : forall sty, toks_of (LefRtRender_trail sty) = [].
Proof.
  intros sty. unfold LefRtRender_trail.
  destruct (sty_trail sty) as [|x s]; destruct (sty_trail_comment sty) as [t|]; reflexivity.
Qed.

Lemma LefRtRender_from_arel : forall sty ts i kc nc, forallb stok_ok ts = true ->
  Forall2 arel ts (toks_of (render_items_from sty i kc nc ts)).
Proof.
  intros sty. induction ts as [|t r IH]; intros i kc nc Ht; [constructor|].
  cbn [forallb] in Ht. apply andb_prop in Ht. destruct Ht as [Ht Hr].
  pose proof (LefRtRender_tok_arel sty kc nc t Ht) as T.
  cbn [render_items_from].
  destruct (render_tok sty kc nc t) as [[b kc'] nc'] eqn:E. cbn [fst] in T.
  specialize (IH (S i) kc' nc' Hr).
  destruct r as [|t2 r2].
  - cbn [toks_of]. constructor; [exact T | constructor].
  - cbv beta iota. cbn [toks_of]. constructor; [exact T | exact IH].
Qed.

Theorem render_items_arel : forall sty ts, forallb stok_ok ts = true ->
  Forall2 arel ts (toks_of (render_items sty ts)).
Proof.
  intros sty ts H. unfold render_items. cbn [toks_of].
  rewrite LefRtRender_toks_of_app, LefRtRender_trail_toks, app_nil_r.
  apply LefRtRender_from_arel. exact H.
Qed.

(* ------------------------------------------------------------------------------------------ *)
(** * Every token of a supported library is lexically well formed *)
Lemma LefRtRender_fb_cons : forall t r, stok_ok t = true -> forallb stok_ok r = true -> forallb stok_ok (t :: r) = true.
Proof. intros t r H1 H2. cbn [forallb]. rewrite H1, H2. reflexivity. Qed.
Lemma LefRtRender_fb_app : forall a b, forallb stok_ok a = true -> forallb stok_ok b = true -> forallb stok_ok (a ++ b) = true.
Proof. intros a b H1 H2. rewrite forallb_app, H1, H2. reflexivity. Qed.
Lemma LefRtRender_fb_flat_map : forall {A} (p : A -> bool) (f : A -> list stok) l,
  (forall x, p x = true -> forallb stok_ok (f x) = true) -> forallb p l = true -> forallb stok_ok (flat_map f l) = true.
Proof.
  intros A p f l I. induction l as [|x l IH]; intros H; [reflexivity|].
  cbn [forallb] in H. apply andb_prop in H. destruct H as [H1 H2].
  cbn [flat_map]. apply LefRtRender_fb_app; [apply I; exact H1 | apply IH; exact H2].
Qed.
Lemma LefRtRender_fb_map : forall {A} (p : A -> bool) (f : A -> stok) l,
  (forall x, p x = true -> stok_ok (f x) = true) -> forallb p l = true -> forallb stok_ok (map f l) = true.
Proof.
  intros A p f l I. induction l as [|x l IH]; intros H; [reflexivity|].
  cbn [forallb] in H. apply andb_prop in H. destruct H as [H1 H2].
  cbn [map]. apply LefRtRender_fb_cons; [apply I; exact H1 | apply IH; exact H2].
Qed.
Lemma LefRtRender_fb_concat : forall L, (forall x, In x L -> forallb stok_ok x = true) -> forallb stok_ok (concat L) = true.
Proof.
  induction L as [|x L IH]; intros H; [reflexivity|].
  cbn [concat]. apply LefRtRender_fb_app; [apply H; left; reflexivity | apply IH; intros y I; apply H; right; exact I].
Qed.

(** items of an interleaving *)
Definition LefRtRender_it (it : nat * list stok) : bool := forallb stok_ok (snd it).

Lemma LefRtRender_take_kind_in : forall {A} k (pool : list (nat * A)) x pool',
  take_kind k pool = Some (x, pool') -> In x (map snd pool) /\ (forall y, In y (map snd pool') -> In y (map snd pool)).
Proof.
  intros A k pool. induction pool as [|[k1 y] r IH]; intros x pool' H; cbn [take_kind] in H; [discriminate|].
  destruct (Nat.eqb k1 k).
  - inversion H; subst. cbn [map snd]. split; [left; reflexivity | intros z I; right; exact I].
  - destruct (take_kind k r) as [[z r']|]; [|discriminate]. inversion H; subst.
    destruct (IH _ _ eq_refl) as [I1 I2]. cbn [map snd]. split; [right; exact I1|].
    intros w [I|I]; [left; exact I | right; apply I2; exact I].
Qed.

Lemma LefRtRender_refill_in : forall {A} ks (pool : list (nat * A)) x, In x (refill ks pool) -> In x (map snd pool).
Proof.
  intros A ks. induction ks as [|k ks IH]; intros pool x H; cbn [refill] in H; [contradiction|].
  destruct (take_kind k pool) as [[z pool']|] eqn:T.
  - destruct (LefRtRender_take_kind_in _ _ _ _ T) as [I1 I2].
    destruct H as [<-|H]; [exact I1 | apply I2, IH; exact H].
  - apply IH; exact H.
Qed.

Lemma LefRtRender_interleave : forall keys off items,
  forallb LefRtRender_it items = true -> forallb stok_ok (concat (interleave keys off items)) = true.
Proof.
  intros keys off items H. apply LefRtRender_fb_concat. intros x I.
  unfold interleave in I. apply LefRtRender_refill_in in I. apply in_map_iff in I.
  destruct I as (it & <- & I). rewrite forallb_forall in H. apply (H it I).
Qed.

Lemma LefRtRender_fi_cons : forall k t r, forallb stok_ok t = true -> forallb LefRtRender_it r = true ->
  forallb LefRtRender_it ((k, t) :: r) = true.
Proof. intros k t r H1 H2. cbn [forallb]. unfold LefRtRender_it at 1. cbn [snd]. rewrite H1, H2. reflexivity. Qed.
Lemma LefRtRender_fi_app : forall a b, forallb LefRtRender_it a = true -> forallb LefRtRender_it b = true ->
  forallb LefRtRender_it (a ++ b) = true.
Proof. intros a b H1 H2. rewrite forallb_app, H1, H2. reflexivity. Qed.
Lemma LefRtRender_fi_opt : forall {A} k (o : option A) f,
  (forall x, o = Some x -> forallb stok_ok (f x) = true) -> forallb LefRtRender_it (opt_item k o f) = true.
Proof.
  intros A k [x|] f H; [|reflexivity]. unfold opt_item. apply LefRtRender_fi_cons; [apply H; reflexivity | reflexivity].
Qed.
Lemma LefRtRender_fi_flag : forall k (b : bool) t, forallb stok_ok t = true -> forallb LefRtRender_it (flag_item k b t) = true.
Proof. intros k [|] t H; [|reflexivity]. unfold flag_item. apply LefRtRender_fi_cons; [exact H | reflexivity]. Qed.
Lemma LefRtRender_fi_map : forall {A} (p : A -> bool) k (f : A -> list stok) l,
  (forall x, p x = true -> forallb stok_ok (f x) = true) -> forallb p l = true ->
  forallb LefRtRender_it (map (fun x => (k, f x)) l) = true.
Proof.
  intros A p k f l I. induction l as [|x l IH]; intros H; [reflexivity|].
  cbn [forallb] in H. apply andb_prop in H. destruct H as [H1 H2].
  cbn [map]. apply LefRtRender_fi_cons; [apply I; exact H1 | apply IH; exact H2].
Qed.

Ltac LefRtRender_hs :=
  repeat match goal with H : _ && _ = true |- _ => apply andb_prop in H; destruct H end.

Ltac LefRtRender_fb :=
  repeat match goal with
  | |- forallb stok_ok [] = true => reflexivity
  | |- forallb stok_ok (_ :: _) = true => apply LefRtRender_fb_cons
  | |- forallb stok_ok (_ ++ _) = true => apply LefRtRender_fb_app
  | |- stok_ok SSemi = true => reflexivity
  | |- stok_ok (K (?f ?v)) = true => first [reflexivity | destruct v; reflexivity]
  | |- stok_ok (SKw (?f ?v)) = true => first [reflexivity | destruct v; reflexivity]
  | |- stok_ok (SNum _) = true => cbn [stok_ok]
  | |- stok_ok (SName _) = true => cbn [stok_ok]
  | |- forallb LefRtRender_it [] = true => reflexivity
  | |- forallb LefRtRender_it (_ :: _) = true => apply LefRtRender_fi_cons
  | |- forallb LefRtRender_it (_ ++ _) = true => apply LefRtRender_fi_app
  | |- forallb LefRtRender_it (flag_item _ _ _) = true => apply LefRtRender_fi_flag
  | |- forallb stok_ok (concat (interleave _ _ _)) = true => apply LefRtRender_interleave
  end.

Lemma LefRtRender_point : forall p, point_ok p = true -> forallb stok_ok (t_point p) = true.
Proof. intros p H. unfold point_ok in H. LefRtRender_hs. unfold t_point. LefRtRender_fb; assumption. Qed.

Lemma LefRtRender_points : forall ps, forallb point_ok ps = true -> forallb stok_ok (t_points ps) = true.
Proof. intros ps H. unfold t_points. exact (LefRtRender_fb_flat_map _ _ _ LefRtRender_point H). Qed.

Lemma LefRtRender_mask : forall m, optb dec_ok m = true -> forallb stok_ok (t_mask m) = true.
Proof. intros [d|] H; [|reflexivity]. cbn [optb] in H. unfold t_mask. LefRtRender_fb; assumption. Qed.

Lemma LefRtRender_step : forall s, step_ok s = true -> forallb stok_ok (t_step s) = true.
Proof. intros s H. unfold step_ok in H. LefRtRender_hs. unfold t_step. LefRtRender_fb; assumption. Qed.

Lemma LefRtRender_shape_head : forall s it, shape_ok s = true -> forallb stok_ok (t_shape_head s it) = true.
Proof.
  intros s it H. assert (I : forallb stok_ok (if it then [K "ITERATE"] else []) = true) by (destruct it; reflexivity).
  destruct s as [m a b|m ps|m ps]; cbn [shape_ok] in H; LefRtRender_hs; unfold t_shape_head; LefRtRender_fb;
    first [exact I | apply LefRtRender_mask; assumption | apply LefRtRender_point; assumption
          | apply LefRtRender_points; assumption].
Qed.

Lemma LefRtRender_geometry : forall g, geometry_ok g = true -> forallb stok_ok (t_geometry g) = true.
Proof.
  intros [s|s p] H; cbn [geometry_ok] in H; LefRtRender_hs; unfold t_geometry; LefRtRender_fb;
    first [apply LefRtRender_shape_head; assumption | apply LefRtRender_step; assumption].
Qed.

Lemma LefRtRender_via_inst : forall v, name_ok (vi_via_name v) && point_ok (vi_pt v) = true ->
  forallb stok_ok (t_via_inst v) = true.
Proof.
  intros v H. LefRtRender_hs. unfold t_via_inst. LefRtRender_fb; first [assumption | apply LefRtRender_point; assumption].
Qed.

Lemma LefRtRender_layer_geoms : forall sty off l, layer_geoms_ok l = true ->
  forallb stok_ok (t_layer_geoms sty off l) = true.
Proof.
  intros sty off l H. unfold layer_geoms_ok in H. LefRtRender_hs. unfold t_layer_geoms.
  LefRtRender_fb; try assumption.
  - destruct (lg_except_pg_net l) as [[|]|]; reflexivity.
  - destruct (lg_spacing l) as [[d|d]|]; cbn [optb] in *; LefRtRender_fb; assumption.
  - destruct (lg_width l) as [w|]; cbn [optb] in *; LefRtRender_fb; assumption.
  - apply (LefRtRender_fi_map _ _ _ _ LefRtRender_geometry). assumption.
  - apply (LefRtRender_fi_map _ _ _ _ LefRtRender_via_inst). assumption.
Qed.

Lemma LefRtRender_layer_list : forall sty ls off, forallb layer_geoms_ok ls = true ->
  forallb stok_ok (t_layer_list sty off ls) = true.
Proof.
  intros sty. induction ls as [|l r IH]; intros off H; [reflexivity|].
  cbn [forallb] in H. LefRtRender_hs. cbn [t_layer_list].
  apply LefRtRender_fb_app; [apply LefRtRender_layer_geoms; assumption | apply IH; assumption].
Qed.

Lemma LefRtRender_port : forall sty off p, forallb layer_geoms_ok (po_layers p) = true ->
  forallb stok_ok (t_port sty off p) = true.
Proof.
  intros sty off p H. unfold t_port. LefRtRender_fb.
  - destruct (po_class p) as [c|]; LefRtRender_fb.
  - apply LefRtRender_layer_list. exact H.
Qed.

Lemma LefRtRender_port_items : forall sty ps off,
  forallb (fun po => forallb layer_geoms_ok (po_layers po)) ps = true ->
  forallb LefRtRender_it (port_items sty off ps) = true.
Proof.
  intros sty. induction ps as [|p r IH]; intros off H; [reflexivity|].
  cbn [forallb] in H. LefRtRender_hs. cbn [port_items].
  apply LefRtRender_fi_cons; [apply LefRtRender_port; assumption | apply IH; assumption].
Qed.

Lemma LefRtRender_prop_value : forall v, prop_value_ok v = true -> stok_ok (SRaw v) = true.
Proof. intros v H. unfold prop_value_ok in H. cbn [stok_ok]. rewrite H. reflexivity. Qed.
Lemma LefRtRender_quoted_raw : forall v, quoted_ok v = true -> stok_ok (SRaw v) = true.
Proof. intros v H. cbn [stok_ok]. rewrite H. reflexivity. Qed.

Lemma LefRtRender_property : forall p, property_ok p = true -> forallb stok_ok (t_property p) = true.
Proof.
  intros p H. unfold property_ok in H. LefRtRender_hs. unfold t_property.
  LefRtRender_fb; first [assumption | apply LefRtRender_prop_value; assumption].
Qed.

Lemma LefRtRender_property_items : forall sty k ps, forallb property_ok ps = true ->
  forallb LefRtRender_it (property_items sty k ps) = true.
Proof.
  intros sty k ps H. unfold property_items. destruct ps as [|p0 r]; [reflexivity|].
  destruct (sty_props_joined sty).
  - LefRtRender_fb. apply (LefRtRender_fb_flat_map property_ok); [|exact H].
    intros p Hp. unfold property_ok in Hp. LefRtRender_hs.
    LefRtRender_fb; first [assumption | apply LefRtRender_prop_value; assumption].
  - apply (LefRtRender_fi_map _ _ _ _ LefRtRender_property). exact H.
Qed.

Lemma LefRtRender_direction : forall d, forallb stok_ok (t_direction d) = true.
Proof. intros [| [|] | |]; reflexivity. Qed.

(** the antenna keys are names *)
Lemma LefRtRender_upper_alpha : forall b, LefRtRender_is_upper (upper_b b) = true -> LefRtRender_alpha b = true.
Proof.
  intros b H. unfold LefRtRender_alpha, LefRtRender_is_upper, LefRtRender_is_lower, upper_b in *.
  destruct ((97 <=? b) && (b <=? 122)) eqn:E.
  - rewrite orb_true_r. reflexivity.
  - rewrite H. reflexivity.
Qed.

Lemma LefRtRender_upper_name : forall k u, upper_bytes k = u -> u <> [] -> forallb LefRtRender_is_upper u = true ->
  name_ok k = true.
Proof.
  intros k u E N A. subst u.
  assert (F : forallb LefRtRender_alpha k = true).
  { clear N. induction k as [|b r IH]; [reflexivity|]. unfold upper_bytes in A. cbn [map forallb] in A.
    apply andb_prop in A. destruct A as [A1 A2]. cbn [forallb].
    rewrite (LefRtRender_upper_alpha _ A1), (IH A2). reflexivity. }
  destruct k as [|b0 r]; [exfalso; apply N; reflexivity|].
  cbn [forallb] in F. apply andb_prop in F. destruct F as [F1 F2].
  apply LefRtRender_alnum_name_ok; [exact F1 | apply (LefRtRender_forallb_impl _ _ _ LefRtRender_alpha_alnum F2)].
Qed.

Lemma LefRtRender_antenna_key : forall k, existsb (bytes_eqb (upper_bytes k)) antenna_keys = true -> name_ok k = true.
Proof.
  intros k H. apply existsb_exists in H. destruct H as (u & I & E). apply LefRtRender_bytes_eqb_eq in E.
  assert (G : forallb (fun u => negb (match u with [] => true | _ => false end) && forallb LefRtRender_is_upper u) antenna_keys = true)
    by (vm_compute; reflexivity).
  rewrite forallb_forall in G. specialize (G u I). apply andb_prop in G. destruct G as [G1 G2].
  apply (LefRtRender_upper_name k u E); [|exact G2]. intros ->. discriminate.
Qed.

Lemma LefRtRender_antenna : forall a, antenna_ok a = true -> forallb stok_ok (t_antenna a) = true.
Proof.
  intros a H. unfold antenna_ok in H. LefRtRender_hs. unfold t_antenna. LefRtRender_fb; try assumption.
  - apply LefRtRender_antenna_key. assumption.
  - destruct (aa_layer a) as [l|]; cbn [optb] in *; LefRtRender_fb. assumption.
Qed.

Lemma LefRtRender_pin : forall sty off p, pin_ok p = true -> forallb stok_ok (t_pin sty off p) = true.
Proof.
  intros sty off p H. unfold pin_ok in H. LefRtRender_hs. unfold t_pin.
  LefRtRender_fb; try assumption.
  - apply LefRtRender_fi_opt. intros x E. rewrite E in *. cbn [optb] in *. LefRtRender_fb. assumption.
  - apply LefRtRender_fi_opt. intros x E. apply LefRtRender_direction.
  - apply LefRtRender_fi_opt. intros x E. LefRtRender_fb.
  - apply LefRtRender_fi_opt. intros x E. rewrite E in *. cbn [optb] in *. LefRtRender_fb.
    apply LefRtRender_quoted_raw. assumption.
  - apply LefRtRender_fi_opt. intros x E. rewrite E in *. cbn [optb] in *. LefRtRender_fb. assumption.
  - apply LefRtRender_fi_opt. intros x E. rewrite E in *. cbn [optb] in *. LefRtRender_fb. assumption.
  - apply LefRtRender_fi_opt. intros x E. LefRtRender_fb.
  - apply LefRtRender_fi_opt. intros x E. rewrite E in *. cbn [optb] in *. LefRtRender_fb. assumption.
  - apply LefRtRender_port_items. assumption.
  - apply LefRtRender_property_items. assumption.
  - apply LefRtRender_fi_opt. intros x E. LefRtRender_fb.
  - apply (LefRtRender_fi_map _ _ _ _ LefRtRender_antenna). assumption.
Qed.

Lemma LefRtRender_pin_items : forall sty ps off, forallb pin_ok ps = true ->
  forallb LefRtRender_it (pin_items sty off ps) = true.
Proof.
  intros sty. induction ps as [|p r IH]; intros off H; [reflexivity|].
  cbn [forallb] in H. LefRtRender_hs. cbn [pin_items].
  apply LefRtRender_fi_cons; [apply LefRtRender_pin; assumption | apply IH; assumption].
Qed.

Lemma LefRtRender_macro_class : forall c, forallb stok_ok (t_macro_class c) = true.
Proof.
  intros [b| |t|t|t|t]; unfold t_macro_class; LefRtRender_fb.
  - destruct b; reflexivity.
  - destruct t as [x|]; LefRtRender_fb.
  - destruct t as [x|]; LefRtRender_fb.
  - destruct t as [x|]; LefRtRender_fb.
Qed.

Lemma LefRtRender_foreign : forall f,
  name_ok (fo_cell_name f) && optb point_ok (fo_pt f)
  && (match fo_pt f, fo_orient f with None, Some _ => false | _, _ => true end) = true ->
  forallb stok_ok (t_foreign f) = true.
Proof.
  intros f H. LefRtRender_hs. unfold t_foreign. LefRtRender_fb; try assumption.
  destruct (fo_pt f) as [p|]; cbn [optb] in *; LefRtRender_fb.
  - apply LefRtRender_point. assumption.
  - destruct (fo_orient f) as [o|]; LefRtRender_fb.
Qed.

Lemma LefRtRender_symmetry : forall s, forallb stok_ok (t_symmetry s) = true.
Proof.
  intros s. unfold t_symmetry. LefRtRender_fb.
  apply (LefRtRender_fb_map (fun _ => true)); [intros x _; LefRtRender_fb|].
  induction s; [reflexivity | assumption].
Qed.

Lemma LefRtRender_size : forall s, dec_ok (fst s) = true -> dec_ok (snd s) = true -> forallb stok_ok (t_size s) = true.
Proof. intros s H1 H2. unfold t_size. LefRtRender_fb; assumption. Qed.

Lemma LefRtRender_obs : forall sty off ls, forallb layer_geoms_ok ls = true -> forallb stok_ok (t_obs sty off ls) = true.
Proof. intros sty off ls H. unfold t_obs. LefRtRender_fb. apply LefRtRender_layer_list. exact H. Qed.

Lemma LefRtRender_density : forall d,
  forallb (fun g => name_ok (dg_layer_name g)
                    && forallb (fun r => point_ok (dr_pt1 r) && point_ok (dr_pt2 r) && dec_ok (dr_density_value r))
                               (dg_geometries g)) d = true ->
  forallb stok_ok (t_density d) = true.
Proof.
  intros d H. unfold t_density. LefRtRender_fb.
  eapply LefRtRender_fb_flat_map; [|exact H]. cbv beta. intros g Hg. LefRtRender_hs.
  LefRtRender_fb; try assumption.
  eapply LefRtRender_fb_flat_map; [|eassumption]. cbv beta. intros r Hr. LefRtRender_hs.
  LefRtRender_fb; first [assumption | apply LefRtRender_point; assumption].
Qed.

Lemma LefRtRender_macro : forall sty off old m, macro_ok old m = true -> forallb stok_ok (t_macro sty off m) = true.
Proof.
  intros sty off old m H. unfold macro_ok in H. LefRtRender_hs. unfold t_macro.
  LefRtRender_fb; try assumption.
  - apply LefRtRender_fi_opt. intros x E. apply LefRtRender_macro_class.
  - apply LefRtRender_fi_opt. intros x E. rewrite E in *. cbn [optb] in *. apply LefRtRender_foreign. assumption.
  - apply LefRtRender_fi_opt. intros x E. rewrite E in *. cbn [optb] in *. LefRtRender_fb. apply LefRtRender_point. assumption.
  - apply LefRtRender_fi_opt. intros x E. rewrite E in *. cbn [optb] in *. LefRtRender_fb. assumption.
  - apply LefRtRender_fi_opt. intros x E. rewrite E in *. cbn [optb] in *. LefRtRender_hs. apply LefRtRender_size; assumption.
  - apply LefRtRender_fi_opt. intros x E. apply LefRtRender_symmetry.
  - apply LefRtRender_fi_opt. intros x E. rewrite E in *. cbn [optb] in *. LefRtRender_fb. assumption.
  - apply LefRtRender_fi_opt. intros x E. LefRtRender_fb.
  - apply LefRtRender_pin_items. assumption.
  - destruct (mac_obs m) as [|o r] eqn:E; [reflexivity|]. LefRtRender_fb. apply LefRtRender_obs. assumption.
  - apply LefRtRender_fi_opt. intros x E. rewrite E in *. cbn [optb] in *. apply LefRtRender_density. assumption.
  - apply LefRtRender_property_items. assumption.
Qed.

Lemma LefRtRender_macro_items : forall sty old ms off, forallb (macro_ok old) ms = true ->
  forallb LefRtRender_it (macro_items sty off ms) = true.
Proof.
  intros sty old. induction ms as [|m r IH]; intros off H; [reflexivity|].
  cbn [forallb] in H. LefRtRender_hs. cbn [macro_items].
  apply LefRtRender_fi_cons; [apply (LefRtRender_macro sty off old); assumption | apply IH; assumption].
Qed.

Lemma LefRtRender_site : forall sty off s, site_ok s = true -> forallb stok_ok (t_site sty off s) = true.
Proof.
  intros sty off s H. unfold site_ok in H. LefRtRender_hs. unfold t_site. LefRtRender_fb; try assumption.
  - apply LefRtRender_fi_opt. intros x E. apply LefRtRender_symmetry.
  - apply LefRtRender_size; assumption.
Qed.

Lemma LefRtRender_site_items : forall sty ss off, forallb site_ok ss = true ->
  forallb LefRtRender_it (site_items sty off ss) = true.
Proof.
  intros sty. induction ss as [|s r IH]; intros off H; [reflexivity|].
  cbn [forallb] in H. LefRtRender_hs. cbn [site_items].
  apply LefRtRender_fi_cons; [apply LefRtRender_site; assumption | apply IH; assumption].
Qed.

Lemma LefRtRender_via_shape : forall s, via_shape_ok s = true -> forallb stok_ok (t_via_shape s) = true.
Proof.
  intros [m a b|m ps] H; cbn [via_shape_ok] in H; LefRtRender_hs; unfold t_via_shape; LefRtRender_fb;
    first [apply LefRtRender_mask; assumption | apply LefRtRender_point; assumption | apply LefRtRender_points; assumption].
Qed.

Lemma LefRtRender_via_def : forall sty off v, via_def_ok v = true -> forallb stok_ok (t_via_def sty off v) = true.
Proof.
  intros sty off v H. unfold via_def_ok in H. LefRtRender_hs. unfold t_via_def.
  LefRtRender_fb; try assumption.
  - destruct (vd_default v); reflexivity.
  - destruct (vd_data v) as [f|g].
    + LefRtRender_hs. LefRtRender_fb.
      * destruct (fv_resistance_ohms f) as [r|]; cbn [optb] in *; LefRtRender_fb. assumption.
      * eapply LefRtRender_fb_flat_map; [|eassumption]. cbv beta. intros l Hl. LefRtRender_hs.
        LefRtRender_fb; try assumption.
        eapply LefRtRender_fb_flat_map; [|eassumption]. exact LefRtRender_via_shape.
    + LefRtRender_hs. cbn [forallb] in *. LefRtRender_hs. LefRtRender_fb; try assumption.
      * apply LefRtRender_fi_opt. intros x E. rewrite E in *. cbn [optb] in *. LefRtRender_hs. LefRtRender_fb; assumption.
      * apply LefRtRender_fi_opt. intros x E. rewrite E in *. cbn [optb] in *. LefRtRender_fb. apply LefRtRender_point. assumption.
      * apply LefRtRender_fi_opt. intros x E. rewrite E in *.
        match goal with H : optb _ (Some _) = true |- _ => cbn [optb forallb] in H end.
        LefRtRender_hs. LefRtRender_fb; assumption.
Qed.

Lemma LefRtRender_via_items : forall sty vs off, forallb via_def_ok vs = true ->
  forallb LefRtRender_it (via_items sty off vs) = true.
Proof.
  intros sty. induction vs as [|v r IH]; intros off H; [reflexivity|].
  cbn [forallb] in H. LefRtRender_hs. cbn [via_items].
  apply LefRtRender_fi_cons; [apply LefRtRender_via_def; assumption | apply IH; assumption].
Qed.

Lemma LefRtRender_microns : forall v,
  existsb (Z.eqb v) [100; 200; 400; 800; 1000; 2000; 4000; 8000; 10000; 20000] = true -> dec_ok (dec_of_Z v) = true.
Proof.
  intros v H. apply existsb_exists in H. destruct H as (y & I & E). apply Z.eqb_eq in E. subst y.
  cbn [In] in I. repeat (destruct I as [<-|I]; [reflexivity|]). contradiction.
Qed.

Lemma LefRtRender_units : forall sty off u, units_ok u = true -> forallb stok_ok (t_units sty off u) = true.
Proof.
  intros sty off u H. unfold units_ok in H. LefRtRender_hs.
  match goal with H : forallb (optb dec_ok) _ = true |- _ => cbn [forallb] in H end. LefRtRender_hs.
  unfold t_units. cbv beta zeta. LefRtRender_fb.
  all: apply LefRtRender_fi_opt; intros x E; rewrite E in *; cbn [optb] in *; LefRtRender_fb; try assumption.
  apply LefRtRender_microns. assumption.
Qed.

Lemma LefRtRender_propdef : forall p, propdef_ok p = true -> forallb stok_ok (t_propdef p) = true.
Proof.
  intros [ot n v|ot n v r|ot n v r] H; cbn [propdef_ok] in H; LefRtRender_hs; unfold t_propdef; cbv beta zeta;
    LefRtRender_fb; try assumption.
  - destruct v as [s|]; cbn [optb] in *; LefRtRender_fb. apply LefRtRender_quoted_raw. assumption.
  - destruct r as [[a b]|]; cbn [optb fst snd] in *; LefRtRender_hs; LefRtRender_fb; assumption.
  - destruct v as [d|]; cbn [optb] in *; LefRtRender_fb. assumption.
  - destruct r as [[a b]|]; cbn [optb fst snd] in *; LefRtRender_hs; LefRtRender_fb; assumption.
  - destruct v as [d|]; cbn [optb] in *; LefRtRender_fb. assumption.
Qed.

Lemma LefRtRender_extension : forall e, extension_ok e = true -> forallb stok_ok (t_extension e) = true.
Proof.
  intros e H. unfold extension_ok in H. LefRtRender_hs. unfold t_extension. LefRtRender_fb.
  - apply LefRtRender_quoted_raw. assumption.
  - eapply LefRtRender_fb_map; [|eassumption]. intros x Hx. unfold ext_tok_ok in Hx. LefRtRender_hs.
    cbn [stok_ok]. destruct (bytes_eqb x [59]); destruct (quoted_ok x); destruct (plain_tok_ok x); try reflexivity; discriminate.
Qed.

(** BUSBITCHARS / DIVIDERCHAR literals *)
Lemma LefRtRender_utf8_no34 : forall c, 0 <= c -> c <> 34 -> ~ In 34 (spec_utf8 c).
Proof.
  intros c P N. unfold spec_utf8.
  destruct (Z.ltb_spec c 128); [|destruct (Z.ltb_spec c 2048); [|destruct (Z.ltb_spec c 65536)]];
    cbn [In]; intros I; repeat (destruct I as [I|I]); try contradiction; try (Z.div_mod_to_equations; lia).
Qed.

Lemma LefRtRender_chars_quoted : forall cs, forallb char_ok cs = true -> quoted_ok (quoted cs spec_utf8) = true.
Proof.
  intros cs H. unfold quoted. cbn [app]. apply LefRtRender_quoted_intro.
  - induction cs as [|c r IH]; [constructor|]. cbn [forallb] in H. apply andb_prop in H. destruct H as [H1 H2].
    cbn [flat_map]. apply U8_app; [|apply IH; exact H2].
    apply spec_utf8_U8. apply char_ok_scalar. exact H1.
  - intros I. apply in_flat_map in I. destruct I as (c & Ic & I34).
    rewrite forallb_forall in H. destruct (char_ok_scalar c (H c Ic)) as (_ & N & G).
    apply (LefRtRender_utf8_no34 c); [lia | exact N | exact I34].
Qed.

Theorem toks_of_lib_ok : forall sty l, lib_supportedb l = true -> forallb stok_ok (toks_of_lib sty spec_utf8 l) = true.
Proof.
  intros sty l H. unfold lib_supportedb in H. cbv zeta in H. LefRtRender_hs. unfold toks_of_lib.
  LefRtRender_fb.
  - destruct (lib_version l) as [v|]; [|reflexivity]. cbn [optb] in *.
    match goal with H : version_valid _ = true |- _ => unfold version_valid in H end. LefRtRender_hs.
    LefRtRender_fb. assumption.
  - apply LefRtRender_fi_opt. intros x E. LefRtRender_fb.
  - apply LefRtRender_fi_opt. intros x E. LefRtRender_fb.
  - apply LefRtRender_fi_opt. intros x E. rewrite E in *. cbn [optb] in *. LefRtRender_hs. LefRtRender_fb.
    apply LefRtRender_quoted_raw. apply LefRtRender_chars_quoted. cbn [forallb].
    repeat match goal with H : char_ok _ = true |- _ => rewrite H; clear H end. reflexivity.
  - apply LefRtRender_fi_opt. intros x E. rewrite E in *. cbn [optb] in *. LefRtRender_fb.
    apply LefRtRender_quoted_raw. apply LefRtRender_chars_quoted. cbn [forallb].
    repeat match goal with H : char_ok _ = true |- _ => rewrite H; clear H end. reflexivity.
  - apply LefRtRender_fi_opt. intros x E. rewrite E in *. cbn [optb] in *. apply LefRtRender_units. assumption.
  - apply LefRtRender_fi_opt. intros x E. rewrite E in *. cbn [optb] in *. LefRtRender_fb. assumption.
  - apply LefRtRender_fi_opt. intros x E. LefRtRender_fb.
  - apply LefRtRender_fi_opt. intros x E. LefRtRender_fb.
  - destruct (lib_property_definitions l) as [|pd r] eqn:E; [reflexivity|]. LefRtRender_fb.
    eapply LefRtRender_fb_flat_map; [|eassumption]. exact LefRtRender_propdef.
  - apply LefRtRender_via_items. assumption.
  - apply LefRtRender_site_items. assumption.
  - eapply LefRtRender_macro_items. eassumption.
  - eapply LefRtRender_fi_map; [|eassumption]. exact LefRtRender_extension.
  - destruct (sty_end_lib sty); reflexivity.
Qed.

(** the pieces fit: the lexer on the rendering of a supported library returns lexical forms of its tokens *)
Corollary LefRtRender_lex : forall sty l, style_okb sty l = true -> lib_supportedb l = true ->
  exists tis p line ls atoks,
    lex false (render sty l) = (tis, LEof p line ls)
    /\ Forall2 (sees_tok (render sty l)) tis atoks
    /\ Forall2 arel (toks_of_lib sty spec_utf8 l) atoks.
Proof.
  intros sty l Hs Hl. pose proof (toks_of_lib_ok sty l Hl) as T.
  unfold render. rewrite render_toks_items.
  destruct (lex_items _ (render_items_ok sty l _ Hs T)) as (tis & p & line & ls & E & F).
  exists tis, p, line, ls, (toks_of (render_items sty (toks_of_lib sty spec_utf8 l))).
  split; [exact E|]. split; [exact F | apply render_items_arel; exact T].
Qed.

Print Assumptions render_toks_items.
Print Assumptions render_items_ok.
Print Assumptions render_items_arel.
Print Assumptions toks_of_lib_ok.
Print Assumptions LefRtRender_lex.
