(** C05, writer side: geometries, LAYER blocks, PROPERTY statements, PORT and PIN blocks as printed by the model of
    lef21's writer (LefWrite.v, [cfg_fixed]): the token list [w_X x] in the writer's order, the layout lemma
    [lays_X], lexical well-formedness [wok_X], and [toksP_X_w]: any abstract-token reading of [w_X x] satisfies the
    reader-side predicate [X_toksP x]. *)
From Coq Require Import String.
From Coq Require Import ZArith List Bool Lia.
From L21 Require Import Lef.LefDec Lef.LefData Lef.LefLex Lef.LefParse Lef.LefWrite Lef.LefSpec Lef.LefCheck
                        Lef.LefLex_proofs Lef.LefRtLex_proofs Lef.LefRtFrame_proofs Lef.LefRtPerm_proofs
                        Lef.LefRtConstr_proofs Lef.LefRtPin_proofs Lef.LefRtRender_proofs Lef.LefWFrame_proofs.
Import ListNotations.
Local Open Scope list_scope.
Local Open Scope Z_scope.

Notation cf := cfg_fixed.

(** * 0. Layout helpers *)
(** a "word": a byte string that, followed by a non-empty blank, lays out the tokens [ts] *)
Definition wordy (w : bytes) (ts : list stok) : Prop := forall s, blank s -> s <> [] -> lays (w ++ s) ts.

Lemma wordy_tok : forall t, wordy (wtok_text t) [t].
Proof. intros t s B N. apply lays_tok; assumption. Qed.

Lemma sp_ne : [32] <> ([] : bytes). Proof. discriminate. Qed.
Lemma nl_ne : [10] <> ([] : bytes). Proof. discriminate. Qed.

Lemma wordy_pt : forall p, wordy (pt_str p) (t_point p).
Proof.
  intros p s B N. unfold pt_str, cat, t_point. cbn [concat]. rewrite app_nil_r. unfold dstr, sp.
  repeat rewrite <- app_assoc.
  change [SNum (pt_x p); SNum (pt_y p)] with ([SNum (pt_x p)] ++ [SNum (pt_y p)]).
  rewrite (app_assoc (dec_to_bytes (pt_x p))).
  apply lays_app.
  - exact (lays_tok (SNum (pt_x p)) [32] blank_sp sp_ne).
  - exact (lays_tok (SNum (pt_y p)) s B N).
Qed.

Lemma lays_join : forall ws tl, Forall2 wordy ws tl -> forall s, blank s -> s <> [] -> lays (join sp ws ++ s) (concat tl).
Proof.
  induction 1 as [|w t ws tl W F IH]; intros s B N.
  - cbn [join concat app]. apply lays_blank. exact B.
  - destruct ws as [|w' ws'].
    + inversion F; subst. cbn [join concat]. rewrite app_nil_r. apply W; assumption.
    + change (join sp (w :: w' :: ws')) with (w ++ sp ++ join sp (w' :: ws')).
      cbn [concat]. repeat rewrite <- app_assoc. rewrite (app_assoc w sp).
      apply lays_app; [apply W; [apply blank_sp | exact sp_ne] | apply IH; assumption].
Qed.

Definition sing (ts : list stok) : list (list stok) := map (fun t => [t]) ts.
Lemma concat_sing : forall ts, concat (sing ts) = ts.
Proof. induction ts as [|t ts IH]; [reflexivity|]. cbn [sing map concat app]. unfold sing in IH. rewrite IH. reflexivity. Qed.

Lemma lays_render_flat_map {X} (f : X -> list line) (g : X -> list stok) : forall l,
  (forall x, lays (render_lines (f x)) (g x)) -> lays (render_lines (flat_map f l)) (flat_map g l).
Proof.
  intros l H. induction l as [|x l IH]; cbn [flat_map]; [rewrite render_lines_nil; apply lays_nil|].
  rewrite render_lines_app. apply lays_app; [apply H | exact IH].
Qed.
Lemma lays_render_map {X} (f : X -> line) (g : X -> list stok) : forall l,
  (forall x, lays (render_lines [f x]) (g x)) -> lays (render_lines (map f l)) (flat_map g l).
Proof.
  intros l H. induction l as [|x l IH]; cbn [map flat_map]; [rewrite render_lines_nil; apply lays_nil|].
  change (f x :: map f l) with ([f x] ++ map f l).
  rewrite render_lines_app. apply lays_app; [apply H | exact IH].
Qed.
(** a line whose text ends with a token: the newline is its blank *)
Lemma lays_line_nl : forall i text ts, lays (text ++ [10]) ts -> lays (render_lines [(i, text)]) ts.
Proof. intros. rewrite render_lines_one. apply lays_blank_l; [apply blank_indent | assumption]. Qed.
Lemma lays_line1 : forall i text ts, lays text ts -> lays (render_lines [(i, text)]) ts.
Proof. intros. rewrite render_lines_one. apply lays_line. assumption. Qed.

Lemma flat_map_map {A B C} (f : A -> B) (g : B -> list C) : forall l, flat_map g (map f l) = flat_map (fun x => g (f x)) l.
Proof. induction l as [|x l IH]; [reflexivity|]. cbn [map flat_map]. rewrite IH. reflexivity. Qed.

(** * 1. Geometries *)
Definition w_geom (g : lef_geometry) : list stok := t_geometry g.

Definition geom_words_toks (shape : lef_shape) (pat : option lef_step) : list (list stok) :=
  let it := match pat with Some _ => [K "ITERATE"] | None => [] end in
  (match shape with
   | ShRect m a b => sing [K "RECT"] ++ sing (t_mask m) ++ sing it ++ [t_point a; t_point b]
   | ShPolygon m ps => sing [K "POLYGON"] ++ sing (t_mask m) ++ sing it ++ map t_point ps
   | ShPath m ps => sing [K "PATH"] ++ sing (t_mask m) ++ sing it ++ map t_point ps
   end) ++ sing (match pat with Some p => t_step p | None => [] end).

Lemma wordy_mask : forall m, Forall2 wordy (format_mask m) (sing (t_mask m)).
Proof.
  intros [d|]; cbn [format_mask t_mask sing map]; [|constructor].
  constructor; [exact (wordy_tok (K "MASK"))|]. constructor; [exact (wordy_tok (SNum d)) | constructor].
Qed.
Lemma wordy_pts : forall ps, Forall2 wordy (map pt_str ps) (map t_point ps).
Proof. induction ps as [|p ps IH]; cbn [map]; constructor; [apply wordy_pt | exact IH]. Qed.

Lemma wordy_format_geom : forall shape pat, Forall2 wordy (format_geom shape pat) (geom_words_toks shape pat).
Proof.
  intros shape pat. unfold format_geom, geom_words_toks. cbv zeta.
  assert (IT : Forall2 wordy (match pat with Some _ => [kw K_Iterate] | None => [] end)
                             (sing (match pat with Some _ => [K "ITERATE"] | None => [] end))).
  { destruct pat; cbn [sing map]; [|constructor]. constructor; [exact (wordy_tok (K "ITERATE")) | constructor]. }
  apply Forall2_app.
  - destruct shape as [m a b|m ps|m ps]; (apply Forall2_app; [|apply Forall2_app; [apply wordy_mask | apply Forall2_app; [exact IT|]]]).
    + cbn [sing map]. constructor; [exact (wordy_tok (K "RECT")) | constructor].
    + constructor; [apply wordy_pt|]. constructor; [apply wordy_pt | constructor].
    + cbn [sing map]. constructor; [exact (wordy_tok (K "POLYGON")) | constructor].
    + apply wordy_pts.
    + cbn [sing map]. constructor; [exact (wordy_tok (K "PATH")) | constructor].
    + apply wordy_pts.
  - destruct pat as [p|]; cbn [sing map t_step]; [|constructor].
    constructor; [exact (wordy_tok (K "DO"))|]. constructor; [exact (wordy_tok (SNum (st_numx p)))|].
    constructor; [exact (wordy_tok (K "BY"))|]. constructor; [exact (wordy_tok (SNum (st_numy p)))|].
    constructor; [exact (wordy_tok (K "STEP"))|]. constructor; [exact (wordy_tok (SNum (st_spacex p)))|].
    constructor; [exact (wordy_tok (SNum (st_spacey p))) | constructor].
Qed.

Lemma concat_map_t_point : forall ps, concat (map t_point ps) = t_points ps.
Proof. intros. unfold t_points. symmetry. apply flat_map_concat_map. Qed.

Lemma concat_geom_words : forall shape pat,
  concat (geom_words_toks shape pat) ++ [SSemi]
  = t_geometry (match pat with Some p => GIterate shape p | None => GShape shape end).
Proof.
  intros shape pat. unfold geom_words_toks. cbv zeta. rewrite concat_app.
  destruct shape as [m a b|m ps|m ps]; repeat rewrite concat_app; repeat rewrite concat_sing; try rewrite concat_map_t_point;
    destruct pat as [p|]; cbn [t_geometry t_shape_head concat]; repeat rewrite app_nil_r; repeat rewrite <- app_assoc; reflexivity.
Qed.

Lemma lays_geom : forall i g, lays (render_lines (write_geom i g)) (w_geom g).
Proof.
  intros i g. unfold write_geom, w_geom. apply lays_line_nl.
  change (bs " ;") with ([32] ++ [59]).
  set (shape := match g with GIterate s _ | GShape s => s end).
  set (pat := match g with GIterate _ p => Some p | GShape _ => None end).
  replace (match g with GIterate s p => format_geom s (Some p) | GShape s => format_geom s None end)
    with (format_geom shape pat) by (destruct g; reflexivity).
  replace (t_geometry g) with (concat (geom_words_toks shape pat) ++ [SSemi])
    by (rewrite concat_geom_words; destruct g; reflexivity).
  repeat rewrite <- app_assoc. rewrite app_assoc.
  apply lays_app.
  - apply lays_join; [apply wordy_format_geom | apply blank_sp | exact sp_ne].
  - exact (lays_tok SSemi [10] blank_nl nl_ne).
Qed.

Lemma wok_point : forall p, point_wr p -> Forall wtok_ok (t_point p).
Proof. intros p [X Y]. unfold t_point. constructor; [exact X|]. constructor; [exact Y | constructor]. Qed.
Lemma wok_points : forall ps, Forall point_wr ps -> Forall wtok_ok (t_points ps).
Proof.
  induction 1 as [|p ps Hp _ IH]; [constructor|]. unfold t_points. cbn [flat_map]. apply Forall_app. split; [apply wok_point; exact Hp | exact IH].
Qed.
Lemma wok_mask : forall m, optP dec_wf m -> Forall wtok_ok (t_mask m).
Proof. intros [d|] H; cbn [t_mask optP] in *; [|constructor]. constructor; [reflexivity|]. constructor; [exact H | constructor]. Qed.
Lemma wok_shape_head : forall s it, shape_wr s -> Forall wtok_ok (t_shape_head s it).
Proof.
  intros s it H.
  assert (IT : Forall wtok_ok (if it then [K "ITERATE"] else [])) by (destruct it; [constructor; [reflexivity | constructor] | constructor]).
  destruct s as [m a b|m ps|m ps]; cbn [t_shape_head shape_wr] in *; destruct H as (Hm & H1 & H2);
    repeat (apply Forall_app; split); try exact IT; try (apply wok_mask; exact Hm);
    try (constructor; [reflexivity | constructor]); try (apply wok_point; assumption); apply wok_points; assumption.
Qed.
Lemma wok_geom : forall g, geometry_wr g -> Forall wtok_ok (w_geom g).
Proof.
  intros [s|s p] H; unfold w_geom; cbn [t_geometry geometry_wr] in *.
  - apply Forall_app. split; [apply wok_shape_head; exact H | constructor; [exact I | constructor]].
  - destruct H as [Hs (X1 & X2 & X3 & X4)]. apply Forall_app. split; [apply wok_shape_head; exact Hs|].
    apply Forall_app. split; [|constructor; [exact I | constructor]].
    unfold t_step. repeat (constructor; [first [reflexivity | assumption]|]). constructor.
Qed.
Lemma geom_wr_len : forall g, geometry_wr g -> geom_len_ok g = true.
Proof.
  assert (S : forall s, shape_wr s -> shape_len_ok s = true).
  { intros [m a b|m ps|m ps] H; cbn [shape_wr shape_len_ok] in *; [reflexivity| |]; destruct H as (_ & _ & L); apply Nat.leb_le; exact L. }
  intros [s|s p] H; cbn [geometry_wr geom_len_ok] in *; [apply S; exact H | apply S; exact (proj1 H)].
Qed.

(** * 2. LAYER blocks *)
Definition w_layer (l : lef_layer_geoms) : list stok := layer_hdr_toks l ++ flat_map ls_toks (layer_canon l).

Lemma w_layer_head : forall l, exists r, w_layer l = K "LAYER" :: r.
Proof. intros l. eexists. unfold w_layer, layer_hdr_toks. cbn [app]. reflexivity. Qed.

Lemma lays_layer_hdr : forall i l,
  lays (render_lines [(i, cat [kw K_Layer; sp; lg_layer_name l; sp;
                               match lg_except_pg_net l with Some true => kw K_ExceptPgNet ++ sp | _ => [] end;
                               match lg_spacing l with
                               | Some (LsDesignRuleWidth s) => cat [kw K_DesignRuleWidth; sp; dstr s; sp]
                               | Some (LsSpacing s) => cat [kw K_Spacing; sp; dstr s; sp]
                               | None => []
                               end; bs ";"])])
       (layer_hdr_toks l).
Proof.
  intros i l. apply lays_line_nl. unfold cat, layer_hdr_toks. cbn [concat]. rewrite app_nil_r.
  repeat rewrite <- app_assoc. unfold sp, dstr.
  change ([K "LAYER"; SName (lg_layer_name l)] ++ lopts_toks (layer_epg l) (lg_spacing l) ++ [SSemi])
    with ([K "LAYER"] ++ [SName (lg_layer_name l)] ++ lopts_toks (layer_epg l) (lg_spacing l) ++ [SSemi]).
  rewrite (app_assoc (kw K_Layer)). apply lays_app; [exact (lays_tok (K "LAYER") [32] blank_sp sp_ne)|].
  rewrite (app_assoc (lg_layer_name l)). apply lays_app; [exact (lays_tok (SName (lg_layer_name l)) [32] blank_sp sp_ne)|].
  unfold lopts_toks, layer_epg. repeat rewrite <- app_assoc.
  apply lays_app.
  - destruct (lg_except_pg_net l) as [[|]|]; try apply lays_nil. exact (lays_tok (K "EXCEPTPGNET") [32] blank_sp sp_ne).
  - apply lays_app; [|exact (lays_tok SSemi [10] blank_nl nl_ne)].
    destruct (lg_spacing l) as [[d|d]|]; try apply lays_nil.
    + rewrite (app_assoc (kw K_Spacing)). change [K "SPACING"; SNum d] with ([K "SPACING"] ++ [SNum d]).
      apply lays_app; [exact (lays_tok (K "SPACING") [32] blank_sp sp_ne) | exact (lays_tok (SNum d) [32] blank_sp sp_ne)].
    + rewrite (app_assoc (kw K_DesignRuleWidth)). change [K "DESIGNRULEWIDTH"; SNum d] with ([K "DESIGNRULEWIDTH"] ++ [SNum d]).
      apply lays_app; [exact (lays_tok (K "DESIGNRULEWIDTH") [32] blank_sp sp_ne) | exact (lays_tok (SNum d) [32] blank_sp sp_ne)].
Qed.

Lemma lays_via_inst : forall i v,
  lays (render_lines [(i, cat [kw K_Via; sp; pt_str (vi_pt v); sp; vi_via_name v; bs " ;"])]) (t_via_inst v).
Proof.
  intros i v. apply lays_line_nl. unfold cat, t_via_inst. cbn [concat]. rewrite app_nil_r.
  change (bs " ;") with ([32] ++ [59]). unfold sp. repeat rewrite <- app_assoc.
  rewrite (app_assoc (kw K_Via)). apply lays_app; [exact (lays_tok (K "VIA") [32] blank_sp sp_ne)|].
  rewrite (app_assoc (pt_str (vi_pt v))). apply lays_app; [exact (wordy_pt (vi_pt v) [32] blank_sp sp_ne)|].
  change [SName (vi_via_name v); SSemi] with ([SName (vi_via_name v)] ++ [SSemi]).
  rewrite (app_assoc (vi_via_name v)).
  apply lays_app; [exact (lays_tok (SName (vi_via_name v)) [32] blank_sp sp_ne) | exact (lays_tok SSemi [10] blank_nl nl_ne)].
Qed.

Lemma lays_width : forall i w,
  lays (render_lines [(i, cat [kw K_Width; sp; dstr w; bs " ; "])]) [K "WIDTH"; SNum w; SSemi].
Proof.
  intros i w. apply lays_line1. unfold cat. cbn [concat]. rewrite app_nil_r.
  change (bs " ; ") with ([32] ++ [59] ++ [32]). unfold sp, dstr. repeat rewrite <- app_assoc.
  change [K "WIDTH"; SNum w; SSemi] with ([K "WIDTH"] ++ [SNum w] ++ [SSemi]).
  rewrite (app_assoc (kw K_Width)). apply lays_app; [exact (lays_tok (K "WIDTH") [32] blank_sp sp_ne)|].
  rewrite (app_assoc (dec_to_bytes w)). apply lays_app; [exact (lays_tok (SNum w) [32] blank_sp sp_ne)|].
  exact (lays_tok SSemi [32] blank_sp sp_ne).
Qed.

Lemma lays_layer : forall i l, lays (render_lines (write_layer_geom i l)) (w_layer l).
Proof.
  intros i l. unfold write_layer_geom, w_layer, layer_canon. cbv zeta.
  repeat rewrite render_lines_app. repeat rewrite flat_map_app.
  apply lays_app; [apply lays_layer_hdr|].
  apply lays_app; [destruct (lg_width l) as [w|]; cbn [flat_map ls_toks app]; [apply lays_width | exact lays_nil]|].
  apply lays_app.
  - rewrite flat_map_map. cbn [ls_toks]. apply lays_render_flat_map. intros g. apply lays_geom.
  - rewrite flat_map_map. cbn [ls_toks]. apply lays_render_map. intros v. apply lays_via_inst.
Qed.

Lemma wok_layer : forall l, layer_wr l -> Forall wtok_ok (w_layer l).
Proof.
  intros l (Hn & Hg & Hv & He & Hs & Hw). unfold w_layer, layer_hdr_toks, lopts_toks, layer_canon.
  repeat rewrite flat_map_app. repeat (apply Forall_app; split).
  - constructor; [reflexivity|]. constructor; [exact Hn | constructor].
  - destruct (layer_epg l); [constructor; [reflexivity | constructor] | constructor].
  - destruct (lg_spacing l) as [[d|d]|]; cbn [optP spacing_wr] in Hs; try constructor; try reflexivity;
      (constructor; [exact Hs | constructor]).
  - constructor; [exact I | constructor].
  - destruct (lg_width l) as [w|]; cbn [optP flat_map ls_toks app] in *; [|constructor].
    constructor; [reflexivity|]. constructor; [exact Hw|]. constructor; [exact I | constructor].
  - rewrite flat_map_map. cbn [ls_toks]. clear - Hg. induction Hg as [|g gs G _ IH]; [constructor|]. cbn [flat_map].
    apply Forall_app. split; [apply (wok_geom g G) | exact IH].
  - rewrite flat_map_map. cbn [ls_toks]. clear - Hv. induction Hv as [|v vs V _ IH]; [constructor|]. cbn [flat_map].
    apply Forall_app. split; [|exact IH]. destruct V as [V1 V2]. unfold t_via_inst.
    apply Forall_app. split; [constructor; [reflexivity | constructor]|].
    apply Forall_app. split; [apply wok_point; exact V2|]. constructor; [exact V1|]. constructor; [exact I | constructor].
Qed.

Lemma layer_wr_struct : forall l, layer_wr l -> layer_struct_ok l = true.
Proof.
  intros l (Hn & Hg & Hv & He & Hs & Hw). unfold layer_struct_ok. apply andb_true_intro. split.
  - apply forallb_forall. intros g Ig. rewrite Forall_forall in Hg. apply geom_wr_len. apply Hg. exact Ig.
  - destruct (lg_except_pg_net l) as [[|]|]; try reflexivity. congruence.
Qed.

Lemma toksP_layer_w : forall l atoks, layer_wr l -> Forall2 arel (w_layer l) atoks -> layer_toksP l atoks.
Proof.
  intros l atoks W F. split; [apply layer_wr_struct; exact W|].
  exists (layer_canon l). split; [intros k; reflexivity | exact F].
Qed.

(** * 3. PROPERTY statements: one statement per property *)
Definition w_props (ps : list lef_property) : list stok := flat_map (fun p => prop_toks [p]) ps.

Lemma lays_property : forall i p, lays (render_lines (write_property cf i p)) (prop_toks [p]).
Proof.
  intros i p. unfold write_property. cbn [c_w_prop_nosemi cfg_fixed]. apply lays_line_nl.
  unfold cat, prop_toks. cbn [concat flat_map app]. rewrite app_nil_r.
  change (bs " ;") with ([32] ++ [59]). unfold sp. repeat rewrite <- app_assoc.
  change [K "PROPERTY"; SName (pr_name p); SRaw (pr_value p); SSemi]
    with ([K "PROPERTY"] ++ [SName (pr_name p)] ++ [SRaw (pr_value p)] ++ [SSemi]).
  rewrite (app_assoc (kw K_Property)). apply lays_app; [exact (lays_tok (K "PROPERTY") [32] blank_sp sp_ne)|].
  rewrite (app_assoc (pr_name p)). apply lays_app; [exact (lays_tok (SName (pr_name p)) [32] blank_sp sp_ne)|].
  rewrite (app_assoc (pr_value p)). apply lays_app; [exact (lays_tok (SRaw (pr_value p)) [32] blank_sp sp_ne)|].
  exact (lays_tok SSemi [10] blank_nl nl_ne).
Qed.
Lemma lays_props : forall i ps, lays (render_lines (flat_map (write_property cf i) ps)) (w_props ps).
Proof. intros i ps. unfold w_props. apply lays_render_flat_map. intros p. apply lays_property. Qed.

Lemma wok_property : forall p, property_wr p -> Forall wtok_ok (prop_toks [p]).
Proof.
  intros p [Hn (ty & Hv & _)]. unfold prop_toks. cbn [flat_map app].
  constructor; [reflexivity|]. constructor; [exact Hn|]. constructor; [exists ty; exact Hv|]. constructor; [exact I | constructor].
Qed.
Lemma wok_props : forall ps, Forall property_wr ps -> Forall wtok_ok (w_props ps).
Proof.
  induction 1 as [|p ps Hp _ IH]; [constructor|]. unfold w_props. cbn [flat_map].
  apply Forall_app. split; [apply wok_property; exact Hp | exact IH].
Qed.
Lemma property_wr_val : forall p, property_wr p -> prop_val_ok p.
Proof.
  intros p [_ (ty & Hv & Ty)]. unfold prop_val_ok.
  destruct (bytes_eqb (pr_value p) [59]) eqn:E; [|reflexivity].
  apply LefRtPin_bytes_eqb_eq in E. rewrite E in Hv. apply tok_lex_ok_raw_ty in Hv. cbn in Hv. subst ty.
  destruct Ty as [T|[T|T]]; discriminate.
Qed.

(** * 4. PORT *)
Definition w_port (p : lef_port) : list stok :=
  [K "PORT"] ++ port_class_toks (po_class p) ++ flat_map w_layer (po_layers p) ++ [K "END"].

Lemma s_port_class_str : forall v, enum_s LefPortClass_to_str v = wtok_text (K (s_port_class v)).
Proof. destruct v; reflexivity. Qed.

Lemma lays_kw_line : forall i k s, kw k = wtok_text (K s) -> lays (render_lines [(i, kw k ++ sp)]) [K s].
Proof. intros i k s E. apply lays_line_nl. rewrite E. rewrite <- app_assoc. apply lays_tok; [apply blank_app; [apply blank_sp | apply blank_nl] | discriminate]. Qed.

(** `KEY value ; ` with a one-token value *)
Lemma lays_kv_line : forall i k s (v : bytes) t, kw k = wtok_text (K s) -> v = wtok_text t ->
  lays (render_lines [(i, cat [kw k; sp; v; bs " ; "])]) [K s; t; SSemi].
Proof.
  intros i k s v t E Ev. apply lays_line1. unfold cat. cbn [concat]. rewrite app_nil_r.
  change (bs " ; ") with ([32] ++ [59] ++ [32]). unfold sp. repeat rewrite <- app_assoc.
  change [K s; t; SSemi] with ([K s] ++ [t] ++ [SSemi]). rewrite E, Ev.
  rewrite (app_assoc (wtok_text (K s))). apply lays_app; [exact (lays_tok (K s) [32] blank_sp sp_ne)|].
  rewrite (app_assoc (wtok_text t)). apply lays_app; [exact (lays_tok t [32] blank_sp sp_ne)|].
  exact (lays_tok SSemi [32] blank_sp sp_ne).
Qed.

Lemma lays_port : forall i p, lays (render_lines (write_port i p)) (w_port p).
Proof.
  intros i p. unfold write_port, w_port. repeat rewrite render_lines_app.
  apply lays_app; [exact (lays_kw_line i K_Port "PORT" eq_refl)|].
  apply lays_app.
  - destruct (po_class p) as [v|]; cbn [port_class_toks]; [|exact lays_nil].
    apply (lays_kv_line (S i) K_Class "CLASS" _ (K (s_port_class v)) eq_refl). apply s_port_class_str.
  - apply lays_app; [|exact (lays_kw_line i K_End "END" eq_refl)].
    apply lays_render_flat_map. intros l. apply lays_layer.
Qed.

Lemma wok_port : forall p, port_wr p -> Forall wtok_ok (w_port p).
Proof.
  intros p H. unfold w_port. repeat (apply Forall_app; split).
  - constructor; [reflexivity | constructor].
  - destruct (po_class p) as [v|]; cbn [port_class_toks]; [|constructor].
    constructor; [reflexivity|]. constructor; [destruct v; reflexivity|]. constructor; [exact I | constructor].
  - unfold port_wr in H. induction H as [|l ls Hl _ IH]; [constructor|]. cbn [flat_map].
    apply Forall_app. split; [apply wok_layer; exact Hl | exact IH].
  - constructor; [reflexivity | constructor].
Qed.

Lemma Forall2_flat_map_split {X} (f : X -> list stok) (P : X -> list atok -> Prop) (W : X -> Prop) :
  (forall x ax, W x -> Forall2 arel (f x) ax -> P x ax) ->
  forall L atoks, Forall W L -> Forall2 arel (flat_map f L) atoks -> exists aL, atoks = concat aL /\ Forall2 P L aL.
Proof.
  intros H. induction L as [|x L IH]; intros atoks HW F; cbn [flat_map] in F.
  - inversion F; subst. exists []. split; [reflexivity | constructor].
  - inversion HW; subst. apply Forall2_app_inv_l in F. destruct F as (a1 & a2 & F1 & F2 & ->).
    destruct (IH a2 ltac:(assumption) F2) as (aL & -> & FL). exists (a1 :: aL). split; [reflexivity|].
    constructor; [apply H; assumption | exact FL].
Qed.

Lemma toksP_port_w : forall p atoks, port_wr p -> Forall2 arel (w_port p) atoks -> port_toksP p atoks.
Proof.
  intros p atoks W F. unfold w_port in F. unfold K in F at 1. cbn [app] in F.
  apply LefRt_Forall2_cons_inv in F. destruct F as (a_port & at1 & -> & AP & F).
  apply Forall2_app_inv_l in F. destruct F as (at_c & at2 & FC & F & ->).
  apply Forall2_app_inv_l in F. destruct F as (at_l & at3 & FLs & F & ->).
  apply LefRt_Forall2_cons_inv in F. destruct F as (a_end & at4 & -> & AE & F). inversion F; subst.
  destruct (Forall2_flat_map_split w_layer layer_toksP layer_wr toksP_layer_w _ _ W FLs) as (atLs & -> & FL).
  exists a_port, at_c, atLs, a_end. split; [reflexivity|]. split; [exact AP|]. split; [exact FC|]. split; [exact FL | exact AE].
Qed.

(** * 5. PIN *)
(** the tokens of one PIN statement as the writer prints it *)
Definition w_ps (x : pstmt) : list stok :=
  match x with
  | PsTaper v => [K "TAPERRULE"; SName v; SSemi]
  | PsDir d => t_direction d
  | PsUse u => [K "USE"; K (s_pin_use u); SSemi]
  | PsNetExpr v => [K "NETEXPR"; SRaw v; SSemi]
  | PsSupply v => [K "SUPPLYSENSITIVITY"; SName v; SSemi]
  | PsGround v => [K "GROUNDSENSITIVITY"; SName v; SSemi]
  | PsShape v => [K "SHAPE"; K (s_pin_shape v); SSemi]
  | PsMustJoin v => [K "MUSTJOIN"; SName v; SSemi]
  | PsPort p => w_port p
  | PsProps ps => prop_toks ps
  | PsAModel m => [K "ANTENNAMODEL"; K (s_antenna_model m); SSemi]
  | PsAnt a => t_antenna a
  end.
(** the statements of a PIN in the writer's order *)
Definition pin_wlist (p : lef_pin) : list pstmt :=
  optl PsDir (pin_direction p) ++ optl PsUse (pin_use_ p) ++ optl PsShape (pin_shape p)
  ++ optl PsAModel (pin_antenna_model p) ++ map PsAnt (pin_antenna_attrs p)
  ++ optl PsTaper (pin_taper_rule p) ++ optl PsSupply (pin_supply_sensitivity p) ++ optl PsGround (pin_ground_sensitivity p)
  ++ optl PsMustJoin (pin_must_join p) ++ optl PsNetExpr (pin_net_expr p)
  ++ map PsProps (map (fun x => [x]) (pin_properties p)) ++ map PsPort (pin_ports p).
Definition w_pin (p : lef_pin) : list stok :=
  [K "PIN"; SName (pin_name p)] ++ flat_map w_ps (pin_wlist p) ++ [K "END"; SName (pin_name p)].

Lemma w_pin_head : forall p, exists r, w_pin p = K "PIN" :: r.
Proof. intros p. eexists. unfold w_pin. cbn [app]. reflexivity. Qed.

(** the writer's order, spelled out *)
Lemma w_pin_eq : forall p,
  w_pin p = [K "PIN"; SName (pin_name p)]
            ++ (match pin_direction p with Some d => t_direction d | None => [] end)
            ++ (match pin_use_ p with Some u => [K "USE"; K (s_pin_use u); SSemi] | None => [] end)
            ++ (match pin_shape p with Some v => [K "SHAPE"; K (s_pin_shape v); SSemi] | None => [] end)
            ++ (match pin_antenna_model p with Some m => [K "ANTENNAMODEL"; K (s_antenna_model m); SSemi] | None => [] end)
            ++ flat_map t_antenna (pin_antenna_attrs p)
            ++ (match pin_taper_rule p with Some v => [K "TAPERRULE"; SName v; SSemi] | None => [] end)
            ++ (match pin_supply_sensitivity p with Some v => [K "SUPPLYSENSITIVITY"; SName v; SSemi] | None => [] end)
            ++ (match pin_ground_sensitivity p with Some v => [K "GROUNDSENSITIVITY"; SName v; SSemi] | None => [] end)
            ++ (match pin_must_join p with Some v => [K "MUSTJOIN"; SName v; SSemi] | None => [] end)
            ++ (match pin_net_expr p with Some v => [K "NETEXPR"; SRaw v; SSemi] | None => [] end)
            ++ w_props (pin_properties p)
            ++ flat_map w_port (pin_ports p)
            ++ [K "END"; SName (pin_name p)].
Proof.
  intros p. unfold w_pin, pin_wlist, w_props. repeat rewrite flat_map_app. repeat rewrite flat_map_map. cbn [w_ps].
  repeat rewrite <- app_assoc.
  assert (O : forall (A : Type) (C : A -> pstmt) (o : option A),
            flat_map w_ps (optl C o) = match o with Some x => w_ps (C x) | None => [] end).
  { intros A C [x|]; cbn [optl flat_map]; [apply app_nil_r | reflexivity]. }
  rewrite !O. cbn [w_ps]. reflexivity.
Qed.

(** `KEY words ; ` *)
Lemma lays_kw_words_line : forall i k s v ts, kw k = wtok_text (K s) -> wordy v ts ->
  lays (render_lines [(i, cat [kw k; sp; v; bs " ; "])]) ([K s] ++ ts ++ [SSemi]).
Proof.
  intros i k s v ts E W. apply lays_line1. unfold cat. cbn [concat]. rewrite app_nil_r.
  change (bs " ; ") with ([32] ++ [59] ++ [32]). unfold sp. repeat rewrite <- app_assoc. rewrite E.
  rewrite (app_assoc (wtok_text (K s))). apply lays_app; [exact (lays_tok (K s) [32] blank_sp sp_ne)|].
  rewrite (app_assoc v). apply lays_app; [exact (W [32] blank_sp sp_ne)|].
  exact (lays_tok SSemi [32] blank_sp sp_ne).
Qed.
Lemma lays_opt_line {T} : forall i k s (f : T -> bytes) (g : T -> list stok) (o : option T),
  kw k = wtok_text (K s) -> (forall x, wordy (f x) (g x)) ->
  lays (render_lines (match o with Some x => [(i, cat [kw k; sp; f x; bs " ; "])] | None => [] end))
       (match o with Some x => [K s] ++ g x ++ [SSemi] | None => [] end).
Proof. intros i k s f g [x|] E W; [apply lays_kw_words_line; [exact E | apply W] | exact lays_nil]. Qed.

Lemma wordy_dir : forall d, wordy (dir_str d)
  (match d with DirInput => [K "INPUT"] | DirOutput false => [K "OUTPUT"] | DirOutput true => [K "OUTPUT"; K "TRISTATE"]
   | DirInout => [K "INOUT"] | DirFeedThru => [K "FEEDTHRU"] end).
Proof.
  intros [|[|]| |]; cbn [dir_str].
  - exact (wordy_tok (K "INPUT")).
  - intros s B N. change (bs "OUTPUT TRISTATE") with ((wtok_text (K "OUTPUT") ++ [32]) ++ wtok_text (K "TRISTATE")).
    rewrite <- app_assoc. change [K "OUTPUT"; K "TRISTATE"] with ([K "OUTPUT"] ++ [K "TRISTATE"]).
    apply lays_app; [exact (lays_tok (K "OUTPUT") [32] blank_sp sp_ne) | exact (lays_tok (K "TRISTATE") s B N)].
  - exact (wordy_tok (K "OUTPUT")).
  - exact (wordy_tok (K "INOUT")).
  - exact (wordy_tok (K "FEEDTHRU")).
Qed.

Lemma lays_antenna : forall i a,
  lays (render_lines [(i, cat [aa_key a; sp; dstr (aa_val a); sp;
                               match aa_layer a with Some l => cat [kw K_Layer; sp; l] | None => [] end; bs " ;"])])
       (t_antenna a).
Proof.
  intros i a. apply lays_line_nl. unfold t_antenna. unfold cat at 1. cbn [concat]. rewrite app_nil_r.
  change (bs " ;") with ([32] ++ [59]). unfold sp, dstr. repeat rewrite <- app_assoc.
  change ([SName (aa_key a); SNum (aa_val a)]) with ([SName (aa_key a)] ++ [SNum (aa_val a)]). repeat rewrite <- app_assoc.
  rewrite (app_assoc (aa_key a)). apply lays_app; [exact (lays_tok (SName (aa_key a)) [32] blank_sp sp_ne)|].
  rewrite (app_assoc (dec_to_bytes (aa_val a))). apply lays_app; [exact (lays_tok (SNum (aa_val a)) [32] blank_sp sp_ne)|].
  destruct (aa_layer a) as [l|].
  - unfold cat. cbn [concat]. rewrite app_nil_r. repeat rewrite <- app_assoc.
    change [K "LAYER"; SName l] with ([K "LAYER"] ++ [SName l]). repeat rewrite <- app_assoc.
    rewrite (app_assoc (kw K_Layer)). apply lays_app; [exact (lays_tok (K "LAYER") [32] blank_sp sp_ne)|].
    rewrite (app_assoc l). apply lays_app; [exact (lays_tok (SName l) [32] blank_sp sp_ne) | exact (lays_tok SSemi [10] blank_nl nl_ne)].
  - cbn [app]. apply (lays_blank_l [32]); [apply blank_sp | exact (lays_tok SSemi [10] blank_nl nl_ne)].
Qed.

Lemma lays_name_line : forall i k s n, kw k = wtok_text (K s) -> lays (render_lines [(i, cat [kw k; sp; n; sp])]) [K s; SName n].
Proof.
  intros i k s n E. apply lays_line1. unfold cat. cbn [concat]. rewrite app_nil_r. unfold sp. rewrite E.
  change [K s; SName n] with ([K s] ++ [SName n]). rewrite (app_assoc (wtok_text (K s))).
  apply lays_app; [exact (lays_tok (K s) [32] blank_sp sp_ne) | exact (lays_tok (SName n) [32] blank_sp sp_ne)].
Qed.

Lemma s_pin_use_str : forall v, enum_s LefPinUse_to_str v = wtok_text (K (s_pin_use v)). Proof. destruct v; reflexivity. Qed.
Lemma s_pin_shape_str : forall v, enum_s LefPinShape_to_str v = wtok_text (K (s_pin_shape v)). Proof. destruct v; reflexivity. Qed.
Lemma s_antenna_model_str : forall v, enum_s LefAntennaModel_to_str v = wtok_text (K (s_antenna_model v)). Proof. destruct v; reflexivity. Qed.

Lemma lays_pin : forall i p, lays (render_lines (write_pin cf i p)) (w_pin p).
Proof.
  intros i p. rewrite w_pin_eq. unfold write_pin. cbv zeta. repeat rewrite render_lines_app.
  apply lays_app; [exact (lays_name_line i K_Pin "PIN" (pin_name p) eq_refl)|].
  apply lays_app.
  { replace (match pin_direction p with Some d => t_direction d | None => [] end)
      with (match pin_direction p with
            | Some d => [K "DIRECTION"] ++ (match d with DirInput => [K "INPUT"] | DirOutput false => [K "OUTPUT"]
                                            | DirOutput true => [K "OUTPUT"; K "TRISTATE"]
                                            | DirInout => [K "INOUT"] | DirFeedThru => [K "FEEDTHRU"] end) ++ [SSemi]
            | None => [] end) by (destruct (pin_direction p) as [[|[|]| |]|]; reflexivity).
    apply (lays_opt_line (S i) K_Direction "DIRECTION" dir_str _ (pin_direction p) eq_refl). exact wordy_dir. }
  apply lays_app.
  { apply (lays_opt_line (S i) K_Use "USE" (enum_s LefPinUse_to_str) (fun u => [K (s_pin_use u)]) (pin_use_ p) eq_refl).
    intros u. rewrite s_pin_use_str. apply wordy_tok. }
  apply lays_app.
  { apply (lays_opt_line (S i) K_Shape "SHAPE" (enum_s LefPinShape_to_str) (fun u => [K (s_pin_shape u)]) (pin_shape p) eq_refl).
    intros u. rewrite s_pin_shape_str. apply wordy_tok. }
  apply lays_app.
  { apply (lays_opt_line (S i) K_AntennaModel "ANTENNAMODEL" (enum_s LefAntennaModel_to_str) (fun u => [K (s_antenna_model u)])
                         (pin_antenna_model p) eq_refl).
    intros u. rewrite s_antenna_model_str. apply wordy_tok. }
  apply lays_app.
  { apply lays_render_map. intros a. apply lays_antenna. }
  apply lays_app.
  { apply (lays_opt_line (S i) K_TaperRule "TAPERRULE" (fun x => x) (fun v => [SName v]) (pin_taper_rule p) eq_refl).
    intros v. exact (wordy_tok (SName v)). }
  apply lays_app.
  { apply (lays_opt_line (S i) K_SupplySensitivity "SUPPLYSENSITIVITY" (fun x => x) (fun v => [SName v]) (pin_supply_sensitivity p) eq_refl).
    intros v. exact (wordy_tok (SName v)). }
  apply lays_app.
  { apply (lays_opt_line (S i) K_GroundSensitivity "GROUNDSENSITIVITY" (fun x => x) (fun v => [SName v]) (pin_ground_sensitivity p) eq_refl).
    intros v. exact (wordy_tok (SName v)). }
  apply lays_app.
  { apply (lays_opt_line (S i) K_MustJoin "MUSTJOIN" (fun x => x) (fun v => [SName v]) (pin_must_join p) eq_refl).
    intros v. exact (wordy_tok (SName v)). }
  apply lays_app.
  { apply (lays_opt_line (S i) K_NetExpr "NETEXPR" (fun x => x) (fun v => [SRaw v]) (pin_net_expr p) eq_refl).
    intros v. exact (wordy_tok (SRaw v)). }
  apply lays_app; [apply lays_props|].
  apply lays_app; [apply lays_render_flat_map; intros po; apply lays_port|].
  exact (lays_name_line i K_End "END" (pin_name p) eq_refl).
Qed.

(** what [pin_wr] says of one statement *)
Definition ps_wr (x : pstmt) : Prop :=
  match x with
  | PsTaper v | PsSupply v | PsGround v | PsMustJoin v => name_tok v
  | PsNetExpr v => str_tok v
  | PsPort p => port_wr p
  | PsProps ps => Forall property_wr ps
  | PsAnt a => antenna_wr a
  | PsDir _ | PsUse _ | PsShape _ | PsAModel _ => True
  end.

Lemma Forall_optl {A} (C : A -> pstmt) (P : pstmt -> Prop) (Q : A -> Prop) : (forall v, Q v -> P (C v)) ->
  forall o, optP Q o -> Forall P (optl C o).
Proof. intros H [v|] Ho; cbn [optl optP] in *; [constructor; [apply H; exact Ho | constructor] | constructor]. Qed.
Lemma Forall_map_C {A} (C : A -> pstmt) (P : pstmt -> Prop) (Q : A -> Prop) : (forall v, Q v -> P (C v)) ->
  forall l, Forall Q l -> Forall P (map C l).
Proof. intros H l Hl. induction Hl as [|v l Hv _ IH]; cbn [map]; constructor; [apply H; exact Hv | exact IH]. Qed.
Lemma optP_True {A} : forall o : option A, optP (fun _ => True) o.
Proof. intros [v|]; exact I. Qed.

Lemma pin_wr_stmts : forall p, pin_wr p -> Forall ps_wr (pin_wlist p).
Proof.
  intros p (Hn & Hports & Hants & Htaper & Hsup & Hgnd & Hmj & Hne & Hprops). unfold pin_wlist.
  repeat (apply Forall_app; split).
  - apply (Forall_optl PsDir ps_wr (fun _ => True)); [intros; exact I | apply optP_True].
  - apply (Forall_optl PsUse ps_wr (fun _ => True)); [intros; exact I | apply optP_True].
  - apply (Forall_optl PsShape ps_wr (fun _ => True)); [intros; exact I | apply optP_True].
  - apply (Forall_optl PsAModel ps_wr (fun _ => True)); [intros; exact I | apply optP_True].
  - apply (Forall_map_C PsAnt ps_wr antenna_wr); [intros v H; exact H | exact Hants].
  - apply (Forall_optl PsTaper ps_wr name_tok); [intros v H; exact H | exact Htaper].
  - apply (Forall_optl PsSupply ps_wr name_tok); [intros v H; exact H | exact Hsup].
  - apply (Forall_optl PsGround ps_wr name_tok); [intros v H; exact H | exact Hgnd].
  - apply (Forall_optl PsMustJoin ps_wr name_tok); [intros v H; exact H | exact Hmj].
  - apply (Forall_optl PsNetExpr ps_wr str_tok); [intros v H; exact H | exact Hne].
  - rewrite map_map. apply (Forall_map_C (fun x => PsProps [x]) ps_wr property_wr); [|exact Hprops].
    intros v H. cbn [ps_wr]. constructor; [exact H | constructor].
  - apply (Forall_map_C PsPort ps_wr port_wr); [intros v H; exact H | exact Hports].
Qed.

Lemma wok_prop_toks : forall ps, Forall property_wr ps -> Forall wtok_ok (prop_toks ps).
Proof.
  intros ps H. unfold prop_toks. apply Forall_app. split; [constructor; [reflexivity | constructor]|].
  apply Forall_app. split; [|constructor; [exact I | constructor]].
  induction H as [|p ps [Hn (ty & Hv & _)] _ IH]; [constructor|]. cbn [flat_map app].
  constructor; [exact Hn|]. constructor; [exists ty; exact Hv | exact IH].
Qed.

Lemma wok_ps : forall x, ps_wr x -> Forall wtok_ok (w_ps x).
Proof.
  intros x H. destruct x as [v|d|u|v|v|v|sh|v|po|ps|m|an]; cbn [ps_wr w_ps] in *.
  - constructor; [reflexivity|]. constructor; [exact H|]. constructor; [exact I | constructor].
  - destruct d as [|[|]| |]; unfold t_direction; cbn [app]; repeat (constructor; [first [reflexivity | exact I]|]); constructor.
  - constructor; [reflexivity|]. constructor; [destruct u; reflexivity|]. constructor; [exact I | constructor].
  - constructor; [reflexivity|]. constructor; [exists TString; exact H|]. constructor; [exact I | constructor].
  - constructor; [reflexivity|]. constructor; [exact H|]. constructor; [exact I | constructor].
  - constructor; [reflexivity|]. constructor; [exact H|]. constructor; [exact I | constructor].
  - constructor; [reflexivity|]. constructor; [destruct sh; reflexivity|]. constructor; [exact I | constructor].
  - constructor; [reflexivity|]. constructor; [exact H|]. constructor; [exact I | constructor].
  - apply wok_port. exact H.
  - apply wok_prop_toks. exact H.
  - constructor; [reflexivity|]. constructor; [destruct m; reflexivity|]. constructor; [exact I | constructor].
  - destruct H as (Hk & _ & Hv & Hl). unfold t_antenna. cbn [app].
    constructor; [exact Hk|]. constructor; [exact Hv|].
    apply Forall_app. split; [|constructor; [exact I | constructor]].
    destruct (aa_layer an) as [l|]; cbn [optP] in Hl; [|constructor].
    constructor; [reflexivity|]. constructor; [exact Hl | constructor].
Qed.

Lemma wok_pin : forall p, pin_wr p -> Forall wtok_ok (w_pin p).
Proof.
  intros p H. pose proof (pin_wr_stmts p H) as S. destruct H as (Hn & _). unfold w_pin.
  apply Forall_app. split; [constructor; [reflexivity|]; constructor; [exact Hn | constructor]|].
  apply Forall_app. split; [|constructor; [reflexivity|]; constructor; [exact Hn | constructor]].
  induction S as [|x L Hx _ IH]; [constructor|]. cbn [flat_map]. apply Forall_app. split; [apply wok_ps; exact Hx | exact IH].
Qed.

Lemma str_tok_head : forall v, str_tok v -> exists r, v = 34 :: r.
Proof.
  intros v H. apply tok_lex_ok_raw_ty in H. destruct v as [|b r]; [discriminate|]. unfold raw_ty in H.
  destruct (b =? 34) eqn:E; [apply Z.eqb_eq in E; subst b; exists r; reflexivity|].
  destruct (bytes_eqb (b :: r) [59]); [discriminate|]. destruct (numstart b && is_rust_float (b :: r)); discriminate.
Qed.

Lemma toksP_ps_w : forall x ax, ps_wr x -> Forall2 arel (w_ps x) ax -> ps_toksP x ax.
Proof.
  intros x ax H F. destruct x as [v|d|u|v|v|v|sh|v|po|ps|m|an]; cbn [ps_wr w_ps ps_toksP] in *; try exact F.
  - split; [exact F | apply str_tok_head; exact H].
  - apply toksP_port_w; assumption.
  - split; [exact F|]. clear F. induction H as [|p ps Hp _ IH]; constructor; [apply property_wr_val; exact Hp | exact IH].
  - split; [exact F|]. destruct H as (_ & Hk & _). exact Hk.
Qed.

(** filtering a list of statements of one kind *)
Lemma filter_optl_kind {A} (C : A -> pstmt) (j : nat) : (forall v, ps_kind (C v) = j) ->
  forall k o, filter (fun x => Nat.eqb (ps_kind x) k) (optl C o) = if Nat.eqb j k then optl C o else [].
Proof.
  intros H k [v|]; cbn [optl filter]; [|destruct (Nat.eqb j k); reflexivity]. rewrite H. destruct (Nat.eqb j k); reflexivity.
Qed.
Lemma filter_map_kind {A} (C : A -> pstmt) (j : nat) : (forall v, ps_kind (C v) = j) ->
  forall k l, filter (fun x => Nat.eqb (ps_kind x) k) (map C l) = if Nat.eqb j k then map C l else [].
Proof.
  intros H k l. induction l as [|v l IH]; cbn [map filter]; [destruct (Nat.eqb j k); reflexivity|].
  rewrite H, IH. destruct (Nat.eqb j k); reflexivity.
Qed.

Lemma pin_wlist_filter : forall p k,
  filter (fun x => Nat.eqb (ps_kind x) k) (pin_wlist p)
  = filter (fun x => Nat.eqb (ps_kind x) k) (pin_canon p (map (fun x => [x]) (pin_properties p))).
Proof.
  intros p k. unfold pin_wlist, pin_canon. repeat rewrite filter_app.
  rewrite !(filter_optl_kind PsTaper 0 (fun _ => eq_refl)), !(filter_optl_kind PsDir 1 (fun _ => eq_refl)),
          !(filter_optl_kind PsUse 2 (fun _ => eq_refl)), !(filter_optl_kind PsNetExpr 3 (fun _ => eq_refl)),
          !(filter_optl_kind PsSupply 4 (fun _ => eq_refl)), !(filter_optl_kind PsGround 5 (fun _ => eq_refl)),
          !(filter_optl_kind PsShape 6 (fun _ => eq_refl)), !(filter_optl_kind PsMustJoin 7 (fun _ => eq_refl)),
          !(filter_map_kind PsPort 8 (fun _ => eq_refl)), !(filter_map_kind PsProps 9 (fun _ => eq_refl)),
          !(filter_optl_kind PsAModel 10 (fun _ => eq_refl)), !(filter_map_kind PsAnt 11 (fun _ => eq_refl)).
  do 12 (destruct k as [|k]; [cbn [Nat.eqb app]; repeat rewrite app_nil_r; reflexivity|]).
  cbn [Nat.eqb app]. reflexivity.
Qed.

Lemma concat_sing_props : forall ps : list lef_property, concat (map (fun x => [x]) ps) = ps.
Proof. induction ps as [|x ps IH]; [reflexivity|]. cbn [map concat app]. rewrite IH. reflexivity. Qed.

Lemma toksP_pin_w : forall p atoks, pin_wr p -> Forall2 arel (w_pin p) atoks -> pin_toksP p atoks.
Proof.
  intros p atoks W F. pose proof (pin_wr_stmts p W) as S. unfold w_pin in F. cbn [app] in F.
  apply LefRt_Forall2_cons_inv in F. destruct F as (a_pin & at1 & -> & AP & F).
  apply LefRt_Forall2_cons_inv in F. destruct F as (a_name & at2 & -> & AN & F).
  apply Forall2_app_inv_l in F. destruct F as (at_b & at_e & Fb & Fe & ->).
  apply LefRt_Forall2_cons_inv in Fe. destruct Fe as (a_end & at3 & -> & AE & Fe).
  apply LefRt_Forall2_cons_inv in Fe. destruct Fe as (a_name2 & at4 & -> & AN2 & Fe). inversion Fe; subst.
  destruct (Forall2_flat_map_split w_ps ps_toksP ps_wr toksP_ps_w _ _ S Fb) as (atL & -> & FL).
  exists a_pin, a_name, (pin_wlist p), atL, a_end, a_name2, (map (fun x => [x]) (pin_properties p)).
  split; [reflexivity|]. split; [exact AP|]. split; [exact AN|]. split; [exact AE|]. split; [exact AN2|].
  split; [apply concat_sing_props|]. split; [apply pin_wlist_filter | exact FL].
Qed.

Print Assumptions lays_geom.
Print Assumptions wok_geom.
Print Assumptions lays_layer.
Print Assumptions wok_layer.
Print Assumptions toksP_layer_w.
Print Assumptions lays_props.
Print Assumptions wok_props.
Print Assumptions property_wr_val.
Print Assumptions lays_port.
Print Assumptions wok_port.
Print Assumptions toksP_port_w.
Print Assumptions lays_pin.
Print Assumptions wok_pin.
Print Assumptions toksP_pin_w.
Print Assumptions w_pin_head.
Print Assumptions w_layer_head.
