(** Tie (a) of DESIGN.md 2.3 for the LEF parser, `parse_macro` (family "lef_parse_macro", properties C04, C05, C11): the definition generated from
    lef21/src/read.rs `LefParser::parse_macro` (the whole loop: CLASS, SITE, EEQ, FIXEDMASK, FOREIGN with the optional point and orientation, ORIGIN, SIZE, PIN,
    OBS, PROPERTY, SYMMETRY, SOURCE with the version gate on `self.session.lef_version`, DENSITY, END; derive_builder of `LefMacro`; the closing name; the
    context stack) (Gen/KernelsLefRead2Gen.v, unit "lefr2"), read as in Lef/KernelsInstLefRead2.v, EQUALS [parse_macro] / [macro_loop] of Lef/LefParse.v, the
    error value apart; `parse_macro_class`, `parse_pin`, `parse_obstructions`, `parse_symmetries`, `parse_property`, `parse_size`, `expect_ident` through
    their own ties (families lef_parse2, lef_parse3, lef_parse_lib), `parse_density` external (family lef_parse).  Stated for the reader as it is now.
    Naming: the helper lemma `tie_parse_macro_loop` belongs to the published theorem `Ktie_parse_macro`. *)
From Coq Require Import ZArith Bool List String Lia.
From L21 Require Import Lef.LefDec Lef.LefData Lef.LefLex Lef.LefParse.
From L21 Require Import Base.KernelOps Base.KernelOpsX Base.KernelOpsS Base.KernelOpsL Base.Outcome Gen.KernelsLefRead2Gen.
From L21 Require Import Lef.KernelsInstLefRead.
From L21 Require Lef.KernelsTieLefRead_proofs.
From L21 Require Import Lef.KernelsInstLefRead2.
From L21 Require Lef.KernelsTieLefRead2_proofs Lef.KernelsTieLefRead3_proofs Lef.KernelsTieLefReadL_proofs.
Import ListNotations.
Local Open Scope Z_scope.
Module R := Lef.KernelsTieLefRead_proofs.
Module R2 := Lef.KernelsTieLefRead2_proofs.
Module R3 := Lef.KernelsTieLefRead3_proofs.
Module RL := Lef.KernelsTieLefReadL_proofs.
Import R2(lres, lmap, unctrl, MG_key, MG_tty, MG_tok, MG_ctx, map_MG_ctx, MG_point).

Lemma MG_orient : forall x, MLefOrient (GLefOrient x) = x.
Proof. destruct x; reflexivity. Qed.
Lemma MG_dsource : forall x, MLefDefSource (GLefDefSource x) = x.
Proof. destruct x; reflexivity. Qed.
Lemma MG_drect : forall x, Mdrect (Gdrect x) = x.
Proof. destruct x as [p1 p2 v]. unfold Mdrect, Gdrect. cbn. rewrite !MG_point. reflexivity. Qed.
Lemma map_MG_drect : forall l, map Mdrect (map Gdrect l) = l.
Proof. induction l as [|c l IH]; [reflexivity|]. cbn [map]. rewrite MG_drect, IH. reflexivity. Qed.
Lemma MG_dgeoms : forall x, Mdgeoms (Gdgeoms x) = x.
Proof. destruct x as [n g]. unfold Mdgeoms, Gdgeoms. cbn. rewrite map_MG_drect. reflexivity. Qed.
Lemma map_MG_dgeoms : forall l, map Mdgeoms (map Gdgeoms l) = l.
Proof. induction l as [|c l IH]; [reflexivity|]. cbn [map]. rewrite MG_dgeoms, IH. reflexivity. Qed.

Section Ties.
Variable cf : cfg.
Variable src : bytes.
Hypothesis Hcf : cfr_now cf.
Hypothesis Hcfp : cfr_now_props cf.
Local Notation lu := (@lunit _).
Definition fail_lu := R2.fail_lu cf src.
Definition fail_back := R2.fail_back cf src.
Definition jn := @R3.jn.
Ltac ls := cbn [lm_xops kx_base lm_kops k_bind k_ret k_panic k_fail i_lt i_lit v_len]; unfold lm_bind, lm_ret, lm_pan.
Ltac xs := unfold x_advance, x_matches, x_expect, x_peek_key, x_get_key, x_expect_key, x_parse_ident, x_parse_number, x_parse_point, x_try_new, x_enum, x_txt,
  x_peek_token, lmU, lmG; cbn [MLefKey Mtty].
Ltac red1 := cbn [lunit backl omap obind fst snd option_map].
Ltac mstep :=
  match goal with
  | |- context [lunit ?X] =>
    lazymatch X with
    | context [match _ with _ => _ end] => fail
    | lmap _ _ => fail
    | _ => destruct X as [[? ?]| | | |]
    end
  end; red1; try reflexivity.
Ltac ur := repeat match goal with u : unit |- _ => destruct u end; try reflexivity.
Ltac flt := cbn [k_fail lm_xops]; unfold lm_fail, LefParse.fail, fail_msg;
  match goal with |- context [state cf src ?st] => destruct (state cf src st) as [[[[? ?] ?] ?]|]; reflexivity end.
Ltac bstep := match goal with |- context [matches ?t ?s] => destruct (matches t s) end; cbn [negb]; red1; try reflexivity.
Ltac keq := repeat match goal with |- context [LefKey_eqb ?a ?b] => let v := eval vm_compute in (LefKey_eqb a b) in change (LefKey_eqb a b) with v end; cbn beta iota.
Ltac kcase k := destruct k; cbn [GLefKey gLefKey_eqb]; keq; red1; try reflexivity.
Ltac fl := try (cbn [k_fail lm_xops]; first [ rewrite (fail_lu _ EtInvalidKey) | idtac ]; reflexivity).
Ltac foldloop run := match goal with |- context [k_loop ?a ?b ?c ?d ?e ?st] => change (k_loop a b c d e st) with (run c e st) end.
Ltac useloop P := match type of P with backl _ ?L = lunit (lmap Some ?Rr) => destruct L as [[[?|?] ?]| | |]; destruct Rr as [[? ?]| | | |] end;
  cbn [backl omap obind lunit lmap fst snd unctrl] in P; try discriminate P; red1; ur; try (inversion P; subst; clear P).
Ltac usetie T al := match goal with p : pst |- _ => let E := fresh "E" in pose proof (T p) as E; unfold al in E;
  match type of E with backl _ ?L = lunit ?Rr => (match goal with |- context [L] => idtac end); destruct L as [[? ?]| | |]; destruct Rr as [[? ?]| | | |] end;
  cbn [backl omap obind lunit fst snd] in E; try discriminate E; red1; ur; try (inversion E; subst; clear E) end.
Ltac rwtie T al := let E := fresh "E" in pose proof T as E; unfold al in E; rewrite E; clear E.
Ltac usetie1 T := match goal with p : pst |- _ => let E := fresh "E" in pose proof (T p) as E;
  match type of E with backl _ ?L = lunit ?Rr => (match goal with |- context [L] => idtac end); destruct L as [[? ?]| | |]; destruct Rr as [[? ?]| | | |] end;
  cbn [backl omap obind lunit fst snd] in E; try discriminate E; red1; ur; try (inversion E; subst; clear E) end.
Ltac pstep := unfold g_peek_token, g_LefParser_peek_token, x_peek_token; match goal with |- context [peek_token ?s] => destruct (peek_token s) end; cbn [option_map]; red1; try reflexivity.
Ltac rwtie1 T := let E := fresh "E" in pose proof T as E; rewrite E; clear E.
Ltac foldg := repeat first [ fail
  | progress change (g_LefParser_parse_units ?a0 ?a1 ?a2 ?a3 ?a4 ?a5 ?a6 ?a7 ?a8 ?a9 ?a10 ?a11) with (g_parse_units cf src)
  | progress change (g_LefParser_parse_size ?a0 ?a1 ?a2 ?a3 ?a4) with (g_parse_size cf src)
  | progress change (g_LefParser_parse_symmetries ?a0 ?a1 ?a2 ?a3 ?a4 ?a5 ?a6) with (g_parse_symmetries cf src)
  | progress change (g_LefParser_parse_macro_class ?a0 ?a1 ?a2 ?a3 ?a4 ?a5 ?a6 ?a7 ?a8) with (g_parse_macro_class cf src)
  | progress change (g_LefParser_expect_and_get_str ?a0 ?a1 ?a2 ?a3) with (g_expect_and_get_str cf src)
  | progress change (g_LefParser_get_name ?a0 ?a1 ?a2 ?a3) with (g_get_name cf src)
  | progress change (g_LefParser_expect_ident ?a0 ?a1 ?a2 ?a3 ?a4) with (g_expect_ident cf src)
  | progress change (g_LefParser_parse_site_def ?a0 ?a1 ?a2 ?a3 ?a4 ?a5 ?a6 ?a7 ?a8 ?a9 ?a10 ?a11 ?a12 ?a13 ?a14 ?a15 ?a16 ?a17 ?a18) with (g_parse_site_def cf src)
  | progress change (g_LefParser_peek_token ?a0) with (g_peek_token cf src)
  | progress change (g_LefParser_parse_property ?a0 ?a1 ?a2 ?a3 ?a4 ?a5 ?a6 ?a7 ?a8 ?a9 ?a10) with (g_parse_property cf src)
  | progress change (g_LefParser_parse_pin_direction ?a0 ?a1 ?a2 ?a3 ?a4) with (g_parse_pin_direction cf src)
  | progress change (g_LefParser_parse_geometry_mask ?a0 ?a1 ?a2 ?a3 ?a4 ?a5) with (g_parse_geometry_mask cf src)
  | progress change (g_LefParser_parse_iterate ?a0 ?a1 ?a2 ?a3) with (g_parse_iterate cf src)
  | progress change (g_LefParser_parse_step_pattern ?a0 ?a1 ?a2 ?a3) with (g_parse_step_pattern cf src)
  | progress change (g_LefParser_parse_point_list ?a0 ?a1 ?a2 ?a3 ?a4 ?a5) with (g_parse_point_list cf src)
  | progress change (g_LefParser_parse_geometry_tail ?a0 ?a1 ?a2 ?a3 ?a4) with (g_parse_geometry_tail cf src)
  | progress change (g_LefParser_parse_geometry ?a0 ?a1 ?a2 ?a3 ?a4 ?a5 ?a6 ?a7 ?a8 ?a9 ?a10 ?a11) with (g_parse_geometry cf src)
  | progress change (g_LefParser_parse_layer_geometries ?a0 ?a1 ?a2 ?a3 ?a4 ?a5 ?a6 ?a7 ?a8 ?a9 ?a10 ?a11 ?a12 ?a13 ?a14 ?a15 ?a16 ?a17) with (g_parse_layer_geometries cf src)
  | progress change (g_LefParser_parse_via_shape ?a0 ?a1 ?a2 ?a3 ?a4 ?a5 ?a6 ?a7 ?a8 ?a9 ?a10) with (g_parse_via_shape cf src)
  | progress change (g_LefParser_parse_via_layer_geometries ?a0 ?a1 ?a2 ?a3 ?a4 ?a5 ?a6 ?a7 ?a8 ?a9 ?a10 ?a11 ?a12 ?a13 ?a14 ?a15 ?a16 ?a17) with (g_parse_via_layer_geometries cf src)
  | progress change (g_LefParser_parse_obstructions ?a0 ?a1 ?a2 ?a3 ?a4 ?a5 ?a6 ?a7 ?a8 ?a9 ?a10 ?a11 ?a12 ?a13 ?a14 ?a15 ?a16 ?a17) with (g_parse_obstructions cf src)
  | progress change (g_LefParser_parse_port ?a0 ?a1 ?a2 ?a3 ?a4 ?a5 ?a6 ?a7 ?a8 ?a9 ?a10 ?a11 ?a12 ?a13 ?a14 ?a15 ?a16 ?a17 ?a18) with (g_parse_port cf src)
  | progress change (g_LefParser_parse_property_definition_tail ?a0 ?a1 ?a2 ?a3 ?a4 ?a5) with (g_parse_property_definition_tail cf src)
  | progress change (g_LefParser_parse_property_definitions ?a0 ?a1 ?a2 ?a3 ?a4 ?a5 ?a6 ?a7 ?a8 ?a9 ?a10 ?a11 ?a12 ?a13 ?a14 ?a15) with (g_parse_property_definitions cf src)
  | progress change (g_LefParser_parse_pin ?a0 ?a1 ?a2 ?a3 ?a4 ?a5 ?a6 ?a7 ?a8 ?a9 ?a10 ?a11 ?a12 ?a13 ?a14 ?a15 ?a16 ?a17 ?a18 ?a19 ?a20 ?a21 ?a22 ?a23) with (g_parse_pin cf src)
  | progress change (g_LefParser_parse_macro ?a0 ?a1 ?a2 ?a3 ?a4 ?a5 ?a6 ?a7 ?a8 ?a9 ?a10 ?a11 ?a12 ?a13 ?a14 ?a15 ?a16 ?a17 ?a18 ?a19 ?a20 ?a21 ?a22 ?a23 ?a24 ?a25 ?a26 ?a27 ?a28 ?a29 ?a30 ?a31 ?a32 ?a33 ?a34 ?a35) with (g_parse_macro cf src) ].

(** ** parse_macro: the builder `LefMacroBuilder` and two vectors are the loop state; the model keeps the record and the properties *)
Notation mbuilder := (gLefMacroBuilder dec bytes unit Z).
Notation oo A := (option (option A)).
Definition lst {A : Type} (x : option (list A)) : list A := match x with Some v => v | None => [] end.
Definition MB (nm : bytes) (obs : option (list (gLefLayerGeometries dec bytes unit Z))) (cls : oo (gLefMacroClass unit Z)) (fo : oo (gLefForeign dec bytes unit Z))
              (ori : oo gpoint) (sz : oo (dec * dec)) (sym : oo (list (gLefSymmetry unit Z))) (site : oo bytes) (sou : oo (gLefDefSource unit Z)) (eeq : oo bytes)
              (fm : option bool) (den : oo (list (gLefDensityGeometries dec bytes unit Z))) : mbuilder :=
  mk_gLefMacroBuilder dec bytes (Some nm) None obs cls fo ori sz sym site sou eeq fm None den.
Definition MM (nm : bytes) (pins : list (gLefPin dec bytes unit Z)) (obs : option (list (gLefLayerGeometries dec bytes unit Z))) (cls : oo (gLefMacroClass unit Z))
              (fo : oo (gLefForeign dec bytes unit Z)) (ori : oo gpoint) (sz : oo (dec * dec)) (sym : oo (list (gLefSymmetry unit Z))) (site : oo bytes)
              (sou : oo (gLefDefSource unit Z)) (eeq : oo bytes) (fm : option bool) (den : oo (list (gLefDensityGeometries dec bytes unit Z))) : lef_macro :=
  Build_lef_macro nm (map Mpin pins) (map Mlayer_geoms (lst obs)) (option_map Mmacro_class (jn _ cls)) (option_map Mforeign (jn _ fo)) (option_map Mpoint (jn _ ori))
                  (jn _ sz) (option_map (map MLefSymmetry) (jn _ sym)) (jn _ site) (option_map MLefDefSource (jn _ sou)) (jn _ eeq)
                  (match fm with Some v => v | None => false end) [] (option_map (map Mdgeoms) (jn _ den)).
Notation macstate := (mbuilder * list (gLefPin dec bytes unit Z) * list (gLefProperty bytes unit Z))%type.
Definition mac_run (f : nat) (st : macstate) (s : pst) := k_loop lm_kops (lm_nofuel _) f (fun fuel st => g_parse_macro_loop1 cf src fuel st) st s.
Definition Mview (st : macstate) :=
  let '(b, pins, pr) := st in
  (gLefMacroBuilder_name dec bytes b,
   MM [] pins (gLefMacroBuilder_obs dec bytes b) (gLefMacroBuilder_class dec bytes b) (gLefMacroBuilder_foreign dec bytes b) (gLefMacroBuilder_origin dec bytes b)
      (gLefMacroBuilder_size dec bytes b) (gLefMacroBuilder_symmetry dec bytes b) (gLefMacroBuilder_site dec bytes b) (gLefMacroBuilder_source dec bytes b)
      (gLefMacroBuilder_eeq dec bytes b) (gLefMacroBuilder_fixed_mask dec bytes b) (gLefMacroBuilder_density dec bytes b),
   map Mproperty pr).
Ltac mbproj := cbn [gLefMacroBuilder_name gLefMacroBuilder_pins gLefMacroBuilder_obs gLefMacroBuilder_class gLefMacroBuilder_foreign gLefMacroBuilder_origin gLefMacroBuilder_size
  gLefMacroBuilder_symmetry gLefMacroBuilder_site gLefMacroBuilder_source gLefMacroBuilder_eeq gLefMacroBuilder_fixed_mask gLefMacroBuilder_properties gLefMacroBuilder_density].
Ltac fin IH := mbproj;
  match goal with |- context [k_loop _ _ _ _ (mk_gLefMacroBuilder _ _ (Some ?nm) None ?obs ?cls ?fo ?ori ?sz ?sym ?site ?sou ?eeq ?fm None ?den, ?pins, ?pr) ?q] =>
    let Q := fresh "Q" in pose proof (IH q nm pins pr obs cls fo ori sz sym site sou eeq fm den) as Q; unfold mac_run, MB, MM, jn, R3.jn, lst in Q; rewrite ?map_app in Q; cbn [map option_map] in Q;
    unfold Mforeign in Q; cbn [gLefForeign_cell_name gLefForeign_pt gLefForeign_orient option_map] in Q;
    rewrite ?MG_point, ?MG_orient, ?MG_dsource, ?map_MG_dgeoms in Q; exact Q end.
Lemma tie_parse_macro_loop : forall f s nm pins pr obs cls fo ori sz sym site sou eeq fm den,
  backl (unctrl (fun _ => None) (fun st => Some (Mview st))) (mac_run f (MB nm obs cls fo ori sz sym site sou eeq fm den, pins, pr) s)
  = lunit (lmap (fun r => Some (Some (mac_name (fst r)), set_mac_name [] (fst r), snd r))
                (macro_loop cf src f (MM nm pins obs cls fo ori sz sym site sou eeq fm den) (map Mproperty pr) s)).
Proof.
  induction f as [|f IH]; intros s nm pins pr obs cls fo ori sz sym site sou eeq fm den; unfold mac_run; [reflexivity|].
  cbn [k_loop macro_loop]. ls. unfold g_parse_macro_loop1 at 1. unfold g_LefParser_parse_macro_loop1 at 1.
  unfold g_LefMacroBuilder_class, g_LefMacroBuilder_site, g_LefMacroBuilder_eeq, g_LefMacroBuilder_fixed_mask, g_LefMacroBuilder_foreign, g_LefMacroBuilder_origin,
    g_LefMacroBuilder_size, g_LefMacroBuilder_obs, g_LefMacroBuilder_symmetry, g_LefMacroBuilder_source, g_LefMacroBuilder_density. ls. foldg.
  unfold enum_stmt, ident_stmt, expect_semi, bind, get, ret.
  unfold x_peek_key at 1. unfold lmG. mstep. unfold MB. mbproj.
  destruct l; cbn [GLefKey]; red1; try flt.
  all: try solve [ xs; mstep ].
  all: try solve [ usetie1 (R2.tie_parse_macro_class cf src); fin IH ].
  all: try solve [ usetie1 (RL.tie_parse_pin cf src Hcf Hcfp); fin IH ].
  all: try solve [ usetie1 (R3.tie_parse_obstructions cf src Hcf); fin IH ].
  all: try solve [ usetie1 (R2.tie_parse_symmetries cf src); fin IH ].
  all: try solve [ usetie1 (R2.tie_parse_property cf src pr); fin IH ].
  all: try solve [ rewrite (R2.tie_parse_size cf src); mstep; fin IH ].
  all: try solve [ xs; repeat mstep; fin IH ].
  all: try solve [ xs; repeat (first [ mstep | bstep ]); fin IH ].
  all: try solve [ unfold x_parse_density, lmG; mstep; fin IH ].
  all: try solve [ unfold x_session_lef_version, x_dec_lt, when; red1;
                   match goal with |- context [dec_gt (p_ver ?q) V5P4] => destruct (dec_gt (p_ver q) V5P4) end; [flt|]; unfold ret; red1; xs; repeat mstep; fin IH ].
Qed.

Lemma tie_parse_macro : forall s, backl Mmacro (g_parse_macro cf src s) = lunit (parse_macro cf src s).
Proof.
  intros s. unfold g_parse_macro, g_LefParser_parse_macro, parse_macro, empty_macro, bind, push, pop, get, ret.
  unfold g_LefMacroBuilder_name, g_LefMacroBuilder_pins, g_LefMacroBuilder_properties, g_LefMacroBuilder_build. ls. foldg.
  unfold x_get at 1. unfold x_put at 1. cbn [gLefParser_ctx]. rewrite map_app, map_MG_ctx. cbn [map Mctx].
  unfold x_expect_key at 1. unfold x_parse_ident at 1. unfold lmU. cbn [MLefKey]. mstep. mstep. mbproj.
  unfold x_fuel at 1.
  match goal with |- context [k_loop ?a ?bb ?c ?d (mk_gLefMacroBuilder _ _ (Some ?nm) None None None None None None None None None None None None None, [], []) ?st] =>
    change (k_loop a bb c d (mk_gLefMacroBuilder dec bytes (Some nm) None None None None None None None None None None None None None, [], []) st)
      with (mac_run c (MB nm None None None None None None None None None None None, [], []) st);
    pose proof (tie_parse_macro_loop c st nm [] [] None None None None None None None None None None None) as P end.
  change (MM b [] None None None None None None None None None None None) with (Build_lef_macro b [] [] None None None None None None None None false [] None) in P. cbn [map] in P.
  match type of P with backl _ ?L = lunit (lmap _ ?Rr) => destruct L as [[[?|[[bd pins] pr]] ?]| | |]; destruct Rr as [[[mac props] ?]| | | |] end;
    cbn [backl omap obind lunit lmap fst snd unctrl Mview] in P; try discriminate P; red1; ur.
  destruct bd as [bn bpi bob bcl bfo bor bsz bsy bsi bso bee bfm bpr bde]. destruct mac as [mn mpi mob mcl mfo mor msz msy msi mso mee mfm mpr mde].
  unfold MM, set_mac_name in P. mbproj.
  cbn [gLefMacroBuilder_name gLefMacroBuilder_pins gLefMacroBuilder_obs gLefMacroBuilder_class gLefMacroBuilder_foreign gLefMacroBuilder_origin gLefMacroBuilder_size
       gLefMacroBuilder_symmetry gLefMacroBuilder_site gLefMacroBuilder_source gLefMacroBuilder_eeq gLefMacroBuilder_fixed_mask gLefMacroBuilder_properties gLefMacroBuilder_density
       mac_name mac_pins mac_obs mac_class mac_foreign mac_origin mac_size mac_symmetry mac_site mac_source mac_eeq mac_fixed_mask mac_properties mac_density fst snd] in P.
  inversion P; subst; clear P.
  rwtie1 (R2.tie_expect_ident cf src). mstep.
  unfold x_get, x_put. cbn [gLefParser_ctx]. unfold k_pop. rewrite R.removelast_map, map_MG_ctx.
  rewrite Hcfp. reflexivity.
Qed.
End Ties.
