(** C05: lemmas about writing a library the reader produced and reading the text back
    (Lef/LefWrite.v write_lib, Lef/LefParse.v parse).

    Part 1 (this section): closed witnesses. For each defect flag of [cfg] that bears on C05, a text that
    the code as found reads, and whose library it then cannot write, or writes as a text it cannot read. *)
From Coq Require Import ZArith List String Bool Lia.
From L21 Require Import Lef.LefDec Lef.LefData Lef.LefLex Lef.LefParse Lef.LefWrite Lef.LefSpec Lef.LefCheck.
Import ListNotations.
Local Open Scope Z_scope.

(** [None]: [src] is not read (not a case of C05); [Some b]: it is read as l, and b = "l is written as a
    text that is read back as a library equal to l (decimals numerically)" *)
Definition write_read_ok (cf : cfg) (src : bytes) : option bool :=
  match parse cf src with
  | Ok l => Some match write_lib cf l with
                 | Ok t => match parse cf t with Ok l' => lef_eq l l' | _ => false end
                 | _ => false
                 end
  | _ => None
  end.

Definition cfg_only_nowire_ungated : cfg := mkcfg false false false false true false false false.
Definition cfg_only_w_site_orig : cfg := mkcfg false false false false false true false false.
Definition cfg_only_w_prop_nosemi : cfg := mkcfg false false false false false false true false.
Definition cfg_only_version_repeat : cfg := mkcfg false false false false false false false true.

Definition LefW_src_site : bytes := bs "SITE s CLASS CORE ; SIZE 1 BY 1 ; END s END LIBRARY".
Definition LefW_src_nowire : bytes := bs "VERSION 5.8 ; NOWIREEXTENSIONATPIN ON ; END LIBRARY".
Definition LefW_src_version_ncs : bytes := bs "VERSION 5.4 ; NAMESCASESENSITIVE ON ; VERSION 5.8 ;".
Definition LefW_src_version_source : bytes := bs "VERSION 5.4 ; MACRO m SOURCE USER ; END m VERSION 5.8 ;".
Definition LefW_src_prop : bytes := bs "MACRO m PROPERTY p v ; END m END LIBRARY".

Lemma LefW_site_orig_refuted :
  write_read_ok cfg_only_w_site_orig LefW_src_site = Some false
  /\ write_read_ok cfg_fixed LefW_src_site = Some true.
Proof. split; vm_compute; reflexivity. Qed.
(** the writer refuses what the reader accepted; the repaired reader does not accept it *)
Definition writer_refuses (cf : cfg) (src : bytes) : bool :=
  match parse cf src with
  | Ok l => match write_lib cf l with Err _ => true | _ => false end
  | _ => false
  end.
Lemma LefW_nowire_ungated_refuted :
  write_read_ok cfg_only_nowire_ungated LefW_src_nowire = Some false
  /\ writer_refuses cfg_only_nowire_ungated LefW_src_nowire = true
  /\ write_read_ok cfg_fixed LefW_src_nowire = None.
Proof. split; [|split]; vm_compute; reflexivity. Qed.
(** `PROPERTY p v` without `;`: masked while the reader drops properties, visible as soon as it keeps them *)
Lemma LefW_prop_nosemi_refuted :
  write_read_ok cfg_only_w_prop_nosemi LefW_src_prop = Some false
  /\ write_read_ok (mkcfg false true false false false false true false) LefW_src_prop = Some true
  /\ write_read_ok cfg_fixed LefW_src_prop = Some true.
Proof. split; [|split]; vm_compute; reflexivity. Qed.
(** a second VERSION statement raises the version after a statement of LEF <= 5.4 was accepted: the writer
    refuses the library; the repaired reader rejects the second VERSION statement *)
Lemma LefW_version_repeat_refuted :
  write_read_ok cfg_only_version_repeat LefW_src_version_ncs = Some false
  /\ writer_refuses cfg_only_version_repeat LefW_src_version_ncs = true
  /\ write_read_ok cfg_only_version_repeat LefW_src_version_source = Some false
  /\ write_read_ok cfg_fixed LefW_src_version_ncs = None
  /\ write_read_ok cfg_fixed LefW_src_version_source = None.
Proof. split; [|split; [|split; [|split]]]; vm_compute; reflexivity. Qed.
