(** C05: lemmas about writing a library the reader produced and reading the text back
    (Lef/LefWrite.v write_lib, Lef/LefParse.v parse).

    Part 1 (this section): closed witnesses. For each defect flag of [cfg] that bears on C05, a text that
    the code as found reads, and whose library it then cannot write, or writes as a text it cannot read. *)
From Coq Require Import ZArith List String Bool Lia.
From L21 Require Import Lef.LefDec Lef.LefData Lef.LefLex Lef.LefParse Lef.LefWrite Lef.LefSpec Lef.LefCheck.
From L21 Require Import Lef.LefLex_proofs Lef.LefRtLex_proofs Lef.LefRtTop_proofs
                        Lef.LefWFrame_proofs Lef.LefWPin_proofs Lef.LefWVia_proofs Lef.LefWMacro_proofs Lef.LefWLib_proofs
                        Lef.LefIFrame_proofs Lef.LefIConstr_proofs Lef.LefIPin_proofs Lef.LefIVia_proofs Lef.LefIMacro_proofs
                        Lef.LefILib_proofs Lef.LefILex_proofs.
Import ListNotations.
Local Open Scope Z_scope.

(** [None]: [src] is not read (not a case of C05); [Some b]: it is read as l, and b = "l is written as a
    text that is read back as a library equal to l (decimals numerically)" *)
Definition write_read_ok (cf : cfg) (src : bytes) : option bool :=
  match parse cf src with
  | Ok l => Some match write_lib cf l with
                 | Ok t => match parse cf t with Ok l' => lef_eq l l' | _ => false end
                 | _ => false
                 end
  | _ => None
  end.

Definition cfg_only_nowire_ungated : cfg := mkcfg false false false false true false false false.
Definition cfg_only_w_site_orig : cfg := mkcfg false false false false false true false false.
Definition cfg_only_w_prop_nosemi : cfg := mkcfg false false false false false false true false.
Definition cfg_only_version_repeat : cfg := mkcfg false false false false false false false true.

Definition LefW_src_site : bytes := bs "SITE s CLASS CORE ; SIZE 1 BY 1 ; END s END LIBRARY".
Definition LefW_src_nowire : bytes := bs "VERSION 5.8 ; NOWIREEXTENSIONATPIN ON ; END LIBRARY".
Definition LefW_src_version_ncs : bytes := bs "VERSION 5.4 ; NAMESCASESENSITIVE ON ; VERSION 5.8 ;".
Definition LefW_src_version_source : bytes := bs "VERSION 5.4 ; MACRO m SOURCE USER ; END m VERSION 5.8 ;".
Definition LefW_src_prop : bytes := bs "MACRO m PROPERTY p v ; END m END LIBRARY".

Lemma LefW_site_orig_refuted :
  write_read_ok cfg_only_w_site_orig LefW_src_site = Some false
  /\ write_read_ok cfg_fixed LefW_src_site = Some true.
Proof. split; vm_compute; reflexivity. Qed.
(** the writer refuses what the reader accepted; the repaired reader does not accept it *)
Definition writer_refuses (cf : cfg) (src : bytes) : bool :=
  match parse cf src with
  | Ok l => match write_lib cf l with Err _ => true | _ => false end
  | _ => false
  end.
Lemma LefW_nowire_ungated_refuted :
  write_read_ok cfg_only_nowire_ungated LefW_src_nowire = Some false
  /\ writer_refuses cfg_only_nowire_ungated LefW_src_nowire = true
  /\ write_read_ok cfg_fixed LefW_src_nowire = None.
Proof. split; [|split]; vm_compute; reflexivity. Qed.
(** `PROPERTY p v` without `;`: masked while the reader drops properties, visible as soon as it keeps them *)
Lemma LefW_prop_nosemi_refuted :
  write_read_ok cfg_only_w_prop_nosemi LefW_src_prop = Some false
  /\ write_read_ok (mkcfg false true false false false false true false) LefW_src_prop = Some true
  /\ write_read_ok cfg_fixed LefW_src_prop = Some true.
Proof. split; [|split]; vm_compute; reflexivity. Qed.
(** a second VERSION statement raises the version after a statement of LEF <= 5.4 was accepted: the writer
    refuses the library; the repaired reader rejects the second VERSION statement *)
Lemma LefW_version_repeat_refuted :
  write_read_ok cfg_only_version_repeat LefW_src_version_ncs = Some false
  /\ writer_refuses cfg_only_version_repeat LefW_src_version_ncs = true
  /\ write_read_ok cfg_only_version_repeat LefW_src_version_source = Some false
  /\ write_read_ok cfg_fixed LefW_src_version_ncs = None
  /\ write_read_ok cfg_fixed LefW_src_version_source = None.
Proof. split; [|split; [|split; [|split]]]; vm_compute; reflexivity. Qed.

(** Part 2: the writer side, all blocks put together (Lef/LefW*_proofs.v): a library with the reader-image facts
    [lib_wr] (Lef/LefWFrame_proofs.v) is written, and the text is read back as an equal library. *)
Definition LefW_w_macro : lef_macro -> list stok := w_macro w_pin w_layer.
Lemma LefW_write_macros : forall ver ms,
  Forall (fun m => mac_source m <> None -> dec_gt ver V5P4 = false) ms ->
  exists lines, write_macros cfg_fixed ver ms = Ok lines /\ lays (render_lines lines) (flat_map LefW_w_macro ms).
Proof.
  intros ver ms H. destruct (write_macros_ok ver ms H) as [lines E]. exists lines. split; [exact E|].
  exact (lays_macros w_pin lays_pin w_layer lays_layer lays_symmetries ver ms lines E).
Qed.
Theorem LefW_write_read_wr : forall l, lib_wr l ->
  exists t l', write_lib cfg_fixed l = Ok t /\ parse cfg_fixed t = Ok l' /\ lef_eq l l' = true.
Proof.
  apply (write_read_wr w_via lays_via wok_via toksP_via_w w_site lays_site wok_site toksP_site_w
           w_units lays_units wok_units toksP_units_w LefW_w_macro LefW_write_macros).
  - exact (wok_macro w_pin wok_pin w_layer wok_layer).
  - exact (toksP_macro_w w_pin toksP_pin_w w_pin_head w_layer toksP_layer_w).
Qed.

(** Part 3: the reader-image side, all blocks put together (Lef/LefI*_proofs.v): every library the reader returns
    on a well-formed UTF-8 text has the facts [lib_wr]. *)
Theorem LefW_parse_image : forall src l, U8 src -> parse cfg_fixed src = Ok l -> lib_wr l.
Proof.
  intros src l U H.
  apply (parse_image src (ILex_U8_sb src U)
           (parse_macro_ispecv src (parse_pin_ispec src) (parse_property_ispec src) (ident_stmt_ispec src)
              (@enum_stmt_ispec src) (parse_size_ispec src) (parse_symmetries_ispec src))
           (parse_via_ispec src) (parse_site_def_ispec src) (parse_units_ispec src)
           (fun tis e => lex_image src tis e U) l H).
Qed.

(** C05 *)
Theorem LefW_write_read : forall src l, utf8_valid src -> parse cfg_fixed src = Ok l ->
  exists t l', write_lib cfg_fixed l = Ok t /\ parse cfg_fixed t = Ok l' /\ lef_eq l l' = true.
Proof. intros src l V H. apply LefW_write_read_wr. exact (LefW_parse_image src l (valid_U8 src V) H). Qed.
