(** C05, writer side: VIA definitions, SITE definitions and the UNITS block (and SYMMETRY statements).
    For every writer function: the token list [w_X] in the order the writer prints, [lays_X] (the text is a layout
    of these tokens), [wok_X] (each token is lexed as itself), [toksP_X_w] (the reader-side predicate holds). *)
From Coq Require Import String.
From Coq Require Import ZArith List Bool Lia.
From L21 Require Import Lef.LefDec Lef.LefData Lef.LefLex Lef.LefParse Lef.LefWrite Lef.LefSpec Lef.LefCheck
                        Lef.LefLex_proofs Lef.LefRtLex_proofs Lef.LefRtFrame_proofs Lef.LefRtPerm_proofs
                        Lef.LefRtConstr_proofs Lef.LefRtLib_proofs Lef.LefRtRender_proofs Lef.LefWDec_proofs
                        Lef.LefRtVia_proofs Lef.LefRtSiteUnits_proofs Lef.LefWFrame_proofs.
Import ListNotations.
Local Open Scope list_scope.
Local Open Scope Z_scope.

(** * Layout helpers (continuation style: the layout of what follows is given) *)
Lemma lays_tc : forall t s b ts, blank s -> s <> [] -> lays b ts -> lays (wtok_text t ++ s ++ b) (t :: ts).
Proof.
  intros t s b ts B N L. rewrite app_assoc. apply (lays_app _ [t] _ ts); [apply lays_tok; assumption | exact L].
Qed.

Lemma sp_ne : sp <> []. Proof. discriminate. Qed.
Lemma nl_ne : [10] <> ([] : bytes). Proof. discriminate. Qed.
Lemma blank_sp' : blank sp. Proof. exact blank_sp. Qed.

(** one step: the head of a right-nested byte string is a blank, or the text of the first token followed by a blank *)
Ltac lay_step :=
  lazymatch goal with
  | |- lays ?b ((?t :: ?r) ++ ?u) => change (lays b (t :: (r ++ u)))
  | |- lays ?b ([] ++ ?u) => change (lays b u)
  | |- lays [] [] => apply lays_nil
  | |- lays [10] [] => apply lays_blank; apply blank_nl
  | |- lays (_ ++ [10]) [?t] => apply (lays_tok t [10]); [apply blank_nl | apply nl_ne]
  | |- lays ([] ++ _) _ => apply lays_blank_l; [apply blank_nil|]
  | |- lays (sp ++ _) _ => apply lays_blank_l; [apply blank_sp'|]
  | |- lays ([10] ++ _) _ => apply lays_blank_l; [apply blank_nl|]
  | |- lays (indent_str _ ++ _) _ => apply lays_blank_l; [apply blank_indent|]
  | |- lays (_ ++ sp ++ _) (?t :: _) => apply (lays_tc t sp); [apply blank_sp' | apply sp_ne |]
  | |- lays (_ ++ [10] ++ _) (?t :: _) => apply (lays_tc t [10]); [apply blank_nl | apply nl_ne |]
  end.
(** normal form of the text of lines: right-nested, ` ; ` split into blank, `;`, blank *)
Ltac lay_norm :=
  unfold render_lines; cbn [map fst snd concat cat];
  change (bs " ; ") with (sp ++ wtok_text SSemi ++ sp);
  change (bs " ;") with (sp ++ wtok_text SSemi);
  repeat rewrite <- app_assoc; repeat rewrite app_nil_l.

(** words joined by one blank *)
Lemma lays_join_k : forall (ws : list stok) s b ts, blank s -> s <> [] -> lays b ts ->
  lays (join sp (map wtok_text ws) ++ s ++ b) (ws ++ ts).
Proof.
  induction ws as [|x ws IH]; intros s b ts B N L.
  - cbn [map join app]. apply lays_blank_l; assumption.
  - destruct ws as [|y r].
    + cbn [map join app]. apply lays_tc; assumption.
    + specialize (IH s b ts B N L). cbn [map] in IH. cbn [map join]. repeat rewrite <- app_assoc.
      cbn [app]. apply (lays_tc x sp); [apply blank_sp' | apply sp_ne | exact IH].
Qed.

(** a point, a list of points *)
Lemma lays_pt_k : forall p s b ts, blank s -> s <> [] -> lays b ts ->
  lays (pt_str p ++ s ++ b) (t_point p ++ ts).
Proof.
  intros p s b ts B N L. unfold pt_str, t_point, dstr. cbn [cat concat]. repeat rewrite <- app_assoc. cbn [app].
  apply (lays_tc (SNum (pt_x p)) sp); [apply blank_sp' | apply sp_ne |].
  apply (lays_tc (SNum (pt_y p)) s); assumption.
Qed.
Lemma lays_pts_k : forall ps s b ts, blank s -> s <> [] -> lays b ts ->
  lays (join sp (map pt_str ps) ++ s ++ b) (t_points ps ++ ts).
Proof.
  induction ps as [|p ps IH]; intros s b ts B N L.
  - cbn [map join app t_points flat_map]. apply lays_blank_l; assumption.
  - destruct ps as [|q r].
    + cbn [map join t_points flat_map]. rewrite app_nil_r. apply lays_pt_k; assumption.
    + specialize (IH s b ts B N L). cbn [map] in IH. cbn [map join]. unfold t_points in *. cbn [flat_map] in *.
      repeat rewrite <- app_assoc. apply (lays_pt_k p sp); [apply blank_sp' | apply sp_ne |].
      rewrite <- app_assoc in IH. exact IH.
Qed.

(** * SYMMETRY *)
Lemma sym_text : forall x, enum_s LefSymmetry_to_str x = wtok_text (K (s_symmetry x)).
Proof. intros x. destruct x; reflexivity. Qed.

Lemma lays_symmetries : forall i s, lays (render_lines (write_symmetries i s)) (t_symmetry s).
Proof.
  intros i s. unfold write_symmetries, t_symmetry. lay_norm.
  replace (map (enum_s LefSymmetry_to_str) s) with (map wtok_text (map (fun x => K (s_symmetry x)) s))
    by (rewrite map_map; apply map_ext; intros x; symmetry; apply sym_text).
  do 4 lay_step.
  apply lays_join_k; [apply blank_sp' | apply sp_ne |].
  repeat lay_step.
Qed.

Lemma wok_symmetries : forall s, Forall wtok_ok (t_symmetry s).
Proof.
  intros s. unfold t_symmetry. apply Forall_app. split; [repeat constructor|]. apply Forall_app. split; [|repeat constructor].
  apply Forall_forall. intros t Ht. apply in_map_iff in Ht. destruct Ht as (x & <- & _). destruct x; reflexivity.
Qed.

Ltac lay_step2 :=
  first
  [ lay_step
  | lazymatch goal with
    | |- lays (pt_str ?p ++ sp ++ _) (t_point ?p ++ _) => apply (lays_pt_k p sp); [apply blank_sp' | apply sp_ne |]
    | |- lays (join sp (map pt_str ?ps) ++ sp ++ _) (t_points ?ps ++ _) => apply (lays_pts_k ps sp); [apply blank_sp' | apply sp_ne |]
    end ].
Ltac lay := repeat lay_step2.

(** * VIA *)
Lemma lays_via_shape : forall i s, lays (render_lines (write_via_shape i s)) (t_via_shape s).
Proof.
  intros i s. destruct s as [m a b|m ps]; destruct m as [d|]; unfold write_via_shape, t_via_shape; cbn [t_mask];
    lay_norm; lay.
Qed.

Lemma lays_lines_flat_map {X} : forall (f : X -> list line) (g : X -> list stok) l,
  (forall x, In x l -> lays (render_lines (f x)) (g x)) -> lays (render_lines (flat_map f l)) (flat_map g l).
Proof.
  induction l as [|x l IH]; intros H; cbn [flat_map]; [apply lays_nil|]. rewrite render_lines_app.
  apply lays_app; [apply H; left; reflexivity | apply IH; intros y Hy; apply H; right; exact Hy].
Qed.
Lemma render_lines_cons : forall x r, render_lines (x :: r) = render_lines [x] ++ render_lines r.
Proof. intros. exact (render_lines_app [x] r). Qed.

Lemma lays_via_layer_geom : forall i l, lays (render_lines (write_via_layer_geom i l)) (t_via_layer l).
Proof.
  intros i l. unfold write_via_layer_geom, t_via_layer. rewrite render_lines_cons. apply lays_app.
  - lay_norm. lay.
  - apply lays_lines_flat_map. intros s _. apply lays_via_shape.
Qed.

Definition w_via_body (v : lef_via_def) : list stok :=
  match vd_data v with VdFixed f => fixed_toks f | VdGenerated g => gen_toks g (gen_canon g) end.
Definition w_via (v : lef_via_def) : list stok := via_hdr v ++ w_via_body v ++ via_end v.

Lemma w_via_fixed : forall v f, vd_data v = VdFixed f -> w_via v = via_hdr v ++ fixed_toks f ++ via_end v.
Proof. intros v f E. unfold w_via, w_via_body. rewrite E. reflexivity. Qed.
Lemma w_via_gen : forall v g, vd_data v = VdGenerated g -> w_via v = via_hdr v ++ gen_toks g (gen_canon g) ++ via_end v.
Proof. intros v g E. unfold w_via, w_via_body. rewrite E. reflexivity. Qed.

Lemma lays_via : forall i v, lays (render_lines (write_via i v)) (w_via v).
Proof.
  intros i [name dflt data]. unfold write_via, w_via, w_via_body. cbn [vd_name vd_default vd_data].
  rewrite !render_lines_app. apply lays_app; [|apply lays_app].
  - destruct dflt; unfold via_hdr, dflt_toks; cbn [vd_name vd_default]; lay_norm; lay.
  - destruct data as [f|g].
    + unfold fixed_toks. rewrite render_lines_app. apply lays_app.
      * destruct (fv_resistance_ohms f) as [r|]; [lay_norm; lay | apply lays_nil].
      * apply lays_lines_flat_map. intros l _. apply lays_via_layer_geom.
    + unfold gen_toks, gen_canon, via_opt_list.
      destruct (gv_rowcol g) as [rc|], (gv_origin g) as [o|], (gv_offset g) as [ofs|];
        match goal with |- lays ?b _ => set (B := b) end;
        cbn [app flat_map gs_toks t_point]; unfold t_point; cbn [app]; subst B;
        cbn [app]; lay_norm; lay.
  - unfold via_end. cbn [vd_name]. lay_norm. lay.
Qed.

(** ** the tokens are lexed as themselves *)
Lemma Forall_flat_map_wr {X Y} (P : X -> Prop) (Q : Y -> Prop) (g : X -> list Y) : forall l,
  Forall P l -> (forall x, P x -> Forall Q (g x)) -> Forall Q (flat_map g l).
Proof.
  induction 1 as [|x l Hx _ IH]; intros H; cbn [flat_map]; [constructor|]. apply Forall_app. split; [apply H; exact Hx | apply IH; exact H].
Qed.
Lemma wok_point : forall p, point_wr p -> Forall wtok_ok (t_point p).
Proof. intros p [X Y]. unfold t_point. constructor; [exact X|]. constructor; [exact Y | constructor]. Qed.
Lemma wok_points : forall ps, Forall point_wr ps -> Forall wtok_ok (t_points ps).
Proof. intros ps H. unfold t_points. apply (Forall_flat_map_wr point_wr); [exact H | apply wok_point]. Qed.
Lemma wok_mask : forall m, optP dec_wf m -> Forall wtok_ok (t_mask m).
Proof. intros [d|] H; cbn [t_mask optP] in *; [|constructor]. constructor; [reflexivity|]. constructor; [exact H | constructor]. Qed.
Lemma wok_via_shape : forall s, via_shape_wr s -> Forall wtok_ok (t_via_shape s).
Proof.
  intros [m a b|m ps]; cbn [via_shape_wr t_via_shape].
  - intros (M & A & B). repeat (apply Forall_app; split).
    + constructor; [reflexivity | constructor].
    + apply wok_mask; exact M.
    + apply wok_point; exact A.
    + apply wok_point; exact B.
    + constructor; [exact I | constructor].
  - intros (M & A & _). repeat (apply Forall_app; split).
    + constructor; [reflexivity | constructor].
    + apply wok_mask; exact M.
    + apply wok_points; exact A.
    + constructor; [exact I | constructor].
Qed.
Lemma wok_via_layer : forall l, via_layer_wr l -> Forall wtok_ok (t_via_layer l).
Proof.
  intros l [N S]. unfold t_via_layer. apply Forall_app. split.
  - constructor; [reflexivity|]. constructor; [exact N|]. repeat constructor.
  - apply (Forall_flat_map_wr via_shape_wr); [exact S | apply wok_via_shape].
Qed.

Ltac wk_list := repeat (constructor; [first [reflexivity | assumption | exact I]|]); try apply Forall_nil.
Ltac split_Forall :=
  repeat match goal with H : Forall _ (_ :: _) |- _ => apply Forall_cons_iff in H; destruct H end.

Lemma wok_via : forall v, via_wr v -> Forall wtok_ok (w_via v).
Proof.
  intros [name dflt data] [N D]. unfold w_via, w_via_body. cbn [vd_name vd_default vd_data] in *.
  apply Forall_app. split; [|apply Forall_app; split].
  - unfold via_hdr, dflt_toks. cbn [vd_name vd_default]. destruct dflt; cbn [app]; wk_list.
  - destruct data as [f|g].
    + destruct D as [R L]. unfold fixed_toks. apply Forall_app. split.
      * destruct (fv_resistance_ohms f) as [r|]; cbn [optP] in R; wk_list.
      * apply (Forall_flat_map_wr via_layer_wr); [exact L | apply wok_via_layer].
    + destruct D as (N1 & N2 & N3 & N4 & FD & RC & OR & OF). split_Forall.
      unfold gen_toks, gen_canon, via_opt_list.
      destruct (gv_rowcol g) as [rc|], (gv_origin g) as [o|], (gv_offset g) as [ofs|]; cbn [optP] in *; unfold point_wr in *;
        repeat (match goal with H : _ /\ _ |- _ => destruct H end); split_Forall;
        cbn [app flat_map gs_toks]; unfold t_point; cbn [app]; wk_list.
  - unfold via_end. cbn [vd_name]. wk_list.
Qed.

Lemma toksP_via_w : forall v atoks, via_wr v -> Forall2 arel (w_via v) atoks -> via_toksP v atoks.
Proof.
  intros v atoks [N D] F. unfold via_toksP, via_struct_ok. unfold w_via, w_via_body in F.
  destruct (vd_data v) as [f|g].
  - split; [|exact F]. destruct D as [_ L]. apply forallb_forall. intros l Hl.
    rewrite Forall_forall in L. destruct (L l Hl) as [_ S]. unfold vlayer_len_ok. apply forallb_forall. intros s Hs.
    rewrite Forall_forall in S. specialize (S s Hs). destruct s as [m a b|m ps]; cbn [vshape_len_ok via_shape_wr] in *; [reflexivity|].
    apply Nat.leb_le. exact (proj2 (proj2 S)).
  - split; [reflexivity|]. exists (gen_canon g). split; [intros k; reflexivity | exact F].
Qed.

(** * SITE *)
Lemma site_class_text : forall c, enum_s LefSiteClass_to_str c = wtok_text (K (s_site_class c)).
Proof. intros c. destruct c; reflexivity. Qed.

Definition w_site (s : lef_site) : list stok :=
  [K "SITE"; SName (site_name s)] ++ flat_map ss_toks (site_canon s) ++ [K "END"; SName (site_name s)].

Lemma lays_site : forall i s, lays (render_lines (write_site cfg_fixed i s)) (w_site s).
Proof.
  intros i s. unfold write_site, w_site, site_canon, su_opt_list. cbn [c_w_site_orig cfg_fixed]. cbv zeta.
  rewrite site_class_text.
  destruct (site_symmetry s) as [v|].
  - match goal with |- lays ?b _ => set (B := b) end.
    cbn [app flat_map ss_toks]. unfold t_size. rewrite <- !app_assoc. cbn [app]. subst B.
    rewrite !render_lines_app.
    apply (lays_app _ [K "SITE"; SName (site_name s); K "CLASS"; K (s_site_class (site_class s)); SSemi]).
    + lay_norm. lay.
    + apply lays_app; [apply lays_symmetries|]. lay_norm. lay.
  - match goal with |- lays ?b _ => set (B := b) end.
    cbn [app flat_map ss_toks]. unfold t_size. cbn [app]. subst B. cbn [app]. lay_norm. lay.
Qed.

Lemma wok_site : forall s, site_wr s -> Forall wtok_ok (w_site s).
Proof.
  intros s (N & W & H). unfold w_site, site_canon, su_opt_list.
  apply Forall_app. split; [wk_list|]. apply Forall_app. split; [|wk_list].
  destruct (site_symmetry s) as [v|]; cbn [app flat_map ss_toks]; rewrite ?app_nil_r; unfold t_size.
  - do 3 (constructor; [destruct (site_class s); first [reflexivity | exact I]|]).
    apply Forall_app. split; [apply wok_symmetries | wk_list].
  - destruct (site_class s); wk_list.
Qed.

Lemma toksP_site_w : forall s atoks, site_wr s -> Forall2 arel (w_site s) atoks -> site_toksP s atoks.
Proof.
  intros s atoks _ F. exists (site_canon s). split; [intros k; reflexivity | exact F].
Qed.

(** * UNITS *)
Definition w_units (u : lef_units) : list stok :=
  [K "UNITS"] ++ flat_map us_toks (units_canon u) ++ [K "END"; K "UNITS"].

Lemma lays_unum : forall i k k1 k2 v, kw k1 = wtok_text (K (uk_kw1 k)) -> kw k2 = wtok_text (K (uk_kw2 k)) ->
  lays (render_lines (match v with Some d => [(S i, cat [kw k1; sp; kw k2; sp; dstr d; bs " ; "])] | None => [] end))
       (flat_map us_toks (su_opt_list (UsNum k) v)).
Proof.
  intros i k k1 k2 [d|] E1 E2; [|apply lays_nil]. cbn [su_opt_list flat_map us_toks app]. rewrite E1, E2. lay_norm. lay.
Qed.

Lemma lays_units : forall i u, lays (render_lines (write_units i u)) (w_units u).
Proof.
  intros i u. unfold write_units, w_units, units_canon. cbv beta zeta.
  rewrite !flat_map_app. rewrite !render_lines_app. rewrite <- !app_assoc.
  apply lays_app; [lay_norm; lay|].
  apply lays_app; [apply (lays_unum i UTime); reflexivity|].
  apply lays_app; [apply (lays_unum i UCap); reflexivity|].
  apply lays_app; [apply (lays_unum i URes); reflexivity|].
  apply lays_app; [apply (lays_unum i UPower); reflexivity|].
  apply lays_app; [apply (lays_unum i UCurrent); reflexivity|].
  apply lays_app; [apply (lays_unum i UVolt); reflexivity|].
  apply lays_app.
  { destruct (u_database_microns u) as [db|]; [|apply lays_nil]. cbn [su_opt_list flat_map us_toks app]. lay_norm. lay. }
  apply lays_app; [apply (lays_unum i UFreq); reflexivity|].
  lay_norm. lay.
Qed.

Lemma dbu_wf : forall v, dbu_allowed v = true -> dec_wf (dec_of_Z v).
Proof.
  intros v H. assert (R : 0 < v <= 20000).
  { unfold dbu_allowed in H. cbn [existsb] in H.
    repeat (apply orb_prop in H; destruct H as [H|H]; [apply Z.eqb_eq in H; lia|]). discriminate H. }
  assert (B : 20000 < two96) by (vm_compute; reflexivity).
  unfold dec_wf, dec_of_Z. cbn [d_mant d_scale]. rewrite Z.abs_eq by lia. lia.
Qed.

Lemma wok_unum : forall k v, optP dec_wf v -> Forall wtok_ok (flat_map us_toks (su_opt_list (UsNum k) v)).
Proof.
  intros k [d|] H; cbn [su_opt_list flat_map us_toks app optP] in *; [|constructor]. destruct k; wk_list.
Qed.

Lemma wok_units : forall u, units_wr u -> Forall wtok_ok (w_units u).
Proof.
  intros u [D F]. split_Forall. unfold w_units, units_canon. rewrite !flat_map_app.
  apply Forall_app. split; [wk_list|]. apply Forall_app. split; [|wk_list].
  repeat (apply Forall_app; split); try (apply wok_unum; assumption).
  destruct (u_database_microns u) as [db|]; cbn [su_opt_list flat_map us_toks app optP] in *; [|constructor].
  pose proof (dbu_wf db D). wk_list.
Qed.

Lemma toksP_units_w : forall u atoks, units_wr u -> Forall2 arel (w_units u) atoks -> units_toksP u atoks.
Proof.
  intros u atoks [D _] F. split.
  - unfold units_struct_ok. destruct (u_database_microns u); [exact D | reflexivity].
  - exists (units_canon u). split; [intros k; reflexivity | exact F].
Qed.

Print Assumptions lays_symmetries.
Print Assumptions lays_via.
Print Assumptions wok_via.
Print Assumptions toksP_via_w.
Print Assumptions lays_site.
Print Assumptions wok_site.
Print Assumptions toksP_site_w.
Print Assumptions lays_units.
Print Assumptions wok_units.
Print Assumptions toksP_units_w.
