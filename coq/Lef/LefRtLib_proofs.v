(** C04 / C05: library-level statements of the LEF parser over abstract tokens: VERSION and the version
    gates, BUSBITCHARS / DIVIDERCHAR, PROPERTYDEFINITIONS, BEGINEXT, the simple statements, the library loop. *)
From Coq Require Import String.
From Coq Require Import ZArith List Bool Lia.
From L21 Require Import Lef.LefDec Lef.LefData Lef.LefLex Lef.LefParse Lef.LefSpec Lef.LefCheck
                        Lef.LefLex_proofs Lef.LefParse_proofs Lef.LefRtLex_proofs Lef.LefRtPerm_proofs
                        Lef.LefRtFrame_proofs Lef.LefRtConstr_proofs.
Import ListNotations.
Local Open Scope list_scope.
Local Open Scope Z_scope.

(** * Decimal comparisons respect numeric equality *)
Lemma LefRt_pow10_pos : forall n, 0 <= n -> 0 < 10 ^ n.
Proof. intros. apply Z.pow_pos_nonneg; lia. Qed.

Lemma dec_eq_iff : forall a b, dec_eq a b = true <-> d_smant a * 10 ^ d_scale b = d_smant b * 10 ^ d_scale a.
Proof.
  intros a b. unfold dec_eq, dec_cmp. destruct (Z.compare_spec (d_smant a * 10 ^ d_scale b) (d_smant b * 10 ^ d_scale a));
    split; intros; try discriminate; try lia; reflexivity.
Qed.

Lemma dec_cmp_compat : forall v n c, 0 <= d_scale v -> 0 <= d_scale n -> 0 <= d_scale c -> dec_eq v n = true ->
  dec_cmp n c = dec_cmp v c.
Proof.
  intros v n c Sv Sn Sc E. apply dec_eq_iff in E. unfold dec_cmp.
  pose proof (LefRt_pow10_pos _ Sv) as Pv. pose proof (LefRt_pow10_pos _ Sn) as Pn. pose proof (LefRt_pow10_pos _ Sc) as Pc.
  set (pv := 10 ^ d_scale v) in *. set (pn := 10 ^ d_scale n) in *. set (pc := 10 ^ d_scale c) in *.
  set (mv := d_smant v) in *. set (mn := d_smant n) in *. set (mc := d_smant c) in *.
  rewrite (Zmult_compare_compat_r (mn * pc) (mc * pn) pv) by lia.
  rewrite (Zmult_compare_compat_r (mv * pc) (mc * pv) pn) by lia.
  replace (mn * pc * pv) with (mv * pc * pn) by nia.
  replace (mc * pn * pv) with (mc * pv * pn) by lia. reflexivity.
Qed.
Lemma dec_gt_compat : forall v n c, 0 <= d_scale v -> 0 <= d_scale n -> 0 <= d_scale c -> dec_eq v n = true ->
  dec_gt n c = dec_gt v c.
Proof. intros. unfold dec_gt. rewrite (dec_cmp_compat v n c); auto. Qed.
Lemma dec_ge_compat : forall v n c, 0 <= d_scale v -> 0 <= d_scale n -> 0 <= d_scale c -> dec_eq v n = true ->
  dec_ge n c = dec_ge v c.
Proof. intros. unfold dec_ge. rewrite (dec_cmp_compat v n c); auto. Qed.
Lemma dec_eq_trans : forall a b c, 0 <= d_scale a -> 0 <= d_scale b -> 0 <= d_scale c ->
  dec_eq a b = true -> dec_eq b c = true -> dec_eq a c = true.
Proof.
  intros a b c Sa Sb Sc E1 E2. apply dec_eq_iff in E1, E2. apply dec_eq_iff.
  pose proof (LefRt_pow10_pos _ Sa). pose proof (LefRt_pow10_pos _ Sb). pose proof (LefRt_pow10_pos _ Sc).
  set (pa := 10 ^ d_scale a) in *. set (pb := 10 ^ d_scale b) in *. set (pc := 10 ^ d_scale c) in *.
  apply (Z.mul_cancel_r _ _ pb); [lia|]. nia.
Qed.
Lemma dec_eq_sym : forall a b, dec_eq a b = true -> dec_eq b a = true.
Proof. intros a b E. apply dec_eq_iff in E. apply dec_eq_iff. lia. Qed.

(** a version number 5.k read in any spelling passes `parse_version`'s checks *)
Lemma version_ok_of_eq : forall k num, 0 <= k <= 8 -> dec_wf num -> dec_eq (mkdec false (50 + k) 1) num = true ->
  version_ok num = true.
Proof.
  intros k num K [[M0 _] [S0 _]] E. apply dec_eq_iff in E. cbn [d_smant d_neg d_mant d_scale] in E.
  assert (NN : d_neg num = false).
  { destruct (d_neg num) eqn:N; [|reflexivity]. unfold d_smant in E. rewrite N in E.
    pose proof (LefRt_pow10_pos _ S0). nia. }
  unfold d_smant in E. rewrite NN in E.
  unfold version_ok, dec_floor, d_smant. rewrite NN.
  destruct (Z.eq_dec (d_scale num) 0) as [Z0|NZ].
  - rewrite Z0 in *. change (10 ^ 0) with 1 in *. change (10 ^ 1) with 10 in E.
    assert (d_mant num = 5) by lia. assert (k = 0) by lia. subst k. rewrite H.
    reflexivity.
  - assert (S1 : 0 <= d_scale num - 1) by lia.
    pose proof (LefRt_pow10_pos _ S1) as Q.
    assert (P : 10 ^ d_scale num = 10 * 10 ^ (d_scale num - 1)).
    { replace (d_scale num) with (1 + (d_scale num - 1)) at 1 by lia. rewrite Z.pow_add_r by lia. reflexivity. }
    set (q := 10 ^ (d_scale num - 1)) in *. rewrite P in *. change (10 ^ 1) with 10 in E.
    assert (Em : d_mant num = (50 + k) * q) by lia. rewrite Em.
    assert (D : (50 + k) * q / (10 * q) = 5).
    { rewrite Z.div_mul_cancel_r by lia. symmetry. apply Z.div_unique with (r := k); lia. }
    assert (Md : ((50 + k) * q) mod (10 * q) = k * q).
    { rewrite Zmult_mod_distr_r. f_equal. symmetry. apply Z.mod_unique with (q := 5); lia. }
    rewrite D, Md.
    replace (10 * (k * q)) with (k * (10 * q)) by lia.
    rewrite Z.mod_mul by lia. rewrite Z.div_mul by lia.
    rewrite Z.eqb_refl. cbn [andb]. apply Z.leb_le. lia.
Qed.

(** * Keyword table facts *)
Lemma bytes_eqb_eq : forall a b, bytes_eqb a b = true -> a = b.
Proof.
  induction a as [|x a IH]; intros [|y b] H; try discriminate; [reflexivity|].
  cbn [bytes_eqb] in H. apply andb_prop in H. destruct H as [H1 H2]. apply Z.eqb_eq in H1. subst. f_equal. apply IH. exact H2.
Qed.
Lemma enum_find_some {A} : forall (t : list (A * bytes)) s a, enum_find t s = Some a ->
  exists k, In (a, k) t /\ k = s.
Proof.
  induction t as [|[a' k] t IH]; intros s a H; [discriminate|]. cbn [enum_find] in H.
  destruct (bytes_eqb k s) eqn:E.
  - injection H as <-. exists k. split; [left; reflexivity | apply bytes_eqb_eq; exact E].
  - destruct (IH s a H) as (k' & I & Ek). exists k'. split; [right; exact I | exact Ek].
Qed.
Lemma LefKey_btable_to_str :
  forallb (fun e => bytes_eqb (snd e) (bytes_of_string (LefKey_to_str (fst e)))) LefKey_btable = true.
Proof. vm_compute. reflexivity. Qed.
Lemma LefKey_from_str_inv : forall s k, LefKey_from_str s = Some k -> s = bytes_of_string (LefKey_to_str k).
Proof.
  intros s k H. destruct (enum_find_some _ _ _ H) as (kk & I & <-).
  pose proof LefKey_btable_to_str as F. rewrite forallb_forall in F. specialize (F _ I). cbn [fst snd] in F.
  apply bytes_eqb_eq. exact F.
Qed.
Lemma LefKey_eqb_eq : forall a b, LefKey_eqb a b = true -> a = b.
Proof. intros a b H. unfold LefKey_eqb in H. apply Z.eqb_eq in H. destruct a; destruct b; try reflexivity; discriminate. Qed.
Lemma not_endext : forall t key, LefKey_parse t = Some key -> upper_bytes t <> bytes_of_string "ENDEXT" ->
  LefKey_eqb key K_EndExtension = false.
Proof.
  intros t key H N. destruct (LefKey_eqb key K_EndExtension) eqn:E; [|reflexivity].
  apply LefKey_eqb_eq in E. subst key. unfold LefKey_parse in H. apply LefKey_from_str_inv in H. contradiction.
Qed.

Section Lib.
Variable src : bytes.
Hypothesis Hsrc : starts_on_boundary src = true.
Notation cf := cfg_fixed.
Notation spec := (spec src).
Notation specv := (specv src).
Notation post := (post src).
Notation sees := (sees src).

Lemma sees_with_ver : forall st a v, sees st a -> sees (with_ver st v) a.
Proof. intros st a v H. exact H. Qed.

(** ** VERSION *)
(** the version number is 5.0 .. 5.8 in some spelling *)
Definition version_num_ok (v : dec) : Prop :=
  0 <= d_scale v /\ exists k, 0 <= k <= 8 /\ dec_eq v (mkdec false (50 + k) 1) = true.
Lemma version_valid_k : forall v, version_valid v = true -> version_num_ok v.
Proof.
  intros v H. unfold version_valid in H. apply andb_prop in H. destruct H as [H E]. apply andb_prop in H. destruct H as [D _].
  unfold dec_ok in D. repeat (apply andb_prop in D; destruct D as [D ?]).
  split; [apply Z.leb_le; assumption|].
  apply existsb_exists in E. destruct E as (k & Ik & Ek). exists k. split; [|exact Ek].
  cbn in Ik. intuition lia.
Qed.

Lemma parse_version_ok : forall v a0 a1 a2 st rest, version_num_ok v ->
  arel (SNum v) a1 -> arel SSemi a2 -> sees st (a0 :: a1 :: a2 :: rest) ->
  exists num st', parse_version cf src st = Ok (num, st') /\ sees st' rest /\ p_ver st' = num
                  /\ dec_eq v num = true /\ dec_wf num.
Proof.
  intros v a0 a1 a2 st rest VV A1 A2 Hs.
  destruct VV as (Sv & k & Kr & Ek).
  assert (G : post rest (p_ver st) (fun _ : dec => True) (parse_version cf src st) ->
              exists num, True) by (intros; exists v; exact I).
  clear G. unfold parse_version.
  destruct (next_token_ok src st a0 _ Hs) as (t0 & st0 & E0 & Hs0 & Hv0 & _).
  unfold advance, bind at 1. unfold bind at 1. rewrite E0. cbv beta iota. unfold ret at 1.
  destruct A1 as [Ty1 (num & De & Eq & Wf)].
  destruct (parse_number_spec_ok src a1 num Ty1 De st0 (a2 :: rest) I Hs0) as (n' & st1 & E1 & Hs1 & Hv1 & <-).
  unfold bind at 1. rewrite E1. cbv beta iota.
  destruct (expect_semi_spec_ok src a2 A2 st1 rest I Hs1) as (u & st2 & E2 & Hs2 & Hv2 & _).
  unfold bind at 1. rewrite E2. cbv beta iota.
  assert (VO : version_ok num = true).
  { apply (version_ok_of_eq k num Kr Wf). apply dec_eq_sym in Ek.
    apply (dec_eq_trans _ v _); [cbn; lia | exact Sv | apply Wf | exact Ek | exact Eq]. }
  rewrite VO. cbn [negb when]. unfold bind, ret.
  exists num, (with_ver st2 num). split; [reflexivity|]. split; [apply sees_with_ver; exact Hs2|].
  split; [reflexivity|]. split; assumption.
Qed.

(** ** BUSBITCHARS / DIVIDERCHAR *)
Lemma parse_bus_bit_chars_ok : forall a0 a1 a2 q1 c1 c2 q2, arel (SKw "BUSBITCHARS") a0 ->
  fst a1 = TString -> chars_of (snd a1) = [q1; c1; c2; q2] -> arel SSemi a2 ->
  spec (parse_bus_bit_chars cf src) [a0; a1; a2] Any (eq (c1, c2)).
Proof.
  intros a0 a1 a2 q1 c1 c2 q2 A0 Ty C A2 st rest _ Hs. cbn [app] in Hs. unfold parse_bus_bit_chars.
  pstep. pb (get_str_spec src TString a1 Ty). rewrite C. cbv iota. pstep. pret. reflexivity.
Qed.
Lemma parse_divider_char_ok : forall a0 a1 a2 q1 c1 q2, arel (SKw "DIVIDERCHAR") a0 ->
  fst a1 = TString -> chars_of (snd a1) = [q1; c1; q2] -> arel SSemi a2 ->
  spec (parse_divider_char cf src) [a0; a1; a2] Any (eq c1).
Proof.
  intros a0 a1 a2 q1 c1 q2 A0 Ty C A2 st rest _ Hs. cbn [app] in Hs. unfold parse_divider_char.
  pstep. pb (get_str_spec src TString a1 Ty). rewrite C. cbv iota. pstep. pret. reflexivity.
Qed.


(** ** PROPERTYDEFINITIONS *)
Definition propdef_struct_ok (p : lef_propdef) : Prop :=
  match p with PdLefString _ _ (Some s) => exists r, s = 34 :: r | _ => True end.

Lemma LefObj_eqb_refl : forall e, LefPropertyDefinitionObjectType_eqb e e = true.
Proof. destruct e; reflexivity. Qed.

Lemma propdef_tail_ok : forall v r atoks,
  Forall2 arel ((match r with Some (a, b) => [K "RANGE"; SNum a; SNum b] | None => [] end)
                ++ (match v with Some d => [SNum d] | None => [] end) ++ [SSemi]) atoks ->
  spec (parse_property_definition_tail cf src) atoks Any
       (fun vr => option_eqb dec_eq v (fst vr) = true /\ option_eqb (pair_eqb dec_eq dec_eq) r (snd vr) = true).
Proof.
  intros v r atoks F st rest _ Hs. unfold parse_property_definition_tail.
  destruct r as [[ra rb]|]; destruct v as [d|]; unfold K in F; cbn [app] in F; inv_arel; cbn [app] in Hs;
    pstep; head_ty; repeat pstep; head_ty; repeat pstep; pret; unfold pair_eqb; split; deq.
Qed.

Definition pd_follow (rest : list atok) : Prop :=
  exists x r, rest = x :: r /\ kw_in [K_Layer; K_Library; K_Macro; K_NonDefaultRule; K_Pin; K_Via; K_ViaRule; K_End] x.

Lemma propdefs_loop_ok : forall pds atL,
  Forall2 (fun p at_ => Forall2 arel (t_propdef p) at_ /\ propdef_struct_ok p) pds atL ->
  forall aE aP, arel (SKw "END") aE -> arel (SKw "PROPERTYDEFINITIONS") aP -> forall f acc,
  spec (propdefs_loop cf src f acc) (concat atL ++ [aE; aP])
       (fun rest => (List.length (concat atL) + 2 + List.length rest < f)%nat)
       (fun l => exists pds', l = acc ++ pds' /\ list_eqb (lef_propdef_eqb dec_eq) pds pds' = true).
Proof.
  induction pds as [|p pds IH]; intros atL FL aE aP AE AP f acc st rest Lf Hs.
  - inversion FL; subst. cbn [concat app] in *. destruct f as [|f]; [lia|]. cbn [propdefs_loop].
    pstep. cbv iota. pstep. pstep. pret. exists []. rewrite app_nil_r. split; reflexivity.
  - inversion FL as [|p' at_p pds' atL' [Fp Sp] FL']; subst. cbn [concat] in *. repeat rewrite <- app_assoc in Hs.
    destruct f as [|f]; [lia|]. cbn [propdefs_loop]. rewrite app_length in Lf.
    assert (Cont : forall p1 st1, sees st1 (concat atL' ++ [aE; aP] ++ rest) -> p_ver st1 = p_ver st ->
              lef_propdef_eqb dec_eq p p1 = true ->
              post rest (p_ver st) (fun l => exists pds'0, l = acc ++ pds'0 /\ list_eqb (lef_propdef_eqb dec_eq) (p :: pds) pds'0 = true)
                   (propdefs_loop cf src f (acc ++ [p1]) st1)).
    { intros p1 st1 Hs1 Hv1 Ep.
      eapply post_weaken; [|eapply post_spec; [eapply (IH atL' FL' aE aP AE AP f (acc ++ [p1])) | | rewrite <- app_assoc; exact Hs1 | exact Hv1]].
      - cbv beta. intros l (pds1 & -> & E). exists (p1 :: pds1). rewrite <- app_assoc. split; [reflexivity|].
        cbn [list_eqb]. rewrite Ep, E. reflexivity.
      - cbv beta. assert (1 <= List.length at_p)%nat.
        { destruct p; cbn [t_propdef] in Fp; unfold K in Fp; cbn [app] in Fp;
            apply LefRt_Forall2_cons_inv in Fp; destruct Fp as (? & ? & -> & _); cbn; lia. }
        lia. }
    destruct p as [ot name v|ot name v r|ot name v r]; cbn [t_propdef] in Fp; unfold K in Fp; cbn [app] in Fp.
    + (* STRING *)
      destruct v as [s|]; cbn [app] in Fp.
      * destruct Sp as [r0 ->].
        apply LefRt_Forall2_cons_inv in Fp. destruct Fp as (a0 & at0 & -> & A0 & Fp).
        apply LefRt_Forall2_cons_inv in Fp. destruct Fp as (a1 & at1 & -> & A1 & Fp).
        apply LefRt_Forall2_cons_inv in Fp. destruct Fp as (a2 & at2 & -> & A2 & Fp).
        apply LefRt_Forall2_cons_inv in Fp. destruct Fp as (a3 & at3 & -> & A3 & Fp).
        apply LefRt_Forall2_cons_inv in Fp. destruct Fp as (a4 & at4 & -> & A4 & Fp).
        apply LefRt_Forall2_nil_inv in Fp. subst at4.
        destruct A3 as [Sx Tx]. cbn in Tx. cbn [app] in Hs.
        destruct ot; cbn [s_objtype] in *; pstep; cbv iota; pstep; pstep; pstep; cbv iota; pstep; head_ty;
          pstep; pb (expect_spec_ok src TString a3 Tx); pstep;
          match goal with q : substr src _ = Some _ |- _ =>
            unfold bind at 1; rewrite (txt_ok src _ _ _ q); cbv beta iota end;
          pstep; pstep; (apply Cont; [assumption | congruence |]);
          cbn; rewrite bytes_eqb_refl, Sx, bytes_eqb_refl; reflexivity.
      * inv_arel. cbn [app] in Hs.
        destruct ot; cbn [s_objtype] in *; pstep; cbv iota; pstep; pstep; pstep; cbv iota; pstep; head_ty;
          pstep; pstep; (apply Cont; [assumption | congruence | cbn; rewrite bytes_eqb_refl; reflexivity]).
    + (* REAL *)
      apply LefRt_Forall2_cons_inv in Fp. destruct Fp as (a0 & at0 & -> & A0 & Fp).
      apply LefRt_Forall2_cons_inv in Fp. destruct Fp as (a1 & at1 & -> & A1 & Fp).
      apply LefRt_Forall2_cons_inv in Fp. destruct Fp as (a2 & at2 & -> & A2 & Fp).
      cbn [app] in Hs.
      destruct ot; cbn [s_objtype] in *; pstep; cbv iota; pstep; pstep; pstep; cbv iota;
        pb (propdef_tail_ok v r at2 Fp);
        match goal with q : _ /\ _ |- _ => destruct q as [Q1 Q2] end;
        (apply Cont; [assumption | congruence | cbn; rewrite bytes_eqb_refl, Q1, Q2; reflexivity]).
    + (* INTEGER *)
      apply LefRt_Forall2_cons_inv in Fp. destruct Fp as (a0 & at0 & -> & A0 & Fp).
      apply LefRt_Forall2_cons_inv in Fp. destruct Fp as (a1 & at1 & -> & A1 & Fp).
      apply LefRt_Forall2_cons_inv in Fp. destruct Fp as (a2 & at2 & -> & A2 & Fp).
      cbn [app] in Hs.
      destruct ot; cbn [s_objtype] in *; pstep; cbv iota; pstep; pstep; pstep; cbv iota;
        pb (propdef_tail_ok v r at2 Fp);
        match goal with q : _ /\ _ |- _ => destruct q as [Q1 Q2] end;
        (apply Cont; [assumption | congruence | cbn; rewrite bytes_eqb_refl, Q1, Q2; reflexivity]).
Qed.


(** ** BEGINEXT .. ENDEXT *)
Definition ext_tok_free (t : bytes) : Prop := upper_bytes t <> bytes_of_string "ENDEXT".

Lemma raw_ty_cases : forall b a, arel (SRaw b) a -> snd a = b /\ (fst a = TString \/ fst a = TName \/ fst a = TNumber \/ fst a = TSemi).
Proof.
  intros b a [S T]. split; [exact S|]. destruct b as [|x r]; [cbn in T; tauto|].
  destruct (Z.eq_dec x 34) as [->|N]; [tauto|].
  assert (X : (if bytes_eqb (x :: r) [59] then fst a = TSemi else fst a = TName \/ fst a = TNumber)).
  { destruct x as [|q|q]; try exact T. do 6 (destruct q as [q|q|]; try exact T). congruence. }
  destruct (bytes_eqb (x :: r) [59]); tauto.
Qed.

Lemma ext_loop_ok : forall toks atoks, Forall2 arel (map SRaw toks) atoks -> Forall ext_tok_free toks ->
  forall aE, arel (SKw "ENDEXT") aE -> forall f data st rest,
  sees st (atoks ++ aE :: rest) -> (List.length atoks + 1 + List.length rest < f)%nat ->
  post rest (p_ver st) (eq (data ++ flat_map (fun t => t ++ [32]) toks)) (ext_loop cf src f data st).
Proof.
  induction toks as [|t toks IH]; intros atoks F TF aE AE f data st rest Hs Lf; cbn [map] in F.
  - inv_arel. cbn [app] in Hs. destruct f as [|f]; [lia|]. cbn [ext_loop].
    destruct (next_token_ok src st aE rest Hs) as (tk & st1 & E & Hs1 & Hv1 & Ty & Sx).
    unfold bind at 1. rewrite E. cbv beta iota. rewrite Ty, (proj1 AE). cbn [ttype_eqb].
    unfold bind at 1. unfold bind at 1. rewrite (txt_ok src tk _ st1 Sx). cbv beta iota.
    destruct (arel_kw_key "ENDEXT" aE K_EndExtension AE ltac:(vm_compute; reflexivity)) as [_ Kp]. rewrite Kp.
    unfold ret at 1. cbv beta iota. change (LefKey_eqb K_EndExtension K_EndExtension) with true. cbv iota.
    apply post_ret; [exact Hs1 | exact Hv1 |]. cbn [flat_map]. rewrite app_nil_r. reflexivity.
  - apply LefRt_Forall2_cons_inv in F. destruct F as (a & at' & -> & A & F).
    inversion TF as [|? ? Tf TF']; subst. cbn [app List.length] in *.
    destruct f as [|f]; [lia|]. cbn [ext_loop].
    destruct (next_token_ok src st a _ Hs) as (tk & st1 & E & Hs1 & Hv1 & Ty & Sx).
    destruct (raw_ty_cases t a A) as [Sa Tcases]. rewrite Sa in Sx.
    unfold bind at 1. rewrite E. cbv beta iota.
    assert (Rec : post rest (p_ver st) (eq (data ++ flat_map (fun t0 => t0 ++ [32]) (t :: toks)))
                    ((s <- txt src tk;; ext_loop cf src f (data ++ s ++ [32])) st1)).
    { rewrite <- Hv1. unfold bind at 1. rewrite (txt_ok src tk _ st1 Sx). cbv beta iota.
      eapply post_weaken; [|eapply (IH at' F TF' aE AE f (data ++ t ++ [32]) st1 rest Hs1); lia].
      cbv beta. intros ? <-. cbn [flat_map]. rewrite <- !app_assoc. reflexivity. }
    assert (Rec' : p_ver st1 = p_ver st) by exact Hv1.
    rewrite Ty.
    destruct Tcases as [T1|[T1|[T1|T1]]]; rewrite T1; cbn [ttype_eqb].
    + unfold bind at 1. unfold ret at 1. cbv beta iota. exact Rec.
    + unfold bind at 1. unfold bind at 1. rewrite (txt_ok src tk _ st1 Sx). cbv beta iota.
      destruct (LefKey_parse t) as [key|] eqn:Kp.
      * unfold ret at 1. cbv beta iota. rewrite (not_endext t key Kp Tf). cbv iota. exact Rec.
      * unfold bind at 1. rewrite (fail_ignored_ok src Hsrc st1 _ Hs1). cbv beta iota. unfold ret at 1. cbv beta iota. exact Rec.
    + unfold bind at 1. unfold ret at 1. cbv beta iota. exact Rec.
    + unfold bind at 1. unfold ret at 1. cbv beta iota. exact Rec.
Qed.


(** ** The library loop. The blocks proved elsewhere enter as parameters. *)
Section LibLoop.
Variable units_toksP : lef_units -> list atok -> Prop.
Variable via_toksP : lef_via_def -> list atok -> Prop.
Variable site_toksP : lef_site -> list atok -> Prop.
Variable macro_toksP : lef_macro -> list atok -> Prop.
Hypothesis parse_units_P : forall u atoks, units_toksP u atoks ->
  spec (parse_units cf src) atoks Any (fun u' => lef_units_eqb dec_eq u u' = true).
Hypothesis units_toksP_head : forall u atoks, units_toksP u atoks -> exists a0 at', atoks = a0 :: at' /\ arel (SKw "UNITS") a0.
Hypothesis parse_via_P : forall v atoks, via_toksP v atoks ->
  spec (parse_via cf src) atoks Any (fun v' => lef_via_def_eqb dec_eq v v' = true).
Hypothesis via_toksP_head : forall v atoks, via_toksP v atoks -> exists a0 at', atoks = a0 :: at' /\ arel (SKw "VIA") a0.
Hypothesis parse_site_P : forall s atoks, site_toksP s atoks ->
  spec (parse_site_def cf src) atoks Any (fun s' => lef_site_eqb dec_eq s s' = true).
Hypothesis site_toksP_head : forall s atoks, site_toksP s atoks -> exists a0 at', atoks = a0 :: at' /\ arel (SKw "SITE") a0.
Hypothesis parse_macro_P : forall m atoks, macro_toksP m atoks ->
  specv (parse_macro cf src) atoks Any (fun v => mac_source m <> None -> dec_gt v V5P4 = false)
        (fun m' => lef_macro_eqb dec_eq m m' = true).
Hypothesis macro_toksP_head : forall m atoks, macro_toksP m atoks -> exists a0 at', atoks = a0 :: at' /\ arel (SKw "MACRO") a0.

Inductive libstmt :=
| LNcs (v : LefOnOff) | LNowire (v : LefOnOff) | LBus (c1 c2 : Z) | LDiv (c : Z) | LUnits (u : lef_units)
| LGrid (d : dec) | LUms (v : LefOnOff) | LClr (v : LefClearanceStyle) | LPropdefs (pds : list lef_propdef)
| LFixedMask | LVia (v : lef_via_def) | LSite (s : lef_site) | LMacro (m : lef_macro) | LExt (e : lef_extension).
Definition lib_kind (s : libstmt) : nat :=
  match s with
  | LNcs _ => 0 | LNowire _ => 1 | LBus _ _ => 2 | LDiv _ => 3 | LUnits _ => 4 | LGrid _ => 5 | LUms _ => 6 | LClr _ => 7
  | LPropdefs _ => 8 | LFixedMask => 9 | LVia _ => 10 | LSite _ => 11 | LMacro _ => 12 | LExt _ => 13
  end%nat.
Definition lib_stmt_toksP (s : libstmt) (at_ : list atok) : Prop :=
  match s with
  | LNcs v => Forall2 arel [K "NAMESCASESENSITIVE"; K (s_onoff v); SSemi] at_
  | LNowire v => Forall2 arel [K "NOWIREEXTENSIONATPIN"; K (s_onoff v); SSemi] at_
  | LBus c1 c2 => exists a0 a1 a2 q1 q2, at_ = [a0; a1; a2] /\ arel (SKw "BUSBITCHARS") a0 /\ fst a1 = TString
                                          /\ chars_of (snd a1) = [q1; c1; c2; q2] /\ arel SSemi a2
  | LDiv c => exists a0 a1 a2 q1 q2, at_ = [a0; a1; a2] /\ arel (SKw "DIVIDERCHAR") a0 /\ fst a1 = TString
                                      /\ chars_of (snd a1) = [q1; c; q2] /\ arel SSemi a2
  | LUnits u => units_toksP u at_
  | LGrid d => Forall2 arel [K "MANUFACTURINGGRID"; SNum d; SSemi] at_
  | LUms v => Forall2 arel [K "USEMINSPACING"; K "OBS"; K (s_onoff v); SSemi] at_
  | LClr v => Forall2 arel [K "CLEARANCEMEASURE"; K (s_clearance v); SSemi] at_
  | LPropdefs pds => exists a0 atL aE aP, at_ = a0 :: concat atL ++ [aE; aP] /\ arel (SKw "PROPERTYDEFINITIONS") a0
                        /\ Forall2 (fun p ap => Forall2 arel (t_propdef p) ap /\ propdef_struct_ok p) pds atL
                        /\ arel (SKw "END") aE /\ arel (SKw "PROPERTYDEFINITIONS") aP
  | LFixedMask => Forall2 arel [K "FIXEDMASK"; SSemi] at_
  | LVia v => via_toksP v at_
  | LSite s => site_toksP s at_
  | LMacro m => macro_toksP m at_
  | LExt e => exists toks, ext_data e = flat_map (fun t => t ++ [32]) toks /\ Forall ext_tok_free toks
                           /\ (exists r, ext_name e = 34 :: r)
                           /\ Forall2 arel ([K "BEGINEXT"; SRaw (ext_name e)] ++ map SRaw toks ++ [K "ENDEXT"]) at_
  end.
Definition lib_old_ok (v : dec) (s : libstmt) : Prop :=
  match s with
  | LNcs _ | LNowire _ => dec_gt v V5P4 = false
  | LMacro m => mac_source m <> None -> dec_gt v V5P4 = false
  | _ => True
  end.
Definition libstep (s : libstmt) (l l' : lef_lib) : Prop :=
  match s with
  | LNcs v => l' = set_lib_names_case_sensitive (Some v) l
  | LNowire v => l' = set_lib_no_wire_extension_at_pin (Some v) l
  | LBus c1 c2 => l' = set_lib_bus_bit_chars (Some (c1, c2)) l
  | LDiv c => l' = set_lib_divider_char (Some c) l
  | LUnits u => exists u', lef_units_eqb dec_eq u u' = true /\ l' = set_lib_units (Some u') l
  | LGrid d => exists d', dec_eq d d' = true /\ l' = set_lib_manufacturing_grid (Some d') l
  | LUms v => l' = set_lib_use_min_spacing (Some v) l
  | LClr v => l' = set_lib_clearance_measure (Some v) l
  | LPropdefs pds => exists pds', list_eqb (lef_propdef_eqb dec_eq) pds pds' = true
                                  /\ l' = set_lib_property_definitions (lib_property_definitions l ++ pds') l
  | LFixedMask => l' = set_lib_fixed_mask true l
  | LVia v => exists v', lef_via_def_eqb dec_eq v v' = true /\ l' = set_lib_vias (lib_vias l ++ [v']) l
  | LSite s => exists s', lef_site_eqb dec_eq s s' = true /\ l' = set_lib_sites (lib_sites l ++ [s']) l
  | LMacro m => exists m', lef_macro_eqb dec_eq m m' = true /\ l' = set_lib_macros (lib_macros l ++ [m']) l
  | LExt e => l' = set_lib_extensions (lib_extensions l ++ [e]) l
  end.

(** how the statement list ends: `END LIBRARY`, or the end of the input for versions >= 5.6 *)
Definition lib_end (tail rest : list atok) (v : dec) : Prop :=
  (exists aE aL, tail = [aE; aL] /\ arel (SKw "END") aE /\ arel (SKw "LIBRARY") aL)
  \/ (tail = [] /\ rest = [] /\ dec_ge v V5P6 = true).

Lemma lib_stmt_nonempty : forall s at_, lib_stmt_toksP s at_ -> (1 <= List.length at_)%nat.
Proof.
  intros s at_ H. destruct s; cbn [lib_stmt_toksP] in H; unfold K in H;
    try (apply LefRt_Forall2_cons_inv in H; destruct H as (? & ? & -> & _); cbn; lia).
  - destruct H as (? & ? & ? & ? & ? & -> & _). cbn. lia.
  - destruct H as (? & ? & ? & ? & ? & -> & _). cbn. lia.
  - destruct (units_toksP_head _ _ H) as (? & ? & -> & _). cbn. lia.
  - destruct H as (? & ? & ? & ? & -> & _). cbn. lia.
  - destruct (via_toksP_head _ _ H) as (? & ? & -> & _). cbn. lia.
  - destruct (site_toksP_head _ _ H) as (? & ? & -> & _). cbn. lia.
  - destruct (macro_toksP_head _ _ H) as (? & ? & -> & _). cbn. lia.
  - destruct H as (toks & _ & _ & _ & H). cbn [app] in H. apply LefRt_Forall2_cons_inv in H. destruct H as (? & ? & -> & _). cbn. lia.
Qed.

Definition lpost (L : list libstmt) (lib : lef_lib) (r : res (lef_lib * pst)) : Prop :=
  exists lib' st', r = Ok (lib', st') /\ steps libstep L lib lib'.

Lemma lib_loop_ok : forall L atL, Forall2 lib_stmt_toksP L atL -> forall f lib st tail rest,
  Forall (lib_old_ok (p_ver st)) L -> lib_end tail rest (p_ver st) ->
  sees st (concat atL ++ tail ++ rest) -> (List.length (concat atL ++ tail ++ rest) < f)%nat ->
  lpost L lib (lib_loop cf src f lib st).
Proof.
  induction L as [|x L IH]; intros atL FL f lib st tail rest OLD LE Hs Lf.
  - inversion FL; subst. cbn [concat app] in *. destruct f as [|f]; [lia|]. cbn [lib_loop]. unfold bind at 1, get at 1.
    destruct LE as [(aE & aL & -> & AE & AL)|(-> & -> & GE)].
    + cbn [app] in Hs. destruct (peek_token_cons src st aE _ Hs) as (t & -> & _).
      destruct (arel_kw_key _ _ _ AE ltac:(vm_compute; reflexivity)) as [Ty Kp].
      unfold bind at 1. rewrite (peek_key_ok src st aE _ _ Hs Ty Kp). cbv beta iota.
      assert (G : post rest (p_ver st) (eq lib) ((advance;;; expect_key cf src K_Library;;; ret lib) st)).
      { pstep. pstep. pret. reflexivity. }
      destruct G as (b & st' & E & _ & _ & <-). exists lib, st'. split; [exact E | reflexivity].
    + cbn [app] in Hs. rewrite (peek_token_nil src st Hs), GE. exists lib, st. split; reflexivity.
  - inversion FL as [|x' at_x L' atL' Fx FL']; subst. cbn [concat] in *. rewrite <- app_assoc in Hs.
    inversion OLD as [|? ? Ox OLD']; subst.
    pose proof (lib_stmt_nonempty x at_x Fx) as NE.
    destruct f as [|f]; [lia|]. cbn [lib_loop]. unfold bind at 1, get at 1. cbv beta.
    assert (Pk : exists t, peek_token st = Some t).
    { destruct at_x as [|a0 at']; [cbn in NE; lia|]. cbn [app] in Hs. destruct (peek_token_cons src st a0 _ Hs) as (t & E & _). eauto. }
    destruct Pk as [t0 Pk]. rewrite Pk.
    (* continuation: after the statement, the loop goes on *)
    assert (Cont : forall lib1 st1, sees st1 (concat atL' ++ tail ++ rest) -> p_ver st1 = p_ver st -> libstep x lib lib1 ->
              lpost (x :: L) lib (lib_loop cf src f lib1 st1)).
    { intros lib1 st1 Hs1 Hv1 St1.
      destruct (IH atL' FL' f lib1 st1 tail rest) as (lib' & st' & E & S').
      - rewrite Hv1. exact OLD'.
      - rewrite Hv1. exact LE.
      - exact Hs1.
      - rewrite !app_length in *. lia.
      - exists lib', st'. split; [exact E|]. cbn [steps]. exists lib1. split; assumption. }
    destruct x; cbn [lib_stmt_toksP lib_old_ok libstep] in *; unfold K in Fx.
    + (* NAMESCASESENSITIVE *)
      inv_arel. cbn [app] in Hs.
      destruct (arel_kw_key _ _ _ A ltac:(vm_compute; reflexivity)) as [Ty Kp].
      unfold bind at 1. rewrite (peek_key_ok src st a _ _ Hs Ty Kp). cbv beta iota. rewrite Ox. unfold when.
      assert (G : post (concat atL' ++ tail ++ rest) (p_ver st) (eq v)
                    ((ret tt;;; advance;;; e <- onoff_stmt cf src;; ret e) st)).
      { pstep. pstep. unfold onoff_stmt. destruct v; cbn [s_onoff] in *; pstep; pstep; pstep; pstep; pret; reflexivity. }
      destruct G as (b & st1 & E & Hs1 & Hv1 & <-).
      unfold bind in E |- *. unfold ret in E at 1. unfold ret at 1.
      destruct (advance st) as [[u sa]| | | |]; try discriminate.
      destruct (onoff_stmt cf src sa) as [[e sb]| | | |]; try discriminate. unfold ret in E. injection E as <- <-.
      apply Cont; auto.
    + (* NOWIREEXTENSIONATPIN *)
      inv_arel. cbn [app] in Hs.
      destruct (arel_kw_key _ _ _ A ltac:(vm_compute; reflexivity)) as [Ty Kp].
      unfold bind at 1. rewrite (peek_key_ok src st a _ _ Hs Ty Kp). cbv beta iota.
      cbn [c_nowire_ungated cfg_fixed negb andb]. rewrite Ox. unfold when.
      assert (G : post (concat atL' ++ tail ++ rest) (p_ver st) (eq v)
                    ((ret tt;;; advance;;; e <- onoff_stmt cf src;; ret e) st)).
      { pstep. pstep. unfold onoff_stmt. destruct v; cbn [s_onoff] in *; pstep; pstep; pstep; pstep; pret; reflexivity. }
      destruct G as (b & st1 & E & Hs1 & Hv1 & <-).
      unfold bind in E |- *. unfold ret in E at 1. unfold ret at 1.
      destruct (advance st) as [[u sa]| | | |]; try discriminate.
      destruct (onoff_stmt cf src sa) as [[e sb]| | | |]; try discriminate. unfold ret in E. injection E as <- <-.
      apply Cont; auto.
    + (* BUSBITCHARS *)
      destruct Fx as (a0 & a1 & a2 & q1 & q2 & -> & A0 & Ty1 & Ch & A2). cbn [app] in Hs.
      destruct (arel_kw_key _ _ _ A0 ltac:(vm_compute; reflexivity)) as [Ty Kp].
      unfold bind at 1. rewrite (peek_key_ok src st a0 _ _ Hs Ty Kp). cbv beta iota.
      destruct (parse_bus_bit_chars_ok a0 a1 a2 q1 c1 c2 q2 A0 Ty1 Ch A2 st _ I Hs) as (b & st1 & E & Hs1 & Hv1 & <-).
      unfold bind at 1. rewrite E. apply Cont; auto.
    + (* DIVIDERCHAR *)
      destruct Fx as (a0 & a1 & a2 & q1 & q2 & -> & A0 & Ty1 & Ch & A2). cbn [app] in Hs.
      destruct (arel_kw_key _ _ _ A0 ltac:(vm_compute; reflexivity)) as [Ty Kp].
      unfold bind at 1. rewrite (peek_key_ok src st a0 _ _ Hs Ty Kp). cbv beta iota.
      destruct (parse_divider_char_ok a0 a1 a2 q1 c q2 A0 Ty1 Ch A2 st _ I Hs) as (b & st1 & E & Hs1 & Hv1 & <-).
      unfold bind at 1. rewrite E. apply Cont; auto.
    + (* UNITS *)
      destruct (units_toksP_head _ _ Fx) as (a0 & at' & Eat & A0).
      assert (Hs' := Hs). rewrite Eat in Hs'. cbn [app] in Hs'.
      destruct (arel_kw_key _ _ _ A0 ltac:(vm_compute; reflexivity)) as [Ty Kp].
      unfold bind at 1. rewrite (peek_key_ok src st a0 _ _ Hs' Ty Kp). cbv beta iota.
      destruct (parse_units_P u at_x Fx st _ I Hs) as (b & st1 & E & Hs1 & Hv1 & Q).
      unfold bind at 1. rewrite E. apply Cont; eauto.
    + (* MANUFACTURINGGRID *)
      inv_arel. cbn [app] in Hs.
      destruct (arel_kw_key _ _ _ A ltac:(vm_compute; reflexivity)) as [Ty Kp].
      unfold bind at 1. rewrite (peek_key_ok src st a _ _ Hs Ty Kp). cbv beta iota.
      assert (G : post (concat atL' ++ tail ++ rest) (p_ver st) (fun d' => dec_eq d d' = true)
                    ((advance;;; n <- parse_number cf src;; expect_semi cf src;;; ret n) st)).
      { pstep. pstep. pstep. pret. deq. }
      destruct G as (b & st1 & E & Hs1 & Hv1 & Q).
      unfold bind in E |- *.
      destruct (advance st) as [[u sa]| | | |]; try discriminate.
      destruct (parse_number cf src sa) as [[n sb]| | | |]; try discriminate.
      destruct (expect_semi cf src sb) as [[u2 sc]| | | |]; try discriminate. unfold ret in E. injection E as <- <-.
      apply Cont; eauto.
    + (* USEMINSPACING OBS *)
      inv_arel. cbn [app] in Hs.
      destruct (arel_kw_key _ _ _ A ltac:(vm_compute; reflexivity)) as [Ty Kp].
      unfold bind at 1. rewrite (peek_key_ok src st a _ _ Hs Ty Kp). cbv beta iota.
      assert (G : post (concat atL' ++ tail ++ rest) (p_ver st) (eq v)
                    ((advance;;; expect_key cf src K_Obs;;; e <- onoff_stmt cf src;; ret e) st)).
      { pstep. pstep. unfold onoff_stmt. destruct v; cbn [s_onoff] in *; pstep; pstep; pstep; pstep; pret; reflexivity. }
      destruct G as (b & st1 & E & Hs1 & Hv1 & <-).
      unfold bind in E |- *.
      destruct (advance st) as [[u sa]| | | |]; try discriminate.
      destruct (expect_key cf src K_Obs sa) as [[u1 sa1]| | | |]; try discriminate.
      destruct (onoff_stmt cf src sa1) as [[e sb]| | | |]; try discriminate. unfold ret in E. injection E as <- <-.
      apply Cont; auto.
    + (* CLEARANCEMEASURE *)
      inv_arel. cbn [app] in Hs.
      destruct (arel_kw_key _ _ _ A ltac:(vm_compute; reflexivity)) as [Ty Kp].
      unfold bind at 1. rewrite (peek_key_ok src st a _ _ Hs Ty Kp). cbv beta iota.
      assert (G : post (concat atL' ++ tail ++ rest) (p_ver st) (eq v)
                    ((advance;;; e <- parse_enum cf src LefClearanceStyle_from_str;; expect_semi cf src;;; ret e) st)).
      { pstep. destruct v; cbn [s_clearance] in *; pstep; pstep; pret; reflexivity. }
      destruct G as (b & st1 & E & Hs1 & Hv1 & <-).
      unfold bind in E |- *.
      destruct (advance st) as [[u sa]| | | |]; try discriminate.
      destruct (parse_enum cf src LefClearanceStyle_from_str sa) as [[e sb]| | | |]; try discriminate.
      destruct (expect_semi cf src sb) as [[u2 sc]| | | |]; try discriminate. unfold ret in E. injection E as <- <-.
      apply Cont; auto.
    + (* PROPERTYDEFINITIONS *)
      destruct Fx as (a0 & atP & aE & aP & -> & A0 & FP & AE & AP). cbn [app] in Hs. rewrite <- app_assoc in Hs.
      destruct (arel_kw_key _ _ _ A0 ltac:(vm_compute; reflexivity)) as [Ty Kp].
      unfold bind at 1. rewrite (peek_key_ok src st a0 _ _ Hs Ty Kp). cbv beta iota.
      assert (G : post (concat atL' ++ tail ++ rest) (p_ver st)
                    (fun l => list_eqb (lef_propdef_eqb dec_eq) pds l = true) (parse_property_definitions cf src st)).
      { unfold parse_property_definitions. pstep. pstep. pstep.
        match goal with Hx : LefRtFrame_proofs.sees src ?s (concat atP ++ [aE; aP] ++ ?r) |- _ =>
          rewrite (app_assoc (concat atP) [aE; aP] r) in Hx end.
        lazymatch goal with |- LefRtFrame_proofs.post _ _ _ _ (bind (propdefs_loop _ _ (fuel_of ?s) ?acc) _ _) =>
          pb (propdefs_loop_ok pds atP FP aE aP AE AP (fuel_of s) acc) end.
        { match goal with Hx : LefRtFrame_proofs.sees src ?s _ |- context [fuel_of ?s] => rewrite (fuel_of_sees src _ _ Hx) end.
          rewrite !app_length. cbn [List.length]. lia. }
        pstep. pret. match goal with q : exists _, _ |- _ => destruct q as (l1 & -> & El) end. exact El. }
      destruct G as (b & st1 & E & Hs1 & Hv1 & Q).
      unfold bind at 1. rewrite E. apply Cont; eauto.
    + (* FIXEDMASK *)
      inv_arel. cbn [app] in Hs.
      destruct (arel_kw_key _ _ _ A ltac:(vm_compute; reflexivity)) as [Ty Kp].
      unfold bind at 1. rewrite (peek_key_ok src st a _ _ Hs Ty Kp). cbv beta iota.
      assert (G : post (concat atL' ++ tail ++ rest) (p_ver st) Tt ((advance;;; expect_semi cf src) st)).
      { pstep. pb_tail (semi_expect src a0 A0). auto. }
      destruct G as (b & st1 & E & Hs1 & Hv1 & _).
      unfold bind in E |- *.
      destruct (advance st) as [[u sa]| | | |]; try discriminate. rewrite E.
      apply Cont; auto.
    + (* VIA *)
      destruct (via_toksP_head _ _ Fx) as (a0 & at' & Eat & A0).
      assert (Hs' := Hs). rewrite Eat in Hs'. cbn [app] in Hs'.
      destruct (arel_kw_key _ _ _ A0 ltac:(vm_compute; reflexivity)) as [Ty Kp].
      unfold bind at 1. rewrite (peek_key_ok src st a0 _ _ Hs' Ty Kp). cbv beta iota.
      destruct (parse_via_P v at_x Fx st _ I Hs) as (b & st1 & E & Hs1 & Hv1 & Q).
      unfold bind at 1. rewrite E. apply Cont; eauto.
    + (* SITE *)
      destruct (site_toksP_head _ _ Fx) as (a0 & at' & Eat & A0).
      assert (Hs' := Hs). rewrite Eat in Hs'. cbn [app] in Hs'.
      destruct (arel_kw_key _ _ _ A0 ltac:(vm_compute; reflexivity)) as [Ty Kp].
      unfold bind at 1. rewrite (peek_key_ok src st a0 _ _ Hs' Ty Kp). cbv beta iota.
      destruct (parse_site_P s at_x Fx st _ I Hs) as (b & st1 & E & Hs1 & Hv1 & Q).
      unfold bind at 1. rewrite E. apply Cont; eauto.
    + (* MACRO *)
      destruct (macro_toksP_head _ _ Fx) as (a0 & at' & Eat & A0).
      assert (Hs' := Hs). rewrite Eat in Hs'. cbn [app] in Hs'.
      destruct (arel_kw_key _ _ _ A0 ltac:(vm_compute; reflexivity)) as [Ty Kp].
      unfold bind at 1. rewrite (peek_key_ok src st a0 _ _ Hs' Ty Kp). cbv beta iota.
      destruct (parse_macro_P m at_x Fx st _ I Ox Hs) as (b & st1 & E & Hs1 & Hv1 & Q).
      unfold bind at 1. rewrite E. apply Cont; eauto.
    + (* BEGINEXT *)
      destruct Fx as (toks & Ed & TF & (r0 & En) & Fx). cbn [app] in Fx.
      apply LefRt_Forall2_cons_inv in Fx. destruct Fx as (a0 & at0 & -> & A0 & Fx).
      apply LefRt_Forall2_cons_inv in Fx. destruct Fx as (a1 & at1 & -> & A1 & Fx).
      apply Forall2_app_inv_l in Fx. destruct Fx as (at2 & at3 & F2 & F3 & ->). inv_arel.
      cbn [app] in Hs. repeat rewrite <- app_assoc in Hs. cbn [app] in Hs.
      destruct (arel_kw_key _ _ _ A0 ltac:(vm_compute; reflexivity)) as [Ty Kp].
      unfold bind at 1. rewrite (peek_key_ok src st a0 _ _ Hs Ty Kp). cbv beta iota.
      destruct A1 as [S1 T1]. rewrite En in T1. cbn in T1.
      assert (G : post (concat atL' ++ tail ++ rest) (p_ver st) (eq e)
                    ((advance;;; vt <- expect cf src TString;; name <- txt src vt;; st1 <- get;;
                      data <- ext_loop cf src (fuel_of st1) [];; ret (Build_lef_extension name data)) st)).
      { pstep. pb (expect_spec_ok src TString a1 T1).
        match goal with q : substr src _ = Some _ |- _ => unfold bind at 1; rewrite (txt_ok src _ _ _ q); cbv beta iota end.
        pstep.
        match goal with Hx : LefRtFrame_proofs.sees src ?s (at2 ++ a :: _) |- _ =>
          pose proof (ext_loop_ok toks at2 F2 TF a A (fuel_of s) [] s _ Hx) as EL end.
        match type of EL with ?c -> _ => assert (C : c) end.
        { match goal with Hx : LefRtFrame_proofs.sees src ?s _ |- context [fuel_of ?s] => rewrite (fuel_of_sees src _ _ Hx) end.
          rewrite !app_length. cbn [List.length]. rewrite !app_length. lia. }
        specialize (EL C). destruct EL as (d & st9 & Ee & Hs9 & Hv9 & <-).
        unfold bind at 1. rewrite Ee. cbv beta iota. apply post_ret; [exact Hs9 | congruence |].
        cbn [app]. rewrite S1, <- Ed. destruct e; reflexivity. }
      destruct G as (b & st1 & E & Hs1 & Hv1 & <-).
      unfold bind in E |- *.
      destruct (advance st) as [[u sa]| | | |]; try discriminate.
      destruct (expect cf src TString sa) as [[vt sb]| | | |]; try discriminate.
      destruct (txt src vt sb) as [[nm sc]| | | |]; try discriminate. unfold get in E |- *.
      destruct (ext_loop cf src (fuel_of sc) [] sc) as [[dt sd]| | | |]; try discriminate.
      unfold ret in E. injection E as <- <-.
      apply Cont; auto.
Qed.

End LibLoop.

End Lib.
