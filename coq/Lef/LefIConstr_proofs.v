(** C05, reader-image side: worked examples (points, geometries, LAYER blocks). *)
From Coq Require Import String.
From Coq Require Import ZArith List Bool Lia.
From L21 Require Import Lef.LefDec Lef.LefData Lef.LefLex Lef.LefParse Lef.LefSpec Lef.LefCheck
                        Lef.LefLex_proofs Lef.LefParse_proofs Lef.LefRtLex_proofs Lef.LefRtFrame_proofs
                        Lef.LefRtLib_proofs Lef.LefWDec_proofs Lef.LefWFrame_proofs Lef.LefIFrame_proofs.
Import ListNotations.
Local Open Scope list_scope.
Local Open Scope Z_scope.

Section ImgConstr.
Variable src : bytes.
Hypothesis Hsrc : starts_on_boundary src = true.
Notation cf := cfg_fixed.
Notation ispec := (ispec src).
Notation iR := (iR src).
Notation isees := (isees src).

(** loops: by induction on the fuel; the accumulator carries the invariant *)
Global Instance point_list_loop_ispec f : forall acc,
  ispec (point_list_loop cf src f acc) (fun ps c a' => Forall point_wr acc -> Forall point_wr ps /\ (List.length acc <= List.length ps)%nat).
Proof.
  induction f as [|f IH]; intros acc st a Hs; [exact I|]. cbn [point_list_loop].
  istep. cbn [c_points_to_semi cfg_fixed]. destruct (matches TNumber st).
  - istep. eapply iR_weaken; [|eapply iR_spec; [eapply (IH (acc ++ [x])) | eassumption | congruence]].
    cbv beta. intros ps cc aa _ HH Fa. destruct HH as [F L].
    + apply Forall_app. split; [exact Fa | constructor; [apply q | constructor]].
    + split; [exact F|]. rewrite app_length in L. cbn in L. lia.
  - iret. intros Fa. split; [exact Fa | lia].
Qed.
Global Instance parse_point_list_ispec :
  ispec (parse_point_list cf src) (fun ps c a' => Forall point_wr ps).
Proof.
  intros st a Hs. unfold parse_point_list. istep.
  eapply iR_weaken; [|eapply iR_spec; [eapply (point_list_loop_ispec (fuel_of st) []) | eassumption | reflexivity]].
  cbv beta. intros ps cc aa _ HH. apply HH. constructor.
Qed.

Global Instance parse_geometry_mask_ispec : ispec (parse_geometry_mask cf src) (fun m c a' => optP dec_wf m).
Proof.
  intros st a Hs. unfold parse_geometry_mask. istep. destruct (matches TName st); [|iret; exact I].
  istep. destruct (LefKey_eqb key K_Mask); [|iret; exact I].
  istep. istep. iret. apply q0.
Qed.
Global Instance parse_iterate_ispec : ispec (parse_iterate cf src) (fun _ c a' => True).
Proof.
  intros st a Hs. unfold parse_iterate. istep. destruct (matches TName st); [|iret; exact I].
  istep. destruct (LefKey_eqb key K_Iterate); [|iret; exact I]. istep. iret. exact I.
Qed.
Global Instance parse_step_pattern_ispec : ispec (parse_step_pattern cf src) (fun p c a' => step_wr p).
Proof.
  intros st a Hs. unfold parse_step_pattern. do 7 istep. iret.
  repeat match goal with H : dec_wf _ /\ _ |- _ => destruct H as [H _] end. unfold step_wr. cbn. isplit; assumption.
Qed.
Global Instance parse_geometry_tail_ispec it sh : ispec (parse_geometry_tail cf src it sh)
  (fun g c a' => shape_wr sh -> geometry_wr g).
Proof.
  intros st a Hs. unfold parse_geometry_tail. destruct it.
  - istep. istep. iret. intros S. split; assumption.
  - istep. iret. intros S. exact S.
Qed.
Global Instance parse_geometry_ispec : ispec (parse_geometry cf src) (fun g c a' => geometry_wr g).
Proof.
  intros st a Hs. unfold parse_geometry. istep. destruct x; try apply iR_fail.
  - (* PATH *)
    istep. istep. istep. unfold when. destruct (Nat.ltb (List.length x1) 2) eqn:L; [istep|].
    istep. eapply iR_tail; [typeclasses eauto | eassumption | congruence|].
    cbv beta. intros g cc aa _ G. apply G. apply Nat.ltb_ge in L. cbn. isplit; assumption.
  - (* POLYGON *)
    istep. istep. istep. unfold when. destruct (Nat.ltb (List.length x1) 3) eqn:L; [istep|].
    istep. eapply iR_tail; [typeclasses eauto | eassumption | congruence|].
    cbv beta. intros g cc aa _ G. apply G. apply Nat.ltb_ge in L. cbn. isplit; assumption.
  - (* RECT *)
    istep. istep. istep. istep. eapply iR_tail; [typeclasses eauto | eassumption | congruence|].
    cbv beta. intros g cc aa _ G. apply G.
    repeat match goal with H : point_wr _ /\ _ |- _ => destruct H as [H _] end. cbn. isplit; assumption.
Qed.

(** LAYER blocks: the record under construction carries the invariant *)
Definition layer_inv (lg : lef_layer_geoms) : Prop :=
  name_tok (lg_layer_name lg) /\ Forall geometry_wr (lg_geometries lg) /\ Forall via_inst_wr (lg_vias lg)
  /\ lg_except_pg_net lg <> Some false /\ optP spacing_wr (lg_spacing lg) /\ optP dec_wf (lg_width lg).
Lemma layer_inv_wr : forall lg, layer_inv lg -> layer_wr lg.
Proof. intros lg H. exact H. Qed.

Global Instance layer_opts_loop_ispec f : forall lg,
  ispec (layer_opts_loop cf src f lg) (fun lg' c a' => layer_inv lg -> layer_inv lg').
Proof.
  induction f as [|f IH]; intros lg st a Hs; [exact I|]. cbn [layer_opts_loop].
  istep. destruct (negb (matches TSemi st)); [|iret; auto].
  istep. destruct x; try apply iR_fail.
  - eapply iR_weaken; [|eapply iR_spec; [eapply IH | eassumption | congruence]].
    cbv beta. intros lg' cc aa _ G I0. apply G. destruct lg; destruct I0 as (? & ? & ? & ? & ? & ?); unfold layer_inv; cbn in *; isplit; auto. discriminate.
  - istep. eapply iR_weaken; [|eapply iR_spec; [eapply IH | eassumption | congruence]].
    cbv beta. intros lg' cc aa _ G I0. apply G. destruct lg; destruct I0 as (? & ? & ? & ? & ? & ?); unfold layer_inv; cbn in *; isplit; auto. apply q0.
  - istep. eapply iR_weaken; [|eapply iR_spec; [eapply IH | eassumption | congruence]].
    cbv beta. intros lg' cc aa _ G I0. apply G. destruct lg; destruct I0 as (? & ? & ? & ? & ? & ?); unfold layer_inv; cbn in *; isplit; auto. apply q0.
Qed.
Global Instance layer_body_loop_ispec f : forall lg,
  ispec (layer_body_loop cf src f lg) (fun lg' c a' => layer_inv lg -> layer_inv lg').
Proof.
  induction f as [|f IH]; intros lg st a Hs; [exact I|]. cbn [layer_body_loop].
  istep. destruct (peek_token st) as [t|]; [|iret; auto].
  istep. destruct key; try apply iR_fail; try (iret; auto; fail).
  - (* PATH *) istep. eapply iR_weaken; [|eapply iR_spec; [eapply IH | eassumption | congruence]].
    cbv beta. intros lg' cc aa _ G I0. apply G. destruct lg; destruct I0 as (? & ? & ? & ? & ? & ?); unfold layer_inv; cbn in *; isplit; auto.
    apply Forall_app. split; [assumption | constructor; [assumption | constructor]].
  - (* POLYGON *) istep. eapply iR_weaken; [|eapply iR_spec; [eapply IH | eassumption | congruence]].
    cbv beta. intros lg' cc aa _ G I0. apply G. destruct lg; destruct I0 as (? & ? & ? & ? & ? & ?); unfold layer_inv; cbn in *; isplit; auto.
    apply Forall_app. split; [assumption | constructor; [assumption | constructor]].
  - (* RECT *) istep. eapply iR_weaken; [|eapply iR_spec; [eapply IH | eassumption | congruence]].
    cbv beta. intros lg' cc aa _ G I0. apply G. destruct lg; destruct I0 as (? & ? & ? & ? & ? & ?); unfold layer_inv; cbn in *; isplit; auto.
    apply Forall_app. split; [assumption | constructor; [assumption | constructor]].
  - (* VIA *) istep. istep. unfold when. destruct (matches TName st0); [istep|]. istep. istep. istep. istep.
    eapply iR_weaken; [|eapply iR_spec; [eapply IH | eassumption | congruence]].
    cbv beta. intros lg' cc aa _ G I0. apply G. destruct lg; destruct I0 as (? & ? & ? & ? & ? & ?); unfold layer_inv; cbn in *; isplit; auto.
    apply Forall_app. split; [assumption | constructor; [|constructor]]. split; cbn.
    + match goal with q : _ = [(TName, ?n)] /\ tok_fact _ _ |- name_tok ?n => exact (tok_fact_name _ _ (proj2 q)) end.
    + match goal with q : point_wr ?p /\ _ |- point_wr ?p => exact (proj1 q) end.
  - (* WIDTH *) istep. istep. istep.
    eapply iR_weaken; [|eapply iR_spec; [eapply IH | eassumption | congruence]].
    cbv beta. intros lg' cc aa _ G I0. apply G. destruct lg; destruct I0 as (? & ? & ? & ? & ? & ?); unfold layer_inv; cbn in *; isplit; auto.
    match goal with q : dec_wf ?d /\ _ |- _ => exact (proj1 q) end.
Qed.
Global Instance parse_layer_geometries_ispec : ispec (parse_layer_geometries cf src) (fun l c a' => layer_wr l /\ c <> []).
Proof.
  intros st a Hs. unfold parse_layer_geometries. istep. istep. istep. istep. istep. istep. istep. istep. istep.
  iret. split.
  - match goal with G2 : layer_inv _ -> layer_inv ?l |- layer_wr ?l => apply G2 end.
    match goal with G1 : layer_inv _ -> layer_inv ?l |- layer_inv ?l => apply G1 end.
    unfold layer_inv; cbn; isplit; auto; try apply Forall_nil; try discriminate.
    match goal with q : _ = [(TName, ?n)] /\ tok_fact _ _ |- name_tok ?n => exact (tok_fact_name _ _ (proj2 q)) end.
  - match goal with q : exists b, ?c = [(TName, b)] /\ _ |- _ => destruct q as (? & -> & _) end. discriminate.
Qed.

End ImgConstr.
