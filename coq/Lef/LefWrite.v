(** Model of lef21/src/write.rs: LefWriter (one function per `write_*` / `format_*`), the writer's
    session version gates, and the Display impls it relies on (LefPoint, LefMask, LefPinDirection,
    enumstr! enums, decimals). `write_line` prints the current indentation (four spaces per level), the
    formatted text and a newline. The output is a byte list; [Err (EStr ..)] is the writer's
    `LefError::Str` for a version-gated statement.

    [cfg] (LefParse.v) selects the code as found or as repaired:
    c_w_site_orig: `SITE name ; ` / `CLASS x;` / `END name ; `  vs  `SITE name ` / `CLASS x ;` / `END name `;
    c_w_prop_nosemi: `PROPERTY name value`  vs  `PROPERTY name value ;`.  No proofs in this file. *)
From Coq Require Import ZArith List String Bool.
From L21 Require Import Lef.LefDec Lef.LefData Lef.LefLex Lef.LefParse.
Import ListNotations.
Local Open Scope string_scope.
Local Open Scope list_scope.
Local Open Scope Z_scope.

(** UTF-8 encoding of a scalar value (`char` Display) *)
Definition utf8_enc (c : Z) : bytes :=
  if c <? 128 then [c]
  else if c <? 2048 then [192 + c / 64; 128 + c mod 64]
  else if c <? 65536 then [224 + c / 4096; 128 + (c / 64) mod 64; 128 + c mod 64]
  else [240 + c / 262144; 128 + (c / 4096) mod 64; 128 + (c / 64) mod 64; 128 + c mod 64].

Definition cat (l : list bytes) : bytes := List.concat l.
Definition kw (k : LefKey) : bytes := bytes_of_string (LefKey_to_str k).
Definition sp : bytes := [32].
Definition dstr (d : dec) : bytes := dec_to_bytes d.
Definition pt_str (p : lef_point) : bytes := cat [dstr (pt_x p); sp; dstr (pt_y p)].
Fixpoint join (sep : bytes) (l : list bytes) : bytes :=
  match l with
  | [] => []
  | [x] => x
  | x :: r => x ++ sep ++ join sep r
  end.

(** a line = indentation level and text *)
Definition line := (nat * bytes)%type.
Fixpoint indent_str (n : nat) : bytes := match n with O => [] | S k => [32; 32; 32; 32] ++ indent_str k end.
Definition render_lines (ls : list line) : bytes :=
  List.concat (map (fun l => indent_str (fst l) ++ snd l ++ [10]) ls).

Definition enum_s {T} (to_str : T -> string) (x : T) : bytes := bytes_of_string (to_str x).
Definition dir_str (d : lef_pin_direction) : bytes :=
  match d with
  | DirInput => bs "INPUT" | DirInout => bs "INOUT" | DirFeedThru => bs "FEEDTHRU"
  | DirOutput false => bs "OUTPUT" | DirOutput true => bs "OUTPUT TRISTATE"
  end.

Section Writer.
Variable cf : cfg.

(** `write_symmetries` *)
Definition write_symmetries (i : nat) (s : list LefSymmetry) : list line :=
  [(i, cat [kw K_Symmetry; sp; join sp (map (enum_s LefSymmetry_to_str) s); bs " ;"])].

(** `format_mask`, `format_geom`, `write_geom` *)
Definition format_mask (m : option dec) : list bytes :=
  match m with Some d => [kw K_Mask; dstr d] | None => [] end.
Definition format_geom (shape : lef_shape) (pat : option lef_step) : list bytes :=
  let it := match pat with Some _ => [kw K_Iterate] | None => [] end in
  let body :=
    match shape with
    | ShRect m p0 p1 => [kw K_Rect] ++ format_mask m ++ it ++ [pt_str p0; pt_str p1]
    | ShPolygon m pts => [kw K_Polygon] ++ format_mask m ++ it ++ map pt_str pts
    | ShPath m pts => [kw K_Path] ++ format_mask m ++ it ++ map pt_str pts
    end in
  body ++ match pat with
          | Some p => [kw K_Do; dstr (st_numx p); kw K_By; dstr (st_numy p); kw K_Step;
                       dstr (st_spacex p); dstr (st_spacey p)]
          | None => []
          end.
Definition write_geom (i : nat) (g : lef_geometry) : list line :=
  let words := match g with
               | GIterate shape pat => format_geom shape (Some pat)
               | GShape shape => format_geom shape None
               end in
  [(i, join sp words ++ bs " ;")].

(** `write_layer_geom` *)
Definition write_layer_geom (i : nat) (l : lef_layer_geoms) : list line :=
  let pg := match lg_except_pg_net l with Some true => kw K_ExceptPgNet ++ sp | _ => [] end in
  let sps := match lg_spacing l with
             | Some (LsDesignRuleWidth s) => cat [kw K_DesignRuleWidth; sp; dstr s; sp]
             | Some (LsSpacing s) => cat [kw K_Spacing; sp; dstr s; sp]
             | None => []
             end in
  [(i, cat [kw K_Layer; sp; lg_layer_name l; sp; pg; sps; bs ";"])]
  ++ (match lg_width l with Some v => [(S i, cat [kw K_Width; sp; dstr v; bs " ; "])] | None => [] end)
  ++ flat_map (write_geom (S i)) (lg_geometries l)
  ++ map (fun v => (S i, cat [kw K_Via; sp; pt_str (vi_pt v); sp; vi_via_name v; bs " ;"])) (lg_vias l).

(** `write_via_shape`, `write_via_layer_geom` *)
Definition write_via_shape (i : nat) (s : lef_via_shape) : list line :=
  let maskstr m := match m with Some d => cat [kw K_Mask; sp; dstr d; sp] | None => [] end in
  match s with
  | VsRect m p0 p1 => [(i, cat [kw K_Rect; sp; maskstr m; pt_str p0; sp; pt_str p1; bs " ; "])]
  | VsPolygon m pts => [(i, cat [kw K_Polygon; sp; maskstr m; join sp (map pt_str pts); bs " ;"])]
  end.
Definition write_via_layer_geom (i : nat) (l : lef_via_layer_geoms) : list line :=
  (i, cat [kw K_Layer; sp; vl_layer_name l; bs " ;"]) :: flat_map (write_via_shape (S i)) (vl_shapes l).

(** `write_via` *)
Definition write_via (i : nat) (v : lef_via_def) : list line :=
  [(i, if vd_default v then cat [kw K_Via; sp; vd_name v; sp; kw K_Default] else cat [kw K_Via; sp; vd_name v])]
  ++ (match vd_data v with
      | VdFixed f =>
        (match fv_resistance_ohms f with
         | Some r => [(S i, cat [kw K_Resistance; sp; dstr r; bs " ; "])]
         | None => []
         end) ++ flat_map (write_via_layer_geom (S i)) (fv_layers f)
      | VdGenerated g =>
        [(S i, cat [kw K_ViaRule; sp; gv_via_rule_name g; bs " ; "]);
         (S i, cat [kw K_CutSize; sp; dstr (gv_cut_size_x g); sp; dstr (gv_cut_size_y g); bs " ; "]);
         (S i, cat [kw K_Layers; sp; gv_bot_metal_layer g; sp; gv_cut_layer g; sp; gv_top_metal_layer g; bs " ; "]);
         (S i, cat [kw K_CutSpacing; sp; dstr (gv_cut_spacing_x g); sp; dstr (gv_cut_spacing_y g); bs " ; "]);
         (S i, cat [kw K_Enclosure; sp; dstr (gv_bot_enc_x g); sp; dstr (gv_bot_enc_y g); sp;
                    dstr (gv_top_enc_x g); sp; dstr (gv_top_enc_y g); bs " ; "])]
        ++ (match gv_rowcol g with
            | Some rc => [(S i, cat [kw K_RowCol; sp; dstr (rc_rows rc); sp; dstr (rc_cols rc); bs " ; "])]
            | None => []
            end)
        ++ (match gv_origin g with
            | Some o => [(S i, cat [kw K_Origin; sp; dstr (pt_x o); sp; dstr (pt_y o); bs " ; "])]
            | None => []
            end)
        ++ (match gv_offset g with
            | Some o => [(S i, cat [kw K_Offset; sp; dstr (of_bot_x o); sp; dstr (of_bot_y o); sp;
                                    dstr (of_top_x o); sp; dstr (of_top_y o); bs " ; "])]
            | None => []
            end)
      end)
  ++ [(i, cat [kw K_End; sp; vd_name v; sp])].

(** `write_site` *)
Definition write_site (i : nat) (s : lef_site) : list line :=
  let class := enum_s LefSiteClass_to_str (site_class s) in
  [(i, if c_w_site_orig cf then cat [kw K_Site; sp; site_name s; bs " ; "] else cat [kw K_Site; sp; site_name s; sp]);
   (S i, if c_w_site_orig cf then cat [kw K_Class; sp; class; bs ";"] else cat [kw K_Class; sp; class; bs " ;"])]
  ++ (match site_symmetry s with Some v => write_symmetries (S i) v | None => [] end)
  ++ [(S i, cat [kw K_Size; sp; dstr (fst (site_size s)); sp; kw K_By; sp; dstr (snd (site_size s)); bs " ;"]);
      (i, if c_w_site_orig cf then cat [kw K_End; sp; site_name s; bs " ; "] else cat [kw K_End; sp; site_name s; sp])].

(** `write_units` *)
Definition write_units (i : nat) (u : lef_units) : list line :=
  let ent (k1 k2 : LefKey) (v : option dec) : list line :=
    match v with Some d => [(S i, cat [kw k1; sp; kw k2; sp; dstr d; bs " ; "])] | None => [] end in
  [(i, kw K_Units ++ sp)]
  ++ ent K_Time K_Nanoseconds (u_time_ns u)
  ++ ent K_Capacitance K_Picofarads (u_capacitance_pf u)
  ++ ent K_Resistance K_Ohms (u_resistance_ohms u)
  ++ ent K_Power K_Milliwatts (u_power_mw u)
  ++ ent K_Current K_Milliamps (u_current_ma u)
  ++ ent K_Voltage K_Volts (u_voltage_volts u)
  ++ (match u_database_microns u with
      | Some db => [(S i, cat [kw K_Database; sp; kw K_Microns; sp; dstr (dec_of_Z db); bs " ; "])]
      | None => []
      end)
  ++ ent K_Frequency K_Megahertz (u_frequency_mhz u)
  ++ [(i, cat [kw K_End; sp; kw K_Units; sp])].

(** `write_property` *)
Definition write_property (i : nat) (p : lef_property) : list line :=
  [(i, cat [kw K_Property; sp; pr_name p; sp; pr_value p] ++ (if c_w_prop_nosemi cf then [] else bs " ;"))].

(** `write_port` *)
Definition write_port (i : nat) (p : lef_port) : list line :=
  [(i, kw K_Port ++ sp)]
  ++ (match po_class p with
      | Some v => [(S i, cat [kw K_Class; sp; enum_s LefPortClass_to_str v; bs " ; "])]
      | None => []
      end)
  ++ flat_map (write_layer_geom (S i)) (po_layers p)
  ++ [(i, kw K_End ++ sp)].

(** `write_pin` *)
Definition write_pin (i : nat) (p : lef_pin) : list line :=
  let o {T} (k : LefKey) (f : T -> bytes) (v : option T) : list line :=
    match v with Some x => [(S i, cat [kw k; sp; f x; bs " ; "])] | None => [] end in
  [(i, cat [kw K_Pin; sp; pin_name p; sp])]
  ++ o K_Direction dir_str (pin_direction p)
  ++ o K_Use (enum_s LefPinUse_to_str) (pin_use_ p)
  ++ o K_Shape (enum_s LefPinShape_to_str) (pin_shape p)
  ++ o K_AntennaModel (enum_s LefAntennaModel_to_str) (pin_antenna_model p)
  ++ map (fun a =>
            let layer := match aa_layer a with Some l => cat [kw K_Layer; sp; l] | None => [] end in
            (S i, cat [aa_key a; sp; dstr (aa_val a); sp; layer; bs " ;"])) (pin_antenna_attrs p)
  ++ o K_TaperRule (fun x => x) (pin_taper_rule p)
  ++ o K_SupplySensitivity (fun x => x) (pin_supply_sensitivity p)
  ++ o K_GroundSensitivity (fun x => x) (pin_ground_sensitivity p)
  ++ o K_MustJoin (fun x => x) (pin_must_join p)
  ++ o K_NetExpr (fun x => x) (pin_net_expr p)
  ++ flat_map (write_property (S i)) (pin_properties p)
  ++ flat_map (write_port (S i)) (pin_ports p)
  ++ [(i, cat [kw K_End; sp; pin_name p; sp])].

(** `write_density` *)
Definition write_density (i : nat) (d : list lef_density_geoms) : list line :=
  [(i, kw K_Density ++ sp)]
  ++ flat_map (fun g =>
       (S i, cat [kw K_Layer; sp; dg_layer_name g; bs " ; "])
       :: map (fun r => (S i, cat [kw K_Rect; sp; pt_str (dr_pt1 r); sp; pt_str (dr_pt2 r); sp;
                                   dstr (dr_density_value r); bs " ; "])) (dg_geometries g)) d
  ++ [(i, kw K_End ++ sp)].

(** `write_macro_class` *)
Definition display_option {T} (to_str : T -> string) (o : option T) : bytes :=
  match o with Some x => enum_s to_str x | None => [] end.
Definition write_macro_class (i : nat) (c : lef_macro_class) : list line :=
  let l (name : LefMacroClassName) (tp : bytes) : list line :=
    [(i, cat [kw K_Class; sp; enum_s LefMacroClassName_to_str name; sp; tp; bs " ;"])] in
  match c with
  | McCover b => l LefMacroClassName_Cover (if b then kw K_Bump else [])
  | McRing => [(i, cat [kw K_Class; sp; enum_s LefMacroClassName_to_str LefMacroClassName_Ring; bs " ;"])]
  | McBlock t => l LefMacroClassName_Block (display_option LefBlockClassType_to_str t)
  | McPad t => l LefMacroClassName_Pad (display_option LefPadClassType_to_str t)
  | McCore t => l LefMacroClassName_Core (display_option LefCoreClassType_to_str t)
  | McEndCap t => l LefMacroClassName_EndCap (enum_s LefEndCapClassType_to_str t)
  end.

(** `write_macro`; [ver] = the writer session's version *)
Definition write_macro (ver : dec) (i : nat) (m : lef_macro) : res (list line) :=
  match mac_source m, dec_gt ver V5P4 with
  | Some _, true => Err (EStr (bs "Invalid VERSION for MACRO SOURCE: " ++ dstr ver))
  | _, _ =>
    Ok ([(i, cat [kw K_Macro; sp; mac_name m])]
        ++ (match mac_class m with Some c => write_macro_class (S i) c | None => [] end)
        ++ (if mac_fixed_mask m then [(S i, kw K_FixedMask ++ bs " ;")] else [])
        ++ (match mac_foreign m with
            | Some v =>
              let pt := match fo_pt v with Some p => pt_str p | None => [] end in
              let orient := display_option LefOrient_to_str (fo_orient v) in
              [(S i, cat [kw K_Foreign; sp; fo_cell_name v; sp; pt; sp; orient; bs " ;"])]
            | None => []
            end)
        ++ (match mac_origin m with Some v => [(S i, cat [kw K_Origin; sp; pt_str v; bs " ;"])] | None => [] end)
        ++ (match mac_source m with
            | Some v => [(S i, cat [kw K_Source; sp; enum_s LefDefSource_to_str v; bs " ;"])]
            | None => []
            end)
        ++ (match mac_eeq m with Some c => [(S i, cat [kw K_Eeq; sp; c; bs " ;"])] | None => [] end)
        ++ (match mac_size m with
            | Some v => [(S i, cat [kw K_Size; sp; dstr (fst v); sp; kw K_By; sp; dstr (snd v); bs " ;"])]
            | None => []
            end)
        ++ (match mac_symmetry m with Some v => write_symmetries (S i) v | None => [] end)
        ++ (match mac_site m with Some v => [(S i, cat [kw K_Site; sp; v; bs " ;"])] | None => [] end)
        ++ flat_map (write_pin (S i)) (mac_pins m)
        ++ (match mac_obs m with
            | [] => []
            | obs => [(S i, kw K_Obs ++ sp)] ++ flat_map (write_layer_geom (S (S i))) obs ++ [(S i, kw K_End ++ sp)]
            end)
        ++ flat_map (write_property (S i)) (mac_properties m)
        ++ (match mac_density m with Some v => write_density (S i) v | None => [] end)
        ++ [(i, cat [kw K_End; sp; mac_name m; sp])])
  end.

Fixpoint write_macros (ver : dec) (ms : list lef_macro) : res (list line) :=
  match ms with
  | [] => Ok []
  | m :: r =>
    match write_macro ver 0 m with
    | Ok l => match write_macros ver r with Ok l' => Ok (l ++ l') | e => e end
    | e => e
    end
  end.

(** numeric PROPERTYDEFINITIONS entry: `format_numeric_prop_def` *)
Definition format_numeric_prop_def (ot : LefPropertyDefinitionObjectType) (name : bytes) (key : LefKey)
           (value : option dec) (range : option (dec * dec)) : bytes :=
  join sp ([enum_s LefPropertyDefinitionObjectType_to_str ot; name; kw key]
           ++ (match range with Some (b, e) => [cat [kw K_Range; sp; dstr b; sp; dstr e]] | None => [] end)
           ++ (match value with Some v => [dstr v] | None => [] end)).
Definition propdef_str (p : lef_propdef) : bytes :=
  match p with
  | PdLefString ot name None => cat [enum_s LefPropertyDefinitionObjectType_to_str ot; sp; name; sp; kw K_String]
  | PdLefString ot name (Some v) =>
    cat [enum_s LefPropertyDefinitionObjectType_to_str ot; sp; name; sp; kw K_String; sp; v]
  | PdLefReal ot name v r => format_numeric_prop_def ot name K_Real v r
  | PdLefInteger ot name v r => format_numeric_prop_def ot name K_Integer v r
  end.

(** `write_lib` *)
Definition write_lib_lines (lib : lef_lib) : res (list line) :=
  let ver := match lib_version lib with Some v => v | None => V5P8 end in
  let gate (present : bool) (k : LefKey) : option lef_err :=
    if present && dec_gt ver V5P4 then Some (EStr (cat [bs "Invalid: "; kw k; bs " in Version: "; dstr ver])) else None in
  match gate (match lib_names_case_sensitive lib with Some _ => true | None => false end) K_NamesCaseSensitive with
  | Some e => Err e
  | None =>
  match gate (match lib_no_wire_extension_at_pin lib with Some _ => true | None => false end) K_NoWireExtensionAtPin with
  | Some e => Err e
  | None =>
  match write_macros ver (lib_macros lib) with
  | Ok macro_lines =>
    Ok ((match lib_version lib with Some v => [(O, cat [kw K_Version; sp; dstr v; bs " ; "])] | None => [] end)
        ++ (match lib_names_case_sensitive lib with
            | Some v => [(O, cat [kw K_NamesCaseSensitive; sp; enum_s LefOnOff_to_str v; bs " ; "])]
            | None => []
            end)
        ++ (match lib_no_wire_extension_at_pin lib with
            | Some v => [(O, cat [kw K_NoWireExtensionAtPin; sp; enum_s LefOnOff_to_str v; bs " ; "])]
            | None => []
            end)
        ++ (match lib_bus_bit_chars lib with
            | Some (a, b) => [(O, cat [kw K_BusBitChars; bs " """; utf8_enc a; utf8_enc b; bs """ ; "])]
            | None => []
            end)
        ++ (match lib_divider_char lib with
            | Some a => [(O, cat [kw K_DividerChar; bs " """; utf8_enc a; bs """ ; "])]
            | None => []
            end)
        ++ (match lib_units lib with Some u => write_units O u | None => [] end)
        ++ (match lib_manufacturing_grid lib with
            | Some v => [(O, cat [kw K_ManufacturingGrid; sp; dstr v; bs " ; "])]
            | None => []
            end)
        ++ (match lib_use_min_spacing lib with
            | Some v => [(O, cat [kw K_UseMinSpacing; sp; kw K_Obs; sp; enum_s LefOnOff_to_str v; bs " ; "])]
            | None => []
            end)
        ++ (match lib_clearance_measure lib with
            | Some v => [(O, cat [kw K_ClearanceMeasure; sp; enum_s LefClearanceStyle_to_str v; bs " ; "])]
            | None => []
            end)
        ++ (match lib_property_definitions lib with
            | [] => []
            | pds => [(O, kw K_PropertyDefinitions ++ sp)]
                     ++ map (fun p => (1%nat, propdef_str p ++ bs " ; ")) pds
                     ++ [(O, cat [kw K_End; sp; kw K_PropertyDefinitions; sp])]
            end)
        ++ (if lib_fixed_mask lib then [(O, kw K_FixedMask ++ bs " ;")] else [])
        ++ flat_map (write_via O) (lib_vias lib)
        ++ flat_map (write_site O) (lib_sites lib)
        ++ macro_lines
        ++ map (fun e => (O, cat [kw K_BeginExtension; sp; ext_name e; sp; ext_data e; sp; kw K_EndExtension]))
               (lib_extensions lib)
        ++ [(O, cat [kw K_End; sp; kw K_Library; bs " "; [10]])])
  | Err e => Err e | Panic => Panic | OutOfFuel => OutOfFuel | Unmodelled => Unmodelled
  end end end.

Definition write_lib (lib : lef_lib) : res bytes :=
  match write_lib_lines lib with
  | Ok ls => Ok (render_lines ls)
  | Err e => Err e | Panic => Panic | OutOfFuel => OutOfFuel | Unmodelled => Unmodelled
  end.

End Writer.
