(** C05, reader-image side: what is true of every value the parser returns.

    [good a]: every abstract token of the list is lexically well formed ([tok_lex_ok], Lef/LefRtLex_proofs.v),
    except that the LAST one may be an unterminated string literal (the lexer's image, Lef/LefILex_proofs.v).
    [isees src st a]: parser state [st] shows the tokens [a], which are [good].
    [iR a v Q r]: partial correctness - if the parser step returned [Ok (x, st')] then st' shows a suffix a' of
    [a] (a = c ++ a'), keeps the session version [v], and [Q x c a'] holds. Nothing is claimed of errors.
    [ispec m Q]: from every state, [m] satisfies [iR]. *)
From Coq Require Import String.
From Coq Require Import ZArith List Bool Lia.
From L21 Require Import Lef.LefDec Lef.LefData Lef.LefLex Lef.LefParse Lef.LefSpec Lef.LefCheck
                        Lef.LefLex_proofs Lef.LefParse_proofs Lef.LefRtLex_proofs Lef.LefRtFrame_proofs
                        Lef.LefRtLib_proofs Lef.LefWDec_proofs Lef.LefWFrame_proofs.
Import ListNotations.
Local Open Scope list_scope.
Local Open Scope Z_scope.

(** an unterminated string literal: it runs to the end of the text *)
Definition ustr (b : bytes) : Prop := exists body, b = 34 :: body /\ U8 body /\ ~ In 34 body.
Definition last_ok (x : atok) : Prop := tok_lex_ok x \/ (fst x = TString /\ ustr (snd x)).
Fixpoint good (a : list atok) : Prop :=
  match a with
  | [] => True
  | x :: r => match r with [] => last_ok x | _ => tok_lex_ok x end /\ good r
  end.

Lemma good_tail : forall x r, good (x :: r) -> good r.
Proof. intros x r [_ H]. exact H. Qed.
Lemma good_head : forall x y r, good (x :: y :: r) -> tok_lex_ok x.
Proof. intros x y r [H _]. exact H. Qed.
Lemma good_head_last : forall x r, good (x :: r) -> tok_lex_ok x \/ (r = [] /\ fst x = TString /\ ustr (snd x)).
Proof. intros x [|y r] [H _]; [destruct H as [H|H]; [left; exact H | right; split; [reflexivity | exact H]] | left; exact H]. Qed.
Lemma good_app_r : forall c a, good (c ++ a) -> good a.
Proof. induction c as [|x c IH]; intros a H; [exact H|]. apply IH. exact (good_tail _ _ H). Qed.

Section Img.
Variable src : bytes.
Hypothesis Hsrc : starts_on_boundary src = true.
Notation cf := cfg_fixed.

Definition isees (st : pst) (a : list atok) : Prop :=
  st_ok src st /\ Forall2 (sees_tok src) (p_toks st) a /\ good a.

Definition iR {A} (a : list atok) (v : dec) (Q : A -> list atok -> list atok -> Prop) (r : res (A * pst)) : Prop :=
  match r with
  | Ok (x, st') => exists c a', a = c ++ a' /\ isees st' a' /\ p_ver st' = v /\ Q x c a'
  | _ => True
  end.
Class ispec {A} (m : P A) (Q : A -> list atok -> list atok -> Prop) : Prop :=
  ispec_pf : forall st a, isees st a -> iR a (p_ver st) Q (m st).

(** the same with a postcondition that may mention the session version (statements of LEF <= 5.4) *)
Class ispecv {A} (m : P A) (Q : dec -> A -> list atok -> list atok -> Prop) : Prop :=
  ispecv_pf : forall st a, isees st a -> iR a (p_ver st) (Q (p_ver st)) (m st).

(** ** structural rules *)
Lemma iR_bind {A B} (m : P A) (k : A -> P B) Q1 a v (Q : B -> list atok -> list atok -> Prop) st :
  ispec m Q1 -> isees st a -> p_ver st = v ->
  (forall x st1 c1 a1, a = c1 ++ a1 -> isees st1 a1 -> p_ver st1 = v -> Q1 x c1 a1 ->
     iR a1 v (fun y c2 a2 => Q y (c1 ++ c2) a2) (k x st1)) ->
  iR a v Q (bind m k st).
Proof.
  intros S Hs Hv K. unfold bind. pose proof (S st a Hs) as H. destruct (m st) as [[x st1]|e| | |]; try exact I.
  destruct H as (c1 & a1 & E & Hs1 & Hv1 & q). specialize (K x st1 c1 a1 E Hs1 ltac:(congruence) q).
  destruct (k x st1) as [[y st2]|e| | |]; try exact I.
  destruct K as (c2 & a2 & E2 & Hs2 & Hv2 & q2). exists (c1 ++ c2), a2.
  split; [rewrite E, E2, app_assoc; reflexivity|]. auto.
Qed.
Lemma iR_tail {A} (m : P A) Q1 a v (Q : A -> list atok -> list atok -> Prop) st :
  ispec m Q1 -> isees st a -> p_ver st = v -> (forall x c a', a = c ++ a' -> Q1 x c a' -> Q x c a') -> iR a v Q (m st).
Proof.
  intros S Hs Hv K. pose proof (S st a Hs) as H. destruct (m st) as [[x st1]|e| | |]; try exact I.
  destruct H as (c1 & a1 & E & Hs1 & Hv1 & q). exists c1, a1. split; [exact E|]. split; [exact Hs1|]. split; [congruence | apply K; assumption].
Qed.
Lemma iR_spec {A} (m : P A) Q a v st : ispec m Q -> isees st a -> p_ver st = v -> iR a v Q (m st).
Proof. intros S Hs Hv. eapply iR_tail; eauto. Qed.
Lemma iR_assoc {A B C} (m : P A) (k1 : A -> P B) (k2 : B -> P C) a v Q st :
  iR a v Q (bind m (fun x => bind (k1 x) k2) st) -> iR a v Q (bind (bind m k1) k2 st).
Proof. unfold bind. destruct (m st) as [[x st']|e| | |]; auto. Qed.
Lemma iR_get {B} (k : pst -> P B) a v Q st : iR a v Q (k st st) -> iR a v Q (bind get k st).
Proof. exact (fun x => x). Qed.
Lemma iR_ret_bind {A B} (x : A) (k : A -> P B) a v Q st : iR a v Q (k x st) -> iR a v Q (bind (ret x) k st).
Proof. exact (fun x => x). Qed.
Lemma iR_ret {A} (x : A) a v (Q : A -> list atok -> list atok -> Prop) st :
  isees st a -> p_ver st = v -> Q x [] a -> iR a v Q (ret x st).
Proof. intros Hs Hv q. exists [], a. auto. Qed.
Lemma iR_ok {A} (x : A) a v (Q : A -> list atok -> list atok -> Prop) st :
  isees st a -> p_ver st = v -> Q x [] a -> iR a v Q (Ok (x, st)).
Proof. intros Hs Hv q. exists [], a. auto. Qed.
Lemma iR_weaken {A} a v (Q Q' : A -> list atok -> list atok -> Prop) r :
  (forall x c a', a = c ++ a' -> Q x c a' -> Q' x c a') -> iR a v Q r -> iR a v Q' r.
Proof. intros H. destruct r as [[x st]|e| | |]; auto. intros (c & a' & E & S & V & q). exists c, a'. auto. Qed.

(** ** errors are not Ok *)
Lemma iR_fail_msg {A} tp m a v (Q : A -> list atok -> list atok -> Prop) st : iR a v Q (@fail_msg cf src A tp m st).
Proof. unfold fail_msg. destruct (state cf src st) as [[[[tk lc] line] pos]|]; exact I. Qed.
Lemma iR_fail {A} tp a v (Q : A -> list atok -> list atok -> Prop) st : iR a v Q (@fail cf src A tp st).
Proof. apply iR_fail_msg. Qed.
Global Instance fail_msg_ispec {A} tp m : ispec (@fail_msg cf src A tp m) (fun _ _ _ => False).
Proof. intros st a Hs. apply iR_fail_msg. Qed.
Global Instance fail_ispec {A} tp : ispec (@fail cf src A tp) (fun _ _ _ => False).
Proof. intros st a Hs. apply iR_fail. Qed.
Lemma iR_lift_not_ok {A} (r : res A) a v (Q : A -> list atok -> list atok -> Prop) st :
  (forall x, r <> Ok x) -> iR a v Q (lift r st).
Proof. intros N. unfold lift. destruct r; try exact I. exfalso. exact (N a0 eq_refl). Qed.
Lemma match_fail_iR {A B} tp (k : A -> P B) a v (Q : B -> list atok -> list atok -> Prop) st :
  iR a v Q (match fail cf src tp st with
            | Ok (x, st') => k x st'
            | Err e => Err e | Panic => Panic | OutOfFuel => OutOfFuel | Unmodelled => Unmodelled
            end).
Proof. unfold fail, fail_msg. destruct (state cf src st) as [[[[tk lc] line] pos]|]; exact I. Qed.

(** ** the context stack and the version do not matter to [isees] *)
Lemma isees_with_ctx : forall st a c, isees st a -> isees (with_ctx st c) a.
Proof. intros st a c H. exact H. Qed.
Lemma isees_with_ver : forall st a v, isees st a -> isees (with_ver st v) a.
Proof. intros st a v H. exact H. Qed.
Lemma iR_push {B} c (k : unit -> P B) a v Q st :
  (forall st1, (forall b, isees st b -> isees st1 b) -> p_ver st1 = p_ver st -> iR a v Q (k tt st1)) ->
  iR a v Q (bind (push c) k st).
Proof. intros K. unfold bind, push. apply K; auto. Qed.
Lemma iR_pop {B} (k : unit -> P B) a v Q st :
  (forall st1, (forall b, isees st b -> isees st1 b) -> p_ver st1 = p_ver st -> iR a v Q (k tt st1)) ->
  iR a v Q (bind pop k st).
Proof. intros K. unfold bind, pop. apply K; auto. Qed.

(** ** tokens *)
(** what is known of a token when it is taken from the stream: it is well formed, or it is the last one and an
    unterminated string *)
Definition tok_fact (x : atok) (a' : list atok) : Prop :=
  tok_lex_ok x \/ (a' = [] /\ fst x = TString /\ ustr (snd x)).

Lemma isees_cons_inv : forall st a ti tl, isees st a -> p_toks st = ti :: tl ->
  exists x r, a = x :: r /\ sees_tok src ti x /\ isees (with_toks st tl) r /\ tok_fact x r /\ tok_ok src (ti_tok ti).
Proof.
  intros st a ti tl (Hok & F & G) E. rewrite E in F. inversion F as [|? x ? r V F' E1 E2]; subst.
  exists x, r. split; [reflexivity|]. split; [exact V|].
  destruct (st_ok_tail src st ti tl Hok E) as [Hok' Ht].
  split; [split; [exact Hok' | split; [exact F' | exact (good_tail _ _ G)]]|]. split; [exact (good_head_last _ _ G) | exact Ht].
Qed.

Global Instance next_token_ispec : ispec next_token
  (fun ot c a' => match ot with
                  | Some t => exists x, c = [x] /\ t_ty t = fst x /\ substr src t = Some (snd x) /\ tok_fact x a'
                  | None => c = [] /\ a' = []
                  end).
Proof.
  intros st a Hs. unfold next_token. destruct (p_toks st) as [|ti tl] eqn:E.
  - destruct Hs as (Hok & F & G). rewrite E in F. inversion F; subst. exists [], []. split; [reflexivity|].
    split; [split; [exact Hok | split; [rewrite E; constructor | exact I]]|]. split; [reflexivity | split; reflexivity].
  - destruct (isees_cons_inv st a ti tl Hs E) as (x & r & -> & (Vt & Vs) & Hs' & TF & _).
    assert (G : iR (x :: r) (p_ver st)
                  (fun ot c a' => match ot with
                                  | Some t => exists x0, c = [x0] /\ t_ty t = fst x0 /\ substr src t = Some (snd x0) /\ tok_fact x0 a'
                                  | None => c = [] /\ a' = [] end)
                  (Ok (Some (ti_tok ti), with_toks st tl))).
    { exists [x], r. split; [reflexivity|]. split; [exact Hs'|]. split; [reflexivity|]. exists x. auto. }
    destruct tl as [|ti2 tl2]; [destruct (p_end st); try exact I; exact G | exact G].
Qed.

Lemma peek_token_inv : forall st a t, isees st a -> peek_token st = Some t ->
  exists x r, a = x :: r /\ t_ty t = fst x /\ substr src t = Some (snd x) /\ tok_fact x r.
Proof.
  intros st a t Hs H. unfold peek_token in H. destruct (p_toks st) as [|ti tl] eqn:E; [discriminate|]. injection H as <-.
  destruct (isees_cons_inv st a ti tl Hs E) as (x & r & -> & (Vt & Vs) & _ & TF & _). exists x, r. auto.
Qed.
Lemma peek_token_none_inv : forall st a, isees st a -> peek_token st = None -> a = [].
Proof.
  intros st a (_ & F & _) H. unfold peek_token in H. destruct (p_toks st) as [|ti tl]; [|discriminate]. inversion F. reflexivity.
Qed.
Lemma matches_inv : forall ty st a, isees st a -> matches ty st = true -> exists x r, a = x :: r /\ fst x = ty.
Proof.
  intros ty st a Hs H. unfold matches in H. destruct (peek_token st) as [t|] eqn:E; [|discriminate].
  destruct (peek_token_inv st a t Hs E) as (x & r & -> & Ty & _). exists x, r. split; [reflexivity|].
  rewrite <- Ty. destruct (t_ty t), ty; try discriminate; reflexivity.
Qed.
Lemma txt_inv : forall t st b, substr src t = Some b -> txt src t st = Ok (b, st).
Proof. intros t st b H. unfold txt. rewrite H. reflexivity. Qed.

(** [txt] on a token whose slice is known *)
Lemma iR_txt {B} t b (k : bytes -> P B) a v Q st : substr src t = Some b ->
  iR a v Q (k b st) -> iR a v Q (bind (txt src t) k st).
Proof. intros H K. unfold bind. rewrite (txt_inv t st b H). exact K. Qed.

(** a token taken by [expect]: its type and text *)
Global Instance expect_ispec ty : ispec (expect cf src ty)
  (fun t c a' => exists x, c = [x] /\ fst x = ty /\ substr src t = Some (snd x) /\ tok_fact x a').
Proof.
  intros st a Hs. unfold expect.
  eapply iR_bind; [apply next_token_ispec | exact Hs | reflexivity|].
  intros ot st1 c1 a1 E Hs1 Hv1 q. destruct ot as [t|]; [|apply iR_fail].
  destruct q as (x & -> & Ty & Sx & TF).
  destruct (ttype_eqb (t_ty t) ty) eqn:Te; [|apply iR_fail].
  apply iR_ret; [exact Hs1 | exact Hv1|]. exists x. rewrite app_nil_r. split; [reflexivity|]. split; [|auto].
  rewrite <- Ty. destruct (t_ty t), ty; try discriminate; reflexivity.
Qed.
Global Instance get_str_ispec ty : ispec (expect_and_get_str cf src ty)
  (fun b c a' => c = [(ty, b)] /\ tok_fact (ty, b) a').
Proof.
  intros st a Hs. unfold expect_and_get_str.
  eapply iR_bind; [apply expect_ispec | exact Hs | reflexivity|].
  intros t st1 c1 a1 E Hs1 Hv1 (x & -> & Ty & Sx & TF). rewrite (txt_inv t st1 _ Sx).
  apply iR_ok; [exact Hs1 | exact Hv1|]. rewrite app_nil_r. destruct x as [tx bx]. cbn in *. subst tx. auto.
Qed.
Global Instance get_name_ispec : ispec (get_name cf src) (fun b c a' => c = [(TName, b)] /\ tok_fact (TName, b) a').
Proof. unfold get_name. apply get_str_ispec. Qed.
Global Instance parse_ident_ispec : ispec (parse_ident cf src) (fun b c a' => c = [(TName, b)] /\ tok_fact (TName, b) a').
Proof. unfold parse_ident. apply get_name_ispec. Qed.
(** a name token is never a string, so it is always well formed *)
Lemma tok_fact_name : forall b a', tok_fact (TName, b) a' -> name_tok b.
Proof. intros b a' [H|(_ & T & _)]; [exact H | discriminate]. Qed.
Lemma tok_fact_number : forall b a', tok_fact (TNumber, b) a' -> tok_lex_ok (TNumber, b).
Proof. intros b a' [H|(_ & T & _)]; [exact H | discriminate]. Qed.
Lemma tok_fact_next : forall x y r, tok_fact x (y :: r) -> tok_lex_ok x.
Proof. intros x y r [H|(E & _)]; [exact H | discriminate]. Qed.

Global Instance get_key_ispec : ispec (get_key cf src)
  (fun k c a' => exists b, c = [(TName, b)] /\ LefKey_parse b = Some k /\ name_tok b).
Proof.
  intros st a Hs. unfold get_key.
  eapply iR_bind; [apply get_str_ispec | exact Hs | reflexivity|].
  intros b st1 c1 a1 E Hs1 Hv1 (-> & TF). destruct (LefKey_parse b) as [k|] eqn:Kp; [|apply iR_fail].
  apply iR_ret; [exact Hs1 | exact Hv1|]. exists b. rewrite app_nil_r. split; [reflexivity|]. split; [exact Kp | exact (tok_fact_name _ _ TF)].
Qed.
Global Instance expect_key_ispec key : ispec (expect_key cf src key)
  (fun _ c a' => exists b, c = [(TName, b)] /\ LefKey_parse b = Some key).
Proof.
  intros st a Hs. unfold expect_key.
  eapply iR_bind; [apply get_key_ispec | exact Hs | reflexivity|].
  intros k st1 c1 a1 E Hs1 Hv1 (b & -> & Kp & _). destruct (LefKey_eqb k key) eqn:Ke; [|apply iR_fail].
  apply LefKey_eqb_eq in Ke. subst k.
  apply iR_ret; [exact Hs1 | exact Hv1|]. exists b. rewrite app_nil_r. auto.
Qed.
Global Instance expect_ident_ispec ident : ispec (expect_ident cf src ident) (fun _ c a' => c = [(TName, ident)]).
Proof.
  intros st a Hs. unfold expect_ident.
  eapply iR_bind; [apply get_name_ispec | exact Hs | reflexivity|].
  intros b st1 c1 a1 E Hs1 Hv1 (-> & TF). destruct (bytes_eqb b ident) eqn:Be; [|apply iR_fail].
  apply bytes_eqb_eq in Be. subst b. apply iR_ret; [exact Hs1 | exact Hv1|]. rewrite app_nil_r. reflexivity.
Qed.
Global Instance parse_enum_ispec {T} (from_str : bytes -> option T) : ispec (parse_enum cf src from_str)
  (fun e c a' => exists b, c = [(TName, b)] /\ from_str (upper_bytes b) = Some e).
Proof.
  intros st a Hs. unfold parse_enum.
  eapply iR_bind; [apply get_name_ispec | exact Hs | reflexivity|].
  intros b st1 c1 a1 E Hs1 Hv1 (-> & TF). destruct (from_str (upper_bytes b)) as [e|] eqn:Fe; [|apply iR_fail].
  apply iR_ret; [exact Hs1 | exact Hv1|]. exists b. rewrite app_nil_r. auto.
Qed.
Global Instance parse_number_ispec : ispec (parse_number cf src)
  (fun d c a' => dec_wf d /\ exists b, c = [(TNumber, b)]).
Proof.
  intros st a Hs. unfold parse_number.
  eapply iR_bind; [apply expect_ispec | exact Hs | reflexivity|].
  intros t st1 c1 a1 E Hs1 Hv1 (x & -> & Ty & Sx & TF). apply (iR_txt t _ _ _ _ _ _ Sx).
  destruct (dec_of_bytes (snd x)) as [d| |] eqn:De; try exact I.
  apply iR_ret; [exact Hs1 | exact Hv1|]. split; [exact (dec_of_bytes_wf _ _ De)|].
  exists (snd x). rewrite app_nil_r. destruct x; cbn in *; subst; reflexivity.
Qed.
Global Instance expect_semi_ispec : ispec (expect_semi cf src) (fun _ c a' => exists x, c = [x]).
Proof.
  intros st a Hs. unfold expect_semi.
  eapply iR_bind; [apply expect_ispec | exact Hs | reflexivity|].
  intros t st1 c1 a1 E Hs1 Hv1 (x & -> & _). apply iR_ret; [exact Hs1 | exact Hv1|]. exists x. rewrite app_nil_r. reflexivity.
Qed.
Global Instance advance_ispec : ispec advance (fun _ c a' => True).
Proof.
  intros st a Hs. unfold advance.
  eapply iR_bind; [apply next_token_ispec | exact Hs | reflexivity|].
  intros ot st1 c1 a1 E Hs1 Hv1 q. apply iR_ret; [exact Hs1 | exact Hv1 | exact I].
Qed.
Global Instance parse_point_ispec : ispec (parse_point cf src) (fun p c a' => point_wr p /\ c <> []).
Proof.
  intros st a Hs. unfold parse_point.
  eapply iR_bind; [apply parse_number_ispec | exact Hs | reflexivity|].
  intros x st1 c1 a1 E Hs1 Hv1 (Wx & b & ->).
  eapply iR_bind; [apply parse_number_ispec | exact Hs1 | exact Hv1|].
  intros y st2 c2 a2 E2 Hs2 Hv2 (Wy & b2 & ->).
  apply iR_ret; [exact Hs2 | exact Hv2|]. split; [split; assumption | discriminate].
Qed.

(** [peek_key]: the key of the head token, nothing consumed *)
Lemma iR_peek_key {B} (k : LefKey -> P B) a v Q st : isees st a ->
  (forall key x r b, a = x :: r -> x = (TName, b) -> LefKey_parse b = Some key -> iR a v Q (k key st)) ->
  iR a v Q (bind (peek_key cf src) k st).
Proof.
  intros Hs K. unfold bind at 1. unfold peek_key. destruct (peek_token st) as [t|] eqn:E; [|apply match_fail_iR].
  destruct (peek_token_inv st a t Hs E) as (x & r & -> & Ty & Sx & TF).
  destruct (ttype_eqb (t_ty t) TName) eqn:Te; [|apply match_fail_iR].
  unfold bind, txt. rewrite Sx. destruct (LefKey_parse (snd x)) as [key|] eqn:Kp; [|apply match_fail_iR].
  cbn. apply (K key x r (snd x)); auto. destruct x as [tx bx]. cbn in *. f_equal. rewrite <- Ty.
  destruct (t_ty t); try discriminate; reflexivity.
Qed.

End Img.

(** * Tactics: symbolic execution for the image lemmas (see the instances above for the style) *)
(** one step; leaves the `ret` obligations to the caller *)
Ltac istep :=
  cbv beta;
  lazymatch goal with
  | |- iR _ _ _ _ (bind ?m ?k ?st) =>
    lazymatch m with
    | get => apply iR_get
    | ret _ => apply iR_ret_bind
    | bind _ _ => apply iR_assoc
    | when _ _ => unfold when
    | push _ =>
      apply iR_push;
      let st1 := fresh "st" in let M := fresh "M" in let V := fresh "V" in intros st1 M V;
      match goal with Hs : isees _ st _ |- _ => let H := fresh "Hs" in pose proof (M _ Hs) as H; clear M end
    | pop =>
      apply iR_pop;
      let st1 := fresh "st" in let M := fresh "M" in let V := fresh "V" in intros st1 M V;
      match goal with Hs : isees _ st _ |- _ => let H := fresh "Hs" in pose proof (M _ Hs) as H; clear M end
    | peek_key _ _ =>
      eapply iR_peek_key; [eassumption |
        let key := fresh "key" in let x := fresh "x" in let r := fresh "r" in let b := fresh "b" in
        intros key x r b ? ? ?]
    | txt _ ?t => eapply iR_txt; [eassumption|]
    | match ?x with _ => _ end => destruct x eqn:?
    | _ =>
      eapply iR_bind; [typeclasses eauto | eassumption | congruence |
        let x := fresh "x" in let st1 := fresh "st" in let c1 := fresh "c" in let a1 := fresh "a" in
        let q := fresh "q" in intros x st1 c1 a1 ? ? ? q; cbv beta in q; try contradiction]
    end
  | |- iR _ _ _ _ (fail _ _ _ _) => apply iR_fail
  | |- iR _ _ _ _ (fail_msg _ _ _ _ _) => apply iR_fail_msg
  | |- iR _ _ _ _ (lift OutOfFuel _) => exact I
  | |- iR _ _ _ _ (lift Unmodelled _) => exact I
  | |- iR _ _ _ _ (lift (Err _) _) => exact I
  | |- iR _ _ _ _ (when _ _ _) => unfold when
  | |- iR _ _ _ _ (?f ?st) =>
    lazymatch f with
    | match ?x with _ => _ end => destruct x eqn:?
    end
  end.
Ltac iret := apply iR_ret; [eassumption | congruence | cbv beta ].
(** split syntactic conjunctions only (never unfolds [dec_wf] and the like) *)
Ltac isplit := repeat match goal with |- _ /\ _ => split end.
