(** C04 / C05: success lemmas for PORT, DIRECTION and PIN over abstract tokens. *)
From Coq Require Import String.
From Coq Require Import ZArith List Bool Lia.
From L21 Require Import Lef.LefDec Lef.LefData Lef.LefLex Lef.LefParse Lef.LefSpec Lef.LefCheck
                        Lef.LefLex_proofs Lef.LefParse_proofs Lef.LefRtLex_proofs Lef.LefRtPerm_proofs Lef.LefRtFrame_proofs
                        Lef.LefRtConstr_proofs.
Import ListNotations.
Local Open Scope list_scope.
Local Open Scope Z_scope.

Lemma LefRtPin_bytes_eqb_eq : forall a b, bytes_eqb a b = true -> a = b.
Proof.
  induction a as [|x a IH]; intros [|y b] H; try discriminate; [reflexivity|].
  cbn [bytes_eqb] in H. apply andb_prop in H. destruct H as [H1 H2]. apply Z.eqb_eq in H1. subst y. f_equal. apply IH. exact H2.
Qed.

Section Pin.
Variable src : bytes.
Hypothesis Hsrc : starts_on_boundary src = true.
Notation cf := cfg_fixed.
Notation spec := (spec src).
Notation post := (post src).
Notation sees := (sees src).

(** ** PORT *)
Lemma layer_geoms_struct_ok : forall l, layer_geoms_ok l = true -> layer_struct_ok l = true.
Proof.
  intros l H. unfold layer_geoms_ok in H. unfold layer_struct_ok.
  repeat (apply andb_prop in H; let H' := fresh "H" in destruct H as [H H']).
  apply andb_true_intro. split; [|assumption].
  apply forallb_forall. intros g Hg.
  match goal with X : forallb geometry_ok _ = true |- _ => rewrite forallb_forall in X; specialize (X g Hg); rename X into G end.
  assert (S : forall s, shape_ok s = true -> shape_len_ok s = true).
  { intros [m a b|m ps|m ps] Hs; cbn [shape_ok shape_len_ok] in *; [reflexivity| |];
      apply andb_prop in Hs; destruct Hs as [_ Hs]; exact Hs. }
  destruct g as [s|s p]; cbn [geometry_ok geom_len_ok] in *; [apply S; exact G|].
  apply andb_prop in G. destruct G as [G _]. apply S; exact G.
Qed.

Definition port_class_toks (c : option LefPortClass) : list stok :=
  match c with Some c => [K "CLASS"; K (s_port_class c); SSemi] | None => [] end.

(** `PORT [CLASS c ;] layer-blocks END`, each LAYER block in its general form *)
Definition port_toksP (p : lef_port) (atoks : list atok) : Prop :=
  exists a_port at_c atLs a_end,
    atoks = a_port :: at_c ++ concat atLs ++ [a_end]
    /\ arel (SKw "PORT") a_port /\ Forall2 arel (port_class_toks (po_class p)) at_c
    /\ Forall2 layer_toksP (po_layers p) atLs /\ arel (SKw "END") a_end.

Lemma layer_toksP_head : forall l atoks, layer_toksP l atoks ->
  exists a at', atoks = a :: at' /\ arel (SKw "LAYER") a.
Proof.
  intros l atoks (_ & L & _ & F). unfold layer_hdr_toks, K in F. cbn [app] in F.
  apply LefRt_Forall2_cons_inv in F. destruct F as (a & at' & -> & A & _). exists a, at'. split; [reflexivity | exact A].
Qed.

Lemma port_follow : forall (atLs : list (list atok)) ls a_end rest, Forall2 layer_toksP ls atLs -> arel (SKw "END") a_end ->
  layer_follow (concat atLs ++ a_end :: rest).
Proof.
  intros atLs ls a_end rest F A. right. destruct F as [|l at_l ls' atLs' Hl F'].
  - cbn [concat app]. eexists _, _. split; [reflexivity|]. exists "END"%string, K_End. split; [exact A|].
    split; [vm_compute; reflexivity | cbn; auto].
  - destruct (layer_toksP_head l at_l Hl) as (a & at' & -> & A'). cbn [concat app]. eexists _, _. split; [reflexivity|].
    exists "LAYER"%string, K_Layer. split; [exact A'|]. split; [vm_compute; reflexivity | cbn; auto].
Qed.

Lemma port_loop_ok : forall ls atLs, Forall2 layer_toksP ls atLs -> forall a_end, arel (SKw "END") a_end -> forall f class acc,
  spec (port_loop cf src f class acc) (concat atLs ++ [a_end])
       (fun rest => (List.length (concat atLs) + 1 + List.length rest < f)%nat)
       (fun p' => exists ls', p' = Build_lef_port class (acc ++ ls') /\ list_eqb (lef_layer_geoms_eqb dec_eq) ls ls' = true).
Proof.
  induction ls as [|l ls IH]; intros atLs FL a_end AE f class acc st rest Lf Hs.
  - inversion FL; subst. cbn [concat app List.length] in *. destruct f as [|f]; [lia|]. cbn [port_loop].
    pstep. cbv iota. pstep. pret. exists []. rewrite app_nil_r. split; reflexivity.
  - inversion FL as [|l' at_l ls' atLs' Hl FL']; subst. cbn [concat] in *. repeat rewrite <- app_assoc in Hs.
    destruct f as [|f]; [lia|]. cbn [port_loop].
    destruct (layer_toksP_head l at_l Hl) as (a & at' & E & A).
    assert (Hs0 : sees st (a :: at' ++ concat atLs' ++ [a_end] ++ rest)) by (rewrite E in Hs; exact Hs).
    pstep. cbv iota. clear Hs0.
    pb (parse_layer_P src l at_l Hl).
    { cbn [app]. apply (port_follow atLs' ls a_end rest FL' AE). }
    rewrite app_assoc in *.
    eapply post_weaken; [|eapply post_spec; [eapply (IH atLs' FL' a_end AE f class (acc ++ [a0])) | | eassumption | congruence]].
    + cbv beta. intros p' (ls' & -> & El). exists (a0 :: ls'). rewrite <- app_assoc. split; [reflexivity|].
      cbn [list_eqb]. rewrite Q, El. reflexivity.
    + cbv beta. rewrite app_length in Lf. destruct at_l; [discriminate|]. cbn [List.length] in Lf. lia.
Qed.

Lemma LefPortClass_eqb_refl : forall e, LefPortClass_eqb e e = true.
Proof. destruct e; reflexivity. Qed.

Lemma parse_port_P : forall p atoks, port_toksP p atoks ->
  spec (parse_port cf src) atoks Any (fun p' => lef_port_eqb dec_eq p p' = true).
Proof.
  intros p atoks (a_port & at_c & atLs & a_end & -> & AP & FC & FL & AE) st rest _ Hs.
  cbn [app] in Hs. repeat rewrite <- app_assoc in Hs. unfold parse_port. pstep. pstep. pstep.
  destruct p as [c ls]. cbn [po_class po_layers] in *.
  assert (G : forall class st2, sees st2 (concat atLs ++ [a_end] ++ rest) -> p_ver st2 = p_ver st ->
            (List.length (concat atLs) + 1 + List.length rest < fuel_of st1)%nat ->
            forall f, (List.length (concat atLs) + 1 + List.length rest < f)%nat ->
            post rest (p_ver st) (fun p' => lef_port_eqb dec_eq (Build_lef_port class ls) p' = true)
              (bind (port_loop cf src f class []) (fun p0 => pop;;; ret p0) st2)).
  { intros class st2 Hs2 Hv2 _ f Lf. rewrite app_assoc in Hs2.
    pb (port_loop_ok ls atLs FL a_end AE f class []); [exact Lf|].
    pstep. pret. match goal with q : exists _, _ /\ list_eqb _ _ _ = true |- _ => destruct q as (ls' & -> & El) end. unfold lef_port_eqb. cbn [po_class po_layers app].
    rewrite El. destruct class as [c'|]; cbn [option_eqb]; [rewrite LefPortClass_eqb_refl|]; reflexivity. }
  match goal with Hx : sees st1 _ |- _ => pose proof (fuel_of_sees src _ _ Hx) as Ef end.
  repeat rewrite app_length in Ef. cbn [List.length] in Ef.
  destruct c as [c|]; cbn [port_class_toks] in FC; unfold K in FC; inv_arel; cbn [app] in *.
  - rewrite Ef. cbn [port_loop]. pstep. pstep. cbv iota. pstep. pstep.
    destruct c; cbn [s_port_class] in *; pstep; pstep; pstep; pstep; (apply G; [assumption | congruence | rewrite Ef; lia | cbn [List.length]; lia]).
  - apply G; [assumption | congruence | rewrite Ef; lia | rewrite Ef; lia].
Qed.

Lemma Forall2_layer_list : forall sty ls off atoks, forallb layer_geoms_ok ls = true ->
  Forall2 arel (t_layer_list sty off ls) atoks ->
  exists atLs, atoks = concat atLs /\ Forall2 layer_toksP ls atLs.
Proof.
  induction ls as [|l ls IH]; intros off atoks O F; cbn [t_layer_list] in F.
  - inv_arel. exists []. split; [reflexivity | constructor].
  - cbn [forallb] in O. apply andb_prop in O. destruct O as [Ol O].
    apply Forall2_app_inv_l in F. destruct F as (a1 & a2 & F1 & F2 & ->).
    destruct (IH _ _ O F2) as (atLs & -> & FL). exists (a1 :: atLs). split; [reflexivity|].
    constructor; [|exact FL]. apply (layer_toksP_spec sty off l a1); [apply layer_geoms_struct_ok; exact Ol | exact F1].
Qed.

Lemma port_toksP_spec : forall sty off p atoks, forallb layer_geoms_ok (po_layers p) = true ->
  Forall2 arel (t_port sty off p) atoks -> port_toksP p atoks.
Proof.
  intros sty off p atoks O F. unfold t_port in F. fold (port_class_toks (po_class p)) in F. unfold K in F at 1. cbn [app] in F.
  apply LefRt_Forall2_cons_inv in F. destruct F as (a_port & at1 & -> & AP & F).
  apply Forall2_app_inv_l in F. destruct F as (at_c & at2 & FC & F & ->).
  apply Forall2_app_inv_l in F. destruct F as (at_l & at3 & FLs & F & ->).
  unfold K in F. inv_arel.
  destruct (Forall2_layer_list sty _ _ _ O FLs) as (atLs & -> & FL).
  exists a_port, at_c, atLs, a. split; [reflexivity|]. split; [exact AP|]. split; [exact FC|]. split; [exact FL | exact A].
Qed.

(** ** DIRECTION *)
Lemma parse_pin_direction_ok : forall d atoks, Forall2 arel (t_direction d) atoks ->
  spec (parse_pin_direction cf src) atoks Any (fun d' => lef_pin_direction_eqb dec_eq d d' = true).
Proof.
  intros d atoks F st rest _ Hs. unfold t_direction, K in F.
  destruct d as [|[|]| |]; cbn [app] in F; inv_arel; cbn [app] in Hs; unfold parse_pin_direction; pstep; pstep; cbv iota.
  - pstep. pstep. pret. reflexivity.
  - pstep. pstep. head_ty. pstep. pstep. pstep. pstep. pret. reflexivity.
  - pstep. pstep. head_ty. pstep. pstep. pret. reflexivity.
  - pstep. pstep. pret. reflexivity.
  - pstep. pstep. pret. reflexivity.
Qed.

(** ** PIN *)
Inductive pstmt :=
| PsTaper (v : bytes) | PsDir (d : lef_pin_direction) | PsUse (u : LefPinUse) | PsNetExpr (v : bytes)
| PsSupply (v : bytes) | PsGround (v : bytes) | PsShape (s : LefPinShape) | PsMustJoin (v : bytes)
| PsPort (p : lef_port) | PsProps (ps : list lef_property) | PsAModel (m : LefAntennaModel) | PsAnt (a : lef_antenna_attr).
Definition ps_kind (x : pstmt) : nat :=
  match x with
  | PsTaper _ => 0 | PsDir _ => 1 | PsUse _ => 2 | PsNetExpr _ => 3 | PsSupply _ => 4 | PsGround _ => 5 | PsShape _ => 6
  | PsMustJoin _ => 7 | PsPort _ => 8 | PsProps _ => 9 | PsAModel _ => 10 | PsAnt _ => 11
  end.
(** the tokens of one statement (a predicate: a PORT has many forms) with the side conditions the parser needs *)
Definition ps_toksP (x : pstmt) (at_ : list atok) : Prop :=
  match x with
  | PsTaper v => Forall2 arel [K "TAPERRULE"; SName v; SSemi] at_
  | PsDir d => Forall2 arel (t_direction d) at_
  | PsUse u => Forall2 arel [K "USE"; K (s_pin_use u); SSemi] at_
  | PsNetExpr v => Forall2 arel [K "NETEXPR"; SRaw v; SSemi] at_ /\ exists r, v = 34 :: r
  | PsSupply v => Forall2 arel [K "SUPPLYSENSITIVITY"; SName v; SSemi] at_
  | PsGround v => Forall2 arel [K "GROUNDSENSITIVITY"; SName v; SSemi] at_
  | PsShape v => Forall2 arel [K "SHAPE"; K (s_pin_shape v); SSemi] at_
  | PsMustJoin v => Forall2 arel [K "MUSTJOIN"; SName v; SSemi] at_
  | PsPort p => port_toksP p at_
  | PsProps ps => Forall2 arel (prop_toks ps) at_ /\ Forall prop_val_ok ps
  | PsAModel m => Forall2 arel [K "ANTENNAMODEL"; K (s_antenna_model m); SSemi] at_
  | PsAnt a => Forall2 arel (t_antenna a) at_ /\ existsb (bytes_eqb (upper_bytes (aa_key a))) antenna_keys = true
  end.

Definition pin_st := (lef_pin * list lef_property)%type.
Definition on_pin (f : lef_pin -> lef_pin) (s : pin_st) : pin_st := (f (fst s), snd s).
Definition pin_step (x : pstmt) (s s' : pin_st) : Prop :=
  match x with
  | PsTaper v => s' = on_pin (set_pin_taper_rule (Some v)) s
  | PsDir d => exists d', lef_pin_direction_eqb dec_eq d d' = true /\ s' = on_pin (set_pin_direction (Some d')) s
  | PsUse u => s' = on_pin (set_pin_use_ (Some u)) s
  | PsNetExpr v => s' = on_pin (set_pin_net_expr (Some v)) s
  | PsSupply v => s' = on_pin (set_pin_supply_sensitivity (Some v)) s
  | PsGround v => s' = on_pin (set_pin_ground_sensitivity (Some v)) s
  | PsShape v => s' = on_pin (set_pin_shape (Some v)) s
  | PsMustJoin v => s' = on_pin (set_pin_must_join (Some v)) s
  | PsPort p => exists p', lef_port_eqb dec_eq p p' = true
                           /\ s' = on_pin (fun pin => set_pin_ports (pin_ports pin ++ [p']) pin) s
  | PsProps ps => s' = (fst s, snd s ++ ps)
  | PsAModel m => s' = on_pin (set_pin_antenna_model (Some m)) s
  | PsAnt a => exists v', dec_eq (aa_val a) v' = true
                          /\ s' = on_pin (fun pin => set_pin_antenna_attrs
                                            (pin_antenna_attrs pin ++ [Build_lef_antenna_attr (aa_key a) v' (aa_layer a)]) pin) s
  end.

Definition antenna_keysK : list LefKey :=
  [K_AntennaDiffArea; K_AntennaGateArea; K_AntennaPartialMetalArea; K_AntennaPartialMetalSideArea; K_AntennaPartialCutArea;
   K_AntennaPartialDiffArea; K_AntennaMaxAreaCar; K_AntennaMaxSideAreaCar; K_AntennaMaxCutCar].
Lemma antenna_key_parse : forall k, existsb (bytes_eqb (upper_bytes k)) antenna_keys = true ->
  exists key, LefKey_parse k = Some key /\ In key antenna_keysK.
Proof.
  intros k H. unfold LefKey_parse. unfold antenna_keys in H. cbn [map existsb] in H.
  repeat (apply orb_prop in H; destruct H as [H|H];
          [apply LefRtPin_bytes_eqb_eq in H; rewrite H; eexists; split; [vm_compute; reflexivity | cbn; tauto]|]).
  discriminate.
Qed.

Ltac psteps := repeat pstep.

Lemma pin_loop_ok : forall L atL, Forall2 ps_toksP L atL -> forall a_end, arel (SKw "END") a_end -> forall f pin props,
  spec (pin_loop cf src f pin props) (concat atL ++ [a_end])
       (fun rest => (List.length (concat atL) + 1 + List.length rest < f)%nat)
       (fun r => steps pin_step L (pin, props) r).
Proof.
  induction L as [|x L IH]; intros atL FL a_end AE f pin props st rest Lf Hs.
  - inversion FL; subst. cbn [concat app List.length] in *. destruct f as [|f]; [lia|]. cbn [pin_loop].
    pstep. cbv iota. pstep. pret. reflexivity.
  - inversion FL as [|x' at_x L' atL' Fx FL']; subst. cbn [concat] in *. repeat rewrite <- app_assoc in Hs.
    destruct f as [|f]; [lia|]. cbn [pin_loop]. rewrite app_length in Lf.
    assert (NEXT : forall st1 s1, sees st1 (concat atL' ++ [a_end] ++ rest) -> p_ver st1 = p_ver st ->
              pin_step x (pin, props) s1 -> (1 <= List.length at_x)%nat ->
              post rest (p_ver st) (fun r => steps pin_step (x :: L) (pin, props) r) (pin_loop cf src f (fst s1) (snd s1) st1)).
    { intros st1 s1 Hs1 Hv1 St1 Len. rewrite app_assoc in Hs1.
      eapply post_weaken; [|eapply post_spec; [eapply (IH atL' FL' a_end AE f) | | exact Hs1 | exact Hv1]].
      - cbv beta. intros r St. cbn [steps]. exists s1. split; [exact St1|]. destruct s1; exact St.
      - cbv beta. lia. }
    clear IH Lf.
    destruct x as [v|d|u|v|v|v|sh|v|po|ps|m|an]; cbn [ps_toksP] in Fx.
    + (* TAPERRULE *)
      unfold K in Fx. inv_arel. cbn [app] in Hs. pstep. cbv iota. unfold ident_stmt. psteps.
      apply (NEXT _ (set_pin_taper_rule (Some v) pin, props)); [eassumption | congruence | reflexivity | cbn; lia].
    + (* DIRECTION *)
      pose proof Fx as Fx'. unfold t_direction, K in Fx'. cbn [app] in Fx'. apply LefRt_Forall2_cons_inv in Fx'.
      destruct Fx' as (a & at' & E & A & _). subst at_x. cbn [app] in Hs. pstep. cbv iota.
      pb (parse_pin_direction_ok d (a :: at') Fx).
      apply (NEXT _ (set_pin_direction (Some a0) pin, props)); [eassumption | congruence | | cbn; lia].
      cbn [pin_step]. eexists. split; [eassumption | reflexivity].
    + (* USE *)
      unfold K in Fx. destruct u; cbn [s_pin_use] in Fx; inv_arel; cbn [app] in Hs; pstep; cbv iota; unfold enum_stmt; psteps;
        (eapply (NEXT _ (set_pin_use_ (Some _) pin, props)); [eassumption | congruence | reflexivity | cbn; lia]).
    + (* NETEXPR *)
      destruct Fx as [Fx (r & ->)]. unfold K in Fx. inv_arel. cbn [app] in Hs. pstep. cbv iota. psteps.
      unfold arel in A0. destruct A0 as [Sn Ty]. cbn in Ty.
      pb (expect_spec_ok src TString a0 Ty). pstep.
      unfold bind at 1. rewrite (txt_ok src _ _ _ Q0). cbv beta iota. rewrite Sn.
      apply (NEXT _ (set_pin_net_expr (Some (34 :: r)) pin, props)); [eassumption | congruence | reflexivity | cbn; lia].
    + (* SUPPLYSENSITIVITY *)
      unfold K in Fx. inv_arel. cbn [app] in Hs. pstep. cbv iota. unfold ident_stmt. psteps.
      apply (NEXT _ (set_pin_supply_sensitivity (Some v) pin, props)); [eassumption | congruence | reflexivity | cbn; lia].
    + (* GROUNDSENSITIVITY *)
      unfold K in Fx. inv_arel. cbn [app] in Hs. pstep. cbv iota. unfold ident_stmt. psteps.
      apply (NEXT _ (set_pin_ground_sensitivity (Some v) pin, props)); [eassumption | congruence | reflexivity | cbn; lia].
    + (* SHAPE *)
      unfold K in Fx. destruct sh; cbn [s_pin_shape] in Fx; inv_arel; cbn [app] in Hs; pstep; cbv iota; unfold enum_stmt; psteps;
        (eapply (NEXT _ (set_pin_shape (Some _) pin, props)); [eassumption | congruence | reflexivity | cbn; lia]).
    + (* MUSTJOIN *)
      unfold K in Fx. inv_arel. cbn [app] in Hs. pstep. cbv iota. unfold ident_stmt. psteps.
      apply (NEXT _ (set_pin_must_join (Some v) pin, props)); [eassumption | congruence | reflexivity | cbn; lia].
    + (* PORT *)
      pose proof Fx as (a & at_c & atLs & a_e & E & A & _). subst at_x. cbn [app] in Hs. pstep. cbv iota.
      pb (parse_port_P po _ Fx).
      apply (NEXT _ (set_pin_ports (pin_ports pin ++ [a0]) pin, props)); [eassumption | congruence | | cbn; lia].
      cbn [pin_step]. eexists. split; [eassumption | reflexivity].
    + (* PROPERTY *)
      destruct Fx as [Fx PV]. pose proof Fx as Fx'. unfold prop_toks, K in Fx'. cbn [app] in Fx'.
      apply LefRt_Forall2_cons_inv in Fx'. destruct Fx' as (a & at' & E & A & _). subst at_x. cbn [app] in Hs. pstep. cbv iota.
      pb (parse_property_ok src ps (a :: at') Fx PV props).
      apply (NEXT _ (pin, props ++ ps)); [eassumption | congruence | reflexivity | cbn; lia].
    + (* ANTENNAMODEL *)
      unfold K in Fx. destruct m; cbn [s_antenna_model] in Fx; inv_arel; cbn [app] in Hs; pstep; cbv iota; unfold enum_stmt; psteps;
        (eapply (NEXT _ (set_pin_antenna_model (Some _) pin, props)); [eassumption | congruence | reflexivity | cbn; lia]).
    + (* an antenna value *)
      destruct Fx as [Fx AK]. destruct (antenna_key_parse _ AK) as (key & Kp & Ik).
      unfold t_antenna, K in Fx. destruct (aa_layer an) as [l|] eqn:El; cbn [app] in Fx; inv_arel; cbn [app] in Hs.
      * eapply (post_peek_key src); [exact Hs | exact (proj1 A) | rewrite (proj2 A); exact Kp |].
        unfold antenna_keysK in Ik. cbn [In] in Ik.
        repeat (destruct Ik as [<-|Ik]; [cbv iota; psteps; head_ty; psteps;
          (eapply (NEXT _ (set_pin_antenna_attrs (pin_antenna_attrs pin ++ [Build_lef_antenna_attr (aa_key an) _ (Some l)]) pin, props));
             [eassumption | congruence | | cbn; lia]);
          cbn [pin_step]; eexists; (split; [|rewrite El; reflexivity]); deq|]).
        destruct Ik.
      * eapply (post_peek_key src); [exact Hs | exact (proj1 A) | rewrite (proj2 A); exact Kp |].
        unfold antenna_keysK in Ik. cbn [In] in Ik.
        repeat (destruct Ik as [<-|Ik]; [cbv iota; psteps; head_ty; psteps;
          (eapply (NEXT _ (set_pin_antenna_attrs (pin_antenna_attrs pin ++ [Build_lef_antenna_attr (aa_key an) _ None]) pin, props));
             [eassumption | congruence | | cbn; lia]);
          cbn [pin_step]; eexists; (split; [|rewrite El; reflexivity]); deq|]).
        destruct Ik.
Qed.

Lemma pin_step_comm : forall x y s s2, ps_kind x <> ps_kind y ->
  (exists s1, pin_step x s s1 /\ pin_step y s1 s2) -> exists s1, pin_step y s s1 /\ pin_step x s1 s2.
Proof.
  intros x y s s2 NK (s1 & H1 & H2).
  destruct x, y; cbn [ps_kind] in NK; try congruence; cbn [pin_step] in *;
    repeat match goal with H : exists _, _ |- _ => destruct H | H : _ /\ _ |- _ => destruct H end; subst;
    destruct s as [pin props]; destruct pin;
    (eexists; split;
      [ first [reflexivity | eexists; split; [eassumption | reflexivity]]
      | first [reflexivity | eexists; split; [eassumption | reflexivity]] ]).
Qed.

(** canonical order: the order of [t_pin]'s item list; the properties in the statements [pss] *)
Definition optl {A} (f : A -> pstmt) (o : option A) : list pstmt := match o with Some x => [f x] | None => [] end.
Definition pin_canon (p : lef_pin) (pss : list (list lef_property)) : list pstmt :=
  optl PsTaper (pin_taper_rule p) ++ optl PsDir (pin_direction p) ++ optl PsUse (pin_use_ p) ++ optl PsNetExpr (pin_net_expr p)
  ++ optl PsSupply (pin_supply_sensitivity p) ++ optl PsGround (pin_ground_sensitivity p) ++ optl PsShape (pin_shape p)
  ++ optl PsMustJoin (pin_must_join p) ++ map PsPort (pin_ports p) ++ map PsProps pss
  ++ optl PsAModel (pin_antenna_model p) ++ map PsAnt (pin_antenna_attrs p).

(** group lemmas *)
Lemma steps_ports : forall ps s s', steps pin_step (map PsPort ps) s s' ->
  exists ps', list_eqb (lef_port_eqb dec_eq) ps ps' = true /\ s' = on_pin (fun pin => set_pin_ports (pin_ports pin ++ ps') pin) s.
Proof.
  induction ps as [|p ps IH]; intros s s' H; cbn [map steps] in H.
  - subst. exists []. split; [reflexivity|]. destruct s' as [pin props]. unfold on_pin. cbn [fst snd]. rewrite app_nil_r.
    destruct pin; reflexivity.
  - destruct H as (s1 & (p' & E & ->) & H). destruct (IH _ _ H) as (ps' & E' & ->).
    exists (p' :: ps'). split; [cbn [list_eqb]; rewrite E, E'; reflexivity|].
    destruct s as [pin props]. destruct pin. unfold on_pin. cbn. rewrite <- app_assoc. reflexivity.
Qed.
Lemma steps_ants : forall ps s s', steps pin_step (map PsAnt ps) s s' ->
  exists ps', list_eqb (lef_antenna_attr_eqb dec_eq) ps ps' = true
              /\ s' = on_pin (fun pin => set_pin_antenna_attrs (pin_antenna_attrs pin ++ ps') pin) s.
Proof.
  induction ps as [|p ps IH]; intros s s' H; cbn [map steps] in H.
  - subst. exists []. split; [reflexivity|]. destruct s' as [pin props]. unfold on_pin. cbn [fst snd]. rewrite app_nil_r.
    destruct pin; reflexivity.
  - destruct H as (s1 & (v' & E & ->) & H). destruct (IH _ _ H) as (ps' & E' & ->).
    exists (Build_lef_antenna_attr (aa_key p) v' (aa_layer p) :: ps'). split.
    + cbn [list_eqb]. rewrite E'. unfold lef_antenna_attr_eqb. cbn [aa_key aa_val aa_layer]. rewrite bytes_eqb_refl, E.
      destruct (aa_layer p); cbn [option_eqb]; [rewrite bytes_eqb_refl|]; reflexivity.
    + destruct s as [pin props]. destruct pin. unfold on_pin. cbn. rewrite <- app_assoc. reflexivity.
Qed.
Lemma steps_props : forall pss s s', steps pin_step (map PsProps pss) s s' -> s' = (fst s, snd s ++ concat pss).
Proof.
  induction pss as [|ps pss IH]; intros s s' H; cbn [map steps] in H.
  - subst. cbn [concat]. rewrite app_nil_r. destruct s'; reflexivity.
  - destruct H as (s1 & -> & H). rewrite (IH _ _ H). cbn [fst snd concat]. rewrite <- app_assoc. reflexivity.
Qed.

Lemma pin_st_eta : forall s : pin_st, s = on_pin (fun pin => pin) s.
Proof. intros [pin props]. reflexivity. Qed.

(** an optional statement sets its field to the option, when the field was empty *)
Ltac opt_step :=
  intros o s s' H N; destruct s as [pin props]; destruct pin; cbn in N; subst; destruct o; cbn [optl steps pin_step] in H;
  [destruct H as (s1 & -> & <-) | subst s']; reflexivity.
Lemma steps_taper : forall o s s', steps pin_step (optl PsTaper o) s s' -> pin_taper_rule (fst s) = None ->
  s' = on_pin (set_pin_taper_rule o) s.
Proof. opt_step. Qed.
Lemma steps_use : forall o s s', steps pin_step (optl PsUse o) s s' -> pin_use_ (fst s) = None ->
  s' = on_pin (set_pin_use_ o) s.
Proof. opt_step. Qed.
Lemma steps_netexpr : forall o s s', steps pin_step (optl PsNetExpr o) s s' -> pin_net_expr (fst s) = None ->
  s' = on_pin (set_pin_net_expr o) s.
Proof. opt_step. Qed.
Lemma steps_supply : forall o s s', steps pin_step (optl PsSupply o) s s' -> pin_supply_sensitivity (fst s) = None ->
  s' = on_pin (set_pin_supply_sensitivity o) s.
Proof. opt_step. Qed.
Lemma steps_ground : forall o s s', steps pin_step (optl PsGround o) s s' -> pin_ground_sensitivity (fst s) = None ->
  s' = on_pin (set_pin_ground_sensitivity o) s.
Proof. opt_step. Qed.
Lemma steps_shape : forall o s s', steps pin_step (optl PsShape o) s s' -> pin_shape (fst s) = None ->
  s' = on_pin (set_pin_shape o) s.
Proof. opt_step. Qed.
Lemma steps_mustjoin : forall o s s', steps pin_step (optl PsMustJoin o) s s' -> pin_must_join (fst s) = None ->
  s' = on_pin (set_pin_must_join o) s.
Proof. opt_step. Qed.
Lemma steps_amodel : forall o s s', steps pin_step (optl PsAModel o) s s' -> pin_antenna_model (fst s) = None ->
  s' = on_pin (set_pin_antenna_model o) s.
Proof. opt_step. Qed.
Lemma steps_dir : forall o s s', steps pin_step (optl PsDir o) s s' -> pin_direction (fst s) = None ->
  exists o', option_eqb (lef_pin_direction_eqb dec_eq) o o' = true /\ s' = on_pin (set_pin_direction o') s.
Proof.
  intros o s s' H N; destruct s as [pin props]; destruct pin; cbn in N; subst; destruct o as [d|]; cbn [optl steps pin_step] in H.
  - destruct H as (s1 & (d' & E & ->) & <-). exists (Some d'). split; [exact E | reflexivity].
  - subst s'. exists None. split; reflexivity.
Qed.

Lemma option_eqb_refl {A} (f : A -> A -> bool) : (forall x, f x x = true) -> forall o, option_eqb f o o = true.
Proof. intros R [x|]; [apply R | reflexivity]. Qed.
Lemma LefPinUse_eqb_refl : forall e, LefPinUse_eqb e e = true. Proof. destruct e; reflexivity. Qed.
Lemma LefPinShape_eqb_refl : forall e, LefPinShape_eqb e e = true. Proof. destruct e; reflexivity. Qed.
Lemma LefAntennaModel_eqb_refl : forall e, LefAntennaModel_eqb e e = true. Proof. destruct e; reflexivity. Qed.
Lemma lef_property_list_eqb_refl : forall ps, list_eqb (lef_property_eqb dec_eq) ps ps = true.
Proof.
  induction ps as [|p ps IH]; [reflexivity|]. cbn [list_eqb]. unfold lef_property_eqb at 1. rewrite !bytes_eqb_refl, IH. reflexivity.
Qed.

(** the token sequences of a PIN, in general form: `PIN name`, the statements in any order that keeps the order of the
    ports, of the PROPERTY statements and of the antenna values, `END name` (the same bytes as after PIN) *)
Definition pin_toksP (p : lef_pin) (atoks : list atok) : Prop :=
  exists a_pin a_name L atL a_end a_name2 pss,
    atoks = a_pin :: a_name :: concat atL ++ [a_end; a_name2]
    /\ arel (SKw "PIN") a_pin /\ arel (SName (pin_name p)) a_name
    /\ arel (SKw "END") a_end /\ arel (SName (pin_name p)) a_name2
    /\ concat pss = pin_properties p
    /\ (forall k, filter (fun x => Nat.eqb (ps_kind x) k) L = filter (fun x => Nat.eqb (ps_kind x) k) (pin_canon p pss))
    /\ Forall2 ps_toksP L atL.

Lemma pin_canon_final : forall p pss name r, steps pin_step (pin_canon p pss) (empty_pin name, []) r ->
  pin_name p = name -> concat pss = pin_properties p ->
  lef_pin_eqb dec_eq p (set_pin_properties (snd r) (fst r)) = true.
Proof.
  intros p pss name r St En Ep. unfold pin_canon in St.
  repeat (apply steps_app in St; let s := fresh "s" in let Q := fresh "Q" in destruct St as (s & Q & St)).
  apply steps_taper in Q; [|reflexivity]. subst s.
  apply steps_dir in Q0; [|reflexivity]. destruct Q0 as (d' & Ed & ->).
  apply steps_use in Q1; [|reflexivity]. subst s1.
  apply steps_netexpr in Q2; [|reflexivity]. subst s2.
  apply steps_supply in Q3; [|reflexivity]. subst s3.
  apply steps_ground in Q4; [|reflexivity]. subst s4.
  apply steps_shape in Q5; [|reflexivity]. subst s5.
  apply steps_mustjoin in Q6; [|reflexivity]. subst s6.
  apply steps_ports in Q7. destruct Q7 as (ps' & Eps & ->).
  apply steps_props in Q8. subst s8.
  apply steps_amodel in Q9; [|reflexivity]. subst s9.
  apply steps_ants in St. destruct St as (as' & Eas & ->).
  destruct p. cbn in *. subst. unfold lef_pin_eqb. cbn.
  rewrite bytes_eqb_refl, Eps, Ed, Eas, lef_property_list_eqb_refl.
  rewrite (option_eqb_refl _ LefPinUse_eqb_refl), (option_eqb_refl _ LefPinShape_eqb_refl),
          (option_eqb_refl _ LefAntennaModel_eqb_refl), !(option_eqb_refl _ bytes_eqb_refl).
  reflexivity.
Qed.

Lemma parse_pin_P : forall p atoks, pin_toksP p atoks ->
  spec (parse_pin cf src) atoks Any (fun p' => lef_pin_eqb dec_eq p p' = true).
Proof.
  intros p atoks (a_pin & a_name & L & atL & a_end & a_name2 & pss & -> & AP & AN & AE & AN2 & Ep & HF & FL) st rest _ Hs.
  cbn [app] in Hs. repeat rewrite <- app_assoc in Hs. cbn [app] in Hs. unfold parse_pin.
  pstep. pstep. pstep. pstep.
  replace (concat atL ++ a_end :: a_name2 :: rest) with ((concat atL ++ [a_end]) ++ a_name2 :: rest) in *
    by (rewrite <- app_assoc; reflexivity).
  lazymatch goal with |- LefRtFrame_proofs.post _ _ _ _ (bind (pin_loop _ _ (fuel_of ?s) ?pin ?props) _ _) =>
    pb (pin_loop_ok L atL FL a_end AE (fuel_of s) pin props) end.
  { match goal with Hx : sees ?s _ |- context [fuel_of ?s] => rewrite (fuel_of_sees src _ _ Hx) end.
    repeat rewrite app_length. cbn [List.length]. lia. }
  match goal with q : steps pin_step L _ ?r |- _ => rename q into St; destruct r as [pin' props'] end.
  cbv iota. unfold expect_ident. pstep. pstep. rewrite bytes_eqb_refl. psteps. cbn [c_drop_props cfg_fixed]. pret.
  apply (steps_perm ps_kind pin_step pin_step_comm (pin_canon p pss) L HF) in St.
  exact (pin_canon_final p pss (pin_name p) (pin', props') St eq_refl Ep).
Qed.

(** ** the specification's PIN block *)
Lemma quoted_head : forall v, quoted_ok v = true -> exists r, v = 34 :: r.
Proof.
  intros [|b r] H; [discriminate|]. unfold quoted_ok in H.
  destruct b as [|q|q]; try discriminate. do 6 (destruct q as [q|q|]; try discriminate). exists r. reflexivity.
Qed.
Lemma property_ok_val : forall p, property_ok p = true -> prop_val_ok p.
Proof.
  intros p H. unfold property_ok in H. apply andb_prop in H. destruct H as [_ H]. unfold prop_val_ok.
  destruct (bytes_eqb (pr_value p) [59]) eqn:E; [|reflexivity].
  apply LefRtPin_bytes_eqb_eq in E. rewrite E in H. vm_compute in H. discriminate.
Qed.

(** statements tagged with the offset their tokens are rendered with *)
Definition ost_kind (x : nat * pstmt) : nat := ps_kind (snd x).
Definition ost_toks (sty : style) (x : nat * pstmt) : list stok :=
  match snd x with
  | PsTaper v => [K "TAPERRULE"; SName v; SSemi]
  | PsDir d => t_direction d
  | PsUse u => [K "USE"; K (s_pin_use u); SSemi]
  | PsNetExpr v => [K "NETEXPR"; SRaw v; SSemi]
  | PsSupply v => [K "SUPPLYSENSITIVITY"; SName v; SSemi]
  | PsGround v => [K "GROUNDSENSITIVITY"; SName v; SSemi]
  | PsShape v => [K "SHAPE"; K (s_pin_shape v); SSemi]
  | PsMustJoin v => [K "MUSTJOIN"; SName v; SSemi]
  | PsPort p => t_port sty (fst x) p
  | PsProps ps => prop_toks ps
  | PsAModel m => [K "ANTENNAMODEL"; K (s_antenna_model m); SSemi]
  | PsAnt a => t_antenna a
  end.
Definition ost_ok (x : nat * pstmt) : Prop :=
  match snd x with
  | PsNetExpr v => quoted_ok v = true
  | PsPort p => forallb layer_geoms_ok (po_layers p) = true
  | PsProps ps => Forall prop_val_ok ps
  | PsAnt a => existsb (bytes_eqb (upper_bytes (aa_key a))) antenna_keys = true
  | _ => True
  end.
Fixpoint ports_o (off : nat) (ps : list lef_port) : list (nat * pstmt) :=
  match ps with [] => [] | p :: r => (off, PsPort p) :: ports_o (off + 31) r end.
Definition prop_split (sty : style) (ps : list lef_property) : list (list lef_property) :=
  match ps with [] => [] | _ => if sty_props_joined sty then [ps] else map (fun p => [p]) ps end.
Definition pin_body (sty : style) (off : nat) (p : lef_pin) : list (nat * pstmt) :=
  map (pair 0%nat) (optl PsTaper (pin_taper_rule p)) ++ map (pair 0%nat) (optl PsDir (pin_direction p))
  ++ map (pair 0%nat) (optl PsUse (pin_use_ p)) ++ map (pair 0%nat) (optl PsNetExpr (pin_net_expr p))
  ++ map (pair 0%nat) (optl PsSupply (pin_supply_sensitivity p)) ++ map (pair 0%nat) (optl PsGround (pin_ground_sensitivity p))
  ++ map (pair 0%nat) (optl PsShape (pin_shape p)) ++ map (pair 0%nat) (optl PsMustJoin (pin_must_join p))
  ++ ports_o (off + 3) (pin_ports p) ++ map (pair 0%nat) (map PsProps (prop_split sty (pin_properties p)))
  ++ map (pair 0%nat) (optl PsAModel (pin_antenna_model p)) ++ map (pair 0%nat) (map PsAnt (pin_antenna_attrs p)).

Lemma map_snd_pair {A} : forall (n : nat) (l : list A), map snd (map (pair n) l) = l.
Proof. induction l as [|x l IH]; [reflexivity|]. cbn [map snd]. rewrite IH. reflexivity. Qed.
Lemma map_snd_ports_o : forall ps off, map snd (ports_o off ps) = map PsPort ps.
Proof. induction ps as [|p ps IH]; intros off; [reflexivity|]. cbn [ports_o map snd]. rewrite IH. reflexivity. Qed.
Lemma pin_body_canon : forall sty off p, map snd (pin_body sty off p) = pin_canon p (prop_split sty (pin_properties p)).
Proof. intros. unfold pin_body, pin_canon. rewrite !map_app, !map_snd_pair, map_snd_ports_o. reflexivity. Qed.

Lemma concat_prop_split : forall sty ps, concat (prop_split sty ps) = ps.
Proof.
  intros sty [|p ps]; [reflexivity|]. unfold prop_split. destruct (sty_props_joined sty).
  - cbn [concat]. apply app_nil_r.
  - generalize (p :: ps). induction l as [|x l IH]; [reflexivity|]. cbn [map concat app]. rewrite IH. reflexivity.
Qed.

Lemma port_items_eq : forall sty ps off,
  port_items sty off ps = map (fun x => (ost_kind x, ost_toks sty x)) (ports_o off ps).
Proof. induction ps as [|p ps IH]; intros off; [reflexivity|]. cbn [port_items ports_o map]. rewrite IH. reflexivity. Qed.
Lemma property_items_eq : forall sty ps,
  property_items sty 9 ps = map (fun x => (ost_kind x, ost_toks sty x)) (map (pair 0%nat) (map PsProps (prop_split sty ps))).
Proof.
  intros sty [|p ps]; [reflexivity|]. unfold property_items, prop_split. destruct (sty_props_joined sty); [reflexivity|].
  rewrite !map_map. reflexivity.
Qed.

Lemma t_pin_eq : forall sty off p,
  t_pin sty off p = [K "PIN"; SName (pin_name p)]
                    ++ concat (interleave (sty_keys sty) off (map (fun x => (ost_kind x, ost_toks sty x)) (pin_body sty off p)))
                    ++ [K "END"; SName (pin_name p)].
Proof.
  intros sty off p. unfold t_pin. cbv zeta.
  apply (f_equal (fun l => [K "PIN"; SName (pin_name p)] ++ concat (interleave (sty_keys sty) off l) ++ [K "END"; SName (pin_name p)])).
  unfold pin_body. rewrite !map_app.
  repeat match goal with |- _ ++ _ = _ ++ _ => apply (f_equal2 (@app _)) end;
    try (match goal with |- opt_item _ ?o _ = _ => destruct o; reflexivity end).
  - apply port_items_eq.
  - apply property_items_eq.
  - rewrite !map_map. reflexivity.
Qed.

Lemma filter_map_snd {A B} (g : B -> bool) : forall l : list (A * B),
  filter g (map snd l) = map snd (filter (fun x => g (snd x)) l).
Proof. induction l as [|x l IH]; [reflexivity|]. cbn [map filter]. destruct (g (snd x)); cbn [map]; rewrite IH; reflexivity. Qed.

Lemma ost_toksP : forall sty x ax, ost_ok x -> Forall2 arel (ost_toks sty x) ax -> ps_toksP (snd x) ax.
Proof.
  intros sty [o s] ax O F. unfold ost_ok in O. unfold ost_toks in F. cbn [fst snd] in *.
  destruct s; cbn [ps_toksP]; try exact F.
  - split; [exact F | apply quoted_head; exact O].
  - apply (port_toksP_spec sty o); assumption.
  - split; assumption.
  - split; assumption.
Qed.

Lemma pin_body_ok : forall sty off p, pin_ok p = true -> Forall ost_ok (pin_body sty off p).
Proof.
  intros sty off p H. unfold pin_ok in H.
  repeat (apply andb_prop in H; let H' := fresh "H" in destruct H as [H H']).
  match goal with X : forallb (fun po => forallb layer_geoms_ok (po_layers po)) _ = true |- _ => rename X into Hports end.
  match goal with X : forallb antenna_ok _ = true |- _ => rename X into Hants end.
  match goal with X : optb quoted_ok _ = true |- _ => rename X into Hne end.
  match goal with X : forallb property_ok _ = true |- _ => rename X into Hprops end.
  unfold pin_body. repeat rewrite Forall_app.
  assert (T : forall (A : Type) (C : A -> pstmt) (o : option A), (forall v, ost_ok (0%nat, C v)) -> Forall ost_ok (map (pair 0%nat) (optl C o))).
  { intros A C [v|] Hc; cbn [optl map]; [constructor; [apply Hc | constructor] | constructor]. }
  repeat split; try (apply T; intros; exact I).
  - destruct (pin_net_expr p) as [v|]; cbn [optl map]; [constructor; [exact Hne | constructor] | constructor].
  - generalize (off + 3)%nat. revert Hports. generalize (pin_ports p). induction l as [|po l IH]; intros Hp n; [constructor|].
    cbn [forallb] in Hp. apply andb_prop in Hp. destruct Hp as [Hp1 Hp2]. cbn [ports_o]. constructor; [exact Hp1 | apply IH; exact Hp2].
  - assert (PV : Forall prop_val_ok (pin_properties p)).
    { apply Forall_forall. intros x Hx. apply property_ok_val. rewrite forallb_forall in Hprops. apply Hprops. exact Hx. }
    revert PV. generalize (pin_properties p). intros [|q ps] PV; [constructor|]. unfold prop_split.
    destruct (sty_props_joined sty).
    + cbn [map]. constructor; [exact PV | constructor].
    + rewrite !map_map. apply Forall_forall. intros x Hx. apply in_map_iff in Hx. destruct Hx as (y & <- & Hy).
      unfold ost_ok. cbn [snd]. constructor; [|constructor]. rewrite Forall_forall in PV. apply PV. exact Hy.
  - rewrite map_map. apply Forall_forall. intros x Hx. apply in_map_iff in Hx. destruct Hx as (y & <- & Hy).
    unfold ost_ok. cbn [snd]. rewrite forallb_forall in Hants. specialize (Hants y Hy). unfold antenna_ok in Hants.
    apply andb_prop in Hants. destruct Hants as [Ha _]. apply andb_prop in Ha. destruct Ha as [Ha _]. exact Ha.
Qed.

Lemma pin_toksP_spec : forall sty off p atoks, pin_ok p = true -> Forall2 arel (t_pin sty off p) atoks -> pin_toksP p atoks.
Proof.
  intros sty off p atoks OK F. rewrite t_pin_eq in F.
  pose proof (pin_body_ok sty off p OK) as BO. pose proof (pin_body_canon sty off p) as BC.
  set (body := pin_body sty off p) in *.
  replace (map (fun x => (ost_kind x, ost_toks sty x)) body)
    with (map (fun e => (fst e, ost_toks sty (snd e))) (map (fun x => (ost_kind x, x)) body)) in F by (rewrite map_map; reflexivity).
  rewrite (interleave_map _ _ (ost_toks sty)) in F. rewrite concat_map_flat_map in F.
  pose proof (interleave_kind_stable _ ost_kind (sty_keys sty) off body) as KS.
  set (IL := interleave (sty_keys sty) off (map (fun x => (ost_kind x, x)) body)) in *.
  unfold K in F. cbn [app] in F.
  apply LefRt_Forall2_cons_inv in F. destruct F as (a_pin & at1 & -> & AP & F).
  apply LefRt_Forall2_cons_inv in F. destruct F as (a_name & at2 & -> & AN & F).
  apply Forall2_app_inv_l in F. destruct F as (at_b & at_e & Fb & Fe & ->). inv_arel.
  destruct (Forall2_flat_map_inv (ost_toks sty) IL at_b Fb) as (aL & -> & FL).
  exists a_pin, a_name, (map snd IL), aL, a, a0, (prop_split sty (pin_properties p)).
  split; [reflexivity|]. split; [exact AP|]. split; [exact AN|]. split; [exact A|]. split; [exact A0|].
  split; [apply concat_prop_split|]. split.
  - intros k. rewrite <- BC. rewrite !filter_map_snd. f_equal. apply (KS k).
  - assert (IO : Forall ost_ok IL) by (apply (filter_kinds_forall ost_kind _ IL body KS BO)).
    clear - FL IO. induction FL as [|x ax l al Fx FL' IH]; [constructor|]. inversion IO; subst.
    cbn [map]. constructor; [apply (ost_toksP sty); assumption | apply IH; assumption].
Qed.

(** the first token (the enclosing loops dispatch on it) *)
Lemma port_toksP_head : forall p atoks, port_toksP p atoks -> exists a0 at', atoks = a0 :: at' /\ arel (SKw "PORT") a0.
Proof. intros p atoks (a & at_c & atLs & a_e & -> & A & _). eexists _, _. split; [reflexivity | exact A]. Qed.
Lemma pin_toksP_head : forall p atoks, pin_toksP p atoks -> exists a0 at', atoks = a0 :: at' /\ arel (SKw "PIN") a0.
Proof. intros p atoks (a & a1 & L & atL & a_e & a2 & pss & -> & A & _). eexists _, _. split; [reflexivity | exact A]. Qed.

End Pin.

Print Assumptions parse_port_P.
Print Assumptions port_toksP_spec.
Print Assumptions parse_pin_direction_ok.
Print Assumptions parse_pin_P.
Print Assumptions pin_toksP_spec.
Print Assumptions pin_toksP_head.
Print Assumptions port_toksP_head.
