(** Data model of lef21/src/data.rs: one Coq type per Rust type that the LEF reader fills.

    Strings are UTF-8 byte lists ([bytes]), decimals are [dec] (Lef/LefDec.v), `char` is its scalar value (Z).
    `Option<Unsupported>` fields (layers, max_via_stack, via_rules, via_rule_generators, non_default_rules,
    LefViaDef.properties, LefSite.row_pattern, LefGeneratedViaDef.pattern) are never set by the reader and
    are left out; the harness reports separately if one of them is ever `Some`.

    Every `enumstr!` enum is an inductive type with constructors <Enum>_<Variant> (K_<Variant> for LefKey),
    its table of (constructor, (variant name, keyword string)), `to_str` (the macro's `match self`) and
    `from_str` (the macro's `match txt`: first table entry whose string equals the text, case-sensitive).
    Properties/C04.v proves that the tables equal coq/Gen/LefKeysGen.v, which tools/translate_lef_keys.py
    regenerates from data.rs on every run.

    Records have one setter [set_<field> v r] per field (the derive_builder setters are modelled with them).
    For every type T there is [T_eqb deq]: structural equality with decimals compared by [deq]
    ([dec_eq] numeric = Rust's PartialEq on LefLibrary; [dec_repr_eqb] = same digits and scale).
    The initial text of this file was produced by work/lef/gen_lefdata.py; it is maintained by hand.
    No proofs in this file. *)
From Coq Require Import ZArith List String Bool.
From L21 Require Import Lef.LefDec.
Import ListNotations.
Local Open Scope Z_scope.

(** * generic helpers *)
Definition option_eqb {A} (f : A -> A -> bool) (a b : option A) : bool :=
  match a, b with Some x, Some y => f x y | None, None => true | _, _ => false end.
Fixpoint list_eqb {A} (f : A -> A -> bool) (a b : list A) : bool :=
  match a, b with
  | [], [] => true
  | x :: a', y :: b' => f x y && list_eqb f a' b'
  | _, _ => false
  end.
Definition pair_eqb {A B} (f : A -> A -> bool) (g : B -> B -> bool) (a b : A * B) : bool :=
  f (fst a) (fst b) && g (snd a) (snd b).

Definition enum_btable {A} (t : list (A * (string * string))) : list (A * bytes) :=
  map (fun e => (fst e, bytes_of_string (snd (snd e)))) t.
Fixpoint enum_find {A} (t : list (A * bytes)) (s : bytes) : option A :=
  match t with
  | [] => None
  | (a, k) :: t' => if bytes_eqb k s then Some a else enum_find t' s
  end.

(** * enumstr! enums *)
Inductive LefKey : Set :=
  | K_Library
  | K_Version
  | K_Foreign
  | K_Origin
  | K_Source
  | K_NamesCaseSensitive
  | K_NoWireExtensionAtPin
  | K_Macro
  | K_End
  | K_Pin
  | K_Port
  | K_Obs
  | K_Layer
  | K_Direction
  | K_Use
  | K_Shape
  | K_Path
  | K_Polygon
  | K_Rect
  | K_Via
  | K_Width
  | K_Class
  | K_Symmetry
  | K_RowPattern
  | K_Site
  | K_Size
  | K_Do
  | K_Iterate
  | K_Step
  | K_By
  | K_BusBitChars
  | K_DividerChar
  | K_BeginExtension
  | K_EndExtension
  | K_Tristate
  | K_Input
  | K_Output
  | K_Inout
  | K_FeedThru
  | K_ExceptPgNet
  | K_DesignRuleWidth
  | K_Spacing
  | K_Bump
  | K_Eeq
  | K_FixedMask
  | K_Mask
  | K_UseMinSpacing
  | K_TaperRule
  | K_NetExpr
  | K_SupplySensitivity
  | K_GroundSensitivity
  | K_MustJoin
  | K_Property
  | K_ManufacturingGrid
  | K_ClearanceMeasure
  | K_Density
  | K_Units
  | K_Time
  | K_Nanoseconds
  | K_Capacitance
  | K_Picofarads
  | K_Resistance
  | K_Ohms
  | K_Power
  | K_Milliwatts
  | K_Current
  | K_Milliamps
  | K_Voltage
  | K_Volts
  | K_Database
  | K_Microns
  | K_Frequency
  | K_Megahertz
  | K_AntennaModel
  | K_AntennaDiffArea
  | K_AntennaGateArea
  | K_AntennaPartialMetalArea
  | K_AntennaPartialMetalSideArea
  | K_AntennaPartialCutArea
  | K_AntennaPartialDiffArea
  | K_AntennaMaxAreaCar
  | K_AntennaMaxSideAreaCar
  | K_AntennaMaxCutCar
  | K_Default
  | K_ViaRule
  | K_CutSize
  | K_Layers
  | K_CutSpacing
  | K_Enclosure
  | K_RowCol
  | K_Offset
  | K_Pattern
  | K_PropertyDefinitions
  | K_String
  | K_Real
  | K_Range
  | K_Integer
  | K_MaxViaStack
  | K_Generate
  | K_NonDefaultRule.
Definition LefKey_table : list (LefKey * (string * string)) := [
  (K_Library, ("Library", "LIBRARY"));
  (K_Version, ("Version", "VERSION"));
  (K_Foreign, ("Foreign", "FOREIGN"));
  (K_Origin, ("Origin", "ORIGIN"));
  (K_Source, ("Source", "SOURCE"));
  (K_NamesCaseSensitive, ("NamesCaseSensitive", "NAMESCASESENSITIVE"));
  (K_NoWireExtensionAtPin, ("NoWireExtensionAtPin", "NOWIREEXTENSIONATPIN"));
  (K_Macro, ("Macro", "MACRO"));
  (K_End, ("End", "END"));
  (K_Pin, ("Pin", "PIN"));
  (K_Port, ("Port", "PORT"));
  (K_Obs, ("Obs", "OBS"));
  (K_Layer, ("Layer", "LAYER"));
  (K_Direction, ("Direction", "DIRECTION"));
  (K_Use, ("Use", "USE"));
  (K_Shape, ("Shape", "SHAPE"));
  (K_Path, ("Path", "PATH"));
  (K_Polygon, ("Polygon", "POLYGON"));
  (K_Rect, ("Rect", "RECT"));
  (K_Via, ("Via", "VIA"));
  (K_Width, ("Width", "WIDTH"));
  (K_Class, ("Class", "CLASS"));
  (K_Symmetry, ("Symmetry", "SYMMETRY"));
  (K_RowPattern, ("RowPattern", "ROWPATTERN"));
  (K_Site, ("Site", "SITE"));
  (K_Size, ("Size", "SIZE"));
  (K_Do, ("Do", "DO"));
  (K_Iterate, ("Iterate", "ITERATE"));
  (K_Step, ("Step", "STEP"));
  (K_By, ("By", "BY"));
  (K_BusBitChars, ("BusBitChars", "BUSBITCHARS"));
  (K_DividerChar, ("DividerChar", "DIVIDERCHAR"));
  (K_BeginExtension, ("BeginExtension", "BEGINEXT"));
  (K_EndExtension, ("EndExtension", "ENDEXT"));
  (K_Tristate, ("Tristate", "TRISTATE"));
  (K_Input, ("Input", "INPUT"));
  (K_Output, ("Output", "OUTPUT"));
  (K_Inout, ("Inout", "INOUT"));
  (K_FeedThru, ("FeedThru", "FEEDTHRU"));
  (K_ExceptPgNet, ("ExceptPgNet", "EXCEPTPGNET"));
  (K_DesignRuleWidth, ("DesignRuleWidth", "DESIGNRULEWIDTH"));
  (K_Spacing, ("Spacing", "SPACING"));
  (K_Bump, ("Bump", "BUMP"));
  (K_Eeq, ("Eeq", "EEQ"));
  (K_FixedMask, ("FixedMask", "FIXEDMASK"));
  (K_Mask, ("Mask", "MASK"));
  (K_UseMinSpacing, ("UseMinSpacing", "USEMINSPACING"));
  (K_TaperRule, ("TaperRule", "TAPERRULE"));
  (K_NetExpr, ("NetExpr", "NETEXPR"));
  (K_SupplySensitivity, ("SupplySensitivity", "SUPPLYSENSITIVITY"));
  (K_GroundSensitivity, ("GroundSensitivity", "GROUNDSENSITIVITY"));
  (K_MustJoin, ("MustJoin", "MUSTJOIN"));
  (K_Property, ("Property", "PROPERTY"));
  (K_ManufacturingGrid, ("ManufacturingGrid", "MANUFACTURINGGRID"));
  (K_ClearanceMeasure, ("ClearanceMeasure", "CLEARANCEMEASURE"));
  (K_Density, ("Density", "DENSITY"));
  (K_Units, ("Units", "UNITS"));
  (K_Time, ("Time", "TIME"));
  (K_Nanoseconds, ("Nanoseconds", "NANOSECONDS"));
  (K_Capacitance, ("Capacitance", "CAPACITANCE"));
  (K_Picofarads, ("Picofarads", "PICOFARADS"));
  (K_Resistance, ("Resistance", "RESISTANCE"));
  (K_Ohms, ("Ohms", "OHMS"));
  (K_Power, ("Power", "POWER"));
  (K_Milliwatts, ("Milliwatts", "MILLIWATTS"));
  (K_Current, ("Current", "CURRENT"));
  (K_Milliamps, ("Milliamps", "MILLIAMPS"));
  (K_Voltage, ("Voltage", "VOLTAGE"));
  (K_Volts, ("Volts", "VOLTS"));
  (K_Database, ("Database", "DATABASE"));
  (K_Microns, ("Microns", "MICRONS"));
  (K_Frequency, ("Frequency", "FREQUENCY"));
  (K_Megahertz, ("Megahertz", "MEGAHERTZ"));
  (K_AntennaModel, ("AntennaModel", "ANTENNAMODEL"));
  (K_AntennaDiffArea, ("AntennaDiffArea", "ANTENNADIFFAREA"));
  (K_AntennaGateArea, ("AntennaGateArea", "ANTENNAGATEAREA"));
  (K_AntennaPartialMetalArea, ("AntennaPartialMetalArea", "ANTENNAPARTIALMETALAREA"));
  (K_AntennaPartialMetalSideArea, ("AntennaPartialMetalSideArea", "ANTENNAPARTIALMETALSIDEAREA"));
  (K_AntennaPartialCutArea, ("AntennaPartialCutArea", "ANTENNAPARTIALCUTAREA"));
  (K_AntennaPartialDiffArea, ("AntennaPartialDiffArea", "ANTENNAPARTIALDIFFAREA"));
  (K_AntennaMaxAreaCar, ("AntennaMaxAreaCar", "ANTENNAMAXAREACAR"));
  (K_AntennaMaxSideAreaCar, ("AntennaMaxSideAreaCar", "ANTENNAMAXSIDEAREACAR"));
  (K_AntennaMaxCutCar, ("AntennaMaxCutCar", "ANTENNAMAXCUTCAR"));
  (K_Default, ("Default", "DEFAULT"));
  (K_ViaRule, ("ViaRule", "VIARULE"));
  (K_CutSize, ("CutSize", "CUTSIZE"));
  (K_Layers, ("Layers", "LAYERS"));
  (K_CutSpacing, ("CutSpacing", "CUTSPACING"));
  (K_Enclosure, ("Enclosure", "ENCLOSURE"));
  (K_RowCol, ("RowCol", "ROWCOL"));
  (K_Offset, ("Offset", "OFFSET"));
  (K_Pattern, ("Pattern", "PATTERN"));
  (K_PropertyDefinitions, ("PropertyDefinitions", "PROPERTYDEFINITIONS"));
  (K_String, ("String", "STRING"));
  (K_Real, ("Real", "REAL"));
  (K_Range, ("Range", "RANGE"));
  (K_Integer, ("Integer", "INTEGER"));
  (K_MaxViaStack, ("MaxViaStack", "MAXVIASTACK"));
  (K_Generate, ("Generate", "GENERATE"));
  (K_NonDefaultRule, ("NonDefaultRule", "NONDEFAULTRULE"))
]%string.
Definition LefKey_code (x : LefKey) : Z :=
  match x with
  | K_Library => 0
  | K_Version => 1
  | K_Foreign => 2
  | K_Origin => 3
  | K_Source => 4
  | K_NamesCaseSensitive => 5
  | K_NoWireExtensionAtPin => 6
  | K_Macro => 7
  | K_End => 8
  | K_Pin => 9
  | K_Port => 10
  | K_Obs => 11
  | K_Layer => 12
  | K_Direction => 13
  | K_Use => 14
  | K_Shape => 15
  | K_Path => 16
  | K_Polygon => 17
  | K_Rect => 18
  | K_Via => 19
  | K_Width => 20
  | K_Class => 21
  | K_Symmetry => 22
  | K_RowPattern => 23
  | K_Site => 24
  | K_Size => 25
  | K_Do => 26
  | K_Iterate => 27
  | K_Step => 28
  | K_By => 29
  | K_BusBitChars => 30
  | K_DividerChar => 31
  | K_BeginExtension => 32
  | K_EndExtension => 33
  | K_Tristate => 34
  | K_Input => 35
  | K_Output => 36
  | K_Inout => 37
  | K_FeedThru => 38
  | K_ExceptPgNet => 39
  | K_DesignRuleWidth => 40
  | K_Spacing => 41
  | K_Bump => 42
  | K_Eeq => 43
  | K_FixedMask => 44
  | K_Mask => 45
  | K_UseMinSpacing => 46
  | K_TaperRule => 47
  | K_NetExpr => 48
  | K_SupplySensitivity => 49
  | K_GroundSensitivity => 50
  | K_MustJoin => 51
  | K_Property => 52
  | K_ManufacturingGrid => 53
  | K_ClearanceMeasure => 54
  | K_Density => 55
  | K_Units => 56
  | K_Time => 57
  | K_Nanoseconds => 58
  | K_Capacitance => 59
  | K_Picofarads => 60
  | K_Resistance => 61
  | K_Ohms => 62
  | K_Power => 63
  | K_Milliwatts => 64
  | K_Current => 65
  | K_Milliamps => 66
  | K_Voltage => 67
  | K_Volts => 68
  | K_Database => 69
  | K_Microns => 70
  | K_Frequency => 71
  | K_Megahertz => 72
  | K_AntennaModel => 73
  | K_AntennaDiffArea => 74
  | K_AntennaGateArea => 75
  | K_AntennaPartialMetalArea => 76
  | K_AntennaPartialMetalSideArea => 77
  | K_AntennaPartialCutArea => 78
  | K_AntennaPartialDiffArea => 79
  | K_AntennaMaxAreaCar => 80
  | K_AntennaMaxSideAreaCar => 81
  | K_AntennaMaxCutCar => 82
  | K_Default => 83
  | K_ViaRule => 84
  | K_CutSize => 85
  | K_Layers => 86
  | K_CutSpacing => 87
  | K_Enclosure => 88
  | K_RowCol => 89
  | K_Offset => 90
  | K_Pattern => 91
  | K_PropertyDefinitions => 92
  | K_String => 93
  | K_Real => 94
  | K_Range => 95
  | K_Integer => 96
  | K_MaxViaStack => 97
  | K_Generate => 98
  | K_NonDefaultRule => 99
  end.
Definition LefKey_eqb (a b : LefKey) : bool := LefKey_code a =? LefKey_code b.
Definition LefKey_to_str (x : LefKey) : string :=
  match x with
  | K_Library => "LIBRARY"
  | K_Version => "VERSION"
  | K_Foreign => "FOREIGN"
  | K_Origin => "ORIGIN"
  | K_Source => "SOURCE"
  | K_NamesCaseSensitive => "NAMESCASESENSITIVE"
  | K_NoWireExtensionAtPin => "NOWIREEXTENSIONATPIN"
  | K_Macro => "MACRO"
  | K_End => "END"
  | K_Pin => "PIN"
  | K_Port => "PORT"
  | K_Obs => "OBS"
  | K_Layer => "LAYER"
  | K_Direction => "DIRECTION"
  | K_Use => "USE"
  | K_Shape => "SHAPE"
  | K_Path => "PATH"
  | K_Polygon => "POLYGON"
  | K_Rect => "RECT"
  | K_Via => "VIA"
  | K_Width => "WIDTH"
  | K_Class => "CLASS"
  | K_Symmetry => "SYMMETRY"
  | K_RowPattern => "ROWPATTERN"
  | K_Site => "SITE"
  | K_Size => "SIZE"
  | K_Do => "DO"
  | K_Iterate => "ITERATE"
  | K_Step => "STEP"
  | K_By => "BY"
  | K_BusBitChars => "BUSBITCHARS"
  | K_DividerChar => "DIVIDERCHAR"
  | K_BeginExtension => "BEGINEXT"
  | K_EndExtension => "ENDEXT"
  | K_Tristate => "TRISTATE"
  | K_Input => "INPUT"
  | K_Output => "OUTPUT"
  | K_Inout => "INOUT"
  | K_FeedThru => "FEEDTHRU"
  | K_ExceptPgNet => "EXCEPTPGNET"
  | K_DesignRuleWidth => "DESIGNRULEWIDTH"
  | K_Spacing => "SPACING"
  | K_Bump => "BUMP"
  | K_Eeq => "EEQ"
  | K_FixedMask => "FIXEDMASK"
  | K_Mask => "MASK"
  | K_UseMinSpacing => "USEMINSPACING"
  | K_TaperRule => "TAPERRULE"
  | K_NetExpr => "NETEXPR"
  | K_SupplySensitivity => "SUPPLYSENSITIVITY"
  | K_GroundSensitivity => "GROUNDSENSITIVITY"
  | K_MustJoin => "MUSTJOIN"
  | K_Property => "PROPERTY"
  | K_ManufacturingGrid => "MANUFACTURINGGRID"
  | K_ClearanceMeasure => "CLEARANCEMEASURE"
  | K_Density => "DENSITY"
  | K_Units => "UNITS"
  | K_Time => "TIME"
  | K_Nanoseconds => "NANOSECONDS"
  | K_Capacitance => "CAPACITANCE"
  | K_Picofarads => "PICOFARADS"
  | K_Resistance => "RESISTANCE"
  | K_Ohms => "OHMS"
  | K_Power => "POWER"
  | K_Milliwatts => "MILLIWATTS"
  | K_Current => "CURRENT"
  | K_Milliamps => "MILLIAMPS"
  | K_Voltage => "VOLTAGE"
  | K_Volts => "VOLTS"
  | K_Database => "DATABASE"
  | K_Microns => "MICRONS"
  | K_Frequency => "FREQUENCY"
  | K_Megahertz => "MEGAHERTZ"
  | K_AntennaModel => "ANTENNAMODEL"
  | K_AntennaDiffArea => "ANTENNADIFFAREA"
  | K_AntennaGateArea => "ANTENNAGATEAREA"
  | K_AntennaPartialMetalArea => "ANTENNAPARTIALMETALAREA"
  | K_AntennaPartialMetalSideArea => "ANTENNAPARTIALMETALSIDEAREA"
  | K_AntennaPartialCutArea => "ANTENNAPARTIALCUTAREA"
  | K_AntennaPartialDiffArea => "ANTENNAPARTIALDIFFAREA"
  | K_AntennaMaxAreaCar => "ANTENNAMAXAREACAR"
  | K_AntennaMaxSideAreaCar => "ANTENNAMAXSIDEAREACAR"
  | K_AntennaMaxCutCar => "ANTENNAMAXCUTCAR"
  | K_Default => "DEFAULT"
  | K_ViaRule => "VIARULE"
  | K_CutSize => "CUTSIZE"
  | K_Layers => "LAYERS"
  | K_CutSpacing => "CUTSPACING"
  | K_Enclosure => "ENCLOSURE"
  | K_RowCol => "ROWCOL"
  | K_Offset => "OFFSET"
  | K_Pattern => "PATTERN"
  | K_PropertyDefinitions => "PROPERTYDEFINITIONS"
  | K_String => "STRING"
  | K_Real => "REAL"
  | K_Range => "RANGE"
  | K_Integer => "INTEGER"
  | K_MaxViaStack => "MAXVIASTACK"
  | K_Generate => "GENERATE"
  | K_NonDefaultRule => "NONDEFAULTRULE"
  end%string.
Definition LefKey_btable : list (LefKey * bytes) := Eval vm_compute in enum_btable LefKey_table.
Definition LefKey_from_str (s : bytes) : option LefKey := enum_find LefKey_btable s.

Inductive LefOnOff : Set :=
  | LefOnOff_On
  | LefOnOff_Off.
Definition LefOnOff_table : list (LefOnOff * (string * string)) := [
  (LefOnOff_On, ("On", "ON"));
  (LefOnOff_Off, ("Off", "OFF"))
]%string.
Definition LefOnOff_code (x : LefOnOff) : Z :=
  match x with
  | LefOnOff_On => 0
  | LefOnOff_Off => 1
  end.
Definition LefOnOff_eqb (a b : LefOnOff) : bool := LefOnOff_code a =? LefOnOff_code b.
Definition LefOnOff_to_str (x : LefOnOff) : string :=
  match x with
  | LefOnOff_On => "ON"
  | LefOnOff_Off => "OFF"
  end%string.
Definition LefOnOff_btable : list (LefOnOff * bytes) := Eval vm_compute in enum_btable LefOnOff_table.
Definition LefOnOff_from_str (s : bytes) : option LefOnOff := enum_find LefOnOff_btable s.

Inductive LefClearanceStyle : Set :=
  | LefClearanceStyle_MaxXY
  | LefClearanceStyle_Euclidean.
Definition LefClearanceStyle_table : list (LefClearanceStyle * (string * string)) := [
  (LefClearanceStyle_MaxXY, ("MaxXY", "MAXXY"));
  (LefClearanceStyle_Euclidean, ("Euclidean", "EUCLIDEAN"))
]%string.
Definition LefClearanceStyle_code (x : LefClearanceStyle) : Z :=
  match x with
  | LefClearanceStyle_MaxXY => 0
  | LefClearanceStyle_Euclidean => 1
  end.
Definition LefClearanceStyle_eqb (a b : LefClearanceStyle) : bool := LefClearanceStyle_code a =? LefClearanceStyle_code b.
Definition LefClearanceStyle_to_str (x : LefClearanceStyle) : string :=
  match x with
  | LefClearanceStyle_MaxXY => "MAXXY"
  | LefClearanceStyle_Euclidean => "EUCLIDEAN"
  end%string.
Definition LefClearanceStyle_btable : list (LefClearanceStyle * bytes) := Eval vm_compute in enum_btable LefClearanceStyle_table.
Definition LefClearanceStyle_from_str (s : bytes) : option LefClearanceStyle := enum_find LefClearanceStyle_btable s.

Inductive LefDefSource : Set :=
  | LefDefSource_Netlist
  | LefDefSource_Dist
  | LefDefSource_Timing
  | LefDefSource_User.
Definition LefDefSource_table : list (LefDefSource * (string * string)) := [
  (LefDefSource_Netlist, ("Netlist", "NETLIST"));
  (LefDefSource_Dist, ("Dist", "DIST"));
  (LefDefSource_Timing, ("Timing", "TIMING"));
  (LefDefSource_User, ("User", "USER"))
]%string.
Definition LefDefSource_code (x : LefDefSource) : Z :=
  match x with
  | LefDefSource_Netlist => 0
  | LefDefSource_Dist => 1
  | LefDefSource_Timing => 2
  | LefDefSource_User => 3
  end.
Definition LefDefSource_eqb (a b : LefDefSource) : bool := LefDefSource_code a =? LefDefSource_code b.
Definition LefDefSource_to_str (x : LefDefSource) : string :=
  match x with
  | LefDefSource_Netlist => "NETLIST"
  | LefDefSource_Dist => "DIST"
  | LefDefSource_Timing => "TIMING"
  | LefDefSource_User => "USER"
  end%string.
Definition LefDefSource_btable : list (LefDefSource * bytes) := Eval vm_compute in enum_btable LefDefSource_table.
Definition LefDefSource_from_str (s : bytes) : option LefDefSource := enum_find LefDefSource_btable s.

Inductive LefSymmetry : Set :=
  | LefSymmetry_X
  | LefSymmetry_Y
  | LefSymmetry_R90.
Definition LefSymmetry_table : list (LefSymmetry * (string * string)) := [
  (LefSymmetry_X, ("X", "X"));
  (LefSymmetry_Y, ("Y", "Y"));
  (LefSymmetry_R90, ("R90", "R90"))
]%string.
Definition LefSymmetry_code (x : LefSymmetry) : Z :=
  match x with
  | LefSymmetry_X => 0
  | LefSymmetry_Y => 1
  | LefSymmetry_R90 => 2
  end.
Definition LefSymmetry_eqb (a b : LefSymmetry) : bool := LefSymmetry_code a =? LefSymmetry_code b.
Definition LefSymmetry_to_str (x : LefSymmetry) : string :=
  match x with
  | LefSymmetry_X => "X"
  | LefSymmetry_Y => "Y"
  | LefSymmetry_R90 => "R90"
  end%string.
Definition LefSymmetry_btable : list (LefSymmetry * bytes) := Eval vm_compute in enum_btable LefSymmetry_table.
Definition LefSymmetry_from_str (s : bytes) : option LefSymmetry := enum_find LefSymmetry_btable s.

Inductive LefOrient : Set :=
  | LefOrient_N
  | LefOrient_S
  | LefOrient_E
  | LefOrient_W
  | LefOrient_FN
  | LefOrient_FS
  | LefOrient_FE
  | LefOrient_FW.
Definition LefOrient_table : list (LefOrient * (string * string)) := [
  (LefOrient_N, ("N", "N"));
  (LefOrient_S, ("S", "S"));
  (LefOrient_E, ("E", "E"));
  (LefOrient_W, ("W", "W"));
  (LefOrient_FN, ("FN", "FN"));
  (LefOrient_FS, ("FS", "FS"));
  (LefOrient_FE, ("FE", "FE"));
  (LefOrient_FW, ("FW", "FW"))
]%string.
Definition LefOrient_code (x : LefOrient) : Z :=
  match x with
  | LefOrient_N => 0
  | LefOrient_S => 1
  | LefOrient_E => 2
  | LefOrient_W => 3
  | LefOrient_FN => 4
  | LefOrient_FS => 5
  | LefOrient_FE => 6
  | LefOrient_FW => 7
  end.
Definition LefOrient_eqb (a b : LefOrient) : bool := LefOrient_code a =? LefOrient_code b.
Definition LefOrient_to_str (x : LefOrient) : string :=
  match x with
  | LefOrient_N => "N"
  | LefOrient_S => "S"
  | LefOrient_E => "E"
  | LefOrient_W => "W"
  | LefOrient_FN => "FN"
  | LefOrient_FS => "FS"
  | LefOrient_FE => "FE"
  | LefOrient_FW => "FW"
  end%string.
Definition LefOrient_btable : list (LefOrient * bytes) := Eval vm_compute in enum_btable LefOrient_table.
Definition LefOrient_from_str (s : bytes) : option LefOrient := enum_find LefOrient_btable s.

Inductive LefPinUse : Set :=
  | LefPinUse_Signal
  | LefPinUse_Analog
  | LefPinUse_Power
  | LefPinUse_Ground
  | LefPinUse_Clock.
Definition LefPinUse_table : list (LefPinUse * (string * string)) := [
  (LefPinUse_Signal, ("Signal", "SIGNAL"));
  (LefPinUse_Analog, ("Analog", "ANALOG"));
  (LefPinUse_Power, ("Power", "POWER"));
  (LefPinUse_Ground, ("Ground", "GROUND"));
  (LefPinUse_Clock, ("Clock", "CLOCK"))
]%string.
Definition LefPinUse_code (x : LefPinUse) : Z :=
  match x with
  | LefPinUse_Signal => 0
  | LefPinUse_Analog => 1
  | LefPinUse_Power => 2
  | LefPinUse_Ground => 3
  | LefPinUse_Clock => 4
  end.
Definition LefPinUse_eqb (a b : LefPinUse) : bool := LefPinUse_code a =? LefPinUse_code b.
Definition LefPinUse_to_str (x : LefPinUse) : string :=
  match x with
  | LefPinUse_Signal => "SIGNAL"
  | LefPinUse_Analog => "ANALOG"
  | LefPinUse_Power => "POWER"
  | LefPinUse_Ground => "GROUND"
  | LefPinUse_Clock => "CLOCK"
  end%string.
Definition LefPinUse_btable : list (LefPinUse * bytes) := Eval vm_compute in enum_btable LefPinUse_table.
Definition LefPinUse_from_str (s : bytes) : option LefPinUse := enum_find LefPinUse_btable s.

Inductive LefPinShape : Set :=
  | LefPinShape_Abutment
  | LefPinShape_Ring
  | LefPinShape_FeedThru.
Definition LefPinShape_table : list (LefPinShape * (string * string)) := [
  (LefPinShape_Abutment, ("Abutment", "ABUTMENT"));
  (LefPinShape_Ring, ("Ring", "RING"));
  (LefPinShape_FeedThru, ("FeedThru", "FEEDTHRU"))
]%string.
Definition LefPinShape_code (x : LefPinShape) : Z :=
  match x with
  | LefPinShape_Abutment => 0
  | LefPinShape_Ring => 1
  | LefPinShape_FeedThru => 2
  end.
Definition LefPinShape_eqb (a b : LefPinShape) : bool := LefPinShape_code a =? LefPinShape_code b.
Definition LefPinShape_to_str (x : LefPinShape) : string :=
  match x with
  | LefPinShape_Abutment => "ABUTMENT"
  | LefPinShape_Ring => "RING"
  | LefPinShape_FeedThru => "FEEDTHRU"
  end%string.
Definition LefPinShape_btable : list (LefPinShape * bytes) := Eval vm_compute in enum_btable LefPinShape_table.
Definition LefPinShape_from_str (s : bytes) : option LefPinShape := enum_find LefPinShape_btable s.

Inductive LefMacroClassName : Set :=
  | LefMacroClassName_Block
  | LefMacroClassName_Pad
  | LefMacroClassName_Core
  | LefMacroClassName_EndCap
  | LefMacroClassName_Cover
  | LefMacroClassName_Ring.
Definition LefMacroClassName_table : list (LefMacroClassName * (string * string)) := [
  (LefMacroClassName_Block, ("Block", "BLOCK"));
  (LefMacroClassName_Pad, ("Pad", "PAD"));
  (LefMacroClassName_Core, ("Core", "CORE"));
  (LefMacroClassName_EndCap, ("EndCap", "ENDCAP"));
  (LefMacroClassName_Cover, ("Cover", "COVER"));
  (LefMacroClassName_Ring, ("Ring", "RING"))
]%string.
Definition LefMacroClassName_code (x : LefMacroClassName) : Z :=
  match x with
  | LefMacroClassName_Block => 0
  | LefMacroClassName_Pad => 1
  | LefMacroClassName_Core => 2
  | LefMacroClassName_EndCap => 3
  | LefMacroClassName_Cover => 4
  | LefMacroClassName_Ring => 5
  end.
Definition LefMacroClassName_eqb (a b : LefMacroClassName) : bool := LefMacroClassName_code a =? LefMacroClassName_code b.
Definition LefMacroClassName_to_str (x : LefMacroClassName) : string :=
  match x with
  | LefMacroClassName_Block => "BLOCK"
  | LefMacroClassName_Pad => "PAD"
  | LefMacroClassName_Core => "CORE"
  | LefMacroClassName_EndCap => "ENDCAP"
  | LefMacroClassName_Cover => "COVER"
  | LefMacroClassName_Ring => "RING"
  end%string.
Definition LefMacroClassName_btable : list (LefMacroClassName * bytes) := Eval vm_compute in enum_btable LefMacroClassName_table.
Definition LefMacroClassName_from_str (s : bytes) : option LefMacroClassName := enum_find LefMacroClassName_btable s.

Inductive LefPadClassType : Set :=
  | LefPadClassType_Input
  | LefPadClassType_Output
  | LefPadClassType_Inout
  | LefPadClassType_Power
  | LefPadClassType_Spacer
  | LefPadClassType_AreaIo.
Definition LefPadClassType_table : list (LefPadClassType * (string * string)) := [
  (LefPadClassType_Input, ("Input", "INPUT"));
  (LefPadClassType_Output, ("Output", "OUTPUT"));
  (LefPadClassType_Inout, ("Inout", "INOUT"));
  (LefPadClassType_Power, ("Power", "POWER"));
  (LefPadClassType_Spacer, ("Spacer", "SPACER"));
  (LefPadClassType_AreaIo, ("AreaIo", "AREAIO"))
]%string.
Definition LefPadClassType_code (x : LefPadClassType) : Z :=
  match x with
  | LefPadClassType_Input => 0
  | LefPadClassType_Output => 1
  | LefPadClassType_Inout => 2
  | LefPadClassType_Power => 3
  | LefPadClassType_Spacer => 4
  | LefPadClassType_AreaIo => 5
  end.
Definition LefPadClassType_eqb (a b : LefPadClassType) : bool := LefPadClassType_code a =? LefPadClassType_code b.
Definition LefPadClassType_to_str (x : LefPadClassType) : string :=
  match x with
  | LefPadClassType_Input => "INPUT"
  | LefPadClassType_Output => "OUTPUT"
  | LefPadClassType_Inout => "INOUT"
  | LefPadClassType_Power => "POWER"
  | LefPadClassType_Spacer => "SPACER"
  | LefPadClassType_AreaIo => "AREAIO"
  end%string.
Definition LefPadClassType_btable : list (LefPadClassType * bytes) := Eval vm_compute in enum_btable LefPadClassType_table.
Definition LefPadClassType_from_str (s : bytes) : option LefPadClassType := enum_find LefPadClassType_btable s.

Inductive LefEndCapClassType : Set :=
  | LefEndCapClassType_Pre
  | LefEndCapClassType_Post
  | LefEndCapClassType_TopLeft
  | LefEndCapClassType_TopRight
  | LefEndCapClassType_BottomLeft
  | LefEndCapClassType_BottomRight.
Definition LefEndCapClassType_table : list (LefEndCapClassType * (string * string)) := [
  (LefEndCapClassType_Pre, ("Pre", "PRE"));
  (LefEndCapClassType_Post, ("Post", "POST"));
  (LefEndCapClassType_TopLeft, ("TopLeft", "TOPLEFT"));
  (LefEndCapClassType_TopRight, ("TopRight", "TOPRIGHT"));
  (LefEndCapClassType_BottomLeft, ("BottomLeft", "BOTTOMLEFT"));
  (LefEndCapClassType_BottomRight, ("BottomRight", "BOTTOMRIGHT"))
]%string.
Definition LefEndCapClassType_code (x : LefEndCapClassType) : Z :=
  match x with
  | LefEndCapClassType_Pre => 0
  | LefEndCapClassType_Post => 1
  | LefEndCapClassType_TopLeft => 2
  | LefEndCapClassType_TopRight => 3
  | LefEndCapClassType_BottomLeft => 4
  | LefEndCapClassType_BottomRight => 5
  end.
Definition LefEndCapClassType_eqb (a b : LefEndCapClassType) : bool := LefEndCapClassType_code a =? LefEndCapClassType_code b.
Definition LefEndCapClassType_to_str (x : LefEndCapClassType) : string :=
  match x with
  | LefEndCapClassType_Pre => "PRE"
  | LefEndCapClassType_Post => "POST"
  | LefEndCapClassType_TopLeft => "TOPLEFT"
  | LefEndCapClassType_TopRight => "TOPRIGHT"
  | LefEndCapClassType_BottomLeft => "BOTTOMLEFT"
  | LefEndCapClassType_BottomRight => "BOTTOMRIGHT"
  end%string.
Definition LefEndCapClassType_btable : list (LefEndCapClassType * bytes) := Eval vm_compute in enum_btable LefEndCapClassType_table.
Definition LefEndCapClassType_from_str (s : bytes) : option LefEndCapClassType := enum_find LefEndCapClassType_btable s.

Inductive LefBlockClassType : Set :=
  | LefBlockClassType_BlackBox
  | LefBlockClassType_Soft.
Definition LefBlockClassType_table : list (LefBlockClassType * (string * string)) := [
  (LefBlockClassType_BlackBox, ("BlackBox", "BLACKBOX"));
  (LefBlockClassType_Soft, ("Soft", "SOFT"))
]%string.
Definition LefBlockClassType_code (x : LefBlockClassType) : Z :=
  match x with
  | LefBlockClassType_BlackBox => 0
  | LefBlockClassType_Soft => 1
  end.
Definition LefBlockClassType_eqb (a b : LefBlockClassType) : bool := LefBlockClassType_code a =? LefBlockClassType_code b.
Definition LefBlockClassType_to_str (x : LefBlockClassType) : string :=
  match x with
  | LefBlockClassType_BlackBox => "BLACKBOX"
  | LefBlockClassType_Soft => "SOFT"
  end%string.
Definition LefBlockClassType_btable : list (LefBlockClassType * bytes) := Eval vm_compute in enum_btable LefBlockClassType_table.
Definition LefBlockClassType_from_str (s : bytes) : option LefBlockClassType := enum_find LefBlockClassType_btable s.

Inductive LefCoreClassType : Set :=
  | LefCoreClassType_FeedThru
  | LefCoreClassType_TieHigh
  | LefCoreClassType_TieLow
  | LefCoreClassType_Spacer
  | LefCoreClassType_AntennaCell
  | LefCoreClassType_WellTap.
Definition LefCoreClassType_table : list (LefCoreClassType * (string * string)) := [
  (LefCoreClassType_FeedThru, ("FeedThru", "FEEDTHRU"));
  (LefCoreClassType_TieHigh, ("TieHigh", "TIEHIGH"));
  (LefCoreClassType_TieLow, ("TieLow", "TIELOW"));
  (LefCoreClassType_Spacer, ("Spacer", "SPACER"));
  (LefCoreClassType_AntennaCell, ("AntennaCell", "ANTENNACELL"));
  (LefCoreClassType_WellTap, ("WellTap", "WELLTAP"))
]%string.
Definition LefCoreClassType_code (x : LefCoreClassType) : Z :=
  match x with
  | LefCoreClassType_FeedThru => 0
  | LefCoreClassType_TieHigh => 1
  | LefCoreClassType_TieLow => 2
  | LefCoreClassType_Spacer => 3
  | LefCoreClassType_AntennaCell => 4
  | LefCoreClassType_WellTap => 5
  end.
Definition LefCoreClassType_eqb (a b : LefCoreClassType) : bool := LefCoreClassType_code a =? LefCoreClassType_code b.
Definition LefCoreClassType_to_str (x : LefCoreClassType) : string :=
  match x with
  | LefCoreClassType_FeedThru => "FEEDTHRU"
  | LefCoreClassType_TieHigh => "TIEHIGH"
  | LefCoreClassType_TieLow => "TIELOW"
  | LefCoreClassType_Spacer => "SPACER"
  | LefCoreClassType_AntennaCell => "ANTENNACELL"
  | LefCoreClassType_WellTap => "WELLTAP"
  end%string.
Definition LefCoreClassType_btable : list (LefCoreClassType * bytes) := Eval vm_compute in enum_btable LefCoreClassType_table.
Definition LefCoreClassType_from_str (s : bytes) : option LefCoreClassType := enum_find LefCoreClassType_btable s.

Inductive LefPortClass : Set :=
  | LefPortClass_None
  | LefPortClass_Core
  | LefPortClass_Bump.
Definition LefPortClass_table : list (LefPortClass * (string * string)) := [
  (LefPortClass_None, ("None", "NONE"));
  (LefPortClass_Core, ("Core", "CORE"));
  (LefPortClass_Bump, ("Bump", "BUMP"))
]%string.
Definition LefPortClass_code (x : LefPortClass) : Z :=
  match x with
  | LefPortClass_None => 0
  | LefPortClass_Core => 1
  | LefPortClass_Bump => 2
  end.
Definition LefPortClass_eqb (a b : LefPortClass) : bool := LefPortClass_code a =? LefPortClass_code b.
Definition LefPortClass_to_str (x : LefPortClass) : string :=
  match x with
  | LefPortClass_None => "NONE"
  | LefPortClass_Core => "CORE"
  | LefPortClass_Bump => "BUMP"
  end%string.
Definition LefPortClass_btable : list (LefPortClass * bytes) := Eval vm_compute in enum_btable LefPortClass_table.
Definition LefPortClass_from_str (s : bytes) : option LefPortClass := enum_find LefPortClass_btable s.

Inductive LefSiteClass : Set :=
  | LefSiteClass_Pad
  | LefSiteClass_Core.
Definition LefSiteClass_table : list (LefSiteClass * (string * string)) := [
  (LefSiteClass_Pad, ("Pad", "PAD"));
  (LefSiteClass_Core, ("Core", "CORE"))
]%string.
Definition LefSiteClass_code (x : LefSiteClass) : Z :=
  match x with
  | LefSiteClass_Pad => 0
  | LefSiteClass_Core => 1
  end.
Definition LefSiteClass_eqb (a b : LefSiteClass) : bool := LefSiteClass_code a =? LefSiteClass_code b.
Definition LefSiteClass_to_str (x : LefSiteClass) : string :=
  match x with
  | LefSiteClass_Pad => "PAD"
  | LefSiteClass_Core => "CORE"
  end%string.
Definition LefSiteClass_btable : list (LefSiteClass * bytes) := Eval vm_compute in enum_btable LefSiteClass_table.
Definition LefSiteClass_from_str (s : bytes) : option LefSiteClass := enum_find LefSiteClass_btable s.

Inductive LefAntennaModel : Set :=
  | LefAntennaModel_Oxide1
  | LefAntennaModel_Oxide2
  | LefAntennaModel_Oxide3
  | LefAntennaModel_Oxide4.
Definition LefAntennaModel_table : list (LefAntennaModel * (string * string)) := [
  (LefAntennaModel_Oxide1, ("Oxide1", "OXIDE1"));
  (LefAntennaModel_Oxide2, ("Oxide2", "OXIDE2"));
  (LefAntennaModel_Oxide3, ("Oxide3", "OXIDE3"));
  (LefAntennaModel_Oxide4, ("Oxide4", "OXIDE4"))
]%string.
Definition LefAntennaModel_code (x : LefAntennaModel) : Z :=
  match x with
  | LefAntennaModel_Oxide1 => 0
  | LefAntennaModel_Oxide2 => 1
  | LefAntennaModel_Oxide3 => 2
  | LefAntennaModel_Oxide4 => 3
  end.
Definition LefAntennaModel_eqb (a b : LefAntennaModel) : bool := LefAntennaModel_code a =? LefAntennaModel_code b.
Definition LefAntennaModel_to_str (x : LefAntennaModel) : string :=
  match x with
  | LefAntennaModel_Oxide1 => "OXIDE1"
  | LefAntennaModel_Oxide2 => "OXIDE2"
  | LefAntennaModel_Oxide3 => "OXIDE3"
  | LefAntennaModel_Oxide4 => "OXIDE4"
  end%string.
Definition LefAntennaModel_btable : list (LefAntennaModel * bytes) := Eval vm_compute in enum_btable LefAntennaModel_table.
Definition LefAntennaModel_from_str (s : bytes) : option LefAntennaModel := enum_find LefAntennaModel_btable s.

Inductive LefPropertyDefinitionObjectType : Set :=
  | LefPropertyDefinitionObjectType_Layer
  | LefPropertyDefinitionObjectType_Library
  | LefPropertyDefinitionObjectType_Macro
  | LefPropertyDefinitionObjectType_NonDefaultRule
  | LefPropertyDefinitionObjectType_Pin
  | LefPropertyDefinitionObjectType_Via
  | LefPropertyDefinitionObjectType_ViaRule.
Definition LefPropertyDefinitionObjectType_table : list (LefPropertyDefinitionObjectType * (string * string)) := [
  (LefPropertyDefinitionObjectType_Layer, ("Layer", "LAYER"));
  (LefPropertyDefinitionObjectType_Library, ("Library", "LIBRARY"));
  (LefPropertyDefinitionObjectType_Macro, ("Macro", "MACRO"));
  (LefPropertyDefinitionObjectType_NonDefaultRule, ("NonDefaultRule", "NONDEFAULTRULE"));
  (LefPropertyDefinitionObjectType_Pin, ("Pin", "PIN"));
  (LefPropertyDefinitionObjectType_Via, ("Via", "VIA"));
  (LefPropertyDefinitionObjectType_ViaRule, ("ViaRule", "VIARULE"))
]%string.
Definition LefPropertyDefinitionObjectType_code (x : LefPropertyDefinitionObjectType) : Z :=
  match x with
  | LefPropertyDefinitionObjectType_Layer => 0
  | LefPropertyDefinitionObjectType_Library => 1
  | LefPropertyDefinitionObjectType_Macro => 2
  | LefPropertyDefinitionObjectType_NonDefaultRule => 3
  | LefPropertyDefinitionObjectType_Pin => 4
  | LefPropertyDefinitionObjectType_Via => 5
  | LefPropertyDefinitionObjectType_ViaRule => 6
  end.
Definition LefPropertyDefinitionObjectType_eqb (a b : LefPropertyDefinitionObjectType) : bool := LefPropertyDefinitionObjectType_code a =? LefPropertyDefinitionObjectType_code b.
Definition LefPropertyDefinitionObjectType_to_str (x : LefPropertyDefinitionObjectType) : string :=
  match x with
  | LefPropertyDefinitionObjectType_Layer => "LAYER"
  | LefPropertyDefinitionObjectType_Library => "LIBRARY"
  | LefPropertyDefinitionObjectType_Macro => "MACRO"
  | LefPropertyDefinitionObjectType_NonDefaultRule => "NONDEFAULTRULE"
  | LefPropertyDefinitionObjectType_Pin => "PIN"
  | LefPropertyDefinitionObjectType_Via => "VIA"
  | LefPropertyDefinitionObjectType_ViaRule => "VIARULE"
  end%string.
Definition LefPropertyDefinitionObjectType_btable : list (LefPropertyDefinitionObjectType * bytes) := Eval vm_compute in enum_btable LefPropertyDefinitionObjectType_table.
Definition LefPropertyDefinitionObjectType_from_str (s : bytes) : option LefPropertyDefinitionObjectType := enum_find LefPropertyDefinitionObjectType_btable s.

(** `LefKey::parse`: upper-case the ASCII letters, then `from_str` *)
Definition LefKey_parse (txt : bytes) : option LefKey := LefKey_from_str (upper_bytes txt).

(** * records and variants *)
Record lef_point := {
  pt_x : dec;
  pt_y : dec
}.
Definition lef_point_eqb (deq : dec -> dec -> bool) (a b : lef_point) : bool :=
  deq (pt_x a) (pt_x b)
  && deq (pt_y a) (pt_y b).
Definition set_pt_x (v : dec) (r : lef_point) : lef_point :=
  {| pt_x := v; pt_y := pt_y r |}.
Definition set_pt_y (v : dec) (r : lef_point) : lef_point :=
  {| pt_x := pt_x r; pt_y := v |}.

Inductive lef_shape :=
  | ShRect (_ : (option dec)) (_ : lef_point) (_ : lef_point)
  | ShPolygon (_ : (option dec)) (_ : (list lef_point))
  | ShPath (_ : (option dec)) (_ : (list lef_point)).
Definition lef_shape_eqb (deq : dec -> dec -> bool) (a b : lef_shape) : bool :=
  match a, b with
  | ShRect x0 x1 x2, ShRect y0 y1 y2 => (option_eqb deq) x0 y0 && (lef_point_eqb deq) x1 y1 && (lef_point_eqb deq) x2 y2
  | ShPolygon x0 x1, ShPolygon y0 y1 => (option_eqb deq) x0 y0 && (list_eqb (lef_point_eqb deq)) x1 y1
  | ShPath x0 x1, ShPath y0 y1 => (option_eqb deq) x0 y0 && (list_eqb (lef_point_eqb deq)) x1 y1
  | _, _ => false
  end.

Record lef_step := {
  st_numx : dec;
  st_numy : dec;
  st_spacex : dec;
  st_spacey : dec
}.
Definition lef_step_eqb (deq : dec -> dec -> bool) (a b : lef_step) : bool :=
  deq (st_numx a) (st_numx b)
  && deq (st_numy a) (st_numy b)
  && deq (st_spacex a) (st_spacex b)
  && deq (st_spacey a) (st_spacey b).
Definition set_st_numx (v : dec) (r : lef_step) : lef_step :=
  {| st_numx := v; st_numy := st_numy r; st_spacex := st_spacex r; st_spacey := st_spacey r |}.
Definition set_st_numy (v : dec) (r : lef_step) : lef_step :=
  {| st_numx := st_numx r; st_numy := v; st_spacex := st_spacex r; st_spacey := st_spacey r |}.
Definition set_st_spacex (v : dec) (r : lef_step) : lef_step :=
  {| st_numx := st_numx r; st_numy := st_numy r; st_spacex := v; st_spacey := st_spacey r |}.
Definition set_st_spacey (v : dec) (r : lef_step) : lef_step :=
  {| st_numx := st_numx r; st_numy := st_numy r; st_spacex := st_spacex r; st_spacey := v |}.

Inductive lef_geometry :=
  | GShape (_ : lef_shape)
  | GIterate (_ : lef_shape) (_ : lef_step).
Definition lef_geometry_eqb (deq : dec -> dec -> bool) (a b : lef_geometry) : bool :=
  match a, b with
  | GShape x0, GShape y0 => (lef_shape_eqb deq) x0 y0
  | GIterate x0 x1, GIterate y0 y1 => (lef_shape_eqb deq) x0 y0 && (lef_step_eqb deq) x1 y1
  | _, _ => false
  end.

Record lef_via_inst := {
  vi_via_name : bytes;
  vi_pt : lef_point
}.
Definition lef_via_inst_eqb (deq : dec -> dec -> bool) (a b : lef_via_inst) : bool :=
  bytes_eqb (vi_via_name a) (vi_via_name b)
  && (lef_point_eqb deq) (vi_pt a) (vi_pt b).
Definition set_vi_via_name (v : bytes) (r : lef_via_inst) : lef_via_inst :=
  {| vi_via_name := v; vi_pt := vi_pt r |}.
Definition set_vi_pt (v : lef_point) (r : lef_via_inst) : lef_via_inst :=
  {| vi_via_name := vi_via_name r; vi_pt := v |}.

Inductive lef_layer_spacing :=
  | LsSpacing (_ : dec)
  | LsDesignRuleWidth (_ : dec).
Definition lef_layer_spacing_eqb (deq : dec -> dec -> bool) (a b : lef_layer_spacing) : bool :=
  match a, b with
  | LsSpacing x0, LsSpacing y0 => deq x0 y0
  | LsDesignRuleWidth x0, LsDesignRuleWidth y0 => deq x0 y0
  | _, _ => false
  end.

Record lef_layer_geoms := {
  lg_layer_name : bytes;
  lg_geometries : (list lef_geometry);
  lg_vias : (list lef_via_inst);
  lg_except_pg_net : (option bool);
  lg_spacing : (option lef_layer_spacing);
  lg_width : (option dec)
}.
Definition lef_layer_geoms_eqb (deq : dec -> dec -> bool) (a b : lef_layer_geoms) : bool :=
  bytes_eqb (lg_layer_name a) (lg_layer_name b)
  && (list_eqb (lef_geometry_eqb deq)) (lg_geometries a) (lg_geometries b)
  && (list_eqb (lef_via_inst_eqb deq)) (lg_vias a) (lg_vias b)
  && (option_eqb Bool.eqb) (lg_except_pg_net a) (lg_except_pg_net b)
  && (option_eqb (lef_layer_spacing_eqb deq)) (lg_spacing a) (lg_spacing b)
  && (option_eqb deq) (lg_width a) (lg_width b).
Definition set_lg_layer_name (v : bytes) (r : lef_layer_geoms) : lef_layer_geoms :=
  {| lg_layer_name := v; lg_geometries := lg_geometries r; lg_vias := lg_vias r; lg_except_pg_net := lg_except_pg_net r; lg_spacing := lg_spacing r; lg_width := lg_width r |}.
Definition set_lg_geometries (v : (list lef_geometry)) (r : lef_layer_geoms) : lef_layer_geoms :=
  {| lg_layer_name := lg_layer_name r; lg_geometries := v; lg_vias := lg_vias r; lg_except_pg_net := lg_except_pg_net r; lg_spacing := lg_spacing r; lg_width := lg_width r |}.
Definition set_lg_vias (v : (list lef_via_inst)) (r : lef_layer_geoms) : lef_layer_geoms :=
  {| lg_layer_name := lg_layer_name r; lg_geometries := lg_geometries r; lg_vias := v; lg_except_pg_net := lg_except_pg_net r; lg_spacing := lg_spacing r; lg_width := lg_width r |}.
Definition set_lg_except_pg_net (v : (option bool)) (r : lef_layer_geoms) : lef_layer_geoms :=
  {| lg_layer_name := lg_layer_name r; lg_geometries := lg_geometries r; lg_vias := lg_vias r; lg_except_pg_net := v; lg_spacing := lg_spacing r; lg_width := lg_width r |}.
Definition set_lg_spacing (v : (option lef_layer_spacing)) (r : lef_layer_geoms) : lef_layer_geoms :=
  {| lg_layer_name := lg_layer_name r; lg_geometries := lg_geometries r; lg_vias := lg_vias r; lg_except_pg_net := lg_except_pg_net r; lg_spacing := v; lg_width := lg_width r |}.
Definition set_lg_width (v : (option dec)) (r : lef_layer_geoms) : lef_layer_geoms :=
  {| lg_layer_name := lg_layer_name r; lg_geometries := lg_geometries r; lg_vias := lg_vias r; lg_except_pg_net := lg_except_pg_net r; lg_spacing := lg_spacing r; lg_width := v |}.

Record lef_port := {
  po_class : (option LefPortClass);
  po_layers : (list lef_layer_geoms)
}.
Definition lef_port_eqb (deq : dec -> dec -> bool) (a b : lef_port) : bool :=
  (option_eqb LefPortClass_eqb) (po_class a) (po_class b)
  && (list_eqb (lef_layer_geoms_eqb deq)) (po_layers a) (po_layers b).
Definition set_po_class (v : (option LefPortClass)) (r : lef_port) : lef_port :=
  {| po_class := v; po_layers := po_layers r |}.
Definition set_po_layers (v : (list lef_layer_geoms)) (r : lef_port) : lef_port :=
  {| po_class := po_class r; po_layers := v |}.

Inductive lef_pin_direction :=
  | DirInput 
  | DirOutput (_ : bool)
  | DirInout 
  | DirFeedThru .
Definition lef_pin_direction_eqb (deq : dec -> dec -> bool) (a b : lef_pin_direction) : bool :=
  match a, b with
  | DirInput , DirInput  => true
  | DirOutput x0, DirOutput y0 => Bool.eqb x0 y0
  | DirInout , DirInout  => true
  | DirFeedThru , DirFeedThru  => true
  | _, _ => false
  end.

Record lef_antenna_attr := {
  aa_key : bytes;
  aa_val : dec;
  aa_layer : (option bytes)
}.
Definition lef_antenna_attr_eqb (deq : dec -> dec -> bool) (a b : lef_antenna_attr) : bool :=
  bytes_eqb (aa_key a) (aa_key b)
  && deq (aa_val a) (aa_val b)
  && (option_eqb bytes_eqb) (aa_layer a) (aa_layer b).
Definition set_aa_key (v : bytes) (r : lef_antenna_attr) : lef_antenna_attr :=
  {| aa_key := v; aa_val := aa_val r; aa_layer := aa_layer r |}.
Definition set_aa_val (v : dec) (r : lef_antenna_attr) : lef_antenna_attr :=
  {| aa_key := aa_key r; aa_val := v; aa_layer := aa_layer r |}.
Definition set_aa_layer (v : (option bytes)) (r : lef_antenna_attr) : lef_antenna_attr :=
  {| aa_key := aa_key r; aa_val := aa_val r; aa_layer := v |}.

Record lef_property := {
  pr_name : bytes;
  pr_value : bytes
}.
Definition lef_property_eqb (deq : dec -> dec -> bool) (a b : lef_property) : bool :=
  bytes_eqb (pr_name a) (pr_name b)
  && bytes_eqb (pr_value a) (pr_value b).
Definition set_pr_name (v : bytes) (r : lef_property) : lef_property :=
  {| pr_name := v; pr_value := pr_value r |}.
Definition set_pr_value (v : bytes) (r : lef_property) : lef_property :=
  {| pr_name := pr_name r; pr_value := v |}.

Record lef_pin := {
  pin_name : bytes;
  pin_ports : (list lef_port);
  pin_direction : (option lef_pin_direction);
  pin_use_ : (option LefPinUse);
  pin_shape : (option LefPinShape);
  pin_antenna_model : (option LefAntennaModel);
  pin_antenna_attrs : (list lef_antenna_attr);
  pin_taper_rule : (option bytes);
  pin_supply_sensitivity : (option bytes);
  pin_ground_sensitivity : (option bytes);
  pin_must_join : (option bytes);
  pin_net_expr : (option bytes);
  pin_properties : (list lef_property)
}.
Definition lef_pin_eqb (deq : dec -> dec -> bool) (a b : lef_pin) : bool :=
  bytes_eqb (pin_name a) (pin_name b)
  && (list_eqb (lef_port_eqb deq)) (pin_ports a) (pin_ports b)
  && (option_eqb (lef_pin_direction_eqb deq)) (pin_direction a) (pin_direction b)
  && (option_eqb LefPinUse_eqb) (pin_use_ a) (pin_use_ b)
  && (option_eqb LefPinShape_eqb) (pin_shape a) (pin_shape b)
  && (option_eqb LefAntennaModel_eqb) (pin_antenna_model a) (pin_antenna_model b)
  && (list_eqb (lef_antenna_attr_eqb deq)) (pin_antenna_attrs a) (pin_antenna_attrs b)
  && (option_eqb bytes_eqb) (pin_taper_rule a) (pin_taper_rule b)
  && (option_eqb bytes_eqb) (pin_supply_sensitivity a) (pin_supply_sensitivity b)
  && (option_eqb bytes_eqb) (pin_ground_sensitivity a) (pin_ground_sensitivity b)
  && (option_eqb bytes_eqb) (pin_must_join a) (pin_must_join b)
  && (option_eqb bytes_eqb) (pin_net_expr a) (pin_net_expr b)
  && (list_eqb (lef_property_eqb deq)) (pin_properties a) (pin_properties b).
Definition set_pin_name (v : bytes) (r : lef_pin) : lef_pin :=
  {| pin_name := v; pin_ports := pin_ports r; pin_direction := pin_direction r; pin_use_ := pin_use_ r; pin_shape := pin_shape r; pin_antenna_model := pin_antenna_model r; pin_antenna_attrs := pin_antenna_attrs r; pin_taper_rule := pin_taper_rule r; pin_supply_sensitivity := pin_supply_sensitivity r; pin_ground_sensitivity := pin_ground_sensitivity r; pin_must_join := pin_must_join r; pin_net_expr := pin_net_expr r; pin_properties := pin_properties r |}.
Definition set_pin_ports (v : (list lef_port)) (r : lef_pin) : lef_pin :=
  {| pin_name := pin_name r; pin_ports := v; pin_direction := pin_direction r; pin_use_ := pin_use_ r; pin_shape := pin_shape r; pin_antenna_model := pin_antenna_model r; pin_antenna_attrs := pin_antenna_attrs r; pin_taper_rule := pin_taper_rule r; pin_supply_sensitivity := pin_supply_sensitivity r; pin_ground_sensitivity := pin_ground_sensitivity r; pin_must_join := pin_must_join r; pin_net_expr := pin_net_expr r; pin_properties := pin_properties r |}.
Definition set_pin_direction (v : (option lef_pin_direction)) (r : lef_pin) : lef_pin :=
  {| pin_name := pin_name r; pin_ports := pin_ports r; pin_direction := v; pin_use_ := pin_use_ r; pin_shape := pin_shape r; pin_antenna_model := pin_antenna_model r; pin_antenna_attrs := pin_antenna_attrs r; pin_taper_rule := pin_taper_rule r; pin_supply_sensitivity := pin_supply_sensitivity r; pin_ground_sensitivity := pin_ground_sensitivity r; pin_must_join := pin_must_join r; pin_net_expr := pin_net_expr r; pin_properties := pin_properties r |}.
Definition set_pin_use_ (v : (option LefPinUse)) (r : lef_pin) : lef_pin :=
  {| pin_name := pin_name r; pin_ports := pin_ports r; pin_direction := pin_direction r; pin_use_ := v; pin_shape := pin_shape r; pin_antenna_model := pin_antenna_model r; pin_antenna_attrs := pin_antenna_attrs r; pin_taper_rule := pin_taper_rule r; pin_supply_sensitivity := pin_supply_sensitivity r; pin_ground_sensitivity := pin_ground_sensitivity r; pin_must_join := pin_must_join r; pin_net_expr := pin_net_expr r; pin_properties := pin_properties r |}.
Definition set_pin_shape (v : (option LefPinShape)) (r : lef_pin) : lef_pin :=
  {| pin_name := pin_name r; pin_ports := pin_ports r; pin_direction := pin_direction r; pin_use_ := pin_use_ r; pin_shape := v; pin_antenna_model := pin_antenna_model r; pin_antenna_attrs := pin_antenna_attrs r; pin_taper_rule := pin_taper_rule r; pin_supply_sensitivity := pin_supply_sensitivity r; pin_ground_sensitivity := pin_ground_sensitivity r; pin_must_join := pin_must_join r; pin_net_expr := pin_net_expr r; pin_properties := pin_properties r |}.
Definition set_pin_antenna_model (v : (option LefAntennaModel)) (r : lef_pin) : lef_pin :=
  {| pin_name := pin_name r; pin_ports := pin_ports r; pin_direction := pin_direction r; pin_use_ := pin_use_ r; pin_shape := pin_shape r; pin_antenna_model := v; pin_antenna_attrs := pin_antenna_attrs r; pin_taper_rule := pin_taper_rule r; pin_supply_sensitivity := pin_supply_sensitivity r; pin_ground_sensitivity := pin_ground_sensitivity r; pin_must_join := pin_must_join r; pin_net_expr := pin_net_expr r; pin_properties := pin_properties r |}.
Definition set_pin_antenna_attrs (v : (list lef_antenna_attr)) (r : lef_pin) : lef_pin :=
  {| pin_name := pin_name r; pin_ports := pin_ports r; pin_direction := pin_direction r; pin_use_ := pin_use_ r; pin_shape := pin_shape r; pin_antenna_model := pin_antenna_model r; pin_antenna_attrs := v; pin_taper_rule := pin_taper_rule r; pin_supply_sensitivity := pin_supply_sensitivity r; pin_ground_sensitivity := pin_ground_sensitivity r; pin_must_join := pin_must_join r; pin_net_expr := pin_net_expr r; pin_properties := pin_properties r |}.
Definition set_pin_taper_rule (v : (option bytes)) (r : lef_pin) : lef_pin :=
  {| pin_name := pin_name r; pin_ports := pin_ports r; pin_direction := pin_direction r; pin_use_ := pin_use_ r; pin_shape := pin_shape r; pin_antenna_model := pin_antenna_model r; pin_antenna_attrs := pin_antenna_attrs r; pin_taper_rule := v; pin_supply_sensitivity := pin_supply_sensitivity r; pin_ground_sensitivity := pin_ground_sensitivity r; pin_must_join := pin_must_join r; pin_net_expr := pin_net_expr r; pin_properties := pin_properties r |}.
Definition set_pin_supply_sensitivity (v : (option bytes)) (r : lef_pin) : lef_pin :=
  {| pin_name := pin_name r; pin_ports := pin_ports r; pin_direction := pin_direction r; pin_use_ := pin_use_ r; pin_shape := pin_shape r; pin_antenna_model := pin_antenna_model r; pin_antenna_attrs := pin_antenna_attrs r; pin_taper_rule := pin_taper_rule r; pin_supply_sensitivity := v; pin_ground_sensitivity := pin_ground_sensitivity r; pin_must_join := pin_must_join r; pin_net_expr := pin_net_expr r; pin_properties := pin_properties r |}.
Definition set_pin_ground_sensitivity (v : (option bytes)) (r : lef_pin) : lef_pin :=
  {| pin_name := pin_name r; pin_ports := pin_ports r; pin_direction := pin_direction r; pin_use_ := pin_use_ r; pin_shape := pin_shape r; pin_antenna_model := pin_antenna_model r; pin_antenna_attrs := pin_antenna_attrs r; pin_taper_rule := pin_taper_rule r; pin_supply_sensitivity := pin_supply_sensitivity r; pin_ground_sensitivity := v; pin_must_join := pin_must_join r; pin_net_expr := pin_net_expr r; pin_properties := pin_properties r |}.
Definition set_pin_must_join (v : (option bytes)) (r : lef_pin) : lef_pin :=
  {| pin_name := pin_name r; pin_ports := pin_ports r; pin_direction := pin_direction r; pin_use_ := pin_use_ r; pin_shape := pin_shape r; pin_antenna_model := pin_antenna_model r; pin_antenna_attrs := pin_antenna_attrs r; pin_taper_rule := pin_taper_rule r; pin_supply_sensitivity := pin_supply_sensitivity r; pin_ground_sensitivity := pin_ground_sensitivity r; pin_must_join := v; pin_net_expr := pin_net_expr r; pin_properties := pin_properties r |}.
Definition set_pin_net_expr (v : (option bytes)) (r : lef_pin) : lef_pin :=
  {| pin_name := pin_name r; pin_ports := pin_ports r; pin_direction := pin_direction r; pin_use_ := pin_use_ r; pin_shape := pin_shape r; pin_antenna_model := pin_antenna_model r; pin_antenna_attrs := pin_antenna_attrs r; pin_taper_rule := pin_taper_rule r; pin_supply_sensitivity := pin_supply_sensitivity r; pin_ground_sensitivity := pin_ground_sensitivity r; pin_must_join := pin_must_join r; pin_net_expr := v; pin_properties := pin_properties r |}.
Definition set_pin_properties (v : (list lef_property)) (r : lef_pin) : lef_pin :=
  {| pin_name := pin_name r; pin_ports := pin_ports r; pin_direction := pin_direction r; pin_use_ := pin_use_ r; pin_shape := pin_shape r; pin_antenna_model := pin_antenna_model r; pin_antenna_attrs := pin_antenna_attrs r; pin_taper_rule := pin_taper_rule r; pin_supply_sensitivity := pin_supply_sensitivity r; pin_ground_sensitivity := pin_ground_sensitivity r; pin_must_join := pin_must_join r; pin_net_expr := pin_net_expr r; pin_properties := v |}.

Inductive lef_macro_class :=
  | McCover (_ : bool)
  | McRing 
  | McBlock (_ : (option LefBlockClassType))
  | McPad (_ : (option LefPadClassType))
  | McCore (_ : (option LefCoreClassType))
  | McEndCap (_ : LefEndCapClassType).
Definition lef_macro_class_eqb (deq : dec -> dec -> bool) (a b : lef_macro_class) : bool :=
  match a, b with
  | McCover x0, McCover y0 => Bool.eqb x0 y0
  | McRing , McRing  => true
  | McBlock x0, McBlock y0 => (option_eqb LefBlockClassType_eqb) x0 y0
  | McPad x0, McPad y0 => (option_eqb LefPadClassType_eqb) x0 y0
  | McCore x0, McCore y0 => (option_eqb LefCoreClassType_eqb) x0 y0
  | McEndCap x0, McEndCap y0 => LefEndCapClassType_eqb x0 y0
  | _, _ => false
  end.

Record lef_foreign := {
  fo_cell_name : bytes;
  fo_pt : (option lef_point);
  fo_orient : (option LefOrient)
}.
Definition lef_foreign_eqb (deq : dec -> dec -> bool) (a b : lef_foreign) : bool :=
  bytes_eqb (fo_cell_name a) (fo_cell_name b)
  && (option_eqb (lef_point_eqb deq)) (fo_pt a) (fo_pt b)
  && (option_eqb LefOrient_eqb) (fo_orient a) (fo_orient b).
Definition set_fo_cell_name (v : bytes) (r : lef_foreign) : lef_foreign :=
  {| fo_cell_name := v; fo_pt := fo_pt r; fo_orient := fo_orient r |}.
Definition set_fo_pt (v : (option lef_point)) (r : lef_foreign) : lef_foreign :=
  {| fo_cell_name := fo_cell_name r; fo_pt := v; fo_orient := fo_orient r |}.
Definition set_fo_orient (v : (option LefOrient)) (r : lef_foreign) : lef_foreign :=
  {| fo_cell_name := fo_cell_name r; fo_pt := fo_pt r; fo_orient := v |}.

Record lef_density_rect := {
  dr_pt1 : lef_point;
  dr_pt2 : lef_point;
  dr_density_value : dec
}.
Definition lef_density_rect_eqb (deq : dec -> dec -> bool) (a b : lef_density_rect) : bool :=
  (lef_point_eqb deq) (dr_pt1 a) (dr_pt1 b)
  && (lef_point_eqb deq) (dr_pt2 a) (dr_pt2 b)
  && deq (dr_density_value a) (dr_density_value b).
Definition set_dr_pt1 (v : lef_point) (r : lef_density_rect) : lef_density_rect :=
  {| dr_pt1 := v; dr_pt2 := dr_pt2 r; dr_density_value := dr_density_value r |}.
Definition set_dr_pt2 (v : lef_point) (r : lef_density_rect) : lef_density_rect :=
  {| dr_pt1 := dr_pt1 r; dr_pt2 := v; dr_density_value := dr_density_value r |}.
Definition set_dr_density_value (v : dec) (r : lef_density_rect) : lef_density_rect :=
  {| dr_pt1 := dr_pt1 r; dr_pt2 := dr_pt2 r; dr_density_value := v |}.

Record lef_density_geoms := {
  dg_layer_name : bytes;
  dg_geometries : (list lef_density_rect)
}.
Definition lef_density_geoms_eqb (deq : dec -> dec -> bool) (a b : lef_density_geoms) : bool :=
  bytes_eqb (dg_layer_name a) (dg_layer_name b)
  && (list_eqb (lef_density_rect_eqb deq)) (dg_geometries a) (dg_geometries b).
Definition set_dg_layer_name (v : bytes) (r : lef_density_geoms) : lef_density_geoms :=
  {| dg_layer_name := v; dg_geometries := dg_geometries r |}.
Definition set_dg_geometries (v : (list lef_density_rect)) (r : lef_density_geoms) : lef_density_geoms :=
  {| dg_layer_name := dg_layer_name r; dg_geometries := v |}.

Record lef_macro := {
  mac_name : bytes;
  mac_pins : (list lef_pin);
  mac_obs : (list lef_layer_geoms);
  mac_class : (option lef_macro_class);
  mac_foreign : (option lef_foreign);
  mac_origin : (option lef_point);
  mac_size : (option (dec * dec));
  mac_symmetry : (option (list LefSymmetry));
  mac_site : (option bytes);
  mac_source : (option LefDefSource);
  mac_eeq : (option bytes);
  mac_fixed_mask : bool;
  mac_properties : (list lef_property);
  mac_density : (option (list lef_density_geoms))
}.
Definition lef_macro_eqb (deq : dec -> dec -> bool) (a b : lef_macro) : bool :=
  bytes_eqb (mac_name a) (mac_name b)
  && (list_eqb (lef_pin_eqb deq)) (mac_pins a) (mac_pins b)
  && (list_eqb (lef_layer_geoms_eqb deq)) (mac_obs a) (mac_obs b)
  && (option_eqb (lef_macro_class_eqb deq)) (mac_class a) (mac_class b)
  && (option_eqb (lef_foreign_eqb deq)) (mac_foreign a) (mac_foreign b)
  && (option_eqb (lef_point_eqb deq)) (mac_origin a) (mac_origin b)
  && (option_eqb (pair_eqb deq deq)) (mac_size a) (mac_size b)
  && (option_eqb (list_eqb LefSymmetry_eqb)) (mac_symmetry a) (mac_symmetry b)
  && (option_eqb bytes_eqb) (mac_site a) (mac_site b)
  && (option_eqb LefDefSource_eqb) (mac_source a) (mac_source b)
  && (option_eqb bytes_eqb) (mac_eeq a) (mac_eeq b)
  && Bool.eqb (mac_fixed_mask a) (mac_fixed_mask b)
  && (list_eqb (lef_property_eqb deq)) (mac_properties a) (mac_properties b)
  && (option_eqb (list_eqb (lef_density_geoms_eqb deq))) (mac_density a) (mac_density b).
Definition set_mac_name (v : bytes) (r : lef_macro) : lef_macro :=
  {| mac_name := v; mac_pins := mac_pins r; mac_obs := mac_obs r; mac_class := mac_class r; mac_foreign := mac_foreign r; mac_origin := mac_origin r; mac_size := mac_size r; mac_symmetry := mac_symmetry r; mac_site := mac_site r; mac_source := mac_source r; mac_eeq := mac_eeq r; mac_fixed_mask := mac_fixed_mask r; mac_properties := mac_properties r; mac_density := mac_density r |}.
Definition set_mac_pins (v : (list lef_pin)) (r : lef_macro) : lef_macro :=
  {| mac_name := mac_name r; mac_pins := v; mac_obs := mac_obs r; mac_class := mac_class r; mac_foreign := mac_foreign r; mac_origin := mac_origin r; mac_size := mac_size r; mac_symmetry := mac_symmetry r; mac_site := mac_site r; mac_source := mac_source r; mac_eeq := mac_eeq r; mac_fixed_mask := mac_fixed_mask r; mac_properties := mac_properties r; mac_density := mac_density r |}.
Definition set_mac_obs (v : (list lef_layer_geoms)) (r : lef_macro) : lef_macro :=
  {| mac_name := mac_name r; mac_pins := mac_pins r; mac_obs := v; mac_class := mac_class r; mac_foreign := mac_foreign r; mac_origin := mac_origin r; mac_size := mac_size r; mac_symmetry := mac_symmetry r; mac_site := mac_site r; mac_source := mac_source r; mac_eeq := mac_eeq r; mac_fixed_mask := mac_fixed_mask r; mac_properties := mac_properties r; mac_density := mac_density r |}.
Definition set_mac_class (v : (option lef_macro_class)) (r : lef_macro) : lef_macro :=
  {| mac_name := mac_name r; mac_pins := mac_pins r; mac_obs := mac_obs r; mac_class := v; mac_foreign := mac_foreign r; mac_origin := mac_origin r; mac_size := mac_size r; mac_symmetry := mac_symmetry r; mac_site := mac_site r; mac_source := mac_source r; mac_eeq := mac_eeq r; mac_fixed_mask := mac_fixed_mask r; mac_properties := mac_properties r; mac_density := mac_density r |}.
Definition set_mac_foreign (v : (option lef_foreign)) (r : lef_macro) : lef_macro :=
  {| mac_name := mac_name r; mac_pins := mac_pins r; mac_obs := mac_obs r; mac_class := mac_class r; mac_foreign := v; mac_origin := mac_origin r; mac_size := mac_size r; mac_symmetry := mac_symmetry r; mac_site := mac_site r; mac_source := mac_source r; mac_eeq := mac_eeq r; mac_fixed_mask := mac_fixed_mask r; mac_properties := mac_properties r; mac_density := mac_density r |}.
Definition set_mac_origin (v : (option lef_point)) (r : lef_macro) : lef_macro :=
  {| mac_name := mac_name r; mac_pins := mac_pins r; mac_obs := mac_obs r; mac_class := mac_class r; mac_foreign := mac_foreign r; mac_origin := v; mac_size := mac_size r; mac_symmetry := mac_symmetry r; mac_site := mac_site r; mac_source := mac_source r; mac_eeq := mac_eeq r; mac_fixed_mask := mac_fixed_mask r; mac_properties := mac_properties r; mac_density := mac_density r |}.
Definition set_mac_size (v : (option (dec * dec))) (r : lef_macro) : lef_macro :=
  {| mac_name := mac_name r; mac_pins := mac_pins r; mac_obs := mac_obs r; mac_class := mac_class r; mac_foreign := mac_foreign r; mac_origin := mac_origin r; mac_size := v; mac_symmetry := mac_symmetry r; mac_site := mac_site r; mac_source := mac_source r; mac_eeq := mac_eeq r; mac_fixed_mask := mac_fixed_mask r; mac_properties := mac_properties r; mac_density := mac_density r |}.
Definition set_mac_symmetry (v : (option (list LefSymmetry))) (r : lef_macro) : lef_macro :=
  {| mac_name := mac_name r; mac_pins := mac_pins r; mac_obs := mac_obs r; mac_class := mac_class r; mac_foreign := mac_foreign r; mac_origin := mac_origin r; mac_size := mac_size r; mac_symmetry := v; mac_site := mac_site r; mac_source := mac_source r; mac_eeq := mac_eeq r; mac_fixed_mask := mac_fixed_mask r; mac_properties := mac_properties r; mac_density := mac_density r |}.
Definition set_mac_site (v : (option bytes)) (r : lef_macro) : lef_macro :=
  {| mac_name := mac_name r; mac_pins := mac_pins r; mac_obs := mac_obs r; mac_class := mac_class r; mac_foreign := mac_foreign r; mac_origin := mac_origin r; mac_size := mac_size r; mac_symmetry := mac_symmetry r; mac_site := v; mac_source := mac_source r; mac_eeq := mac_eeq r; mac_fixed_mask := mac_fixed_mask r; mac_properties := mac_properties r; mac_density := mac_density r |}.
Definition set_mac_source (v : (option LefDefSource)) (r : lef_macro) : lef_macro :=
  {| mac_name := mac_name r; mac_pins := mac_pins r; mac_obs := mac_obs r; mac_class := mac_class r; mac_foreign := mac_foreign r; mac_origin := mac_origin r; mac_size := mac_size r; mac_symmetry := mac_symmetry r; mac_site := mac_site r; mac_source := v; mac_eeq := mac_eeq r; mac_fixed_mask := mac_fixed_mask r; mac_properties := mac_properties r; mac_density := mac_density r |}.
Definition set_mac_eeq (v : (option bytes)) (r : lef_macro) : lef_macro :=
  {| mac_name := mac_name r; mac_pins := mac_pins r; mac_obs := mac_obs r; mac_class := mac_class r; mac_foreign := mac_foreign r; mac_origin := mac_origin r; mac_size := mac_size r; mac_symmetry := mac_symmetry r; mac_site := mac_site r; mac_source := mac_source r; mac_eeq := v; mac_fixed_mask := mac_fixed_mask r; mac_properties := mac_properties r; mac_density := mac_density r |}.
Definition set_mac_fixed_mask (v : bool) (r : lef_macro) : lef_macro :=
  {| mac_name := mac_name r; mac_pins := mac_pins r; mac_obs := mac_obs r; mac_class := mac_class r; mac_foreign := mac_foreign r; mac_origin := mac_origin r; mac_size := mac_size r; mac_symmetry := mac_symmetry r; mac_site := mac_site r; mac_source := mac_source r; mac_eeq := mac_eeq r; mac_fixed_mask := v; mac_properties := mac_properties r; mac_density := mac_density r |}.
Definition set_mac_properties (v : (list lef_property)) (r : lef_macro) : lef_macro :=
  {| mac_name := mac_name r; mac_pins := mac_pins r; mac_obs := mac_obs r; mac_class := mac_class r; mac_foreign := mac_foreign r; mac_origin := mac_origin r; mac_size := mac_size r; mac_symmetry := mac_symmetry r; mac_site := mac_site r; mac_source := mac_source r; mac_eeq := mac_eeq r; mac_fixed_mask := mac_fixed_mask r; mac_properties := v; mac_density := mac_density r |}.
Definition set_mac_density (v : (option (list lef_density_geoms))) (r : lef_macro) : lef_macro :=
  {| mac_name := mac_name r; mac_pins := mac_pins r; mac_obs := mac_obs r; mac_class := mac_class r; mac_foreign := mac_foreign r; mac_origin := mac_origin r; mac_size := mac_size r; mac_symmetry := mac_symmetry r; mac_site := mac_site r; mac_source := mac_source r; mac_eeq := mac_eeq r; mac_fixed_mask := mac_fixed_mask r; mac_properties := mac_properties r; mac_density := v |}.

Inductive lef_via_shape :=
  | VsRect (_ : (option dec)) (_ : lef_point) (_ : lef_point)
  | VsPolygon (_ : (option dec)) (_ : (list lef_point)).
Definition lef_via_shape_eqb (deq : dec -> dec -> bool) (a b : lef_via_shape) : bool :=
  match a, b with
  | VsRect x0 x1 x2, VsRect y0 y1 y2 => (option_eqb deq) x0 y0 && (lef_point_eqb deq) x1 y1 && (lef_point_eqb deq) x2 y2
  | VsPolygon x0 x1, VsPolygon y0 y1 => (option_eqb deq) x0 y0 && (list_eqb (lef_point_eqb deq)) x1 y1
  | _, _ => false
  end.

Record lef_via_layer_geoms := {
  vl_layer_name : bytes;
  vl_shapes : (list lef_via_shape)
}.
Definition lef_via_layer_geoms_eqb (deq : dec -> dec -> bool) (a b : lef_via_layer_geoms) : bool :=
  bytes_eqb (vl_layer_name a) (vl_layer_name b)
  && (list_eqb (lef_via_shape_eqb deq)) (vl_shapes a) (vl_shapes b).
Definition set_vl_layer_name (v : bytes) (r : lef_via_layer_geoms) : lef_via_layer_geoms :=
  {| vl_layer_name := v; vl_shapes := vl_shapes r |}.
Definition set_vl_shapes (v : (list lef_via_shape)) (r : lef_via_layer_geoms) : lef_via_layer_geoms :=
  {| vl_layer_name := vl_layer_name r; vl_shapes := v |}.

Record lef_fixed_via := {
  fv_resistance_ohms : (option dec);
  fv_layers : (list lef_via_layer_geoms)
}.
Definition lef_fixed_via_eqb (deq : dec -> dec -> bool) (a b : lef_fixed_via) : bool :=
  (option_eqb deq) (fv_resistance_ohms a) (fv_resistance_ohms b)
  && (list_eqb (lef_via_layer_geoms_eqb deq)) (fv_layers a) (fv_layers b).
Definition set_fv_resistance_ohms (v : (option dec)) (r : lef_fixed_via) : lef_fixed_via :=
  {| fv_resistance_ohms := v; fv_layers := fv_layers r |}.
Definition set_fv_layers (v : (list lef_via_layer_geoms)) (r : lef_fixed_via) : lef_fixed_via :=
  {| fv_resistance_ohms := fv_resistance_ohms r; fv_layers := v |}.

Record lef_rowcol := {
  rc_rows : dec;
  rc_cols : dec
}.
Definition lef_rowcol_eqb (deq : dec -> dec -> bool) (a b : lef_rowcol) : bool :=
  deq (rc_rows a) (rc_rows b)
  && deq (rc_cols a) (rc_cols b).
Definition set_rc_rows (v : dec) (r : lef_rowcol) : lef_rowcol :=
  {| rc_rows := v; rc_cols := rc_cols r |}.
Definition set_rc_cols (v : dec) (r : lef_rowcol) : lef_rowcol :=
  {| rc_rows := rc_rows r; rc_cols := v |}.

Record lef_offset := {
  of_bot_x : dec;
  of_bot_y : dec;
  of_top_x : dec;
  of_top_y : dec
}.
Definition lef_offset_eqb (deq : dec -> dec -> bool) (a b : lef_offset) : bool :=
  deq (of_bot_x a) (of_bot_x b)
  && deq (of_bot_y a) (of_bot_y b)
  && deq (of_top_x a) (of_top_x b)
  && deq (of_top_y a) (of_top_y b).
Definition set_of_bot_x (v : dec) (r : lef_offset) : lef_offset :=
  {| of_bot_x := v; of_bot_y := of_bot_y r; of_top_x := of_top_x r; of_top_y := of_top_y r |}.
Definition set_of_bot_y (v : dec) (r : lef_offset) : lef_offset :=
  {| of_bot_x := of_bot_x r; of_bot_y := v; of_top_x := of_top_x r; of_top_y := of_top_y r |}.
Definition set_of_top_x (v : dec) (r : lef_offset) : lef_offset :=
  {| of_bot_x := of_bot_x r; of_bot_y := of_bot_y r; of_top_x := v; of_top_y := of_top_y r |}.
Definition set_of_top_y (v : dec) (r : lef_offset) : lef_offset :=
  {| of_bot_x := of_bot_x r; of_bot_y := of_bot_y r; of_top_x := of_top_x r; of_top_y := v |}.

Record lef_gen_via := {
  gv_via_rule_name : bytes;
  gv_cut_size_x : dec;
  gv_cut_size_y : dec;
  gv_bot_metal_layer : bytes;
  gv_cut_layer : bytes;
  gv_top_metal_layer : bytes;
  gv_cut_spacing_x : dec;
  gv_cut_spacing_y : dec;
  gv_bot_enc_x : dec;
  gv_bot_enc_y : dec;
  gv_top_enc_x : dec;
  gv_top_enc_y : dec;
  gv_rowcol : (option lef_rowcol);
  gv_origin : (option lef_point);
  gv_offset : (option lef_offset)
}.
Definition lef_gen_via_eqb (deq : dec -> dec -> bool) (a b : lef_gen_via) : bool :=
  bytes_eqb (gv_via_rule_name a) (gv_via_rule_name b)
  && deq (gv_cut_size_x a) (gv_cut_size_x b)
  && deq (gv_cut_size_y a) (gv_cut_size_y b)
  && bytes_eqb (gv_bot_metal_layer a) (gv_bot_metal_layer b)
  && bytes_eqb (gv_cut_layer a) (gv_cut_layer b)
  && bytes_eqb (gv_top_metal_layer a) (gv_top_metal_layer b)
  && deq (gv_cut_spacing_x a) (gv_cut_spacing_x b)
  && deq (gv_cut_spacing_y a) (gv_cut_spacing_y b)
  && deq (gv_bot_enc_x a) (gv_bot_enc_x b)
  && deq (gv_bot_enc_y a) (gv_bot_enc_y b)
  && deq (gv_top_enc_x a) (gv_top_enc_x b)
  && deq (gv_top_enc_y a) (gv_top_enc_y b)
  && (option_eqb (lef_rowcol_eqb deq)) (gv_rowcol a) (gv_rowcol b)
  && (option_eqb (lef_point_eqb deq)) (gv_origin a) (gv_origin b)
  && (option_eqb (lef_offset_eqb deq)) (gv_offset a) (gv_offset b).
Definition set_gv_via_rule_name (v : bytes) (r : lef_gen_via) : lef_gen_via :=
  {| gv_via_rule_name := v; gv_cut_size_x := gv_cut_size_x r; gv_cut_size_y := gv_cut_size_y r; gv_bot_metal_layer := gv_bot_metal_layer r; gv_cut_layer := gv_cut_layer r; gv_top_metal_layer := gv_top_metal_layer r; gv_cut_spacing_x := gv_cut_spacing_x r; gv_cut_spacing_y := gv_cut_spacing_y r; gv_bot_enc_x := gv_bot_enc_x r; gv_bot_enc_y := gv_bot_enc_y r; gv_top_enc_x := gv_top_enc_x r; gv_top_enc_y := gv_top_enc_y r; gv_rowcol := gv_rowcol r; gv_origin := gv_origin r; gv_offset := gv_offset r |}.
Definition set_gv_cut_size_x (v : dec) (r : lef_gen_via) : lef_gen_via :=
  {| gv_via_rule_name := gv_via_rule_name r; gv_cut_size_x := v; gv_cut_size_y := gv_cut_size_y r; gv_bot_metal_layer := gv_bot_metal_layer r; gv_cut_layer := gv_cut_layer r; gv_top_metal_layer := gv_top_metal_layer r; gv_cut_spacing_x := gv_cut_spacing_x r; gv_cut_spacing_y := gv_cut_spacing_y r; gv_bot_enc_x := gv_bot_enc_x r; gv_bot_enc_y := gv_bot_enc_y r; gv_top_enc_x := gv_top_enc_x r; gv_top_enc_y := gv_top_enc_y r; gv_rowcol := gv_rowcol r; gv_origin := gv_origin r; gv_offset := gv_offset r |}.
Definition set_gv_cut_size_y (v : dec) (r : lef_gen_via) : lef_gen_via :=
  {| gv_via_rule_name := gv_via_rule_name r; gv_cut_size_x := gv_cut_size_x r; gv_cut_size_y := v; gv_bot_metal_layer := gv_bot_metal_layer r; gv_cut_layer := gv_cut_layer r; gv_top_metal_layer := gv_top_metal_layer r; gv_cut_spacing_x := gv_cut_spacing_x r; gv_cut_spacing_y := gv_cut_spacing_y r; gv_bot_enc_x := gv_bot_enc_x r; gv_bot_enc_y := gv_bot_enc_y r; gv_top_enc_x := gv_top_enc_x r; gv_top_enc_y := gv_top_enc_y r; gv_rowcol := gv_rowcol r; gv_origin := gv_origin r; gv_offset := gv_offset r |}.
Definition set_gv_bot_metal_layer (v : bytes) (r : lef_gen_via) : lef_gen_via :=
  {| gv_via_rule_name := gv_via_rule_name r; gv_cut_size_x := gv_cut_size_x r; gv_cut_size_y := gv_cut_size_y r; gv_bot_metal_layer := v; gv_cut_layer := gv_cut_layer r; gv_top_metal_layer := gv_top_metal_layer r; gv_cut_spacing_x := gv_cut_spacing_x r; gv_cut_spacing_y := gv_cut_spacing_y r; gv_bot_enc_x := gv_bot_enc_x r; gv_bot_enc_y := gv_bot_enc_y r; gv_top_enc_x := gv_top_enc_x r; gv_top_enc_y := gv_top_enc_y r; gv_rowcol := gv_rowcol r; gv_origin := gv_origin r; gv_offset := gv_offset r |}.
Definition set_gv_cut_layer (v : bytes) (r : lef_gen_via) : lef_gen_via :=
  {| gv_via_rule_name := gv_via_rule_name r; gv_cut_size_x := gv_cut_size_x r; gv_cut_size_y := gv_cut_size_y r; gv_bot_metal_layer := gv_bot_metal_layer r; gv_cut_layer := v; gv_top_metal_layer := gv_top_metal_layer r; gv_cut_spacing_x := gv_cut_spacing_x r; gv_cut_spacing_y := gv_cut_spacing_y r; gv_bot_enc_x := gv_bot_enc_x r; gv_bot_enc_y := gv_bot_enc_y r; gv_top_enc_x := gv_top_enc_x r; gv_top_enc_y := gv_top_enc_y r; gv_rowcol := gv_rowcol r; gv_origin := gv_origin r; gv_offset := gv_offset r |}.
Definition set_gv_top_metal_layer (v : bytes) (r : lef_gen_via) : lef_gen_via :=
  {| gv_via_rule_name := gv_via_rule_name r; gv_cut_size_x := gv_cut_size_x r; gv_cut_size_y := gv_cut_size_y r; gv_bot_metal_layer := gv_bot_metal_layer r; gv_cut_layer := gv_cut_layer r; gv_top_metal_layer := v; gv_cut_spacing_x := gv_cut_spacing_x r; gv_cut_spacing_y := gv_cut_spacing_y r; gv_bot_enc_x := gv_bot_enc_x r; gv_bot_enc_y := gv_bot_enc_y r; gv_top_enc_x := gv_top_enc_x r; gv_top_enc_y := gv_top_enc_y r; gv_rowcol := gv_rowcol r; gv_origin := gv_origin r; gv_offset := gv_offset r |}.
Definition set_gv_cut_spacing_x (v : dec) (r : lef_gen_via) : lef_gen_via :=
  {| gv_via_rule_name := gv_via_rule_name r; gv_cut_size_x := gv_cut_size_x r; gv_cut_size_y := gv_cut_size_y r; gv_bot_metal_layer := gv_bot_metal_layer r; gv_cut_layer := gv_cut_layer r; gv_top_metal_layer := gv_top_metal_layer r; gv_cut_spacing_x := v; gv_cut_spacing_y := gv_cut_spacing_y r; gv_bot_enc_x := gv_bot_enc_x r; gv_bot_enc_y := gv_bot_enc_y r; gv_top_enc_x := gv_top_enc_x r; gv_top_enc_y := gv_top_enc_y r; gv_rowcol := gv_rowcol r; gv_origin := gv_origin r; gv_offset := gv_offset r |}.
Definition set_gv_cut_spacing_y (v : dec) (r : lef_gen_via) : lef_gen_via :=
  {| gv_via_rule_name := gv_via_rule_name r; gv_cut_size_x := gv_cut_size_x r; gv_cut_size_y := gv_cut_size_y r; gv_bot_metal_layer := gv_bot_metal_layer r; gv_cut_layer := gv_cut_layer r; gv_top_metal_layer := gv_top_metal_layer r; gv_cut_spacing_x := gv_cut_spacing_x r; gv_cut_spacing_y := v; gv_bot_enc_x := gv_bot_enc_x r; gv_bot_enc_y := gv_bot_enc_y r; gv_top_enc_x := gv_top_enc_x r; gv_top_enc_y := gv_top_enc_y r; gv_rowcol := gv_rowcol r; gv_origin := gv_origin r; gv_offset := gv_offset r |}.
Definition set_gv_bot_enc_x (v : dec) (r : lef_gen_via) : lef_gen_via :=
  {| gv_via_rule_name := gv_via_rule_name r; gv_cut_size_x := gv_cut_size_x r; gv_cut_size_y := gv_cut_size_y r; gv_bot_metal_layer := gv_bot_metal_layer r; gv_cut_layer := gv_cut_layer r; gv_top_metal_layer := gv_top_metal_layer r; gv_cut_spacing_x := gv_cut_spacing_x r; gv_cut_spacing_y := gv_cut_spacing_y r; gv_bot_enc_x := v; gv_bot_enc_y := gv_bot_enc_y r; gv_top_enc_x := gv_top_enc_x r; gv_top_enc_y := gv_top_enc_y r; gv_rowcol := gv_rowcol r; gv_origin := gv_origin r; gv_offset := gv_offset r |}.
Definition set_gv_bot_enc_y (v : dec) (r : lef_gen_via) : lef_gen_via :=
  {| gv_via_rule_name := gv_via_rule_name r; gv_cut_size_x := gv_cut_size_x r; gv_cut_size_y := gv_cut_size_y r; gv_bot_metal_layer := gv_bot_metal_layer r; gv_cut_layer := gv_cut_layer r; gv_top_metal_layer := gv_top_metal_layer r; gv_cut_spacing_x := gv_cut_spacing_x r; gv_cut_spacing_y := gv_cut_spacing_y r; gv_bot_enc_x := gv_bot_enc_x r; gv_bot_enc_y := v; gv_top_enc_x := gv_top_enc_x r; gv_top_enc_y := gv_top_enc_y r; gv_rowcol := gv_rowcol r; gv_origin := gv_origin r; gv_offset := gv_offset r |}.
Definition set_gv_top_enc_x (v : dec) (r : lef_gen_via) : lef_gen_via :=
  {| gv_via_rule_name := gv_via_rule_name r; gv_cut_size_x := gv_cut_size_x r; gv_cut_size_y := gv_cut_size_y r; gv_bot_metal_layer := gv_bot_metal_layer r; gv_cut_layer := gv_cut_layer r; gv_top_metal_layer := gv_top_metal_layer r; gv_cut_spacing_x := gv_cut_spacing_x r; gv_cut_spacing_y := gv_cut_spacing_y r; gv_bot_enc_x := gv_bot_enc_x r; gv_bot_enc_y := gv_bot_enc_y r; gv_top_enc_x := v; gv_top_enc_y := gv_top_enc_y r; gv_rowcol := gv_rowcol r; gv_origin := gv_origin r; gv_offset := gv_offset r |}.
Definition set_gv_top_enc_y (v : dec) (r : lef_gen_via) : lef_gen_via :=
  {| gv_via_rule_name := gv_via_rule_name r; gv_cut_size_x := gv_cut_size_x r; gv_cut_size_y := gv_cut_size_y r; gv_bot_metal_layer := gv_bot_metal_layer r; gv_cut_layer := gv_cut_layer r; gv_top_metal_layer := gv_top_metal_layer r; gv_cut_spacing_x := gv_cut_spacing_x r; gv_cut_spacing_y := gv_cut_spacing_y r; gv_bot_enc_x := gv_bot_enc_x r; gv_bot_enc_y := gv_bot_enc_y r; gv_top_enc_x := gv_top_enc_x r; gv_top_enc_y := v; gv_rowcol := gv_rowcol r; gv_origin := gv_origin r; gv_offset := gv_offset r |}.
Definition set_gv_rowcol (v : (option lef_rowcol)) (r : lef_gen_via) : lef_gen_via :=
  {| gv_via_rule_name := gv_via_rule_name r; gv_cut_size_x := gv_cut_size_x r; gv_cut_size_y := gv_cut_size_y r; gv_bot_metal_layer := gv_bot_metal_layer r; gv_cut_layer := gv_cut_layer r; gv_top_metal_layer := gv_top_metal_layer r; gv_cut_spacing_x := gv_cut_spacing_x r; gv_cut_spacing_y := gv_cut_spacing_y r; gv_bot_enc_x := gv_bot_enc_x r; gv_bot_enc_y := gv_bot_enc_y r; gv_top_enc_x := gv_top_enc_x r; gv_top_enc_y := gv_top_enc_y r; gv_rowcol := v; gv_origin := gv_origin r; gv_offset := gv_offset r |}.
Definition set_gv_origin (v : (option lef_point)) (r : lef_gen_via) : lef_gen_via :=
  {| gv_via_rule_name := gv_via_rule_name r; gv_cut_size_x := gv_cut_size_x r; gv_cut_size_y := gv_cut_size_y r; gv_bot_metal_layer := gv_bot_metal_layer r; gv_cut_layer := gv_cut_layer r; gv_top_metal_layer := gv_top_metal_layer r; gv_cut_spacing_x := gv_cut_spacing_x r; gv_cut_spacing_y := gv_cut_spacing_y r; gv_bot_enc_x := gv_bot_enc_x r; gv_bot_enc_y := gv_bot_enc_y r; gv_top_enc_x := gv_top_enc_x r; gv_top_enc_y := gv_top_enc_y r; gv_rowcol := gv_rowcol r; gv_origin := v; gv_offset := gv_offset r |}.
Definition set_gv_offset (v : (option lef_offset)) (r : lef_gen_via) : lef_gen_via :=
  {| gv_via_rule_name := gv_via_rule_name r; gv_cut_size_x := gv_cut_size_x r; gv_cut_size_y := gv_cut_size_y r; gv_bot_metal_layer := gv_bot_metal_layer r; gv_cut_layer := gv_cut_layer r; gv_top_metal_layer := gv_top_metal_layer r; gv_cut_spacing_x := gv_cut_spacing_x r; gv_cut_spacing_y := gv_cut_spacing_y r; gv_bot_enc_x := gv_bot_enc_x r; gv_bot_enc_y := gv_bot_enc_y r; gv_top_enc_x := gv_top_enc_x r; gv_top_enc_y := gv_top_enc_y r; gv_rowcol := gv_rowcol r; gv_origin := gv_origin r; gv_offset := v |}.

Inductive lef_via_data :=
  | VdFixed (_ : lef_fixed_via)
  | VdGenerated (_ : lef_gen_via).
Definition lef_via_data_eqb (deq : dec -> dec -> bool) (a b : lef_via_data) : bool :=
  match a, b with
  | VdFixed x0, VdFixed y0 => (lef_fixed_via_eqb deq) x0 y0
  | VdGenerated x0, VdGenerated y0 => (lef_gen_via_eqb deq) x0 y0
  | _, _ => false
  end.

Record lef_via_def := {
  vd_name : bytes;
  vd_default : bool;
  vd_data : lef_via_data
}.
Definition lef_via_def_eqb (deq : dec -> dec -> bool) (a b : lef_via_def) : bool :=
  bytes_eqb (vd_name a) (vd_name b)
  && Bool.eqb (vd_default a) (vd_default b)
  && (lef_via_data_eqb deq) (vd_data a) (vd_data b).
Definition set_vd_name (v : bytes) (r : lef_via_def) : lef_via_def :=
  {| vd_name := v; vd_default := vd_default r; vd_data := vd_data r |}.
Definition set_vd_default (v : bool) (r : lef_via_def) : lef_via_def :=
  {| vd_name := vd_name r; vd_default := v; vd_data := vd_data r |}.
Definition set_vd_data (v : lef_via_data) (r : lef_via_def) : lef_via_def :=
  {| vd_name := vd_name r; vd_default := vd_default r; vd_data := v |}.

Record lef_site := {
  site_name : bytes;
  site_class : LefSiteClass;
  site_size : (dec * dec);
  site_symmetry : (option (list LefSymmetry))
}.
Definition lef_site_eqb (deq : dec -> dec -> bool) (a b : lef_site) : bool :=
  bytes_eqb (site_name a) (site_name b)
  && LefSiteClass_eqb (site_class a) (site_class b)
  && (pair_eqb deq deq) (site_size a) (site_size b)
  && (option_eqb (list_eqb LefSymmetry_eqb)) (site_symmetry a) (site_symmetry b).
Definition set_site_name (v : bytes) (r : lef_site) : lef_site :=
  {| site_name := v; site_class := site_class r; site_size := site_size r; site_symmetry := site_symmetry r |}.
Definition set_site_class (v : LefSiteClass) (r : lef_site) : lef_site :=
  {| site_name := site_name r; site_class := v; site_size := site_size r; site_symmetry := site_symmetry r |}.
Definition set_site_size (v : (dec * dec)) (r : lef_site) : lef_site :=
  {| site_name := site_name r; site_class := site_class r; site_size := v; site_symmetry := site_symmetry r |}.
Definition set_site_symmetry (v : (option (list LefSymmetry))) (r : lef_site) : lef_site :=
  {| site_name := site_name r; site_class := site_class r; site_size := site_size r; site_symmetry := v |}.

Record lef_units := {
  u_database_microns : (option Z);
  u_time_ns : (option dec);
  u_capacitance_pf : (option dec);
  u_resistance_ohms : (option dec);
  u_power_mw : (option dec);
  u_current_ma : (option dec);
  u_voltage_volts : (option dec);
  u_frequency_mhz : (option dec)
}.
Definition lef_units_eqb (deq : dec -> dec -> bool) (a b : lef_units) : bool :=
  (option_eqb Z.eqb) (u_database_microns a) (u_database_microns b)
  && (option_eqb deq) (u_time_ns a) (u_time_ns b)
  && (option_eqb deq) (u_capacitance_pf a) (u_capacitance_pf b)
  && (option_eqb deq) (u_resistance_ohms a) (u_resistance_ohms b)
  && (option_eqb deq) (u_power_mw a) (u_power_mw b)
  && (option_eqb deq) (u_current_ma a) (u_current_ma b)
  && (option_eqb deq) (u_voltage_volts a) (u_voltage_volts b)
  && (option_eqb deq) (u_frequency_mhz a) (u_frequency_mhz b).
Definition set_u_database_microns (v : (option Z)) (r : lef_units) : lef_units :=
  {| u_database_microns := v; u_time_ns := u_time_ns r; u_capacitance_pf := u_capacitance_pf r; u_resistance_ohms := u_resistance_ohms r; u_power_mw := u_power_mw r; u_current_ma := u_current_ma r; u_voltage_volts := u_voltage_volts r; u_frequency_mhz := u_frequency_mhz r |}.
Definition set_u_time_ns (v : (option dec)) (r : lef_units) : lef_units :=
  {| u_database_microns := u_database_microns r; u_time_ns := v; u_capacitance_pf := u_capacitance_pf r; u_resistance_ohms := u_resistance_ohms r; u_power_mw := u_power_mw r; u_current_ma := u_current_ma r; u_voltage_volts := u_voltage_volts r; u_frequency_mhz := u_frequency_mhz r |}.
Definition set_u_capacitance_pf (v : (option dec)) (r : lef_units) : lef_units :=
  {| u_database_microns := u_database_microns r; u_time_ns := u_time_ns r; u_capacitance_pf := v; u_resistance_ohms := u_resistance_ohms r; u_power_mw := u_power_mw r; u_current_ma := u_current_ma r; u_voltage_volts := u_voltage_volts r; u_frequency_mhz := u_frequency_mhz r |}.
Definition set_u_resistance_ohms (v : (option dec)) (r : lef_units) : lef_units :=
  {| u_database_microns := u_database_microns r; u_time_ns := u_time_ns r; u_capacitance_pf := u_capacitance_pf r; u_resistance_ohms := v; u_power_mw := u_power_mw r; u_current_ma := u_current_ma r; u_voltage_volts := u_voltage_volts r; u_frequency_mhz := u_frequency_mhz r |}.
Definition set_u_power_mw (v : (option dec)) (r : lef_units) : lef_units :=
  {| u_database_microns := u_database_microns r; u_time_ns := u_time_ns r; u_capacitance_pf := u_capacitance_pf r; u_resistance_ohms := u_resistance_ohms r; u_power_mw := v; u_current_ma := u_current_ma r; u_voltage_volts := u_voltage_volts r; u_frequency_mhz := u_frequency_mhz r |}.
Definition set_u_current_ma (v : (option dec)) (r : lef_units) : lef_units :=
  {| u_database_microns := u_database_microns r; u_time_ns := u_time_ns r; u_capacitance_pf := u_capacitance_pf r; u_resistance_ohms := u_resistance_ohms r; u_power_mw := u_power_mw r; u_current_ma := v; u_voltage_volts := u_voltage_volts r; u_frequency_mhz := u_frequency_mhz r |}.
Definition set_u_voltage_volts (v : (option dec)) (r : lef_units) : lef_units :=
  {| u_database_microns := u_database_microns r; u_time_ns := u_time_ns r; u_capacitance_pf := u_capacitance_pf r; u_resistance_ohms := u_resistance_ohms r; u_power_mw := u_power_mw r; u_current_ma := u_current_ma r; u_voltage_volts := v; u_frequency_mhz := u_frequency_mhz r |}.
Definition set_u_frequency_mhz (v : (option dec)) (r : lef_units) : lef_units :=
  {| u_database_microns := u_database_microns r; u_time_ns := u_time_ns r; u_capacitance_pf := u_capacitance_pf r; u_resistance_ohms := u_resistance_ohms r; u_power_mw := u_power_mw r; u_current_ma := u_current_ma r; u_voltage_volts := u_voltage_volts r; u_frequency_mhz := v |}.

Inductive lef_propdef :=
  | PdLefString (_ : LefPropertyDefinitionObjectType) (_ : bytes) (_ : (option bytes))
  | PdLefReal (_ : LefPropertyDefinitionObjectType) (_ : bytes) (_ : (option dec)) (_ : (option (dec * dec)))
  | PdLefInteger (_ : LefPropertyDefinitionObjectType) (_ : bytes) (_ : (option dec)) (_ : (option (dec * dec))).
Definition lef_propdef_eqb (deq : dec -> dec -> bool) (a b : lef_propdef) : bool :=
  match a, b with
  | PdLefString x0 x1 x2, PdLefString y0 y1 y2 => LefPropertyDefinitionObjectType_eqb x0 y0 && bytes_eqb x1 y1 && (option_eqb bytes_eqb) x2 y2
  | PdLefReal x0 x1 x2 x3, PdLefReal y0 y1 y2 y3 => LefPropertyDefinitionObjectType_eqb x0 y0 && bytes_eqb x1 y1 && (option_eqb deq) x2 y2 && (option_eqb (pair_eqb deq deq)) x3 y3
  | PdLefInteger x0 x1 x2 x3, PdLefInteger y0 y1 y2 y3 => LefPropertyDefinitionObjectType_eqb x0 y0 && bytes_eqb x1 y1 && (option_eqb deq) x2 y2 && (option_eqb (pair_eqb deq deq)) x3 y3
  | _, _ => false
  end.

Record lef_extension := {
  ext_name : bytes;
  ext_data : bytes
}.
Definition lef_extension_eqb (deq : dec -> dec -> bool) (a b : lef_extension) : bool :=
  bytes_eqb (ext_name a) (ext_name b)
  && bytes_eqb (ext_data a) (ext_data b).
Definition set_ext_name (v : bytes) (r : lef_extension) : lef_extension :=
  {| ext_name := v; ext_data := ext_data r |}.
Definition set_ext_data (v : bytes) (r : lef_extension) : lef_extension :=
  {| ext_name := ext_name r; ext_data := v |}.

Record lef_lib := {
  lib_macros : (list lef_macro);
  lib_sites : (list lef_site);
  lib_vias : (list lef_via_def);
  lib_version : (option dec);
  lib_names_case_sensitive : (option LefOnOff);
  lib_no_wire_extension_at_pin : (option LefOnOff);
  lib_bus_bit_chars : (option (Z * Z));
  lib_divider_char : (option Z);
  lib_units : (option lef_units);
  lib_fixed_mask : bool;
  lib_clearance_measure : (option LefClearanceStyle);
  lib_extensions : (list lef_extension);
  lib_manufacturing_grid : (option dec);
  lib_use_min_spacing : (option LefOnOff);
  lib_property_definitions : (list lef_propdef)
}.
Definition lef_lib_eqb (deq : dec -> dec -> bool) (a b : lef_lib) : bool :=
  (list_eqb (lef_macro_eqb deq)) (lib_macros a) (lib_macros b)
  && (list_eqb (lef_site_eqb deq)) (lib_sites a) (lib_sites b)
  && (list_eqb (lef_via_def_eqb deq)) (lib_vias a) (lib_vias b)
  && (option_eqb deq) (lib_version a) (lib_version b)
  && (option_eqb LefOnOff_eqb) (lib_names_case_sensitive a) (lib_names_case_sensitive b)
  && (option_eqb LefOnOff_eqb) (lib_no_wire_extension_at_pin a) (lib_no_wire_extension_at_pin b)
  && (option_eqb (pair_eqb Z.eqb Z.eqb)) (lib_bus_bit_chars a) (lib_bus_bit_chars b)
  && (option_eqb Z.eqb) (lib_divider_char a) (lib_divider_char b)
  && (option_eqb (lef_units_eqb deq)) (lib_units a) (lib_units b)
  && Bool.eqb (lib_fixed_mask a) (lib_fixed_mask b)
  && (option_eqb LefClearanceStyle_eqb) (lib_clearance_measure a) (lib_clearance_measure b)
  && (list_eqb (lef_extension_eqb deq)) (lib_extensions a) (lib_extensions b)
  && (option_eqb deq) (lib_manufacturing_grid a) (lib_manufacturing_grid b)
  && (option_eqb LefOnOff_eqb) (lib_use_min_spacing a) (lib_use_min_spacing b)
  && (list_eqb (lef_propdef_eqb deq)) (lib_property_definitions a) (lib_property_definitions b).
Definition set_lib_macros (v : (list lef_macro)) (r : lef_lib) : lef_lib :=
  {| lib_macros := v; lib_sites := lib_sites r; lib_vias := lib_vias r; lib_version := lib_version r; lib_names_case_sensitive := lib_names_case_sensitive r; lib_no_wire_extension_at_pin := lib_no_wire_extension_at_pin r; lib_bus_bit_chars := lib_bus_bit_chars r; lib_divider_char := lib_divider_char r; lib_units := lib_units r; lib_fixed_mask := lib_fixed_mask r; lib_clearance_measure := lib_clearance_measure r; lib_extensions := lib_extensions r; lib_manufacturing_grid := lib_manufacturing_grid r; lib_use_min_spacing := lib_use_min_spacing r; lib_property_definitions := lib_property_definitions r |}.
Definition set_lib_sites (v : (list lef_site)) (r : lef_lib) : lef_lib :=
  {| lib_macros := lib_macros r; lib_sites := v; lib_vias := lib_vias r; lib_version := lib_version r; lib_names_case_sensitive := lib_names_case_sensitive r; lib_no_wire_extension_at_pin := lib_no_wire_extension_at_pin r; lib_bus_bit_chars := lib_bus_bit_chars r; lib_divider_char := lib_divider_char r; lib_units := lib_units r; lib_fixed_mask := lib_fixed_mask r; lib_clearance_measure := lib_clearance_measure r; lib_extensions := lib_extensions r; lib_manufacturing_grid := lib_manufacturing_grid r; lib_use_min_spacing := lib_use_min_spacing r; lib_property_definitions := lib_property_definitions r |}.
Definition set_lib_vias (v : (list lef_via_def)) (r : lef_lib) : lef_lib :=
  {| lib_macros := lib_macros r; lib_sites := lib_sites r; lib_vias := v; lib_version := lib_version r; lib_names_case_sensitive := lib_names_case_sensitive r; lib_no_wire_extension_at_pin := lib_no_wire_extension_at_pin r; lib_bus_bit_chars := lib_bus_bit_chars r; lib_divider_char := lib_divider_char r; lib_units := lib_units r; lib_fixed_mask := lib_fixed_mask r; lib_clearance_measure := lib_clearance_measure r; lib_extensions := lib_extensions r; lib_manufacturing_grid := lib_manufacturing_grid r; lib_use_min_spacing := lib_use_min_spacing r; lib_property_definitions := lib_property_definitions r |}.
Definition set_lib_version (v : (option dec)) (r : lef_lib) : lef_lib :=
  {| lib_macros := lib_macros r; lib_sites := lib_sites r; lib_vias := lib_vias r; lib_version := v; lib_names_case_sensitive := lib_names_case_sensitive r; lib_no_wire_extension_at_pin := lib_no_wire_extension_at_pin r; lib_bus_bit_chars := lib_bus_bit_chars r; lib_divider_char := lib_divider_char r; lib_units := lib_units r; lib_fixed_mask := lib_fixed_mask r; lib_clearance_measure := lib_clearance_measure r; lib_extensions := lib_extensions r; lib_manufacturing_grid := lib_manufacturing_grid r; lib_use_min_spacing := lib_use_min_spacing r; lib_property_definitions := lib_property_definitions r |}.
Definition set_lib_names_case_sensitive (v : (option LefOnOff)) (r : lef_lib) : lef_lib :=
  {| lib_macros := lib_macros r; lib_sites := lib_sites r; lib_vias := lib_vias r; lib_version := lib_version r; lib_names_case_sensitive := v; lib_no_wire_extension_at_pin := lib_no_wire_extension_at_pin r; lib_bus_bit_chars := lib_bus_bit_chars r; lib_divider_char := lib_divider_char r; lib_units := lib_units r; lib_fixed_mask := lib_fixed_mask r; lib_clearance_measure := lib_clearance_measure r; lib_extensions := lib_extensions r; lib_manufacturing_grid := lib_manufacturing_grid r; lib_use_min_spacing := lib_use_min_spacing r; lib_property_definitions := lib_property_definitions r |}.
Definition set_lib_no_wire_extension_at_pin (v : (option LefOnOff)) (r : lef_lib) : lef_lib :=
  {| lib_macros := lib_macros r; lib_sites := lib_sites r; lib_vias := lib_vias r; lib_version := lib_version r; lib_names_case_sensitive := lib_names_case_sensitive r; lib_no_wire_extension_at_pin := v; lib_bus_bit_chars := lib_bus_bit_chars r; lib_divider_char := lib_divider_char r; lib_units := lib_units r; lib_fixed_mask := lib_fixed_mask r; lib_clearance_measure := lib_clearance_measure r; lib_extensions := lib_extensions r; lib_manufacturing_grid := lib_manufacturing_grid r; lib_use_min_spacing := lib_use_min_spacing r; lib_property_definitions := lib_property_definitions r |}.
Definition set_lib_bus_bit_chars (v : (option (Z * Z))) (r : lef_lib) : lef_lib :=
  {| lib_macros := lib_macros r; lib_sites := lib_sites r; lib_vias := lib_vias r; lib_version := lib_version r; lib_names_case_sensitive := lib_names_case_sensitive r; lib_no_wire_extension_at_pin := lib_no_wire_extension_at_pin r; lib_bus_bit_chars := v; lib_divider_char := lib_divider_char r; lib_units := lib_units r; lib_fixed_mask := lib_fixed_mask r; lib_clearance_measure := lib_clearance_measure r; lib_extensions := lib_extensions r; lib_manufacturing_grid := lib_manufacturing_grid r; lib_use_min_spacing := lib_use_min_spacing r; lib_property_definitions := lib_property_definitions r |}.
Definition set_lib_divider_char (v : (option Z)) (r : lef_lib) : lef_lib :=
  {| lib_macros := lib_macros r; lib_sites := lib_sites r; lib_vias := lib_vias r; lib_version := lib_version r; lib_names_case_sensitive := lib_names_case_sensitive r; lib_no_wire_extension_at_pin := lib_no_wire_extension_at_pin r; lib_bus_bit_chars := lib_bus_bit_chars r; lib_divider_char := v; lib_units := lib_units r; lib_fixed_mask := lib_fixed_mask r; lib_clearance_measure := lib_clearance_measure r; lib_extensions := lib_extensions r; lib_manufacturing_grid := lib_manufacturing_grid r; lib_use_min_spacing := lib_use_min_spacing r; lib_property_definitions := lib_property_definitions r |}.
Definition set_lib_units (v : (option lef_units)) (r : lef_lib) : lef_lib :=
  {| lib_macros := lib_macros r; lib_sites := lib_sites r; lib_vias := lib_vias r; lib_version := lib_version r; lib_names_case_sensitive := lib_names_case_sensitive r; lib_no_wire_extension_at_pin := lib_no_wire_extension_at_pin r; lib_bus_bit_chars := lib_bus_bit_chars r; lib_divider_char := lib_divider_char r; lib_units := v; lib_fixed_mask := lib_fixed_mask r; lib_clearance_measure := lib_clearance_measure r; lib_extensions := lib_extensions r; lib_manufacturing_grid := lib_manufacturing_grid r; lib_use_min_spacing := lib_use_min_spacing r; lib_property_definitions := lib_property_definitions r |}.
Definition set_lib_fixed_mask (v : bool) (r : lef_lib) : lef_lib :=
  {| lib_macros := lib_macros r; lib_sites := lib_sites r; lib_vias := lib_vias r; lib_version := lib_version r; lib_names_case_sensitive := lib_names_case_sensitive r; lib_no_wire_extension_at_pin := lib_no_wire_extension_at_pin r; lib_bus_bit_chars := lib_bus_bit_chars r; lib_divider_char := lib_divider_char r; lib_units := lib_units r; lib_fixed_mask := v; lib_clearance_measure := lib_clearance_measure r; lib_extensions := lib_extensions r; lib_manufacturing_grid := lib_manufacturing_grid r; lib_use_min_spacing := lib_use_min_spacing r; lib_property_definitions := lib_property_definitions r |}.
Definition set_lib_clearance_measure (v : (option LefClearanceStyle)) (r : lef_lib) : lef_lib :=
  {| lib_macros := lib_macros r; lib_sites := lib_sites r; lib_vias := lib_vias r; lib_version := lib_version r; lib_names_case_sensitive := lib_names_case_sensitive r; lib_no_wire_extension_at_pin := lib_no_wire_extension_at_pin r; lib_bus_bit_chars := lib_bus_bit_chars r; lib_divider_char := lib_divider_char r; lib_units := lib_units r; lib_fixed_mask := lib_fixed_mask r; lib_clearance_measure := v; lib_extensions := lib_extensions r; lib_manufacturing_grid := lib_manufacturing_grid r; lib_use_min_spacing := lib_use_min_spacing r; lib_property_definitions := lib_property_definitions r |}.
Definition set_lib_extensions (v : (list lef_extension)) (r : lef_lib) : lef_lib :=
  {| lib_macros := lib_macros r; lib_sites := lib_sites r; lib_vias := lib_vias r; lib_version := lib_version r; lib_names_case_sensitive := lib_names_case_sensitive r; lib_no_wire_extension_at_pin := lib_no_wire_extension_at_pin r; lib_bus_bit_chars := lib_bus_bit_chars r; lib_divider_char := lib_divider_char r; lib_units := lib_units r; lib_fixed_mask := lib_fixed_mask r; lib_clearance_measure := lib_clearance_measure r; lib_extensions := v; lib_manufacturing_grid := lib_manufacturing_grid r; lib_use_min_spacing := lib_use_min_spacing r; lib_property_definitions := lib_property_definitions r |}.
Definition set_lib_manufacturing_grid (v : (option dec)) (r : lef_lib) : lef_lib :=
  {| lib_macros := lib_macros r; lib_sites := lib_sites r; lib_vias := lib_vias r; lib_version := lib_version r; lib_names_case_sensitive := lib_names_case_sensitive r; lib_no_wire_extension_at_pin := lib_no_wire_extension_at_pin r; lib_bus_bit_chars := lib_bus_bit_chars r; lib_divider_char := lib_divider_char r; lib_units := lib_units r; lib_fixed_mask := lib_fixed_mask r; lib_clearance_measure := lib_clearance_measure r; lib_extensions := lib_extensions r; lib_manufacturing_grid := v; lib_use_min_spacing := lib_use_min_spacing r; lib_property_definitions := lib_property_definitions r |}.
Definition set_lib_use_min_spacing (v : (option LefOnOff)) (r : lef_lib) : lef_lib :=
  {| lib_macros := lib_macros r; lib_sites := lib_sites r; lib_vias := lib_vias r; lib_version := lib_version r; lib_names_case_sensitive := lib_names_case_sensitive r; lib_no_wire_extension_at_pin := lib_no_wire_extension_at_pin r; lib_bus_bit_chars := lib_bus_bit_chars r; lib_divider_char := lib_divider_char r; lib_units := lib_units r; lib_fixed_mask := lib_fixed_mask r; lib_clearance_measure := lib_clearance_measure r; lib_extensions := lib_extensions r; lib_manufacturing_grid := lib_manufacturing_grid r; lib_use_min_spacing := v; lib_property_definitions := lib_property_definitions r |}.
Definition set_lib_property_definitions (v : (list lef_propdef)) (r : lef_lib) : lef_lib :=
  {| lib_macros := lib_macros r; lib_sites := lib_sites r; lib_vias := lib_vias r; lib_version := lib_version r; lib_names_case_sensitive := lib_names_case_sensitive r; lib_no_wire_extension_at_pin := lib_no_wire_extension_at_pin r; lib_bus_bit_chars := lib_bus_bit_chars r; lib_divider_char := lib_divider_char r; lib_units := lib_units r; lib_fixed_mask := lib_fixed_mask r; lib_clearance_measure := lib_clearance_measure r; lib_extensions := lib_extensions r; lib_manufacturing_grid := lib_manufacturing_grid r; lib_use_min_spacing := lib_use_min_spacing r; lib_property_definitions := v |}.
