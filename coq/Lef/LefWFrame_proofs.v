(** C05: common definitions for the writer side and the reader-image side.

    1. Token texts: [wtok t] is the abstract token (type, text) that the writer emits for the specification
       token [t] (keyword in upper case, name verbatim, number by `Display`, raw text verbatim, `;`);
       [wtok_ok t]: that text is lexed as exactly that token when white space follows.
    2. Layouts: [lays bs ts] - the byte string [bs] consists of the texts of the tokens [ts], each followed by
       at least one blank (space or newline), with any blanks in between. Combinators [lays_*].
       [lays_items]: such a string is a list of items ([items_ok]) whose tokens are [map wtok ts].
    3. [*_wr]: what the writer needs of a value so that its text is read back (names are name tokens,
       decimals are well-formed, ...). These are the facts proved of every library the reader returns. *)
From Coq Require Import String.
From Coq Require Import ZArith List Bool Lia.
From L21 Require Import Lef.LefDec Lef.LefData Lef.LefLex Lef.LefParse Lef.LefWrite Lef.LefSpec Lef.LefCheck
                        Lef.LefLex_proofs Lef.LefRtLex_proofs Lef.LefRtFrame_proofs Lef.LefRtPerm_proofs
                        Lef.LefRtConstr_proofs Lef.LefRtLib_proofs Lef.LefRtRender_proofs Lef.LefWDec_proofs.
Import ListNotations.
Local Open Scope list_scope.
Local Open Scope Z_scope.

(** * 1. Tokens as the writer prints them *)
Definition wtok_ty (t : stok) : ttype :=
  match t with SKw _ => TName | SName _ => TName | SNum _ => TNumber | SRaw b => raw_ty b | SSemi => TSemi end.
Definition wtok_text (t : stok) : bytes :=
  match t with
  | SKw k => bytes_of_string k
  | SName n => n
  | SNum d => dec_to_bytes d
  | SRaw b => b
  | SSemi => [59]
  end.
Definition wtok (t : stok) : atok := (wtok_ty t, wtok_text t).

Definition name_tok (n : bytes) : Prop := tok_lex_ok (TName, n).
Definition str_tok (s : bytes) : Prop := tok_lex_ok (TString, s).
Definition any_tok (b : bytes) : Prop := exists ty, tok_lex_ok (ty, b).
(** a property value: a name, a number or a string literal *)
Definition val_tok (b : bytes) : Prop := exists ty, tok_lex_ok (ty, b) /\ (ty = TName \/ ty = TNumber \/ ty = TString).

Definition wtok_ok (t : stok) : Prop :=
  match t with
  | SKw k => kw_ok k = true
  | SName n => name_tok n
  | SNum d => dec_wf d
  | SRaw b => any_tok b
  | SSemi => True
  end.

(** the type of a token is determined by its text *)
Lemma tok_lex_ok_raw_ty : forall ty b, tok_lex_ok (ty, b) -> ty = raw_ty b.
Proof.
  intros ty b H. inversion H; subst.
  - reflexivity.
  - reflexivity.
  - (* name *)
    destruct b as [|b0 r]; [congruence|]. unfold raw_ty.
    match goal with A : is_alphabetic (cp_at (b0 :: r)) = true |- _ => rename A into AL end.
    match goal with U : U8 (b0 :: r) |- _ => rename U into UU end.
    destruct (alpha_not_special _ AL) as (_ & N59 & N34 & _ & ND).
    assert (B34 : (b0 =? 34) = false).
    { apply Z.eqb_neq. intros ->. cbn in N34. discriminate. }
    rewrite B34.
    assert (BS : bytes_eqb (b0 :: r) [59] = false).
    { destruct (bytes_eqb (b0 :: r) [59]) eqn:E; [|reflexivity]. apply bytes_eqb_eq in E. injection E as -> ->. cbn in N59. discriminate. }
    rewrite BS.
    assert (NS : numstart b0 = false).
    { destruct (Z_lt_ge_dec b0 128) as [L|G].
      - assert (C : cp_at (b0 :: r) = b0) by (cbn [cp_at]; replace (b0 <? 128) with true by (symmetry; apply Z.ltb_lt; lia); reflexivity).
        rewrite C in ND. exact ND.
      - unfold numstart, is_digit10. repeat rewrite orb_false_iff. repeat split; try (apply Z.eqb_neq; lia).
        apply andb_false_iff. right. apply Z.leb_gt. lia. }
    rewrite NS. reflexivity.
  - (* number-like *)
    unfold raw_ty.
    match goal with A : numstart ?x = true |- _ => rename A into ST; destruct (numstart_facts _ ST) as (L & _ & _ & N59 & N34 & _) end.
    rewrite N34.
    match goal with |- context [bytes_eqb (?x :: ?y) [59]] =>
      assert (BS : bytes_eqb (x :: y) [59] = false)
        by (destruct (bytes_eqb (x :: y) [59]) eqn:E; [apply bytes_eqb_eq in E; injection E as -> ->; cbn in N59; discriminate | reflexivity]) end.
    rewrite BS, ST. cbn [andb]. destruct (is_rust_float _); reflexivity.
Qed.

Lemma wtok_lex_ok_name : forall n, name_tok n -> tok_lex_ok (wtok (SName n)).
Proof. intros n H. exact H. Qed.
Lemma wtok_lex_ok_raw : forall b, any_tok b -> tok_lex_ok (wtok (SRaw b)).
Proof. intros b [ty H]. unfold wtok. cbn [wtok_ty wtok_text]. rewrite <- (tok_lex_ok_raw_ty ty b H). exact H. Qed.

Lemma U8_num_chars : forall s, forallb num_char' s = true -> U8 s /\ no_space s = true.
Proof.
  induction s as [|b s IH]; intros H; [split; [constructor | reflexivity]|].
  cbn [forallb] in H. apply andb_prop in H. destruct H as [Hb Hs]. destruct (IH Hs) as [U NS].
  assert (R : 45 <= b <= 57).
  { unfold num_char', is_digit_b in Hb. repeat rewrite orb_true_iff in Hb. rewrite andb_true_iff in Hb.
    repeat rewrite Z.leb_le in Hb. repeat rewrite Z.eqb_eq in Hb. lia. }
  split; [apply U8_1; [lia | exact U]|].
  cbn [no_space]. rewrite not_cont_lt by lia.
  replace (cp_at (b :: s)) with b by (cbn [cp_at]; replace (b <? 128) with true by (symmetry; apply Z.ltb_lt; lia); reflexivity).
  unfold is_whitespace. replace (b <? 128) with true by (symmetry; apply Z.ltb_lt; lia).
  replace ((9 <=? b) && (b <=? 13)) with false by (symmetry; apply andb_false_iff; right; apply Z.leb_gt; lia).
  replace (b =? 32) with false by (symmetry; apply Z.eqb_neq; lia). cbn. exact NS.
Qed.

Lemma wtok_lex_ok_num : forall d, dec_wf d -> tok_lex_ok (wtok (SNum d)).
Proof.
  intros d W. unfold wtok. cbn [wtok_ty wtok_text].
  destruct (display_chars d W) as [NE CH]. pose proof (display_float d W) as FL.
  destruct (dec_to_bytes d) as [|b0 r] eqn:E; [congruence|].
  destruct (U8_num_chars _ CH) as [U NS].
  cbn [forallb] in CH. apply andb_prop in CH. destruct CH as [C0 _].
  pose proof (tlo_numlike b0 r U NS C0) as T. rewrite FL in T. exact T.
Qed.

Lemma wtok_lex_ok_kw : forall k, kw_ok k = true -> tok_lex_ok (wtok (SKw k)).
Proof.
  intros k H. pose proof (LefRtRender_kw k [] H) as T.
  (* the empty mask leaves the keyword as it is *)
  assert (E : forall s j, apply_case [] j s = s).
  { induction s as [|b s IH]; intros j; [reflexivity|]. cbn [apply_case]. unfold cyc. rewrite IH. reflexivity. }
  destruct T as [T _]. rewrite E in T. exact T.
Qed.

Lemma wtok_ok_lex : forall t, wtok_ok t -> tok_lex_ok (wtok t).
Proof.
  intros [k|n|d|b|] H; cbn [wtok_ok] in H.
  - apply wtok_lex_ok_kw. exact H.
  - exact H.
  - apply wtok_lex_ok_num. exact H.
  - apply wtok_lex_ok_raw. exact H.
  - constructor.
Qed.

Lemma upper_kw : forall k, kw_ok k = true -> upper_bytes (bytes_of_string k) = bytes_of_string k.
Proof.
  intros k H. destruct (LefRtRender_kw k [] H) as [_ U].
  assert (E : forall s j, apply_case [] j s = s).
  { induction s as [|b s IH]; intros j; [reflexivity|]. cbn [apply_case]. unfold cyc. rewrite IH. reflexivity. }
  rewrite E in U. exact U.
Qed.

Lemma wtok_arel : forall t, wtok_ok t -> arel t (wtok t).
Proof.
  intros [k|n|d|b|] H; cbn [wtok_ok] in H; unfold wtok; cbn [wtok_ty wtok_text].
  - split; [reflexivity | apply upper_kw; exact H].
  - split; reflexivity.
  - split; [reflexivity|]. eexists. split; [apply display_parses; exact H|]. split; [apply dec_eq_norm|].
    destruct H as [M S]. split; assumption.
  - apply LefRtRender_raw_arel.
  - reflexivity.
Qed.

(** * 2. Layouts *)
Definition blank (s : bytes) : Prop := Forall (fun b => b = 32 \/ b = 10) s.
Inductive piece := PT (t : stok) | PB (s : bytes).
Definition piece_bytes (p : piece) : bytes := match p with PT t => wtok_text t | PB s => s end.
Fixpoint ptoks (ps : list piece) : list stok :=
  match ps with [] => [] | PT t :: r => t :: ptoks r | PB _ :: r => ptoks r end.
(** every token is followed by a non-empty blank *)
Fixpoint pieces_wf (ps : list piece) : Prop :=
  match ps with
  | [] => True
  | PT _ :: r => (match r with PB (_ :: _) :: _ => True | _ => False end) /\ pieces_wf r
  | PB s :: r => blank s /\ pieces_wf r
  end.
Definition lays (bs : bytes) (ts : list stok) : Prop :=
  exists ps, bs = flat_map piece_bytes ps /\ ptoks ps = ts /\ pieces_wf ps.

Lemma pieces_wf_app : forall a b, pieces_wf a -> pieces_wf b -> pieces_wf (a ++ b).
Proof.
  induction a as [|p a IH]; intros b A B; [exact B|]. destruct p as [t|s]; cbn [app pieces_wf] in *.
  - destruct A as [A1 A2]. split; [|apply IH; assumption].
    destruct a as [|[t'|[|x y]] a']; try contradiction. exact I.
  - destruct A as [A1 A2]. split; [exact A1 | apply IH; assumption].
Qed.
Lemma ptoks_app : forall a b, ptoks (a ++ b) = ptoks a ++ ptoks b.
Proof. induction a as [|[t|s] a IH]; intros b; cbn [app ptoks]; [reflexivity | rewrite IH; reflexivity | apply IH]. Qed.

Lemma lays_nil : lays [] [].
Proof. exists []. repeat split. Qed.
Lemma lays_app : forall b1 t1 b2 t2, lays b1 t1 -> lays b2 t2 -> lays (b1 ++ b2) (t1 ++ t2).
Proof.
  intros b1 t1 b2 t2 (p1 & -> & <- & W1) (p2 & -> & <- & W2). exists (p1 ++ p2).
  split; [rewrite flat_map_app; reflexivity|]. split; [apply ptoks_app | apply pieces_wf_app; assumption].
Qed.
Lemma lays_blank : forall s, blank s -> lays s [].
Proof. intros s B. exists [PB s]. cbn. rewrite app_nil_r. repeat split. exact B. Qed.
(** a token followed by a non-empty blank *)
Lemma lays_tok : forall t s, blank s -> s <> [] -> lays (wtok_text t ++ s) [t].
Proof.
  intros t s B N. exists [PT t; PB s]. cbn [flat_map piece_bytes ptoks pieces_wf]. rewrite app_nil_r.
  split; [reflexivity|]. split; [reflexivity|]. destruct s; [congruence|]. repeat split. exact B.
Qed.
Lemma lays_blank_l : forall s b t, blank s -> lays b t -> lays (s ++ b) t.
Proof. intros s b t B L. exact (lays_app s [] b t (lays_blank s B) L). Qed.
Lemma lays_blank_r : forall s b t, blank s -> lays b t -> lays (b ++ s) t.
Proof. intros s b t B L. rewrite <- (app_nil_r t). exact (lays_app b t s [] L (lays_blank s B)). Qed.
Lemma lays_concat : forall (bl : list bytes) (tl : list (list stok)), Forall2 lays bl tl -> lays (concat bl) (concat tl).
Proof. induction 1; cbn [concat]; [apply lays_nil | apply lays_app; assumption]. Qed.
Lemma lays_flat_map {X} : forall (f : X -> bytes) (g : X -> list stok) l, (forall x, In x l -> lays (f x) (g x)) ->
  lays (flat_map f l) (flat_map g l).
Proof.
  induction l as [|x l IH]; intros H; cbn [flat_map]; [apply lays_nil|].
  apply lays_app; [apply H; left; reflexivity | apply IH; intros y Hy; apply H; right; exact Hy].
Qed.

Lemma blank_sp : blank [32]. Proof. repeat constructor. Qed.
Lemma blank_nl : blank [10]. Proof. constructor; [right; reflexivity | constructor]. Qed.
Lemma blank_app : forall a b, blank a -> blank b -> blank (a ++ b).
Proof. intros. apply Forall_app. split; assumption. Qed.
Lemma blank_indent : forall i, blank (indent_str i).
Proof. induction i; cbn [indent_str]; [constructor|]. repeat (constructor; [left; reflexivity|]). exact IHi. Qed.
Lemma blank_nil : blank []. Proof. constructor. Qed.

(** a line `indent ++ text ++ "\n"` *)
Lemma lays_line : forall i text ts, lays text ts -> lays (indent_str i ++ text ++ [10]) ts.
Proof. intros. apply lays_blank_l; [apply blank_indent|]. apply lays_blank_r; [apply blank_nl | assumption]. Qed.
Lemma render_lines_app : forall a b, render_lines (a ++ b) = render_lines a ++ render_lines b.
Proof. intros. unfold render_lines. rewrite map_app, concat_app. reflexivity. Qed.
Lemma render_lines_one : forall i text, render_lines [(i, text)] = indent_str i ++ text ++ [10].
Proof. intros. unfold render_lines. cbn. rewrite app_nil_r. reflexivity. Qed.
Lemma render_lines_nil : render_lines [] = []. Proof. reflexivity. Qed.

(** from a layout to items *)
Fixpoint blank_sep (s : bytes) : list sep_item := match s with [] => [] | b :: r => SWs b :: blank_sep r end.
Lemma render_blank_sep : forall s, render_sep (blank_sep s) = s.
Proof. induction s as [|b s IH]; [reflexivity|]. cbn [blank_sep]. unfold render_sep in *. cbn [flat_map render_sep_item app]. rewrite IH. reflexivity. Qed.
Lemma blank_sep_ok : forall s, blank s -> forallb sep_item_ok (blank_sep s) = true.
Proof.
  induction 1 as [|b s Hb _ IH]; [reflexivity|]. cbn [blank_sep forallb sep_item_ok]. rewrite IH.
  destruct Hb as [-> | ->]; reflexivity.
Qed.
Definition piece_item (p : piece) : item := match p with PT t => ITok (wtok t) | PB s => ISep (blank_sep s) end.

Theorem lays_items : forall bs ts, lays bs ts -> Forall wtok_ok ts ->
  exists items, bs = flatten items /\ items_ok items /\ toks_of items = map wtok ts.
Proof.
  intros bs ts (ps & -> & <- & W) OK. exists (map piece_item ps). split; [|split].
  - unfold flatten. rewrite flat_map_concat_map, flat_map_concat_map, map_map. f_equal. apply map_ext.
    intros [t|s]; cbn [piece_item item_bytes piece_bytes wtok snd]; [reflexivity | symmetry; apply render_blank_sep].
  - induction ps as [|p ps IH]; [exact I|]. destruct p as [t|s]; cbn [map piece_item items_ok pieces_wf ptoks] in *.
    + destruct W as [W1 W2]. inversion OK; subst. split; [apply wtok_ok_lex; assumption|]. split; [|apply IH; assumption].
      destruct ps as [|[t'|[|x y]] ps']; try contradiction. cbn [map piece_item blank_sep]. exact I.
    + destruct W as [W1 W2]. split; [apply blank_sep_ok; exact W1 | apply IH; assumption].
  - clear W OK. induction ps as [|[t|s] ps IH]; cbn [map piece_item toks_of ptoks]; [reflexivity | rewrite IH; reflexivity | exact IH].
Qed.

(** * 3. What the writer needs of the values *)
Definition optP {A} (P : A -> Prop) (o : option A) : Prop := match o with Some x => P x | None => True end.
Definition chr_wr (c : Z) : Prop := scalar_ok c /\ c <> 34.
Definition point_wr (p : lef_point) : Prop := dec_wf (pt_x p) /\ dec_wf (pt_y p).
Definition shape_wr (s : lef_shape) : Prop :=
  match s with
  | ShRect m a b => optP dec_wf m /\ point_wr a /\ point_wr b
  | ShPolygon m ps => optP dec_wf m /\ Forall point_wr ps /\ (3 <= List.length ps)%nat
  | ShPath m ps => optP dec_wf m /\ Forall point_wr ps /\ (2 <= List.length ps)%nat
  end.
Definition step_wr (s : lef_step) : Prop :=
  dec_wf (st_numx s) /\ dec_wf (st_numy s) /\ dec_wf (st_spacex s) /\ dec_wf (st_spacey s).
Definition geometry_wr (g : lef_geometry) : Prop :=
  match g with GShape s => shape_wr s | GIterate s p => shape_wr s /\ step_wr p end.
Definition via_inst_wr (v : lef_via_inst) : Prop := name_tok (vi_via_name v) /\ point_wr (vi_pt v).
Definition spacing_wr (s : lef_layer_spacing) : Prop := match s with LsSpacing d | LsDesignRuleWidth d => dec_wf d end.
Definition layer_wr (l : lef_layer_geoms) : Prop :=
  name_tok (lg_layer_name l) /\ Forall geometry_wr (lg_geometries l) /\ Forall via_inst_wr (lg_vias l)
  /\ lg_except_pg_net l <> Some false /\ optP spacing_wr (lg_spacing l) /\ optP dec_wf (lg_width l).
Definition port_wr (p : lef_port) : Prop := Forall layer_wr (po_layers p).
Definition property_wr (p : lef_property) : Prop := name_tok (pr_name p) /\ val_tok (pr_value p).
Definition antenna_wr (a : lef_antenna_attr) : Prop :=
  name_tok (aa_key a) /\ existsb (bytes_eqb (upper_bytes (aa_key a))) antenna_keys = true
  /\ dec_wf (aa_val a) /\ optP name_tok (aa_layer a).
Definition pin_wr (p : lef_pin) : Prop :=
  name_tok (pin_name p) /\ Forall port_wr (pin_ports p) /\ Forall antenna_wr (pin_antenna_attrs p)
  /\ optP name_tok (pin_taper_rule p) /\ optP name_tok (pin_supply_sensitivity p)
  /\ optP name_tok (pin_ground_sensitivity p) /\ optP name_tok (pin_must_join p)
  /\ optP str_tok (pin_net_expr p) /\ Forall property_wr (pin_properties p).
Definition foreign_wr (f : lef_foreign) : Prop :=
  name_tok (fo_cell_name f) /\ optP point_wr (fo_pt f) /\ (fo_pt f = None -> fo_orient f = None).
Definition density_rect_wr (r : lef_density_rect) : Prop :=
  point_wr (dr_pt1 r) /\ point_wr (dr_pt2 r) /\ dec_wf (dr_density_value r).
Definition density_wr (d : list lef_density_geoms) : Prop :=
  Forall (fun g => name_tok (dg_layer_name g) /\ Forall density_rect_wr (dg_geometries g)) d.
Definition macro_wr (m : lef_macro) : Prop :=
  name_tok (mac_name m) /\ Forall pin_wr (mac_pins m) /\ Forall layer_wr (mac_obs m)
  /\ optP foreign_wr (mac_foreign m) /\ optP point_wr (mac_origin m)
  /\ optP (fun s => dec_wf (fst s) /\ dec_wf (snd s)) (mac_size m)
  /\ optP name_tok (mac_site m) /\ optP name_tok (mac_eeq m)
  /\ Forall property_wr (mac_properties m) /\ optP density_wr (mac_density m).
Definition via_shape_wr (s : lef_via_shape) : Prop :=
  match s with
  | VsRect m a b => optP dec_wf m /\ point_wr a /\ point_wr b
  | VsPolygon m ps => optP dec_wf m /\ Forall point_wr ps /\ (3 <= List.length ps)%nat
  end.
Definition via_layer_wr (l : lef_via_layer_geoms) : Prop := name_tok (vl_layer_name l) /\ Forall via_shape_wr (vl_shapes l).
Definition gen_via_wr (g : lef_gen_via) : Prop :=
  name_tok (gv_via_rule_name g) /\ name_tok (gv_bot_metal_layer g) /\ name_tok (gv_cut_layer g) /\ name_tok (gv_top_metal_layer g)
  /\ Forall dec_wf [gv_cut_size_x g; gv_cut_size_y g; gv_cut_spacing_x g; gv_cut_spacing_y g;
                    gv_bot_enc_x g; gv_bot_enc_y g; gv_top_enc_x g; gv_top_enc_y g]
  /\ optP (fun r => dec_wf (rc_rows r) /\ dec_wf (rc_cols r)) (gv_rowcol g)
  /\ optP point_wr (gv_origin g)
  /\ optP (fun o => Forall dec_wf [of_bot_x o; of_bot_y o; of_top_x o; of_top_y o]) (gv_offset g).
Definition via_wr (v : lef_via_def) : Prop :=
  name_tok (vd_name v)
  /\ match vd_data v with
     | VdFixed f => optP dec_wf (fv_resistance_ohms f) /\ Forall via_layer_wr (fv_layers f)
     | VdGenerated g => gen_via_wr g
     end.
Definition site_wr (s : lef_site) : Prop :=
  name_tok (site_name s) /\ dec_wf (fst (site_size s)) /\ dec_wf (snd (site_size s)).
Definition units_wr (u : lef_units) : Prop :=
  optP (fun v => dbu_allowed v = true) (u_database_microns u)
  /\ Forall (optP dec_wf) [u_time_ns u; u_capacitance_pf u; u_resistance_ohms u; u_power_mw u; u_current_ma u;
                           u_voltage_volts u; u_frequency_mhz u].
Definition propdef_wr (p : lef_propdef) : Prop :=
  match p with
  | PdLefString _ n v => name_tok n /\ optP str_tok v
  | PdLefReal _ n v r | PdLefInteger _ n v r =>
    name_tok n /\ optP dec_wf v /\ optP (fun x => dec_wf (fst x) /\ dec_wf (snd x)) r
  end.
Definition ext_wr (e : lef_extension) : Prop :=
  str_tok (ext_name e)
  /\ exists toks, ext_data e = flat_map (fun t => t ++ [32]) toks /\ Forall (fun t => any_tok t /\ ext_tok_free t) toks.
Definition lib_wr (l : lef_lib) : Prop :=
  Forall macro_wr (lib_macros l) /\ Forall site_wr (lib_sites l) /\ Forall via_wr (lib_vias l)
  /\ optP (fun v => dec_wf v /\ version_ok v = true) (lib_version l)
  /\ (dec_gt (match lib_version l with Some v => v | None => V5P8 end) V5P4 = true ->
      lib_names_case_sensitive l = None /\ lib_no_wire_extension_at_pin l = None
      /\ Forall (fun m => mac_source m = None) (lib_macros l))
  /\ optP (fun c => chr_wr (fst c) /\ chr_wr (snd c)) (lib_bus_bit_chars l)
  /\ optP chr_wr (lib_divider_char l)
  /\ optP units_wr (lib_units l)
  /\ Forall ext_wr (lib_extensions l)
  /\ optP dec_wf (lib_manufacturing_grid l)
  /\ Forall propdef_wr (lib_property_definitions l).
