(** Tie (a) of DESIGN.md 2.3 for the LEF parser, `parse_via` (family "lef_parse_via", properties C04, C05, C11): the definition generated from
    lef21/src/read.rs `LefParser::parse_via` (DEFAULT; the generated via: VIARULE, the loop over CUTSIZE / LAYERS / CUTSPACING / ENCLOSURE / ROWCOL / ORIGIN / OFFSET
    with derive_builder of `LefGeneratedViaDef` and its `build()`; the fixed via: RESISTANCE, `while let LefKey::Layer = self.peek_key()?` over
    `parse_via_layer_geometries`, derive_builder of `LefFixedViaDef`; PROPERTY / END, the closing name, derive_builder of `LefViaDef`; the context stack)
    (Gen/KernelsLefRead2Gen.v, unit "lefr2"), read as in Lef/KernelsInstLefRead2.v, EQUALS [parse_via] ([gen_via_loop], [gen_via_build],
    [fixed_via_layers_loop]) of Lef/LefParse.v, the error value apart; `parse_via_layer_geometries` and `expect_ident` through their own ties.
    Naming: the helper lemmas `tie_parse_via_gen_loop`, `tie_parse_via_fixed_loop` belong to the published theorem `Ktie_parse_via`; `tie_gen_via_build` is the
    builder's `build()` against [gen_via_build]. *)
From Coq Require Import ZArith Bool List String Lia.
From L21 Require Import Lef.LefDec Lef.LefData Lef.LefLex Lef.LefParse.
From L21 Require Import Base.KernelOps Base.KernelOpsX Base.KernelOpsS Base.KernelOpsL Base.Outcome Gen.KernelsLefRead2Gen.
From L21 Require Import Lef.KernelsInstLefRead.
From L21 Require Lef.KernelsTieLefRead_proofs.
From L21 Require Import Lef.KernelsInstLefRead2.
From L21 Require Lef.KernelsTieLefRead2_proofs Lef.KernelsTieLefRead3_proofs.
Import ListNotations.
Local Open Scope Z_scope.
Module R := Lef.KernelsTieLefRead_proofs.
Module R2 := Lef.KernelsTieLefRead2_proofs.
Module R3 := Lef.KernelsTieLefRead3_proofs.
Import R2(lres, lmap, unctrl, MG_key, MG_tty, MG_tok, MG_ctx, map_MG_ctx, MG_point).

Section Ties.
Variable cf : cfg.
Variable src : bytes.
Hypothesis Hcf : cfr_now cf.
Local Notation lu := (@lunit _).
Definition fail_lu := R2.fail_lu cf src.
Definition fail_back := R2.fail_back cf src.
Definition jn := @R3.jn.
Ltac ls := cbn [lm_xops kx_base lm_kops k_bind k_ret k_panic k_fail i_lt i_lit v_len]; unfold lm_bind, lm_ret, lm_pan.
Ltac xs := unfold x_advance, x_matches, x_expect, x_peek_key, x_get_key, x_expect_key, x_parse_ident, x_parse_number, x_parse_point, x_try_new, x_enum, x_txt,
  x_peek_token, lmU, lmG; cbn [MLefKey Mtty].
Ltac red1 := cbn [lunit backl omap obind fst snd option_map].
Ltac mstep :=
  match goal with
  | |- context [lunit ?X] =>
    lazymatch X with
    | context [match _ with _ => _ end] => fail
    | lmap _ _ => fail
    | _ => destruct X as [[? ?]| | | |]
    end
  end; red1; try reflexivity.
Ltac ur := repeat match goal with u : unit |- _ => destruct u end; try reflexivity.
Ltac flt := cbn [k_fail lm_xops]; unfold lm_fail, LefParse.fail, fail_msg;
  match goal with |- context [state cf src ?st] => destruct (state cf src st) as [[[[? ?] ?] ?]|]; reflexivity end.
Ltac bstep := match goal with |- context [matches ?t ?s] => destruct (matches t s) end; cbn [negb]; red1; try reflexivity.
Ltac keq := repeat match goal with |- context [LefKey_eqb ?a ?b] => let v := eval vm_compute in (LefKey_eqb a b) in change (LefKey_eqb a b) with v end; cbn beta iota.
Ltac kcase k := destruct k; cbn [GLefKey gLefKey_eqb]; keq; red1; try reflexivity.
Ltac fl := try (cbn [k_fail lm_xops]; first [ rewrite (fail_lu _ EtInvalidKey) | idtac ]; reflexivity).
Ltac foldloop run := match goal with |- context [k_loop ?a ?b ?c ?d ?e ?st] => change (k_loop a b c d e st) with (run c e st) end.
Ltac useloop P := match type of P with backl _ ?L = lunit (lmap Some ?Rr) => destruct L as [[[?|?] ?]| | |]; destruct Rr as [[? ?]| | | |] end;
  cbn [backl omap obind lunit lmap fst snd unctrl] in P; try discriminate P; red1; ur; try (inversion P; subst; clear P).
Ltac usetie T al := match goal with p : pst |- _ => let E := fresh "E" in pose proof (T p) as E; unfold al in E;
  match type of E with backl _ ?L = lunit ?Rr => (match goal with |- context [L] => idtac end); destruct L as [[? ?]| | |]; destruct Rr as [[? ?]| | | |] end;
  cbn [backl omap obind lunit fst snd] in E; try discriminate E; red1; ur; try (inversion E; subst; clear E) end.
Ltac rwtie T al := let E := fresh "E" in pose proof T as E; unfold al in E; rewrite E; clear E.
Ltac usetie1 T := match goal with p : pst |- _ => let E := fresh "E" in pose proof (T p) as E;
  match type of E with backl _ ?L = lunit ?Rr => (match goal with |- context [L] => idtac end); destruct L as [[? ?]| | |]; destruct Rr as [[? ?]| | | |] end;
  cbn [backl omap obind lunit fst snd] in E; try discriminate E; red1; ur; try (inversion E; subst; clear E) end.
Ltac pstep := unfold g_peek_token, g_LefParser_peek_token, x_peek_token; match goal with |- context [peek_token ?s] => destruct (peek_token s) end; cbn [option_map]; red1; try reflexivity.
Ltac rwtie1 T := let E := fresh "E" in pose proof T as E; rewrite E; clear E.
Ltac foldg := repeat first [ fail
  | progress change (g_LefParser_parse_units ?a0 ?a1 ?a2 ?a3 ?a4 ?a5 ?a6 ?a7 ?a8 ?a9 ?a10 ?a11) with (g_parse_units cf src)
  | progress change (g_LefParser_parse_size ?a0 ?a1 ?a2 ?a3 ?a4) with (g_parse_size cf src)
  | progress change (g_LefParser_parse_symmetries ?a0 ?a1 ?a2 ?a3 ?a4 ?a5 ?a6) with (g_parse_symmetries cf src)
  | progress change (g_LefParser_parse_macro_class ?a0 ?a1 ?a2 ?a3 ?a4 ?a5 ?a6 ?a7 ?a8) with (g_parse_macro_class cf src)
  | progress change (g_LefParser_expect_and_get_str ?a0 ?a1 ?a2 ?a3) with (g_expect_and_get_str cf src)
  | progress change (g_LefParser_get_name ?a0 ?a1 ?a2 ?a3) with (g_get_name cf src)
  | progress change (g_LefParser_expect_ident ?a0 ?a1 ?a2 ?a3 ?a4) with (g_expect_ident cf src)
  | progress change (g_LefParser_parse_site_def ?a0 ?a1 ?a2 ?a3 ?a4 ?a5 ?a6 ?a7 ?a8 ?a9 ?a10 ?a11 ?a12 ?a13 ?a14 ?a15 ?a16 ?a17 ?a18) with (g_parse_site_def cf src)
  | progress change (g_LefParser_peek_token ?a0) with (g_peek_token cf src)
  | progress change (g_LefParser_parse_property ?a0 ?a1 ?a2 ?a3 ?a4 ?a5 ?a6 ?a7 ?a8 ?a9 ?a10) with (g_parse_property cf src)
  | progress change (g_LefParser_parse_pin_direction ?a0 ?a1 ?a2 ?a3 ?a4) with (g_parse_pin_direction cf src)
  | progress change (g_LefParser_parse_geometry_mask ?a0 ?a1 ?a2 ?a3 ?a4 ?a5) with (g_parse_geometry_mask cf src)
  | progress change (g_LefParser_parse_iterate ?a0 ?a1 ?a2 ?a3) with (g_parse_iterate cf src)
  | progress change (g_LefParser_parse_step_pattern ?a0 ?a1 ?a2 ?a3) with (g_parse_step_pattern cf src)
  | progress change (g_LefParser_parse_point_list ?a0 ?a1 ?a2 ?a3 ?a4 ?a5) with (g_parse_point_list cf src)
  | progress change (g_LefParser_parse_geometry_tail ?a0 ?a1 ?a2 ?a3 ?a4) with (g_parse_geometry_tail cf src)
  | progress change (g_LefParser_parse_geometry ?a0 ?a1 ?a2 ?a3 ?a4 ?a5 ?a6 ?a7 ?a8 ?a9 ?a10 ?a11) with (g_parse_geometry cf src)
  | progress change (g_LefParser_parse_layer_geometries ?a0 ?a1 ?a2 ?a3 ?a4 ?a5 ?a6 ?a7 ?a8 ?a9 ?a10 ?a11 ?a12 ?a13 ?a14 ?a15 ?a16 ?a17) with (g_parse_layer_geometries cf src)
  | progress change (g_LefParser_parse_via_shape ?a0 ?a1 ?a2 ?a3 ?a4 ?a5 ?a6 ?a7 ?a8 ?a9 ?a10) with (g_parse_via_shape cf src)
  | progress change (g_LefParser_parse_via_layer_geometries ?a0 ?a1 ?a2 ?a3 ?a4 ?a5 ?a6 ?a7 ?a8 ?a9 ?a10 ?a11 ?a12 ?a13 ?a14 ?a15 ?a16 ?a17) with (g_parse_via_layer_geometries cf src)
  | progress change (g_LefParser_parse_obstructions ?a0 ?a1 ?a2 ?a3 ?a4 ?a5 ?a6 ?a7 ?a8 ?a9 ?a10 ?a11 ?a12 ?a13 ?a14 ?a15 ?a16 ?a17) with (g_parse_obstructions cf src)
  | progress change (g_LefParser_parse_port ?a0 ?a1 ?a2 ?a3 ?a4 ?a5 ?a6 ?a7 ?a8 ?a9 ?a10 ?a11 ?a12 ?a13 ?a14 ?a15 ?a16 ?a17 ?a18) with (g_parse_port cf src)
  | progress change (g_LefParser_parse_property_definition_tail ?a0 ?a1 ?a2 ?a3 ?a4 ?a5) with (g_parse_property_definition_tail cf src)
  | progress change (g_LefParser_parse_property_definitions ?a0 ?a1 ?a2 ?a3 ?a4 ?a5 ?a6 ?a7 ?a8 ?a9 ?a10 ?a11 ?a12 ?a13 ?a14 ?a15) with (g_parse_property_definitions cf src)
  | progress change (g_LefParser_parse_pin ?a0 ?a1 ?a2 ?a3 ?a4 ?a5 ?a6 ?a7 ?a8 ?a9 ?a10 ?a11 ?a12 ?a13 ?a14 ?a15 ?a16 ?a17 ?a18 ?a19 ?a20 ?a21 ?a22 ?a23) with (g_parse_pin cf src)
  | progress change (g_LefParser_parse_macro ?a0 ?a1 ?a2 ?a3 ?a4 ?a5 ?a6 ?a7 ?a8 ?a9 ?a10 ?a11 ?a12 ?a13 ?a14 ?a15 ?a16 ?a17 ?a18 ?a19 ?a20 ?a21 ?a22 ?a23 ?a24 ?a25 ?a26 ?a27 ?a28 ?a29 ?a30 ?a31 ?a32 ?a33 ?a34 ?a35) with (g_parse_macro cf src)
  | progress change (g_LefParser_parse_bus_bit_chars ?a0 ?a1 ?a2 ?a3 ?a4 ?a5 ?a6 ?a7) with (g_parse_bus_bit_chars cf src)
  | progress change (g_LefParser_parse_divider_char ?a0 ?a1 ?a2 ?a3 ?a4 ?a5 ?a6 ?a7) with (g_parse_divider_char cf src)
  | progress change (g_LefParser_parse_via ?a0 ?a1 ?a2 ?a3 ?a4 ?a5 ?a6 ?a7 ?a8 ?a9 ?a10 ?a11 ?a12 ?a13 ?a14 ?a15 ?a16 ?a17 ?a18 ?a19) with (g_parse_via cf src) ].

(** ** parse_via: the generated via (loop over the builder `LefGeneratedViaDefBuilder`), the fixed via (loop over LAYER), the closing statements *)
Notation gvbuilder := (gLefGeneratedViaDefBuilder dec bytes unit Z).
Definition pair2 {A B : Type} (x : option A) (y : option B) : option (A * B) := match x, y with Some a, Some b => Some (a, b) | _, _ => None end.
(** the model's builder read off the generated one (the statements set their fields together) *)
Definition GV (b : gvbuilder) : gv_builder :=
  mkgvb (pair2 (gLefGeneratedViaDefBuilder_cut_size_x dec bytes b) (gLefGeneratedViaDefBuilder_cut_size_y dec bytes b))
        (match gLefGeneratedViaDefBuilder_bot_metal_layer dec bytes b, gLefGeneratedViaDefBuilder_cut_layer dec bytes b, gLefGeneratedViaDefBuilder_top_metal_layer dec bytes b with
         | Some a, Some b_, Some c => Some (a, b_, c) | _, _, _ => None end)
        (pair2 (gLefGeneratedViaDefBuilder_cut_spacing_x dec bytes b) (gLefGeneratedViaDefBuilder_cut_spacing_y dec bytes b))
        (match gLefGeneratedViaDefBuilder_bot_enc_x dec bytes b, gLefGeneratedViaDefBuilder_bot_enc_y dec bytes b, gLefGeneratedViaDefBuilder_top_enc_x dec bytes b,
               gLefGeneratedViaDefBuilder_top_enc_y dec bytes b with Some a, Some b_, Some c, Some d => Some (a, b_, c, d) | _, _, _, _ => None end)
        (option_map Mrowcol (jn _ (gLefGeneratedViaDefBuilder_rowcol dec bytes b))) (option_map Mpoint (jn _ (gLefGeneratedViaDefBuilder_origin dec bytes b)))
        (option_map Moffset (jn _ (gLefGeneratedViaDefBuilder_offset dec bytes b))).
Definition gv_run (f : nat) (b : gvbuilder) (s : pst) := k_loop lm_kops (lm_nofuel _) f (fun fuel st => g_parse_via_loop1 cf src fuel st) b s.
Ltac gvproj := cbn [gLefGeneratedViaDefBuilder_via_rule_name gLefGeneratedViaDefBuilder_cut_size_x gLefGeneratedViaDefBuilder_cut_size_y gLefGeneratedViaDefBuilder_bot_metal_layer
  gLefGeneratedViaDefBuilder_cut_layer gLefGeneratedViaDefBuilder_top_metal_layer gLefGeneratedViaDefBuilder_cut_spacing_x gLefGeneratedViaDefBuilder_cut_spacing_y
  gLefGeneratedViaDefBuilder_bot_enc_x gLefGeneratedViaDefBuilder_bot_enc_y gLefGeneratedViaDefBuilder_top_enc_x gLefGeneratedViaDefBuilder_top_enc_y gLefGeneratedViaDefBuilder_rowcol
  gLefGeneratedViaDefBuilder_origin gLefGeneratedViaDefBuilder_offset gLefGeneratedViaDefBuilder_pattern].
Lemma tie_parse_via_gen_loop : forall f s b,
  backl (unctrl (fun _ => None) (fun b' => Some (gLefGeneratedViaDefBuilder_via_rule_name dec bytes b', GV b'))) (gv_run f b s)
  = lunit (lmap (fun gb => Some (gLefGeneratedViaDefBuilder_via_rule_name dec bytes b, gb)) (gen_via_loop cf src f (GV b) s)).
Proof.
  induction f as [|f IH]; intros s b; unfold gv_run; [reflexivity|].
  cbn [k_loop gen_via_loop]. ls. unfold g_parse_via_loop1 at 1. unfold g_LefParser_parse_via_loop1 at 1.
  unfold g_LefGeneratedViaDefBuilder_cut_size_x, g_LefGeneratedViaDefBuilder_cut_size_y, g_LefGeneratedViaDefBuilder_bot_metal_layer, g_LefGeneratedViaDefBuilder_cut_layer,
    g_LefGeneratedViaDefBuilder_top_metal_layer, g_LefGeneratedViaDefBuilder_cut_spacing_x, g_LefGeneratedViaDefBuilder_cut_spacing_y, g_LefGeneratedViaDefBuilder_bot_enc_x,
    g_LefGeneratedViaDefBuilder_bot_enc_y, g_LefGeneratedViaDefBuilder_top_enc_x, g_LefGeneratedViaDefBuilder_top_enc_y, g_LefGeneratedViaDefBuilder_rowcol,
    g_LefGeneratedViaDefBuilder_origin, g_LefGeneratedViaDefBuilder_offset. ls.
  unfold expect_semi, bind, get, ret. unfold x_peek_key at 1. unfold lmG. mstep.
  destruct l; cbn [GLefKey]; red1; try flt; try reflexivity.
  all: xs; repeat mstep; gvproj;
    match goal with |- context [k_loop _ _ _ _ ?b' ?q] => pose proof (IH q b') as Q end; unfold gv_run, GV, pair2, jn, R3.jn in Q; gvproj; cbn [gLefGeneratedViaDefBuilder_via_rule_name
      gLefGeneratedViaDefBuilder_cut_size_x gLefGeneratedViaDefBuilder_cut_size_y gLefGeneratedViaDefBuilder_bot_metal_layer
      gLefGeneratedViaDefBuilder_cut_layer gLefGeneratedViaDefBuilder_top_metal_layer gLefGeneratedViaDefBuilder_cut_spacing_x gLefGeneratedViaDefBuilder_cut_spacing_y
      gLefGeneratedViaDefBuilder_bot_enc_x gLefGeneratedViaDefBuilder_bot_enc_y gLefGeneratedViaDefBuilder_top_enc_x gLefGeneratedViaDefBuilder_top_enc_y gLefGeneratedViaDefBuilder_rowcol
      gLefGeneratedViaDefBuilder_origin gLefGeneratedViaDefBuilder_offset gLefGeneratedViaDefBuilder_pattern option_map] in Q; rewrite ?MG_point in Q; exact Q.
Qed.

Lemma key_is_default : forall (T : Type) (k : LefKey) (A B : T), match GLefKey k with gLefKey_Default => A | _ => B end = if LefKey_eqb k K_Default then A else B.
Proof. destruct k; reflexivity. Qed.
Lemma key_is_viarule : forall (T : Type) (k : LefKey) (A B : T), match GLefKey k with gLefKey_ViaRule => A | _ => B end = if LefKey_eqb k K_ViaRule then A else B.
Proof. destruct k; reflexivity. Qed.
Lemma key_is_resistance : forall (T : Type) (k : LefKey) (A B : T), match GLefKey k with gLefKey_Resistance => A | _ => B end = if LefKey_eqb k K_Resistance then A else B.
Proof. destruct k; reflexivity. Qed.
Lemma key_is_layer : forall (T : Type) (k : LefKey) (A B : T), match GLefKey k with gLefKey_Layer => A | _ => B end = match k with K_Layer => A | _ => B end.
Proof. destruct k; reflexivity. Qed.

Lemma key_closing_g : forall (T : Type) (k : LefKey) (P E F : T),
  match GLefKey k with gLefKey_Property => P | gLefKey_End => E | _ => F end = if LefKey_eqb k K_End then E else if LefKey_eqb k K_Property then P else F.
Proof. destruct k; reflexivity. Qed.
Lemma key_closing_m : forall (T : Type) (k : LefKey) (P E F : T),
  match k with K_Property => P | K_End => E | _ => F end = if LefKey_eqb k K_End then E else if LefKey_eqb k K_Property then P else F.
Proof. destruct k; reflexivity. Qed.

Definition fv_run (f : nat) (acc : list (gLefViaLayerGeometries dec bytes unit Z)) (s : pst) := k_loop lm_kops (lm_nofuel _) f (fun fuel st => g_parse_via_loop2 cf src fuel st) acc s.
Lemma tie_parse_via_fixed_loop : forall f s acc,
  backl (unctrl (fun _ => None) (fun l => Some (map Mvia_layer_geoms l))) (fv_run f acc s) = lunit (lmap Some (fixed_via_layers_loop cf src f (map Mvia_layer_geoms acc) s)).
Proof.
  induction f as [|f IH]; intros s acc; unfold fv_run; [reflexivity|].
  cbn [k_loop fixed_via_layers_loop]. ls. unfold g_parse_via_loop2 at 1. unfold g_LefParser_parse_via_loop2 at 1. ls. foldg. unfold bind, ret.
  unfold x_peek_key at 1. unfold lmG. mstep. rewrite key_is_layer.
  destruct l; red1; try reflexivity.
  usetie1 (R3.tie_parse_via_layer_geometries cf src Hcf).
  match goal with |- context [k_loop _ _ _ _ (?ac ++ [?x]) ?q] => pose proof (IH q (ac ++ [x])) as Q end; unfold fv_run in Q; rewrite map_app in Q; exact Q.
Qed.

Lemma tie_gen_via_build : forall (b : gvbuilder) rule s, gLefGeneratedViaDefBuilder_via_rule_name dec bytes b = Some rule ->
  backl Mgen_via (g_LefGeneratedViaDefBuilder_build (lm_xops cf src) dec bytes x_build_err b s) = lunit (lift (gen_via_build rule (GV b)) s).
Proof.
  intros b rule s H. destruct b as [n csx csy bml cl tml spx spy bex bey tex tey rc ori off pat]. cbn in H. subst n.
  unfold g_LefGeneratedViaDefBuilder_build, gen_via_build, GV, pair2, lift, x_build_err. ls. gvproj.
  destruct csx; [|reflexivity]. destruct csy; [|reflexivity]. destruct bml; [|reflexivity]. destruct cl; [|reflexivity]. destruct tml; [|reflexivity].
  destruct spx; [|reflexivity]. destruct spy; [|reflexivity]. destruct bex; [|reflexivity]. destruct bey; [|reflexivity]. destruct tex; [|reflexivity]. destruct tey; [|reflexivity].
  reflexivity.
Qed.

Ltac vdproj := cbn [gLefViaDefBuilder_name gLefViaDefBuilder_default gLefViaDefBuilder_data gLefViaDefBuilder_properties
  gLefFixedViaDefBuilder_resistance_ohms gLefFixedViaDefBuilder_layers].
(** the closing statements (PROPERTY / END), the closing name, `ctx.pop()`, `via.build()`: the same in the two branches *)
Ltac closing :=
  unfold x_peek_key at 1; unfold lmG; mstep;
  rewrite key_closing_g, key_closing_m;
  match goal with |- context [LefKey_eqb ?k K_End] => destruct (LefKey_eqb k K_End); [|destruct (LefKey_eqb k K_Property); red1; flt] end; red1;
  unfold x_advance at 1; unfold lmU; mstep; rwtie1 (R2.tie_expect_ident cf src); mstep;
  unfold x_get, x_put; cbn [gLefParser_ctx]; unfold k_pop; rewrite R.removelast_map, map_MG_ctx; reflexivity.

Ltac via_generated := let P := fresh "P" in let B := fresh "B" in
  unfold x_advance at 1; unfold x_parse_ident at 1; unfold x_expect at 1; unfold lmU, lmG; cbn [Mtty]; mstep; mstep; mstep; gvproj;
  unfold x_fuel at 1;
  match goal with |- context [k_loop ?a ?bb ?c ?d ?e ?st] => change (k_loop a bb c d e st) with (gv_run c e st); pose proof (tie_parse_via_gen_loop c st e) as P end;
  change (GV (mk_gLefGeneratedViaDefBuilder dec bytes (Some ?r) None None None None None None None None None None None None None None None)) with (mkgvb None None None None None None None) in P;
  match type of P with backl _ ?L = lunit (lmap _ ?Rr) => destruct L as [[[?|gb] ?]| | |]; destruct Rr as [[? ?]| | | |] end;
  cbn [backl omap obind lunit lmap fst snd unctrl gLefGeneratedViaDefBuilder_via_rule_name] in P; try discriminate P; red1; ur;
  inversion P; subst; clear P;
  match goal with H : gLefGeneratedViaDefBuilder_via_rule_name _ _ ?b = Some ?r |- _ => pose proof (fun st => tie_gen_via_build b r st H) as B end;
  match goal with |- context [g_LefGeneratedViaDefBuilder_build ?x ?t1 ?t2 ?be ?b ?st] =>
    let E := fresh "E" in pose proof (B st) as E; destruct (g_LefGeneratedViaDefBuilder_build x t1 t2 be b st) as [[? ?]| | |]; unfold lift in E;
    destruct (gen_via_build _ (GV b)); cbn [backl omap obind lunit fst snd] in E; try discriminate E; red1; ur; inversion E; subst; clear E end;
  unfold lift; cbn beta iota; vdproj; closing.
Ltac via_fixed := let P := fresh "P" in
  unfold x_peek_key at 1; unfold lmG; mstep; rewrite key_is_resistance;
  match goal with |- context [LefKey_eqb ?k K_Resistance] => destruct (LefKey_eqb k K_Resistance) end; red1;
  [ unfold x_advance at 1; unfold x_parse_number at 1; unfold x_expect at 1; unfold lmU, lmG; cbn [Mtty]; mstep; mstep; mstep | ];
  vdproj; unfold x_fuel at 1;
  (match goal with |- context [k_loop ?a ?bb ?c ?d ?e ?st] => change (k_loop a bb c d e st) with (fv_run c e st); pose proof (tie_parse_via_fixed_loop c st e) as P end);
  cbn [map] in P; useloop P; vdproj; closing.
Lemma tie_parse_via : forall s, backl Mvia_def (g_parse_via cf src s) = lunit (parse_via cf src s).
Proof.
  intros s. unfold g_parse_via, g_LefParser_parse_via, parse_via, expect_semi, bind, push, pop, get, ret.
  unfold g_LefViaDefBuilder_name, g_LefViaDefBuilder_default, g_LefViaDefBuilder_data, g_LefViaDefBuilder_build, g_LefGeneratedViaDefBuilder_via_rule_name,
    g_LefFixedViaDefBuilder_resistance_ohms, g_LefFixedViaDefBuilder_layers, g_LefFixedViaDefBuilder_build. ls.
  change (g_LefParser_expect_ident ?a0 ?a1 ?a2 ?a3 ?a4) with (g_expect_ident cf src).
  unfold x_get at 1. unfold x_put at 1. cbn [gLefParser_ctx]. rewrite map_app, map_MG_ctx. cbn [map Mctx].
  unfold x_expect_key at 1. unfold x_parse_ident at 1. unfold lmU. cbn [MLefKey]. mstep. mstep. vdproj.
  (* DEFAULT *)
  unfold x_peek_key at 1. unfold lmG. mstep. rewrite key_is_default.
  destruct (LefKey_eqb l K_Default); red1.
  - unfold x_advance at 1. unfold lmU. mstep. vdproj.
    unfold x_peek_key at 1. unfold lmG. mstep. rewrite key_is_viarule. destruct (LefKey_eqb l0 K_ViaRule); red1.
    + via_generated.
    + via_fixed.
  - unfold x_peek_key at 1. unfold lmG. mstep. rewrite key_is_viarule. destruct (LefKey_eqb l0 K_ViaRule); red1.
    + via_generated.
    + via_fixed.
Qed.
End Ties.
