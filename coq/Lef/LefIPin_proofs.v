(** C05, reader-image side: PORT, PROPERTY, DIRECTION, simple statements, PIN. *)
From Coq Require Import String.
From Coq Require Import ZArith List Bool Lia.
From L21 Require Import Lef.LefDec Lef.LefData Lef.LefLex Lef.LefParse Lef.LefSpec Lef.LefCheck
                        Lef.LefLex_proofs Lef.LefParse_proofs Lef.LefRtLex_proofs Lef.LefRtFrame_proofs
                        Lef.LefRtLib_proofs Lef.LefWDec_proofs Lef.LefWFrame_proofs Lef.LefIFrame_proofs
                        Lef.LefIConstr_proofs.
Import ListNotations.
Local Open Scope list_scope.
Local Open Scope Z_scope.

Section ImgPin.
Variable src : bytes.
Hypothesis Hsrc : starts_on_boundary src = true.
Notation cf := cfg_fixed.
Notation ispec := (ispec src).
Notation iR := (iR src).
Notation isees := (isees src).

(** ** PORT *)
Global Instance port_loop_ispec f : forall cl layers,
  ispec (port_loop cf src f cl layers) (fun p c a' => Forall layer_wr layers -> port_wr p).
Proof.
  induction f as [|f IH]; intros cl layers st a Hs; [exact I|]. cbn [port_loop].
  istep. destruct key; try apply iR_fail.
  - (* END *) istep. iret. intros F. exact F.
  - (* LAYER *) istep. eapply iR_weaken; [|eapply iR_spec; [eapply IH | eassumption | congruence]].
    cbv beta. intros p cc aa _ G F. apply G. apply Forall_app. split; [exact F | constructor; [apply q | constructor]].
  - (* CLASS *) istep. istep. istep. eapply iR_weaken; [|eapply iR_spec; [eapply IH | eassumption | congruence]].
    cbv beta. intros p cc aa _ G F. apply G. exact F.
Qed.
Global Instance parse_port_ispec : ispec (parse_port cf src) (fun p c a' => port_wr p /\ c <> []).
Proof.
  intros st a Hs. unfold parse_port. istep. istep. istep. istep. istep. iret. split.
  - match goal with G : Forall layer_wr [] -> port_wr ?p |- port_wr ?p => apply G end. constructor.
  - match goal with q : exists b, ?c = [(TName, b)] /\ _ |- _ => destruct q as (? & -> & _) end. discriminate.
Qed.

(** a consumed-token list with a known singleton part is not empty *)
Ltac cne :=
  repeat match goal with
         | q : exists b, ?c = [(TName, b)] /\ _ |- _ => destruct q as (? & -> & _)
         | q : exists b, ?c = [(TName, b)] |- _ => destruct q as (? & ->)
         | q : ?c = [(_, _)] /\ _ |- _ => destruct q as (-> & _)
         | q : exists x, ?c = [x] |- _ => destruct q as (? & ->)
         end;
  let H := fresh in
  intro H; apply (f_equal (@List.length atok)) in H; repeat rewrite app_length in H; cbn [List.length] in H; lia.

(** ** simple statements *)
Global Instance ident_stmt_ispec : ispec (ident_stmt cf src) (fun v c a' => name_tok v /\ c <> []).
Proof.
  intros st a Hs. unfold ident_stmt. istep. istep. istep. iret. split.
  - match goal with q : _ = [(TName, ?n)] /\ tok_fact _ _ |- name_tok ?n => exact (tok_fact_name _ _ (proj2 q)) end.
  - cne.
Qed.
Global Instance enum_stmt_ispec {T} (from_str : bytes -> option T) :
  ispec (enum_stmt cf src from_str) (fun e c a' => c <> []).
Proof.
  intros st a Hs. unfold enum_stmt. istep. istep. istep. iret. cne.
Qed.
Global Instance parse_pin_direction_ispec : ispec (parse_pin_direction cf src) (fun d c a' => c <> []).
Proof.
  intros st a Hs. unfold parse_pin_direction. istep. istep. istep. istep.
  all: try (istep; fail).
  - istep. istep. iret. cne.
  - istep. istep. destruct (negb (matches TSemi st1)).
    + istep. istep. istep. istep. iret. cne.
    + istep. istep. iret. cne.
  - istep. istep. iret. cne.
  - istep. istep. iret. cne.
Qed.

(** ** PROPERTY *)
Global Instance property_loop_ispec f : forall acc,
  ispec (property_loop cf src f acc)
        (fun ps c a' => a' <> [] -> Forall property_wr acc -> Forall property_wr ps).
Proof.
  induction f as [|f IH]; intros acc st a Hs; [exact I|]. cbn [property_loop].
  istep. destruct (negb (matches TSemi st)); [|iret; auto].
  istep. istep.
  lazymatch goal with
  | Hs1 : isees ?s ?a1 |- iR ?a1 _ _ (match peek_token ?s with _ => _ end ?s) =>
    destruct (peek_token s) as [t|] eqn:Pk; [|apply iR_fail_msg];
    destruct (peek_token_inv src s a1 t Hs1 Pk) as (xv & rv & Ea & Ty & Sx & TF)
  end.
  assert (NM : name_tok x) by exact (tok_fact_name _ _ (proj2 q)).
  destruct (t_ty t) eqn:Tt; try apply iR_fail_msg.
  all: eapply iR_txt; [exact Sx|]; unfold advance; istep; istep; istep.
  all: match goal with q0 : match ?o with Some _ => _ | None => _ end |- _ => destruct o as [t'|] end.
  all: try (exfalso; match goal with q0 : _ = [] /\ _ = [] |- _ => destruct q0 as [-> ->] end;
            match goal with E : ?a = [] ++ [] |- _ => rewrite E in Ea; discriminate Ea end).
  all: match goal with q0 : exists x0, _ = [x0] /\ _ |- _ => destruct q0 as (x' & -> & _) end.
  all: match goal with E : ?a = [_] ++ ?a1 |- _ => rewrite E in Ea; cbn [app] in Ea; injection Ea as Ex Er; subst a1 end.
  all: eapply iR_weaken; [|eapply iR_spec; [eapply IH | eassumption | congruence]].
  all: cbv beta; intros ps cc aa Erv G NE F; apply G; [exact NE|].
  all: apply Forall_app; (split; [exact F | constructor; [|constructor]]); split; cbn [pr_name pr_value]; [exact NM|].
  all: assert (TL : tok_lex_ok xv)
         by (destruct aa as [|y aa']; [contradiction|]; rewrite Erv in TF; destruct cc; cbn [app] in TF; exact (tok_fact_next _ _ _ TF)).
  all: destruct xv as [tx bx]; cbn [fst snd] in *; subst tx; exists (t_ty t); rewrite Tt; split; [exact TL | tauto].
Qed.

Global Instance parse_property_ispec acc : ispec (parse_property cf src acc)
  (fun ps c a' => (Forall property_wr acc -> Forall property_wr ps) /\ c <> []).
Proof.
  intros st a Hs. unfold parse_property. istep. istep. istep. istep. iret. split.
  - match goal with G : ?a1 <> [] -> Forall property_wr acc -> Forall property_wr ?ps |- _ -> Forall property_wr ?ps =>
      apply G;
      match goal with E : a1 = ?c2 ++ _, q : exists x, ?c2 = [x] |- _ => destruct q as (? & ->); rewrite E; discriminate end
    end.
  - cne.
Qed.

(** ** PIN *)
Definition pin_inv (p : lef_pin) : Prop :=
  name_tok (pin_name p) /\ Forall port_wr (pin_ports p) /\ Forall antenna_wr (pin_antenna_attrs p)
  /\ optP name_tok (pin_taper_rule p) /\ optP name_tok (pin_supply_sensitivity p)
  /\ optP name_tok (pin_ground_sensitivity p) /\ optP name_tok (pin_must_join p)
  /\ optP str_tok (pin_net_expr p).
Lemma pin_inv_wr : forall p props, pin_inv p -> Forall property_wr props -> pin_wr (set_pin_properties props p).
Proof.
  intros p props (? & ? & ? & ? & ? & ? & ? & ?) F. unfold pin_wr.
  cbn [set_pin_properties pin_name pin_ports pin_antenna_attrs pin_taper_rule pin_supply_sensitivity
       pin_ground_sensitivity pin_must_join pin_net_expr pin_properties].
  isplit; assumption.
Qed.

Definition i_antenna_keysK : list LefKey :=
  [K_AntennaDiffArea; K_AntennaGateArea; K_AntennaPartialMetalArea; K_AntennaPartialMetalSideArea; K_AntennaPartialCutArea;
   K_AntennaPartialDiffArea; K_AntennaMaxAreaCar; K_AntennaMaxSideAreaCar; K_AntennaMaxCutCar].
Lemma antenna_key_text : forall b k, LefKey_parse b = Some k -> In k i_antenna_keysK ->
  existsb (bytes_eqb (upper_bytes b)) antenna_keys = true.
Proof.
  intros b k H I0. unfold LefKey_parse in H. apply LefKey_from_str_inv in H. rewrite H. clear H.
  unfold i_antenna_keysK in I0. cbn [In] in I0.
  repeat (destruct I0 as [<-|I0]; [vm_compute; reflexivity|]). destruct I0.
Qed.

Ltac pin_cbn :=
  cbn [set_pin_ports set_pin_direction set_pin_use_ set_pin_shape set_pin_antenna_model set_pin_antenna_attrs
       set_pin_taper_rule set_pin_supply_sensitivity set_pin_ground_sensitivity set_pin_must_join set_pin_net_expr
       pin_name pin_ports pin_antenna_attrs pin_taper_rule pin_supply_sensitivity
       pin_ground_sensitivity pin_must_join pin_net_expr optP fst snd].
(** go round the loop: the new record satisfies the invariant *)
Ltac pin_next IH :=
  eapply iR_weaken; [|eapply iR_spec; [eapply IH | eassumption | congruence]];
  cbv beta; intros ?r' ?cc ?aa _ G I0 FP; apply G;
  [destruct I0 as (? & ? & ? & ? & ? & ? & ? & ?); unfold pin_inv; pin_cbn; isplit; try assumption | try exact FP].

(** the nine antenna statements: the key text was dispatched by [peek_key] *)
Ltac ant_case IH :=
  match goal with Kp : LefKey_parse ?b = Some _ |- _ =>
    assert (AK : existsb (bytes_eqb (upper_bytes b)) antenna_keys = true)
      by (eapply antenna_key_text; [exact Kp | unfold i_antenna_keysK; cbn [In]; repeat (first [left; reflexivity | right])])
  end;
  istep;
  match goal with q : ?c = [(TName, ?k)] /\ tok_fact _ _, E1 : ?a = ?x :: _, Ex : ?x = (TName, ?b), E2 : ?a = ?c ++ _ |- _ =>
    let TFk := fresh "TFk" in let Ek := fresh "Ek" in
    destruct q as [-> TFk]; pose proof E2 as Ek; rewrite E1, Ex in Ek; cbn [app] in Ek; injection Ek as Ek _;
    subst k; apply tok_fact_name in TFk
  end;
  istep; istep;
  match goal with |- context [negb (matches TSemi ?s)] =>
    destruct (negb (matches TSemi s));
    [istep; istep; istep; istep; istep; istep; pin_next IH | istep; istep; pin_next IH]
  end;
  (apply Forall_app; split; [assumption | constructor; [|constructor]]);
  unfold antenna_wr; cbn [aa_key aa_val aa_layer optP]; isplit; try assumption;
  match goal with
  | q : dec_wf ?d /\ _ |- dec_wf ?d => exact (proj1 q)
  | q : _ = [(TName, ?n)] /\ tok_fact _ _ |- name_tok ?n => exact (tok_fact_name _ _ (proj2 q))
  | |- True => exact I
  end.

Global Instance pin_loop_ispec f : forall pin props,
  ispec (pin_loop cf src f pin props)
        (fun r c a' => pin_inv pin -> Forall property_wr props -> pin_inv (fst r) /\ Forall property_wr (snd r)).
Proof.
  induction f as [|f IH]; intros pin props st a Hs; [exact I|]. cbn [pin_loop].
  istep. destruct key; try apply iR_fail.
  all: try (lazymatch goal with |- iR _ _ _ (bind (parse_ident _ _) _ _) => idtac end; ant_case IH).
  - (* END *) istep. iret. intros I0 FP. split; assumption.
  - (* PORT *) istep. pin_next IH.
    apply Forall_app. split; [assumption | constructor; [apply q | constructor]].
  - (* DIRECTION *) istep. pin_next IH.
  - (* USE *) istep. pin_next IH.
  - (* SHAPE *) istep. pin_next IH.
  - (* TAPERRULE *) istep. pin_next IH. apply q.
  - (* NETEXPR *) istep. istep. istep.
    match goal with q : exists x, _ = [x] /\ fst x = TString /\ _ |- _ => destruct q as (xs & -> & Ty & Sx & TF) end.
    eapply iR_txt; [exact Sx|].
    assert (TL : str_tok (snd xs)).
    { match goal with q : exists x, ?c2 = [x], E : ?a1 = ?c2 ++ _ |- _ => destruct q as (? & ->); rewrite E in TF end.
      cbn [app] in TF. apply tok_fact_next in TF. destruct xs as [tx bx]. cbn [fst snd] in *. subst tx. exact TF. }
    pin_next IH.
  - (* SUPPLYSENSITIVITY *) istep. pin_next IH. apply q.
  - (* GROUNDSENSITIVITY *) istep. pin_next IH. apply q.
  - (* MUSTJOIN *) istep. pin_next IH. apply q.
  - (* PROPERTY *) istep. pin_next IH. apply q. exact FP.
  - (* ANTENNAMODEL *) istep. pin_next IH.
Qed.

Global Instance parse_pin_ispec : ispec (parse_pin cf src) (fun p c a' => pin_wr p /\ c <> []).
Proof.
  intros st a Hs. unfold parse_pin. istep. istep. istep. istep. istep. istep. istep. istep.
  iret. cbn [c_drop_props cfg_fixed]. split; [|cne].
  match goal with G : pin_inv (empty_pin ?n) -> Forall property_wr [] -> pin_inv (fst (?p, ?ps)) /\ _ |- _ =>
    destruct G as [G1 G2]; [|constructor|exact (pin_inv_wr p ps G1 G2)]
  end.
  unfold pin_inv, empty_pin.
  cbn [pin_name pin_ports pin_antenna_attrs pin_taper_rule pin_supply_sensitivity
       pin_ground_sensitivity pin_must_join pin_net_expr optP].
  isplit; try exact I; try apply Forall_nil.
  match goal with q : _ = [(TName, ?n)] /\ tok_fact _ _ |- name_tok ?n => exact (tok_fact_name _ _ (proj2 q)) end.
Qed.

End ImgPin.

Print Assumptions parse_port_ispec.
Print Assumptions parse_property_ispec.
Print Assumptions ident_stmt_ispec.
Print Assumptions enum_stmt_ispec.
Print Assumptions parse_pin_direction_ispec.
Print Assumptions parse_pin_ispec.
