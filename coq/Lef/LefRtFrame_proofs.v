(** C04 / C05: success specifications for the parser over abstract token lists.

    [sees src st a]: the remaining token stream of parser state [st] shows exactly the abstract tokens [a]
    (type and text) of the source [src], it ends with the end of input, and it is well formed in the sense
    of Lef/LefParse_proofs.v (so that `state()` cannot panic).
    [spec m toks R Q]: from any state that sees [toks ++ rest] with [R rest], the parser step [m] returns
    Ok, consumes exactly [toks], keeps the session version, and its value satisfies [Q].
    [arel t a]: the abstract token [a] is a lexical form of the specification token [t] (Lef/LefSpec.v). *)
From Coq Require Import ZArith List Bool Lia.
From L21 Require Import Lef.LefDec Lef.LefData Lef.LefLex Lef.LefParse Lef.LefSpec Lef.LefCheck
                        Lef.LefLex_proofs Lef.LefParse_proofs Lef.LefRtLex_proofs.
Import ListNotations.
Local Open Scope list_scope.
Local Open Scope Z_scope.

Lemma cfg_fixed_charpos : c_charpos cfg_fixed = false.
Proof. reflexivity. Qed.

Section Rt.
Variable src : bytes.
Hypothesis Hsrc : starts_on_boundary src = true.
Notation cf := cfg_fixed.

Definition sees (st : pst) (a : list atok) : Prop :=
  st_ok src st /\ (exists p l ls, p_end st = LEof p l ls) /\ Forall2 (sees_tok src) (p_toks st) a.

Definition post {B} (rest : list atok) (v : dec) (Q : B -> Prop) (r : res (B * pst)) : Prop :=
  exists b st', r = Ok (b, st') /\ sees st' rest /\ p_ver st' = v /\ Q b.

Definition spec {A} (m : P A) (toks : list atok) (R : list atok -> Prop) (Q : A -> Prop) : Prop :=
  forall st rest, R rest -> sees st (toks ++ rest) -> post rest (p_ver st) Q (m st).

(** the same with a condition on the session version (for the statements of LEF <= 5.4) *)
Definition specv {A} (m : P A) (toks : list atok) (R : list atok -> Prop) (Pv : dec -> Prop) (Q : A -> Prop) : Prop :=
  forall st rest, R rest -> Pv (p_ver st) -> sees st (toks ++ rest) -> post rest (p_ver st) Q (m st).

Definition Any : list atok -> Prop := fun _ => True.
Definition Tt {A} : A -> Prop := fun _ => True.

(** ** structural rules *)
Lemma post_bind {A B} (m : P A) (k : A -> P B) toks R1 Q1 rest1 st rest v (Q : B -> Prop) :
  spec m toks R1 Q1 -> R1 rest1 -> sees st (toks ++ rest1) ->
  (forall a st1, sees st1 rest1 -> p_ver st1 = p_ver st -> Q1 a -> post rest v Q (k a st1)) ->
  post rest v Q (bind m k st).
Proof.
  intros S HR Hs K. destruct (S st rest1 HR Hs) as (a & st1 & E & Hs1 & Hv1 & Hq).
  unfold bind. rewrite E. apply K; assumption.
Qed.
Lemma post_tail {A} (m : P A) toks R1 Q1 st rest v (Q : A -> Prop) :
  spec m toks R1 Q1 -> R1 rest -> sees st (toks ++ rest) -> p_ver st = v -> (forall a, Q1 a -> Q a) ->
  post rest v Q (m st).
Proof.
  intros S HR Hs Hv HQ. destruct (S st rest HR Hs) as (a & st1 & E & Hs1 & Hv1 & Hq).
  exists a, st1. split; [exact E|]. split; [exact Hs1|]. split; [congruence | auto].
Qed.
Lemma post_spec {A} (m : P A) toks R Q st rest v :
  spec m toks R Q -> R rest -> sees st (toks ++ rest) -> p_ver st = v -> post rest v Q (m st).
Proof. intros S HR Hs Hv. eapply post_tail; eauto. Qed.
Lemma post_assoc {A B C} (m : P A) (k1 : A -> P B) (k2 : B -> P C) rest v (Q : C -> Prop) st :
  post rest v Q (bind m (fun a => bind (k1 a) k2) st) -> post rest v Q (bind (bind m k1) k2 st).
Proof. unfold bind. destruct (m st) as [[a st']|e| | |]; auto. Qed.
Lemma post_get {B} (k : pst -> P B) rest v (Q : B -> Prop) st :
  post rest v Q (k st st) -> post rest v Q (bind get k st).
Proof. exact (fun x => x). Qed.
Lemma post_ret_bind {A B} (a : A) (k : A -> P B) rest v (Q : B -> Prop) st :
  post rest v Q (k a st) -> post rest v Q (bind (ret a) k st).
Proof. exact (fun x => x). Qed.
Lemma post_ret {A} (a : A) rest v (Q : A -> Prop) st :
  sees st rest -> p_ver st = v -> Q a -> post rest v Q (ret a st).
Proof. intros. exists a, st. auto. Qed.
Lemma post_ok {A} (a : A) rest v (Q : A -> Prop) st :
  sees st rest -> p_ver st = v -> Q a -> post rest v Q (Ok (a, st)).
Proof. intros. exists a, st. auto. Qed.
Lemma post_weaken {A} rest v (Q Q' : A -> Prop) r : (forall a, Q a -> Q' a) -> post rest v Q r -> post rest v Q' r.
Proof. intros H (a & st & E & S & V & q). exists a, st. auto. Qed.
Lemma spec_weaken {A} (m : P A) toks (R R' : list atok -> Prop) (Q Q' : A -> Prop) :
  (forall r, R' r -> R r) -> (forall a, Q a -> Q' a) -> spec m toks R Q -> spec m toks R' Q'.
Proof. intros HR HQ S st rest r Hs. eapply post_weaken; [exact HQ | apply S; auto]. Qed.

(** ** the context stack does not matter *)
Lemma sees_with_ctx : forall st a c, sees st a -> sees (with_ctx st c) a.
Proof. intros st a c H. exact H. Qed.
Lemma post_push {B} c (k : unit -> P B) rest v (Q : B -> Prop) st :
  (forall st1, (forall a, sees st a -> sees st1 a) -> p_ver st1 = p_ver st -> post rest v Q (k tt st1)) ->
  post rest v Q (bind (push c) k st).
Proof. intros K. unfold bind, push. apply K; auto. Qed.
Lemma post_pop {B} (k : unit -> P B) rest v (Q : B -> Prop) st :
  (forall st1, (forall a, sees st a -> sees st1 a) -> p_ver st1 = p_ver st -> post rest v Q (k tt st1)) ->
  post rest v Q (bind pop k st).
Proof. intros K. unfold bind, pop. apply K; auto. Qed.

(** ** tokens *)
Lemma sees_cons_inv : forall st x r, sees st (x :: r) ->
  exists ti tl, p_toks st = ti :: tl /\ sees_tok src ti x /\ sees (with_toks st tl) r /\ tok_ok src (ti_tok ti).
Proof.
  intros st x r (Hok & He & F). inversion F as [|ti a tl r' V F' E1 E2]; subst.
  exists ti, tl. split; [reflexivity|]. split; [exact V|].
  destruct (st_ok_tail src st ti tl Hok (eq_sym E1)) as [Hok' Ht].
  split; [|exact Ht]. split; [exact Hok'|]. split; [exact He | exact F'].
Qed.

Lemma next_token_ok : forall st x r, sees st (x :: r) ->
  exists t st', next_token st = Ok (Some t, st') /\ sees st' r /\ p_ver st' = p_ver st
                /\ t_ty t = fst x /\ substr src t = Some (snd x).
Proof.
  intros st x r Hs. pose proof Hs as (_ & (p & l & ls & He) & _).
  destruct (sees_cons_inv _ _ _ Hs) as (ti & tl & E & (Vt & Vs) & Hs' & _).
  exists (ti_tok ti), (with_toks st tl). unfold next_token. rewrite E, He.
  split; [destruct tl; reflexivity|]. auto.
Qed.

Lemma peek_token_cons : forall st x r, sees st (x :: r) ->
  exists t, peek_token st = Some t /\ t_ty t = fst x /\ substr src t = Some (snd x).
Proof.
  intros st x r Hs. destruct (sees_cons_inv _ _ _ Hs) as (ti & tl & E & (Vt & Vs) & _).
  exists (ti_tok ti). unfold peek_token. rewrite E. auto.
Qed.
Lemma peek_token_nil : forall st, sees st [] -> peek_token st = None.
Proof. intros st (_ & _ & F). inversion F as [E|]. unfold peek_token. rewrite <- E. reflexivity. Qed.
Lemma matches_cons : forall ty st x r, sees st (x :: r) -> matches ty st = ttype_eqb (fst x) ty.
Proof.
  intros ty st x r Hs. destruct (peek_token_cons _ _ _ Hs) as (t & E & Ty & _).
  unfold matches. rewrite E, Ty. reflexivity.
Qed.
Lemma matches_nil : forall ty st, sees st [] -> matches ty st = false.
Proof. intros ty st Hs. unfold matches. rewrite (peek_token_nil _ Hs). reflexivity. Qed.
Lemma LefRt_Forall2_length {A B} (R : A -> B -> Prop) : forall l1 l2, Forall2 R l1 l2 -> length l1 = length l2.
Proof. induction 1; simpl; congruence. Qed.
Lemma fuel_of_sees : forall st a, sees st a -> fuel_of st = S (length a).
Proof. intros st a (_ & _ & F). unfold fuel_of. rewrite (LefRt_Forall2_length _ _ _ F). reflexivity. Qed.

Lemma advance_spec : forall x, spec advance [x] Any Tt.
Proof.
  intros x st rest _ Hs. destruct (next_token_ok _ _ _ Hs) as (t & st' & E & Hs' & Hv & _).
  exists tt, st'. unfold advance, bind. rewrite E. split; [reflexivity|]. split; [exact Hs'|]. split; [exact Hv | exact I].
Qed.
Lemma expect_spec_ok : forall ty x, fst x = ty -> spec (expect cf src ty) [x] Any (fun t => substr src t = Some (snd x)).
Proof.
  intros ty x Ty st rest _ Hs. destruct (next_token_ok _ _ _ Hs) as (t & st' & E & Hs' & Hv & Tt' & Sx).
  exists t, st'. unfold expect, bind. rewrite E, Tt', Ty.
  replace (ttype_eqb ty ty) with true by (destruct ty; reflexivity).
  split; [reflexivity|]. split; [exact Hs'|]. split; [exact Hv | exact Sx].
Qed.
Lemma txt_ok : forall t b st, substr src t = Some b -> txt src t st = Ok (b, st).
Proof. intros t b st H. unfold txt. rewrite H. reflexivity. Qed.
Lemma get_str_spec : forall ty x, fst x = ty -> spec (expect_and_get_str cf src ty) [x] Any (eq (snd x)).
Proof.
  intros ty x Ty st rest _ Hs. unfold expect_and_get_str.
  eapply post_bind; [apply (expect_spec_ok ty x Ty) | exact I | exact Hs |].
  intros t st1 Hs1 Hv1 Hq. rewrite (txt_ok _ _ _ Hq). apply post_ok; auto.
Qed.
Lemma get_name_spec_ok : forall x, fst x = TName -> spec (get_name cf src) [x] Any (eq (snd x)).
Proof. intros. apply get_str_spec. assumption. Qed.
Lemma parse_ident_spec_ok : forall x, fst x = TName -> spec (parse_ident cf src) [x] Any (eq (snd x)).
Proof. intros. apply get_str_spec. assumption. Qed.
Lemma get_key_spec_ok : forall x k, fst x = TName -> LefKey_parse (snd x) = Some k -> spec (get_key cf src) [x] Any (eq k).
Proof.
  intros x k Ty Kp st rest _ Hs. unfold get_key.
  eapply post_bind; [apply (get_str_spec TName x Ty) | exact I | exact Hs |].
  intros s st1 Hs1 Hv1 <-. rewrite Kp. apply post_ret; auto.
Qed.
Lemma LefKey_eqb_refl : forall k, LefKey_eqb k k = true.
Proof. intros k. unfold LefKey_eqb. apply Z.eqb_refl. Qed.
Lemma expect_key_spec_ok : forall x k, fst x = TName -> LefKey_parse (snd x) = Some k -> spec (expect_key cf src k) [x] Any Tt.
Proof.
  intros x k Ty Kp st rest _ Hs. unfold expect_key.
  eapply post_bind; [apply (get_key_spec_ok x k Ty Kp) | exact I | exact Hs |].
  intros k' st1 Hs1 Hv1 <-. rewrite LefKey_eqb_refl. apply post_ret; auto. exact I.
Qed.
Lemma peek_key_ok : forall st x r k, sees st (x :: r) -> fst x = TName -> LefKey_parse (snd x) = Some k ->
  peek_key cf src st = Ok (k, st).
Proof.
  intros st x r k Hs Ty Kp. destruct (peek_token_cons _ _ _ Hs) as (t & E & Tt' & Sx).
  unfold peek_key. rewrite E, Tt', Ty. cbn [ttype_eqb]. unfold bind. rewrite (txt_ok _ _ _ Sx), Kp. reflexivity.
Qed.
Lemma post_peek_key {B} (k : LefKey -> P B) rest v (Q : B -> Prop) st x r key :
  sees st (x :: r) -> fst x = TName -> LefKey_parse (snd x) = Some key ->
  post rest v Q (k key st) -> post rest v Q (bind (peek_key cf src) k st).
Proof. intros Hs Ty Kp H. unfold bind. rewrite (peek_key_ok _ _ _ _ Hs Ty Kp). exact H. Qed.
Lemma parse_enum_spec_ok : forall {T} (from_str : bytes -> option T) x e, fst x = TName ->
  from_str (upper_bytes (snd x)) = Some e -> spec (parse_enum cf src from_str) [x] Any (eq e).
Proof.
  intros T from_str x e Ty Fe st rest _ Hs. unfold parse_enum.
  eapply post_bind; [apply (get_name_spec_ok x Ty) | exact I | exact Hs |].
  intros s st1 Hs1 Hv1 <-. rewrite Fe. apply post_ret; auto.
Qed.
Lemma parse_number_spec_ok : forall x d, fst x = TNumber -> dec_of_bytes (snd x) = DOk d ->
  spec (parse_number cf src) [x] Any (eq d).
Proof.
  intros x d Ty De st rest _ Hs. unfold parse_number.
  eapply post_bind; [apply (expect_spec_ok TNumber x Ty) | exact I | exact Hs |].
  intros t st1 Hs1 Hv1 Hq. unfold bind at 1. rewrite (txt_ok _ _ _ Hq). cbv beta iota. rewrite De.
  apply post_ret; auto.
Qed.
Lemma expect_semi_spec_ok : forall x, fst x = TSemi -> spec (expect_semi cf src) [x] Any Tt.
Proof.
  intros x Ty st rest _ Hs. unfold expect_semi.
  eapply post_bind; [apply (expect_spec_ok TSemi x Ty) | exact I | exact Hs |].
  intros t st1 Hs1 Hv1 Hq. apply post_ret; auto. exact I.
Qed.
(** `fail_ignored`: the error state is built without a panic *)
Lemma fail_ignored_ok : forall st a, sees st a -> fail_ignored cf src st = Ok (tt, st).
Proof.
  intros st a (Hok & _). unfold fail_ignored.
  destruct (state_ok cf src cfg_fixed_charpos Hsrc st Hok) as [x ->]. reflexivity.
Qed.

(** * Specification tokens and their lexical forms *)
Definition arel (t : stok) (a : atok) : Prop :=
  match t with
  | SKw k => fst a = TName /\ upper_bytes (snd a) = bytes_of_string k
  | SName n => fst a = TName /\ snd a = n
  | SNum d => fst a = TNumber /\ exists d', dec_of_bytes (snd a) = DOk d' /\ dec_eq d d' = true /\ dec_wf d'
  | SRaw b => snd a = b /\ match b with
                           | 34 :: _ => fst a = TString
                           | _ => if bytes_eqb b [59] then fst a = TSemi else (fst a = TName \/ fst a = TNumber)
                           end
  | SSemi => fst a = TSemi
  end.

Lemma arel_kw_key : forall s a k, arel (SKw s) a -> LefKey_from_str (bytes_of_string s) = Some k ->
  fst a = TName /\ LefKey_parse (snd a) = Some k.
Proof. intros s a k [Ty U] H. split; [exact Ty|]. unfold LefKey_parse. rewrite U. exact H. Qed.

Lemma kw_expect_key : forall s a k, arel (SKw s) a -> LefKey_from_str (bytes_of_string s) = Some k ->
  spec (expect_key cf src k) [a] Any Tt.
Proof. intros s a k A H. destruct (arel_kw_key _ _ _ A H). apply expect_key_spec_ok; assumption. Qed.
Lemma kw_get_key : forall s a k, arel (SKw s) a -> LefKey_from_str (bytes_of_string s) = Some k ->
  spec (get_key cf src) [a] Any (eq k).
Proof. intros s a k A H. destruct (arel_kw_key _ _ _ A H). apply get_key_spec_ok; assumption. Qed.
Lemma kw_enum : forall {T} (from_str : bytes -> option T) s a e, arel (SKw s) a ->
  from_str (bytes_of_string s) = Some e -> spec (parse_enum cf src from_str) [a] Any (eq e).
Proof. intros T f s a e [Ty U] H. apply parse_enum_spec_ok; [exact Ty | rewrite U; exact H]. Qed.
Lemma name_ident : forall n a, arel (SName n) a -> spec (parse_ident cf src) [a] Any (eq n).
Proof. intros n a [Ty <-]. apply parse_ident_spec_ok. exact Ty. Qed.
Lemma name_get_name : forall n a, arel (SName n) a -> spec (get_name cf src) [a] Any (eq n).
Proof. intros n a [Ty <-]. apply get_name_spec_ok. exact Ty. Qed.
Lemma num_number : forall d a, arel (SNum d) a ->
  spec (parse_number cf src) [a] Any (fun d' => dec_eq d d' = true /\ dec_wf d').
Proof.
  intros d a [Ty (d' & De & Eq & Wf)].
  eapply spec_weaken; [| |apply (parse_number_spec_ok a d' Ty De)]; [auto|]. intros ? <-. auto.
Qed.
Lemma semi_expect : forall a, arel SSemi a -> spec (expect_semi cf src) [a] Any Tt.
Proof. intros a Ty. apply expect_semi_spec_ok. exact Ty. Qed.

End Rt.

Arguments arel : simpl never.

Lemma LefRt_Forall2_cons_inv {A B} (R : A -> B -> Prop) x l l2 :
  Forall2 R (x :: l) l2 -> exists y l2', l2 = y :: l2' /\ R x y /\ Forall2 R l l2'.
Proof. intros H. inversion H; subst. eauto. Qed.
Lemma LefRt_Forall2_nil_inv {A B} (R : A -> B -> Prop) l2 : Forall2 R [] l2 -> l2 = [].
Proof. intros H. inversion H. reflexivity. Qed.

(** * Tactics *)
Ltac inv_arel :=
  repeat match goal with
  | H : Forall2 arel (_ :: _) _ |- _ =>
    let y := fresh "a" in let l := fresh "at" in let A := fresh "A" in
    apply LefRt_Forall2_cons_inv in H; destruct H as (y & l & -> & A & H)
  | H : Forall2 arel [] _ |- _ => apply LefRt_Forall2_nil_inv in H; subst
  | H : Forall2 arel (_ ++ _) _ |- _ =>
    let l1 := fresh "at" in let l2 := fresh "at" in let H1 := fresh "F" in let H2 := fresh "F" in
    apply Forall2_app_inv_l in H; destruct H as (l1 & l2 & H1 & H2 & ->)
  end.

(** run the head of a bind with the specification lemma [L] *)
Ltac pb L :=
  eapply post_bind; [ apply L | try exact I | cbn [app]; eassumption | let q := fresh "Q" in intros ? ? ? ? q; cbv beta in q;
    try (match type of q with _ = ?x => is_var x; subst x end) ].
Ltac pb_tail L :=
  eapply post_tail; [ apply L | try exact I | cbn [app]; eassumption | try congruence | ].
Ltac pret := apply post_ret; [ assumption | congruence | ].

(** one step of symbolic execution; the token consumed is the head of the `sees` hypothesis of the current state *)
Ltac pstep :=
  cbv beta;
  lazymatch goal with
  | |- post ?src _ _ _ (bind ?m ?k ?st) =>
    lazymatch m with
    | get => apply post_get
    | ret _ => apply post_ret_bind
    | bind _ _ => apply post_assoc
    | push _ =>
      apply post_push;
      let st1 := fresh "st" in let M := fresh "M" in let V := fresh "V" in intros st1 M V;
      match goal with Hs : sees _ st _ |- _ => let H := fresh "Hs" in pose proof (M _ Hs) as H; clear M end
    | pop =>
      apply post_pop;
      let st1 := fresh "st" in let M := fresh "M" in let V := fresh "V" in intros st1 M V;
      match goal with Hs : sees _ st _ |- _ => let H := fresh "Hs" in pose proof (M _ Hs) as H; clear M end
    | advance => pb (advance_spec src)
    | peek_key _ _ =>
      match goal with
      | Hs : sees _ st (?a :: _), A : arel (SKw ?s) ?a |- _ =>
        eapply (post_peek_key src _ _ _ _ st a _ _ Hs);
        [ exact (proj1 A) | unfold LefKey_parse; rewrite (proj2 A); vm_compute; reflexivity | ]
      end
    | expect_key _ _ _ =>
      match goal with
      | Hs : sees _ st (?a :: _), A : arel (SKw ?s) ?a |- _ => pb (kw_expect_key src s a _ A ltac:(vm_compute; reflexivity))
      end
    | get_key _ _ =>
      match goal with
      | Hs : sees _ st (?a :: _), A : arel (SKw ?s) ?a |- _ => pb (kw_get_key src s a _ A ltac:(vm_compute; reflexivity))
      end
    | parse_enum _ _ ?f =>
      match goal with
      | Hs : sees _ st (?a :: _), A : arel (SKw ?s) ?a |- _ => pb (kw_enum src f s a _ A ltac:(vm_compute; reflexivity))
      end
    | parse_number _ _ =>
      match goal with
      | Hs : sees _ st (?a :: _), A : arel (SNum ?d) ?a |- _ => pb (num_number src d a A)
      end
    | parse_ident _ _ =>
      match goal with
      | Hs : sees _ st (?a :: _), A : arel (SName ?n) ?a |- _ => pb (name_ident src n a A)
      end
    | get_name _ _ =>
      match goal with
      | Hs : sees _ st (?a :: _), A : arel (SName ?n) ?a |- _ => pb (name_get_name src n a A)
      end
    | expect_semi _ _ =>
      match goal with
      | Hs : sees _ st (?a :: _), A : arel SSemi ?a |- _ => pb (semi_expect src a A)
      end
    end
  end.

(** evaluate a key comparison between concrete keys *)
Ltac keq :=
  repeat match goal with
  | |- context [LefKey_eqb ?a ?b] =>
    let t := eval vm_compute in (LefKey_eqb a b) in change (LefKey_eqb a b) with t
  end; cbv iota.
(** the type of the head token is known from its [arel] fact *)
Ltac head_ty :=
  match goal with
  | Hs : sees ?src ?st (?a :: _) |- context [matches ?ty ?st] =>
    rewrite (matches_cons src ty st a _ Hs);
    first [ match goal with A : arel (SKw _) a |- _ => rewrite (proj1 A) end
          | match goal with A : arel (SName _) a |- _ => rewrite (proj1 A) end
          | match goal with A : arel (SNum _) a |- _ => rewrite (proj1 A) end
          | match goal with A : arel SSemi a |- _ => rewrite (A : fst a = TSemi) end
          | match goal with A : fst a = _ |- _ => rewrite A end ];
    cbn [ttype_eqb negb]; cbv iota
  end.

(** close a comparison goal from the collected facts *)
Ltac deq :=
  repeat match goal with H : _ /\ _ |- _ => destruct H end; cbn;
  repeat match goal with H : _ = true |- _ => rewrite H end; try reflexivity.
