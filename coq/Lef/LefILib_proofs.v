(** C05, reader-image side: the LIBRARY level (VERSION, PROPERTYDEFINITIONS, BUSBITCHARS, DIVIDERCHAR,
    BEGINEXT .. ENDEXT, the library loop, [parse_lib], [parse]). The blocks (MACRO, VIA, SITE, UNITS) and the
    lexer image enter as hypotheses of the section. *)
From Coq Require Import String.
From Coq Require Import ZArith List Bool Lia.
From L21 Require Import Lef.LefDec Lef.LefData Lef.LefLex Lef.LefParse Lef.LefSpec Lef.LefCheck
                        Lef.LefLex_proofs Lef.LefParse_proofs Lef.LefRtLex_proofs Lef.LefRtFrame_proofs
                        Lef.LefRtPerm_proofs Lef.LefRtLib_proofs Lef.LefWDec_proofs Lef.LefWFrame_proofs
                        Lef.LefIFrame_proofs Lef.LefIConstr_proofs.
Import ListNotations.
Local Open Scope list_scope.
Local Open Scope Z_scope.

Lemma ILib_app_ne_l {X} : forall (c c2 : list X), c <> [] -> c ++ c2 <> [].
Proof. intros [|x c] c2 H; [congruence | discriminate]. Qed.
Lemma ILib_app_ne_r {X} : forall (c c2 : list X), c2 <> [] -> c ++ c2 <> [].
Proof. intros [|x c] c2 H; [exact H | discriminate]. Qed.

(** * The characters of a well-formed text *)
Lemma ILib_cont_ge : forall b, is_cont b = true -> 128 <= b < 192.
Proof. intros b H. apply is_cont_range. exact H. Qed.

(** every character of a well-formed text is a scalar value, and an ASCII character is one of its bytes *)
Lemma chars_of_U8 : forall s, U8 s -> Forall (fun c => scalar_ok c /\ (c < 128 -> In c s)) (chars_of s).
Proof.
  intros s U. induction U as [|b r B U IH|b0 b1 r B0 C1 U IH|b0 b1 b2 r B0 C1 C2 X1 X2 U IH
                               |b0 b1 b2 b3 r B0 C1 C2 C3 X1 X2 U IH].
  - constructor.
  - rewrite (LefRtPerm_chars_of_lead b r) by (apply not_cont_lt; lia).
    assert (E : cp_at (b :: r) = b).
    { cbn [cp_at]. replace (b <? 128) with true by (symmetry; apply Z.ltb_lt; lia). reflexivity. }
    rewrite E. constructor.
    + split; [unfold scalar_ok; lia | intros _; left; reflexivity].
    + eapply Forall_impl; [|exact IH]. cbv beta. intros c [S I]. split; [exact S | intros L; right; exact (I L)].
  - rewrite (LefRtPerm_chars_of_lead b0 (b1 :: r)) by (apply not_cont_ge; lia).
    cbn [chars_of]. rewrite C1. apply ILib_cont_ge in C1.
    assert (E : cp_at (b0 :: b1 :: r) = (b0 - 192) * 64 + (b1 - 128)).
    { cbn [cp_at]. replace (b0 <? 128) with false by (symmetry; apply Z.ltb_ge; lia).
      replace (b0 <? 224) with true by (symmetry; apply Z.ltb_lt; lia). reflexivity. }
    rewrite E. constructor.
    + split; [unfold scalar_ok; lia | intros L; lia].
    + eapply Forall_impl; [|exact IH]. cbv beta. intros c [S I]. split; [exact S | intros L; right; right; exact (I L)].
  - rewrite (LefRtPerm_chars_of_lead b0 (b1 :: b2 :: r)) by (apply not_cont_ge; lia).
    cbn [chars_of]. rewrite C1, C2. apply ILib_cont_ge in C1. apply ILib_cont_ge in C2.
    assert (E : cp_at (b0 :: b1 :: b2 :: r) = (b0 - 224) * 4096 + (b1 - 128) * 64 + (b2 - 128)).
    { cbn [cp_at]. replace (b0 <? 128) with false by (symmetry; apply Z.ltb_ge; lia).
      replace (b0 <? 224) with false by (symmetry; apply Z.ltb_ge; lia).
      replace (b0 <? 240) with true by (symmetry; apply Z.ltb_lt; lia). reflexivity. }
    rewrite E. constructor.
    + split; [unfold scalar_ok; lia | intros L; lia].
    + eapply Forall_impl; [|exact IH]. cbv beta. intros c [S I]. split; [exact S | intros L; right; right; right; exact (I L)].
  - rewrite (LefRtPerm_chars_of_lead b0 (b1 :: b2 :: b3 :: r)) by (apply not_cont_ge; lia).
    cbn [chars_of]. rewrite C1, C2, C3. apply ILib_cont_ge in C1. apply ILib_cont_ge in C2. apply ILib_cont_ge in C3.
    assert (E : cp_at (b0 :: b1 :: b2 :: b3 :: r) = (b0 - 240) * 262144 + (b1 - 128) * 4096 + (b2 - 128) * 64 + (b3 - 128)).
    { cbn [cp_at]. replace (b0 <? 128) with false by (symmetry; apply Z.ltb_ge; lia).
      replace (b0 <? 224) with false by (symmetry; apply Z.ltb_ge; lia).
      replace (b0 <? 240) with false by (symmetry; apply Z.ltb_ge; lia). reflexivity. }
    rewrite E. constructor.
    + split; [unfold scalar_ok; lia | intros L; lia].
    + eapply Forall_impl; [|exact IH]. cbv beta. intros c [S I]. split; [exact S | intros L; do 4 right; exact (I L)].
Qed.

Lemma chars_of_U8_chr : forall s, U8 s -> ~ In 34 s -> Forall chr_wr (chars_of s).
Proof.
  intros s U N. eapply Forall_impl; [|exact (chars_of_U8 s U)]. cbv beta. intros c [S I]. split; [exact S|].
  intros ->. apply N. apply I. lia.
Qed.

(** [chars_of] distributes over the concatenation when the first piece is well formed *)
Lemma chars_of_U8_app : forall s r, U8 s -> chars_of (s ++ r) = chars_of s ++ chars_of r.
Proof.
  intros s r U. induction U as [|b t B U IH|b0 b1 t B0 C1 U IH|b0 b1 b2 t B0 C1 C2 X1 X2 U IH
                               |b0 b1 b2 b3 t B0 C1 C2 C3 X1 X2 U IH].
  - reflexivity.
  - pose proof (U8_cp_at_app (b :: t) r (U8_1 _ _ B U) ltac:(discriminate)) as E.
    cbn [app] in *. rewrite !LefRtPerm_chars_of_lead by (apply not_cont_lt; lia). rewrite E, IH. reflexivity.
  - pose proof (U8_cp_at_app (b0 :: b1 :: t) r (U8_2 _ _ _ B0 C1 U) ltac:(discriminate)) as E.
    cbn [app] in *. rewrite !(LefRtPerm_chars_of_lead b0) by (apply not_cont_ge; lia). rewrite E.
    cbn [chars_of]. rewrite C1, IH. reflexivity.
  - pose proof (U8_cp_at_app (b0 :: b1 :: b2 :: t) r (U8_3 _ _ _ _ B0 C1 C2 X1 X2 U) ltac:(discriminate)) as E.
    cbn [app] in *. rewrite !(LefRtPerm_chars_of_lead b0) by (apply not_cont_ge; lia). rewrite E.
    cbn [chars_of]. rewrite C1, C2, IH. reflexivity.
  - pose proof (U8_cp_at_app (b0 :: b1 :: b2 :: b3 :: t) r (U8_4 _ _ _ _ _ B0 C1 C2 C3 X1 X2 U) ltac:(discriminate)) as E.
    cbn [app] in *. rewrite !(LefRtPerm_chars_of_lead b0) by (apply not_cont_ge; lia). rewrite E.
    cbn [chars_of]. rewrite C1, C2, C3, IH. reflexivity.
Qed.

Lemma str_tok_inv : forall s, tok_lex_ok (TString, s) -> exists body, s = 34 :: body ++ [34] /\ U8 body /\ ~ In 34 body.
Proof.
  intros s H. inversion H as [|body U N| |b0 b' U NS St T]; subst.
  - exists body. auto.
  - destruct (is_rust_float (b0 :: b')); discriminate.
Qed.

(** the characters of a terminated string literal: the quotes and the characters of the body *)
Lemma chars_of_str_tok : forall s, tok_lex_ok (TString, s) ->
  exists cs, chars_of s = 34 :: cs ++ [34] /\ Forall chr_wr cs.
Proof.
  intros s H. destruct (str_tok_inv s H) as (body & -> & U & N). exists (chars_of body). split.
  - rewrite (LefRtPerm_chars_of_lead 34) by reflexivity.
    assert (E : cp_at (34 :: body ++ [34]) = 34) by reflexivity. rewrite E.
    rewrite (chars_of_U8_app body [34] U). reflexivity.
  - exact (chars_of_U8_chr body U N).
Qed.

Lemma chars4_inv : forall (cs : list Z) q1 c1 c2 q2, 34 :: cs ++ [34] = [q1; c1; c2; q2] -> cs = [c1; c2].
Proof.
  intros cs q1 c1 c2 q2 H. destruct cs as [|x [|y [|z t]]]; cbn [app] in H; try discriminate.
  - injection H as _ -> ->. reflexivity.
  - destruct t; discriminate.
Qed.
Lemma chars3_inv : forall (cs : list Z) q1 c1 q2, 34 :: cs ++ [34] = [q1; c1; q2] -> cs = [c1].
Proof.
  intros cs q1 c1 q2 H. destruct cs as [|x [|y t]]; cbn [app] in H; try discriminate.
  - injection H as _ ->. reflexivity.
  - destruct t; discriminate.
Qed.

(** * Tokens that cannot end a BEGINEXT block *)
Lemma ext_free_key : forall t key, LefKey_parse t = Some key -> LefKey_eqb key K_EndExtension = false -> ext_tok_free t.
Proof.
  intros t key Kp Ke E. unfold LefKey_parse in Kp. rewrite E in Kp.
  assert (X : LefKey_from_str (bytes_of_string "ENDEXT") = Some K_EndExtension) by (vm_compute; reflexivity).
  rewrite X in Kp. injection Kp as <-. vm_compute in Ke. discriminate.
Qed.
Lemma ext_free_nokey : forall t, LefKey_parse t = None -> ext_tok_free t.
Proof.
  intros t Kp E. unfold LefKey_parse in Kp. rewrite E in Kp.
  assert (X : LefKey_from_str (bytes_of_string "ENDEXT") = Some K_EndExtension) by (vm_compute; reflexivity).
  rewrite X in Kp. discriminate.
Qed.
Lemma ext_free_head : forall b0 t, upper_b b0 <> 69 -> ext_tok_free (b0 :: t).
Proof.
  intros b0 t N E. unfold upper_bytes in E. cbn [map] in E.
  change (bytes_of_string "ENDEXT") with [69; 78; 68; 69; 88; 84] in E. injection E as E _. exact (N E).
Qed.
Lemma ext_free_other : forall ty b, tok_lex_ok (ty, b) -> ty <> TName -> ext_tok_free b.
Proof.
  intros ty b H N. inversion H as [|body U N34|b1 U NE NS AL|b0 b' U NS St T]; subst.
  - apply ext_free_head. vm_compute. discriminate.
  - apply ext_free_head. vm_compute. discriminate.
  - congruence.
  - apply ext_free_head. unfold numstart, is_digit10 in St. unfold upper_b.
    repeat rewrite orb_true_iff in St. rewrite andb_true_iff in St. repeat rewrite Z.leb_le in St. repeat rewrite Z.eqb_eq in St.
    replace ((97 <=? b0) && (b0 <=? 122)) with false by (symmetry; apply andb_false_iff; left; apply Z.leb_gt; lia). lia.
Qed.

Section ILib.
Variable src : bytes.
Hypothesis Hsrc : starts_on_boundary src = true.
Notation cf := cfg_fixed.
Notation ispec := (ispec src).
Notation ispecv := (ispecv src).
Notation iR := (iR src).
Notation isees := (isees src).

Hypothesis parse_macro_ispecv : ispecv (parse_macro cf src)
  (fun v m c a' => macro_wr m /\ (mac_source m <> None -> dec_gt v V5P4 = false) /\ c <> []).
Hypothesis parse_via_ispec : ispec (parse_via cf src) (fun v c a' => via_wr v /\ c <> []).
Hypothesis parse_site_def_ispec : ispec (parse_site_def cf src) (fun s c a' => site_wr s /\ c <> []).
Hypothesis parse_units_ispec : ispec (parse_units cf src) (fun u c a' => units_wr u /\ c <> []).
Existing Instance parse_via_ispec.
Existing Instance parse_site_def_ispec.
Existing Instance parse_units_ispec.

(** a consumed token makes the consumed list non-empty *)
Ltac ne_fact :=
  lazymatch goal with
  | |- ?c <> [] =>
    match goal with
    | q : exists b, c = [_] /\ _ |- _ => destruct q as (? & -> & _); discriminate
    | q : exists x, c = [x] |- _ => destruct q as (? & ->); discriminate
    | q : _ /\ (exists b, c = [_]) |- _ => destruct q as (_ & ? & ->); discriminate
    | q : c = [_] /\ _ |- _ => rewrite (proj1 q); discriminate
    | q : c = [_] |- _ => rewrite q; discriminate
    | q : _ /\ c <> [] |- _ => exact (proj2 q)
    | q : _ /\ _ /\ c <> [] |- _ => exact (proj2 (proj2 q))
    | q : c <> [] /\ _ |- _ => exact (proj1 q)
    | q : c <> [] |- _ => exact q
    end
  end.
Ltac ne :=
  first [ ne_fact | apply ILib_app_ne_l; ne_fact | apply ILib_app_ne_r; ne ].

(** ** PROPERTYDEFINITIONS *)
Global Instance parse_property_definition_tail_ispec : ispec (parse_property_definition_tail cf src)
  (fun vr c a' => optP dec_wf (fst vr) /\ optP (fun x => dec_wf (fst x) /\ dec_wf (snd x)) (snd vr) /\ c <> []).
Proof.
  intros st a Hs. unfold parse_property_definition_tail. repeat istep; iret; cbn [fst snd optP]; isplit;
    try exact I; try ne;
    match goal with q : dec_wf ?x /\ _ |- dec_wf ?x => apply q end.
Qed.

Lemma ILib_Forall_snoc {X} (P : X -> Prop) : forall l x, Forall P l -> P x -> Forall P (l ++ [x]).
Proof. intros l x F H. apply Forall_app. split; [exact F | constructor; [exact H | constructor]]. Qed.

Global Instance propdefs_loop_ispec f : forall acc,
  ispec (propdefs_loop cf src f acc) (fun l c a' => c <> [] /\ (Forall propdef_wr acc -> Forall propdef_wr l)).
Proof.
  induction f as [|f IH]; intros acc st a Hs; [exact I|]. cbn [propdefs_loop].
  istep. destruct key; try apply iR_fail.
  all: try (lazymatch goal with |- context [parse_enum] => idtac end;
    istep; istep; istep;
    match goal with q : _ = [(TName, _)] /\ tok_fact _ _ |- _ => destruct q as [? TFn]; apply tok_fact_name in TFn end;
    match goal with |- context [match ?k with _ => _ end] => destruct k; try apply iR_fail end).
  all: try (lazymatch goal with |- context [parse_property_definition_tail] => idtac end;
    istep;
    eapply iR_weaken; [|eapply iR_spec; [eapply IH | eassumption | congruence]];
    cbv beta; intros l cc aa _ [N G]; (split; [ne|]); intros Fa; apply G; apply ILib_Forall_snoc; [exact Fa|];
    cbn [propdef_wr];
    match goal with q : optP dec_wf (fst ?v) /\ _ /\ _ |- _ => destruct q as (Q1 & Q2 & _) end;
    isplit; [exact TFn | exact Q1 | exact Q2]).
  all: try (lazymatch goal with |- context [matches TSemi] => idtac end;
    istep; istep;
    [ istep; istep;
      eapply iR_weaken; [|eapply iR_spec; [eapply IH | eassumption | congruence]];
      cbv beta; intros l cc aa _ [N G]; (split; [ne|]); intros Fa; apply G; apply ILib_Forall_snoc; [exact Fa|];
      cbn [propdef_wr optP]; isplit; [exact TFn | exact I]
    | istep; istep;
      match goal with q : exists x, _ = [x] /\ fst x = TString /\ _ |- _ => destruct q as ([tx bx] & -> & Ty & Sx & TF) end;
      cbn [fst snd] in Ty, Sx; subst tx;
      do 4 istep;
      match goal with q : exists y, _ = [y] |- _ => destruct q as (? & ->) end;
      eapply iR_weaken; [|eapply iR_spec; [eapply IH | eassumption | congruence]];
      cbv beta; intros l cc aa _ [N G]; (split; [ne|]); intros Fa; apply G; apply ILib_Forall_snoc; [exact Fa|];
      cbn [propdef_wr optP]; isplit; [exact TFn |];
      match goal with E : ?a1 = [_] ++ _, TF : tok_fact _ ?a1 |- _ => rewrite E in TF; exact (tok_fact_next _ _ _ TF) end ]).
  (* END PROPERTYDEFINITIONS *)
  istep. istep. iret. split; [ne | auto].
Qed.
Global Instance parse_property_definitions_ispec : ispec (parse_property_definitions cf src)
  (fun pds c a' => Forall propdef_wr pds /\ c <> []).
Proof.
  intros st a Hs. unfold parse_property_definitions. do 5 istep. iret.
  match goal with q : _ /\ (Forall propdef_wr [] -> _) |- _ => destruct q as [N G] end.
  split; [apply G; constructor | ne].
Qed.

(** ** BUSBITCHARS, DIVIDERCHAR *)
Global Instance parse_bus_bit_chars_ispec : ispec (parse_bus_bit_chars cf src)
  (fun cs c a' => chr_wr (fst cs) /\ chr_wr (snd cs) /\ c <> []).
Proof.
  intros st a Hs. unfold parse_bus_bit_chars. istep. istep.
  match goal with q : _ = [(TString, _)] /\ tok_fact _ _ |- _ => destruct q as [Ec TF] end.
  repeat istep. subst.
  match goal with q : exists y, _ = [y] |- _ => destruct q as (? & ->) end.
  cbn [app] in TF. apply tok_fact_next in TF.
  destruct (chars_of_str_tok _ TF) as (cs & E & F).
  match goal with H : chars_of _ = [_; _; _; _] |- _ => rewrite H in E end.
  symmetry in E. apply chars4_inv in E. subst cs. inversion F as [|? ? W1 F1]; subst. inversion F1 as [|? ? W2 F2]; subst.
  iret. cbn [fst snd]. isplit; [exact W1 | exact W2 | ne].
Qed.
Global Instance parse_divider_char_ispec : ispec (parse_divider_char cf src) (fun ch c a' => chr_wr ch /\ c <> []).
Proof.
  intros st a Hs. unfold parse_divider_char. istep. istep.
  match goal with q : _ = [(TString, _)] /\ tok_fact _ _ |- _ => destruct q as [Ec TF] end.
  repeat istep. subst.
  match goal with q : exists y, _ = [y] |- _ => destruct q as (? & ->) end.
  cbn [app] in TF. apply tok_fact_next in TF.
  destruct (chars_of_str_tok _ TF) as (cs & E & F).
  match goal with H : chars_of _ = [_; _; _] |- _ => rewrite H in E end.
  symmetry in E. apply chars3_inv in E. subst cs. inversion F as [|? ? W1 F1]; subst.
  iret. isplit; [exact W1 | ne].
Qed.

(** ** BEGINEXT .. ENDEXT *)
Global Instance fail_ignored_ispec : ispec (fail_ignored cf src) (fun _ c a' => c = []).
Proof.
  intros st a Hs. unfold fail_ignored. destruct (state cf src st) as [p|]; [|exact I].
  apply iR_ok; [exact Hs | reflexivity | reflexivity].
Qed.

Global Instance ext_loop_ispec f : forall data,
  ispec (ext_loop cf src f data)
    (fun d c a' => c <> [] /\ exists toks, d = data ++ flat_map (fun t => t ++ [32]) toks
                                          /\ Forall (fun t => any_tok t /\ ext_tok_free t) toks).
Proof.
  induction f as [|f IH]; intros data st a Hs; [exact I|]. cbn [ext_loop].
  istep. destruct x as [tk|]; [|apply iR_fail].
  destruct q as ([tx bx] & -> & Ty & Sx & TF). cbn [fst snd] in Ty, Sx.
  (* the recursive call, once the token is known not to be ENDEXT *)
  assert (Rec : (tx = TName -> ext_tok_free bx) -> forall st', isees st' a0 -> p_ver st' = p_ver st ->
     iR a0 (p_ver st)
       (fun (y : bytes) (_ _ : list atok) =>
          exists toks, y = data ++ flat_map (fun t => t ++ [32]) toks /\ Forall (fun t => any_tok t /\ ext_tok_free t) toks)
       ((s <- txt src tk;; ext_loop cf src f (data ++ s ++ [32])) st')).
  { intros Fr st' Hs' Hv'. istep.
    eapply iR_weaken; [|eapply iR_spec; [eapply IH | eassumption | congruence]].
    cbv beta. intros d cc aa E [N (toks & -> & F)].
    assert (L : tok_lex_ok (tx, bx)).
    { rewrite E in TF. destruct cc as [|y cc']; [congruence|]. exact (tok_fact_next _ _ _ TF). }
    exists (bx :: toks). split; [cbn [flat_map]; rewrite <- !app_assoc; reflexivity|].
    constructor; [|exact F]. split; [exists tx; exact L|].
    destruct tx; try (apply (ext_free_other _ _ L); discriminate). apply Fr. reflexivity. }
  assert (Tn : ttype_eqb (t_ty tk) TName = true -> tx = TName).
  { intros Te. rewrite <- Ty. destruct (t_ty tk); try discriminate; reflexivity. }
  assert (Tn' : ttype_eqb (t_ty tk) TName = false -> tx <> TName).
  { intros Te ->. rewrite Ty in Te. discriminate. }
  destruct (ttype_eqb (t_ty tk) TName) eqn:Te.
  - istep. istep. istep.
    + (* a key *) istep. destruct (LefKey_eqb l K_EndExtension) eqn:Ke.
      * iret. split; [discriminate|]. exists []. cbn [flat_map]. rewrite app_nil_r. split; [reflexivity | constructor].
      * eapply iR_weaken; [|apply Rec; [intros _; eapply ext_free_key; eassumption | eassumption | congruence]].
        cbv beta. intros ? ? ? _ X. split; [discriminate | exact X].
    + istep. istep. subst. cbn [app] in *.
      eapply iR_weaken; [|apply Rec; [intros _; apply ext_free_nokey; assumption | eassumption | congruence]].
      cbv beta. intros ? ? ? _ X. split; [discriminate | exact X].
  - istep.
    eapply iR_weaken; [|apply Rec; [intros E; exfalso; exact (Tn' eq_refl E) | eassumption | congruence]].
    cbv beta. intros ? ? ? _ X. split; [discriminate | exact X].
Qed.

(** ** The library loop. The session version changes at a VERSION statement, so the loop is not an [ispec]:
    [LRs Post r] only says what holds of a returned value and state. *)
Definition LRs {A} (Post : A -> pst -> Prop) (r : res (A * pst)) : Prop :=
  match r with Ok (x, st') => Post x st' | _ => True end.

Lemma LRs_bind_iR {A B} (m : P A) (k : A -> P B) Q1 a (Post : B -> pst -> Prop) st :
  iR a (p_ver st) Q1 (m st) ->
  (forall x st1 c1 a1, a = c1 ++ a1 -> isees st1 a1 -> p_ver st1 = p_ver st -> Q1 x c1 a1 -> LRs Post (k x st1)) ->
  LRs Post (bind m k st).
Proof.
  intros H K. unfold bind. destruct (m st) as [[x st1]|e| | |]; try exact I.
  destruct H as (c1 & a1 & E & Hs1 & Hv1 & q). exact (K x st1 c1 a1 E Hs1 Hv1 q).
Qed.
Lemma LRs_bind {A B} (m : P A) (k : A -> P B) Q1 a (Post : B -> pst -> Prop) st :
  ispec m Q1 -> isees st a ->
  (forall x st1 c1 a1, a = c1 ++ a1 -> isees st1 a1 -> p_ver st1 = p_ver st -> Q1 x c1 a1 -> LRs Post (k x st1)) ->
  LRs Post (bind m k st).
Proof. intros S Hs K. eapply LRs_bind_iR; [exact (S st a Hs) | exact K]. Qed.
Lemma LRs_bind_LRs {A B} (m : P A) (k : A -> P B) (P1 : A -> pst -> Prop) (Post : B -> pst -> Prop) st :
  LRs P1 (m st) -> (forall x st1, P1 x st1 -> LRs Post (k x st1)) -> LRs Post (bind m k st).
Proof. intros H K. unfold bind. destruct (m st) as [[x st1]|e| | |]; try exact I. exact (K x st1 H). Qed.
Lemma LRs_get {B} (k : pst -> P B) (Post : B -> pst -> Prop) st : LRs Post (k st st) -> LRs Post (bind get k st).
Proof. exact (fun x => x). Qed.
Lemma LRs_ret_bind {A B} (x : A) (k : A -> P B) (Post : B -> pst -> Prop) st : LRs Post (k x st) -> LRs Post (bind (ret x) k st).
Proof. exact (fun x => x). Qed.
Lemma LRs_fail_msg {A} tp m (Post : A -> pst -> Prop) st : LRs Post (@fail_msg cf src A tp m st).
Proof. unfold fail_msg. destruct (state cf src st) as [[[[tk lc] line] pos]|]; exact I. Qed.
Lemma LRs_fail {A} tp (Post : A -> pst -> Prop) st : LRs Post (@fail cf src A tp st).
Proof. apply LRs_fail_msg. Qed.

Global Instance peek_key_ispec : ispec (peek_key cf src)
  (fun key c a' => c = [] /\ exists b r, a' = (TName, b) :: r /\ LefKey_parse b = Some key).
Proof.
  intros st a Hs.
  assert (E : bind (peek_key cf src) ret st = peek_key cf src st).
  { unfold bind, ret. destruct (peek_key cf src st) as [[? ?]|? | | |]; reflexivity. }
  rewrite <- E. istep. iret. subst. split; [reflexivity|]. eauto.
Qed.
Lemma txt_ispec : forall t b, substr src t = Some b -> ispec (txt src t) (fun s c a' => s = b /\ c = []).
Proof.
  intros t b H st a Hs. rewrite (txt_inv src t st b H). apply iR_ok; [exact Hs | reflexivity | split; reflexivity].
Qed.
Global Instance onoff_stmt_ispec : ispec (onoff_stmt cf src) (fun _ c a' => c <> []).
Proof. intros st a Hs. unfold onoff_stmt. istep. istep. iret. ne. Qed.

Ltac lstep :=
  cbv beta;
  lazymatch goal with
  | |- LRs _ (bind ?m ?k ?st) =>
    lazymatch m with
    | get => apply LRs_get
    | ret _ => apply LRs_ret_bind
    | when _ _ => unfold when
    | match ?x with _ => _ end => destruct x eqn:?
    | _ =>
      eapply LRs_bind; [typeclasses eauto | eassumption |
        let x := fresh "x" in let st1 := fresh "st" in let c1 := fresh "c" in let a1 := fresh "a" in
        let q := fresh "q" in intros x st1 c1 a1 ? ? ? q; cbv beta in q; try contradiction]
    end
  | |- LRs _ (fail _ _ _ _) => apply LRs_fail
  | |- LRs _ (fail_msg _ _ _ _ _) => apply LRs_fail_msg
  end.

(** VERSION: the returned number is the new session version *)
Lemma parse_version_LRs : forall st a, isees st a ->
  LRs (fun num st' => (exists a', isees st' a') /\ p_ver st' = num /\ dec_wf num /\ version_ok num = true)
      (parse_version cf src st).
Proof.
  intros st a Hs. unfold parse_version. lstep. lstep. lstep. lstep.
  destruct (version_ok x0) eqn:V; cbn [negb].
  - lstep. cbn [LRs]. split; [eexists; apply isees_with_ver; eassumption|]. split; [reflexivity|]. split; [apply q0 | exact V].
  - lstep.
Qed.

Definition lib_inv (v : dec) (lib : lef_lib) : Prop :=
  Forall macro_wr (lib_macros lib) /\ Forall site_wr (lib_sites lib) /\ Forall via_wr (lib_vias lib)
  /\ optP (fun x => dec_wf x /\ version_ok x = true) (lib_version lib)
  /\ (match lib_version lib with Some x => v = x | None => v = V5P8 end)
  /\ (dec_gt v V5P4 = true ->
      lib_names_case_sensitive lib = None /\ lib_no_wire_extension_at_pin lib = None
      /\ Forall (fun m => mac_source m = None) (lib_macros lib))
  /\ optP (fun c => chr_wr (fst c) /\ chr_wr (snd c)) (lib_bus_bit_chars lib)
  /\ optP chr_wr (lib_divider_char lib)
  /\ optP units_wr (lib_units lib)
  /\ Forall ext_wr (lib_extensions lib)
  /\ optP dec_wf (lib_manufacturing_grid lib)
  /\ Forall propdef_wr (lib_property_definitions lib).

Lemma lib_inv_wr : forall v l, lib_inv v l -> lib_wr l.
Proof.
  intros v l (A & B & C & D & E & F & G). unfold lib_wr. isplit; try assumption.
  - destruct (lib_version l); subst v; exact F.
  - apply G. - apply G. - apply G. - apply G. - apply G. - apply G.
Qed.
Lemma lib_inv_empty : lib_inv V5P8 empty_lib.
Proof. unfold lib_inv, empty_lib. cbn. isplit; auto. Qed.

Ltac lib_simpl :=
  cbn [set_lib_macros set_lib_sites set_lib_vias set_lib_version set_lib_names_case_sensitive
       set_lib_no_wire_extension_at_pin set_lib_bus_bit_chars set_lib_divider_char set_lib_units set_lib_fixed_mask
       set_lib_clearance_measure set_lib_extensions set_lib_manufacturing_grid set_lib_use_min_spacing
       set_lib_property_definitions
       lib_macros lib_sites lib_vias lib_version lib_names_case_sensitive lib_no_wire_extension_at_pin
       lib_bus_bit_chars lib_divider_char lib_units lib_fixed_mask lib_clearance_measure lib_extensions
       lib_manufacturing_grid lib_use_min_spacing lib_property_definitions optP fst snd].

(** the recursive call: the invariant of the extended library, at the same version *)
Ltac lfin IH Inv st :=
  eapply IH; [eassumption|];
  match goal with |- lib_inv (p_ver ?s) _ => replace (p_ver s) with (p_ver st) by congruence end;
  destruct Inv as (I1 & I2 & I3 & I4 & I5 & I6 & I7 & I8 & I9 & I10 & I11 & I12);
  unfold lib_inv; lib_simpl; isplit; auto.

Lemma lib_loop_inv : forall f lib st a, isees st a -> lib_inv (p_ver st) lib ->
  LRs (fun lib' _ => exists v', lib_inv v' lib') (lib_loop cf src f lib st).
Proof.
  induction f as [|f IH]; intros lib st a Hs Inv; [exact I|]. cbn [lib_loop].
  lstep.
  set (body := bind (peek_key cf src) _).
  assert (B : LRs (fun lib' _ => exists v', lib_inv v' lib') (body st)).
  { subst body. lstep. destruct q as (-> & b & r & -> & Kp). cbn [app] in *.
    destruct x; try apply LRs_fail.
    - (* VERSION *)
      lstep. lstep; [lstep|]. lstep.
      eapply LRs_bind_LRs; [eapply parse_version_LRs; eassumption|].
      cbv beta. intros num st1 ((a1 & Hs1) & Hv & Wf & Vok).
      eapply IH; [exact Hs1|]. rewrite Hv.
      destruct Inv as (I1 & I2 & I3 & I4 & I5 & I6 & I7 & I8 & I9 & I10 & I11 & I12).
      match goal with H : negb _ && _ = false |- _ => cbn [c_version_repeat cfg_fixed negb andb] in H end.
      destruct (lib_version lib) eqn:LV; [discriminate|].
      rewrite I5 in I6. specialize (I6 eq_refl). destruct I6 as (J1 & J2 & J3).
      unfold lib_inv. lib_simpl. isplit; auto.
    - (* NAMESCASESENSITIVE *)
      lstep. destruct (dec_gt (p_ver st) V5P4) eqn:G; [lstep|]. lstep. lstep. lstep.
      lfin IH Inv st. intros X. congruence.
    - (* NOWIREEXTENSIONATPIN *)
      cbn [c_nowire_ungated cfg_fixed negb andb].
      lstep. destruct (dec_gt (p_ver st) V5P4) eqn:G; [lstep|]. lstep. lstep. lstep.
      lfin IH Inv st. intros X. congruence.
    - (* MACRO *)
      match goal with Hs0 : isees ?s _ |- LRs _ (bind _ _ ?s) =>
        eapply LRs_bind_iR; [exact (parse_macro_ispecv s _ Hs0)|] end.
      cbv beta. intros m st1 c1 a1 E Hs1 Hv1 (Wm & Gm & N).
      lfin IH Inv st.
      + apply ILib_Forall_snoc; assumption.
      + intros X. destruct (I6 X) as (J1 & J2 & J3). isplit; auto. apply ILib_Forall_snoc; [exact J3|].
        destruct (mac_source m); [|reflexivity]. exfalso.
        assert (Y : dec_gt (p_ver st) V5P4 = false) by (rewrite <- Gm; [f_equal; congruence | discriminate]). congruence.
    - (* END LIBRARY *)
      lstep. lstep. change (exists v', lib_inv v' lib). exists (p_ver st). exact Inv.
    - (* VIA *) lstep. lfin IH Inv st. apply ILib_Forall_snoc; [assumption | apply q].
    - (* SITE *) lstep. lfin IH Inv st. apply ILib_Forall_snoc; [assumption | apply q].
    - (* BUSBITCHARS *) lstep. lfin IH Inv st; apply q.
    - (* DIVIDERCHAR *) lstep. lfin IH Inv st; apply q.
    - (* BEGINEXT *)
      lstep. lstep.
      match goal with q : exists x, _ = [x] /\ fst x = TString /\ _ |- _ => destruct q as ([tx bx] & -> & Ty & Sx & TF) end.
      cbn [fst snd] in Ty, Sx. subst tx.
      eapply LRs_bind; [apply (txt_ispec _ _ Sx) | eassumption|]. cbv beta. intros name stx cx ax Ex Hsx Hvx [-> ->].
      lstep. lstep.
      match goal with q : _ <> [] /\ (exists toks, _) |- _ => destruct q as (N & toks & -> & F) end.
      lfin IH Inv st. apply ILib_Forall_snoc; [assumption|]. split; cbn [ext_name ext_data].
      + cbn [app] in *. subst.
        match goal with TF : tok_fact _ (?c ++ _), N : ?c <> [] |- _ => destruct c; [congruence|]; exact (tok_fact_next _ _ _ TF) end.
      + exists toks. split; [reflexivity | exact F].
    - (* FIXEDMASK *) lstep. lstep. lfin IH Inv st.
    - (* USEMINSPACING *) lstep. lstep. lstep. lfin IH Inv st.
    - (* MANUFACTURINGGRID *) lstep. lstep. lstep. lfin IH Inv st. apply q0.
    - (* CLEARANCEMEASURE *) lstep. lstep. lstep. lfin IH Inv st.
    - (* UNITS *) lstep. lfin IH Inv st. apply q.
    - (* PROPERTYDEFINITIONS *) lstep. lfin IH Inv st. apply Forall_app. split; [assumption | apply q]. }
  destruct (peek_token st); [exact B|]. destruct (dec_ge (p_ver st) V5P6); [|exact B].
  change (exists v', lib_inv v' lib). exists (p_ver st). exact Inv.
Qed.

Lemma parse_lib_inv : forall st a, isees st a -> p_ver st = V5P8 ->
  LRs (fun lib' _ => exists v', lib_inv v' lib') (parse_lib cf src st).
Proof.
  intros st a Hs Hv. unfold parse_lib.
  assert (L : LRs (fun lib' _ => exists v', lib_inv v' lib')
                  (lib_loop cf src (fuel_of (with_ctx st (p_ctx st ++ [CtxLibrary]))) empty_lib (with_ctx st (p_ctx st ++ [CtxLibrary])))).
  { apply (lib_loop_inv _ _ _ a); [apply isees_with_ctx; exact Hs|].
    change (p_ver (with_ctx st (p_ctx st ++ [CtxLibrary]))) with (p_ver st). rewrite Hv. exact lib_inv_empty. }
  unfold bind at 1. unfold push. unfold bind at 1. unfold get. unfold bind at 1.
  destruct (lib_loop cf src (fuel_of (with_ctx st (p_ctx st ++ [CtxLibrary]))) empty_lib (with_ctx st (p_ctx st ++ [CtxLibrary])))
    as [[lib st1]|e| | |]; try exact I.
  exact L.
Qed.

(** ** The top theorem. The lexer image is proved elsewhere (Lef/LefILex_proofs.v). *)
Hypothesis lex_image : forall tis e, lex false src = (tis, e) -> exists a, Forall2 (sees_tok src) tis a /\ good a.

Theorem parse_image : forall l, parse cfg_fixed src = Ok l -> lib_wr l.
Proof.
  intros l H. unfold parse in H. cbn [c_charpos cfg_fixed] in H.
  assert (EL : exists toks e, lex false src = (toks, e)) by (destruct (lex false src); eauto).
  destruct EL as (toks & e & L). rewrite L in H.
  destruct (lex_image toks e L) as (a & F & G).
  destruct (lex_ok_gen _ _ _ Hsrc L) as (Fok & Eok & _).
  assert (Hs : isees (mkpst toks e V5P8 []) a).
  { split; [split; [exact Fok | exact Eok]|]. split; [exact F | exact G]. }
  pose proof (parse_lib_inv _ a Hs eq_refl) as PL.
  assert (X : match parse_lib cf src (mkpst toks e V5P8 []) with
              | Ok (l0, _) => Ok l0
              | Err er => Err er | Panic => Panic | OutOfFuel => OutOfFuel | Unmodelled => Unmodelled
              end = Ok l).
  { destruct toks as [|t ts]; [destruct e; try discriminate; exact H | exact H]. }
  destruct (parse_lib cf src (mkpst toks e V5P8 [])) as [[l0 st1]|er| | |]; try discriminate.
  injection X as <-. destruct PL as (v' & I'). exact (lib_inv_wr _ _ I').
Qed.

End ILib.

Check parse_property_definitions_ispec.
Check parse_bus_bit_chars_ispec.
Check parse_divider_char_ispec.
Check ext_loop_ispec.
Check parse_version_LRs.
Check lib_loop_inv.
Check parse_lib_inv.
Check parse_image.
Print Assumptions parse_property_definitions_ispec.
Print Assumptions parse_bus_bit_chars_ispec.
Print Assumptions parse_divider_char_ispec.
Print Assumptions ext_loop_ispec.
Print Assumptions lib_loop_inv.
Print Assumptions parse_image.
