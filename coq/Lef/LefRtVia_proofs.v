(** C04 / C05: success lemmas for VIA definitions (fixed and generated), over abstract tokens. *)
From Coq Require Import String.
From Coq Require Import ZArith List Bool Lia.
From L21 Require Import Lef.LefDec Lef.LefData Lef.LefLex Lef.LefParse Lef.LefSpec Lef.LefCheck
                        Lef.LefLex_proofs Lef.LefParse_proofs Lef.LefRtLex_proofs Lef.LefRtPerm_proofs Lef.LefRtFrame_proofs
                        Lef.LefRtConstr_proofs.
Import ListNotations.
Local Open Scope list_scope.
Local Open Scope Z_scope.

Section Via.
Variable src : bytes.
Hypothesis Hsrc : starts_on_boundary src = true.
Notation cf := cfg_fixed.
Notation spec := (spec src).
Notation post := (post src).
Notation sees := (sees src).

(** ** via shapes *)
(** `[MASK n]` in a via shape: what follows is a number (`parse_via_mask` fails on any keyword but MASK) *)
Lemma parse_via_mask_ok : forall m atoks, Forall2 arel (t_mask m) atoks ->
  spec (parse_via_mask cf src) atoks iter_follow (fun m' => option_eqb dec_eq m m' = true).
Proof.
  intros [d|] atoks F st rest MF Hs; unfold t_mask, K in F; inv_arel; cbn [app] in Hs; unfold parse_via_mask.
  - pstep. head_ty. pstep. keq. pstep. pret. deq.
  - destruct MF as (x & r & -> & Ty). pstep. rewrite (matches_cons src TName st x r Hs), Ty. cbn [ttype_eqb]. pret. reflexivity.
Qed.

Definition vshape_len_ok (s : lef_via_shape) : bool :=
  match s with VsRect _ _ _ => true | VsPolygon _ ps => Nat.leb 3 (List.length ps) end.

Lemma parse_via_shape_ok : forall s atoks, vshape_len_ok s = true -> Forall2 arel (t_via_shape s) atoks ->
  spec (parse_via_shape cf src) atoks Any (fun s' => lef_via_shape_eqb dec_eq s s' = true).
Proof.
  intros s atoks LO F st rest _ Hs.
  destruct s as [m a b|m ps]; cbn [t_via_shape vshape_len_ok] in *; unfold K in F; cbn [app] in F.
  - (* RECT *)
    apply LefRt_Forall2_cons_inv in F. destruct F as (akw & at' & -> & A & F).
    apply Forall2_app_inv_l in F. destruct F as (at_m & at2 & Fm & F2 & ->).
    apply Forall2_app_inv_l in F2. destruct F2 as (at_a & at3 & Fa & F3 & ->).
    apply Forall2_app_inv_l in F3. destruct F3 as (at_b & at_t & Fb & Ft & ->). inv_arel.
    cbn [app] in Hs. repeat rewrite <- app_assoc in Hs. cbn [app] in Hs. unfold parse_via_shape. pstep. cbv iota. pstep.
    pb (parse_via_mask_ok m at_m Fm).
    { unfold t_point in Fa. inv_arel. cbn [app]. eexists _, _. split; [reflexivity | exact (proj1 A1)]. }
    pb (parse_point_ok src a at_a Fa). pb (parse_point_ok src b at_b Fb). cbn [app] in *. pstep. pret. deq.
  - (* POLYGON *)
    apply LefRt_Forall2_cons_inv in F. destruct F as (akw & at' & -> & A & F).
    apply Forall2_app_inv_l in F. destruct F as (at_m & at2 & Fm & F2 & ->).
    apply Forall2_app_inv_l in F2. destruct F2 as (at_p & at_t & Fp & Ft & ->). inv_arel.
    cbn [app] in Hs. repeat rewrite <- app_assoc in Hs. cbn [app] in Hs. unfold parse_via_shape. pstep. cbv iota. pstep.
    apply Nat.leb_le in LO.
    pb (parse_via_mask_ok m at_m Fm).
    { apply (t_points_head ps); [lia | exact Fp]. }
    pb (parse_point_list_ok src ps at_p Fp).
    { cbn. rewrite A0. discriminate. }
    match goal with q : list_eqb _ ps _ = true |- _ => pose proof (list_eqb_length _ _ _ q) as EL end.
    unfold when.
    match goal with |- context [Nat.ltb (List.length ?l) 3] =>
      replace (Nat.ltb (List.length l) 3) with false by (symmetry; apply Nat.ltb_ge; lia) end.
    pstep. cbn [app] in *. pstep. pret. deq.
Qed.

(** ** a via LAYER block: `LAYER name ; shapes...`, up to LAYER / PROPERTY / END or the end of input *)
Definition via_follow (rest : list atok) : Prop :=
  rest = [] \/ exists x r, rest = x :: r /\ kw_in [K_Layer; K_Property; K_End] x.

Lemma t_via_shape_head : forall s atoks, Forall2 arel (t_via_shape s) atoks ->
  exists a at', atoks = a :: at' /\ kw_in [K_Rect; K_Polygon] a.
Proof.
  intros s atoks F.
  destruct s as [m x y|m ps]; cbn [t_via_shape] in F; cbn [app] in F; unfold K in F;
    apply LefRt_Forall2_cons_inv in F; destruct F as (a & at' & -> & A & _); exists a, at'; (split; [reflexivity|]);
    eexists _, _; (split; [exact A|]); (split; [vm_compute; reflexivity|]); cbn; auto.
Qed.

Lemma via_layer_loop_ok : forall L atL, Forall2 (sfacts t_via_shape vshape_len_ok) L atL -> forall f acc,
  spec (via_layer_loop cf src f acc) (concat atL)
       (fun rest => via_follow rest /\ (List.length (concat atL) + List.length rest < f)%nat)
       (fun l => exists l', l = acc ++ l' /\ list_eqb (lef_via_shape_eqb dec_eq) L l' = true).
Proof.
  induction L as [|x L IH]; intros atL FL f acc st rest [LF Lf] Hs.
  - inversion FL; subst. cbn [concat app] in *. destruct f as [|f]; [lia|]. cbn [via_layer_loop]. pstep.
    destruct LF as [->|(y & r & -> & s & k & A & Kf & Ik)].
    + rewrite (peek_token_nil src st Hs). pret. exists []. rewrite app_nil_r. split; reflexivity.
    + destruct (peek_token_cons src st y r Hs) as (t & -> & _).
      destruct (arel_kw_key _ _ _ A Kf) as [Ty Kp].
      eapply (post_peek_key src); [exact Hs | exact Ty | exact Kp |].
      destruct Ik as [<-|[<-|[<-|[]]]]; pret; exists []; rewrite app_nil_r; split; reflexivity.
  - inversion FL as [|x' at_x L' atL' [Fx Ox] FL']; subst. cbn [concat] in *. rewrite <- app_assoc in Hs.
    destruct f as [|f]; [lia|]. cbn [via_layer_loop]. pstep.
    rewrite app_length in Lf.
    destruct (t_via_shape_head x at_x Fx) as (a & at' & -> & s & k & A & Kf & Ik).
    cbn [app] in Hs. destruct (peek_token_cons src st a _ Hs) as (t & -> & _).
    destruct (arel_kw_key _ _ _ A Kf) as [Ty Kp].
    eapply (post_peek_key src); [exact Hs | exact Ty | exact Kp |].
    assert (G : post rest (p_ver st)
                  (fun l => exists l', l = acc ++ l' /\ list_eqb (lef_via_shape_eqb dec_eq) (x :: L) l' = true)
                  ((s0 <- parse_via_shape cf src;; via_layer_loop cf src f (acc ++ [s0])) st)).
    { pb (parse_via_shape_ok x (a :: at') Ox Fx).
      eapply post_weaken; [|eapply post_spec; [eapply (IH atL' FL' f) | split; [exact LF|] | eassumption | congruence]].
      * cbv beta. intros l (l' & -> & E). eexists (_ :: l'). rewrite <- app_assoc. split; [reflexivity|].
        cbn [list_eqb]. rewrite E. match goal with q : lef_via_shape_eqb _ _ _ = true |- _ => rewrite q end. reflexivity.
      * cbn [List.length] in Lf. lia. }
    destruct Ik as [<-|[<-|[]]]; exact G.
Qed.

Definition t_via_layer (l : lef_via_layer_geoms) : list stok :=
  [K "LAYER"; SName (vl_layer_name l); SSemi] ++ flat_map t_via_shape (vl_shapes l).
Definition vlayer_len_ok (l : lef_via_layer_geoms) : bool := forallb vshape_len_ok (vl_shapes l).

Lemma via_Forall_forallb {A} (f : A -> bool) : forall l, forallb f l = true -> Forall (fun x => f x = true) l.
Proof. intros l H. apply Forall_forall. apply forallb_forall. exact H. Qed.

Lemma parse_via_layer_ok : forall l atoks, vlayer_len_ok l = true -> Forall2 arel (t_via_layer l) atoks ->
  spec (parse_via_layer_geometries cf src) atoks via_follow (fun l' => lef_via_layer_geoms_eqb dec_eq l l' = true).
Proof.
  intros l atoks LO F st rest VF Hs. unfold t_via_layer, K in F. cbn [app] in F.
  apply LefRt_Forall2_cons_inv in F. destruct F as (a1 & at1 & -> & A1 & F).
  apply LefRt_Forall2_cons_inv in F. destruct F as (a2 & at2 & -> & A2 & F).
  apply LefRt_Forall2_cons_inv in F. destruct F as (a3 & at3 & -> & A3 & F).
  destruct (Forall2_flat_map_inv t_via_shape (vl_shapes l) at3 F) as (aL & -> & FL).
  pose proof (Forall2_sfacts t_via_shape vshape_len_ok _ aL FL (via_Forall_forallb _ _ LO)) as FS.
  cbn [app] in Hs. unfold parse_via_layer_geometries.
  pstep. pstep. pstep. pstep. pstep.
  lazymatch goal with |- LefRtFrame_proofs.post _ _ _ _ (bind (via_layer_loop _ _ (fuel_of ?s) ?acc) _ ?s') =>
    pb (via_layer_loop_ok (vl_shapes l) aL FS (fuel_of s) acc) end.
  { split; [exact VF|].
    match goal with Hx : sees ?s _ |- context [fuel_of ?s] => rewrite (fuel_of_sees src _ _ Hx) end.
    rewrite app_length. lia. }
  match goal with q : exists _, _ /\ _ = true |- _ => destruct q as (l' & -> & E) end.
  pstep. pret. unfold lef_via_layer_geoms_eqb. cbn. rewrite bytes_eqb_refl, E. reflexivity.
Qed.

(** ** the LAYER blocks of a fixed via; what follows is the keyword PROPERTY or END *)
Definition fixed_follow (rest : list atok) : Prop := exists x r, rest = x :: r /\ kw_in [K_Property; K_End] x.

Lemma fixed_via_layers_loop_ok : forall L atL, Forall2 (sfacts t_via_layer vlayer_len_ok) L atL -> forall f acc,
  spec (fixed_via_layers_loop cf src f acc) (concat atL)
       (fun rest => fixed_follow rest /\ (List.length (concat atL) + List.length rest < f)%nat)
       (fun l => exists l', l = acc ++ l' /\ list_eqb (lef_via_layer_geoms_eqb dec_eq) L l' = true).
Proof.
  induction L as [|x L IH]; intros atL FL f acc st rest [LF Lf] Hs.
  - inversion FL; subst. cbn [concat app] in *. destruct f as [|f]; [lia|]. cbn [fixed_via_layers_loop].
    destruct LF as (y & r & -> & s & k & A & Kf & Ik).
    destruct (arel_kw_key _ _ _ A Kf) as [Ty Kp].
    eapply (post_peek_key src); [exact Hs | exact Ty | exact Kp |].
    destruct Ik as [<-|[<-|[]]]; pret; exists []; rewrite app_nil_r; split; reflexivity.
  - inversion FL as [|x' at_x L' atL' [Fx Ox] FL']; subst. cbn [concat] in *. rewrite <- app_assoc in Hs.
    destruct f as [|f]; [lia|]. cbn [fixed_via_layers_loop].
    rewrite app_length in Lf.
    assert (HD : exists a at', at_x = a :: at' /\ arel (SKw "LAYER") a).
    { unfold t_via_layer, K in Fx. cbn [app] in Fx. apply LefRt_Forall2_cons_inv in Fx.
      destruct Fx as (a & at' & -> & A & _). exists a, at'. split; [reflexivity | exact A]. }
    destruct HD as (a & at' & -> & A). cbn [app] in Hs. pstep. cbv iota.
    pb (parse_via_layer_ok x (a :: at') Ox Fx).
    { destruct L as [|x2 L].
      - inversion FL'; subst. cbn [concat app]. destruct LF as (y & r & -> & s & k & A' & Kf & Ik).
        right. exists y, r. split; [reflexivity|]. exists s, k. split; [exact A'|]. split; [exact Kf|].
        destruct Ik as [<-|[<-|[]]]; cbn; auto.
      - inversion FL' as [|x2' at_x2 L2 atL2 [Fx2 Ox2] FL2]; subst. cbn [concat].
        unfold t_via_layer, K in Fx2. cbn [app] in Fx2. apply LefRt_Forall2_cons_inv in Fx2.
        destruct Fx2 as (a' & at'' & -> & A' & _). cbn [app]. right. eexists _, _. split; [reflexivity|].
        exists "LAYER"%string, K_Layer. split; [exact A'|]. split; [vm_compute; reflexivity | cbn; auto]. }
    eapply post_weaken; [|eapply post_spec; [eapply (IH atL' FL' f) | split; [exact LF|] | eassumption | congruence]].
    + cbv beta. intros l (l' & -> & E). eexists (_ :: l'). rewrite <- app_assoc. split; [reflexivity|].
      cbn [list_eqb]. rewrite E. match goal with q : lef_via_layer_geoms_eqb _ _ _ = true |- _ => rewrite q end. reflexivity.
    + cbn [List.length] in Lf. lia.
Qed.

(** ** generated vias: the statements after `VIARULE name ;` in any order *)
Inductive gstmt :=
| GsCutSize (x y : dec) | GsLayers (a b c : bytes) | GsCutSpacing (x y : dec) | GsEnclosure (a b c d : dec)
| GsRowCol (r : lef_rowcol) | GsOrigin (p : lef_point) | GsOffset (o : lef_offset).
Definition gs_kind (s : gstmt) : nat :=
  match s with GsCutSize _ _ => 0 | GsLayers _ _ _ => 1 | GsCutSpacing _ _ => 2 | GsEnclosure _ _ _ _ => 3
  | GsRowCol _ => 4 | GsOrigin _ => 5 | GsOffset _ => 6 end.
Definition gs_toks (s : gstmt) : list stok :=
  match s with
  | GsCutSize x y => [K "CUTSIZE"; SNum x; SNum y; SSemi]
  | GsLayers a b c => [K "LAYERS"; SName a; SName b; SName c; SSemi]
  | GsCutSpacing x y => [K "CUTSPACING"; SNum x; SNum y; SSemi]
  | GsEnclosure a b c d => [K "ENCLOSURE"; SNum a; SNum b; SNum c; SNum d; SSemi]
  | GsRowCol r => [K "ROWCOL"; SNum (rc_rows r); SNum (rc_cols r); SSemi]
  | GsOrigin p => [K "ORIGIN"] ++ t_point p ++ [SSemi]
  | GsOffset o => [K "OFFSET"; SNum (of_bot_x o); SNum (of_bot_y o); SNum (of_top_x o); SNum (of_top_y o); SSemi]
  end.
(** same statement up to the spelling of the numbers *)
Definition gs_eqb (s s' : gstmt) : bool :=
  match s, s' with
  | GsCutSize x y, GsCutSize x' y' => dec_eq x x' && dec_eq y y'
  | GsLayers a b c, GsLayers a' b' c' => bytes_eqb a a' && bytes_eqb b b' && bytes_eqb c c'
  | GsCutSpacing x y, GsCutSpacing x' y' => dec_eq x x' && dec_eq y y'
  | GsEnclosure a b c d, GsEnclosure a' b' c' d' => dec_eq a a' && dec_eq b b' && dec_eq c c' && dec_eq d d'
  | GsRowCol r, GsRowCol r' => lef_rowcol_eqb dec_eq r r'
  | GsOrigin p, GsOrigin p' => lef_point_eqb dec_eq p p'
  | GsOffset o, GsOffset o' => lef_offset_eqb dec_eq o o'
  | _, _ => false
  end.
(** the effect of a statement on the builder *)
Definition gs_apply (s : gstmt) (b : gv_builder) : gv_builder :=
  match s with
  | GsCutSize x y => mkgvb (Some (x, y)) (gb_layers b) (gb_cut_spacing b) (gb_enclosure b) (gb_rowcol b) (gb_origin b) (gb_offset b)
  | GsLayers l1 l2 l3 => mkgvb (gb_cut_size b) (Some (l1, l2, l3)) (gb_cut_spacing b) (gb_enclosure b) (gb_rowcol b) (gb_origin b) (gb_offset b)
  | GsCutSpacing x y => mkgvb (gb_cut_size b) (gb_layers b) (Some (x, y)) (gb_enclosure b) (gb_rowcol b) (gb_origin b) (gb_offset b)
  | GsEnclosure a b2 c d => mkgvb (gb_cut_size b) (gb_layers b) (gb_cut_spacing b) (Some (a, b2, c, d)) (gb_rowcol b) (gb_origin b) (gb_offset b)
  | GsRowCol r => mkgvb (gb_cut_size b) (gb_layers b) (gb_cut_spacing b) (gb_enclosure b) (Some r) (gb_origin b) (gb_offset b)
  | GsOrigin p => mkgvb (gb_cut_size b) (gb_layers b) (gb_cut_spacing b) (gb_enclosure b) (gb_rowcol b) (Some p) (gb_offset b)
  | GsOffset o => mkgvb (gb_cut_size b) (gb_layers b) (gb_cut_spacing b) (gb_enclosure b) (gb_rowcol b) (gb_origin b) (Some o)
  end.
Definition gstep (s : gstmt) (b b' : gv_builder) : Prop := exists s', gs_eqb s s' = true /\ b' = gs_apply s' b.

Definition via_end_head (rest : list atok) : Prop := exists x r, rest = x :: r /\ arel (SKw "END") x.

Lemma gen_via_loop_ok : forall L aL, Forall2 (fun x ax => Forall2 arel (gs_toks x) ax) L aL -> forall f b,
  spec (gen_via_loop cf src f b) (concat aL)
       (fun rest => via_end_head rest /\ (List.length (concat aL) + List.length rest < f)%nat)
       (fun b' => steps gstep L b b').
Proof.
  induction L as [|x L IH]; intros aL FL f b st rest [EH Lf] Hs.
  - inversion FL; subst. cbn [concat app] in *. destruct f as [|f]; [lia|]. cbn [gen_via_loop].
    destruct EH as (y & r & -> & A). pstep. cbv iota. pret. reflexivity.
  - inversion FL as [|x' ax L' aL' Fx FL']; subst. cbn [concat] in *. rewrite <- app_assoc in Hs.
    destruct f as [|f]; [lia|]. cbn [gen_via_loop]. rewrite app_length in Lf.
    destruct x as [x y|l1 l2 l3|x y|e1 e2 e3 e4|r|p|o]; unfold gs_toks, t_point, K in Fx; cbn [app] in Fx; inv_arel;
      cbn [app List.length] in *; pstep; cbv iota; pstep.
    + (* CUTSIZE *)
      pstep. pstep. pstep.
      eapply post_weaken; [|eapply post_spec; [eapply (IH aL' FL' f) | split; [exact EH | lia] | eassumption | congruence]].
      cbv beta. intros b' St. cbn [steps]. eexists. split; [|exact St]. eexists (GsCutSize _ _). split; [|reflexivity]. deq.
    + (* LAYERS *)
      pstep. pstep. pstep. pstep.
      eapply post_weaken; [|eapply post_spec; [eapply (IH aL' FL' f) | split; [exact EH | lia] | eassumption | congruence]].
      cbv beta. intros b' St. cbn [steps]. eexists. split; [|exact St]. eexists (GsLayers _ _ _). split; [|reflexivity].
      cbn [gs_eqb]. rewrite !bytes_eqb_refl. reflexivity.
    + (* CUTSPACING *)
      pstep. pstep. pstep.
      eapply post_weaken; [|eapply post_spec; [eapply (IH aL' FL' f) | split; [exact EH | lia] | eassumption | congruence]].
      cbv beta. intros b' St. cbn [steps]. eexists. split; [|exact St]. eexists (GsCutSpacing _ _). split; [|reflexivity]. deq.
    + (* ENCLOSURE *)
      pstep. pstep. pstep. pstep. pstep.
      eapply post_weaken; [|eapply post_spec; [eapply (IH aL' FL' f) | split; [exact EH | lia] | eassumption | congruence]].
      cbv beta. intros b' St. cbn [steps]. eexists. split; [|exact St]. eexists (GsEnclosure _ _ _ _). split; [|reflexivity]. deq.
    + (* ROWCOL *)
      pstep. pstep. pstep.
      eapply post_weaken; [|eapply post_spec; [eapply (IH aL' FL' f) | split; [exact EH | lia] | eassumption | congruence]].
      cbv beta. intros b' St. cbn [steps]. eexists. split; [|exact St]. eexists (GsRowCol _). split; [|reflexivity].
      unfold gs_eqb, lef_rowcol_eqb. deq.
    + (* ORIGIN *)
      match goal with A1 : arel (SNum (pt_x p)) ?x, A2 : arel (SNum (pt_y p)) ?y |- _ =>
        pb (parse_point_ok src p [x; y] ltac:(unfold t_point; constructor; [exact A1 | constructor; [exact A2 | constructor]])) end.
      pstep.
      eapply post_weaken; [|eapply post_spec; [eapply (IH aL' FL' f) | split; [exact EH | lia] | eassumption | congruence]].
      cbv beta. intros b' St. cbn [steps]. eexists. split; [|exact St]. eexists (GsOrigin _). split; [|reflexivity].
      cbn [gs_eqb]. assumption.
    + (* OFFSET *)
      pstep. pstep. pstep. pstep. pstep.
      eapply post_weaken; [|eapply post_spec; [eapply (IH aL' FL' f) | split; [exact EH | lia] | eassumption | congruence]].
      cbv beta. intros b' St. cbn [steps]. eexists. split; [|exact St]. eexists (GsOffset _). split; [|reflexivity].
      unfold gs_eqb, lef_offset_eqb. deq.
Qed.

Lemma gs_eqb_kind : forall s s', gs_eqb s s' = true -> gs_kind s' = gs_kind s.
Proof. intros s s' H. destruct s, s'; try discriminate H; reflexivity. Qed.
Lemma gs_apply_comm : forall x y b, gs_kind x <> gs_kind y -> gs_apply y (gs_apply x b) = gs_apply x (gs_apply y b).
Proof. intros x y b NK. destruct x, y; cbn [gs_kind] in NK; try congruence; reflexivity. Qed.
Lemma gstep_comm : forall x y s s2, gs_kind x <> gs_kind y ->
  (exists s1, gstep x s s1 /\ gstep y s1 s2) -> exists s1, gstep y s s1 /\ gstep x s1 s2.
Proof.
  intros x y s s2 NK (s1 & (x' & Ex & ->) & (y' & Ey & ->)).
  exists (gs_apply y' s). split; [exists y'; split; [exact Ey | reflexivity]|].
  exists x'. split; [exact Ex|]. apply gs_apply_comm. rewrite (gs_eqb_kind _ _ Ex), (gs_eqb_kind _ _ Ey). exact NK.
Qed.

Definition via_opt_list {A B} (f : A -> B) (o : option A) : list B := match o with Some x => [f x] | None => [] end.
Definition gen_canon (g : lef_gen_via) : list gstmt :=
  [GsCutSize (gv_cut_size_x g) (gv_cut_size_y g);
   GsLayers (gv_bot_metal_layer g) (gv_cut_layer g) (gv_top_metal_layer g);
   GsCutSpacing (gv_cut_spacing_x g) (gv_cut_spacing_y g);
   GsEnclosure (gv_bot_enc_x g) (gv_bot_enc_y g) (gv_top_enc_x g) (gv_top_enc_y g)]
  ++ via_opt_list GsRowCol (gv_rowcol g) ++ via_opt_list GsOrigin (gv_origin g) ++ via_opt_list GsOffset (gv_offset g).

Lemma gen_via_build_canon : forall g b', steps gstep (gen_canon g) (mkgvb None None None None None None None) b' ->
  exists g', gen_via_build (gv_via_rule_name g) b' = Ok g' /\ lef_gen_via_eqb dec_eq g g' = true.
Proof.
  intros g b' St. unfold gen_canon in St. cbn [app steps] in St.
  destruct St as (b1 & (s1 & E1 & ->) & b2 & (s2 & E2 & ->) & b3 & (s3 & E3 & ->) & b4 & (s4 & E4 & ->) & St).
  destruct s1; try discriminate E1. destruct s2; try discriminate E2. destruct s3; try discriminate E3.
  destruct s4; try discriminate E4. cbn [gs_eqb] in *.
  apply steps_app in St. destruct St as (c1 & St1 & St). apply steps_app in St. destruct St as (c2 & St2 & St3).
  assert (R1 : exists r', option_eqb (lef_rowcol_eqb dec_eq) (gv_rowcol g) r' = true /\ gb_rowcol c1 = r' /\
               gb_cut_size c1 = Some (x, y) /\ gb_layers c1 = Some (a, b, c) /\ gb_cut_spacing c1 = Some (x0, y0)
               /\ gb_enclosure c1 = Some (a0, b0, c0, d) /\ gb_origin c1 = None /\ gb_offset c1 = None).
  { destruct (gv_rowcol g) as [r|]; cbn [via_opt_list steps] in St1.
    - destruct St1 as (? & (s' & E & ->) & <-). destruct s'; try discriminate E. cbn in *. eexists (Some _). split; [exact E|]. repeat split.
    - subst c1. cbn. exists None. repeat split. }
  destruct R1 as (r' & Er & Gr & G1 & G2 & G3 & G4 & G5 & G6).
  assert (R2 : exists p', option_eqb (lef_point_eqb dec_eq) (gv_origin g) p' = true /\ gb_origin c2 = p' /\ gb_rowcol c2 = r' /\
               gb_cut_size c2 = Some (x, y) /\ gb_layers c2 = Some (a, b, c) /\ gb_cut_spacing c2 = Some (x0, y0)
               /\ gb_enclosure c2 = Some (a0, b0, c0, d) /\ gb_offset c2 = None).
  { destruct (gv_origin g) as [p|]; cbn [via_opt_list steps] in St2.
    - destruct St2 as (? & (s' & E & ->) & <-). destruct s'; try discriminate E. cbn in *. eexists (Some _). split; [exact E|]. repeat split; assumption.
    - subst c2. exists None. repeat split; assumption. }
  clear Gr G1 G2 G3 G4 G5 G6 St1 St2. destruct R2 as (p' & Ep & Gp & Gr & G1 & G2 & G3 & G4 & G6).
  assert (R3 : exists o', option_eqb (lef_offset_eqb dec_eq) (gv_offset g) o' = true /\ gb_offset b' = o' /\ gb_origin b' = p' /\ gb_rowcol b' = r' /\
               gb_cut_size b' = Some (x, y) /\ gb_layers b' = Some (a, b, c) /\ gb_cut_spacing b' = Some (x0, y0)
               /\ gb_enclosure b' = Some (a0, b0, c0, d)).
  { destruct (gv_offset g) as [o|]; cbn [via_opt_list steps] in St3.
    - destruct St3 as (? & (s' & E & ->) & <-). destruct s'; try discriminate E. cbn in *. eexists (Some _). split; [exact E|]. repeat split; assumption.
    - subst b'. exists None. repeat split; assumption. }
  destruct R3 as (o' & Eo & Ho & Hp & Hr & H1 & H2 & H3 & H4).
  unfold gen_via_build. rewrite H1, H2, H3, H4, Ho, Hp, Hr. eexists. split; [reflexivity|].
  unfold lef_gen_via_eqb. cbn.
  repeat match goal with H : _ && _ = true |- _ => apply andb_prop in H; destruct H end.
  rewrite bytes_eqb_refl.
  repeat match goal with H : _ = true |- _ => rewrite H end. reflexivity.
Qed.

(** ** `parse_via` *)
Lemma via_post_lift_ok {A B} (r : res A) (a : A) (k : A -> P B) rest v (Q : B -> Prop) st :
  r = Ok a -> post rest v Q (k a st) -> post rest v Q (bind (lift r) k st).
Proof. intros ->. exact (fun x => x). Qed.

Lemma via_kw_in_incl : forall l1 l2 x, (forall k, In k l1 -> In k l2) -> kw_in l1 x -> kw_in l2 x.
Proof. intros l1 l2 x I (s & k & A & Kf & Ik). exists s, k. auto. Qed.

(** the two bodies of a via definition, as they stand in `parse_via` *)
Definition pv_gen : P lef_via_data :=
  advance ;;;
  rule <- parse_ident cf src ;;
  expect_semi cf src ;;;
  st <- get ;;
  b <- gen_via_loop cf src (fuel_of st) (mkgvb None None None None None None None) ;;
  g <- lift (gen_via_build rule b) ;;
  ret (VdGenerated g).
Definition pv_fixed : P lef_via_data :=
  k2 <- peek_key cf src ;;
  res_ <- (if LefKey_eqb k2 K_Resistance then
             advance ;;; r <- parse_number cf src ;; expect_semi cf src ;;; ret (Some r)
           else ret None) ;;
  st <- get ;;
  layers <- fixed_via_layers_loop cf src (fuel_of st) [] ;;
  ret (VdFixed (Build_lef_fixed_via res_ layers)).
Lemma parse_via_unfold : parse_via cf src =
  (push CtxVia ;;;
   expect_key cf src K_Via ;;;
   name <- parse_ident cf src ;;
   k0 <- peek_key cf src ;;
   default <- (if LefKey_eqb k0 K_Default then advance ;;; ret true else ret false) ;;
   k1 <- peek_key cf src ;;
   data <- (if LefKey_eqb k1 K_ViaRule then pv_gen else pv_fixed) ;;
   k3 <- peek_key cf src ;;
   match k3 with
   | K_Property => fail cf src EtUnsupported
   | K_End => advance
   | _ => fail cf src EtInvalidKey
   end ;;;
   expect_ident cf src name ;;;
   pop ;;;
   ret (Build_lef_via_def name default data)).
Proof. reflexivity. Qed.

Definition gen_toks (g : lef_gen_via) (L : list gstmt) : list stok :=
  [K "VIARULE"; SName (gv_via_rule_name g); SSemi] ++ flat_map gs_toks L.
Definition fixed_toks (f : lef_fixed_via) : list stok :=
  (match fv_resistance_ohms f with Some r => [K "RESISTANCE"; SNum r; SSemi] | None => [] end)
  ++ flat_map t_via_layer (fv_layers f).

Lemma pv_gen_ok : forall g L atoks,
  (forall k, filter (fun x => Nat.eqb (gs_kind x) k) L = filter (fun x => Nat.eqb (gs_kind x) k) (gen_canon g)) ->
  Forall2 arel (gen_toks g L) atoks ->
  spec pv_gen atoks via_end_head (fun d => lef_via_data_eqb dec_eq (VdGenerated g) d = true).
Proof.
  intros g L atoks HF F st rest EH Hs. unfold gen_toks, K in F. cbn [app] in F.
  apply LefRt_Forall2_cons_inv in F. destruct F as (a1 & at1 & -> & A1 & F).
  apply LefRt_Forall2_cons_inv in F. destruct F as (a2 & at2 & -> & A2 & F).
  apply LefRt_Forall2_cons_inv in F. destruct F as (a3 & at3 & -> & A3 & F).
  destruct (Forall2_flat_map_inv gs_toks L at3 F) as (aL & -> & FL).
  cbn [app] in Hs. unfold pv_gen. pstep. pstep. pstep. pstep.
  lazymatch goal with |- LefRtFrame_proofs.post _ _ _ _ (bind (gen_via_loop _ _ (fuel_of ?s) ?b) _ ?s') =>
    pb (gen_via_loop_ok L aL FL (fuel_of s) b) end.
  { split; [exact EH|].
    match goal with Hx : sees ?s _ |- context [fuel_of ?s] => rewrite (fuel_of_sees src _ _ Hx) end.
    rewrite app_length. lia. }
  match goal with q : steps gstep L _ _ |- _ => rename q into St end.
  apply (steps_perm gs_kind gstep gstep_comm (gen_canon g) L HF) in St.
  destruct (gen_via_build_canon g _ St) as (g' & Eb & Eg).
  eapply via_post_lift_ok; [exact Eb|]. pret. exact Eg.
Qed.

Lemma fixed_head : forall f at_f rest, Forall2 arel (fixed_toks f) at_f -> fixed_follow rest ->
  exists x r, at_f ++ rest = x :: r /\ kw_in [K_Resistance; K_Layer; K_Property; K_End] x
              /\ (fv_resistance_ohms f = None -> kw_in [K_Layer; K_Property; K_End] x).
Proof.
  intros [res layers] at_f rest F FF. unfold fixed_toks in F. cbn [fv_resistance_ohms fv_layers] in *.
  destruct res as [r|].
  - unfold K in F. cbn [app] in F. apply LefRt_Forall2_cons_inv in F. destruct F as (a & at' & -> & A & _).
    cbn [app]. eexists _, _. split; [reflexivity|]. split; [|discriminate].
    exists "RESISTANCE"%string, K_Resistance. split; [exact A|]. split; [vm_compute; reflexivity | cbn; auto].
  - cbn [app] in F. destruct layers as [|l ls].
    + cbn in F. inv_arel. cbn [app]. destruct FF as (x & r & -> & KI). exists x, r. split; [reflexivity|].
      split; [|intros _]; (eapply via_kw_in_incl; [|exact KI]); cbn; tauto.
    + cbn [flat_map] in F. unfold t_via_layer at 1 in F. unfold K in F. cbn [app] in F.
      apply LefRt_Forall2_cons_inv in F. destruct F as (a & at' & -> & A & _).
      cbn [app]. eexists _, _. split; [reflexivity|].
      assert (KI : kw_in [K_Layer] a) by (exists "LAYER"%string, K_Layer; split; [exact A|]; split; [vm_compute; reflexivity | cbn; auto]).
      split; [|intros _]; (eapply via_kw_in_incl; [|exact KI]); cbn; tauto.
Qed.

Lemma pv_fixed_ok : forall f atoks, forallb vlayer_len_ok (fv_layers f) = true -> Forall2 arel (fixed_toks f) atoks ->
  spec pv_fixed atoks fixed_follow (fun d => lef_via_data_eqb dec_eq (VdFixed f) d = true).
Proof.
  intros f atoks LO F st rest FF Hs.
  destruct (fixed_head f atoks rest F FF) as (x & r & Ex & _ & KI).
  destruct f as [res layers]. unfold fixed_toks in F. cbn [fv_resistance_ohms fv_layers] in *.
  apply Forall2_app_inv_l in F. destruct F as (at_r & at_l & Fr & Fl & ->).
  destruct (Forall2_flat_map_inv t_via_layer layers at_l Fl) as (aL & -> & FL).
  pose proof (Forall2_sfacts t_via_layer vlayer_len_ok _ aL FL (via_Forall_forallb _ _ LO)) as FS.
  unfold pv_fixed.
  destruct res as [d|].
  - unfold K in Fr. inv_arel. cbn [app] in Hs. pstep. keq. repeat pstep.
    lazymatch goal with |- LefRtFrame_proofs.post _ _ _ _ (bind (fixed_via_layers_loop _ _ (fuel_of ?s) ?acc) _ ?s') =>
      pb (fixed_via_layers_loop_ok layers aL FS (fuel_of s) acc) end.
    { split; [exact FF|].
      match goal with Hx : sees ?s _ |- context [fuel_of ?s] => rewrite (fuel_of_sees src _ _ Hx) end.
      rewrite app_length. lia. }
    match goal with q : exists _, _ /\ _ = true |- _ => destruct q as (l' & -> & E) end.
    pret. unfold lef_via_data_eqb, lef_fixed_via_eqb. cbn [fv_resistance_ohms fv_layers option_eqb app]. rewrite E. deq.
  - inv_arel. cbn [app] in *. pose proof Hs as Hs'. rewrite Ex in Hs'.
    destruct (KI eq_refl) as (s & k & A & Kf & Ik). destruct (arel_kw_key _ _ _ A Kf) as [Ty Kp].
    eapply (post_peek_key src); [exact Hs' | exact Ty | exact Kp |].
    assert (G : post rest (p_ver st) (fun d => lef_via_data_eqb dec_eq (VdFixed (Build_lef_fixed_via None layers)) d = true)
                  ((res_ <- ret None;; st0 <- get;; layers0 <- fixed_via_layers_loop cf src (fuel_of st0) [];;
                    ret (VdFixed (Build_lef_fixed_via res_ layers0))) st)).
    { pstep. pstep.
      pb (fixed_via_layers_loop_ok layers aL FS (fuel_of st) []).
      { split; [exact FF|]. rewrite (fuel_of_sees src _ _ Hs). rewrite app_length. lia. }
      match goal with q : exists _, _ /\ _ = true |- _ => destruct q as (l' & -> & E) end.
      pret. unfold lef_via_data_eqb, lef_fixed_via_eqb. cbn [fv_resistance_ohms fv_layers option_eqb andb app]. exact E. }
    destruct Ik as [<-|[<-|[<-|[]]]]; exact G.
Qed.

(** after the name: DEFAULT or the first keyword of the body *)
Definition dflt_toks (d : bool) : list stok := if d then [K "DEFAULT"] else [].
Definition data_head (rest : list atok) : Prop :=
  exists x r, rest = x :: r /\ kw_in [K_ViaRule; K_Resistance; K_Layer; K_Property; K_End] x.

Lemma post_via_default {B} (d : bool) atoks rest1 (k : bool -> P B) st rest v (Q : B -> Prop) :
  Forall2 arel (dflt_toks d) atoks -> data_head rest1 -> sees st (atoks ++ rest1) ->
  (forall st1, sees st1 rest1 -> p_ver st1 = p_ver st -> post rest v Q (k d st1)) ->
  post rest v Q (bind (peek_key cf src)
                      (fun k0 => bind (if LefKey_eqb k0 K_Default then advance ;;; ret true else ret false) k) st).
Proof.
  intros F DH Hs Kk. destruct d; unfold dflt_toks, K in F; inv_arel; cbn [app] in Hs.
  - pstep. keq. pstep. pstep. pstep. apply Kk; [assumption | congruence].
  - destruct DH as (x & r & -> & s & k' & A & Kf & Ik). destruct (arel_kw_key _ _ _ A Kf) as [Ty Kp].
    eapply (post_peek_key src); [exact Hs | exact Ty | exact Kp |].
    destruct Ik as [<-|[<-|[<-|[<-|[<-|[]]]]]]; keq; pstep; (apply Kk; [assumption | reflexivity]).
Qed.

Definition via_hdr (v : lef_via_def) : list stok := [K "VIA"; SName (vd_name v)] ++ dflt_toks (vd_default v).
Definition via_end (v : lef_via_def) : list stok := [K "END"; SName (vd_name v)].
Definition via_struct_ok (v : lef_via_def) : bool :=
  match vd_data v with VdFixed f => forallb vlayer_len_ok (fv_layers f) | VdGenerated _ => true end.

(** the token sequences of a via definition, in general form: the statements of a generated via in any order,
    every polygon of a fixed via with at least three points *)
Definition via_toksP (v : lef_via_def) (atoks : list atok) : Prop :=
  via_struct_ok v = true /\
  match vd_data v with
  | VdGenerated g =>
    exists L, (forall k, filter (fun x => Nat.eqb (gs_kind x) k) L = filter (fun x => Nat.eqb (gs_kind x) k) (gen_canon g))
              /\ Forall2 arel (via_hdr v ++ gen_toks g L ++ via_end v) atoks
  | VdFixed f => Forall2 arel (via_hdr v ++ fixed_toks f ++ via_end v) atoks
  end.

Lemma via_toksP_head : forall v atoks, via_toksP v atoks -> exists a0 at', atoks = a0 :: at' /\ arel (SKw "VIA") a0.
Proof.
  intros v atoks (_ & H).
  assert (F : exists t, Forall2 arel (K "VIA" :: t) atoks).
  { destruct (vd_data v) as [f|g]; [|destruct H as (L & _ & H)]; unfold via_hdr in H; cbn [app] in H; eauto. }
  destruct F as (t & F). unfold K in F. apply LefRt_Forall2_cons_inv in F. destruct F as (a0 & at' & -> & A & _). eauto.
Qed.

Lemma via_tail_ok : forall name dflt data d' a1 a2 st rest v,
  arel (SKw "END") a1 -> arel (SName name) a2 -> sees st (a1 :: a2 :: rest) -> p_ver st = v ->
  lef_via_data_eqb dec_eq data d' = true ->
  post rest v (fun v' => lef_via_def_eqb dec_eq (Build_lef_via_def name dflt data) v' = true)
    ((k3 <- peek_key cf src ;;
      match k3 with
      | K_Property => fail cf src EtUnsupported
      | K_End => advance
      | _ => fail cf src EtInvalidKey
      end ;;;
      expect_ident cf src name ;;;
      pop ;;;
      ret (Build_lef_via_def name dflt d')) st).
Proof.
  intros name dflt data d' a1 a2 st rest v A1 A2 Hs Hv E.
  pstep. cbv iota. pstep. unfold expect_ident. pstep. pstep. rewrite bytes_eqb_refl. pstep. pstep. pret.
  unfold lef_via_def_eqb. cbn. rewrite bytes_eqb_refl, E. destruct dflt; reflexivity.
Qed.

Lemma parse_via_P : forall v atoks, via_toksP v atoks ->
  spec (parse_via cf src) atoks Any (fun v' => lef_via_def_eqb dec_eq v v' = true).
Proof.
  intros v atoks (SO & H) st rest _ Hs. destruct v as [name dflt data]. unfold via_struct_ok in SO.
  cbn [vd_data vd_name vd_default] in *. rewrite parse_via_unfold.
  destruct data as [f|g].
  - unfold via_hdr, via_end, K in H. cbn [vd_data vd_name vd_default] in H. repeat rewrite <- app_assoc in H. cbn [app] in H.
    apply LefRt_Forall2_cons_inv in H. destruct H as (a1 & at1 & -> & A1 & H).
    apply LefRt_Forall2_cons_inv in H. destruct H as (a2 & at2 & -> & A2 & H).
    apply Forall2_app_inv_l in H. destruct H as (at_d & at3 & Fd & H & ->).
    apply Forall2_app_inv_l in H. destruct H as (at_f & at4 & Ff & H & ->). inv_arel.
    assert (FF : fixed_follow ([a; a0] ++ rest)).
    { eexists _, _. split; [reflexivity|]. exists "END"%string, K_End. split; [exact A|]. split; [vm_compute; reflexivity | cbn; auto]. }
    destruct (fixed_head f at_f _ Ff FF) as (x & r & Ex & KI & _).
    cbn [app] in Hs. repeat rewrite <- app_assoc in Hs. cbn [app] in Hs.
    pstep. pstep. pstep.
    eapply (post_via_default dflt at_d); [exact Fd | | eassumption |].
    { cbn [app] in Ex. rewrite Ex. exists x, r. split; [reflexivity|]. eapply via_kw_in_incl; [|exact KI]. cbn; tauto. }
    intros std Hsd Hvd. pose proof Hsd as Hsd'. cbn [app] in Ex. rewrite Ex in Hsd'.
    destruct KI as (s & k & A' & Kf & Ik). destruct (arel_kw_key _ _ _ A' Kf) as [Ty Kp].
    eapply (post_peek_key src); [exact Hsd' | exact Ty | exact Kp |].
    assert (G : post rest (p_ver st) (fun v' => lef_via_def_eqb dec_eq (Build_lef_via_def name dflt (VdFixed f)) v' = true)
                  ((data <- pv_fixed;;
                    k3 <- peek_key cf src;;
                    match k3 with
                    | K_Property => fail cf src EtUnsupported
                    | K_End => advance
                    | _ => fail cf src EtInvalidKey
                    end;;; expect_ident cf src name;;; pop;;; ret (Build_lef_via_def name dflt data)) std)).
    { pb (pv_fixed_ok f at_f SO Ff); [exact FF|].
      cbn [app] in *. eapply via_tail_ok; try eassumption. congruence. }
    destruct Ik as [<-|[<-|[<-|[<-|[]]]]]; exact G.
  - destruct H as (L & HF & H).
    unfold via_hdr, via_end, K in H. cbn [vd_data vd_name vd_default] in H. repeat rewrite <- app_assoc in H. cbn [app] in H.
    apply LefRt_Forall2_cons_inv in H. destruct H as (a1 & at1 & -> & A1 & H).
    apply LefRt_Forall2_cons_inv in H. destruct H as (a2 & at2 & -> & A2 & H).
    apply Forall2_app_inv_l in H. destruct H as (at_d & at3 & Fd & H & ->).
    apply Forall2_app_inv_l in H. destruct H as (at_g & at4 & Fg & H & ->). inv_arel.
    assert (EH : via_end_head ([a; a0] ++ rest)) by (eexists _, _; split; [reflexivity | exact A]).
    assert (HD : exists x r, at_g = x :: r /\ arel (SKw "VIARULE") x).
    { unfold gen_toks, K in Fg. cbn [app] in Fg. apply LefRt_Forall2_cons_inv in Fg. destruct Fg as (x & r & -> & Ax & _). eauto. }
    destruct HD as (x & r & Ex & Ax).
    cbn [app] in Hs. repeat rewrite <- app_assoc in Hs. cbn [app] in Hs.
    pstep. pstep. pstep.
    eapply (post_via_default dflt at_d); [exact Fd | | eassumption |].
    { rewrite Ex. cbn [app]. eexists _, _. split; [reflexivity|]. exists "VIARULE"%string, K_ViaRule.
      split; [exact Ax|]. split; [vm_compute; reflexivity | cbn; auto]. }
    intros std Hsd Hvd. pose proof Hsd as Hsd'. rewrite Ex in Hsd'. cbn [app] in Hsd'.
    pstep. keq.
    pb (pv_gen_ok g L at_g HF Fg); [exact EH|].
    cbn [app] in *. eapply via_tail_ok; try eassumption. congruence.
Qed.

Lemma via_toksP_spec : forall sty off v atoks, via_def_ok v = true ->
  Forall2 arel (t_via_def sty off v) atoks -> via_toksP v atoks.
Proof.
  intros sty off [name dflt data] atoks OK F. unfold via_def_ok in OK. cbn [vd_name vd_data] in OK.
  apply andb_prop in OK. destruct OK as [_ OK].
  destruct data as [f|g].
  - split.
    + unfold via_struct_ok. cbn [vd_data]. apply andb_prop in OK. destruct OK as [_ OK].
      rewrite forallb_forall in *. intros l Hl. specialize (OK l Hl). apply andb_prop in OK. destruct OK as [_ OK].
      unfold vlayer_len_ok. rewrite forallb_forall in *. intros s Hs. specialize (OK s Hs).
      destruct s; [reflexivity|]. cbn [via_shape_ok vshape_len_ok] in *. apply andb_prop in OK. exact (proj2 OK).
    + cbn [vd_data]. exact F.
  - split; [reflexivity|]. cbn [vd_data].
    set (L := interleave (sty_keys sty) off (map (fun x => (gs_kind x, x)) (gen_canon g))).
    exists L. split; [intros k; apply interleave_kind_stable|].
    unfold t_via_def in F. cbn [vd_name vd_default vd_data] in F.
    match type of F with context [List.concat (interleave ?k ?o ?it)] =>
      assert (E : List.concat (interleave k o it) = flat_map gs_toks L) end.
    { unfold L. rewrite <- concat_map_flat_map, <- interleave_map. f_equal. f_equal. unfold gen_canon.
      destruct (gv_rowcol g), (gv_origin g), (gv_offset g); reflexivity. }
    rewrite E in F. exact F.
Qed.
End Via.

Print Assumptions parse_via_P.
Print Assumptions via_toksP_spec.
