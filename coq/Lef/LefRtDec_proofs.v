(** Every spelling of a decimal that [LefSpec.spell] can produce is read back by
    [LefDec.dec_of_bytes] as the same number, is accepted by the lexer's number test, and is a
    non-empty string over 0-9 . -                                                              *)
From Coq Require Import ZArith List Bool Lia.
From L21 Require Import Lef.LefDec Lef.LefData Lef.LefLex Lef.LefSpec.
Import ListNotations.
Local Open Scope Z_scope.

Definition num_char (b : Z) : bool := is_digit_b b || (b =? 46) || (b =? 45).

(** * Digit strings *)
Lemma LefRtDec_pow28_two96 : 10 ^ 28 < two96.
Proof. vm_compute. reflexivity. Qed.

Lemma LefRtDec_all_digits_cons : forall b s,
  all_digits (b :: s) = true <-> is_digit_b b = true /\ all_digits s = true.
Proof. intros. unfold all_digits. cbn [forallb]. apply andb_true_iff. Qed.

Lemma LefRtDec_all_digits_app : forall s t,
  all_digits (s ++ t) = true <-> all_digits s = true /\ all_digits t = true.
Proof. intros. unfold all_digits. rewrite forallb_app. apply andb_true_iff. Qed.

Lemma LefRtDec_digit_range : forall b, is_digit_b b = true <-> 48 <= b <= 57.
Proof. intros. unfold is_digit_b. rewrite andb_true_iff, !Z.leb_le. tauto. Qed.

Lemma LefRtDec_dv_cons : forall a b s, digits_val a (b :: s) = digits_val (a * 10 + (b - 48)) s.
Proof. reflexivity. Qed.

Lemma LefRtDec_dv_nil : forall a, digits_val a [] = a.
Proof. reflexivity. Qed.

Lemma LefRtDec_dv_app : forall s t a, digits_val a (s ++ t) = digits_val (digits_val a s) t.
Proof.
  induction s as [|b s IH]; intros t a.
  - reflexivity.
  - rewrite <- app_comm_cons, !LefRtDec_dv_cons. apply IH.
Qed.

Lemma LefRtDec_dv_mono : forall s a, all_digits s = true -> 0 <= a -> a <= digits_val a s.
Proof.
  induction s as [|b s IH]; intros a Hs Ha.
  - rewrite LefRtDec_dv_nil. lia.
  - apply LefRtDec_all_digits_cons in Hs. destruct Hs as [Hb Hs].
    apply LefRtDec_digit_range in Hb. rewrite LefRtDec_dv_cons.
    assert (H : a * 10 + (b - 48) <= digits_val (a * 10 + (b - 48)) s) by (apply IH; [assumption | lia]).
    lia.
Qed.

(** * One step of the parser *)
Lemma LefRtDec_step_np : forall big neg has first data scale b rest,
  is_digit_b b = true -> data * 10 + (b - 48) < two96 ->
  parse10_loop big neg false has first data scale (b :: rest) =
  parse10_loop big neg false true false (data * 10 + (b - 48)) 0 rest.
Proof.
  intros big neg has first data scale b rest Hb Hlt. cbn [parse10_loop]. rewrite Hb.
  destruct (Z.leb_spec two96 (data * 10 + (b - 48))) as [Hge|_]; [lia|].
  destruct rest; reflexivity.
Qed.

Lemma LefRtDec_step_p : forall big neg has first data scale b rest,
  is_digit_b b = true -> data * 10 + (b - 48) < two96 -> rest <> [] -> scale + 1 < 28 ->
  parse10_loop big neg true has first data scale (b :: rest) =
  parse10_loop big neg true true false (data * 10 + (b - 48)) (scale + 1) rest.
Proof.
  intros big neg has first data scale b rest Hb Hlt Hr Hs. cbn [parse10_loop]. rewrite Hb.
  destruct (Z.leb_spec two96 (data * 10 + (b - 48))) as [Hge|_]; [lia|].
  destruct rest as [|n rest']; [contradiction|].
  replace (28 <=? scale + 1) with false by (symmetry; apply Z.leb_gt; lia).
  rewrite andb_false_r. reflexivity.
Qed.

Lemma LefRtDec_step_last : forall big neg has first data scale b,
  is_digit_b b = true -> data * 10 + (b - 48) < two96 ->
  parse10_loop big neg true has first data scale [b] =
  DOk (mkdec (neg && negb (data * 10 + (b - 48) =? 0)) (data * 10 + (b - 48)) (scale + 1)).
Proof.
  intros big neg has first data scale b Hb Hlt. cbn [parse10_loop]. rewrite Hb.
  destruct (Z.leb_spec two96 (data * 10 + (b - 48))) as [Hge|_]; [lia|].
  reflexivity.
Qed.

Lemma LefRtDec_step_dot : forall big neg has first data scale rest,
  parse10_loop big neg false has first data scale (46 :: rest) =
  parse10_loop big neg true has false data scale rest.
Proof. reflexivity. Qed.

Lemma LefRtDec_step_minus : forall big data scale rest,
  parse10_loop big false false false true data scale (45 :: rest) =
  parse10_loop big true false false false data scale rest.
Proof. reflexivity. Qed.

(** * Digit runs *)
Lemma LefRtDec_loop_int : forall I big neg has first data scale T,
  I <> [] -> all_digits I = true -> 0 <= data -> digits_val data I < two96 ->
  parse10_loop big neg false has first data scale (I ++ T) =
  parse10_loop big neg false true false (digits_val data I) 0 T.
Proof.
  induction I as [|b I IH]; intros big neg has first data scale T Hne Hd H0 Hlt.
  - contradiction.
  - apply LefRtDec_all_digits_cons in Hd. destruct Hd as [Hb Hd].
    rewrite LefRtDec_dv_cons in *.
    assert (Hb' := Hb). apply LefRtDec_digit_range in Hb'.
    assert (Hm : data * 10 + (b - 48) <= digits_val (data * 10 + (b - 48)) I)
      by (apply LefRtDec_dv_mono; [assumption | lia]).
    rewrite <- app_comm_cons, LefRtDec_step_np by (assumption || lia).
    destruct I as [|c I'].
    + reflexivity.
    + apply IH; try assumption; try lia. discriminate.
Qed.

Lemma LefRtDec_loop_frac : forall F big neg has first data scale,
  F <> [] -> all_digits F = true -> 0 <= data -> digits_val data F < two96 ->
  scale + Z.of_nat (length F) <= 28 ->
  parse10_loop big neg true has first data scale F =
  DOk (mkdec (neg && negb (digits_val data F =? 0)) (digits_val data F) (scale + Z.of_nat (length F))).
Proof.
  induction F as [|b F IH]; intros big neg has first data scale Hne Hd H0 Hlt Hs.
  - contradiction.
  - apply LefRtDec_all_digits_cons in Hd. destruct Hd as [Hb Hd].
    rewrite LefRtDec_dv_cons in *.
    assert (Hb' := Hb). apply LefRtDec_digit_range in Hb'.
    assert (Hm : data * 10 + (b - 48) <= digits_val (data * 10 + (b - 48)) F)
      by (apply LefRtDec_dv_mono; [assumption | lia]).
    destruct F as [|c F'].
    + rewrite LefRtDec_dv_nil in *. rewrite LefRtDec_step_last by assumption. reflexivity.
    + assert (Hl : Z.of_nat (length (b :: c :: F')) = 1 + Z.of_nat (length (c :: F')))
        by (cbn [length]; lia).
      rewrite Hl in *.
      assert (Hl2 : 1 <= Z.of_nat (length (c :: F'))) by (cbn [length]; lia).
      rewrite LefRtDec_step_p by (assumption || lia || discriminate).
      rewrite IH by (assumption || lia || discriminate).
      rewrite Z.add_assoc. reflexivity.
Qed.

Lemma LefRtDec_loop_body : forall big neg first I F (dot : bool),
  all_digits I = true -> all_digits F = true -> (I <> [] \/ F <> []) -> (dot = false -> F = []) ->
  digits_val 0 (I ++ F) < two96 -> Z.of_nat (length F) <= 28 ->
  parse10_loop big neg false false first 0 0 (I ++ (if dot then 46 :: F else [])) =
  DOk (mkdec (neg && negb (digits_val 0 (I ++ F) =? 0)) (digits_val 0 (I ++ F)) (Z.of_nat (length F))).
Proof.
  intros big neg first I F dot HI HF Hne Hdot Hlt Hlen.
  rewrite LefRtDec_dv_app in *.
  assert (HvI : 0 <= digits_val 0 I) by (apply LefRtDec_dv_mono; [assumption | lia]).
  assert (HvF : digits_val 0 I <= digits_val (digits_val 0 I) F) by (apply LefRtDec_dv_mono; assumption).
  destruct I as [|b I'].
  - destruct Hne as [Hne|Hne]; [contradiction|].
    destruct dot; [|rewrite Hdot in Hne by reflexivity; contradiction].
    cbn [app]. rewrite LefRtDec_step_dot.
    rewrite LefRtDec_loop_frac by (assumption || lia). reflexivity.
  - rewrite LefRtDec_loop_int by (assumption || lia || discriminate).
    destruct dot.
    + rewrite LefRtDec_step_dot. destruct F as [|c F'].
      * reflexivity.
      * rewrite LefRtDec_loop_frac by (assumption || lia || discriminate). reflexivity.
    + rewrite Hdot by reflexivity. reflexivity.
Qed.

Lemma LefRtDec_parse_shape : forall (neg : bool) I F (dot : bool),
  all_digits I = true -> all_digits F = true -> (I <> [] \/ F <> []) -> (dot = false -> F = []) ->
  digits_val 0 (I ++ F) < two96 -> Z.of_nat (length F) <= 28 ->
  parse10 ((if neg then [45] else []) ++ I ++ (if dot then 46 :: F else [])) =
  DOk (mkdec (neg && negb (digits_val 0 (I ++ F) =? 0)) (digits_val 0 (I ++ F)) (Z.of_nat (length F))).
Proof.
  intros neg I F dot HI HF Hne Hdot Hlt Hlen.
  assert (H : forall big,
    parse10_loop big false false false true 0 0
      ((if neg then [45] else []) ++ I ++ (if dot then 46 :: F else [])) =
    DOk (mkdec (neg && negb (digits_val 0 (I ++ F) =? 0)) (digits_val 0 (I ++ F)) (Z.of_nat (length F)))).
  { intros big. destruct neg; cbn [app].
    - rewrite LefRtDec_step_minus. apply LefRtDec_loop_body; assumption.
    - apply LefRtDec_loop_body; assumption. }
  destruct ((if neg then [45] else []) ++ I ++ (if dot then 46 :: F else [])) as [|z l] eqn:E.
  - specialize (H true). discriminate H.
  - unfold parse10. apply H.
Qed.

(** * The digit strings written by [spell] *)
Lemma LefRtDec_rep0_digits : forall k, all_digits (rep0 k) = true.
Proof. induction k as [|k IH]; [reflexivity|]. cbn [rep0]. apply LefRtDec_all_digits_cons. split; [reflexivity | exact IH]. Qed.

Lemma LefRtDec_rep0_length : forall k, length (rep0 k) = k.
Proof. induction k as [|k IH]; [reflexivity|]. cbn [rep0 length]. rewrite IH. reflexivity. Qed.

Lemma LefRtDec_rep0_val : forall k a, digits_val a (rep0 k) = a * 10 ^ Z.of_nat k.
Proof.
  induction k as [|k IH]; intros a.
  - change (Z.of_nat 0) with 0. rewrite Z.pow_0_r. cbn [rep0]. rewrite LefRtDec_dv_nil. lia.
  - cbn [rep0]. rewrite LefRtDec_dv_cons, IH, Nat2Z.inj_succ, Z.pow_succ_r by lia. lia.
Qed.

Lemma LefRtDec_nat_digits_spec : forall fuel n acc, 0 <= n < 10 ^ Z.of_nat fuel ->
  exists D, nat_digits fuel n acc = D ++ acc /\ all_digits D = true /\
    (forall a, digits_val a D = a * 10 ^ Z.of_nat (length D) + n) /\
    (forall k, 1 <= k -> n < 10 ^ k -> Z.of_nat (length D) <= k) /\
    n < 10 ^ Z.of_nat (length D) /\ (fuel <> O -> D <> []).
Proof.
  induction fuel as [|f IH]; intros n acc Hn.
  - exists []. change (Z.of_nat 0) with 0 in Hn. rewrite Z.pow_0_r in Hn.
    cbn [length]. change (Z.of_nat 0) with 0. rewrite Z.pow_0_r.
    split; [reflexivity|]. split; [reflexivity|].
    split; [intros a; rewrite LefRtDec_dv_nil; lia|].
    split; [intros; lia|]. split; [lia|]. intros H; congruence.
  - cbn [nat_digits]. destruct (Z.ltb_spec n 10) as [Hlt|Hge].
    + exists [48 + n]. cbn [length]. change (Z.of_nat 1) with 1. rewrite Z.pow_1_r.
      split; [reflexivity|].
      split. { apply LefRtDec_all_digits_cons. split; [apply LefRtDec_digit_range; lia | reflexivity]. }
      split. { intros a. rewrite LefRtDec_dv_cons, LefRtDec_dv_nil. lia. }
      split; [intros; lia|]. split; [lia|]. intros _; discriminate.
    + rewrite Nat2Z.inj_succ, Z.pow_succ_r in Hn by lia.
      pose proof (Z.div_mod n 10 ltac:(lia)) as Hdm.
      pose proof (Z.mod_pos_bound n 10 ltac:(lia)) as Hmb.
      assert (Hq : 0 <= n / 10 < 10 ^ Z.of_nat f) by lia.
      destruct (IH (n / 10) ((48 + n mod 10) :: acc) Hq) as (D & E & HD & HV & HK & HU & _).
      exists (D ++ [48 + n mod 10]).
      assert (Hlen : Z.of_nat (length (D ++ [48 + n mod 10])) = Z.of_nat (length D) + 1)
        by (rewrite app_length; cbn [length]; lia).
      rewrite Hlen. rewrite Z.pow_add_r, Z.pow_1_r by lia.
      split. { rewrite E, <- app_assoc. reflexivity. }
      split. { apply LefRtDec_all_digits_app. split; [assumption|].
               apply LefRtDec_all_digits_cons. split; [apply LefRtDec_digit_range; lia | reflexivity]. }
      split. { intros a. rewrite LefRtDec_dv_app, HV, LefRtDec_dv_cons, LefRtDec_dv_nil. lia. }
      split. { intros k Hk Hnk. destruct (Z.eq_dec k 1) as [->|Hk1].
               - rewrite Z.pow_1_r in Hnk. lia.
               - replace k with (Z.succ (k - 1)) in Hnk by lia. rewrite Z.pow_succ_r in Hnk by lia.
                 assert (Z.of_nat (length D) <= k - 1) by (apply HK; lia). lia. }
      split; [lia|]. intros _ Hnil. apply app_eq_nil in Hnil. destruct Hnil as [_ Hnil]. discriminate.
Qed.

Lemma LefRtDec_int_digits_spec : forall n, 0 <= n < 10 ^ 28 ->
  all_digits (int_digits n) = true /\ int_digits n <> [] /\
  (forall a, digits_val a (int_digits n) = a * 10 ^ Z.of_nat (ndigits n) + n) /\
  (forall k, 1 <= k -> n < 10 ^ k -> Z.of_nat (ndigits n) <= k) /\
  n < 10 ^ Z.of_nat (ndigits n).
Proof.
  intros n Hn. unfold ndigits, int_digits.
  assert (H40 : 10 ^ 28 < 10 ^ Z.of_nat 40) by (vm_compute; reflexivity).
  destruct (LefRtDec_nat_digits_spec 40 n [] ltac:(lia)) as (D & E & HD & HV & HK & HU & HN).
  rewrite E, app_nil_r. repeat split; try assumption; try apply HU. apply HN. discriminate.
Qed.

(** * [spell] taken apart *)
Definition LefRtDec_frac0 (s fp : Z) : bytes :=
  match Z.to_nat s with O => [] | _ => rep0 (Z.to_nat s - ndigits fp) ++ int_digits fp end.
Definition LefRtDec_room (s m : Z) : nat :=
  Nat.min (28 - Z.to_nat s) (28 - Nat.max (ndigits m) (Z.to_nat s)).
Definition LefRtDec_body (sp : numsp) (intp0 frac : bytes) (ipz : bool) : bytes :=
  let intp := if ns_drop_zero sp && ipz && negb (match frac with [] => true | _ => false end)
              then [] else intp0 in
  match frac with
  | [] => if ns_trail_dot sp then intp ++ [46] else intp
  | _ => intp ++ [46] ++ frac
  end.

Lemma LefRtDec_spell_eq : forall sp d,
  spell sp d =
  (if d_neg d then [45] else []) ++
  LefRtDec_body sp (rep0 (ns_lead_zeros sp) ++ int_digits (d_mant d / 10 ^ d_scale d))
    (LefRtDec_frac0 (d_scale d) (d_mant d mod 10 ^ d_scale d) ++
     rep0 (Nat.min (ns_trail_zeros sp) (LefRtDec_room (d_scale d) (d_mant d))))
    (d_mant d / 10 ^ d_scale d =? 0).
Proof. intros sp d. unfold spell. destruct (d_neg d); reflexivity. Qed.

Lemma LefRtDec_body_shape : forall sp intp0 frac ipz,
  exists I (dot : bool), LefRtDec_body sp intp0 frac ipz = I ++ (if dot then 46 :: frac else []) /\
    (I = intp0 \/ (I = [] /\ ipz = true /\ frac <> [])) /\ (dot = false -> frac = []).
Proof.
  intros sp intp0 frac ipz. unfold LefRtDec_body. destruct frac as [|c fr].
  - cbn [negb]. rewrite andb_false_r. destruct (ns_trail_dot sp).
    + exists intp0, true. split; [reflexivity|]. split; [left; reflexivity | discriminate].
    + exists intp0, false. split; [symmetry; apply app_nil_r|]. split; [left|]; reflexivity.
  - destruct (ns_drop_zero sp); destruct ipz; cbn [andb negb].
    + exists [], true. split; [reflexivity|]. split; [right | discriminate].
      split; [reflexivity|]. split; [reflexivity | discriminate].
    + exists intp0, true. split; [reflexivity|]. split; [left; reflexivity | discriminate].
    + exists intp0, true. split; [reflexivity|]. split; [left; reflexivity | discriminate].
    + exists intp0, true. split; [reflexivity|]. split; [left; reflexivity | discriminate].
Qed.

Lemma LefRtDec_frac0_spec : forall s fp, 0 <= s <= 28 -> 0 <= fp < 10 ^ s ->
  all_digits (LefRtDec_frac0 s fp) = true /\ Z.of_nat (length (LefRtDec_frac0 s fp)) = s /\
  forall a, digits_val a (LefRtDec_frac0 s fp) = a * 10 ^ s + fp.
Proof.
  intros s fp Hs Hfp. unfold LefRtDec_frac0. destruct (Z.to_nat s) as [|k] eqn:E.
  - assert (s = 0) by lia. subst s. rewrite Z.pow_0_r in *.
    split; [reflexivity|]. split; [reflexivity|]. intros a. rewrite LefRtDec_dv_nil. lia.
  - assert (Hs1 : 1 <= s) by lia.
    assert (H28 : 10 ^ s <= 10 ^ 28) by (apply Z.pow_le_mono_r; lia).
    destruct (LefRtDec_int_digits_spec fp ltac:(lia)) as (HD & _ & HV & HK & _).
    assert (HL : Z.of_nat (ndigits fp) <= s) by (apply HK; lia).
    split. { apply LefRtDec_all_digits_app. split; [apply LefRtDec_rep0_digits | assumption]. }
    split. { rewrite app_length, LefRtDec_rep0_length. fold (ndigits fp). lia. }
    intros a. rewrite LefRtDec_dv_app, LefRtDec_rep0_val, HV.
    rewrite <- Z.mul_assoc, <- Z.pow_add_r by lia.
    replace (Z.of_nat (S k - ndigits fp) + Z.of_nat (ndigits fp)) with s by lia. reflexivity.
Qed.

Lemma LefRtDec_dec_ok : forall d, dec_ok d = true ->
  0 <= d_mant d < 10 ^ 28 /\ 0 <= d_scale d <= 28 /\ (d_neg d = true -> d_mant d <> 0).
Proof.
  intros d H. unfold dec_ok in H.
  apply andb_true_iff in H. destruct H as [H H5]. apply andb_true_iff in H. destruct H as [H H4].
  apply andb_true_iff in H. destruct H as [H H3]. apply andb_true_iff in H. destruct H as [H1 H2].
  apply Z.leb_le in H1, H3, H4. apply Z.ltb_lt in H2.
  split; [lia|]. split; [lia|]. intros Hn. rewrite Hn in H5.
  apply negb_true_iff in H5. apply Z.eqb_neq in H5. exact H5.
Qed.

Lemma LefRtDec_spell_shape : forall sp d, dec_ok d = true ->
  exists I F (dot : bool) e,
    spell sp d = (if d_neg d then [45] else []) ++ I ++ (if dot then 46 :: F else []) /\
    all_digits I = true /\ all_digits F = true /\ (I <> [] \/ F <> []) /\ (dot = false -> F = []) /\
    0 <= e /\ Z.of_nat (length F) = d_scale d + e /\ d_scale d + e <= 28 /\
    d_mant d * 10 ^ e < 10 ^ 28 /\ digits_val 0 (I ++ F) = d_mant d * 10 ^ e.
Proof.
  intros sp d Hok. apply LefRtDec_dec_ok in Hok. destruct Hok as (Hm & Hs & _).
  rewrite LefRtDec_spell_eq.
  set (m := d_mant d) in *. set (s := d_scale d) in *.
  assert (Hp : 0 < 10 ^ s) by (apply Z.pow_pos_nonneg; lia).
  assert (H28 : 10 ^ s <= 10 ^ 28) by (apply Z.pow_le_mono_r; lia).
  pose proof (Z.div_mod m (10 ^ s) ltac:(lia)) as Hdm.
  pose proof (Z.mod_pos_bound m (10 ^ s) Hp) as Hfp.
  assert (Hip : 0 <= m / 10 ^ s) by (apply Z.div_pos; lia).
  set (ip := m / 10 ^ s) in *. set (fp := m mod 10 ^ s) in *.
  assert (Hip2 : ip <= m) by nia.
  destruct (LefRtDec_frac0_spec s fp Hs Hfp) as (HF0d & HF0l & HF0v).
  destruct (LefRtDec_int_digits_spec ip ltac:(lia)) as (HId & HIn & HIv & _ & _).
  destruct (LefRtDec_int_digits_spec m Hm) as (_ & _ & _ & HMk & HMu).
  set (e := Nat.min (ns_trail_zeros sp) (LefRtDec_room s m)).
  set (F := LefRtDec_frac0 s fp ++ rep0 e).
  set (I0 := rep0 (ns_lead_zeros sp) ++ int_digits ip).
  destruct (LefRtDec_body_shape sp I0 F (ip =? 0)) as (I & dot & EB & HI & Hdot).
  exists I, F, dot, (Z.of_nat e). rewrite EB.
  assert (HML : Z.of_nat (ndigits m) <= 28) by (apply HMk; lia).
  assert (He : (e <= LefRtDec_room s m)%nat) by (unfold e; apply Nat.le_min_r).
  unfold LefRtDec_room in He.
  assert (HI0d : all_digits I0 = true).
  { unfold I0. apply LefRtDec_all_digits_app. split; [apply LefRtDec_rep0_digits | assumption]. }
  assert (HI0v : digits_val 0 I0 = ip).
  { unfold I0. rewrite LefRtDec_dv_app, LefRtDec_rep0_val, HIv. lia. }
  assert (HI0n : I0 <> []).
  { unfold I0. intros Hnil. apply app_eq_nil in Hnil. destruct Hnil as [_ Hnil]. contradiction. }
  assert (HIval : digits_val 0 I = ip).
  { destruct HI as [->|(-> & Hz & _)]; [assumption|]. apply Z.eqb_eq in Hz. rewrite LefRtDec_dv_nil. lia. }
  split; [reflexivity|].
  split. { destruct HI as [->|(-> & _)]; [assumption | reflexivity]. }
  split. { unfold F. apply LefRtDec_all_digits_app. split; [assumption | apply LefRtDec_rep0_digits]. }
  split. { destruct HI as [->|(_ & _ & HFn)]; [left | right]; assumption. }
  split; [assumption|].
  split; [lia|].
  split. { unfold F. rewrite app_length, LefRtDec_rep0_length. lia. }
  split; [lia|].
  assert (Hpe : 0 < 10 ^ Z.of_nat e) by (apply Z.pow_pos_nonneg; lia).
  split.
  { assert (Hle : 10 ^ (Z.of_nat (ndigits m) + Z.of_nat e) <= 10 ^ 28) by (apply Z.pow_le_mono_r; lia).
    rewrite Z.pow_add_r in Hle by lia. nia. }
  rewrite LefRtDec_dv_app, HIval. unfold F. rewrite LefRtDec_dv_app, LefRtDec_rep0_val, HF0v.
  f_equal. lia.
Qed.

(** * The float grammar and the character set *)
Lemma LefRtDec_skip_digits_app : forall I T, all_digits I = true ->
  (forall b r, T = b :: r -> is_digit_b b = false) ->
  skip_digits (I ++ T) = (Z.of_nat (length I), T).
Proof.
  induction I as [|b I IH]; intros T HI HT.
  - cbn [app length]. destruct T as [|c r]; [reflexivity|].
    cbn [skip_digits]. rewrite (HT c r eq_refl). reflexivity.
  - apply LefRtDec_all_digits_cons in HI. destruct HI as [Hb HI].
    rewrite <- app_comm_cons. cbn [skip_digits]. rewrite Hb, (IH T HI HT).
    f_equal. cbn [length]. lia.
Qed.

Lemma LefRtDec_float_number_shape : forall I F (dot : bool),
  all_digits I = true -> all_digits F = true -> (I <> [] \/ F <> []) -> (dot = false -> F = []) ->
  is_float_number (I ++ (if dot then 46 :: F else [])) = true.
Proof.
  intros I F dot HI HF Hne Hdot. unfold is_float_number.
  rewrite LefRtDec_skip_digits_app; [|assumption|].
  - destruct dot.
    + pose proof (LefRtDec_skip_digits_app F [] HF ltac:(discriminate)) as E.
      rewrite app_nil_r in E. rewrite E. cbn [is_float_exp]. rewrite andb_true_r.
      apply Z.ltb_lt. destruct Hne as [Hne|Hne].
      * destruct I; [contradiction | cbn [length]; lia].
      * destruct F; [contradiction | cbn [length]; lia].
    + cbn [is_float_exp]. rewrite andb_true_r. apply Z.ltb_lt.
      destruct Hne as [Hne|Hne].
      * destruct I; [contradiction | cbn [length]; lia].
      * rewrite Hdot in Hne by reflexivity. contradiction.
  - intros b r E. destruct dot; [|discriminate]. injection E as <- _. reflexivity.
Qed.

Lemma LefRtDec_digits_num_char : forall s, all_digits s = true -> forallb num_char s = true.
Proof.
  induction s as [|b s IH]; intros H; [reflexivity|].
  apply LefRtDec_all_digits_cons in H. destruct H as [Hb H].
  cbn [forallb]. unfold num_char at 1. rewrite Hb, (IH H). reflexivity.
Qed.

(** * The three theorems *)

(* every spelling the style allows parses back to the same number *)
Theorem spell_parses : forall sp d, dec_ok d = true ->
  exists d', dec_of_bytes (spell sp d) = DOk d' /\ dec_eq d d' = true /\ dec_wf d'
             /\ d_neg d' = d_neg d /\ d_scale d <= d_scale d' /\ d_mant d' = d_mant d * 10 ^ (d_scale d' - d_scale d).
Proof.
  intros sp d Hok.
  destruct (LefRtDec_spell_shape sp d Hok) as (I & F & dot & e & E & HI & HF & Hne & Hdot & He & Hlen & Hse & Hlt & Hv).
  apply LefRtDec_dec_ok in Hok. destruct Hok as (Hm & Hs & Hneg).
  pose proof LefRtDec_pow28_two96 as H96.
  assert (Hpe : 0 < 10 ^ e) by (apply Z.pow_pos_nonneg; lia).
  assert (Hnn : 0 <= d_mant d * 10 ^ e) by nia.
  assert (HP : parse10 (spell sp d) =
     DOk (mkdec (d_neg d && negb (digits_val 0 (I ++ F) =? 0)) (digits_val 0 (I ++ F)) (Z.of_nat (length F)))).
  { rewrite E. apply LefRtDec_parse_shape; try assumption; lia. }
  rewrite Hv, Hlen in HP.
  assert (Hnegeq : d_neg d && negb (d_mant d * 10 ^ e =? 0) = d_neg d).
  { destruct (d_neg d) eqn:En; [|reflexivity]. cbn [andb]. apply negb_true_iff, Z.eqb_neq.
    specialize (Hneg eq_refl). nia. }
  rewrite Hnegeq in HP.
  exists (mkdec (d_neg d) (d_mant d * 10 ^ e) (d_scale d + e)).
  split. { unfold dec_of_bytes. rewrite HP. reflexivity. }
  cbn [d_neg d_mant d_scale].
  split.
  { unfold dec_eq, dec_cmp, d_smant. cbn [d_neg d_mant d_scale].
    rewrite Z.pow_add_r by lia.
    replace ((if d_neg d then - d_mant d else d_mant d) * (10 ^ d_scale d * 10 ^ e))
      with ((if d_neg d then - (d_mant d * 10 ^ e) else d_mant d * 10 ^ e) * 10 ^ d_scale d)
      by (destruct (d_neg d); ring).
    rewrite Z.compare_refl. reflexivity. }
  split. { unfold dec_wf. cbn [d_mant d_scale]. lia. }
  split; [reflexivity|]. split; [lia|].
  replace (d_scale d + e - d_scale d) with e by lia. reflexivity.
Qed.

(* the lexer's number test accepts it *)
Theorem spell_float : forall sp d, dec_ok d = true -> is_rust_float (spell sp d) = true.
Proof.
  intros sp d Hok.
  destruct (LefRtDec_spell_shape sp d Hok) as (I & F & dot & e & E & HI & HF & Hne & Hdot & _).
  rewrite E. unfold is_rust_float.
  assert (Hstrip : strip_sign ((if d_neg d then [45] else []) ++ I ++ (if dot then 46 :: F else [])) =
                   I ++ (if dot then 46 :: F else [])).
  { destruct (d_neg d); cbn [app].
    - reflexivity.
    - destruct I as [|b I'].
      + cbn [app]. destruct dot; reflexivity.
      + apply LefRtDec_all_digits_cons in HI. destruct HI as [Hb _].
        apply LefRtDec_digit_range in Hb. rewrite <- app_comm_cons. cbn [strip_sign].
        unfold is_sign_b.
        replace (b =? 43) with false by (symmetry; apply Z.eqb_neq; lia).
        replace (b =? 45) with false by (symmetry; apply Z.eqb_neq; lia). reflexivity. }
  cbv zeta. rewrite Hstrip, LefRtDec_float_number_shape by assumption. apply orb_true_r.
Qed.

(* it is a non-empty string over 0-9 . - *)
Theorem spell_chars : forall sp d, dec_ok d = true -> spell sp d <> [] /\ forallb num_char (spell sp d) = true.
Proof.
  intros sp d Hok.
  destruct (LefRtDec_spell_shape sp d Hok) as (I & F & dot & e & E & HI & HF & Hne & Hdot & _).
  rewrite E. split.
  - intros Hnil. apply app_eq_nil in Hnil. destruct Hnil as [_ Hnil].
    apply app_eq_nil in Hnil. destruct Hnil as [HI0 HT0].
    destruct Hne as [Hne|Hne]; [contradiction|].
    destruct dot; [discriminate|]. rewrite Hdot in Hne by reflexivity. contradiction.
  - rewrite !forallb_app. rewrite (LefRtDec_digits_num_char I HI).
    assert (H1 : forallb num_char (if d_neg d then [45] else []) = true) by (destruct (d_neg d); reflexivity).
    rewrite H1. cbn [andb]. destruct dot; [|reflexivity].
    cbn [forallb]. rewrite (LefRtDec_digits_num_char F HF). reflexivity.
Qed.

Print Assumptions spell_parses.
Print Assumptions spell_float.
Print Assumptions spell_chars.
