(** Tie (a) of DESIGN.md 2.3 for the LEF parser, the big loop functions (family "lef_parse_lib", properties C04, C05, C11): the definition generated from
    lef21/src/read.rs `LefParser::parse_pin` (the whole loop: END, PORT, DIRECTION, USE, SHAPE, ANTENNAMODEL, the nine antenna attributes with the optional
    LAYER, TAPERRULE, MUSTJOIN, SUPPLYSENSITIVITY, GROUNDSENSITIVITY, NETEXPR, PROPERTY; derive_builder of `LefPin`; the closing name; the context stack)
    (Gen/KernelsLefRead2Gen.v, unit "lefr2"), read as in Lef/KernelsInstLefRead2.v, EQUALS [parse_pin] / [pin_loop] of Lef/LefParse.v, the error value
    apart; `parse_port`, `parse_pin_direction`, `parse_property`, `expect_ident` through their own ties (families lef_parse2, lef_parse3).  Stated for
    the reader as it is now ([cfr_now], and [cfr_now_props]: the properties are handed to the builder).
    Naming: the helper lemma `tie_parse_pin_loop` belongs to the published theorem `Ktie_parse_pin`. *)
From Coq Require Import ZArith Bool List String Lia.
From L21 Require Import Lef.LefDec Lef.LefData Lef.LefLex Lef.LefParse.
From L21 Require Import Base.KernelOps Base.KernelOpsX Base.KernelOpsS Base.KernelOpsL Base.Outcome Gen.KernelsLefRead2Gen.
From L21 Require Import Lef.KernelsInstLefRead.
From L21 Require Lef.KernelsTieLefRead_proofs.
From L21 Require Import Lef.KernelsInstLefRead2.
From L21 Require Lef.KernelsTieLefRead2_proofs Lef.KernelsTieLefRead3_proofs.
Import ListNotations.
Local Open Scope Z_scope.
Module R := Lef.KernelsTieLefRead_proofs.
Module R2 := Lef.KernelsTieLefRead2_proofs.
Module R3 := Lef.KernelsTieLefRead3_proofs.
Import R2(lres, lmap, unctrl, MG_key, MG_tty, MG_tok, MG_ctx, map_MG_ctx, MG_point).

Lemma MG_use : forall x, MLefPinUse (GLefPinUse x) = x.
Proof. destruct x; reflexivity. Qed.
Lemma MG_shape : forall x, MLefPinShape (GLefPinShape x) = x.
Proof. destruct x; reflexivity. Qed.
Lemma MG_amodel : forall x, MLefAntennaModel (GLefAntennaModel x) = x.
Proof. destruct x; reflexivity. Qed.

Section Ties.
Variable cf : cfg.
Variable src : bytes.
Hypothesis Hcf : cfr_now cf.
Hypothesis Hcfp : cfr_now_props cf.
Local Notation lu := (@lunit _).
Definition fail_lu := R2.fail_lu cf src.
Definition fail_back := R2.fail_back cf src.
Definition jn := @R3.jn.
Ltac ls := cbn [lm_xops kx_base lm_kops k_bind k_ret k_panic k_fail i_lt i_lit v_len]; unfold lm_bind, lm_ret, lm_pan.
Ltac xs := unfold x_advance, x_matches, x_expect, x_peek_key, x_get_key, x_expect_key, x_parse_ident, x_parse_number, x_parse_point, x_try_new, x_enum, x_txt,
  x_peek_token, lmU, lmG; cbn [MLefKey Mtty].
Ltac red1 := cbn [lunit backl omap obind fst snd option_map].
Ltac mstep :=
  match goal with
  | |- context [lunit ?X] =>
    lazymatch X with
    | context [match _ with _ => _ end] => fail
    | lmap _ _ => fail
    | _ => destruct X as [[? ?]| | | |]
    end
  end; red1; try reflexivity.
Ltac ur := repeat match goal with u : unit |- _ => destruct u end; try reflexivity.
Ltac flt := cbn [k_fail lm_xops]; unfold lm_fail, LefParse.fail, fail_msg;
  match goal with |- context [state cf src ?st] => destruct (state cf src st) as [[[[? ?] ?] ?]|]; reflexivity end.
Ltac bstep := match goal with |- context [matches ?t ?s] => destruct (matches t s) end; cbn [negb]; red1; try reflexivity.
Ltac keq := repeat match goal with |- context [LefKey_eqb ?a ?b] => let v := eval vm_compute in (LefKey_eqb a b) in change (LefKey_eqb a b) with v end; cbn beta iota.
Ltac kcase k := destruct k; cbn [GLefKey gLefKey_eqb]; keq; red1; try reflexivity.
Ltac fl := try (cbn [k_fail lm_xops]; first [ rewrite (fail_lu _ EtInvalidKey) | idtac ]; reflexivity).
Ltac foldloop run := match goal with |- context [k_loop ?a ?b ?c ?d ?e ?st] => change (k_loop a b c d e st) with (run c e st) end.
Ltac useloop P := match type of P with backl _ ?L = lunit (lmap Some ?Rr) => destruct L as [[[?|?] ?]| | |]; destruct Rr as [[? ?]| | | |] end;
  cbn [backl omap obind lunit lmap fst snd unctrl] in P; try discriminate P; red1; ur; try (inversion P; subst; clear P).
Ltac usetie T al := match goal with p : pst |- _ => let E := fresh "E" in pose proof (T p) as E; unfold al in E;
  match type of E with backl _ ?L = lunit ?Rr => (match goal with |- context [L] => idtac end); destruct L as [[? ?]| | |]; destruct Rr as [[? ?]| | | |] end;
  cbn [backl omap obind lunit fst snd] in E; try discriminate E; red1; ur; try (inversion E; subst; clear E) end.
Ltac rwtie T al := let E := fresh "E" in pose proof T as E; unfold al in E; rewrite E; clear E.
Ltac usetie1 T := match goal with p : pst |- _ => let E := fresh "E" in pose proof (T p) as E;
  match type of E with backl _ ?L = lunit ?Rr => (match goal with |- context [L] => idtac end); destruct L as [[? ?]| | |]; destruct Rr as [[? ?]| | | |] end;
  cbn [backl omap obind lunit fst snd] in E; try discriminate E; red1; ur; try (inversion E; subst; clear E) end.
Ltac pstep := unfold g_peek_token, g_LefParser_peek_token, x_peek_token; match goal with |- context [peek_token ?s] => destruct (peek_token s) end; cbn [option_map]; red1; try reflexivity.
Ltac foldg := repeat first [ fail
  | progress change (g_LefParser_parse_units ?a0 ?a1 ?a2 ?a3 ?a4 ?a5 ?a6 ?a7 ?a8 ?a9 ?a10 ?a11) with (g_parse_units cf src)
  | progress change (g_LefParser_parse_size ?a0 ?a1 ?a2 ?a3 ?a4) with (g_parse_size cf src)
  | progress change (g_LefParser_parse_symmetries ?a0 ?a1 ?a2 ?a3 ?a4 ?a5 ?a6) with (g_parse_symmetries cf src)
  | progress change (g_LefParser_parse_macro_class ?a0 ?a1 ?a2 ?a3 ?a4 ?a5 ?a6 ?a7 ?a8) with (g_parse_macro_class cf src)
  | progress change (g_LefParser_expect_and_get_str ?a0 ?a1 ?a2 ?a3) with (g_expect_and_get_str cf src)
  | progress change (g_LefParser_get_name ?a0 ?a1 ?a2 ?a3) with (g_get_name cf src)
  | progress change (g_LefParser_expect_ident ?a0 ?a1 ?a2 ?a3 ?a4) with (g_expect_ident cf src)
  | progress change (g_LefParser_parse_site_def ?a0 ?a1 ?a2 ?a3 ?a4 ?a5 ?a6 ?a7 ?a8 ?a9 ?a10 ?a11 ?a12 ?a13 ?a14 ?a15 ?a16 ?a17 ?a18) with (g_parse_site_def cf src)
  | progress change (g_LefParser_peek_token ?a0) with (g_peek_token cf src)
  | progress change (g_LefParser_parse_property ?a0 ?a1 ?a2 ?a3 ?a4 ?a5 ?a6 ?a7 ?a8 ?a9 ?a10) with (g_parse_property cf src)
  | progress change (g_LefParser_parse_pin_direction ?a0 ?a1 ?a2 ?a3 ?a4) with (g_parse_pin_direction cf src)
  | progress change (g_LefParser_parse_geometry_mask ?a0 ?a1 ?a2 ?a3 ?a4 ?a5) with (g_parse_geometry_mask cf src)
  | progress change (g_LefParser_parse_iterate ?a0 ?a1 ?a2 ?a3) with (g_parse_iterate cf src)
  | progress change (g_LefParser_parse_step_pattern ?a0 ?a1 ?a2 ?a3) with (g_parse_step_pattern cf src)
  | progress change (g_LefParser_parse_point_list ?a0 ?a1 ?a2 ?a3 ?a4 ?a5) with (g_parse_point_list cf src)
  | progress change (g_LefParser_parse_geometry_tail ?a0 ?a1 ?a2 ?a3 ?a4) with (g_parse_geometry_tail cf src)
  | progress change (g_LefParser_parse_geometry ?a0 ?a1 ?a2 ?a3 ?a4 ?a5 ?a6 ?a7 ?a8 ?a9 ?a10 ?a11) with (g_parse_geometry cf src)
  | progress change (g_LefParser_parse_layer_geometries ?a0 ?a1 ?a2 ?a3 ?a4 ?a5 ?a6 ?a7 ?a8 ?a9 ?a10 ?a11 ?a12 ?a13 ?a14 ?a15 ?a16 ?a17) with (g_parse_layer_geometries cf src)
  | progress change (g_LefParser_parse_via_shape ?a0 ?a1 ?a2 ?a3 ?a4 ?a5 ?a6 ?a7 ?a8 ?a9 ?a10) with (g_parse_via_shape cf src)
  | progress change (g_LefParser_parse_via_layer_geometries ?a0 ?a1 ?a2 ?a3 ?a4 ?a5 ?a6 ?a7 ?a8 ?a9 ?a10 ?a11 ?a12 ?a13 ?a14 ?a15 ?a16 ?a17) with (g_parse_via_layer_geometries cf src)
  | progress change (g_LefParser_parse_obstructions ?a0 ?a1 ?a2 ?a3 ?a4 ?a5 ?a6 ?a7 ?a8 ?a9 ?a10 ?a11 ?a12 ?a13 ?a14 ?a15 ?a16 ?a17) with (g_parse_obstructions cf src)
  | progress change (g_LefParser_parse_port ?a0 ?a1 ?a2 ?a3 ?a4 ?a5 ?a6 ?a7 ?a8 ?a9 ?a10 ?a11 ?a12 ?a13 ?a14 ?a15 ?a16 ?a17 ?a18) with (g_parse_port cf src)
  | progress change (g_LefParser_parse_property_definition_tail ?a0 ?a1 ?a2 ?a3 ?a4 ?a5) with (g_parse_property_definition_tail cf src)
  | progress change (g_LefParser_parse_property_definitions ?a0 ?a1 ?a2 ?a3 ?a4 ?a5 ?a6 ?a7 ?a8 ?a9 ?a10 ?a11 ?a12 ?a13 ?a14 ?a15) with (g_parse_property_definitions cf src)
  | progress change (g_LefParser_parse_pin ?a0 ?a1 ?a2 ?a3 ?a4 ?a5 ?a6 ?a7 ?a8 ?a9 ?a10 ?a11 ?a12 ?a13 ?a14 ?a15 ?a16 ?a17 ?a18 ?a19 ?a20 ?a21 ?a22 ?a23) with (g_parse_pin cf src) ].

(** ** parse_pin: the builder `LefPinBuilder` (name and the optional statements) and three vectors are the loop state; the model keeps the record and the properties *)
Notation pbuilder := (gLefPinBuilder dec bytes unit Z).
Notation oo A := (option (option A)).
Definition PB (nm : bytes) (d : oo (gLefPinDirection unit Z)) (u : oo (gLefPinUse unit Z)) (sh : oo (gLefPinShape unit Z)) (am : oo (gLefAntennaModel unit Z))
              (tr ss gs mj ne : oo bytes) : pbuilder :=
  mk_gLefPinBuilder dec bytes (Some nm) None d u sh am None tr ss gs mj ne None.
Definition PM (nm : bytes) (po : list (gLefPort dec bytes unit Z)) (d : oo (gLefPinDirection unit Z)) (u : oo (gLefPinUse unit Z)) (sh : oo (gLefPinShape unit Z))
              (am : oo (gLefAntennaModel unit Z)) (at_ : list (gLefPinAntennaAttr dec bytes unit Z)) (tr ss gs mj ne : oo bytes) : lef_pin :=
  Build_lef_pin nm (map Mport po) (option_map Mpin_direction (jn _ d)) (option_map MLefPinUse (jn _ u)) (option_map MLefPinShape (jn _ sh))
                (option_map MLefAntennaModel (jn _ am)) (map Mantenna_attr at_) (jn _ tr) (jn _ ss) (jn _ gs) (jn _ mj) (jn _ ne) [].
Notation pinstate := (pbuilder * list (gLefPort dec bytes unit Z) * list (gLefPinAntennaAttr dec bytes unit Z) * list (gLefProperty bytes unit Z))%type.
Definition pin_run (f : nat) (st : pinstate) (s : pst) := k_loop lm_kops (lm_nofuel _) f (fun fuel st => g_parse_pin_loop1 cf src fuel st) st s.
(** what the loop keeps of its state: the builder's name, then the model's record read off the builder and the vectors *)
Definition Pview (st : pinstate) :=
  let '(b, po, at_, pr) := st in
  (gLefPinBuilder_name dec bytes b,
   PM [] po (gLefPinBuilder_direction dec bytes b) (gLefPinBuilder_use_ dec bytes b) (gLefPinBuilder_shape dec bytes b) (gLefPinBuilder_antenna_model dec bytes b) at_
      (gLefPinBuilder_taper_rule dec bytes b) (gLefPinBuilder_supply_sensitivity dec bytes b) (gLefPinBuilder_ground_sensitivity dec bytes b)
      (gLefPinBuilder_must_join dec bytes b) (gLefPinBuilder_net_expr dec bytes b),
   map Mproperty pr).
Definition set_name_nil (p : lef_pin) : lef_pin := set_pin_name [] p.
Ltac rwtie1 T := let E := fresh "E" in pose proof T as E; rewrite E; clear E.
Ltac pbproj := cbn [gLefPinBuilder_name gLefPinBuilder_ports gLefPinBuilder_direction gLefPinBuilder_use_ gLefPinBuilder_shape gLefPinBuilder_antenna_model
  gLefPinBuilder_antenna_attrs gLefPinBuilder_taper_rule gLefPinBuilder_supply_sensitivity gLefPinBuilder_ground_sensitivity gLefPinBuilder_must_join gLefPinBuilder_net_expr
  gLefPinBuilder_properties].
Ltac fin IH := pbproj;
  match goal with |- context [k_loop _ _ _ _ (mk_gLefPinBuilder _ _ (Some ?nm) None ?d ?u ?sh ?am None ?tr ?ss ?gs ?mj ?ne None, ?po, ?at_, ?pr) ?q] =>
    let Q := fresh "Q" in pose proof (IH q nm po at_ pr d u sh am tr ss gs mj ne) as Q; unfold pin_run, PB, PM, jn, R3.jn in Q; rewrite ?map_app in Q; cbn [map option_map] in Q;
    rewrite ?MG_use, ?MG_shape, ?MG_amodel in Q; exact Q end.
Lemma tie_parse_pin_loop : forall f s nm po at_ pr d u sh am tr ss gs mj ne,
  backl (unctrl (fun _ => None) (fun st => Some (Pview st))) (pin_run f (PB nm d u sh am tr ss gs mj ne, po, at_, pr) s)
  = lunit (lmap (fun r => Some (Some (pin_name (fst r)), set_name_nil (fst r), snd r))
                (pin_loop cf src f (PM nm po d u sh am at_ tr ss gs mj ne) (map Mproperty pr) s)).
Proof.
  induction f as [|f IH]; intros s nm po at_ pr d u sh am tr ss gs mj ne; unfold pin_run; [reflexivity|].
  cbn [k_loop pin_loop]. ls. unfold g_parse_pin_loop1 at 1. unfold g_LefParser_parse_pin_loop1 at 1.
  unfold g_LefPinBuilder_direction, g_LefPinBuilder_use_, g_LefPinBuilder_shape, g_LefPinBuilder_antenna_model, g_LefPinBuilder_taper_rule, g_LefPinBuilder_must_join,
    g_LefPinBuilder_supply_sensitivity, g_LefPinBuilder_ground_sensitivity, g_LefPinBuilder_net_expr. ls. foldg.
  unfold enum_stmt, ident_stmt, expect_semi, bind, get, ret.
  unfold x_peek_key at 1. unfold lmG. mstep. unfold PB. pbproj.
  destruct l; cbn [GLefKey]; red1; try flt.
  all: try solve [ xs; mstep ].
  all: try solve [ usetie1 (R3.tie_parse_port cf src Hcf); fin IH ].
  all: try solve [ usetie1 (R2.tie_parse_pin_direction cf src); fin IH ].
  all: try solve [ usetie1 (R2.tie_parse_property cf src pr); fin IH ].
  all: try solve [ xs; repeat (mstep; rewrite ?MG_tok); fin IH ].
  all: try solve [ xs; mstep; mstep; bstep; repeat mstep; fin IH ].
Qed.

Lemma tie_parse_pin : forall s, backl Mpin (g_parse_pin cf src s) = lunit (parse_pin cf src s).
Proof.
  intros s. unfold g_parse_pin, g_LefParser_parse_pin, parse_pin, empty_pin, bind, push, pop, get, ret.
  unfold g_LefPinBuilder_name, g_LefPinBuilder_ports, g_LefPinBuilder_antenna_attrs, g_LefPinBuilder_properties, g_LefPinBuilder_build. ls. foldg.
  unfold x_get at 1. unfold x_put at 1. cbn [gLefParser_ctx]. rewrite map_app, map_MG_ctx. cbn [map Mctx].
  unfold x_expect_key at 1. unfold x_parse_ident at 1. unfold lmU. cbn [MLefKey]. mstep. mstep. pbproj.
  unfold x_fuel at 1.
  match goal with |- context [k_loop ?a ?bb ?c ?d (mk_gLefPinBuilder _ _ (Some ?nm) None None None None None None None None None None None None, [], [], []) ?st] =>
    change (k_loop a bb c d (mk_gLefPinBuilder dec bytes (Some nm) None None None None None None None None None None None None, [], [], []) st)
      with (pin_run c (PB nm None None None None None None None None None, [], [], []) st);
    pose proof (tie_parse_pin_loop c st nm [] [] [] None None None None None None None None None) as P end.
  change (PM b [] None None None None [] None None None None None) with (Build_lef_pin b [] None None None None [] None None None None None []) in P. cbn [map] in P.
  match type of P with backl _ ?L = lunit (lmap _ ?Rr) => destruct L as [[[?|[[[bd po] at_] pr]] ?]| | |]; destruct Rr as [[[pin props] ?]| | | |] end;
    cbn [backl omap obind lunit lmap fst snd unctrl Pview] in P; try discriminate P; red1; ur.
  destruct bd as [bn bpo bd_ bu bsh bam bat btr bss bgs bmj bne bpr]. destruct pin as [pn ppo pdi pus psh pam pat ptr pss pgs pmj pne ppr].
  unfold PM, set_name_nil, set_pin_name in P. pbproj.
  cbn [gLefPinBuilder_name gLefPinBuilder_ports gLefPinBuilder_direction gLefPinBuilder_use_ gLefPinBuilder_shape gLefPinBuilder_antenna_model
       gLefPinBuilder_antenna_attrs gLefPinBuilder_taper_rule gLefPinBuilder_supply_sensitivity gLefPinBuilder_ground_sensitivity gLefPinBuilder_must_join gLefPinBuilder_net_expr
       gLefPinBuilder_properties pin_name pin_ports pin_direction pin_use_ pin_shape pin_antenna_model pin_antenna_attrs pin_taper_rule pin_supply_sensitivity
       pin_ground_sensitivity pin_must_join pin_net_expr pin_properties fst snd] in P.
  inversion P; subst; clear P.
  rwtie1 (R2.tie_expect_ident cf src). mstep.
  unfold x_get, x_put. cbn [gLefParser_ctx]. unfold k_pop. rewrite R.removelast_map, map_MG_ctx.
  rewrite Hcfp. reflexivity.
Qed.
End Ties.
