(** C04 / C05: success lemmas for the MACRO block of the LEF parser (CLASS, DENSITY, OBS, the MACRO container),
    over abstract tokens.  The PIN block is a parameter of the section (proved by another file). *)
From Coq Require Import String.
From Coq Require Import ZArith List Bool Lia.
From L21 Require Import Lef.LefDec Lef.LefData Lef.LefLex Lef.LefParse Lef.LefSpec Lef.LefCheck
                        Lef.LefLex_proofs Lef.LefParse_proofs Lef.LefRtLex_proofs Lef.LefRtPerm_proofs Lef.LefRtFrame_proofs
                        Lef.LefRtConstr_proofs.
Import ListNotations.
Local Open Scope list_scope.
Local Open Scope Z_scope.

Section Macro.
Variable src : bytes.
Hypothesis Hsrc : starts_on_boundary src = true.
Notation cf := cfg_fixed.
Notation spec := (spec src).
Notation specv := (specv src).
Notation post := (post src).
Notation sees := (sees src).

(** * 1. CLASS *)
Lemma opt_sub_some : forall {T} (from_str : bytes -> option T) s e a1 a2, arel (SKw s) a1 ->
  from_str (bytes_of_string s) = Some e -> arel SSemi a2 ->
  spec (opt_sub cf src from_str) [a1; a2] Any (eq (Some e)).
Proof.
  intros T from_str s e a1 a2 A1 Fe A2 st rest _ Hs. cbn [app] in Hs. unfold opt_sub.
  pstep. head_ty. pstep. pb (kw_enum src from_str s a1 e A1 Fe). pstep. pstep. pret. reflexivity.
Qed.
Lemma opt_sub_none : forall {T} (from_str : bytes -> option T) a, arel SSemi a ->
  spec (opt_sub cf src from_str) [a] Any (eq None).
Proof.
  intros T from_str a A st rest _ Hs. cbn [app] in Hs. unfold opt_sub.
  pstep. head_ty. pstep. pstep. pret. reflexivity.
Qed.

Lemma parse_macro_class_ok : forall c atoks, Forall2 arel (t_macro_class c) atoks ->
  spec (parse_macro_class cf src) atoks Any (fun c' => lef_macro_class_eqb dec_eq c c' = true).
Proof.
  intros c atoks F st rest _ Hs. unfold t_macro_class, K in F.
  destruct c as [b| |t|t|t|t]; cbn [app] in F.
  - (* COVER [BUMP] *)
    destruct b; cbn [app] in F; inv_arel; cbn [app] in Hs; unfold parse_macro_class; pstep; pstep; cbv iota.
    + pstep. head_ty. pstep. pstep. pstep. pstep. pret. reflexivity.
    + pstep. head_ty. pstep. pstep. pret. reflexivity.
  - inv_arel. cbn [app] in Hs. unfold parse_macro_class. pstep. pstep. cbv iota. pstep. pret. reflexivity.
  - destruct t as [x|]; cbn [app] in F.
    + destruct x; cbn [s_block] in F; inv_arel; cbn [app] in Hs; unfold parse_macro_class; pstep; pstep; cbv iota;
        (pb (opt_sub_some LefBlockClassType_from_str _ _ _ _ ltac:(eassumption) ltac:(vm_compute; reflexivity) ltac:(eassumption)));
        pret; reflexivity.
    + inv_arel. cbn [app] in Hs. unfold parse_macro_class. pstep. pstep. cbv iota.
      pb (opt_sub_none LefBlockClassType_from_str _ ltac:(eassumption)). pret. reflexivity.
  - destruct t as [x|]; cbn [app] in F.
    + destruct x; cbn [s_pad] in F; inv_arel; cbn [app] in Hs; unfold parse_macro_class; pstep; pstep; cbv iota;
        (pb (opt_sub_some LefPadClassType_from_str _ _ _ _ ltac:(eassumption) ltac:(vm_compute; reflexivity) ltac:(eassumption)));
        pret; reflexivity.
    + inv_arel. cbn [app] in Hs. unfold parse_macro_class. pstep. pstep. cbv iota.
      pb (opt_sub_none LefPadClassType_from_str _ ltac:(eassumption)). pret. reflexivity.
  - destruct t as [x|]; cbn [app] in F.
    + destruct x; cbn [s_core] in F; inv_arel; cbn [app] in Hs; unfold parse_macro_class; pstep; pstep; cbv iota;
        (pb (opt_sub_some LefCoreClassType_from_str _ _ _ _ ltac:(eassumption) ltac:(vm_compute; reflexivity) ltac:(eassumption)));
        pret; reflexivity.
    + inv_arel. cbn [app] in Hs. unfold parse_macro_class. pstep. pstep. cbv iota.
      pb (opt_sub_none LefCoreClassType_from_str _ ltac:(eassumption)). pret. reflexivity.
  - destruct t; cbn [s_endcap] in F; inv_arel; cbn [app] in Hs; unfold parse_macro_class; pstep; pstep; cbv iota;
      pstep; pstep; pret; reflexivity.
Qed.

(** * 2. DENSITY *)
Definition dr_toks (r : lef_density_rect) : list stok :=
  [K "RECT"] ++ t_point (dr_pt1 r) ++ t_point (dr_pt2 r) ++ [SNum (dr_density_value r); SSemi].
Definition dg_toks (g : lef_density_geoms) : list stok :=
  [K "LAYER"; SName (dg_layer_name g); SSemi] ++ flat_map dr_toks (dg_geometries g).
Lemma t_density_eq : forall d, t_density d = [K "DENSITY"] ++ flat_map dg_toks d ++ [K "END"].
Proof. reflexivity. Qed.

(** what follows the rectangles of one DENSITY layer: LAYER or END *)
Definition dens_follow (rest : list atok) : Prop := exists x r, rest = x :: r /\ kw_in [K_Layer; K_End] x.

Lemma density_rect_loop_ok : forall rs atoks, Forall2 arel (flat_map dr_toks rs) atoks -> forall f acc,
  spec (density_rect_loop cf src f acc) atoks
       (fun rest => dens_follow rest /\ (List.length atoks + List.length rest < f)%nat)
       (fun rs' => exists l, rs' = acc ++ l /\ list_eqb (lef_density_rect_eqb dec_eq) rs l = true).
Proof.
  induction rs as [|r rs IH]; intros atoks F f acc st rest [DF Lf] Hs.
  - cbn [flat_map] in F. inv_arel. cbn [app List.length] in *. destruct f as [|f]; [lia|]. cbn [density_rect_loop].
    destruct DF as (y & r & -> & s & k & A & Kf & Ik).
    destruct (arel_kw_key _ _ _ A Kf) as [Ty Kp].
    eapply (post_peek_key src); [exact Hs | exact Ty | exact Kp |].
    destruct Ik as [<-|[<-|[]]]; pret; exists []; rewrite app_nil_r; split; reflexivity.
  - cbn [flat_map] in F. apply Forall2_app_inv_l in F. destruct F as (at_r & at_s & Fr & Fs & ->).
    unfold dr_toks, t_point, K in Fr. cbn [app] in Fr. inv_arel.
    rewrite <- app_assoc in Hs. cbn [app] in Hs. rewrite app_length in Lf. cbn [List.length] in Lf.
    destruct f as [|f]; [lia|]. cbn [density_rect_loop].
    pstep. cbv iota. pstep. unfold parse_point. do 5 pstep. do 5 pstep. pstep. pstep.
    eapply post_weaken; [|eapply post_spec; [eapply (IH at_s Fs f) | split; [exact DF | lia] | eassumption | congruence]].
    cbv beta. intros rs' (l & -> & E). eexists (_ :: l). rewrite <- app_assoc. split; [reflexivity|].
    cbn [list_eqb]. rewrite E. unfold lef_density_rect_eqb, lef_point_eqb. deq.
Qed.

Lemma dg_toks_follow : forall d atoks aend rest, Forall2 arel (flat_map dg_toks d) atoks -> arel (SKw "END") aend ->
  dens_follow (atoks ++ aend :: rest).
Proof.
  intros [|g d] atoks aend rest F A; cbn [flat_map] in F.
  - inv_arel. cbn [app]. eexists _, _. split; [reflexivity|]. exists "END"%string, K_End. split; [exact A|].
    split; [vm_compute; reflexivity | cbn; auto].
  - unfold dg_toks at 1 in F. unfold K in F. cbn [app] in F.
    apply LefRt_Forall2_cons_inv in F. destruct F as (a & at' & -> & A1 & _). cbn [app].
    eexists _, _. split; [reflexivity|]. exists "LAYER"%string, K_Layer. split; [exact A1|].
    split; [vm_compute; reflexivity | cbn; auto].
Qed.

Lemma density_loop_ok : forall d atoks aend, Forall2 arel (flat_map dg_toks d) atoks -> arel (SKw "END") aend -> forall f acc,
  spec (density_loop cf src f acc) (atoks ++ [aend])
       (fun rest => (List.length atoks + 1 + List.length rest < f)%nat)
       (fun d' => exists l, d' = acc ++ l /\ list_eqb (lef_density_geoms_eqb dec_eq) d l = true).
Proof.
  induction d as [|g d IH]; intros atoks aend F AE f acc st rest Lf Hs.
  - cbn [flat_map] in F. inv_arel. cbn [app List.length] in *. destruct f as [|f]; [lia|]. cbn [density_loop].
    pstep. cbv iota. pstep. pret. exists []. rewrite app_nil_r. split; reflexivity.
  - cbn [flat_map] in F. apply Forall2_app_inv_l in F. destruct F as (at_g & at_d & Fg & Fd & ->).
    unfold dg_toks, K in Fg. cbn [app] in Fg.
    apply LefRt_Forall2_cons_inv in Fg. destruct Fg as (a1 & t1 & -> & A1 & Fg).
    apply LefRt_Forall2_cons_inv in Fg. destruct Fg as (a2 & t2 & -> & A2 & Fg).
    apply LefRt_Forall2_cons_inv in Fg. destruct Fg as (a3 & at_r & -> & A3 & Fr).
    repeat rewrite <- app_assoc in Hs. cbn [app] in Hs. repeat rewrite app_length in Lf. cbn [List.length] in Lf.
    destruct f as [|f]; [lia|]. cbn [density_loop].
    pstep. cbv iota. pstep. pstep. pstep. pstep.
    lazymatch goal with |- LefRtFrame_proofs.post _ _ _ _ (bind (density_rect_loop _ _ (fuel_of ?s) ?a) _ _) =>
      pb (density_rect_loop_ok (dg_geometries g) at_r Fr (fuel_of s) a) end.
    { split; [apply (dg_toks_follow d at_d aend rest Fd AE)|].
      match goal with Hx : sees ?s _ |- context [fuel_of ?s] => rewrite (fuel_of_sees src _ _ Hx) end.
      repeat rewrite app_length. cbn [List.length]. lia. }
    match goal with q : exists _, _ /\ _ = true |- _ => destruct q as (rs' & -> & Er) end. cbn [app].
    match goal with Hx : LefRtFrame_proofs.sees _ _ (at_d ++ aend :: rest) |- _ =>
      change (aend :: rest) with ([aend] ++ rest) in Hx; rewrite app_assoc in Hx end.
    eapply post_weaken; [|eapply post_spec; [eapply (IH at_d aend Fd AE f) | | eassumption | congruence]].
    + cbv beta. intros d' (l & -> & E). eexists (_ :: l). rewrite <- app_assoc. split; [reflexivity|].
      cbn [list_eqb]. rewrite E. unfold lef_density_geoms_eqb. cbn. rewrite bytes_eqb_refl, Er. reflexivity.
    + cbv beta. lia.
Qed.

Lemma parse_density_ok : forall d atoks, Forall2 arel (t_density d) atoks ->
  spec (parse_density cf src) atoks Any (fun d' => list_eqb (lef_density_geoms_eqb dec_eq) d d' = true).
Proof.
  intros d atoks F st rest _ Hs. rewrite t_density_eq in F. unfold K in F. cbn [app] in F.
  apply LefRt_Forall2_cons_inv in F. destruct F as (a0 & at0 & -> & A0 & F).
  apply Forall2_app_inv_l in F. destruct F as (at_d & at_e & Fd & Fe & ->). inv_arel.
  cbn [app] in Hs. rewrite <- app_assoc in Hs. unfold parse_density. pstep. pstep. pstep.
  match goal with Hx : sees _ (at_d ++ [_] ++ rest) |- _ => rewrite app_assoc in Hx end.
  lazymatch goal with |- LefRtFrame_proofs.post _ _ _ _ (bind (density_loop _ _ (fuel_of ?s) ?a) _ _) =>
    pb (density_loop_ok d at_d _ Fd ltac:(eassumption) (fuel_of s) a) end.
  { match goal with Hx : sees ?s _ |- context [fuel_of ?s] => rewrite (fuel_of_sees src _ _ Hx) end.
    repeat rewrite app_length. cbn [List.length]. lia. }
  match goal with q : exists _, _ /\ _ = true |- _ => destruct q as (l & -> & E) end.
  pstep. pret. exact E.
Qed.

(** * 3. OBS *)
Definition obs_toksP (ls : list lef_layer_geoms) (atoks : list atok) : Prop :=
  exists a0 aLs aend, atoks = a0 :: concat aLs ++ [aend] /\ arel (SKw "OBS") a0
                      /\ Forall2 layer_toksP ls aLs /\ arel (SKw "END") aend.

Lemma layer_toksP_head : forall l atoks, layer_toksP l atoks -> exists a at', atoks = a :: at' /\ arel (SKw "LAYER") a.
Proof.
  intros l atoks (_ & L & _ & F). unfold layer_hdr_toks, K in F. cbn [app] in F.
  apply LefRt_Forall2_cons_inv in F. destruct F as (a & at' & -> & A & _). eauto.
Qed.

Lemma layers_follow : forall ls aLs aend rest, Forall2 layer_toksP ls aLs -> arel (SKw "END") aend ->
  layer_follow (concat aLs ++ aend :: rest).
Proof.
  intros ls aLs aend rest F A. right. destruct F as [|l al ls' aLs' Hl _].
  - cbn [concat app]. eexists _, _. split; [reflexivity|]. exists "END"%string, K_End. split; [exact A|].
    split; [vm_compute; reflexivity | cbn; auto].
  - destruct (layer_toksP_head l al Hl) as (a & at' & -> & A1). cbn [concat app].
    eexists _, _. split; [reflexivity|]. exists "LAYER"%string, K_Layer. split; [exact A1|].
    split; [vm_compute; reflexivity | cbn; auto].
Qed.

Lemma obs_loop_ok : forall ls aLs aend, Forall2 layer_toksP ls aLs -> arel (SKw "END") aend -> forall f acc,
  spec (obs_loop cf src f acc) (concat aLs ++ [aend])
       (fun rest => (List.length (concat aLs) + 1 + List.length rest < f)%nat)
       (fun ls' => exists l, ls' = acc ++ l /\ list_eqb (lef_layer_geoms_eqb dec_eq) ls l = true).
Proof.
  induction ls as [|l ls IH]; intros aLs aend F AE f acc st rest Lf Hs.
  - inversion F; subst. cbn [concat app List.length] in *. destruct f as [|f]; [lia|]. cbn [obs_loop]. pstep.
    destruct (peek_token_cons src st aend _ Hs) as (t & -> & _).
    pstep. cbv iota. pstep. pret. exists []. rewrite app_nil_r. split; reflexivity.
  - inversion F as [|l' al ls' aLs' Hl F']; subst. cbn [concat] in *.
    destruct (layer_toksP_head l al Hl) as (a & at' & -> & A1).
    repeat rewrite <- app_assoc in Hs. cbn [app] in Hs. repeat rewrite app_length in Lf. cbn [List.length] in Lf.
    destruct f as [|f]; [lia|]. cbn [obs_loop]. pstep.
    destruct (peek_token_cons src st a _ Hs) as (t & -> & _).
    pstep. cbv iota.
    pb (parse_layer_P src l (a :: at') Hl).
    { apply (layers_follow ls aLs' aend rest F' AE). }
    match goal with Hx : sees _ (concat aLs' ++ aend :: rest) |- _ =>
      change (aend :: rest) with ([aend] ++ rest) in Hx; rewrite app_assoc in Hx end.
    eapply post_weaken; [|eapply post_spec; [eapply (IH aLs' aend F' AE f) | | eassumption | congruence]].
    + cbv beta. intros ls' (l1 & -> & E). eexists (_ :: l1). rewrite <- app_assoc. split; [reflexivity|].
      cbn [list_eqb]. rewrite E. match goal with q : _ = true |- _ => rewrite q end. reflexivity.
    + cbv beta. lia.
Qed.

Lemma parse_obs_P : forall ls atoks, obs_toksP ls atoks ->
  spec (parse_obstructions cf src) atoks Any (fun ls' => list_eqb (lef_layer_geoms_eqb dec_eq) ls ls' = true).
Proof.
  intros ls atoks (a0 & aLs & aend & -> & A0 & F & AE) st rest _ Hs. cbn [app] in Hs.
  unfold parse_obstructions. pstep. pstep.
  lazymatch goal with |- LefRtFrame_proofs.post _ _ _ _ (obs_loop _ _ (fuel_of ?s) ?a _) =>
    eapply post_weaken; [|eapply post_spec; [eapply (obs_loop_ok ls aLs aend F AE (fuel_of s) a) | | eassumption | congruence]] end.
  - cbv beta. intros ls' (l & -> & E). exact E.
  - cbv beta. match goal with Hx : sees ?s _ |- context [fuel_of ?s] => rewrite (fuel_of_sees src _ _ Hx) end.
    repeat rewrite app_length. cbn [List.length]. lia.
Qed.

Lemma geometry_ok_len : forall g, geometry_ok g = true -> geom_len_ok g = true.
Proof.
  assert (S : forall s, shape_ok s = true -> shape_len_ok s = true).
  { intros [m a b|m ps|m ps] H; cbn [shape_ok shape_len_ok] in *; [reflexivity| |];
      apply andb_prop in H; destruct H as [_ H]; exact H. }
  intros [s|s p] H; cbn [geometry_ok geom_len_ok] in *; [apply S; exact H|].
  apply andb_prop in H. destruct H as [H _]. apply S; exact H.
Qed.
Lemma layer_geoms_ok_struct : forall l, layer_geoms_ok l = true -> layer_struct_ok l = true.
Proof.
  intros l H. unfold layer_geoms_ok in H. repeat (apply andb_prop in H; destruct H as [H ?]).
  unfold layer_struct_ok. apply andb_true_intro. split; [|assumption].
  apply forallb_forall. intros g Hg.
  match goal with X : forallb geometry_ok _ = true |- _ => rewrite forallb_forall in X; apply geometry_ok_len, X, Hg end.
Qed.

Lemma layer_list_toksP : forall sty ls off atoks, forallb layer_geoms_ok ls = true ->
  Forall2 arel (t_layer_list sty off ls) atoks -> exists aLs, atoks = concat aLs /\ Forall2 layer_toksP ls aLs.
Proof.
  intros sty. induction ls as [|l ls IH]; intros off atoks O F; cbn [t_layer_list] in F.
  - inv_arel. exists []. split; [reflexivity | constructor].
  - cbn [forallb] in O. apply andb_prop in O. destruct O as [O1 O2].
    apply Forall2_app_inv_l in F. destruct F as (a1 & a2 & F1 & F2 & ->).
    destruct (IH _ a2 O2 F2) as (aLs & -> & FL). exists (a1 :: aLs). split; [reflexivity|].
    constructor; [|exact FL]. apply (layer_toksP_spec sty off l a1 (layer_geoms_ok_struct l O1) F1).
Qed.

Lemma obs_toksP_spec : forall sty off ls atoks, forallb layer_geoms_ok ls = true ->
  Forall2 arel (t_obs sty off ls) atoks -> obs_toksP ls atoks.
Proof.
  intros sty off ls atoks O F. unfold t_obs, K in F. cbn [app] in F.
  apply LefRt_Forall2_cons_inv in F. destruct F as (a0 & at0 & -> & A0 & F).
  apply Forall2_app_inv_l in F. destruct F as (at_l & at_e & Fl & Fe & ->). inv_arel.
  destruct (layer_list_toksP sty ls off at_l O Fl) as (aLs & -> & FL).
  exists a0, aLs, a. auto.
Qed.

(** * 4. MACRO *)
Variable pin_toksP : lef_pin -> list atok -> Prop.
Hypothesis parse_pin_P : forall p atoks, pin_toksP p atoks ->
  spec (parse_pin cf src) atoks Any (fun p' => lef_pin_eqb dec_eq p p' = true).

Lemma post_specv {A} (m : P A) toks (R : list atok -> Prop) (Pv : dec -> Prop) (Q : A -> Prop) st rest v :
  specv m toks R Pv Q -> R rest -> Pv v -> sees st (toks ++ rest) -> p_ver st = v -> post rest v Q (m st).
Proof. intros S HR HP Hs <-. apply S; assumption. Qed.

Lemma head_kw : forall s ts atoks, Forall2 arel (SKw s :: ts) atoks -> exists a at', atoks = a :: at' /\ arel (SKw s) a.
Proof. intros s ts atoks F. apply LefRt_Forall2_cons_inv in F. destruct F as (a & at' & -> & A & _). eauto. Qed.

(** FOREIGN name [pt [orient]] ; *)
Definition foreign_wf (f : lef_foreign) : Prop := fo_pt f = None -> fo_orient f = None.
Lemma LefOrient_eqb_refl : forall e, LefOrient_eqb e e = true.
Proof. destruct e; reflexivity. Qed.

Lemma post_foreign {B} fo atoks (k : lef_foreign -> P B) st rest1 rest v (Q : B -> Prop) :
  Forall2 arel (t_foreign fo) atoks -> foreign_wf fo -> sees st (atoks ++ rest1) ->
  (forall fo' st1, sees st1 rest1 -> p_ver st1 = p_ver st -> lef_foreign_eqb dec_eq fo fo' = true -> post rest v Q (k fo' st1)) ->
  post rest v Q ((advance ;;; cell_name <- parse_ident cf src ;; st0 <- get ;;
     pt <- (if negb (matches TSemi st0) then (p <- parse_point cf src ;; ret (Some p)) else ret None) ;;
     st1 <- get ;;
     orient <- (if negb (matches TSemi st1) then (o <- parse_enum cf src LefOrient_from_str ;; ret (Some o)) else ret None) ;;
     expect_semi cf src ;;; k (Build_lef_foreign cell_name pt orient)) st).
Proof.
  intros F WF Hs Kk. destruct fo as [n pt o]. unfold foreign_wf in WF. cbn in WF.
  unfold t_foreign, K in F. cbn [fo_cell_name fo_pt fo_orient app] in F.
  destruct pt as [p|].
  - destruct o as [o|].
    + destruct o; cbn [s_orient] in F; unfold t_point in F; cbn [app] in F; inv_arel; cbn [app] in Hs;
        pstep; pstep; pstep; head_ty; pstep; unfold parse_point; do 5 pstep; pstep; pstep; head_ty;
        pstep; pstep; pstep; pstep; (apply Kk; [assumption | congruence |]);
        unfold lef_foreign_eqb, lef_point_eqb; cbn; rewrite bytes_eqb_refl; deq.
    + unfold t_point in F; cbn [app] in F; inv_arel; cbn [app] in Hs.
      pstep; pstep; pstep; head_ty; pstep; unfold parse_point; do 5 pstep; pstep; pstep; head_ty.
      pstep; pstep; (apply Kk; [assumption | congruence |]).
      unfold lef_foreign_eqb, lef_point_eqb; cbn; rewrite bytes_eqb_refl; deq.
  - pose proof (WF eq_refl) as Eo. subst o. cbn [app] in F. inv_arel. cbn [app] in Hs.
    pstep; pstep; pstep; head_ty; pstep; pstep; head_ty; pstep; pstep. apply Kk; [assumption | congruence |].
    unfold lef_foreign_eqb; cbn; rewrite bytes_eqb_refl; reflexivity.
Qed.

(** the statements of a MACRO block *)
Inductive mstmt :=
| MsClass (c : lef_macro_class) | MsFixedMask | MsForeign (f : lef_foreign) | MsOrigin (p : lef_point)
| MsEeq (v : bytes) | MsSize (s : dec * dec) | MsSymmetry (s : list LefSymmetry) | MsSite (v : bytes)
| MsSource (e : LefDefSource) | MsPin (p : lef_pin) | MsObs (ls : list lef_layer_geoms)
| MsDensity (d : list lef_density_geoms) | MsProps (ps : list lef_property).
Definition ms_kind (s : mstmt) : nat :=
  match s with
  | MsClass _ => 0 | MsFixedMask => 1 | MsForeign _ => 2 | MsOrigin _ => 3 | MsEeq _ => 4 | MsSize _ => 5
  | MsSymmetry _ => 6 | MsSite _ => 7 | MsSource _ => 8 | MsPin _ => 9 | MsObs _ => 10 | MsDensity _ => 11
  | MsProps _ => 12
  end.
(** the token sequences of one statement (general form) *)
Definition ms_toksP (s : mstmt) (at_ : list atok) : Prop :=
  match s with
  | MsClass c => Forall2 arel (t_macro_class c) at_
  | MsFixedMask => Forall2 arel [K "FIXEDMASK"; SSemi] at_
  | MsForeign f => Forall2 arel (t_foreign f) at_ /\ foreign_wf f
  | MsOrigin p => Forall2 arel ([K "ORIGIN"] ++ t_point p ++ [SSemi]) at_
  | MsEeq v => Forall2 arel [K "EEQ"; SName v; SSemi] at_
  | MsSize sz => Forall2 arel (t_size sz) at_
  | MsSymmetry sy => Forall2 arel (t_symmetry sy) at_
  | MsSite v => Forall2 arel [K "SITE"; SName v; SSemi] at_
  | MsSource e => Forall2 arel [K "SOURCE"; K (s_source e); SSemi] at_
  | MsPin p => pin_toksP p at_ /\ exists a at', at_ = a :: at' /\ arel (SKw "PIN") a
  | MsObs ls => obs_toksP ls at_
  | MsDensity d => Forall2 arel (t_density d) at_
  | MsProps ps => Forall2 arel (prop_toks ps) at_ /\ Forall prop_val_ok ps
  end.
Definition mstate : Type := (lef_macro * list lef_property)%type.
(** the effect of one statement on the macro under construction and on the property list *)
Definition mstep (s : mstmt) (st st' : mstate) : Prop :=
  match s with
  | MsClass c => exists c', lef_macro_class_eqb dec_eq c c' = true /\ st' = (set_mac_class (Some c') (fst st), snd st)
  | MsFixedMask => exists u : unit, True /\ st' = (set_mac_fixed_mask true (fst st), snd st)
  | MsForeign f => exists f', lef_foreign_eqb dec_eq f f' = true /\ st' = (set_mac_foreign (Some f') (fst st), snd st)
  | MsOrigin p => exists p', lef_point_eqb dec_eq p p' = true /\ st' = (set_mac_origin (Some p') (fst st), snd st)
  | MsEeq v => exists u : unit, True /\ st' = (set_mac_eeq (Some v) (fst st), snd st)
  | MsSize sz => exists sz', pair_eqb dec_eq dec_eq sz sz' = true /\ st' = (set_mac_size (Some sz') (fst st), snd st)
  | MsSymmetry sy => exists sy', list_eqb LefSymmetry_eqb sy sy' = true /\ st' = (set_mac_symmetry (Some sy') (fst st), snd st)
  | MsSite v => exists u : unit, True /\ st' = (set_mac_site (Some v) (fst st), snd st)
  | MsSource e => exists u : unit, True /\ st' = (set_mac_source (Some e) (fst st), snd st)
  | MsPin p => exists p', lef_pin_eqb dec_eq p p' = true /\ st' = (set_mac_pins (mac_pins (fst st) ++ [p']) (fst st), snd st)
  | MsObs ls => exists ls', list_eqb (lef_layer_geoms_eqb dec_eq) ls ls' = true /\ st' = (set_mac_obs ls' (fst st), snd st)
  | MsDensity d => exists d', list_eqb (lef_density_geoms_eqb dec_eq) d d' = true /\ st' = (set_mac_density (Some d') (fst st), snd st)
  | MsProps ps => exists u : unit, True /\ st' = (fst st, snd st ++ ps)
  end.

Lemma ms_toksP_head : forall s at_, ms_toksP s at_ -> exists a at', at_ = a :: at'.
Proof.
  intros s at_ H. destruct s; cbn [ms_toksP] in H;
    try (match type of H with Forall2 _ _ _ /\ _ => destruct H as [H _] end);
    try (apply LefRt_Forall2_cons_inv in H; destruct H as (a & at' & -> & _); eauto; fail).
  - destruct H as (_ & a & at' & -> & _). eauto.
  - destruct H as (a0 & aLs & aend & -> & _). eauto.
Qed.

Ltac mac_tail IH HP Lf :=
  eapply post_weaken; [|eapply post_specv; [eapply IH; eassumption | | | eassumption | congruence]];
  [ cbv beta; let r := fresh "r" in let St := fresh "St" in intros r St; cbn [steps]; eexists; split; [|exact St]; cbn [mstep fst snd]
  | cbv beta; cbn [concat] in Lf; rewrite app_length in Lf; cbn [List.length] in Lf; lia
  | cbv beta; let e := fresh "e" in let I := fresh "I" in intros (e & I); apply HP; exists e; right; exact I ].

Lemma macro_loop_ok : forall L atL, Forall2 ms_toksP L atL -> forall aend, arel (SKw "END") aend -> forall f mac props,
  specv (macro_loop cf src f mac props) (concat atL ++ [aend])
        (fun rest => (List.length (concat atL) + 1 + List.length rest < f)%nat)
        (fun v => (exists e, In (MsSource e) L) -> dec_gt v V5P4 = false)
        (fun r => steps mstep L (mac, props) r).
Proof.
  induction L as [|x L IH]; intros atL FL aend AE f mac props st rest Lf HP Hs.
  - inversion FL; subst. cbn [concat app List.length] in *. destruct f as [|f]; [lia|]. cbn [macro_loop].
    pstep. cbv iota. pstep. pret. reflexivity.
  - inversion FL as [|x' at_x L' atL' Fx FL']; subst.
    destruct f as [|f]; [exfalso; lia|]. cbn [macro_loop].
    cbn [concat] in Hs. rewrite <- (app_assoc at_x) in Hs. rewrite <- (app_assoc at_x) in Hs.
    set (tl := (concat atL' ++ [aend]) ++ rest) in Hs.
    destruct x as [c| |fo|p|v|sz|sy|v|e|p|ls|d|ps]; cbn [ms_toksP] in Fx.
    + (* CLASS *)
      destruct (head_kw "CLASS" _ at_x Fx) as (a & at' & -> & A). cbn [app] in Hs.
      pstep. cbv iota. pb (parse_macro_class_ok c (a :: at') Fx). subst tl.
      mac_tail IH HP Lf. eexists. split; [eassumption | reflexivity].
    + (* FIXEDMASK ; *)
      unfold K in Fx. inv_arel. cbn [app] in Hs. pstep. cbv iota. pstep. pstep. subst tl.
      mac_tail IH HP Lf. exists tt. split; [exact I | reflexivity].
    + (* FOREIGN *)
      destruct Fx as [Fx WF]. destruct (head_kw "FOREIGN" _ at_x Fx) as (a & at' & -> & A).
      pose proof Hs as Hs'. cbn [app] in Hs'. pstep. cbv iota.
      eapply (post_foreign fo (a :: at') (fun fo' => macro_loop cf src f (set_mac_foreign (Some fo') mac) props) st tl);
        [exact Fx | exact WF | exact Hs |].
      intros fo' st1 Hs1 Hv1 Efo. subst tl.
      mac_tail IH HP Lf. eexists. split; [eassumption | reflexivity].
    + (* ORIGIN pt ; *)
      unfold t_point, K in Fx. cbn [app] in Fx. inv_arel. cbn [app] in Hs.
      pstep. cbv iota. pstep. unfold parse_point. do 5 pstep. pstep. subst tl.
      mac_tail IH HP Lf. eexists. split; [|reflexivity]. unfold lef_point_eqb. deq.
    + (* EEQ name ; *)
      unfold K in Fx. inv_arel. cbn [app] in Hs. pstep. cbv iota.
      pb (ident_stmt_ok src a v a0 a1 ltac:(eassumption) ltac:(eassumption)). subst tl.
      mac_tail IH HP Lf. exists tt. split; [exact I | reflexivity].
    + (* SIZE *)
      destruct (head_kw "SIZE" _ at_x Fx) as (a & at' & -> & A). cbn [app] in Hs.
      pstep. cbv iota. pb (parse_size_ok src sz (a :: at') Fx). subst tl.
      mac_tail IH HP Lf. eexists. split; [eassumption | reflexivity].
    + (* SYMMETRY *)
      destruct (head_kw "SYMMETRY" _ at_x Fx) as (a & at' & -> & A). cbn [app] in Hs.
      pstep. cbv iota. pb (parse_symmetries_ok src sy (a :: at') Fx). subst tl.
      mac_tail IH HP Lf. eexists. split; [eassumption | reflexivity].
    + (* SITE name ; *)
      unfold K in Fx. inv_arel. cbn [app] in Hs. pstep. cbv iota.
      pb (ident_stmt_ok src a v a0 a1 ltac:(eassumption) ltac:(eassumption)). subst tl.
      mac_tail IH HP Lf. exists tt. split; [exact I | reflexivity].
    + (* SOURCE value ; *)
      assert (Hg : dec_gt (p_ver st) V5P4 = false) by (apply HP; exists e; left; reflexivity).
      destruct e; unfold K in Fx; cbn [s_source] in Fx; inv_arel; cbn [app] in Hs; pstep; cbv iota; pstep; rewrite Hg;
        unfold when; pstep;
        (pb (enum_stmt_ok src LefDefSource_from_str a _ _ a0 a1 ltac:(eassumption) ltac:(vm_compute; reflexivity) ltac:(eassumption)));
        subst tl; mac_tail IH HP Lf; exists tt; (split; [exact I | reflexivity]).
    + (* PIN *)
      destruct Fx as (Fx & a & at' & -> & A). cbn [app] in Hs.
      pstep. cbv iota. pb (parse_pin_P p (a :: at') Fx). subst tl.
      mac_tail IH HP Lf. eexists. split; [eassumption | reflexivity].
    + (* OBS *)
      pose proof Fx as (a & aLs & aend' & -> & A & _). cbn [app] in Hs.
      pstep. cbv iota. pb (parse_obs_P ls _ Fx). subst tl.
      mac_tail IH HP Lf. eexists. split; [eassumption | reflexivity].
    + (* DENSITY *)
      destruct (head_kw "DENSITY" _ at_x Fx) as (a & at' & -> & A). cbn [app] in Hs.
      pstep. cbv iota. pb (parse_density_ok d (a :: at') Fx). subst tl.
      mac_tail IH HP Lf. eexists. split; [eassumption | reflexivity].
    + (* PROPERTY name value .. ; *)
      destruct Fx as [Fx PV]. destruct (head_kw "PROPERTY" _ at_x Fx) as (a & at' & -> & A). cbn [app] in Hs.
      pstep. cbv iota. pb (parse_property_ok src ps (a :: at') Fx PV props). subst tl.
      mac_tail IH HP Lf. exists tt. split; [exact I | reflexivity].
Qed.

Lemma mstep_comm : forall x y s s2, ms_kind x <> ms_kind y ->
  (exists s1, mstep x s s1 /\ mstep y s1 s2) -> exists s1, mstep y s s1 /\ mstep x s1 s2.
Proof.
  intros x y s s2 NK (s1 & H1 & H2).
  destruct x, y; cbn [ms_kind] in NK; try congruence; cbn [mstep] in *;
    destruct H1 as (x' & E1 & ->); destruct H2 as (y' & E2 & ->);
    (eexists; split; [eexists; split; [exact E2 | reflexivity]
                     | eexists; split; [exact E1 | destruct s as [m0 ps0]; destruct m0; reflexivity]]).
Qed.

(** the canonical statement order (the order of [t_macro]'s item list); [pss]: the properties, one list per statement *)
Definition opt_list {A} (f : A -> mstmt) (o : option A) : list mstmt := match o with Some x => [f x] | None => [] end.
Definition obs_list (l : list lef_layer_geoms) : list mstmt := match l with [] => [] | x :: r => [MsObs (x :: r)] end.
Definition macro_canon (m : lef_macro) (pss : list (list lef_property)) : list mstmt :=
  opt_list MsClass (mac_class m)
  ++ (if mac_fixed_mask m then [MsFixedMask] else [])
  ++ opt_list MsForeign (mac_foreign m)
  ++ opt_list MsOrigin (mac_origin m)
  ++ opt_list MsEeq (mac_eeq m)
  ++ opt_list MsSize (mac_size m)
  ++ opt_list MsSymmetry (mac_symmetry m)
  ++ opt_list MsSite (mac_site m)
  ++ opt_list MsSource (mac_source m)
  ++ map MsPin (mac_pins m)
  ++ obs_list (mac_obs m)
  ++ opt_list MsDensity (mac_density m)
  ++ map MsProps pss.

(** group lemmas: the effect of each group of the canonical order on a macro whose field is still empty *)
Ltac opt_group o H0 :=
  let H := fresh "H" in
  intros o mc ps s' H0 H; destruct o as [x|]; cbn [opt_list steps mstep fst snd] in H;
  [ destruct H as (s1 & (x' & E & ->) & <-); exists (Some x'); split; [exact E | reflexivity]
  | subst s'; exists None; split; [reflexivity|]; destruct mc; cbn in H0; subst; reflexivity ].
Ltac opt_group_u o H0 :=
  let H := fresh "H" in
  intros o mc ps s' H0 H; destruct o as [x|]; cbn [opt_list steps mstep fst snd] in H;
  [ destruct H as (s1 & (x' & E & ->) & <-); reflexivity
  | subst s'; destruct mc; cbn in H0; subst; reflexivity ].

Lemma steps_class : forall o mc ps s', mac_class mc = None -> steps mstep (opt_list MsClass o) (mc, ps) s' ->
  exists o', option_eqb (lef_macro_class_eqb dec_eq) o o' = true /\ s' = (set_mac_class o' mc, ps).
Proof. opt_group o H0. Qed.
Lemma steps_fixed : forall (b : bool) mc ps s', mac_fixed_mask mc = false ->
  steps mstep (if b then [MsFixedMask] else []) (mc, ps) s' -> s' = (set_mac_fixed_mask b mc, ps).
Proof.
  intros b mc ps s' H0 H. destruct b; cbn [steps mstep fst snd] in H.
  - destruct H as (s1 & (x' & E & ->) & <-). reflexivity.
  - subst s'. destruct mc; cbn in H0; subst; reflexivity.
Qed.
Lemma steps_foreign : forall o mc ps s', mac_foreign mc = None -> steps mstep (opt_list MsForeign o) (mc, ps) s' ->
  exists o', option_eqb (lef_foreign_eqb dec_eq) o o' = true /\ s' = (set_mac_foreign o' mc, ps).
Proof. opt_group o H0. Qed.
Lemma steps_origin : forall o mc ps s', mac_origin mc = None -> steps mstep (opt_list MsOrigin o) (mc, ps) s' ->
  exists o', option_eqb (lef_point_eqb dec_eq) o o' = true /\ s' = (set_mac_origin o' mc, ps).
Proof. opt_group o H0. Qed.
Lemma steps_eeq : forall o mc ps s', mac_eeq mc = None -> steps mstep (opt_list MsEeq o) (mc, ps) s' ->
  s' = (set_mac_eeq o mc, ps).
Proof. opt_group_u o H0. Qed.
Lemma steps_size : forall o mc ps s', mac_size mc = None -> steps mstep (opt_list MsSize o) (mc, ps) s' ->
  exists o', option_eqb (pair_eqb dec_eq dec_eq) o o' = true /\ s' = (set_mac_size o' mc, ps).
Proof. opt_group o H0. Qed.
Lemma steps_symmetry : forall o mc ps s', mac_symmetry mc = None -> steps mstep (opt_list MsSymmetry o) (mc, ps) s' ->
  exists o', option_eqb (list_eqb LefSymmetry_eqb) o o' = true /\ s' = (set_mac_symmetry o' mc, ps).
Proof. opt_group o H0. Qed.
Lemma steps_site : forall o mc ps s', mac_site mc = None -> steps mstep (opt_list MsSite o) (mc, ps) s' ->
  s' = (set_mac_site o mc, ps).
Proof. opt_group_u o H0. Qed.
Lemma steps_source : forall o mc ps s', mac_source mc = None -> steps mstep (opt_list MsSource o) (mc, ps) s' ->
  s' = (set_mac_source o mc, ps).
Proof. opt_group_u o H0. Qed.
Lemma steps_pins : forall l mc ps s', steps mstep (map MsPin l) (mc, ps) s' ->
  exists l', list_eqb (lef_pin_eqb dec_eq) l l' = true /\ s' = (set_mac_pins (mac_pins mc ++ l') mc, ps).
Proof.
  induction l as [|x l IH]; intros mc ps s' H; cbn [map steps] in H.
  - subst. exists []. split; [reflexivity|]. rewrite app_nil_r. destruct mc; reflexivity.
  - destruct H as (s1 & (x' & E & ->) & H). cbn [fst snd] in H. destruct (IH _ _ _ H) as (l' & E' & ->).
    exists (x' :: l'). split; [cbn [list_eqb]; rewrite E, E'; reflexivity|].
    destruct mc. cbn. rewrite <- app_assoc. reflexivity.
Qed.
Lemma steps_obs : forall l mc ps s', mac_obs mc = [] ->
  steps mstep (obs_list l) (mc, ps) s' ->
  exists l', list_eqb (lef_layer_geoms_eqb dec_eq) l l' = true /\ s' = (set_mac_obs l' mc, ps).
Proof.
  intros l mc ps s' H0 H. destruct l as [|x l]; cbn [obs_list steps mstep fst snd] in H.
  - subst s'. exists []. split; [reflexivity|]. destruct mc; cbn in H0; subst; reflexivity.
  - destruct H as (s1 & (x' & E & ->) & <-). exists x'. split; [exact E | reflexivity].
Qed.
Lemma steps_density : forall o mc ps s', mac_density mc = None -> steps mstep (opt_list MsDensity o) (mc, ps) s' ->
  exists o', option_eqb (list_eqb (lef_density_geoms_eqb dec_eq)) o o' = true /\ s' = (set_mac_density o' mc, ps).
Proof. opt_group o H0. Qed.
Lemma steps_props : forall pss mc ps s', steps mstep (map MsProps pss) (mc, ps) s' -> s' = (mc, ps ++ concat pss).
Proof.
  induction pss as [|x pss IH]; intros mc ps s' H; cbn [map steps] in H.
  - subst. cbn [concat]. rewrite app_nil_r. reflexivity.
  - destruct H as (s1 & (u & _ & ->) & H). cbn [fst snd] in H. rewrite (IH _ _ _ H). cbn [concat]. rewrite app_assoc. reflexivity.
Qed.

(** the token sequences of a MACRO block, in general form: `MACRO name`, the statements in any order that keeps the
    order of the pins and of the PROPERTY statements (the properties split over the statements in any way), `END name` *)
Definition macro_toksP (m : lef_macro) (atoks : list atok) : Prop :=
  exists L pss atL a1 a2 aend an,
    atoks = a1 :: a2 :: concat atL ++ [aend; an]
    /\ arel (SKw "MACRO") a1 /\ arel (SName (mac_name m)) a2 /\ arel (SKw "END") aend /\ arel (SName (mac_name m)) an
    /\ Forall2 ms_toksP L atL
    /\ concat pss = mac_properties m
    /\ (forall k, filter (fun x => Nat.eqb (ms_kind x) k) L = filter (fun x => Nat.eqb (ms_kind x) k) (macro_canon m pss)).

Lemma macro_toksP_head : forall m atoks, macro_toksP m atoks -> exists a0 at', atoks = a0 :: at' /\ arel (SKw "MACRO") a0.
Proof. intros m atoks (L & pss & atL & a1 & a2 & aend & an & -> & A1 & _). eauto. Qed.

Lemma list_eqb_refl {A} (f : A -> A -> bool) : (forall x, f x x = true) -> forall l, list_eqb f l l = true.
Proof. intros R. induction l as [|x l IH]; [reflexivity|]. cbn [list_eqb]. rewrite R, IH. reflexivity. Qed.
Lemma option_eqb_refl {A} (f : A -> A -> bool) : (forall x, f x x = true) -> forall o, option_eqb f o o = true.
Proof. intros R [x|]; [apply R | reflexivity]. Qed.
Lemma lef_property_eqb_refl : forall x, lef_property_eqb dec_eq x x = true.
Proof. intros x. unfold lef_property_eqb. rewrite !bytes_eqb_refl. reflexivity. Qed.
Lemma LefDefSource_eqb_refl : forall e, LefDefSource_eqb e e = true.
Proof. destruct e; reflexivity. Qed.

Lemma source_in_canon : forall m pss L e,
  (forall k, filter (fun x => Nat.eqb (ms_kind x) k) L = filter (fun x => Nat.eqb (ms_kind x) k) (macro_canon m pss)) ->
  In (MsSource e) L -> mac_source m <> None.
Proof.
  intros m pss L e HF I.
  assert (I' : In (MsSource e) (filter (fun x => Nat.eqb (ms_kind x) 8) L)) by (apply filter_In; split; [exact I | reflexivity]).
  rewrite HF in I'. apply filter_In in I'. destruct I' as [I' _]. unfold macro_canon in I'.
  repeat (apply in_app_or in I'; destruct I' as [I'|I']);
    try (match type of I' with In _ (opt_list _ ?o) => destruct o; cbn in I'; destruct I' as [I'|[]]; discriminate I' || (intros; discriminate) end; fail).
  - destruct (mac_class m); cbn in I'; [destruct I' as [I'|[]]; discriminate | destruct I'].
  - destruct (mac_fixed_mask m); cbn in I'; [destruct I' as [I'|[]]; discriminate | destruct I'].
  - destruct (mac_foreign m); cbn in I'; [destruct I' as [I'|[]]; discriminate | destruct I'].
  - destruct (mac_origin m); cbn in I'; [destruct I' as [I'|[]]; discriminate | destruct I'].
  - destruct (mac_eeq m); cbn in I'; [destruct I' as [I'|[]]; discriminate | destruct I'].
  - destruct (mac_size m); cbn in I'; [destruct I' as [I'|[]]; discriminate | destruct I'].
  - destruct (mac_symmetry m); cbn in I'; [destruct I' as [I'|[]]; discriminate | destruct I'].
  - destruct (mac_site m); cbn in I'; [destruct I' as [I'|[]]; discriminate | destruct I'].
  - destruct (mac_source m); cbn in I'; [discriminate | destruct I'].
  - apply in_map_iff in I'. destruct I' as (? & ? & _). discriminate.
  - destruct (mac_obs m); cbn in I'; [destruct I' | destruct I' as [I'|[]]; discriminate].
  - destruct (mac_density m); cbn in I'; [destruct I' as [I'|[]]; discriminate | destruct I'].
  - apply in_map_iff in I'. destruct I' as (? & ? & _). discriminate.
Qed.

Lemma parse_macro_P : forall m atoks, macro_toksP m atoks ->
  specv (parse_macro cf src) atoks Any (fun v => mac_source m <> None -> dec_gt v V5P4 = false)
        (fun m' => lef_macro_eqb dec_eq m m' = true).
Proof.
  intros m atoks (L & pss & atL & a1 & a2 & aend & an & -> & A1 & A2 & AE & AN & FL & EP & HF) st rest _ HP Hs.
  cbn [app] in Hs. unfold parse_macro. pstep. pstep. pstep. pstep.
  match goal with Hx : sees _ ((concat atL ++ [aend; an]) ++ rest) |- _ =>
    replace ((concat atL ++ [aend; an]) ++ rest) with ((concat atL ++ [aend]) ++ (an :: rest)) in Hx
      by (repeat rewrite <- app_assoc; reflexivity) end.
  lazymatch goal with |- LefRtFrame_proofs.post _ _ _ _ (bind (macro_loop _ _ (fuel_of ?s) ?mc ?pr) _ ?s') =>
    assert (ML : post (an :: rest) (p_ver s') (fun r => steps mstep L (mc, pr) r) (macro_loop cf src (fuel_of s) mc pr s')) end.
  { apply (macro_loop_ok L atL FL aend AE).
    - match goal with Hx : sees ?s _ |- context [fuel_of ?s] => rewrite (fuel_of_sees src _ _ Hx) end.
      repeat rewrite app_length. cbn [List.length]. lia.
    - intros (e & Ie). replace (p_ver st2) with (p_ver st) by congruence. apply HP.
      exact (source_in_canon m pss L e HF Ie).
    - assumption. }
  unfold bind at 1.
  destruct ML as (r & st' & -> & Hs' & Hv' & St).
  destruct r as [mac props]. cbv beta iota.
  unfold expect_ident. pstep. pstep. rewrite bytes_eqb_refl. pstep. pstep. pret.
  cbn [c_drop_props cfg_fixed].
  apply (steps_perm ms_kind mstep mstep_comm (macro_canon m pss) L HF) in St.
  unfold macro_canon in St.
  apply steps_app in St. destruct St as (s1 & Q1 & St). apply steps_class in Q1; [|reflexivity]. destruct Q1 as (o1 & E1 & ->).
  apply steps_app in St. destruct St as (s2 & Q2 & St). apply steps_fixed in Q2; [|reflexivity]. subst s2.
  apply steps_app in St. destruct St as (s3 & Q3 & St). apply steps_foreign in Q3; [|reflexivity]. destruct Q3 as (o3 & E3 & ->).
  apply steps_app in St. destruct St as (s4 & Q4 & St). apply steps_origin in Q4; [|reflexivity]. destruct Q4 as (o4 & E4 & ->).
  apply steps_app in St. destruct St as (s5 & Q5 & St). apply steps_eeq in Q5; [|reflexivity]. subst s5.
  apply steps_app in St. destruct St as (s6 & Q6 & St). apply steps_size in Q6; [|reflexivity]. destruct Q6 as (o6 & E6 & ->).
  apply steps_app in St. destruct St as (s7 & Q7 & St). apply steps_symmetry in Q7; [|reflexivity]. destruct Q7 as (o7 & E7 & ->).
  apply steps_app in St. destruct St as (s8 & Q8 & St). apply steps_site in Q8; [|reflexivity]. subst s8.
  apply steps_app in St. destruct St as (s9 & Q9 & St). apply steps_source in Q9; [|reflexivity]. subst s9.
  apply steps_app in St. destruct St as (s10 & Q10 & St). apply steps_pins in Q10. destruct Q10 as (l10 & E10 & ->).
  apply steps_app in St. destruct St as (s11 & Q11 & St). apply steps_obs in Q11; [|reflexivity]. destruct Q11 as (l11 & E11 & ->).
  apply steps_app in St. destruct St as (s12 & Q12 & St). apply steps_density in Q12; [|reflexivity]. destruct Q12 as (o12 & E12 & ->).
  apply steps_props in St. injection St as -> ->.
  rewrite EP. cbn [app].
  unfold lef_macro_eqb. destruct m. cbn -[lef_pin_eqb lef_layer_geoms_eqb lef_macro_class_eqb lef_foreign_eqb lef_point_eqb
    pair_eqb lef_density_geoms_eqb lef_property_eqb list_eqb option_eqb bytes_eqb Bool.eqb LefDefSource_eqb dec_eq] in *.
  rewrite bytes_eqb_refl, E10, E11, E1, E3, E4, E6, E7.
  rewrite !(option_eqb_refl bytes_eqb bytes_eqb_refl), (option_eqb_refl _ LefDefSource_eqb_refl), Bool.eqb_reflx,
    (list_eqb_refl _ lef_property_eqb_refl), E12. reflexivity.
Qed.

(** ** the specification's MACRO block is of that form *)
Hypothesis pin_toksP_spec : forall sty off p atoks, pin_ok p = true -> Forall2 arel (t_pin sty off p) atoks -> pin_toksP p atoks.
Definition titem : Type := (mstmt * list stok)%type.
Definition tkind (x : titem) : nat := ms_kind (fst x).
Definition opt_body {A} (C : A -> mstmt) (f : A -> list stok) (o : option A) : list titem :=
  match o with Some x => [(C x, f x)] | None => [] end.
Fixpoint pin_body (sty : style) (off : nat) (ps : list lef_pin) : list titem :=
  match ps with [] => [] | p :: r => (MsPin p, t_pin sty off p) :: pin_body sty (off + 101) r end.
Definition props_body (sty : style) (ps : list lef_property) : list titem :=
  match ps with
  | [] => []
  | _ => if sty_props_joined sty then [(MsProps ps, prop_toks ps)] else map (fun p => (MsProps [p], t_property p)) ps
  end.
Definition props_split (sty : style) (ps : list lef_property) : list (list lef_property) :=
  match ps with [] => [] | _ => if sty_props_joined sty then [ps] else map (fun p => [p]) ps end.
Definition macro_body (sty : style) (off : nat) (m : lef_macro) : list titem :=
  opt_body MsClass t_macro_class (mac_class m)
  ++ (if mac_fixed_mask m then [(MsFixedMask, [K "FIXEDMASK"; SSemi])] else [])
  ++ opt_body MsForeign t_foreign (mac_foreign m)
  ++ opt_body MsOrigin (fun p => [K "ORIGIN"] ++ t_point p ++ [SSemi]) (mac_origin m)
  ++ opt_body MsEeq (fun v => [K "EEQ"; SName v; SSemi]) (mac_eeq m)
  ++ opt_body MsSize t_size (mac_size m)
  ++ opt_body MsSymmetry t_symmetry (mac_symmetry m)
  ++ opt_body MsSite (fun v => [K "SITE"; SName v; SSemi]) (mac_site m)
  ++ opt_body MsSource (fun v => [K "SOURCE"; K (s_source v); SSemi]) (mac_source m)
  ++ pin_body sty (off + 5) (mac_pins m)
  ++ (match mac_obs m with [] => [] | x :: r => [(MsObs (x :: r), t_obs sty (off + 11) (x :: r))] end)
  ++ opt_body MsDensity t_density (mac_density m)
  ++ props_body sty (mac_properties m).

Lemma pin_body_items : forall sty ps off, map (fun x : titem => (tkind x, snd x)) (pin_body sty off ps) = pin_items sty off ps.
Proof. intros sty. induction ps as [|p ps IH]; intros off; [reflexivity|]. cbn [pin_body pin_items map]. rewrite IH. reflexivity. Qed.
Lemma props_body_items : forall sty ps, map (fun x : titem => (tkind x, snd x)) (props_body sty ps) = property_items sty 12 ps.
Proof.
  intros sty [|p ps]; [reflexivity|]. unfold props_body, property_items. destruct (sty_props_joined sty); [reflexivity|].
  rewrite map_map. reflexivity.
Qed.

Lemma t_macro_body : forall sty off m,
  t_macro sty off m = [K "MACRO"; SName (mac_name m)]
                      ++ concat (map snd (interleave (sty_keys sty) off (map (fun x : titem => (tkind x, x)) (macro_body sty off m))))
                      ++ [K "END"; SName (mac_name m)].
Proof.
  intros sty off m. unfold t_macro. cbv zeta. f_equal. f_equal. f_equal.
  rewrite <- (interleave_map titem (list stok) snd (sty_keys sty) off). f_equal. rewrite map_map. cbn [fst snd].
  unfold macro_body. rewrite !map_app.
  repeat match goal with |- ?a ++ ?b = ?c ++ ?d => apply (f_equal2 (@app _)) end;
    try (match goal with |- context [opt_item _ ?o _] => destruct o; reflexivity end).
  - destruct (mac_fixed_mask m); reflexivity.
  - symmetry. apply pin_body_items.
  - destruct (mac_obs m); reflexivity.
  - symmetry. apply props_body_items.
Qed.

Lemma pin_body_fst : forall sty ps off, map fst (pin_body sty off ps) = map MsPin ps.
Proof. intros sty. induction ps as [|p ps IH]; intros off; [reflexivity|]. cbn [pin_body map fst]. rewrite IH. reflexivity. Qed.
Lemma props_body_fst : forall sty ps, map fst (props_body sty ps) = map MsProps (props_split sty ps).
Proof.
  intros sty [|p ps]; [reflexivity|]. unfold props_body, props_split. destruct (sty_props_joined sty); [reflexivity|].
  rewrite !map_map. reflexivity.
Qed.
Lemma props_split_concat : forall sty ps, concat (props_split sty ps) = ps.
Proof.
  intros sty [|p ps]; [reflexivity|]. unfold props_split. destruct (sty_props_joined sty); [cbn [concat]; apply app_nil_r|].
  generalize (p :: ps). induction l as [|x l IH]; [reflexivity|]. cbn [map concat app]. rewrite IH. reflexivity.
Qed.
Lemma macro_body_canon : forall sty off m,
  map fst (macro_body sty off m) = macro_canon m (props_split sty (mac_properties m)).
Proof.
  intros sty off m. unfold macro_body, macro_canon. rewrite !map_app.
  repeat match goal with |- ?a ++ ?b = ?c ++ ?d => apply (f_equal2 (@app _)) end;
    try (match goal with |- context [opt_list _ ?o] => destruct o; reflexivity end).
  - destruct (mac_fixed_mask m); reflexivity.
  - apply pin_body_fst.
  - destruct (mac_obs m); reflexivity.
  - apply props_body_fst.
Qed.

(** a property value is not `;` *)
Lemma bytes_eqb_true : forall a b, bytes_eqb a b = true -> a = b.
Proof.
  induction a as [|x a IH]; intros [|y b] H; try discriminate; [reflexivity|].
  cbn [bytes_eqb] in H. apply andb_prop in H. destruct H as [H1 H2]. apply Z.eqb_eq in H1. subst. f_equal. apply IH. exact H2.
Qed.
Lemma property_ok_val : forall p, property_ok p = true -> prop_val_ok p.
Proof.
  intros p H. unfold property_ok in H. apply andb_prop in H. destruct H as [_ H]. unfold prop_val_ok.
  destruct (bytes_eqb (pr_value p) [59]) eqn:E; [|reflexivity].
  apply bytes_eqb_true in E. rewrite E in H. vm_compute in H. discriminate.
Qed.

Definition good (x : titem) : Prop := forall ax, Forall2 arel (snd x) ax -> ms_toksP (fst x) ax.

Lemma macro_body_good : forall sty off old m, macro_ok old m = true -> Forall good (macro_body sty off m).
Proof.
  intros sty off old m O. unfold macro_ok in O.
  repeat match type of O with (_ && _ = true) => apply andb_prop in O; let H := fresh "O" in destruct O as [O H] end.
  unfold macro_body. repeat rewrite Forall_app. repeat split.
  - destruct (mac_class m); constructor; [|constructor]. intros ax F. exact F.
  - destruct (mac_fixed_mask m); constructor; [|constructor]. intros ax F. exact F.
  - destruct (mac_foreign m) as [fo|]; constructor; [|constructor]. intros ax F. split; [exact F|].
    cbn [optb] in *.
    match goal with X : (_ && _ && match fo_pt fo with _ => _ end) = true |- _ => apply andb_prop in X; destruct X as [_ X] end.
    intros E. cbn [fst]. rewrite E in *. destruct (fo_orient fo); [discriminate | reflexivity].
  - destruct (mac_origin m); constructor; [|constructor]. intros ax F. exact F.
  - destruct (mac_eeq m); constructor; [|constructor]. intros ax F. exact F.
  - destruct (mac_size m); constructor; [|constructor]. intros ax F. exact F.
  - destruct (mac_symmetry m); constructor; [|constructor]. intros ax F. exact F.
  - destruct (mac_site m); constructor; [|constructor]. intros ax F. exact F.
  - destruct (mac_source m); constructor; [|constructor]. intros ax F. exact F.
  - match goal with X : forallb pin_ok _ = true |- _ => revert X end. generalize (off + 5)%nat. generalize (mac_pins m).
    induction l as [|p l IH]; intros o X; cbn [pin_body]; constructor.
    + cbn [forallb] in X. apply andb_prop in X. destruct X as [X1 _]. intros ax F. cbn [fst snd] in *. split.
      * exact (pin_toksP_spec sty o p ax X1 F).
      * unfold t_pin, K in F. cbn [app] in F. apply LefRt_Forall2_cons_inv in F. destruct F as (a & at' & -> & A & _). eauto.
    + cbn [forallb] in X. apply andb_prop in X. destruct X as [_ X2]. apply IH. exact X2.
  - destruct (mac_obs m) as [|x r] eqn:EO; constructor; [|constructor]. intros ax F. cbn [fst snd] in *.
    apply (obs_toksP_spec sty (off + 11) (x :: r) ax); assumption.
  - destruct (mac_density m); constructor; [|constructor]. intros ax F. exact F.
  - assert (PV : Forall prop_val_ok (mac_properties m)).
    { apply Forall_forall. intros p Hp. apply property_ok_val.
      match goal with X : forallb property_ok _ = true |- _ => rewrite forallb_forall in X; apply X; exact Hp end. }
    unfold props_body. destruct (mac_properties m) as [|p ps] eqn:EP; [constructor|].
    destruct (sty_props_joined sty).
    + constructor; [|constructor]. intros ax F. split; [exact F | exact PV].
    + apply Forall_forall. intros x Hx. apply in_map_iff in Hx. destruct Hx as (q & <- & Hq).
      intros ax F. cbn [fst snd] in *. split; [exact F|]. constructor; [|constructor].
      rewrite Forall_forall in PV. apply PV. exact Hq.
Qed.

Lemma filter_map_fst : forall (k : nat) (l : list titem),
  filter (fun x => Nat.eqb (ms_kind x) k) (map fst l) = map fst (filter (fun x => Nat.eqb (tkind x) k) l).
Proof.
  intros k. induction l as [|x l IH]; [reflexivity|]. cbn [map filter]. unfold tkind at 1.
  destruct (Nat.eqb (ms_kind (fst x)) k); cbn [map]; rewrite IH; reflexivity.
Qed.
Lemma Forall2_good : forall (IL : list titem) atL, Forall good IL ->
  Forall2 (fun x ax => Forall2 arel (snd x) ax) IL atL -> Forall2 ms_toksP (map fst IL) atL.
Proof.
  intros IL atL G F. induction F as [|x ax IL atL Fx F IH]; [constructor|]. inversion G; subst.
  cbn [map]. constructor; [|apply IH; assumption]. match goal with X : good x |- _ => apply X end. exact Fx.
Qed.

Lemma macro_toksP_spec : forall sty off old m atoks, macro_ok old m = true ->
  Forall2 arel (t_macro sty off m) atoks -> macro_toksP m atoks.
Proof.
  intros sty off old m atoks O F. rewrite t_macro_body in F.
  set (body := macro_body sty off m) in *.
  set (IL := interleave (sty_keys sty) off (map (fun x : titem => (tkind x, x)) body)) in *.
  assert (KS : forall k, filter (fun x => Nat.eqb (tkind x) k) IL = filter (fun x => Nat.eqb (tkind x) k) body)
    by (intros k; apply (interleave_kind_stable titem tkind)).
  unfold K in F. cbn [app] in F.
  apply LefRt_Forall2_cons_inv in F. destruct F as (a1 & at1 & -> & A1 & F).
  apply LefRt_Forall2_cons_inv in F. destruct F as (a2 & at2 & -> & A2 & F).
  apply Forall2_app_inv_l in F. destruct F as (at_b & at_e & Fb & Fe & ->).
  apply LefRt_Forall2_cons_inv in Fe. destruct Fe as (aend & at3 & -> & AE & Fe).
  apply LefRt_Forall2_cons_inv in Fe. destruct Fe as (an & at4 & -> & AN & Fe).
  apply LefRt_Forall2_nil_inv in Fe. subst at4.
  rewrite concat_map_flat_map in Fb.
  destruct (Forall2_flat_map_inv snd IL at_b Fb) as (atL & -> & FL).
  exists (map fst IL), (props_split sty (mac_properties m)), atL, a1, a2, aend, an.
  split; [reflexivity|]. split; [exact A1|]. split; [exact A2|]. split; [exact AE|]. split; [exact AN|].
  split; [|split].
  - apply Forall2_good; [|exact FL].
    apply (filter_kinds_forall tkind good IL body KS). apply (macro_body_good sty off old m O).
  - apply props_split_concat.
  - intros k. rewrite filter_map_fst, KS, <- filter_map_fst. unfold body. rewrite macro_body_canon. reflexivity.
Qed.

End Macro.

Print Assumptions parse_macro_class_ok.
Print Assumptions parse_density_ok.
Print Assumptions parse_obs_P.
Print Assumptions obs_toksP_spec.
Print Assumptions parse_macro_P.
Print Assumptions macro_toksP_spec.
Print Assumptions macro_toksP_head.
