(** C04 / C05: the library as a whole. [lib_toksP l atoks]: the abstract token sequences of a library in general
    form (VERSION first, then the library-level statements in any order that keeps the order of the vias, of the
    sites, of the macros and of the extensions; END LIBRARY optional from version 5.6 on).
    [parse_lib_P]: on such a token sequence the parser returns a library equal to l (decimals numerically).
    [parse_items]: the same from a text given as a list of items (Lef/LefRtLex_proofs.v). *)
From Coq Require Import String.
From Coq Require Import ZArith List Bool Lia.
From L21 Require Import Lef.LefDec Lef.LefData Lef.LefLex Lef.LefParse Lef.LefSpec Lef.LefCheck
                        Lef.LefLex_proofs Lef.LefParse_proofs Lef.LefRtLex_proofs Lef.LefRtPerm_proofs
                        Lef.LefRtFrame_proofs Lef.LefRtConstr_proofs Lef.LefRtPin_proofs Lef.LefRtVia_proofs
                        Lef.LefRtSiteUnits_proofs Lef.LefRtMacro_proofs Lef.LefRtLib_proofs Lef.LefRtRender_proofs.
Import ListNotations.
Local Open Scope list_scope.
Local Open Scope Z_scope.

Definition mtoksP := macro_toksP pin_toksP.
Definition lstoksP := lib_stmt_toksP units_toksP via_toksP site_toksP mtoksP.

Definition olist {A} (o : option A) : list A := match o with Some x => [x] | None => [] end.
Definition lib_canon (l : lef_lib) : list libstmt :=
  olist (option_map LNcs (lib_names_case_sensitive l))
  ++ olist (option_map LNowire (lib_no_wire_extension_at_pin l))
  ++ olist (option_map (fun c => LBus (fst c) (snd c)) (lib_bus_bit_chars l))
  ++ olist (option_map LDiv (lib_divider_char l))
  ++ olist (option_map LUnits (lib_units l))
  ++ olist (option_map LGrid (lib_manufacturing_grid l))
  ++ olist (option_map LUms (lib_use_min_spacing l))
  ++ olist (option_map LClr (lib_clearance_measure l))
  ++ (match lib_property_definitions l with [] => [] | pds => [LPropdefs pds] end)
  ++ (if lib_fixed_mask l then [LFixedMask] else [])
  ++ map LVia (lib_vias l) ++ map LSite (lib_sites l) ++ map LMacro (lib_macros l) ++ map LExt (lib_extensions l).

Definition ver_of (l : lef_lib) : dec := match lib_version l with Some v => v | None => V5P8 end.

Definition lib_toksP (l : lef_lib) (atoks : list atok) : Prop :=
  exists atV L atL tail,
    atoks = atV ++ concat atL ++ tail
    /\ match lib_version l with
       | Some v => exists a0 a1 a2, atV = [a0; a1; a2] /\ arel (SKw "VERSION") a0 /\ arel (SNum v) a1 /\ arel SSemi a2
                                    /\ version_num_ok v
       | None => atV = []
       end
    /\ Forall2 lstoksP L atL
    /\ (forall k, filter (fun x => Nat.eqb (lib_kind x) k) L = filter (fun x => Nat.eqb (lib_kind x) k) (lib_canon l))
    /\ Forall (lib_old_ok (ver_of l)) (lib_canon l)
    /\ lib_end tail [] (ver_of l).

(** ** commutation of the library statements *)
Lemma libstep_comm : forall x y s s2, lib_kind x <> lib_kind y ->
  (exists s1, libstep x s s1 /\ libstep y s1 s2) -> exists s1, libstep y s s1 /\ libstep x s1 s2.
Proof.
  intros x y s s2 NK (s1 & H1 & H2).
  destruct x, y; cbn [lib_kind] in NK; try congruence; cbn [libstep] in *;
    repeat match goal with H : exists _, _ /\ _ |- _ => destruct H as (? & ? & ?) end; subst;
    (eexists; split; [first [reflexivity | eexists; split; [eassumption | reflexivity]]
                     | first [destruct s; reflexivity | eexists; split; [eassumption | destruct s; reflexivity]]]).
Qed.

(** ** running the statements in canonical order *)
Definition keep {A} (o d : option A) : option A := match o with Some v => Some v | None => d end.

Ltac lib_eta s := destruct s; reflexivity.

Lemma g_ncs : forall o s s', steps libstep (olist (option_map LNcs o)) s s' ->
  s' = set_lib_names_case_sensitive (keep o (lib_names_case_sensitive s)) s.
Proof. intros [v|] s s' H; cbn in H; [destruct H as (s1 & -> & <-); reflexivity | subst; lib_eta s']. Qed.
Lemma g_nowire : forall o s s', steps libstep (olist (option_map LNowire o)) s s' ->
  s' = set_lib_no_wire_extension_at_pin (keep o (lib_no_wire_extension_at_pin s)) s.
Proof. intros [v|] s s' H; cbn in H; [destruct H as (s1 & -> & <-); reflexivity | subst; lib_eta s']. Qed.
Lemma g_bus : forall o s s', steps libstep (olist (option_map (fun c => LBus (fst c) (snd c)) o)) s s' ->
  s' = set_lib_bus_bit_chars (keep o (lib_bus_bit_chars s)) s.
Proof. intros [[c1 c2]|] s s' H; cbn in H; [destruct H as (s1 & -> & <-); reflexivity | subst; lib_eta s']. Qed.
Lemma g_div : forall o s s', steps libstep (olist (option_map LDiv o)) s s' ->
  s' = set_lib_divider_char (keep o (lib_divider_char s)) s.
Proof. intros [v|] s s' H; cbn in H; [destruct H as (s1 & -> & <-); reflexivity | subst; lib_eta s']. Qed.
Lemma g_ums : forall o s s', steps libstep (olist (option_map LUms o)) s s' ->
  s' = set_lib_use_min_spacing (keep o (lib_use_min_spacing s)) s.
Proof. intros [v|] s s' H; cbn in H; [destruct H as (s1 & -> & <-); reflexivity | subst; lib_eta s']. Qed.
Lemma g_clr : forall o s s', steps libstep (olist (option_map LClr o)) s s' ->
  s' = set_lib_clearance_measure (keep o (lib_clearance_measure s)) s.
Proof. intros [v|] s s' H; cbn in H; [destruct H as (s1 & -> & <-); reflexivity | subst; lib_eta s']. Qed.
Lemma g_units : forall o s s', steps libstep (olist (option_map LUnits o)) s s' ->
  exists o', option_eqb (lef_units_eqb dec_eq) o o' = true /\ s' = set_lib_units (keep o' (lib_units s)) s.
Proof.
  intros [v|] s s' H; cbn in H.
  - destruct H as (s1 & (u' & E & ->) & <-). exists (Some u'). split; [exact E | reflexivity].
  - subst. exists (None : option lef_units). split; [reflexivity | lib_eta s'].
Qed.
Lemma g_grid : forall o s s', steps libstep (olist (option_map LGrid o)) s s' ->
  exists o', option_eqb dec_eq o o' = true /\ s' = set_lib_manufacturing_grid (keep o' (lib_manufacturing_grid s)) s.
Proof.
  intros [v|] s s' H; cbn in H.
  - destruct H as (s1 & (u' & E & ->) & <-). exists (Some u'). split; [exact E | reflexivity].
  - subst. exists (None : option dec). split; [reflexivity | lib_eta s'].
Qed.
Lemma g_propdefs : forall pds s s', steps libstep (match pds with [] => [] | p :: r => [LPropdefs (p :: r)] end) s s' ->
  exists pds', list_eqb (lef_propdef_eqb dec_eq) pds pds' = true
               /\ s' = set_lib_property_definitions (lib_property_definitions s ++ pds') s.
Proof.
  intros [|p pds] s s' H; cbn [steps libstep] in H.
  - subst. exists []. split; [reflexivity|]. rewrite app_nil_r. lib_eta s'.
  - destruct H as (s1 & (pds' & E & ->) & <-). exists pds'. split; [exact E | reflexivity].
Qed.
Lemma g_fixed : forall (b : bool) s s', steps libstep (if b then [LFixedMask] else []) s s' ->
  s' = set_lib_fixed_mask (b || lib_fixed_mask s) s.
Proof. intros [|] s s' H; cbn in H; [destruct H as (s1 & -> & <-); reflexivity | subst; lib_eta s']. Qed.
Lemma g_vias : forall vs s s', steps libstep (map LVia vs) s s' ->
  exists vs', list_eqb (lef_via_def_eqb dec_eq) vs vs' = true /\ s' = set_lib_vias (lib_vias s ++ vs') s.
Proof.
  induction vs as [|v vs IH]; intros s s' H; cbn [map steps] in H.
  - subst. exists []. split; [reflexivity|]. rewrite app_nil_r. lib_eta s'.
  - destruct H as (s1 & (v' & E & ->) & H). destruct (IH _ _ H) as (vs' & E' & ->).
    exists (v' :: vs'). split; [cbn [list_eqb]; rewrite E, E'; reflexivity|]. destruct s. cbn. rewrite <- app_assoc. reflexivity.
Qed.
Lemma g_sites : forall vs s s', steps libstep (map LSite vs) s s' ->
  exists vs', list_eqb (lef_site_eqb dec_eq) vs vs' = true /\ s' = set_lib_sites (lib_sites s ++ vs') s.
Proof.
  induction vs as [|v vs IH]; intros s s' H; cbn [map steps] in H.
  - subst. exists []. split; [reflexivity|]. rewrite app_nil_r. lib_eta s'.
  - destruct H as (s1 & (v' & E & ->) & H). destruct (IH _ _ H) as (vs' & E' & ->).
    exists (v' :: vs'). split; [cbn [list_eqb]; rewrite E, E'; reflexivity|]. destruct s. cbn. rewrite <- app_assoc. reflexivity.
Qed.
Lemma g_macros : forall vs s s', steps libstep (map LMacro vs) s s' ->
  exists vs', list_eqb (lef_macro_eqb dec_eq) vs vs' = true /\ s' = set_lib_macros (lib_macros s ++ vs') s.
Proof.
  induction vs as [|v vs IH]; intros s s' H; cbn [map steps] in H.
  - subst. exists []. split; [reflexivity|]. rewrite app_nil_r. lib_eta s'.
  - destruct H as (s1 & (v' & E & ->) & H). destruct (IH _ _ H) as (vs' & E' & ->).
    exists (v' :: vs'). split; [cbn [list_eqb]; rewrite E, E'; reflexivity|]. destruct s. cbn. rewrite <- app_assoc. reflexivity.
Qed.
Lemma g_exts : forall vs s s', steps libstep (map LExt vs) s s' ->
  s' = set_lib_extensions (lib_extensions s ++ vs) s.
Proof.
  induction vs as [|v vs IH]; intros s s' H; cbn [map steps] in H.
  - subst. rewrite app_nil_r. lib_eta s'.
  - destruct H as (s1 & -> & H). rewrite (IH _ _ H). destruct s. cbn. rewrite <- app_assoc. reflexivity.
Qed.

Lemma LefOnOff_eqb_refl : forall e, LefOnOff_eqb e e = true. Proof. destruct e; reflexivity. Qed.
Lemma LefClearanceStyle_eqb_refl : forall e, LefClearanceStyle_eqb e e = true. Proof. destruct e; reflexivity. Qed.
Lemma ext_list_eqb_refl : forall l, list_eqb (lef_extension_eqb dec_eq) l l = true.
Proof.
  induction l as [|e l IH]; [reflexivity|]. cbn [list_eqb]. unfold lef_extension_eqb at 1.
  rewrite !bytes_eqb_refl, IH. reflexivity.
Qed.

Lemma lib_canon_run : forall l ov lib', steps libstep (lib_canon l) (set_lib_version ov empty_lib) lib' ->
  option_eqb dec_eq (lib_version l) ov = true -> lef_lib_eqb dec_eq l lib' = true.
Proof.
  intros l ov lib' H Ev. unfold lib_canon in H.
  repeat (apply steps_app in H; let s := fresh "s" in let h := fresh "G" in destruct H as (s & h & H)).
  apply g_ncs in G. apply g_nowire in G0. apply g_bus in G1. apply g_div in G2.
  apply g_units in G3. destruct G3 as (ou & Eu & G3). apply g_grid in G4. destruct G4 as (og & Eg & G4).
  apply g_ums in G5. apply g_clr in G6. apply g_propdefs in G7. destruct G7 as (pds' & Ep & G7).
  apply g_fixed in G8. apply g_vias in G9. destruct G9 as (vs' & Evs & G9).
  apply g_sites in G10. destruct G10 as (ss' & Ess & G10). apply g_macros in G11. destruct G11 as (ms' & Ems & G11).
  apply g_exts in H. subst.
  destruct l as [ms ss vs ver ncs nw bb dc un fm cm ex mg um pd]. cbn in *.
  unfold lef_lib_eqb. cbn.
  rewrite Ems, Ess, Evs, Ev, Ep. cbn.
  rewrite ext_list_eqb_refl, orb_false_r, eqb_reflx.
  destruct ncs as [e|]; cbn; [rewrite LefOnOff_eqb_refl|];
  destruct nw as [e0|]; cbn; [rewrite LefOnOff_eqb_refl| |rewrite LefOnOff_eqb_refl|];
  destruct um as [e1|]; cbn; try rewrite LefOnOff_eqb_refl;
  destruct cm as [e2|]; cbn; try rewrite LefClearanceStyle_eqb_refl;
  destruct bb as [[c1 c2]|]; cbn; unfold pair_eqb; cbn; try rewrite !Z.eqb_refl;
  destruct dc as [c|]; cbn; try rewrite Z.eqb_refl;
  destruct un as [u|], ou as [u'|]; cbn in *; try discriminate; try rewrite Eu;
  destruct mg as [g|], og as [g'|]; cbn in *; try discriminate; try rewrite Eg; reflexivity.
Qed.

(** ** `parse_lib` on a general token sequence *)
Section TopParse.
Variable src : bytes.
Hypothesis Hsrc : starts_on_boundary src = true.
Notation cf := cfg_fixed.

Lemma lib_old_ok_compat : forall v num x, 0 <= d_scale v -> dec_wf num -> dec_eq v num = true ->
  lib_old_ok v x -> lib_old_ok num x.
Proof.
  intros v num x Sv [_ [Sn _]] E H.
  assert (G : dec_gt num V5P4 = dec_gt v V5P4) by (apply dec_gt_compat; auto; cbn; lia).
  destruct x; cbn [lib_old_ok] in *; try exact I; rewrite G; exact H.
Qed.

Notation LLO := (lib_loop_ok src Hsrc units_toksP via_toksP site_toksP mtoksP
               (parse_units_P src) units_toksP_head (parse_via_P src) via_toksP_head (parse_site_P src) site_toksP_head
               (parse_macro_P src pin_toksP (parse_pin_P src)) (macro_toksP_head pin_toksP)).

(** the first iteration of the library loop on a VERSION statement *)
Lemma lib_loop_version : forall f st a0 r,
  sees src st (a0 :: r) -> arel (SKw "VERSION") a0 ->
  lib_loop cf src (S f) empty_lib st
  = bind (parse_version cf src) (fun v => lib_loop cf src f (set_lib_version (Some v) empty_lib)) st.
Proof.
  intros f st a0 r Hs A0.
  cbn [lib_loop]. unfold bind at 1, get at 1. cbv beta.
  destruct (peek_token_cons src st a0 r Hs) as (t & -> & _).
  destruct (arel_kw_key _ _ _ A0 ltac:(vm_compute; reflexivity)) as [Ty Kp].
  unfold bind at 1. rewrite (peek_key_ok src st a0 r _ Hs Ty Kp). cbv beta iota.
  reflexivity.
Qed.

Lemma lib_main_some : forall l v L atL tail a0 a1 a2 st,
  lib_version l = Some v -> arel (SKw "VERSION") a0 -> arel (SNum v) a1 -> arel SSemi a2 -> version_num_ok v ->
  Forall2 lstoksP L atL -> Forall (lib_old_ok v) L -> lib_end tail [] v ->
  sees src st ([a0; a1; a2] ++ concat atL ++ tail) ->
  exists num, dec_eq v num = true
              /\ lpost L (set_lib_version (Some num) empty_lib)
                       (lib_loop cf src (S (List.length ([a0; a1; a2] ++ concat atL ++ tail))) empty_lib st).
Proof.
  intros l v L atL tail a0 a1 a2 st EV A0 A1 A2 VV FL OLDL LE Hs. cbn [app] in Hs.
  rewrite (lib_loop_version _ st a0 _ Hs A0).
  destruct (parse_version_ok src v a0 a1 a2 st _ VV A1 A2 Hs) as (num & st1 & E & Hs1 & Pv1 & Eq & Wf).
  unfold bind at 1. rewrite E. cbv beta iota.
  exists num. split; [exact Eq|].
  destruct VV as (Sv & Vk). assert (VV : version_num_ok v) by (split; assumption).
  apply (LLO L atL FL _ _ st1 tail []).
  - rewrite Pv1. eapply Forall_impl; [|exact OLDL]. intros x. apply lib_old_ok_compat; assumption.
  - rewrite Pv1. destruct LE as [LE|(T1 & T2 & GE)]; [left; exact LE|].
    right. split; [exact T1|]. split; [exact T2|].
    rewrite (dec_ge_compat v num V5P6); auto; [apply Wf | cbn; lia].
  - rewrite app_nil_r. exact Hs1.
  - repeat rewrite app_length. cbn [List.length]. lia.
Qed.

Lemma lib_main_none : forall L atL tail st,
  Forall2 lstoksP L atL -> Forall (lib_old_ok V5P8) L -> lib_end tail [] V5P8 ->
  sees src st (concat atL ++ tail) -> p_ver st = V5P8 ->
  lpost L (set_lib_version None empty_lib) (lib_loop cf src (S (List.length (concat atL ++ tail))) empty_lib st).
Proof.
  intros L atL tail st FL OLDL LE Hs Pv.
  apply (LLO L atL FL _ _ st tail []).
  - rewrite Pv. exact OLDL.
  - rewrite Pv. exact LE.
  - rewrite app_nil_r. exact Hs.
  - repeat rewrite app_length. cbn [List.length]. lia.
Qed.

Lemma parse_lib_unfold : forall st,
  parse_lib cf src st
  = bind (lib_loop cf src (fuel_of (with_ctx st (p_ctx st ++ [CtxLibrary]))) empty_lib)
         (fun lib => bind pop (fun _ => ret lib)) (with_ctx st (p_ctx st ++ [CtxLibrary])).
Proof. reflexivity. Qed.

Lemma parse_lib_P : forall l atoks, lib_toksP l atoks -> forall st, sees src st atoks -> p_ver st = V5P8 ->
  exists l' st', parse_lib cf src st = Ok (l', st') /\ lef_eq l l' = true.
Proof.
  intros l atoks (atV & L & atL & tail & -> & HV & FL & HF & OLD & LE) st Hs Pv.
  assert (OLDL : Forall (lib_old_ok (ver_of l)) L)
    by (apply (filter_kinds_forall lib_kind _ L (lib_canon l) HF OLD)).
  rewrite parse_lib_unfold.
  pose proof (sees_with_ctx src st _ (p_ctx st ++ [CtxLibrary]) Hs) as Hs0.
  set (st0 := with_ctx st (p_ctx st ++ [CtxLibrary])) in *.
  assert (Pv0 : p_ver st0 = V5P8) by exact Pv.
  clearbody st0. clear Hs Pv st.
  rewrite (fuel_of_sees src _ _ Hs0).
  assert (Main : exists ov, option_eqb dec_eq (lib_version l) ov = true
                            /\ lpost L (set_lib_version ov empty_lib)
                                     (lib_loop cf src (S (List.length (atV ++ concat atL ++ tail))) empty_lib st0)).
  { unfold ver_of in *. destruct (lib_version l) as [v|] eqn:EV.
    - destruct HV as (a0 & a1 & a2 & -> & A0 & A1 & A2 & VV).
      destruct (lib_main_some l v L atL tail a0 a1 a2 st0 EV A0 A1 A2 VV FL OLDL LE Hs0) as (num & Eq & LP).
      exists (Some num). split; [exact Eq | exact LP].
    - subst atV. exists None. split; [reflexivity|].
      exact (lib_main_none L atL tail st0 FL OLDL LE Hs0 Pv0). }
  destruct Main as (ov & Eov & lib' & st' & E & St).
  unfold bind at 1. rewrite E. cbv beta iota.
  exists lib', (with_ctx st' (removelast (p_ctx st'))). split; [reflexivity|].
  apply (steps_perm lib_kind libstep libstep_comm (lib_canon l) L HF) in St.
  exact (lib_canon_run l ov lib' St Eov).
Qed.

End TopParse.

(** a text given as items: lexing and parsing *)
Theorem parse_items : forall l items, items_ok items -> lib_toksP l (toks_of items) ->
  exists l', parse cfg_fixed (flatten items) = Ok l' /\ lef_eq l l' = true.
Proof.
  intros l items OK TP.
  destruct (lex_items items OK) as (tis & p & line & ls & EL & F).
  pose proof (flatten_boundary items OK) as SB.
  destruct (lex_ok_gen _ _ _ SB EL) as (Fok & Eok & _).
  unfold parse. cbn [c_charpos cfg_fixed]. rewrite EL.
  assert (Hs : sees (flatten items) (mkpst tis (LEof p line ls) V5P8 []) (toks_of items)).
  { split; [split; [exact Fok | exact Eok]|]. split; [do 3 eexists; reflexivity | exact F]. }
  destruct (parse_lib_P (flatten items) SB l (toks_of items) TP _ Hs eq_refl) as (l' & st' & E & Q).
  exists l'. destruct tis; rewrite E; split; auto.
Qed.


(** * The specification's token list of a supported library is of the general form *)
Definition ltitem : Type := (libstmt * list stok)%type.
Definition ltkind (x : ltitem) : nat := lib_kind (fst x).
Definition lopt_body {A} (C : A -> libstmt) (f : A -> list stok) (o : option A) : list ltitem :=
  match o with Some x => [(C x, f x)] | None => [] end.
Fixpoint via_body (sty : style) (off : nat) (vs : list lef_via_def) : list ltitem :=
  match vs with [] => [] | v :: r => (LVia v, t_via_def sty off v) :: via_body sty (off + 17) r end.
Fixpoint site_body (sty : style) (off : nat) (ss : list lef_site) : list ltitem :=
  match ss with [] => [] | s :: r => (LSite s, t_site sty off s) :: site_body sty (off + 13) r end.
Fixpoint macro_lbody (sty : style) (off : nat) (ms : list lef_macro) : list ltitem :=
  match ms with [] => [] | m :: r => (LMacro m, t_macro sty off m) :: macro_lbody sty (off + 1009) r end.
Definition lib_body (sty : style) (l : lef_lib) : list ltitem :=
  lopt_body LNcs (fun v => [K "NAMESCASESENSITIVE"; K (s_onoff v); SSemi]) (lib_names_case_sensitive l)
  ++ lopt_body LNowire (fun v => [K "NOWIREEXTENSIONATPIN"; K (s_onoff v); SSemi]) (lib_no_wire_extension_at_pin l)
  ++ lopt_body (fun c => LBus (fst c) (snd c)) (fun c => [K "BUSBITCHARS"; SRaw (quoted [fst c; snd c] spec_utf8); SSemi]) (lib_bus_bit_chars l)
  ++ lopt_body LDiv (fun c => [K "DIVIDERCHAR"; SRaw (quoted [c] spec_utf8); SSemi]) (lib_divider_char l)
  ++ lopt_body LUnits (t_units sty 3) (lib_units l)
  ++ lopt_body LGrid (fun v => [K "MANUFACTURINGGRID"; SNum v; SSemi]) (lib_manufacturing_grid l)
  ++ lopt_body LUms (fun v => [K "USEMINSPACING"; K "OBS"; K (s_onoff v); SSemi]) (lib_use_min_spacing l)
  ++ lopt_body LClr (fun v => [K "CLEARANCEMEASURE"; K (s_clearance v); SSemi]) (lib_clearance_measure l)
  ++ (match lib_property_definitions l with
      | [] => []
      | p :: r => [(LPropdefs (p :: r), [K "PROPERTYDEFINITIONS"] ++ flat_map t_propdef (p :: r) ++ [K "END"; K "PROPERTYDEFINITIONS"])]
      end)
  ++ (if lib_fixed_mask l then [(LFixedMask, [K "FIXEDMASK"; SSemi])] else [])
  ++ via_body sty 19 (lib_vias l) ++ site_body sty 23 (lib_sites l) ++ macro_lbody sty 29 (lib_macros l)
  ++ map (fun e => (LExt e, t_extension e)) (lib_extensions l).

Lemma via_body_items : forall sty vs off, map (fun x : ltitem => (ltkind x, snd x)) (via_body sty off vs) = via_items sty off vs.
Proof. intros sty. induction vs as [|v vs IH]; intros off; [reflexivity|]. cbn [via_body via_items map]. rewrite IH. reflexivity. Qed.
Lemma site_body_items : forall sty vs off, map (fun x : ltitem => (ltkind x, snd x)) (site_body sty off vs) = site_items sty off vs.
Proof. intros sty. induction vs as [|v vs IH]; intros off; [reflexivity|]. cbn [site_body site_items map]. rewrite IH. reflexivity. Qed.
Lemma macro_lbody_items : forall sty vs off, map (fun x : ltitem => (ltkind x, snd x)) (macro_lbody sty off vs) = macro_items sty off vs.
Proof. intros sty. induction vs as [|v vs IH]; intros off; [reflexivity|]. cbn [macro_lbody macro_items map]. rewrite IH. reflexivity. Qed.
Lemma via_body_fst : forall sty vs off, map fst (via_body sty off vs) = map LVia vs.
Proof. intros sty. induction vs as [|v vs IH]; intros off; [reflexivity|]. cbn [via_body map fst]. rewrite IH. reflexivity. Qed.
Lemma site_body_fst : forall sty vs off, map fst (site_body sty off vs) = map LSite vs.
Proof. intros sty. induction vs as [|v vs IH]; intros off; [reflexivity|]. cbn [site_body map fst]. rewrite IH. reflexivity. Qed.
Lemma macro_lbody_fst : forall sty vs off, map fst (macro_lbody sty off vs) = map LMacro vs.
Proof. intros sty. induction vs as [|v vs IH]; intros off; [reflexivity|]. cbn [macro_lbody map fst]. rewrite IH. reflexivity. Qed.

Lemma toks_of_lib_body : forall sty l,
  toks_of_lib sty spec_utf8 l
  = (match lib_version l with Some v => [K "VERSION"; SNum v; SSemi] | None => [] end)
    ++ concat (map snd (interleave (sty_keys sty) 0 (map (fun x : ltitem => (ltkind x, x)) (lib_body sty l))))
    ++ (if sty_end_lib sty then [K "END"; K "LIBRARY"] else []).
Proof.
  intros sty l. unfold toks_of_lib. cbv zeta. f_equal. f_equal. f_equal.
  rewrite <- (interleave_map ltitem (list stok) snd (sty_keys sty) 0). f_equal. rewrite map_map. cbn [fst snd].
  unfold lib_body. rewrite !map_app.
  repeat match goal with |- ?a ++ ?b = ?c ++ ?d => apply (f_equal2 (@app _)) end;
    try (match goal with |- context [opt_item _ ?o _] => destruct o; reflexivity end).
  - destruct (lib_property_definitions l); reflexivity.
  - destruct (lib_fixed_mask l); reflexivity.
  - symmetry. apply via_body_items.
  - symmetry. apply site_body_items.
  - symmetry. apply macro_lbody_items.
  - rewrite map_map. reflexivity.
Qed.

Lemma lib_body_canon : forall sty l, map fst (lib_body sty l) = lib_canon l.
Proof.
  intros sty l. unfold lib_body, lib_canon. rewrite !map_app.
  repeat match goal with |- ?a ++ ?b = ?c ++ ?d => apply (f_equal2 (@app _)) end;
    try (match goal with |- context [olist (option_map _ ?o)] => destruct o; reflexivity end).
  - destruct (lib_property_definitions l); reflexivity.
  - destruct (lib_fixed_mask l); reflexivity.
  - apply via_body_fst.
  - apply site_body_fst.
  - apply macro_lbody_fst.
  - rewrite map_map. reflexivity.
Qed.

Definition lgood (x : ltitem) : Prop := forall ax, Forall2 arel (snd x) ax -> lstoksP (fst x) ax.

Lemma quoted_ok_head : forall s, quoted_ok s = true -> exists r, s = 34 :: r.
Proof. intros [|b r] H; [discriminate|]. cbn in H. destruct (Z.eq_dec b 34) as [->|N]; [eauto|]. destruct b as [|q|q]; try discriminate. do 6 (destruct q as [q|q|]; try discriminate). congruence. Qed.

Lemma chars_of_quoted2 : forall c1 c2, char_ok c1 = true -> char_ok c2 = true ->
  chars_of (quoted [c1; c2] spec_utf8) = [34; c1; c2; 34].
Proof.
  intros c1 c2 H1 H2. destruct (char_ok_scalar _ H1) as (S1 & _). destruct (char_ok_scalar _ H2) as (S2 & _).
  unfold quoted. cbn [flat_map app]. rewrite app_nil_r.
  change (chars_of (34 :: (spec_utf8 c1 ++ spec_utf8 c2) ++ [34])) with (34 :: chars_of ((spec_utf8 c1 ++ spec_utf8 c2) ++ [34])).
  rewrite <- app_assoc, (spec_utf8_chars_of c1 _ S1), (spec_utf8_chars_of c2 _ S2). reflexivity.
Qed.
Lemma chars_of_quoted1 : forall c1, char_ok c1 = true -> chars_of (quoted [c1] spec_utf8) = [34; c1; 34].
Proof.
  intros c1 H1. destruct (char_ok_scalar _ H1) as (S1 & _).
  unfold quoted. cbn [flat_map app]. rewrite app_nil_r.
  change (chars_of (34 :: spec_utf8 c1 ++ [34])) with (34 :: chars_of (spec_utf8 c1 ++ [34])).
  rewrite (spec_utf8_chars_of c1 _ S1). reflexivity.
Qed.

Lemma split_andb : forall a b, a && b = true -> a = true /\ b = true.
Proof. intros. apply andb_prop. assumption. Qed.

Lemma lib_body_good : forall sty l, lib_supportedb l = true -> Forall lgood (lib_body sty l).
Proof.
  intros sty l O. unfold lib_supportedb in O. cbv zeta in O.
  repeat match type of O with (_ && _ = true) => apply andb_prop in O; let H := fresh "O" in destruct O as [O H] end.
  unfold lib_body. repeat rewrite Forall_app. repeat split.
  - destruct (lib_names_case_sensitive l); constructor; [|constructor]. intros ax F. exact F.
  - destruct (lib_no_wire_extension_at_pin l); constructor; [|constructor]. intros ax F. exact F.
  - destruct (lib_bus_bit_chars l) as [[c1 c2]|]; constructor; [|constructor]. intros ax F. cbn [fst snd] in *.
    unfold K in F. inv_arel. cbn [optb fst snd] in *.
    match goal with X : char_ok c1 && char_ok c2 = true |- _ => apply andb_prop in X; destruct X as [X1 X2] end.
    match goal with A : arel (SRaw _) ?x |- _ => destruct A as [Sx Tx] end.
    unfold quoted in Tx. cbn [app] in Tx.
    eexists _, _, _, 34, 34. split; [reflexivity|]. split; [eassumption|]. split; [exact Tx|]. split; [|eassumption].
    rewrite Sx. apply chars_of_quoted2; assumption.
  - destruct (lib_divider_char l) as [c|]; constructor; [|constructor]. intros ax F. cbn [fst snd] in *.
    unfold K in F. inv_arel. cbn [optb] in *.
    match goal with A : arel (SRaw _) ?x |- _ => destruct A as [Sx Tx] end.
    unfold quoted in Tx. cbn [app] in Tx.
    eexists _, _, _, 34, 34. split; [reflexivity|]. split; [eassumption|]. split; [exact Tx|]. split; [|eassumption].
    rewrite Sx. apply chars_of_quoted1; assumption.
  - destruct (lib_units l) as [u|]; constructor; [|constructor]. intros ax F. cbn [fst snd optb] in *.
    apply (units_toksP_spec sty 3 u ax); assumption.
  - destruct (lib_manufacturing_grid l); constructor; [|constructor]. intros ax F. exact F.
  - destruct (lib_use_min_spacing l); constructor; [|constructor]. intros ax F. exact F.
  - destruct (lib_clearance_measure l); constructor; [|constructor]. intros ax F. exact F.
  - destruct (lib_property_definitions l) as [|p r] eqn:EP; constructor; [|constructor]. intros ax F. cbn [fst snd] in *.
    unfold K in F. cbn [app] in F.
    apply LefRt_Forall2_cons_inv in F. destruct F as (a0 & at0 & -> & A0 & F).
    apply Forall2_app_inv_l in F. destruct F as (at1 & at2 & F1 & F2 & ->). inv_arel.
    destruct (Forall2_flat_map_inv t_propdef (p :: r) at1 F1) as (atL & -> & FL).
    eexists _, atL, _, _. split; [reflexivity|]. split; [exact A0|]. split; [|split; eassumption].
    match goal with X : forallb propdef_ok (p :: r) = true |- _ => rewrite forallb_forall in X; rename X into PO end.
    clear - FL PO. revert PO. induction FL as [|x ax L aL Fx FL IH]; intros PO; constructor.
    + split; [exact Fx|]. specialize (PO x (or_introl eq_refl)).
      destruct x as [ot n [s|]|ot n v rg|ot n v rg]; cbn; try exact I.
      cbn in PO. apply andb_prop in PO. destruct PO as [_ PO]. apply quoted_ok_head. exact PO.
    + apply IH. intros y Hy. apply PO. right. exact Hy.
  - destruct (lib_fixed_mask l); constructor; [|constructor]. intros ax F. exact F.
  - match goal with X : forallb via_def_ok _ = true |- _ => revert X end. generalize 19%nat. generalize (lib_vias l).
    induction l0 as [|v vs IH]; intros o X; cbn [via_body]; constructor.
    + cbn [forallb] in X. apply andb_prop in X. destruct X as [X1 _]. intros ax F. cbn [fst snd] in *.
      apply (via_toksP_spec sty o v ax); assumption.
    + cbn [forallb] in X. apply andb_prop in X. destruct X as [_ X2]. apply IH. exact X2.
  - match goal with X : forallb site_ok _ = true |- _ => revert X end. generalize 23%nat. generalize (lib_sites l).
    induction l0 as [|v vs IH]; intros o X; cbn [site_body]; constructor.
    + cbn [forallb] in X. apply andb_prop in X. destruct X as [X1 _]. intros ax F. cbn [fst snd] in *.
      apply (site_toksP_spec sty o v ax); assumption.
    + cbn [forallb] in X. apply andb_prop in X. destruct X as [_ X2]. apply IH. exact X2.
  - match goal with X : forallb (macro_ok _) _ = true |- _ => revert X end. generalize 29%nat. generalize (lib_macros l).
    induction l0 as [|v vs IH]; intros o X; cbn [macro_lbody]; constructor.
    + cbn [forallb] in X. apply andb_prop in X. destruct X as [X1 _]. intros ax F. cbn [fst snd] in *.
      apply (macro_toksP_spec pin_toksP pin_toksP_spec sty o (lib_is_old l) v ax); assumption.
    + cbn [forallb] in X. apply andb_prop in X. destruct X as [_ X2]. apply IH. exact X2.
  - apply Forall_forall. intros x Hx. apply in_map_iff in Hx. destruct Hx as (e & <- & He).
    intros ax F. cbn [fst snd] in *.
    match goal with X : forallb extension_ok _ = true |- _ => rewrite forallb_forall in X; specialize (X e He); rename X into EO end.
    unfold extension_ok in EO. apply andb_prop in EO. destruct EO as [EO E3]. apply andb_prop in EO. destruct EO as [E1 E2].
    exists (split_blank [] (ext_data e)). split; [symmetry; apply bytes_eqb_eq; exact E3|]. split; [|split].
    + apply Forall_forall. intros t Ht. rewrite forallb_forall in E2. specialize (E2 t Ht).
      unfold ext_tok_ok in E2. apply andb_prop in E2. destruct E2 as [_ E2]. apply negb_true_iff in E2.
      unfold ext_tok_free. intros C. rewrite C in E2. vm_compute in E2. discriminate.
    + apply quoted_ok_head. exact E1.
    + exact F.
Qed.

Lemma lfilter_map_fst : forall (k : nat) (l : list ltitem),
  filter (fun x => Nat.eqb (lib_kind x) k) (map fst l) = map fst (filter (fun x => Nat.eqb (ltkind x) k) l).
Proof.
  intros k. induction l as [|x l IH]; [reflexivity|]. cbn [map filter]. unfold ltkind at 1.
  destruct (Nat.eqb (lib_kind (fst x)) k); cbn [map]; rewrite IH; reflexivity.
Qed.
Lemma Forall2_lgood : forall (IL : list ltitem) atL, Forall lgood IL ->
  Forall2 (fun x ax => Forall2 arel (snd x) ax) IL atL -> Forall2 lstoksP (map fst IL) atL.
Proof.
  intros IL atL G F. induction F as [|x ax IL atL Fx F IH]; [constructor|]. inversion G; subst.
  cbn [map]. constructor; [|apply IH; assumption]. match goal with X : lgood x |- _ => apply X end. exact Fx.
Qed.

Lemma lib_old_canon : forall l, lib_supportedb l = true -> Forall (lib_old_ok (ver_of l)) (lib_canon l).
Proof.
  intros l O. unfold lib_supportedb in O. cbv zeta in O.
  repeat match type of O with (_ && _ = true) => apply andb_prop in O; let H := fresh "O" in destruct O as [O H] end.
  assert (OLD : lib_is_old l = true -> dec_gt (ver_of l) V5P4 = false).
  { unfold lib_is_old, ver_of. destruct (lib_version l) as [v|]; [|discriminate]. intros H. apply negb_true_iff in H. exact H. }
  unfold lib_canon. repeat rewrite Forall_app. repeat split;
    try (match goal with |- Forall _ (olist (option_map _ ?o)) => destruct o eqn:?; constructor; [|constructor] end);
    cbn [lib_old_ok]; auto.
  - destruct (lib_property_definitions l); repeat constructor.
  - destruct (lib_fixed_mask l); repeat constructor.
  - apply Forall_forall. intros x Hx. apply in_map_iff in Hx. destruct Hx as (? & <- & _). exact I.
  - apply Forall_forall. intros x Hx. apply in_map_iff in Hx. destruct Hx as (? & <- & _). exact I.
  - apply Forall_forall. intros x Hx. apply in_map_iff in Hx. destruct Hx as (m & <- & Hm). cbn [lib_old_ok].
    match goal with X : forallb (macro_ok _) _ = true |- _ => rewrite forallb_forall in X; specialize (X m Hm); rename X into MO end.
    unfold macro_ok in MO.
    repeat match type of MO with (_ && _ = true) => apply andb_prop in MO; let H := fresh "M" in destruct MO as [MO H] end.
    intros NS. apply OLD. destruct (mac_source m); [assumption | congruence].
  - apply Forall_forall. intros x Hx. apply in_map_iff in Hx. destruct Hx as (? & <- & _). exact I.
Qed.

Theorem lib_toksP_spec : forall sty l atoks, lib_supportedb l = true -> style_okb sty l = true ->
  Forall2 arel (toks_of_lib sty spec_utf8 l) atoks -> lib_toksP l atoks.
Proof.
  intros sty l atoks O SO F. rewrite toks_of_lib_body in F.
  set (body := lib_body sty l) in *.
  set (IL := interleave (sty_keys sty) 0 (map (fun x : ltitem => (ltkind x, x)) body)) in *.
  assert (KS : forall k, filter (fun x => Nat.eqb (ltkind x) k) IL = filter (fun x => Nat.eqb (ltkind x) k) body)
    by (intros k; apply (interleave_kind_stable ltitem ltkind)).
  apply Forall2_app_inv_l in F. destruct F as (atV & at1 & FV & F & ->).
  apply Forall2_app_inv_l in F. destruct F as (at_b & tail & Fb & Ft & ->).
  rewrite concat_map_flat_map in Fb.
  destruct (Forall2_flat_map_inv snd IL at_b Fb) as (atL & -> & FL).
  exists atV, (map fst IL), atL, tail. split; [reflexivity|].
  assert (VV : optb version_valid (lib_version l) = true).
  { unfold lib_supportedb in O. cbv zeta in O.
    repeat match type of O with (_ && _ = true) => apply andb_prop in O; let H := fresh "O" in destruct O as [O H] end. assumption. }
  split; [|split; [|split; [|split]]].
  - destruct (lib_version l) as [v|]; unfold K in FV; inv_arel; [|reflexivity].
    eexists _, _, _. split; [reflexivity|]. repeat (split; [eassumption|]). apply version_valid_k. exact VV.
  - apply Forall2_lgood; [|exact FL].
    apply (filter_kinds_forall ltkind lgood IL body KS). apply (lib_body_good sty l O).
  - intros k. rewrite lfilter_map_fst, KS, <- lfilter_map_fst. unfold body. rewrite lib_body_canon. reflexivity.
  - apply lib_old_canon. exact O.
  - unfold style_okb in SO. apply andb_prop in SO. destruct SO as [_ SE].
    destruct (sty_end_lib sty); unfold K in Ft; inv_arel.
    + left. eexists _, _. split; [reflexivity|]. split; eassumption.
    + right. split; [reflexivity|]. split; [reflexivity|]. cbn [orb] in SE. unfold ver_of.
      destruct (lib_version l); [exact SE | reflexivity].
Qed.

(** * C04 *)
Theorem read_render : forall sty l, lib_supported l -> style_ok sty l ->
  exists l', parse cfg_fixed (render sty l) = Ok l' /\ lef_eq l l' = true.
Proof.
  intros sty l O SO. unfold lib_supported in O. unfold style_ok in SO. unfold render.
  pose proof (toks_of_lib_ok sty l O) as TK.
  rewrite render_toks_items.
  apply parse_items.
  - exact (render_items_ok sty l _ SO TK).
  - apply (lib_toksP_spec sty l _ O SO). exact (render_items_arel sty _ TK).
Qed.
