(** C05, writer side, LIBRARY level: the lines of `write_lib_lines cfg_fixed` are a layout of the token list
    [w_lib l] (VERSION, the statements of [lib_canon l] in that order, END LIBRARY); these tokens are lexed as
    printed ([wok_lib]) and satisfy the reader's general token predicate [lib_toksP l] ([toksP_lib_w]); hence
    [write_read_wr]: the text written for a library with [lib_wr] is read back as an equal library.
    The VIA, SITE, UNITS and MACRO blocks enter as section parameters. *)
From Coq Require Import String.
From Coq Require Import ZArith List Bool Lia.
From L21 Require Import Lef.LefDec Lef.LefData Lef.LefLex Lef.LefParse Lef.LefWrite Lef.LefSpec Lef.LefCheck
                        Lef.LefLex_proofs Lef.LefRtLex_proofs Lef.LefRtFrame_proofs Lef.LefRtPerm_proofs
                        Lef.LefRtConstr_proofs Lef.LefRtLib_proofs Lef.LefRtRender_proofs Lef.LefWDec_proofs
                        Lef.LefRtPin_proofs Lef.LefRtVia_proofs Lef.LefRtSiteUnits_proofs Lef.LefRtMacro_proofs
                        Lef.LefRtTop_proofs Lef.LefWFrame_proofs.
Import ListNotations.
Local Open Scope list_scope.
Local Open Scope Z_scope.

(** * 0. Small layout combinators *)
(** a token, one blank, the rest *)
Lemma lays_cons_sp : forall t b ts, lays b ts -> lays (wtok_text t ++ 32 :: b) (t :: ts).
Proof.
  intros t b ts L. change (32 :: b) with ([32] ++ b). rewrite app_assoc.
  exact (lays_app _ [t] _ ts (lays_tok t [32] blank_sp ltac:(discriminate)) L).
Qed.
Lemma lays_cons_nl : forall t b ts, lays b ts -> lays (wtok_text t ++ 10 :: b) (t :: ts).
Proof.
  intros t b ts L. change (10 :: b) with ([10] ++ b). rewrite app_assoc.
  exact (lays_app _ [t] _ ts (lays_tok t [10] blank_nl ltac:(discriminate)) L).
Qed.
Lemma lays_sp : forall b ts, lays b ts -> lays (32 :: b) ts.
Proof. intros b ts L. exact (lays_blank_l [32] b ts blank_sp L). Qed.
Lemma lays_nl : forall b ts, lays b ts -> lays (10 :: b) ts.
Proof. intros b ts L. exact (lays_blank_l [10] b ts blank_nl L). Qed.
(** a line whose text ends with a token: the newline is that token's blank *)
Lemma lays_line_nl : forall i text ts, lays (text ++ [10]) ts -> lays (indent_str i ++ text ++ [10]) ts.
Proof. intros. apply lays_blank_l; [apply blank_indent | assumption]. Qed.

Lemma render_lines_cons : forall i text r, render_lines ((i, text) :: r) = (indent_str i ++ text ++ [10]) ++ render_lines r.
Proof. intros. reflexivity. Qed.
Lemma render_lines_map {X} : forall (f : X -> line) l,
  render_lines (map f l) = flat_map (fun x => indent_str (fst (f x)) ++ snd (f x) ++ [10]) l.
Proof.
  intros f. induction l as [|x l IH]; [reflexivity|]. cbn [map flat_map]. destruct (f x) as [i text] eqn:E.
  rewrite render_lines_cons, IH. reflexivity.
Qed.
Lemma render_lines_flat_map {X} : forall (f : X -> list line) l,
  render_lines (flat_map f l) = flat_map (fun x => render_lines (f x)) l.
Proof.
  intros f. induction l as [|x l IH]; [reflexivity|]. cbn [flat_map]. rewrite render_lines_app, IH. reflexivity.
Qed.

Lemma onoff_text : forall v, enum_s LefOnOff_to_str v = wtok_text (K (s_onoff v)).
Proof. destruct v; reflexivity. Qed.
Lemma clearance_text : forall v, enum_s LefClearanceStyle_to_str v = wtok_text (K (s_clearance v)).
Proof. destruct v; reflexivity. Qed.
Lemma objtype_text : forall v, enum_s LefPropertyDefinitionObjectType_to_str v = wtok_text (K (s_objtype v)).
Proof. destruct v; reflexivity. Qed.

(** normal form of a line text: `tok ++ 32 :: tok ++ 32 :: ...` *)
Ltac lits :=
  change (bs " ; ") with [32; 59; 32] in *; change (bs " ;") with [32; 59] in *; change (bs ";") with [59] in *;
  change (bs " ") with [32] in *; change (bs " """) with [32; 34] in *; change (bs """ ; ") with [34; 32; 59; 32] in *.
Ltac norm_text :=
  lits; unfold cat, sp, dstr; cbn [concat join];
  repeat (progress (repeat rewrite <- app_assoc) || (progress (cbn [app join concat])));
  repeat rewrite app_nil_r.

(** * 1. The library-level lines *)
Lemma lays_version : forall v,
  lays (render_lines [(O, cat [kw K_Version; sp; dstr v; bs " ; "])]) [K "VERSION"; SNum v; SSemi].
Proof.
  intros v. rewrite render_lines_one. apply lays_line. norm_text.
  apply (lays_cons_sp (K "VERSION")). apply (lays_cons_sp (SNum v)).
  exact (lays_tok SSemi [32] blank_sp ltac:(discriminate)).
Qed.
Lemma lays_semi : lays [59; 32] [SSemi].
Proof. exact (lays_tok SSemi [32] blank_sp ltac:(discriminate)). Qed.
Lemma lays_semi_nl : lays [59; 10] [SSemi].
Proof. exact (lays_tok SSemi [10] blank_nl ltac:(discriminate)). Qed.

Lemma lays_onoff_line : forall (k : LefKey) (s : string) v, kw k = wtok_text (K s) ->
  lays (render_lines [(O, cat [kw k; sp; enum_s LefOnOff_to_str v; bs " ; "])]) [K s; K (s_onoff v); SSemi].
Proof.
  intros k s v E. rewrite render_lines_one. apply lays_line. rewrite onoff_text, E. norm_text.
  apply (lays_cons_sp (K s)). apply (lays_cons_sp (K (s_onoff v))). exact lays_semi.
Qed.
Lemma lays_ncs : forall v,
  lays (render_lines [(O, cat [kw K_NamesCaseSensitive; sp; enum_s LefOnOff_to_str v; bs " ; "])])
       [K "NAMESCASESENSITIVE"; K (s_onoff v); SSemi].
Proof. intros v. apply lays_onoff_line. reflexivity. Qed.
Lemma lays_nowire : forall v,
  lays (render_lines [(O, cat [kw K_NoWireExtensionAtPin; sp; enum_s LefOnOff_to_str v; bs " ; "])])
       [K "NOWIREEXTENSIONATPIN"; K (s_onoff v); SSemi].
Proof. intros v. apply lays_onoff_line. reflexivity. Qed.

Lemma lays_bus : forall a b,
  lays (render_lines [(O, cat [kw K_BusBitChars; bs " """; utf8_enc a; utf8_enc b; bs """ ; "])])
       [K "BUSBITCHARS"; SRaw (34 :: utf8_enc a ++ utf8_enc b ++ [34]); SSemi].
Proof.
  intros a b. rewrite render_lines_one. apply lays_line. norm_text.
  apply (lays_cons_sp (K "BUSBITCHARS")).
  replace (34 :: utf8_enc a ++ utf8_enc b ++ [34; 32; 59; 32])
    with (wtok_text (SRaw (34 :: utf8_enc a ++ utf8_enc b ++ [34])) ++ 32 :: [59; 32])
    by (cbn [wtok_text app]; rewrite <- !app_assoc; reflexivity).
  apply lays_cons_sp. exact lays_semi.
Qed.
Lemma lays_div : forall a,
  lays (render_lines [(O, cat [kw K_DividerChar; bs " """; utf8_enc a; bs """ ; "])])
       [K "DIVIDERCHAR"; SRaw (34 :: utf8_enc a ++ [34]); SSemi].
Proof.
  intros a. rewrite render_lines_one. apply lays_line. norm_text.
  apply (lays_cons_sp (K "DIVIDERCHAR")).
  replace (34 :: utf8_enc a ++ [34; 32; 59; 32])
    with (wtok_text (SRaw (34 :: utf8_enc a ++ [34])) ++ 32 :: [59; 32])
    by (cbn [wtok_text app]; rewrite <- !app_assoc; reflexivity).
  apply lays_cons_sp. exact lays_semi.
Qed.
Lemma lays_grid : forall v,
  lays (render_lines [(O, cat [kw K_ManufacturingGrid; sp; dstr v; bs " ; "])]) [K "MANUFACTURINGGRID"; SNum v; SSemi].
Proof.
  intros v. rewrite render_lines_one. apply lays_line. norm_text.
  apply (lays_cons_sp (K "MANUFACTURINGGRID")). apply (lays_cons_sp (SNum v)). exact lays_semi.
Qed.
Lemma lays_ums : forall v,
  lays (render_lines [(O, cat [kw K_UseMinSpacing; sp; kw K_Obs; sp; enum_s LefOnOff_to_str v; bs " ; "])])
       [K "USEMINSPACING"; K "OBS"; K (s_onoff v); SSemi].
Proof.
  intros v. rewrite render_lines_one. apply lays_line. rewrite onoff_text. norm_text.
  apply (lays_cons_sp (K "USEMINSPACING")). apply (lays_cons_sp (K "OBS")). apply (lays_cons_sp (K (s_onoff v))). exact lays_semi.
Qed.
Lemma lays_clr : forall v,
  lays (render_lines [(O, cat [kw K_ClearanceMeasure; sp; enum_s LefClearanceStyle_to_str v; bs " ; "])])
       [K "CLEARANCEMEASURE"; K (s_clearance v); SSemi].
Proof.
  intros v. rewrite render_lines_one. apply lays_line. rewrite clearance_text. norm_text.
  apply (lays_cons_sp (K "CLEARANCEMEASURE")). apply (lays_cons_sp (K (s_clearance v))). exact lays_semi.
Qed.
Lemma lays_fixedmask : lays (render_lines [(O, kw K_FixedMask ++ bs " ;")]) [K "FIXEDMASK"; SSemi].
Proof.
  rewrite render_lines_one. apply lays_line_nl. norm_text.
  apply (lays_cons_sp (K "FIXEDMASK")). exact lays_semi_nl.
Qed.
Lemma lays_end_library : lays (render_lines [(O, cat [kw K_End; sp; kw K_Library; bs " "; [10]])]) [K "END"; K "LIBRARY"].
Proof.
  rewrite render_lines_one. apply lays_line. norm_text.
  apply (lays_cons_sp (K "END")). apply (lays_cons_sp (K "LIBRARY")). apply lays_blank. apply blank_nl.
Qed.

(** PROPERTYDEFINITIONS *)
Lemma lays_propdef : forall p, lays (propdef_str p ++ bs " ; ") (t_propdef p).
Proof.
  intros [ot n [s|]|ot n v r|ot n v r]; cbn [propdef_str t_propdef]; unfold format_numeric_prop_def.
  - rewrite objtype_text. norm_text. cbn [app].
    apply (lays_cons_sp (K (s_objtype ot))). apply (lays_cons_sp (SName n)). apply (lays_cons_sp (K "STRING")).
    apply (lays_cons_sp (SRaw s)). exact lays_semi.
  - rewrite objtype_text. norm_text. cbn [app].
    apply (lays_cons_sp (K (s_objtype ot))). apply (lays_cons_sp (SName n)). apply (lays_cons_sp (K "STRING")). exact lays_semi.
  - rewrite objtype_text. destruct r as [[b e]|]; destruct v as [d|]; norm_text; cbn [app];
      apply (lays_cons_sp (K (s_objtype ot))); apply (lays_cons_sp (SName n)); apply (lays_cons_sp (K "REAL"));
      try (apply (lays_cons_sp (K "RANGE")); apply (lays_cons_sp (SNum b)); apply (lays_cons_sp (SNum e)));
      try apply (lays_cons_sp (SNum d)); exact lays_semi.
  - rewrite objtype_text. destruct r as [[b e]|]; destruct v as [d|]; norm_text; cbn [app];
      apply (lays_cons_sp (K (s_objtype ot))); apply (lays_cons_sp (SName n)); apply (lays_cons_sp (K "INTEGER"));
      try (apply (lays_cons_sp (K "RANGE")); apply (lays_cons_sp (SNum b)); apply (lays_cons_sp (SNum e)));
      try apply (lays_cons_sp (SNum d)); exact lays_semi.
Qed.

Lemma lays_propdefs : forall pds,
  lays (render_lines ([(O, kw K_PropertyDefinitions ++ sp)]
                      ++ map (fun p => (1%nat, propdef_str p ++ bs " ; ")) pds
                      ++ [(O, cat [kw K_End; sp; kw K_PropertyDefinitions; sp])]))
       ([K "PROPERTYDEFINITIONS"] ++ flat_map t_propdef pds ++ [K "END"; K "PROPERTYDEFINITIONS"]).
Proof.
  intros pds. rewrite !render_lines_app. apply lays_app; [|apply lays_app].
  - rewrite render_lines_one. apply lays_line. exact (lays_tok (K "PROPERTYDEFINITIONS") [32] blank_sp ltac:(discriminate)).
  - rewrite render_lines_map. apply lays_flat_map. intros p _. cbn [fst snd]. apply lays_line. apply lays_propdef.
  - rewrite render_lines_one. apply lays_line. norm_text.
    apply (lays_cons_sp (K "END")). exact (lays_tok (K "PROPERTYDEFINITIONS") [32] blank_sp ltac:(discriminate)).
Qed.

(** BEGINEXT: the extension text is kept as its tokens, each followed by one blank; [ext_toks] recovers the
    tokens (a blank inside a string literal does not end the token) *)
Fixpoint ext_split (inq : bool) (cur : bytes) (s : bytes) : list bytes :=
  match s with
  | [] => []
  | b :: r =>
    if inq then ext_split (negb (b =? 34)) (b :: cur) r
    else if b =? 32 then rev cur :: ext_split false [] r
    else ext_split (match cur with [] => b =? 34 | _ => false end) (b :: cur) r
  end.
Definition ext_toks (d : bytes) : list bytes := ext_split false [] d.

Lemma ext_split_quote : forall body cur r, ~ In 34 body ->
  ext_split true cur (body ++ 34 :: r) = ext_split false (34 :: rev body ++ cur) r.
Proof.
  induction body as [|x body IH]; intros cur r N; cbn [app ext_split rev].
  - rewrite Z.eqb_refl. reflexivity.
  - assert (X : (x =? 34) = false) by (apply Z.eqb_neq; intros ->; apply N; left; reflexivity).
    rewrite X. cbn [negb]. rewrite IH by (intros C; apply N; right; exact C).
    rewrite <- app_assoc. reflexivity.
Qed.
Lemma ext_split_plain : forall t c cur r, ~ In 32 t ->
  ext_split false (c :: cur) (t ++ 32 :: r) = rev (rev t ++ c :: cur) :: ext_split false [] r.
Proof.
  induction t as [|x t IH]; intros c cur r N; cbn [app ext_split].
  - reflexivity.
  - assert (X : (x =? 32) = false) by (apply Z.eqb_neq; intros ->; apply N; left; reflexivity).
    rewrite X. rewrite IH by (intros C; apply N; right; exact C).
    cbn [rev]. rewrite <- app_assoc. reflexivity.
Qed.
Lemma ext_split_start : forall x t r, x <> 34 -> ~ In 32 (x :: t) ->
  ext_split false [] ((x :: t) ++ 32 :: r) = (x :: t) :: ext_split false [] r.
Proof.
  intros x t r N34 N. cbn [app ext_split].
  assert (X : (x =? 32) = false) by (apply Z.eqb_neq; intros ->; apply N; left; reflexivity).
  assert (Y : (x =? 34) = false) by (apply Z.eqb_neq; exact N34).
  rewrite X, Y. rewrite ext_split_plain by (intros C; apply N; right; exact C).
  rewrite rev_app_distr, rev_involutive. reflexivity.
Qed.
Lemma ext_split_string : forall body r, ~ In 34 body ->
  ext_split false [] ((34 :: body ++ [34]) ++ 32 :: r) = (34 :: body ++ [34]) :: ext_split false [] r.
Proof.
  intros body r N. cbn [app ext_split]. change (34 =? 32) with false. change (34 =? 34) with true. cbv iota.
  rewrite <- app_assoc. cbn [app]. rewrite ext_split_quote by exact N.
  cbn [ext_split]. change (32 =? 32) with true. cbv iota.
  cbn [rev]. rewrite rev_app_distr, rev_involutive. reflexivity.
Qed.

Lemma no_space_no32 : forall s, no_space s = true -> ~ In 32 s.
Proof.
  induction s as [|b s IH]; intros H C; [contradiction|]. cbn [no_space] in H. destruct C as [->|C].
  - change (is_cont 32) with false in H. cbv iota in H. apply andb_prop in H. destruct H as [H _].
    change (cp_at (32 :: s)) with 32 in H. discriminate.
  - destruct (is_cont b); [exact (IH H C)|]. apply andb_prop in H. destruct H as [_ H]. exact (IH H C).
Qed.

Lemma ext_split_tok : forall t r, any_tok t -> ext_split false [] (t ++ 32 :: r) = t :: ext_split false [] r.
Proof.
  intros t r [ty H]. inversion H; subst.
  - reflexivity.
  - apply ext_split_string. assumption.
  - destruct t as [|b0 t']; [congruence|].
    match goal with A : is_alphabetic _ = true |- _ => destruct (alpha_not_special _ A) as (_ & _ & N34 & _) end.
    apply ext_split_start; [|apply no_space_no32; assumption].
    intros ->. cbn in N34. discriminate.
  - match goal with A : numstart _ = true |- _ => destruct (numstart_facts _ A) as (_ & _ & _ & _ & N34 & _) end.
    apply ext_split_start; [|apply no_space_no32; assumption].
    intros ->. discriminate.
Qed.
Lemma ext_toks_flat : forall toks, Forall any_tok toks -> ext_toks (flat_map (fun t => t ++ [32]) toks) = toks.
Proof.
  unfold ext_toks. induction 1 as [|t toks Ht _ IH]; [reflexivity|]. cbn [flat_map]. rewrite <- app_assoc. cbn [app].
  rewrite ext_split_tok by exact Ht. rewrite IH. reflexivity.
Qed.

Definition w_ext (e : lef_extension) : list stok :=
  [K "BEGINEXT"; SRaw (ext_name e)] ++ map SRaw (ext_toks (ext_data e)) ++ [K "ENDEXT"].

Lemma lays_ext_data : forall toks r ts, lays r ts -> lays (flat_map (fun t => t ++ [32]) toks ++ r) (map SRaw toks ++ ts).
Proof.
  induction toks as [|t toks IH]; intros r ts L; cbn [flat_map map app]; [exact L|].
  rewrite <- !app_assoc. cbn [app]. apply (lays_cons_sp (SRaw t)). apply IH. exact L.
Qed.
Lemma lays_ext_toks : forall e toks, ext_data e = flat_map (fun t => t ++ [32]) toks ->
  lays (render_lines [(O, cat [kw K_BeginExtension; sp; ext_name e; sp; ext_data e; sp; kw K_EndExtension])])
       ([K "BEGINEXT"; SRaw (ext_name e)] ++ map SRaw toks ++ [K "ENDEXT"]).
Proof.
  intros e toks E. rewrite render_lines_one. apply lays_line_nl. rewrite E. norm_text.
  apply (lays_cons_sp (K "BEGINEXT")). apply (lays_cons_sp (SRaw (ext_name e))).
  apply lays_ext_data. apply lays_sp. exact (lays_tok (K "ENDEXT") [10] blank_nl ltac:(discriminate)).
Qed.
Lemma ext_wr_toks : forall e, ext_wr e -> exists toks, ext_data e = flat_map (fun t => t ++ [32]) toks
  /\ Forall (fun t => any_tok t /\ ext_tok_free t) toks /\ ext_toks (ext_data e) = toks.
Proof.
  intros e (_ & toks & E & F). exists toks. split; [exact E|]. split; [exact F|]. rewrite E. apply ext_toks_flat.
  eapply Forall_impl; [|exact F]. intros t [A _]. exact A.
Qed.
Lemma lays_ext : forall e, ext_wr e ->
  lays (render_lines [(O, cat [kw K_BeginExtension; sp; ext_name e; sp; ext_data e; sp; kw K_EndExtension])]) (w_ext e).
Proof.
  intros e W. destruct (ext_wr_toks e W) as (toks & E & _ & ET). unfold w_ext. rewrite ET. apply lays_ext_toks. exact E.
Qed.

(** * 2. Characters, version *)
Lemma utf8_enc_spec : forall c, utf8_enc c = spec_utf8 c.
Proof. reflexivity. Qed.

Lemma spec_utf8_no34 : forall c, scalar_ok c -> c <> 34 -> ~ In 34 (spec_utf8 c).
Proof.
  intros c [R _] N. unfold spec_utf8.
  pose proof (Z.mod_pos_bound c 64 ltac:(lia)). pose proof (Z.mod_pos_bound (c / 64) 64 ltac:(lia)).
  pose proof (Z.mod_pos_bound (c / 4096) 64 ltac:(lia)).
  assert (0 <= c / 64) by (apply Z.div_pos; lia). assert (0 <= c / 4096) by (apply Z.div_pos; lia).
  assert (0 <= c / 262144) by (apply Z.div_pos; lia).
  destruct (c <? 128); [|destruct (c <? 2048); [|destruct (c <? 65536)]]; cbn [In]; lia.
Qed.

Lemma chr_string_tok : forall body, Forall chr_wr body -> str_tok (34 :: flat_map spec_utf8 body ++ [34]).
Proof.
  intros body F. apply tlo_string.
  - induction F as [|c body [S _] _ IH]; [constructor|]. cbn [flat_map]. apply U8_app; [apply spec_utf8_U8; exact S | exact IH].
  - induction F as [|c body [S N] _ IH]; [intros []|]. cbn [flat_map]. intros C. apply in_app_or in C. destruct C as [C|C].
    + exact (spec_utf8_no34 c S N C).
    + exact (IH C).
Qed.
Lemma bus_tok : forall a b, chr_wr a -> chr_wr b -> str_tok (34 :: utf8_enc a ++ utf8_enc b ++ [34]).
Proof.
  intros a b A B. pose proof (chr_string_tok [a; b] (Forall_cons _ A (Forall_cons _ B (Forall_nil _)))) as T.
  cbn [flat_map] in T. rewrite app_nil_r, <- app_assoc in T. exact T.
Qed.
Lemma div_tok : forall a, chr_wr a -> str_tok (34 :: utf8_enc a ++ [34]).
Proof.
  intros a A. pose proof (chr_string_tok [a] (Forall_cons _ A (Forall_nil _))) as T.
  cbn [flat_map] in T. rewrite app_nil_r in T. exact T.
Qed.
Lemma chars_of_bus : forall a b, chr_wr a -> chr_wr b -> chars_of (34 :: utf8_enc a ++ utf8_enc b ++ [34]) = [34; a; b; 34].
Proof.
  intros a b [A _] [B _].
  change (chars_of (34 :: utf8_enc a ++ utf8_enc b ++ [34])) with (34 :: chars_of (spec_utf8 a ++ spec_utf8 b ++ [34])).
  rewrite (spec_utf8_chars_of a _ A), (spec_utf8_chars_of b _ B). reflexivity.
Qed.
Lemma chars_of_div : forall a, chr_wr a -> chars_of (34 :: utf8_enc a ++ [34]) = [34; a; 34].
Proof.
  intros a [A _].
  change (chars_of (34 :: utf8_enc a ++ [34])) with (34 :: chars_of (spec_utf8 a ++ [34])).
  rewrite (spec_utf8_chars_of a _ A). reflexivity.
Qed.

(** the converse of [version_ok_of_eq] *)
Lemma version_num_ok_of_ok : forall v, version_ok v = true -> dec_wf v -> version_num_ok v.
Proof.
  intros v H [[M0 _] [S0 _]]. unfold version_ok in H. cbv zeta in H.
  apply andb_prop in H. destruct H as [H H3]. apply andb_prop in H. destruct H as [H1 H2].
  apply Z.eqb_eq in H1, H2. apply Z.leb_le in H3.
  pose proof (LefRt_pow10_pos _ S0) as P. set (p := 10 ^ d_scale v) in *.
  split; [exact S0|].
  assert (NN : d_neg v = false).
  { destruct (d_neg v) eqn:N; [|reflexivity]. unfold dec_floor, d_smant in H1. rewrite N in H1. fold p in H1.
    assert (- d_mant v / p <= 0) by (apply Z.div_le_upper_bound; lia). lia. }
  unfold dec_floor, d_smant in H1. rewrite NN in H1. fold p in H1.
  pose proof (Z.div_mod (d_mant v) p ltac:(lia)) as DM. rewrite H1 in DM.
  pose proof (Z.mod_pos_bound (d_mant v) p P) as RB. set (r := d_mant v mod p) in *.
  pose proof (Z.div_mod (10 * r) p ltac:(lia)) as DM2. rewrite H2 in DM2.
  assert (K0 : 0 <= 10 * r / p) by (apply Z.div_pos; lia).
  set (k := 10 * r / p) in *.
  exists k. split; [lia|]. apply dec_eq_iff. unfold d_smant. rewrite NN. cbn [d_neg d_mant d_scale]. fold p.
  change (10 ^ 1) with 10. nia.
Qed.

Lemma flat_map_map' {A B C} : forall (f : B -> list C) (g : A -> B) l, flat_map f (map g l) = flat_map (fun x => f (g x)) l.
Proof. intros f g. induction l as [|x l IH]; [reflexivity|]. cbn [map flat_map]. rewrite IH. reflexivity. Qed.

Lemma objtype_kw_ok : forall ot, kw_ok (s_objtype ot) = true.
Proof. destruct ot; reflexivity. Qed.
Lemma onoff_kw_ok : forall v, kw_ok (s_onoff v) = true.
Proof. destruct v; reflexivity. Qed.
Lemma clearance_kw_ok : forall v, kw_ok (s_clearance v) = true.
Proof. destruct v; reflexivity. Qed.

Lemma str_tok_any : forall s, str_tok s -> any_tok s.
Proof. intros s H. exists TString. exact H. Qed.
Lemma str_tok_head : forall s, str_tok s -> exists r, s = 34 :: r.
Proof.
  intros s H. unfold str_tok in H. inversion H; subst.
  - eexists. reflexivity.
  - match goal with X : (if ?c then TNumber else TName) = TString |- _ => destruct c; discriminate end.
Qed.

Ltac wk_head :=
  unfold K; cbn [wtok_ok];
  first [apply objtype_kw_ok | apply onoff_kw_ok | apply clearance_kw_ok | reflexivity | exact I | assumption
        | apply str_tok_any; assumption].
Ltac wk := cbn [app]; repeat (apply Forall_cons; [wk_head|]); try apply Forall_nil.

Lemma wok_propdef : forall p, propdef_wr p -> Forall wtok_ok (t_propdef p).
Proof.
  intros [ot n v|ot n v r|ot n v r] W; cbn [propdef_wr t_propdef] in *.
  - destruct W as [Wn Wv]. destruct v as [s|]; cbn [optP] in Wv; wk.
  - destruct W as (Wn & Wv & Wr). destruct r as [[a b]|]; cbn [optP fst snd] in Wr; [destruct Wr|];
      (destruct v as [d|]; cbn [optP] in Wv); wk.
  - destruct W as (Wn & Wv & Wr). destruct r as [[a b]|]; cbn [optP fst snd] in Wr; [destruct Wr|];
      (destruct v as [d|]; cbn [optP] in Wv); wk.
Qed.

Lemma Forall2_with_Forall {A B} (P : A -> Prop) (R R' : A -> B -> Prop) : forall l l',
  (forall x y, P x -> R x y -> R' x y) -> Forall P l -> Forall2 R l l' -> Forall2 R' l l'.
Proof.
  intros l l' H FP F. induction F as [|x y l l' Rxy F IH]; [constructor|]. inversion FP; subst.
  constructor; [apply H; assumption | apply IH; assumption].
Qed.
Lemma wtoks_arel : forall ts, Forall wtok_ok ts -> Forall2 arel ts (map wtok ts).
Proof. induction 1 as [|t ts Ht _ IH]; [constructor|]. cbn [map]. constructor; [apply wtok_arel; exact Ht | exact IH]. Qed.

(** * 3. The library *)
Section WLib.
Variable w_via : lef_via_def -> list stok.
Hypothesis lays_via : forall i v, lays (render_lines (write_via i v)) (w_via v).
Hypothesis wok_via : forall v, via_wr v -> Forall wtok_ok (w_via v).
Hypothesis toksP_via_w : forall v atoks, via_wr v -> Forall2 arel (w_via v) atoks -> via_toksP v atoks.
Variable w_site : lef_site -> list stok.
Hypothesis lays_site : forall i s, lays (render_lines (write_site cfg_fixed i s)) (w_site s).
Hypothesis wok_site : forall s, site_wr s -> Forall wtok_ok (w_site s).
Hypothesis toksP_site_w : forall s atoks, site_wr s -> Forall2 arel (w_site s) atoks -> site_toksP s atoks.
Variable w_units : lef_units -> list stok.
Hypothesis lays_units : forall i u, lays (render_lines (write_units i u)) (w_units u).
Hypothesis wok_units : forall u, units_wr u -> Forall wtok_ok (w_units u).
Hypothesis toksP_units_w : forall u atoks, units_wr u -> Forall2 arel (w_units u) atoks -> units_toksP u atoks.
Variable w_macro : lef_macro -> list stok.
Hypothesis write_macros_ok : forall ver ms, Forall (fun m => mac_source m <> None -> dec_gt ver V5P4 = false) ms ->
  exists lines, write_macros cfg_fixed ver ms = Ok lines /\ lays (render_lines lines) (flat_map w_macro ms).
Hypothesis wok_macro : forall m, macro_wr m -> Forall wtok_ok (w_macro m).
Hypothesis toksP_macro_w : forall m atoks, macro_wr m -> Forall2 arel (w_macro m) atoks -> mtoksP m atoks.

(** the tokens of one library-level statement, as the writer prints it *)
Definition w_stmt (s : libstmt) : list stok :=
  match s with
  | LNcs v => [K "NAMESCASESENSITIVE"; K (s_onoff v); SSemi]
  | LNowire v => [K "NOWIREEXTENSIONATPIN"; K (s_onoff v); SSemi]
  | LBus a b => [K "BUSBITCHARS"; SRaw (34 :: utf8_enc a ++ utf8_enc b ++ [34]); SSemi]
  | LDiv a => [K "DIVIDERCHAR"; SRaw (34 :: utf8_enc a ++ [34]); SSemi]
  | LUnits u => w_units u
  | LGrid v => [K "MANUFACTURINGGRID"; SNum v; SSemi]
  | LUms v => [K "USEMINSPACING"; K "OBS"; K (s_onoff v); SSemi]
  | LClr v => [K "CLEARANCEMEASURE"; K (s_clearance v); SSemi]
  | LPropdefs pds => [K "PROPERTYDEFINITIONS"] ++ flat_map t_propdef pds ++ [K "END"; K "PROPERTYDEFINITIONS"]
  | LFixedMask => [K "FIXEDMASK"; SSemi]
  | LVia v => w_via v
  | LSite s => w_site s
  | LMacro m => w_macro m
  | LExt e => w_ext e
  end.
(** VERSION first, the statements in the writer's order (that of [lib_canon]), END LIBRARY *)
Definition w_lib (l : lef_lib) : list stok :=
  (match lib_version l with Some v => [K "VERSION"; SNum v; SSemi] | None => [] end)
  ++ flat_map w_stmt (lib_canon l) ++ [K "END"; K "LIBRARY"].

(** what [lib_wr] says of one statement *)
Definition stmt_wr (s : libstmt) : Prop :=
  match s with
  | LBus a b => chr_wr a /\ chr_wr b
  | LDiv a => chr_wr a
  | LUnits u => units_wr u
  | LGrid v => dec_wf v
  | LPropdefs pds => Forall propdef_wr pds
  | LVia v => via_wr v
  | LSite s => site_wr s
  | LMacro m => macro_wr m
  | LExt e => ext_wr e
  | _ => True
  end.

Lemma canon_wr : forall l, lib_wr l -> Forall stmt_wr (lib_canon l).
Proof.
  intros l (Wm & Ws & Wv & Wver & Gate & Wbus & Wdiv & Wun & Wext & Wgrid & Wpd).
  unfold lib_canon. repeat (apply Forall_app; split).
  - destruct (lib_names_case_sensitive l); repeat constructor.
  - destruct (lib_no_wire_extension_at_pin l); repeat constructor.
  - destruct (lib_bus_bit_chars l) as [[a b]|]; cbn [option_map olist optP fst snd] in *; [|constructor].
    apply Forall_cons; [exact Wbus | constructor].
  - destruct (lib_divider_char l) as [a|]; cbn [option_map olist optP] in *; [|constructor].
    apply Forall_cons; [exact Wdiv | constructor].
  - destruct (lib_units l) as [u|]; cbn [option_map olist optP] in *; [|constructor].
    apply Forall_cons; [exact Wun | constructor].
  - destruct (lib_manufacturing_grid l) as [d|]; cbn [option_map olist optP] in *; [|constructor].
    apply Forall_cons; [exact Wgrid | constructor].
  - destruct (lib_use_min_spacing l); repeat constructor.
  - destruct (lib_clearance_measure l); repeat constructor.
  - destruct (lib_property_definitions l) as [|p r]; [constructor|]. apply Forall_cons; [exact Wpd | constructor].
  - destruct (lib_fixed_mask l); repeat constructor.
  - apply Forall_map. exact Wv.
  - apply Forall_map. exact Ws.
  - apply Forall_map. exact Wm.
  - apply Forall_map. exact Wext.
Qed.

Lemma wok_stmt : forall s, stmt_wr s -> Forall wtok_ok (w_stmt s).
Proof.
  intros [v|v|a b|a|u|d|v|v|pds| |v|s|m|e] W; cbn [stmt_wr w_stmt] in *.
  - wk.
  - wk.
  - destruct W as [A B]. apply Forall_cons; [reflexivity|]. apply Forall_cons; [|wk].
    apply str_tok_any. apply bus_tok; assumption.
  - apply Forall_cons; [reflexivity|]. apply Forall_cons; [|wk]. apply str_tok_any. apply div_tok; assumption.
  - apply wok_units. exact W.
  - wk.
  - wk.
  - wk.
  - apply Forall_app. split; [wk|]. apply Forall_app. split; [|wk].
    apply Forall_flat_map. eapply Forall_impl; [|exact W]. intros p. apply wok_propdef.
  - wk.
  - apply wok_via. exact W.
  - apply wok_site. exact W.
  - apply wok_macro. exact W.
  - destruct (ext_wr_toks e W) as (toks & _ & F & ET). destruct W as (Wn & _). unfold w_ext. rewrite ET.
    apply Forall_cons; [reflexivity|]. apply Forall_cons; [apply str_tok_any; exact Wn|].
    apply Forall_app. split; [|wk]. apply Forall_map. eapply Forall_impl; [|exact F]. intros t [A _]. exact A.
Qed.

Lemma toksP_stmt : forall s at_, stmt_wr s -> Forall2 arel (w_stmt s) at_ -> lstoksP s at_.
Proof.
  intros [v|v|a b|a|u|d|v|v|pds| |v|s|m|e] at_ W F; cbn [stmt_wr w_stmt] in *;
    unfold lstoksP; cbn [lib_stmt_toksP].
  - exact F.
  - exact F.
  - destruct W as [Wa Wb]. unfold K in F. inv_arel.
    match goal with X : arel (SRaw _) ?x |- _ => destruct X as [Sx Tx] end.
    eexists _, _, _, 34, 34. split; [reflexivity|]. split; [eassumption|]. split; [exact Tx|]. split; [|eassumption].
    rewrite Sx. apply chars_of_bus; assumption.
  - unfold K in F. inv_arel.
    match goal with X : arel (SRaw _) ?x |- _ => destruct X as [Sx Tx] end.
    eexists _, _, _, 34, 34. split; [reflexivity|]. split; [eassumption|]. split; [exact Tx|]. split; [|eassumption].
    rewrite Sx. apply chars_of_div; assumption.
  - apply toksP_units_w; assumption.
  - exact F.
  - exact F.
  - exact F.
  - unfold K in F. cbn [app] in F.
    apply LefRt_Forall2_cons_inv in F. destruct F as (a0 & at0 & -> & A0 & F).
    apply Forall2_app_inv_l in F. destruct F as (at1 & at2 & F1 & F2 & ->). inv_arel.
    destruct (Forall2_flat_map_inv t_propdef pds at1 F1) as (atL & -> & FL).
    eexists _, atL, _, _. split; [reflexivity|]. split; [exact A0|]. split; [|split; eassumption].
    eapply Forall2_with_Forall; [|exact W|exact FL]. cbv beta. intros p ap Wp Fp. split; [exact Fp|].
    destruct p as [ot n [s|]|ot n v rg|ot n v rg]; cbn [propdef_struct_ok]; try exact I.
    cbn [propdef_wr optP] in Wp. apply str_tok_head. apply Wp.
  - exact F.
  - apply toksP_via_w; assumption.
  - apply toksP_site_w; assumption.
  - apply toksP_macro_w; assumption.
  - destruct (ext_wr_toks e W) as (toks & E & FT & ET). destruct W as (Wn & _). unfold w_ext in F. rewrite ET in F.
    exists toks. split; [exact E|]. split; [|split; [apply str_tok_head; exact Wn | exact F]].
    eapply Forall_impl; [|exact FT]. intros t [_ X]. exact X.
Qed.

Lemma wok_lib : forall l, lib_wr l -> Forall wtok_ok (w_lib l).
Proof.
  intros l W. pose proof (canon_wr l W) as C.
  destruct W as (_ & _ & _ & Wver & _). unfold w_lib. apply Forall_app. split; [|apply Forall_app; split; [|wk]].
  - destruct (lib_version l) as [v|]; cbn [optP] in Wver; [destruct Wver as [Wf _]; wk | constructor].
  - apply Forall_flat_map. eapply Forall_impl; [|exact C]. intros s. apply wok_stmt.
Qed.

Lemma lib_old_canon_wr : forall l, lib_wr l -> Forall (lib_old_ok (ver_of l)) (lib_canon l).
Proof.
  intros l (_ & _ & _ & _ & Gate & _). fold (ver_of l) in Gate.
  assert (M : Forall (fun m => mac_source m <> None -> dec_gt (ver_of l) V5P4 = false) (lib_macros l)).
  { destruct (dec_gt (ver_of l) V5P4) eqn:E.
    - destruct (Gate eq_refl) as (_ & _ & FM). eapply Forall_impl; [|exact FM]. cbv beta. intros m N C. contradiction.
    - apply Forall_forall. intros m _ _. reflexivity. }
  unfold lib_canon. repeat (apply Forall_app; split).
  - destruct (lib_names_case_sensitive l) as [v|] eqn:E; [|constructor]. apply Forall_cons; [|constructor]. cbn [lib_old_ok].
    destruct (dec_gt (ver_of l) V5P4); [|reflexivity]. destruct (Gate eq_refl) as (X & _). discriminate.
  - destruct (lib_no_wire_extension_at_pin l) as [v|] eqn:E; [|constructor]. apply Forall_cons; [|constructor]. cbn [lib_old_ok].
    destruct (dec_gt (ver_of l) V5P4); [|reflexivity]. destruct (Gate eq_refl) as (_ & X & _). discriminate.
  - destruct (lib_bus_bit_chars l); repeat constructor.
  - destruct (lib_divider_char l); repeat constructor.
  - destruct (lib_units l); repeat constructor.
  - destruct (lib_manufacturing_grid l); repeat constructor.
  - destruct (lib_use_min_spacing l); repeat constructor.
  - destruct (lib_clearance_measure l); repeat constructor.
  - destruct (lib_property_definitions l); repeat constructor.
  - destruct (lib_fixed_mask l); repeat constructor.
  - apply Forall_map. apply Forall_forall. intros x _. exact I.
  - apply Forall_map. apply Forall_forall. intros x _. exact I.
  - apply Forall_map. exact M.
  - apply Forall_map. apply Forall_forall. intros x _. exact I.
Qed.

Lemma toksP_lib_w : forall l atoks, lib_wr l -> Forall2 arel (w_lib l) atoks -> lib_toksP l atoks.
Proof.
  intros l atoks W F. unfold w_lib in F.
  apply Forall2_app_inv_l in F. destruct F as (atV & at1 & FV & F & ->).
  apply Forall2_app_inv_l in F. destruct F as (at_b & tail & Fb & Ft & ->).
  destruct (Forall2_flat_map_inv w_stmt (lib_canon l) at_b Fb) as (atL & -> & FL).
  exists atV, (lib_canon l), atL, tail. split; [reflexivity|]. split; [|split; [|split; [|split]]].
  - destruct W as (_ & _ & _ & Wver & _). destruct (lib_version l) as [v|]; unfold K in FV; inv_arel; [|reflexivity].
    cbn [optP] in Wver. destruct Wver as [Wf Vo].
    eexists _, _, _. split; [reflexivity|]. repeat (split; [eassumption|]). apply version_num_ok_of_ok; assumption.
  - eapply Forall2_with_Forall; [|exact (canon_wr l W)|exact FL]. cbv beta. intros s a Ws Fs. apply toksP_stmt; assumption.
  - intros k. reflexivity.
  - apply lib_old_canon_wr. exact W.
  - left. unfold K in Ft. inv_arel. eexists _, _. split; [reflexivity|]. split; eassumption.
Qed.

(** the groups of lines of `write_lib_lines` against the groups of [lib_canon] *)
Lemma render_nil_lays : lays (render_lines []) []. Proof. exact lays_nil. Qed.

Lemma write_lib_ok : forall l, lib_wr l ->
  exists lines, write_lib_lines cfg_fixed l = Ok lines /\ lays (render_lines lines) (w_lib l).
Proof.
  intros l W. pose proof W as (Wm & Ws & Wv & Wver & Gate & Wbus & Wdiv & Wun & Wext & Wgrid & Wpd).
  unfold write_lib_lines. cbv beta zeta.
  set (ver := match lib_version l with Some v => v | None => V5P8 end) in *.
  assert (G1 : (match lib_names_case_sensitive l with Some _ => true | None => false end) && dec_gt ver V5P4 = false).
  { destruct (dec_gt ver V5P4); [destruct (Gate eq_refl) as (-> & _); reflexivity | apply andb_false_r]. }
  assert (G2 : (match lib_no_wire_extension_at_pin l with Some _ => true | None => false end) && dec_gt ver V5P4 = false).
  { destruct (dec_gt ver V5P4); [destruct (Gate eq_refl) as (_ & -> & _); reflexivity | apply andb_false_r]. }
  assert (M : Forall (fun m => mac_source m <> None -> dec_gt ver V5P4 = false) (lib_macros l)).
  { destruct (dec_gt ver V5P4).
    - destruct (Gate eq_refl) as (_ & _ & FM). eapply Forall_impl; [|exact FM]. cbv beta. intros m N C. contradiction.
    - apply Forall_forall. intros m _ _. reflexivity. }
  rewrite G1, G2.
  destruct (write_macros_ok ver (lib_macros l) M) as (ml & EM & LM). rewrite EM.
  eexists. split; [reflexivity|].
  unfold w_lib, lib_canon. repeat rewrite flat_map_app. repeat rewrite <- app_assoc. repeat rewrite render_lines_app.
  (* VERSION *)
  apply lays_app; [destruct (lib_version l); [apply lays_version | exact lays_nil]|].
  apply lays_app; [destruct (lib_names_case_sensitive l); cbn [option_map olist flat_map w_stmt];
                   [rewrite app_nil_r; apply lays_ncs | exact lays_nil]|].
  apply lays_app; [destruct (lib_no_wire_extension_at_pin l); cbn [option_map olist flat_map w_stmt];
                   [rewrite app_nil_r; apply lays_nowire | exact lays_nil]|].
  apply lays_app; [destruct (lib_bus_bit_chars l) as [[a b]|]; cbn [option_map olist flat_map w_stmt fst snd];
                   [rewrite app_nil_r; apply lays_bus | exact lays_nil]|].
  apply lays_app; [destruct (lib_divider_char l); cbn [option_map olist flat_map w_stmt];
                   [rewrite app_nil_r; apply lays_div | exact lays_nil]|].
  apply lays_app; [destruct (lib_units l); cbn [option_map olist flat_map w_stmt];
                   [rewrite app_nil_r; apply lays_units | exact lays_nil]|].
  apply lays_app; [destruct (lib_manufacturing_grid l); cbn [option_map olist flat_map w_stmt];
                   [rewrite app_nil_r; apply lays_grid | exact lays_nil]|].
  apply lays_app; [destruct (lib_use_min_spacing l); cbn [option_map olist flat_map w_stmt];
                   [rewrite app_nil_r; apply lays_ums | exact lays_nil]|].
  apply lays_app; [destruct (lib_clearance_measure l); cbn [option_map olist flat_map w_stmt];
                   [rewrite app_nil_r; apply lays_clr | exact lays_nil]|].
  apply lays_app; [destruct (lib_property_definitions l) as [|p r]; [exact lays_nil|];
                   cbn [flat_map w_stmt]; rewrite app_nil_r; apply lays_propdefs|].
  apply lays_app; [destruct (lib_fixed_mask l); [cbn [flat_map w_stmt]; rewrite app_nil_r; apply lays_fixedmask | exact lays_nil]|].
  apply lays_app; [rewrite render_lines_flat_map, flat_map_map'; cbn [w_stmt]; apply lays_flat_map; intros v _; apply lays_via|].
  apply lays_app; [rewrite render_lines_flat_map, flat_map_map'; cbn [w_stmt]; apply lays_flat_map; intros s _; apply lays_site|].
  apply lays_app; [rewrite flat_map_map'; cbn [w_stmt]; exact LM|].
  apply lays_app; [|apply lays_end_library].
  rewrite render_lines_map, flat_map_map'. cbn [w_stmt fst snd]. apply lays_flat_map. intros e He.
  rewrite <- render_lines_one. apply lays_ext. rewrite Forall_forall in Wext. apply Wext. exact He.
Qed.

(** * 4. C05 for the libraries with [lib_wr] *)
Theorem write_read_wr : forall l, lib_wr l ->
  exists t l', write_lib cfg_fixed l = Ok t /\ parse cfg_fixed t = Ok l' /\ lef_eq l l' = true.
Proof.
  intros l W. destruct (write_lib_ok l W) as (lines & E & L).
  pose proof (wok_lib l W) as OK.
  destruct (lays_items _ _ L OK) as (items & Eb & IO & ET).
  assert (TP : lib_toksP l (toks_of items)).
  { rewrite ET. apply toksP_lib_w; [exact W | apply wtoks_arel; exact OK]. }
  destruct (parse_items l items IO TP) as (l' & P & Q).
  exists (render_lines lines), l'. split; [unfold write_lib; rewrite E; reflexivity|].
  split; [rewrite Eb; exact P | exact Q].
Qed.

End WLib.

Check lays_version. Check lays_ncs. Check lays_nowire. Check lays_bus. Check lays_div. Check lays_grid. Check lays_ums.
Check lays_clr. Check lays_propdef. Check lays_propdefs. Check lays_fixedmask. Check lays_ext_toks. Check lays_ext. Check lays_end_library.
Check w_stmt. Check w_lib. Check write_lib_ok. Check wok_lib. Check toksP_lib_w. Check write_read_wr.
Print Assumptions write_lib_ok.
Print Assumptions wok_lib.
Print Assumptions toksP_lib_w.
Print Assumptions write_read_wr.
