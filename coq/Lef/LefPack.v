(** Compact source-text literals for the correspondence runs (C11): a byte string is written in the case
    files as a list of primitive 63-bit integers, seven bytes per word, little-endian, with the number of
    bytes the word carries (1..7) in bits 56..58.  [un63] unpacks it into the model's [bytes].
    (A Coq string literal costs about ten term nodes per character to elaborate; a word costs one.)
    Part of the test harness, not of the model; no theorem depends on it. *)
From Coq Require Import ZArith List Uint63.
Import ListNotations.

Fixpoint un63_word (k : nat) (w : int) : list Z :=
  match k with
  | O => []
  | S k' => to_Z (w land 255)%uint63 :: un63_word k' (w >> 8)%uint63
  end.
Fixpoint un63 (ws : list int) : list Z :=
  match ws with
  | [] => []
  | w :: r => un63_word (Z.to_nat (to_Z (w >> 56)%uint63)) w ++ un63 r
  end.
