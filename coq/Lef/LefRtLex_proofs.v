(** C04 / C05: the repaired lexer on a text made of tokens and blanks.

    A text is described by a list of [item]s: a token with its text, a separator (blanks, tabs, newlines,
    carriage returns and `#` comments ending with a newline), or a final comment without newline. When every
    token is followed by a separator that starts with a white-space character (or by nothing), the lexer
    returns exactly the tokens, with their types, and spans whose byte slices of the text are the token
    texts ([lex_items]). Comments may hold any well-formed UTF-8 without a newline. *)
From Coq Require Import ZArith List Bool Lia.
From L21 Require Import Lef.LefDec Lef.LefData Lef.LefLex Lef.LefParse Lef.LefSpec Lef.LefLex_proofs.
Import ListNotations.
Local Open Scope Z_scope.

(** * Fuel-free lexing *)
Lemma LefRt_lex_all_fuel_irrel : forall f1 f2 rem pos line ls,
  (length rem < f1)%nat -> (length rem < f2)%nat ->
  lex_all f1 false rem pos line ls = lex_all f2 false rem pos line ls.
Proof.
  induction f1 as [|f1 IH]; intros f2 rem pos line ls L1 L2; [lia|].
  destruct f2 as [|f2]; [lia|]. simpl.
  pose proof (lex_one_consumes false rem pos line ls) as C.
  destruct (lex_one false rem pos line ls) as [|t r p l ls'| |]; try reflexivity.
  specialize (C _ _ _ _ _ eq_refl).
  rewrite (IH f2 r p l ls') by lia. reflexivity.
Qed.

Definition lexs (rem : bytes) (pos line ls : Z) : list tokinfo * lex_end :=
  lex_all (S (length rem)) false rem pos line ls.

Lemma lexs_step : forall rem pos line ls,
  lexs rem pos line ls =
  match lex_one false rem pos line ls with
  | L1None => ([], LEof pos line ls)
  | L1Fail c l p => ([], LErr c l p)
  | L1Panic => ([], LPanic)
  | L1Tok t r p l ls' =>
    match t_ty t with
    | TNewLine | TWhiteSpace | TComment => lexs r p l ls'
    | _ => let '(ts, e) := lexs r p l ls' in (mkti t r ls' :: ts, e)
    end
  end.
Proof.
  intros. unfold lexs at 1. cbn [lex_all].
  pose proof (lex_one_consumes false rem pos line ls) as C.
  destruct (lex_one false rem pos line ls) as [|t r p l ls'| |]; try reflexivity.
  specialize (C _ _ _ _ _ eq_refl).
  unfold lexs. rewrite (LefRt_lex_all_fuel_irrel (length rem) (S (length r)) r p l ls') by lia.
  reflexivity.
Qed.

Lemma lex_lexs : forall src, lex false src = lexs src 0 1 0.
Proof. reflexivity. Qed.

(** * Character-wise predicates on well-formed UTF-8 *)
Fixpoint all_chars (p : Z -> bool) (s : bytes) : bool :=
  match s with
  | [] => true
  | b :: r => if is_cont b then all_chars p r else p (cp_at s) && all_chars p r
  end.

Lemma no_space_all_chars : forall s, no_space s = all_chars not_ws s.
Proof. induction s as [|b r IH]; [reflexivity|]. cbn [no_space all_chars]. rewrite IH. reflexivity. Qed.

Lemma is_cont_range : forall b, is_cont b = true <-> 128 <= b < 192.
Proof.
  intros b. unfold is_cont. rewrite andb_true_iff, Z.leb_le, Z.ltb_lt. tauto.
Qed.
Lemma not_cont_lt : forall b, b < 128 -> is_cont b = false.
Proof. intros b H. destruct (is_cont b) eqn:E; [apply is_cont_range in E; lia | reflexivity]. Qed.
Lemma not_cont_ge : forall b, 192 <= b -> is_cont b = false.
Proof. intros b H. destruct (is_cont b) eqn:E; [apply is_cont_range in E; lia | reflexivity]. Qed.

Lemma U8_head_not_cont : forall b s, U8 (b :: s) -> is_cont b = false.
Proof.
  intros b s H. inversion H; subst; first [apply not_cont_lt; lia | apply not_cont_ge; lia].
Qed.

Ltac zltb b k := first [ replace (b <? k) with true by (symmetry; apply Z.ltb_lt; lia)
                       | replace (b <? k) with false by (symmetry; apply Z.ltb_ge; lia) ].
Ltac cp_at_dec b := cbn [cp_at app]; zltb b 128; try zltb b 224; try zltb b 240; reflexivity.

(** what may follow the scanned text: nothing, or a character on which the predicate fails *)
Definition stops (p : Z -> bool) (rest : bytes) : Prop :=
  match rest with [] => True | b :: _ => is_cont b = false /\ p (cp_at rest) = false end.

Lemma accept_while_U8 : forall p s, U8 s -> all_chars p s = true -> forall rest pos,
  stops p rest -> accept_while false p (s ++ rest) pos = (rest, pos + Z.of_nat (length s)).
Proof.
  intros p s U. induction U as [|b r B U IH|b0 b1 r B0 C1 U IH|b0 b1 b2 r B0 C1 C2 X1 X2 U IH
                               |b0 b1 b2 b3 r B0 C1 C2 C3 X1 X2 U IH]; intros A rest pos St.
  - cbn [app length]. destruct rest as [|b t]; cbn [accept_while].
    + f_equal. simpl. lia.
    + destruct St as [Cb Pb]. rewrite Cb, Pb. f_equal. simpl. lia.
  - cbn [all_chars] in A. rewrite (not_cont_lt b) in A by lia.
    apply andb_prop in A. destruct A as [A1 A2].
    cbn [app accept_while]. rewrite (not_cont_lt b) by lia.
    assert (E : cp_at (b :: r ++ rest) = cp_at (b :: r)).
    { cbn [cp_at]. replace (b <? 128) with true by (symmetry; apply Z.ltb_lt; lia). reflexivity. }
    rewrite E, A1, adv_false, (IH A2 rest (pos + 1) St). f_equal. cbn [length]. lia.
  - cbn [all_chars] in A. rewrite (not_cont_ge b0) in A by lia. rewrite C1 in A.
    apply andb_prop in A. destruct A as [A1 A2].
    cbn [app accept_while]. rewrite (not_cont_ge b0) by lia.
    assert (E : cp_at (b0 :: b1 :: r ++ rest) = cp_at (b0 :: b1 :: r)) by cp_at_dec b0.
    rewrite E, A1, C1, !adv_false, (IH A2 rest (pos + 1 + 1) St). f_equal. cbn [length]. lia.
  - cbn [all_chars] in A. rewrite (not_cont_ge b0) in A by lia. rewrite C1, C2 in A.
    apply andb_prop in A. destruct A as [A1 A2].
    cbn [app accept_while]. rewrite (not_cont_ge b0) by lia.
    assert (E : cp_at (b0 :: b1 :: b2 :: r ++ rest) = cp_at (b0 :: b1 :: b2 :: r)) by cp_at_dec b0.
    rewrite E, A1, C1, C2, !adv_false, (IH A2 rest (pos + 1 + 1 + 1) St). f_equal. cbn [length]. lia.
  - cbn [all_chars] in A. rewrite (not_cont_ge b0) in A by lia. rewrite C1, C2, C3 in A.
    apply andb_prop in A. destruct A as [A1 A2].
    cbn [app accept_while]. rewrite (not_cont_ge b0) by lia.
    assert (E : cp_at (b0 :: b1 :: b2 :: b3 :: r ++ rest) = cp_at (b0 :: b1 :: b2 :: b3 :: r)) by cp_at_dec b0.
    rewrite E, A1, C1, C2, C3, !adv_false, (IH A2 rest (pos + 1 + 1 + 1 + 1) St). f_equal. cbn [length]. lia.
Qed.

(** the character at the head of a well-formed text does not depend on what follows the text *)
Lemma U8_cp_at_app_ne : forall s rest, U8 s -> s <> [] -> cp_at (s ++ rest) = cp_at s.
Proof.
  intros s rest U N. inversion U; subst; try congruence.
  - cp_at_dec b.
  - cp_at_dec b0.
  - cp_at_dec b0.
  - cp_at_dec b0.
Qed.

(** a multi-byte character of a well-formed text has a scalar value of at least 128 *)
Lemma U8_multibyte_ge : forall b s, U8 (b :: s) -> 128 <= b -> 128 <= cp_at (b :: s).
Proof.
  intros b s U G. inversion U; subst; try lia; cbn [cp_at];
    repeat match goal with H : is_cont _ = true |- _ => apply is_cont_range in H end.
  - replace (b <? 128) with false by (symmetry; apply Z.ltb_ge; lia).
    replace (b <? 224) with true by (symmetry; apply Z.ltb_lt; lia). lia.
  - replace (b <? 128) with false by (symmetry; apply Z.ltb_ge; lia).
    replace (b <? 224) with false by (symmetry; apply Z.ltb_ge; lia).
    replace (b <? 240) with true by (symmetry; apply Z.ltb_lt; lia).
    destruct (Z.eq_dec b 224) as [->|]; [repeat match goal with H : 224 = 224 -> _ |- _ => specialize (H eq_refl) end|]; lia.
  - replace (b <? 128) with false by (symmetry; apply Z.ltb_ge; lia).
    replace (b <? 224) with false by (symmetry; apply Z.ltb_ge; lia).
    replace (b <? 240) with false by (symmetry; apply Z.ltb_ge; lia).
    destruct (Z.eq_dec b 240) as [->|]; [repeat match goal with H : 240 = 240 -> _ |- _ => specialize (H eq_refl) end|]; lia.
Qed.

Lemma U8_tail_cont : forall b s, U8 (b :: s) -> 128 <= b -> exists c t, s = c :: t /\ is_cont c = true.
Proof. intros b s U G. inversion U; subst; try lia; eauto. Qed.

(** no byte equal to the ASCII character [x] => no character equal to [x] *)
Lemma U8_all_chars_ne : forall x s, U8 s -> 0 <= x < 128 -> ~ In x s ->
  all_chars (fun c => negb (c =? x)) s = true.
Proof.
  intros x s U X. induction U as [|b r B U IH|b0 b1 r B0 C1 U IH|b0 b1 b2 r B0 C1 C2 X1 X2 U IH
                                 |b0 b1 b2 b3 r B0 C1 C2 C3 X1 X2 U IH]; intros N.
  - reflexivity.
  - cbn [all_chars]. rewrite (not_cont_lt b) by lia.
    assert (E : cp_at (b :: r) = b).
    { cbn [cp_at]. replace (b <? 128) with true by (symmetry; apply Z.ltb_lt; lia). reflexivity. }
    rewrite E. replace (b =? x) with false by (symmetry; apply Z.eqb_neq; intros ->; apply N; left; reflexivity).
    apply IH. intros I. apply N. right. exact I.
  - assert (G : 128 <= cp_at (b0 :: b1 :: r)) by (apply U8_multibyte_ge; [constructor; auto | lia]).
    cbn [all_chars]. rewrite (not_cont_ge b0) by lia. rewrite C1.
    replace (cp_at (b0 :: b1 :: r) =? x) with false by (symmetry; apply Z.eqb_neq; lia).
    apply IH. intros I. apply N. right. right. exact I.
  - assert (G : 128 <= cp_at (b0 :: b1 :: b2 :: r)) by (apply U8_multibyte_ge; [constructor; auto | lia]).
    cbn [all_chars]. rewrite (not_cont_ge b0) by lia. rewrite C1, C2.
    replace (cp_at (b0 :: b1 :: b2 :: r) =? x) with false by (symmetry; apply Z.eqb_neq; lia).
    apply IH. intros I. apply N. right. right. right. exact I.
  - assert (G : 128 <= cp_at (b0 :: b1 :: b2 :: b3 :: r)) by (apply U8_multibyte_ge; [constructor; auto | lia]).
    cbn [all_chars]. rewrite (not_cont_ge b0) by lia. rewrite C1, C2, C3.
    replace (cp_at (b0 :: b1 :: b2 :: b3 :: r) =? x) with false by (symmetry; apply Z.eqb_neq; lia).
    apply IH. intros I. apply N. right. right. right. right. exact I.
Qed.

(** * Skipping continuation bytes *)
Lemma skip_conts_head : forall s pos, starts_on_boundary s = true -> skip_conts false s pos = (s, pos).
Proof. intros [|b s] pos H; [reflexivity|]. simpl in H. cbn [skip_conts]. destruct (is_cont b); [discriminate | reflexivity]. Qed.

Lemma next_char_head : forall b s pos, starts_on_boundary s = true -> next_char false (b :: s) pos = (s, pos + 1).
Proof. intros. cbn [next_char]. rewrite adv_false. apply skip_conts_head. assumption. Qed.

(** * What follows a token: nothing, or a white-space character *)
Definition ws_next (rest : bytes) : Prop :=
  match rest with [] => True | b :: _ => ws_char_ok b = true end.

Lemma ws_char_cases : forall b, ws_char_ok b = true -> b = 32 \/ b = 9 \/ b = 10 \/ b = 13 \/ b = 11 \/ b = 12.
Proof.
  intros b H. unfold ws_char_ok in H. repeat rewrite orb_true_iff in H. repeat rewrite Z.eqb_eq in H. tauto.
Qed.
Lemma ws_next_boundary : forall rest, ws_next rest -> starts_on_boundary rest = true.
Proof.
  intros [|b t] H; [reflexivity|]. simpl in H. apply ws_char_cases in H. simpl.
  rewrite not_cont_lt by lia. reflexivity.
Qed.
Lemma ws_next_stops : forall rest, ws_next rest -> stops not_ws rest.
Proof.
  intros [|b t] H; [exact I|]. simpl in H. apply ws_char_cases in H. split.
  - apply not_cont_lt. lia.
  - destruct H as [->|[->|[->|[->|[->| ->]]]]]; reflexivity.
Qed.

(** * One token *)
Definition atok : Type := (ttype * bytes)%type.
Definition numstart (b : Z) : bool := is_digit10 b || (b =? 46) || (b =? 45).

Inductive tok_lex_ok : atok -> Prop :=
| tlo_semi : tok_lex_ok (TSemi, [59])
| tlo_string : forall body, U8 body -> ~ In 34 body -> tok_lex_ok (TString, 34 :: body ++ [34])
| tlo_name : forall b, U8 b -> b <> [] -> no_space b = true -> is_alphabetic (cp_at b) = true -> tok_lex_ok (TName, b)
| tlo_numlike : forall b0 b', U8 (b0 :: b') -> no_space (b0 :: b') = true -> numstart b0 = true ->
    tok_lex_ok ((if is_rust_float (b0 :: b') then TNumber else TName), b0 :: b').

Lemma alpha_not_special : forall c, is_alphabetic c = true ->
  (c =? 10) = false /\ (c =? 59) = false /\ (c =? 34) = false /\ (c =? 35) = false
  /\ (is_digit10 c || (c =? 46) || (c =? 45)) = false.
Proof.
  intros c H. unfold is_alphabetic in H. unfold is_digit10.
  destruct (c <? 128) eqn:L.
  - apply Z.ltb_lt in L. repeat rewrite orb_true_iff in H. repeat rewrite andb_true_iff in H.
    repeat rewrite Z.leb_le in H.
    repeat split; try (apply Z.eqb_neq; lia).
    repeat rewrite orb_false_iff. repeat split; try (apply Z.eqb_neq; lia).
    apply andb_false_iff. destruct (Z_le_gt_dec 48 c); [right; apply Z.leb_gt; lia | left; apply Z.leb_gt; lia].
  - apply Z.ltb_ge in L.
    repeat split; try (apply Z.eqb_neq; lia).
    repeat rewrite orb_false_iff. repeat split; try (apply Z.eqb_neq; lia).
    apply andb_false_iff. right. apply Z.leb_gt. lia.
Qed.

Lemma accept_while_skip : forall p s pos,
  accept_while false p s pos = let '(r1, p1) := skip_conts false s pos in accept_while false p r1 p1.
Proof.
  intros p. induction s as [|b s IH]; intros pos; [reflexivity|].
  cbn [skip_conts]. destruct (is_cont b) eqn:C.
  - cbn [accept_while]. rewrite C. apply IH.
  - reflexivity.
Qed.

(** consuming the first character and then scanning = scanning from the first character *)
Lemma next_char_accept : forall p b t pos, is_cont b = false -> p (cp_at (b :: t)) = true ->
  (let '(r1, p1) := next_char false (b :: t) pos in accept_while false p r1 p1) = accept_while false p (b :: t) pos.
Proof.
  intros p b t pos C P. cbn [next_char]. cbn [accept_while]. rewrite C, P.
  rewrite (accept_while_skip p t (adv false b pos)). reflexivity.
Qed.

Lemma numstart_facts : forall b, numstart b = true ->
  b < 128 /\ (b =? 10) = false /\ is_whitespace b = false /\ (b =? 59) = false /\ (b =? 34) = false /\ (b =? 35) = false.
Proof.
  intros b H. unfold numstart, is_digit10 in H. repeat rewrite orb_true_iff in H. rewrite andb_true_iff in H.
  repeat rewrite Z.leb_le in H. repeat rewrite Z.eqb_eq in H.
  assert (R : 45 <= b <= 57) by lia.
  split; [lia|]. repeat split; try (apply Z.eqb_neq; lia).
  unfold is_whitespace. replace (b <? 128) with true by (symmetry; apply Z.ltb_lt; lia).
  apply orb_false_iff. split; [apply andb_false_iff; right; apply Z.leb_gt; lia | apply Z.eqb_neq; lia].
Qed.

Lemma no_space_head : forall b t, is_cont b = false -> no_space (b :: t) = true -> is_whitespace (cp_at (b :: t)) = false.
Proof.
  intros b t C H. cbn [no_space] in H. rewrite C in H. apply andb_prop in H. destruct H as [H _].
  apply negb_true_iff in H. exact H.
Qed.

Lemma lex_one_tok : forall a, tok_lex_ok a -> forall rest pos line ls, ws_next rest ->
  lex_one false (snd a ++ rest) pos line ls
  = L1Tok (mktok pos (pos + Z.of_nat (length (snd a))) line (fst a)) rest (pos + Z.of_nat (length (snd a))) line ls.
Proof.
  intros a T rest pos line ls W. pose proof (ws_next_boundary _ W) as SB.
  destruct T as [|body U N|b U NE NS AL|b0 b' U NS ST]; cbn [fst snd].
  - (* ; *)
    cbn [app]. unfold lex_one. cbn [cp_at]. rewrite (next_char_head 59 rest pos SB).
    cbn. reflexivity.
  - (* string literal *)
    cbn [app]. unfold lex_one.
    assert (SB1 : starts_on_boundary (body ++ [34] ++ rest) = true).
    { destruct body as [|x y]; [reflexivity|]. simpl. rewrite (U8_head_not_cont _ _ U). reflexivity. }
    rewrite <- app_assoc. rewrite (next_char_head 34 (body ++ [34] ++ rest) pos SB1).
    replace (cp_at (34 :: body ++ [34] ++ rest)) with 34 by reflexivity.
    cbn [Z.eqb Pos.eqb is_whitespace Z.ltb Z.compare Pos.compare Pos.compare_cont andb orb Z.leb].
    assert (A : all_chars (fun c => negb (c =? 34)) body = true) by (apply U8_all_chars_ne; [assumption | lia | assumption]).
    assert (St : stops (fun c => negb (c =? 34)) ([34] ++ rest)) by (split; reflexivity).
    rewrite (accept_while_U8 _ body U A ([34] ++ rest) (pos + 1) St).
    cbn [app]. rewrite (next_char_head 34 rest _ SB).
    assert (L : Z.of_nat (length (34 :: body ++ [34])) = 1 + Z.of_nat (length body) + 1)
      by (cbn [length]; rewrite app_length; cbn [length]; lia).
    rewrite L. replace (pos + (1 + Z.of_nat (length body) + 1)) with (pos + 1 + Z.of_nat (length body) + 1) by lia.
    reflexivity.
  - (* name *)
    destruct b as [|b0 b']; [congruence|]. clear NE.
    pose proof (U8_head_not_cont _ _ U) as C0.
    assert (E : cp_at ((b0 :: b') ++ rest) = cp_at (b0 :: b')) by (apply U8_cp_at_app_ne; [assumption | discriminate]).
    destruct (alpha_not_special _ AL) as (N10 & N59 & N34 & N35 & ND).
    pose proof (no_space_head _ _ C0 NS) as NW.
    unfold lex_one. cbn [app]. cbn [app] in E. rewrite E, N10, NW, N59, N34, N35, ND, AL.
    assert (P : not_ws (cp_at (b0 :: b' ++ rest)) = true) by (rewrite E; unfold not_ws; rewrite NW; reflexivity).
    pose proof (next_char_accept not_ws b0 (b' ++ rest) pos C0 P) as NA.
    destruct (next_char false (b0 :: b' ++ rest) pos) as [r1 p1].
    rewrite NA.
    change (b0 :: b' ++ rest) with ((b0 :: b') ++ rest).
    rewrite (accept_while_U8 not_ws (b0 :: b') U ltac:(rewrite <- no_space_all_chars; exact NS) rest pos (ws_next_stops _ W)).
    reflexivity.
  - (* number-like *)
    destruct (numstart_facts _ ST) as (L & N10 & NW & N59 & N34 & N35).
    unfold lex_one. cbn [app].
    assert (E : cp_at (b0 :: b' ++ rest) = b0).
    { cbn [cp_at]. replace (b0 <? 128) with true by (symmetry; apply Z.ltb_lt; lia). reflexivity. }
    rewrite E, N10, NW, N59, N34, N35. fold (numstart b0). rewrite ST.
    destruct (next_char false (b0 :: b' ++ rest) pos) as [r1 p1].
    unfold lex_number.
    change (b0 :: b' ++ rest) with ((b0 :: b') ++ rest).
    rewrite (accept_while_U8 not_ws (b0 :: b') U ltac:(rewrite <- no_space_all_chars; exact NS) rest pos (ws_next_stops _ W)).
    replace (pos + Z.of_nat (length (b0 :: b')) - pos - 1) with (Z.of_nat (length b')) by (cbn [length]; lia).
    replace (0 <=? Z.of_nat (length b')) with true by (symmetry; apply Z.leb_le; lia).
    rewrite Nat2Z.id, take_app, SB. reflexivity.
Qed.

(** * Blanks *)
Inductive blankb : bytes -> Prop :=
| bl_nil : blankb []
| bl_ws : forall c s, c = 32 \/ c = 9 \/ c = 13 \/ c = 11 \/ c = 12 -> blankb s -> blankb (c :: s)
| bl_nl : forall s, blankb s -> blankb (10 :: s)
| bl_com : forall t s, U8 t -> ~ In 10 t -> blankb s -> blankb (35 :: t ++ 10 :: s).

Lemma blankb_app : forall a b, blankb a -> blankb b -> blankb (a ++ b).
Proof.
  intros a b A B. induction A as [|c s Hc A IH|s A IH|t s U N A IH]; cbn [app].
  - exact B.
  - apply bl_ws; assumption.
  - apply bl_nl; assumption.
  - rewrite <- app_assoc. cbn [app]. apply bl_com; assumption.
Qed.

Definition wsp (c : Z) : bool := is_ascii_whitespace c && negb (c =? 10).

(** lexing from [x] = lexing after the non-newline white space at the head of [x] *)
Lemma ws_absorb : forall x p line ls, starts_on_boundary x = true ->
  lexs x p line ls = let '(r2, p2) := accept_while false wsp x p in lexs r2 p2 line ls.
Proof.
  intros [|b t] p line ls SB; [reflexivity|].
  simpl in SB. destruct (is_cont b) eqn:C; [discriminate|]. clear SB.
  cbn [accept_while]. rewrite C.
  destruct (wsp (cp_at (b :: t))) eqn:Wp; [|reflexivity].
  (* the head is a non-newline ASCII white-space character: the lexer emits one WhiteSpace token *)
  unfold wsp in Wp. apply andb_prop in Wp. destruct Wp as [W1 W2].
  apply negb_true_iff in W2.
  assert (IW : is_whitespace (cp_at (b :: t)) = true).
  { unfold is_ascii_whitespace in W1. repeat rewrite orb_true_iff in W1. repeat rewrite Z.eqb_eq in W1.
    destruct W1 as [[[[->| ->]| ->]| ->]| ->]; reflexivity. }
  rewrite lexs_step. unfold lex_one. rewrite W2, IW.
  cbn [next_char]. rewrite (accept_while_skip _ t (adv false b p)).
  destruct (skip_conts false t (adv false b p)) as [r1 p1].
  fold wsp. destruct (accept_while false wsp r1 p1) as [r2 p2]. reflexivity.
Qed.

Lemma blankb_boundary : forall s rest, blankb s -> starts_on_boundary rest = true -> starts_on_boundary (s ++ rest) = true.
Proof.
  intros s rest B SB. destruct B; cbn [app]; try assumption; simpl.
  - rewrite not_cont_lt by lia. reflexivity.
  - reflexivity.
  - reflexivity.
Qed.

(** a blank is skipped; only the line counters change *)
Lemma lexs_blank : forall s, blankb s -> forall rest pos line ls, starts_on_boundary rest = true ->
  exists line' ls', lexs (s ++ rest) pos line ls = lexs rest (pos + Z.of_nat (length s)) line' ls'.
Proof.
  intros s B. induction B as [|c s Hc B IH|s B IH|t s U N B IH]; intros rest pos line ls SB.
  - exists line, ls. cbn [app length]. f_equal. simpl. lia.
  - (* white-space character *)
    pose proof (blankb_boundary s rest B SB) as SB1.
    assert (E : lexs (c :: s ++ rest) pos line ls = lexs (s ++ rest) (pos + 1) line ls).
    { rewrite lexs_step. unfold lex_one.
      assert (C : cp_at (c :: s ++ rest) = c).
      { cbn [cp_at]. replace (c <? 128) with true by (symmetry; apply Z.ltb_lt; lia). reflexivity. }
      rewrite C.
      replace (c =? 10) with false by (symmetry; apply Z.eqb_neq; lia).
      replace (is_whitespace c) with true by (destruct Hc as [->|[->|[->|[->| ->]]]]; reflexivity).
      rewrite (next_char_head c (s ++ rest) pos SB1).
      fold wsp. rewrite (ws_absorb (s ++ rest) (pos + 1) line ls SB1).
      destruct (accept_while false wsp (s ++ rest) (pos + 1)) as [r2 p2]. reflexivity. }
    destruct (IH rest (pos + 1) line ls SB) as (l' & ls' & E2).
    exists l', ls'. cbn [app]. rewrite E, E2. f_equal. cbn [length]. lia.
  - (* newline *)
    pose proof (blankb_boundary s rest B SB) as SB1.
    assert (E : lexs (10 :: s ++ rest) pos line ls = lexs (s ++ rest) (pos + 1) (line + 1) (pos + 1)).
    { rewrite lexs_step. unfold lex_one.
      replace (cp_at (10 :: s ++ rest)) with 10 by reflexivity.
      rewrite (next_char_head 10 (s ++ rest) pos SB1). reflexivity. }
    destruct (IH rest (pos + 1) (line + 1) (pos + 1) SB) as (l' & ls' & E2).
    exists l', ls'. cbn [app]. rewrite E, E2. f_equal. cbn [length]. lia.
  - (* comment, then its newline *)
    pose proof (blankb_boundary (10 :: s) rest (bl_nl _ B) SB) as SB1.
    assert (SB0 : starts_on_boundary (t ++ 10 :: s ++ rest) = true).
    { destruct t as [|x y]; [reflexivity|]. simpl. rewrite (U8_head_not_cont _ _ U). reflexivity. }
    assert (E : lexs (35 :: (t ++ 10 :: s) ++ rest) pos line ls
                = lexs (10 :: s ++ rest) (pos + 1 + Z.of_nat (length t)) line ls).
    { rewrite lexs_step. unfold lex_one.
      replace (cp_at (35 :: (t ++ 10 :: s) ++ rest)) with 35 by reflexivity.
      rewrite <- app_assoc. cbn [app].
      rewrite (next_char_head 35 (t ++ 10 :: s ++ rest) pos SB0).
      cbn [Z.eqb Pos.eqb is_whitespace Z.ltb Z.compare Pos.compare Pos.compare_cont andb orb Z.leb].
      assert (A : all_chars (fun c => negb (c =? 10)) t = true) by (apply U8_all_chars_ne; [assumption | lia | assumption]).
      assert (St : stops (fun c => negb (c =? 10)) (10 :: s ++ rest)) by (split; reflexivity).
      rewrite (accept_while_U8 _ t U A (10 :: s ++ rest) (pos + 1) St). reflexivity. }
    destruct (IH rest (pos + 1 + Z.of_nat (length t) + 1) (line + 1) (pos + 1 + Z.of_nat (length t) + 1) SB)
      as (l' & ls' & E2).
    assert (E1 : lexs (10 :: s ++ rest) (pos + 1 + Z.of_nat (length t)) line ls
                 = lexs (s ++ rest) (pos + 1 + Z.of_nat (length t) + 1) (line + 1) (pos + 1 + Z.of_nat (length t) + 1)).
    { rewrite lexs_step. unfold lex_one.
      replace (cp_at (10 :: s ++ rest)) with 10 by reflexivity.
      rewrite (next_char_head 10 (s ++ rest) _ (blankb_boundary s rest B SB)). reflexivity. }
    exists l', ls'. cbn [app]. rewrite E, E1, E2. f_equal. cbn [length]. rewrite app_length. cbn [length]. lia.
Qed.

(** a final comment without newline *)
Lemma lexs_trail_comment : forall t pos line ls, U8 t -> ~ In 10 t ->
  exists p, lexs (35 :: t) pos line ls = ([], LEof p line ls).
Proof.
  intros t pos line ls U N. rewrite lexs_step. unfold lex_one.
  replace (cp_at (35 :: t)) with 35 by reflexivity.
  assert (SB0 : starts_on_boundary t = true).
  { destruct t as [|x y]; [reflexivity|]. simpl. rewrite (U8_head_not_cont _ _ U). reflexivity. }
  rewrite (next_char_head 35 t pos SB0).
  cbn [Z.eqb Pos.eqb is_whitespace Z.ltb Z.compare Pos.compare Pos.compare_cont andb orb Z.leb].
  assert (A : all_chars (fun c => negb (c =? 10)) t = true) by (apply U8_all_chars_ne; [assumption | lia | assumption]).
  pose proof (accept_while_U8 _ t U A [] (pos + 1) I) as AW. rewrite app_nil_r in AW. rewrite AW.
  cbn [t_ty]. rewrite lexs_step. cbn [lex_one]. eexists. reflexivity.
Qed.

(** * Texts as lists of items *)
Inductive item := ITok (a : atok) | ISep (s : list sep_item) | ITrailC (t : bytes).
Definition item_bytes (i : item) : bytes :=
  match i with ITok a => snd a | ISep s => render_sep s | ITrailC t => 35 :: t end.
Definition flatten (l : list item) : bytes := flat_map item_bytes l.
Fixpoint toks_of (l : list item) : list atok :=
  match l with [] => [] | ITok a :: r => a :: toks_of r | _ :: r => toks_of r end.

Fixpoint items_ok (l : list item) : Prop :=
  match l with
  | [] => True
  | ITok a :: r => tok_lex_ok a /\ (match r with [] => True | ISep (SWs _ :: _) :: _ => True | _ => False end) /\ items_ok r
  | ISep s :: r => forallb sep_item_ok s = true /\ items_ok r
  | ITrailC t :: r => comment_ok t = true /\ r = []
  end.

Lemma comment_ok_U8 : forall t, comment_ok t = true -> U8 t /\ ~ In 10 t.
Proof.
  intros t H. unfold comment_ok in H. apply andb_prop in H. destruct H as [V N]. split.
  - apply valid_U8. exact V.
  - apply negb_true_iff in N. intros I.
    assert (X : existsb (fun b => b =? 10) t = true) by (apply existsb_exists; exists 10; split; [exact I | reflexivity]).
    congruence.
Qed.

Lemma render_sep_blank : forall s, forallb sep_item_ok s = true -> blankb (render_sep s).
Proof.
  induction s as [|i s IH]; intros H; [constructor|].
  cbn [forallb] in H. apply andb_prop in H. destruct H as [Hi Hs].
  unfold render_sep. cbn [flat_map]. fold (render_sep s). specialize (IH Hs).
  destruct i as [c|t]; cbn [render_sep_item sep_item_ok] in *.
  - apply ws_char_cases in Hi. cbn [app]. destruct Hi as [->|[->|[->|[->|[->| ->]]]]];
      first [apply bl_nl; assumption | apply bl_ws; [lia | assumption]].
  - destruct (comment_ok_U8 _ Hi) as [U N]. cbn [app]. rewrite <- app_assoc. cbn [app]. apply bl_com; assumption.
Qed.

(** the view of a lexed token: its type and the slice of the source at its span *)
Definition tview (src : bytes) (ti : tokinfo) : ttype * option bytes :=
  (t_ty (ti_tok ti), substr src (ti_tok ti)).
Definition sees_tok (src : bytes) (ti : tokinfo) (a : atok) : Prop :=
  t_ty (ti_tok ti) = fst a /\ substr src (ti_tok ti) = Some (snd a).

Lemma slice_mid : forall pre b rest, starts_on_boundary (b ++ rest) = true -> starts_on_boundary rest = true ->
  slice (pre ++ b ++ rest) (Z.of_nat (length pre)) (Z.of_nat (length pre) + Z.of_nat (length b)) = Some b.
Proof.
  intros pre b rest S1 S2. unfold slice.
  replace ((0 <=? Z.of_nat (length pre)) && (Z.of_nat (length pre) <=? Z.of_nat (length pre) + Z.of_nat (length b)))
    with true by (symmetry; apply andb_true_intro; split; apply Z.leb_le; lia).
  rewrite Nat2Z.id, drop_app, S1.
  replace (Z.to_nat (Z.of_nat (length pre) + Z.of_nat (length b) - Z.of_nat (length pre))) with (length b) by lia.
  rewrite take_app, S2. reflexivity.
Qed.

Lemma items_head_ws : forall r, items_ok r ->
  match r with [] => True | ISep (SWs _ :: _) :: _ => True | _ => False end -> ws_next (flatten r).
Proof.
  intros [|[a|[|[c|t] s]|t] r] OK H; try contradiction; [exact I|].
  cbn [items_ok] in OK. destruct OK as [F _]. cbn [forallb sep_item_ok] in F. apply andb_prop in F. destruct F as [F _].
  unfold flatten. cbn [flat_map item_bytes]. unfold render_sep. cbn [flat_map render_sep_item app]. exact F.
Qed.

Lemma tok_lex_ok_boundary : forall a rest, tok_lex_ok a -> starts_on_boundary (snd a ++ rest) = true.
Proof.
  intros a rest T. destruct T as [|body U N|b U NE NS AL|b0 b' U NS ST]; cbn [snd]; try reflexivity.
  - destruct b as [|x y]; [congruence|]. simpl. rewrite (U8_head_not_cont _ _ U). reflexivity.
  - simpl. rewrite (U8_head_not_cont _ _ U). reflexivity.
Qed.

Lemma flatten_boundary : forall l, items_ok l -> starts_on_boundary (flatten l) = true.
Proof.
  induction l as [|[a|s|t] r IH]; intros OK; [reflexivity| | |].
  - cbn [items_ok] in OK. destruct OK as [T _]. unfold flatten. cbn [flat_map item_bytes]. apply tok_lex_ok_boundary. exact T.
  - cbn [items_ok] in OK. destruct OK as [F OK].
    unfold flatten. cbn [flat_map item_bytes]. fold (flatten r).
    apply blankb_boundary; [apply render_sep_blank; exact F | apply IH; exact OK].
  - reflexivity.
Qed.

(** the main induction: lexing the rest of the text from the right position *)
Lemma lexs_items : forall l pre line ls, items_ok l ->
  let src := pre ++ flatten l in
  exists tis p l' ls', lexs (flatten l) (Z.of_nat (length pre)) line ls = (tis, LEof p l' ls')
                       /\ Forall2 (sees_tok src) tis (toks_of l).
Proof.
  induction l as [|i r IH]; intros pre line ls OK src.
  - exists [], (Z.of_nat (length pre)), line, ls. split; [reflexivity | constructor].
  - destruct i as [a|s|t].
    + (* a token *)
      cbn [items_ok] in OK. destruct OK as (T & NX & OKr).
      pose proof (items_head_ws r OKr NX) as W.
      unfold flatten in *. cbn [flat_map item_bytes] in *. fold (flatten r) in *.
      rewrite lexs_step. rewrite (lex_one_tok a T (flatten r) _ line ls W). cbn [t_ty].
      specialize (IH (pre ++ snd a) line ls OKr). cbn zeta in IH.
      destruct IH as (tis & p & l' & ls' & E & F).
      rewrite app_length, Nat2Z.inj_add in E. rewrite E.
      assert (V : sees_tok src (mkti (mktok (Z.of_nat (length pre)) (Z.of_nat (length pre) + Z.of_nat (length (snd a))) line (fst a)) (flatten r) ls) a).
      { split; [reflexivity|]. unfold substr. cbn [ti_tok t_start t_stop]. unfold src.
        apply slice_mid; [apply tok_lex_ok_boundary; exact T | apply ws_next_boundary; exact W]. }
      assert (F' : Forall2 (sees_tok src) tis (toks_of r)).
      { unfold src. rewrite <- app_assoc in F. exact F. }
      assert (TY : fst a = TName \/ fst a = TNumber \/ fst a = TSemi \/ fst a = TString)
        by (destruct T; cbn [fst]; try destruct (is_rust_float _); auto).
      destruct TY as [Ty|[Ty|[Ty|Ty]]]; rewrite Ty in *;
        (eexists _, p, l', ls'; split; [reflexivity | constructor; [exact V | exact F']]).
    + (* a separator *)
      cbn [items_ok] in OK. destruct OK as (Fs & OKr).
      unfold flatten in *. cbn [flat_map item_bytes] in *. fold (flatten r) in *.
      destruct (lexs_blank _ (render_sep_blank _ Fs) (flatten r) (Z.of_nat (length pre)) line ls (flatten_boundary _ OKr))
        as (l1 & ls1 & E).
      specialize (IH (pre ++ render_sep s) l1 ls1 OKr). cbn zeta in IH.
      destruct IH as (tis & p & l' & ls' & E2 & F).
      rewrite app_length, Nat2Z.inj_add in E2.
      exists tis, p, l', ls'. split; [rewrite E; exact E2|].
      cbn [toks_of]. unfold src. rewrite <- app_assoc in F. exact F.
    + (* the final comment *)
      cbn [items_ok] in OK. destruct OK as (Ct & ->).
      destruct (comment_ok_U8 _ Ct) as [U N].
      unfold flatten. cbn [flat_map item_bytes]. rewrite app_nil_r.
      destruct (lexs_trail_comment t (Z.of_nat (length pre)) line ls U N) as (p & E).
      exists [], p, line, ls. split; [exact E | constructor].
Qed.

Theorem lex_items : forall l, items_ok l ->
  exists tis p line ls, lex false (flatten l) = (tis, LEof p line ls)
                        /\ Forall2 (sees_tok (flatten l)) tis (toks_of l).
Proof.
  intros l OK. rewrite lex_lexs. exact (lexs_items l [] 1 0 OK).
Qed.
