(** Executable checks of the correspondence runs of C04, C05, C11 (tools/props/c04.py, c05.py, c11.py).
    Result codes (guide): 0 = the implementation agrees with the model and the property holds on the
    implementation's output; 1 = the implementation differs from the model but the property holds on its
    output (or is silent); 2 = the property fails on the implementation's output; 3 = the model is silent
    ([Unmodelled]: a number on a rust_decimal path that LefDec.v does not specify) and the property holds.
    No proofs in this file. *)
From Coq Require Import ZArith List String Bool.
From L21 Require Import Lef.LefDec Lef.LefData Lef.LefLex Lef.LefParse Lef.LefWrite Lef.LefSpec.
Import ListNotations.
Local Open Scope Z_scope.

(** what the harness observed: a library, a `LefError` (parsed from its Debug text), a panic / crash,
    nothing (stage not reached), or a library with an `Unsupported` field set *)
Inductive impl_res := IOk (l : lef_lib) | IErr (e : lef_err) | IPanic | INone | IWeird.

Definition lef_eq (a b : lef_lib) : bool := lef_lib_eqb dec_eq a b.
Definition lef_same (a b : lef_lib) : bool := lef_lib_eqb dec_repr_eqb a b.

Definition res_matches (m : res lef_lib) (i : impl_res) : bool :=
  match m, i with
  | Ok l, IOk l' => lef_same l l'
  | Err e, IErr e' => lef_err_eqb e e'
  | Panic, IPanic => true
  | _, _ => false
  end.
Definition is_unmodelled {A} (m : res A) : bool := match m with Unmodelled => true | _ => false end.
Definition impl_crashed (i : impl_res) : bool := match i with IPanic | IWeird => true | _ => false end.

(** * C11: the reader returns a library or an error on [src]; model = [parse cf src] *)
Definition c11_check (cf : cfg) (src : bytes) (i : impl_res) : Z :=
  if negb (utf8_validb src) then 2          (* generator error: the property is about UTF-8 text *)
  else if impl_crashed i then 2
  else match i with
       | INone => 2
       | _ => let m := parse cf src in
              if is_unmodelled m then 3 else if res_matches m i then 0 else 1
       end.

(** C11, second half: a returned library can be written and read again without a crash.
    [w] = 0 text written, 1 the writer returned an error, 2 the writer panicked;
    [r2] = 0 the second read returned (a library or an error), 1 it was not run, 2 it panicked / crashed. *)
Definition c11_rewrite_check (w r2 : Z) : Z :=
  if w =? 2 then 2
  else if w =? 1 then 0
  else if r2 =? 0 then 0 else 2.

(** * C05: write-then-read on a library [l] that the reader produced.
    [wt] = Some text (the writer's output) or None (the writer refused); [i2] = reading that text.
    Model: [write_lib cf l] and [parse cf] of the model's text. *)
Definition c05_check (cf : cfg) (l : lef_lib) (wt : option bytes) (wpanic : bool) (i2 : impl_res) : Z :=
  if wpanic then 2 else
  match wt with
  | None => 2                                    (* writing must succeed *)
  | Some t =>
    let prop_ok := match i2 with IOk l2 => lef_eq l l2 | _ => false end in
    if negb prop_ok then 2
    else match write_lib cf l with
         | Ok t' => if bytes_eqb t t' then
                      (let m := parse cf t' in
                       if is_unmodelled m then 3 else if res_matches m i2 then 0 else 1)
                    else 1
         | _ => 1
         end
  end.

(** * C04: [l] rendered by the independent renderer under style [sty], read by the implementation.
    Property: the reader returns a library equal to [l] (decimals numerically). *)
Definition c04_check (cf : cfg) (sty : style) (l : lef_lib) (i : impl_res) : Z :=
  let src := render sty l in
  if negb (lib_supportedb l && style_okb sty l && utf8_validb src) then 4   (* generator error, never expected *)
  else
    let prop_ok := match i with IOk l' => lef_eq l l' | _ => false end in
    if negb prop_ok then 2
    else let m := parse cf src in
         if is_unmodelled m then 3 else if res_matches m i then 0 else 1.

(** the decimal / number-token models against the implementation: [fl] = i32 or f64 accepts,
    [d] = Decimal::from_str (None = error), [disp] = its Display *)
Definition dec_check (s : bytes) (fl : bool) (d : option dec) (disp : bytes) : Z :=
  if negb (Bool.eqb (is_rust_float s) fl) then 1
  else match dec_of_bytes s, d with
       | DUnmodelled, _ => 3
       | DErr, None => 0
       | DOk a, Some b => if dec_repr_eqb a b && bytes_eqb (dec_to_bytes a) disp then 0 else 1
       | _, _ => 1
       end.
