(** Reading of the generated LEF-parser kernels (Gen/KernelsLefReadGen.v: lef21/src/read.rs `LefParser`) at the level of the parser model
    Lef/LefParse.v.  MONADIC SELF: the `LefParser` is the state of the effect, the model's [pst] (the tokens not yet consumed with the lexer's
    end state, the session version, the context stack): [lm A] = pst -> outcome of (A, pst).

    - external: the lexer as the parser sees it (`self.lex.next_token()` = [next_token], `peek_token` = [peek_token]), `self.txt(&tok)` =
      [txt] (a panic when the span is not a byte range of the source), `LefKey::parse` = [LefKey_parse], `LefDecimal::from_str` =
      [dec_of_bytes] (an error for a malformed number; texts rust_decimal treats in ways the model does not follow: the model's
      [Unmodelled], read as [OutOfFuel], which no generated run produces by itself);
    - `self.fail(tp)` = the model's [fail]: an error, or a PANIC when building the error report panics (`state()`); the error value is
      abstract ([lunit]);
    - `self.ctx` (the context stack, a field of self read and written through get / put) = [p_ctx];
    - every `loop` starts with the fuel [fuel_of] the state gives (one more than the number of unread tokens), as the model's loops do.
    No proofs in this file. *)
From Coq Require Import ZArith Bool List String.
From L21 Require Import Lef.LefDec Lef.LefData Lef.LefLex Lef.LefParse.
From L21 Require Import Base.KernelOps Base.KernelOpsX Base.KernelOpsS Base.KernelOpsL Base.Outcome Gen.KernelsLefReadGen.
Import ListNotations.
Local Open Scope Z_scope.

Definition ures (A : Type) : Type := outcome unit A.
Definition lunit {A : Type} (x : LefParse.res A) : ures A :=
  match x with LefParse.Ok a => Ok a | LefParse.Err _ => Err tt | LefParse.Panic => Panic | LefParse.OutOfFuel => OutOfFuel | LefParse.Unmodelled => OutOfFuel end.
Definition lm (A : Type) : Type := pst -> ures (A * pst).
Definition lm_ret (A : Type) (a : A) : lm A := fun s => Ok (a, s).
Definition lm_bind (A B : Type) (x : lm A) (f : A -> lm B) : lm B :=
  fun s => match x s with Ok (a, s') => f a s' | Err e => Err e | Panic => Panic | OutOfFuel => OutOfFuel end.
Definition lm_pan (A : Type) : lm A := fun _ => Panic.
Definition lm_nofuel (A : Type) : lm A := fun _ => OutOfFuel.
Definition lm_chk (t : ity) (z : Z) : lm Z := if ity_in t z then lm_ret Z z else lm_pan Z.
Definition lm_nof1 (x : unit) : lm unit := lm_pan unit.
Definition lm_nof2 (x y : unit) : lm unit := lm_pan unit.
Definition lm_get (A : Type) (l : list A) (i : Z) : lm A :=
  if i <? 0 then lm_pan A else match nth_error l (Z.to_nat i) with Some x => lm_ret A x | None => lm_pan A end.

Section Reading.
Variable cf : cfg.
Variable src : bytes.
(** `self.fail(..)` *)
Definition lm_fail (A : Type) : lm A := fun s => lunit (@LefParse.fail cf src A EtInvalidKey s).
Definition lm_kops : kops lm unit Z :=
  {| k_ret := lm_ret; k_bind := lm_bind; k_panic := lm_pan;
     f_zero := tt; f_one := tt; f_lit := fun _ _ => tt;
     f_add := lm_nof2; f_sub := lm_nof2; f_mul := lm_nof2; f_div := lm_nof2; f_neg := lm_nof1;
     f_eq := fun _ _ => false; f_lt := fun _ _ => false; f_le := fun _ _ => false;
     KernelOps.f_round := lm_nof1; f_rem_euclid := lm_nof2;
     f_to_radians := lm_nof1; f_sin := lm_nof1; f_cos := lm_nof1;
     f_powi := fun _ _ => lm_pan unit;
     i_lit := fun z => z; i_minval := ity_min; i_maxval := ity_max;
     i_add := fun t a b => lm_chk t (a + b);
     i_sub := fun t a b => lm_chk t (a - b);
     i_mul := fun t a b => lm_chk t (a * b);
     i_div := fun t a b => if b =? 0 then lm_pan Z else lm_chk t (Z.quot a b);
     i_rem := fun t a b => if b =? 0 then lm_pan Z else lm_chk t (Z.rem a b);
     i_neg := fun t a => lm_chk t (- a);
     i_and := fun t a b => lm_ret Z (Z.land a b);
     i_or := fun t a b => lm_ret Z (Z.lor a b);
     i_shl := fun _ _ _ => lm_pan Z; i_shr := fun _ _ _ => lm_pan Z;
     i_min := Z.min; i_max := Z.max; i_eq := Z.eqb; i_lt := Z.ltb; i_le := Z.leb;
     i_cast := fun _ t z => if ity_in t z then lm_ret Z z else lm_pan Z;
     i_try_from := fun _ t z => if ity_in t z then lm_ret Z z else lm_pan Z;
     i_to_f := fun _ _ => lm_pan unit; f_to_i := fun _ _ => lm_pan Z;
     v_len := fun A l => Z.of_nat (List.length l); v_get := lm_get;
     k_for := fun Rt St => for_Z lm_ret lm_bind |}.
Definition lm_xops : kxops lm unit Z :=
  {| kx_base := lm_kops; k_fail := lm_fail;
     k_unwrap := fun A x s => match x s with Err _ => Panic | y => y end;
     i_try_from_q := fun _ t z => if ity_in t z then lm_ret Z z else lm_fail Z;
     v_set := fun A l i x =>
       if (i <? 0) || (Z.of_nat (List.length l) <=? i) then lm_pan _ else lm_ret _ (k_list_set l (Z.to_nat i) x);
     v_insert := fun A l i x =>
       if (i <? 0) || (Z.of_nat (List.length l) <? i) then lm_pan _ else lm_ret _ (k_list_insert l (Z.to_nat i) x) |}.

(** * enumerations and tokens: generated <-> model *)
Definition MLefKey (x : gLefKey unit Z) : LefKey :=
  match x with
  | gLefKey_Library => K_Library
  | gLefKey_Version => K_Version
  | gLefKey_Foreign => K_Foreign
  | gLefKey_Origin => K_Origin
  | gLefKey_Source => K_Source
  | gLefKey_NamesCaseSensitive => K_NamesCaseSensitive
  | gLefKey_NoWireExtensionAtPin => K_NoWireExtensionAtPin
  | gLefKey_Macro => K_Macro
  | gLefKey_End => K_End
  | gLefKey_Pin => K_Pin
  | gLefKey_Port => K_Port
  | gLefKey_Obs => K_Obs
  | gLefKey_Layer => K_Layer
  | gLefKey_Direction => K_Direction
  | gLefKey_Use => K_Use
  | gLefKey_Shape => K_Shape
  | gLefKey_Path => K_Path
  | gLefKey_Polygon => K_Polygon
  | gLefKey_Rect => K_Rect
  | gLefKey_Via => K_Via
  | gLefKey_Width => K_Width
  | gLefKey_Class => K_Class
  | gLefKey_Symmetry => K_Symmetry
  | gLefKey_RowPattern => K_RowPattern
  | gLefKey_Site => K_Site
  | gLefKey_Size => K_Size
  | gLefKey_Do => K_Do
  | gLefKey_Iterate => K_Iterate
  | gLefKey_Step => K_Step
  | gLefKey_By => K_By
  | gLefKey_BusBitChars => K_BusBitChars
  | gLefKey_DividerChar => K_DividerChar
  | gLefKey_BeginExtension => K_BeginExtension
  | gLefKey_EndExtension => K_EndExtension
  | gLefKey_Tristate => K_Tristate
  | gLefKey_Input => K_Input
  | gLefKey_Output => K_Output
  | gLefKey_Inout => K_Inout
  | gLefKey_FeedThru => K_FeedThru
  | gLefKey_ExceptPgNet => K_ExceptPgNet
  | gLefKey_DesignRuleWidth => K_DesignRuleWidth
  | gLefKey_Spacing => K_Spacing
  | gLefKey_Bump => K_Bump
  | gLefKey_Eeq => K_Eeq
  | gLefKey_FixedMask => K_FixedMask
  | gLefKey_Mask => K_Mask
  | gLefKey_UseMinSpacing => K_UseMinSpacing
  | gLefKey_TaperRule => K_TaperRule
  | gLefKey_NetExpr => K_NetExpr
  | gLefKey_SupplySensitivity => K_SupplySensitivity
  | gLefKey_GroundSensitivity => K_GroundSensitivity
  | gLefKey_MustJoin => K_MustJoin
  | gLefKey_Property => K_Property
  | gLefKey_ManufacturingGrid => K_ManufacturingGrid
  | gLefKey_ClearanceMeasure => K_ClearanceMeasure
  | gLefKey_Density => K_Density
  | gLefKey_Units => K_Units
  | gLefKey_Time => K_Time
  | gLefKey_Nanoseconds => K_Nanoseconds
  | gLefKey_Capacitance => K_Capacitance
  | gLefKey_Picofarads => K_Picofarads
  | gLefKey_Resistance => K_Resistance
  | gLefKey_Ohms => K_Ohms
  | gLefKey_Power => K_Power
  | gLefKey_Milliwatts => K_Milliwatts
  | gLefKey_Current => K_Current
  | gLefKey_Milliamps => K_Milliamps
  | gLefKey_Voltage => K_Voltage
  | gLefKey_Volts => K_Volts
  | gLefKey_Database => K_Database
  | gLefKey_Microns => K_Microns
  | gLefKey_Frequency => K_Frequency
  | gLefKey_Megahertz => K_Megahertz
  | gLefKey_AntennaModel => K_AntennaModel
  | gLefKey_AntennaDiffArea => K_AntennaDiffArea
  | gLefKey_AntennaGateArea => K_AntennaGateArea
  | gLefKey_AntennaPartialMetalArea => K_AntennaPartialMetalArea
  | gLefKey_AntennaPartialMetalSideArea => K_AntennaPartialMetalSideArea
  | gLefKey_AntennaPartialCutArea => K_AntennaPartialCutArea
  | gLefKey_AntennaPartialDiffArea => K_AntennaPartialDiffArea
  | gLefKey_AntennaMaxAreaCar => K_AntennaMaxAreaCar
  | gLefKey_AntennaMaxSideAreaCar => K_AntennaMaxSideAreaCar
  | gLefKey_AntennaMaxCutCar => K_AntennaMaxCutCar
  | gLefKey_Default => K_Default
  | gLefKey_ViaRule => K_ViaRule
  | gLefKey_CutSize => K_CutSize
  | gLefKey_Layers => K_Layers
  | gLefKey_CutSpacing => K_CutSpacing
  | gLefKey_Enclosure => K_Enclosure
  | gLefKey_RowCol => K_RowCol
  | gLefKey_Offset => K_Offset
  | gLefKey_Pattern => K_Pattern
  | gLefKey_PropertyDefinitions => K_PropertyDefinitions
  | gLefKey_String => K_String
  | gLefKey_Real => K_Real
  | gLefKey_Range => K_Range
  | gLefKey_Integer => K_Integer
  | gLefKey_MaxViaStack => K_MaxViaStack
  | gLefKey_Generate => K_Generate
  | gLefKey_NonDefaultRule => K_NonDefaultRule
  end.
Definition GLefKey (x : LefKey) : gLefKey unit Z :=
  match x with
  | K_Library => gLefKey_Library
  | K_Version => gLefKey_Version
  | K_Foreign => gLefKey_Foreign
  | K_Origin => gLefKey_Origin
  | K_Source => gLefKey_Source
  | K_NamesCaseSensitive => gLefKey_NamesCaseSensitive
  | K_NoWireExtensionAtPin => gLefKey_NoWireExtensionAtPin
  | K_Macro => gLefKey_Macro
  | K_End => gLefKey_End
  | K_Pin => gLefKey_Pin
  | K_Port => gLefKey_Port
  | K_Obs => gLefKey_Obs
  | K_Layer => gLefKey_Layer
  | K_Direction => gLefKey_Direction
  | K_Use => gLefKey_Use
  | K_Shape => gLefKey_Shape
  | K_Path => gLefKey_Path
  | K_Polygon => gLefKey_Polygon
  | K_Rect => gLefKey_Rect
  | K_Via => gLefKey_Via
  | K_Width => gLefKey_Width
  | K_Class => gLefKey_Class
  | K_Symmetry => gLefKey_Symmetry
  | K_RowPattern => gLefKey_RowPattern
  | K_Site => gLefKey_Site
  | K_Size => gLefKey_Size
  | K_Do => gLefKey_Do
  | K_Iterate => gLefKey_Iterate
  | K_Step => gLefKey_Step
  | K_By => gLefKey_By
  | K_BusBitChars => gLefKey_BusBitChars
  | K_DividerChar => gLefKey_DividerChar
  | K_BeginExtension => gLefKey_BeginExtension
  | K_EndExtension => gLefKey_EndExtension
  | K_Tristate => gLefKey_Tristate
  | K_Input => gLefKey_Input
  | K_Output => gLefKey_Output
  | K_Inout => gLefKey_Inout
  | K_FeedThru => gLefKey_FeedThru
  | K_ExceptPgNet => gLefKey_ExceptPgNet
  | K_DesignRuleWidth => gLefKey_DesignRuleWidth
  | K_Spacing => gLefKey_Spacing
  | K_Bump => gLefKey_Bump
  | K_Eeq => gLefKey_Eeq
  | K_FixedMask => gLefKey_FixedMask
  | K_Mask => gLefKey_Mask
  | K_UseMinSpacing => gLefKey_UseMinSpacing
  | K_TaperRule => gLefKey_TaperRule
  | K_NetExpr => gLefKey_NetExpr
  | K_SupplySensitivity => gLefKey_SupplySensitivity
  | K_GroundSensitivity => gLefKey_GroundSensitivity
  | K_MustJoin => gLefKey_MustJoin
  | K_Property => gLefKey_Property
  | K_ManufacturingGrid => gLefKey_ManufacturingGrid
  | K_ClearanceMeasure => gLefKey_ClearanceMeasure
  | K_Density => gLefKey_Density
  | K_Units => gLefKey_Units
  | K_Time => gLefKey_Time
  | K_Nanoseconds => gLefKey_Nanoseconds
  | K_Capacitance => gLefKey_Capacitance
  | K_Picofarads => gLefKey_Picofarads
  | K_Resistance => gLefKey_Resistance
  | K_Ohms => gLefKey_Ohms
  | K_Power => gLefKey_Power
  | K_Milliwatts => gLefKey_Milliwatts
  | K_Current => gLefKey_Current
  | K_Milliamps => gLefKey_Milliamps
  | K_Voltage => gLefKey_Voltage
  | K_Volts => gLefKey_Volts
  | K_Database => gLefKey_Database
  | K_Microns => gLefKey_Microns
  | K_Frequency => gLefKey_Frequency
  | K_Megahertz => gLefKey_Megahertz
  | K_AntennaModel => gLefKey_AntennaModel
  | K_AntennaDiffArea => gLefKey_AntennaDiffArea
  | K_AntennaGateArea => gLefKey_AntennaGateArea
  | K_AntennaPartialMetalArea => gLefKey_AntennaPartialMetalArea
  | K_AntennaPartialMetalSideArea => gLefKey_AntennaPartialMetalSideArea
  | K_AntennaPartialCutArea => gLefKey_AntennaPartialCutArea
  | K_AntennaPartialDiffArea => gLefKey_AntennaPartialDiffArea
  | K_AntennaMaxAreaCar => gLefKey_AntennaMaxAreaCar
  | K_AntennaMaxSideAreaCar => gLefKey_AntennaMaxSideAreaCar
  | K_AntennaMaxCutCar => gLefKey_AntennaMaxCutCar
  | K_Default => gLefKey_Default
  | K_ViaRule => gLefKey_ViaRule
  | K_CutSize => gLefKey_CutSize
  | K_Layers => gLefKey_Layers
  | K_CutSpacing => gLefKey_CutSpacing
  | K_Enclosure => gLefKey_Enclosure
  | K_RowCol => gLefKey_RowCol
  | K_Offset => gLefKey_Offset
  | K_Pattern => gLefKey_Pattern
  | K_PropertyDefinitions => gLefKey_PropertyDefinitions
  | K_String => gLefKey_String
  | K_Real => gLefKey_Real
  | K_Range => gLefKey_Range
  | K_Integer => gLefKey_Integer
  | K_MaxViaStack => gLefKey_MaxViaStack
  | K_Generate => gLefKey_Generate
  | K_NonDefaultRule => gLefKey_NonDefaultRule
  end.

Definition Mtty (t : gTokenType unit Z) : ttype :=
  match t with gTokenType_Name => TName | gTokenType_Number => TNumber | gTokenType_SemiColon => TSemi | gTokenType_StringLiteral => TString
             | gTokenType_NewLine => TNewLine | gTokenType_WhiteSpace => TWhiteSpace | gTokenType_Comment => TComment | gTokenType_End => TEnd end.
Definition Gtty (t : ttype) : gTokenType unit Z :=
  match t with TName => gTokenType_Name | TNumber => gTokenType_Number | TSemi => gTokenType_SemiColon | TString => gTokenType_StringLiteral
             | TNewLine => gTokenType_NewLine | TWhiteSpace => gTokenType_WhiteSpace | TComment => gTokenType_Comment | TEnd => gTokenType_End end.
Definition Mtok (t : gToken unit Z) : token :=
  mktok (gSourceLocation_start (gToken_loc t)) (gSourceLocation_stop (gToken_loc t)) (gSourceLocation_line (gToken_loc t)) (Mtty (gToken_ttype t)).
Definition Gtok (t : token) : gToken unit Z := mk_gToken (mk_gSourceLocation (t_start t) (t_stop t) (t_line t)) (Gtty (t_ty t)).
Definition Mctx (c : gLefParseContext unit Z) : ctx :=
  match c with gLefParseContext_Library => CtxLibrary | gLefParseContext_Macro => CtxMacro | gLefParseContext_Pin => CtxPin | gLefParseContext_Port => CtxPort
             | gLefParseContext_PropertyDefinitions => CtxPropertyDefinitions | gLefParseContext_Geometry => CtxGeometry | gLefParseContext_Site => CtxSite
             | gLefParseContext_Units => CtxUnits | gLefParseContext_Density => CtxDensity | gLefParseContext_Via => CtxVia | gLefParseContext_Unknown => CtxUnknown end.
Definition Gctx (c : ctx) : gLefParseContext unit Z :=
  match c with CtxLibrary => gLefParseContext_Library | CtxMacro => gLefParseContext_Macro | CtxPin => gLefParseContext_Pin | CtxPort => gLefParseContext_Port
             | CtxPropertyDefinitions => gLefParseContext_PropertyDefinitions | CtxGeometry => gLefParseContext_Geometry | CtxSite => gLefParseContext_Site
             | CtxUnits => gLefParseContext_Units | CtxDensity => gLefParseContext_Density | CtxVia => gLefParseContext_Via | CtxUnknown => gLefParseContext_Unknown end.

(** * external *)
Definition x_get : lm (gLefParser unit Z) := fun s => Ok (mk_gLefParser (map Gctx (p_ctx s)), s).
Definition x_put (w : gLefParser unit Z) : lm unit := fun s => Ok (tt, with_ctx s (map Mctx (gLefParser_ctx w))).
Definition x_next_token : lm (option (gToken unit Z)) := fun s => lunit (bind next_token (fun t => ret (option_map Gtok t)) s).
Definition x_peek_token : lm (option (gToken unit Z)) := fun s => Ok (option_map Gtok (peek_token s), s).
Definition x_txt (t : gToken unit Z) : lm bytes := fun s => lunit (txt src (Mtok t) s).
Definition x_key_parse (s : bytes) : lm (option (gLefKey unit Z)) := lm_ret _ (option_map GLefKey (LefKey_parse s)).
Definition x_from_str (s : bytes) : lm dec :=
  fun st => match dec_of_bytes s with DOk d => Ok (d, st) | DErr => Err tt | DUnmodelled => OutOfFuel end.
Definition x_fuel : lm nat := fun s => Ok (fuel_of s, s).

(** * the model's data read off the generated records *)
Definition Mpoint (p : gLefPoint dec unit Z) : lef_point := Build_lef_point (gLefPoint_x dec p) (gLefPoint_y dec p).
Definition Mdrect (r : gLefDensityRectangle dec unit Z) : lef_density_rect :=
  Build_lef_density_rect (Mpoint (gLefDensityRectangle_pt1 dec r)) (Mpoint (gLefDensityRectangle_pt2 dec r)) (gLefDensityRectangle_density_value dec r).
Definition Mdgeoms (g : gLefDensityGeometries dec bytes unit Z) : lef_density_geoms :=
  Build_lef_density_geoms (gLefDensityGeometries_layer_name dec bytes g) (map Mdrect (gLefDensityGeometries_geometries dec bytes g)).

(** * the translated functions at this reading *)
Definition g_advance : lm unit := g_LefParser_advance lm_xops x_next_token.
Definition g_matches (t : ttype) : lm bool := g_LefParser_matches lm_xops x_peek_token (Gtty t).
Definition g_expect (t : ttype) : lm (gToken unit Z) := g_LefParser_expect lm_xops x_next_token (Gtty t).
Definition g_peek_key : lm (gLefKey unit Z) := g_LefParser_peek_key lm_xops bytes x_key_parse x_peek_token x_txt.
Definition g_get_key : lm (gLefKey unit Z) := g_LefParser_get_key lm_xops bytes x_key_parse x_next_token x_txt.
Definition g_expect_key (k : LefKey) : lm unit := g_LefParser_expect_key lm_xops bytes x_key_parse x_next_token x_txt (GLefKey k).
Definition g_parse_ident : lm bytes := g_LefParser_parse_ident lm_xops bytes x_next_token x_txt.
Definition g_parse_number : lm dec := g_LefParser_parse_number lm_xops dec bytes x_from_str x_next_token x_txt.
Definition g_parse_point : lm (gLefPoint dec unit Z) := g_LefParser_parse_point lm_xops dec bytes x_from_str x_next_token x_txt.
Definition g_parse_density : lm (list (gLefDensityGeometries dec bytes unit Z)) :=
  g_LefParser_parse_density lm_xops dec bytes x_get x_put lm_nofuel x_from_str x_key_parse x_next_token x_peek_token x_txt x_fuel.
(** the value of a generated run read back by f, against the model's run *)
Definition backl {A B : Type} (f : A -> B) (x : ures (A * pst)) : ures (B * pst) := omap (fun as_ => (f (fst as_), snd as_)) x.
End Reading.
