(** Independent specification for C04: a renderer of LEF libraries to text, written from the LEF 5.8
    language reference statement by statement (NOT from lef21's writer or reader), with every lexical
    freedom the property names carried by a [style].

    Two stages.
    1. [toks_of_lib]: library -> list of specification tokens ([stok]): keywords, names, numbers,
       string literals, verbatim tokens and `;`. Statement order: VERSION first when present (the
       reader's version gates are positional); all other library-level statements, the statements of a
       MACRO and of a PIN, and the geometries / vias of a LAYER block are interleaved by the style's
       permutation keys, keeping the relative order of the members of one list (macros, sites, vias,
       pins, ports, properties, antenna values, geometries ...), since the library value orders them.
       A PORT keeps the order of the reference (CLASS first). `END LIBRARY` can be left out when the
       version (default 5.8) is at least 5.6.
    2. [render_toks]: tokens -> bytes. Between two tokens the style's next separator (a non-empty
       sequence of blanks, tabs, newlines, carriage returns and `#` comments with arbitrary non-newline
       UTF-8 text, starting with a white-space character; a comment ends with a newline); keywords with
       the style's per-letter case mask; numbers in the style's next spelling.

    [lib_supportedb]: the subset of library values that LEF text can express and lef21 documents
    (see each clause). [style_okb]: the style is well formed for that library.  No proofs in this file. *)
From Coq Require Import ZArith List String Ascii Bool.
From L21 Require Import Lef.LefDec Lef.LefData Lef.LefLex.
Import ListNotations.
Local Open Scope string_scope.
Local Open Scope list_scope.
Local Open Scope Z_scope.

(** * Specification tokens *)
Inductive stok :=
| SKw (k : string)      (* keyword: letters may be written in either case *)
| SName (b : bytes)     (* identifier, verbatim *)
| SNum (d : dec)        (* number: any spelling of this value *)
| SRaw (b : bytes)      (* a token taken verbatim from the library value (string literal with its quotes,
                           property value, extension text) *)
| SSemi.

(** * Styles *)
Inductive sep_item := SWs (c : Z) | SComment (text : bytes).
Record numsp := mknumsp {
  ns_lead_zeros : nat;   (* extra zeros in front of the integer part: 00.5 *)
  ns_drop_zero : bool;   (* leave out a zero integer part when fraction digits follow: .5 -.5 *)
  ns_trail_zeros : nat;  (* extra zeros after the fraction: 0.50 5.0 (as far as 28 digits allow) *)
  ns_trail_dot : bool    (* an integer written with a final point: 5. *)
}.
Record style := mkstyle {
  sty_lead : list sep_item;          (* before the first token (may be empty) *)
  sty_seps : list (list sep_item);   (* separators, used cyclically *)
  sty_trail : list sep_item;         (* after the last token (may be empty) *)
  sty_trail_comment : option bytes;  (* a final comment without newline *)
  sty_case : list (list bool);       (* per keyword (cyclic), per letter (cyclic): true = lower case *)
  sty_nums : list numsp;             (* per number (cyclic) *)
  sty_keys : list nat;               (* permutation keys (cyclic) *)
  sty_props_joined : bool;           (* PROPERTY n1 v1 n2 v2 ; instead of one statement per pair *)
  sty_end_lib : bool                 (* END LIBRARY present *)
}.

Definition cyc {A} (d : A) (l : list A) (k : nat) : A :=
  match l with [] => d | _ => nth (k mod List.length l) l d end.


(** * Enumerated values, spelled as in the LEF reference (independent of lef21's enumstr! tables) *)
Definition s_onoff (x : LefOnOff) : string := match x with LefOnOff_On => "ON" | LefOnOff_Off => "OFF" end.
Definition s_clearance (x : LefClearanceStyle) : string :=
  match x with LefClearanceStyle_MaxXY => "MAXXY" | LefClearanceStyle_Euclidean => "EUCLIDEAN" end.
(** lef21's SOURCE values are those of DEF components; the LEF 5.4 MACRO SOURCE values GENERATE and BLOCK
    have no counterpart in the data model *)
Definition s_source (x : LefDefSource) : string :=
  match x with LefDefSource_Netlist => "NETLIST" | LefDefSource_Dist => "DIST" | LefDefSource_Timing => "TIMING"
  | LefDefSource_User => "USER" end.
Definition s_symmetry (x : LefSymmetry) : string :=
  match x with LefSymmetry_X => "X" | LefSymmetry_Y => "Y" | LefSymmetry_R90 => "R90" end.
Definition s_orient (x : LefOrient) : string :=
  match x with LefOrient_N => "N" | LefOrient_S => "S" | LefOrient_E => "E" | LefOrient_W => "W"
  | LefOrient_FN => "FN" | LefOrient_FS => "FS" | LefOrient_FE => "FE" | LefOrient_FW => "FW" end.
Definition s_pin_use (x : LefPinUse) : string :=
  match x with LefPinUse_Signal => "SIGNAL" | LefPinUse_Analog => "ANALOG" | LefPinUse_Power => "POWER"
  | LefPinUse_Ground => "GROUND" | LefPinUse_Clock => "CLOCK" end.
Definition s_pin_shape (x : LefPinShape) : string :=
  match x with LefPinShape_Abutment => "ABUTMENT" | LefPinShape_Ring => "RING" | LefPinShape_FeedThru => "FEEDTHRU" end.
Definition s_pad (x : LefPadClassType) : string :=
  match x with LefPadClassType_Input => "INPUT" | LefPadClassType_Output => "OUTPUT" | LefPadClassType_Inout => "INOUT"
  | LefPadClassType_Power => "POWER" | LefPadClassType_Spacer => "SPACER" | LefPadClassType_AreaIo => "AREAIO" end.
Definition s_endcap (x : LefEndCapClassType) : string :=
  match x with LefEndCapClassType_Pre => "PRE" | LefEndCapClassType_Post => "POST" | LefEndCapClassType_TopLeft => "TOPLEFT"
  | LefEndCapClassType_TopRight => "TOPRIGHT" | LefEndCapClassType_BottomLeft => "BOTTOMLEFT"
  | LefEndCapClassType_BottomRight => "BOTTOMRIGHT" end.
Definition s_block (x : LefBlockClassType) : string :=
  match x with LefBlockClassType_BlackBox => "BLACKBOX" | LefBlockClassType_Soft => "SOFT" end.
Definition s_core (x : LefCoreClassType) : string :=
  match x with LefCoreClassType_FeedThru => "FEEDTHRU" | LefCoreClassType_TieHigh => "TIEHIGH" | LefCoreClassType_TieLow => "TIELOW"
  | LefCoreClassType_Spacer => "SPACER" | LefCoreClassType_AntennaCell => "ANTENNACELL" | LefCoreClassType_WellTap => "WELLTAP" end.
Definition s_port_class (x : LefPortClass) : string :=
  match x with LefPortClass_None => "NONE" | LefPortClass_Core => "CORE" | LefPortClass_Bump => "BUMP" end.
Definition s_site_class (x : LefSiteClass) : string :=
  match x with LefSiteClass_Pad => "PAD" | LefSiteClass_Core => "CORE" end.
Definition s_antenna_model (x : LefAntennaModel) : string :=
  match x with LefAntennaModel_Oxide1 => "OXIDE1" | LefAntennaModel_Oxide2 => "OXIDE2" | LefAntennaModel_Oxide3 => "OXIDE3"
  | LefAntennaModel_Oxide4 => "OXIDE4" end.
Definition s_objtype (x : LefPropertyDefinitionObjectType) : string :=
  match x with
  | LefPropertyDefinitionObjectType_Layer => "LAYER" | LefPropertyDefinitionObjectType_Library => "LIBRARY"
  | LefPropertyDefinitionObjectType_Macro => "MACRO" | LefPropertyDefinitionObjectType_NonDefaultRule => "NONDEFAULTRULE"
  | LefPropertyDefinitionObjectType_Pin => "PIN" | LefPropertyDefinitionObjectType_Via => "VIA"
  | LefPropertyDefinitionObjectType_ViaRule => "VIARULE" end.

(** * Stage 1: statements *)
Definition K (s : string) : stok := SKw s.
Definition t_point (p : lef_point) : list stok := [SNum (pt_x p); SNum (pt_y p)].
Definition t_points (ps : list lef_point) : list stok := flat_map t_point ps.
Definition t_mask (m : option dec) : list stok :=
  match m with Some d => [K "MASK"; SNum d] | None => [] end.
Definition t_step (s : lef_step) : list stok :=
  [K "DO"; SNum (st_numx s); K "BY"; SNum (st_numy s); K "STEP"; SNum (st_spacex s); SNum (st_spacey s)].

(** interleaving: items carry a kind; they are stably sorted by the style's keys, then the slots of
    each kind are filled with that kind's items in their original order *)
Fixpoint insert_by {A} (k : nat) (x : A) (l : list (nat * A)) : list (nat * A) :=
  match l with
  | [] => [(k, x)]
  | (k', y) :: r => if Nat.leb k' k then (k', y) :: insert_by k x r else (k, x) :: (k', y) :: r
  end.
Fixpoint sort_by_keys {A} (keys : list nat) (off : nat) (l : list A) : list (nat * A) :=
  match l with
  | [] => []
  | x :: r => insert_by (cyc O keys off) x (sort_by_keys keys (S off) r)
  end.
Fixpoint take_kind {A} (kind : nat) (pool : list (nat * A)) : option (A * list (nat * A)) :=
  match pool with
  | [] => None
  | (k, x) :: r =>
    if Nat.eqb k kind then Some (x, r)
    else match take_kind kind r with Some (y, r') => Some (y, (k, x) :: r') | None => None end
  end.
Fixpoint refill {A} (kinds : list nat) (pool : list (nat * A)) : list A :=
  match kinds with
  | [] => []
  | k :: ks => match take_kind k pool with
               | Some (x, pool') => x :: refill ks pool'
               | None => refill ks pool
               end
  end.
Definition interleave {A} (keys : list nat) (off : nat) (items : list (nat * A)) : list A :=
  refill (map (fun e => fst (snd e)) (sort_by_keys keys off items)) items.

Definition opt_item {A} (kind : nat) (o : option A) (f : A -> list stok) : list (nat * list stok) :=
  match o with Some x => [(kind, f x)] | None => [] end.
Definition flag_item (kind : nat) (b : bool) (t : list stok) : list (nat * list stok) :=
  if b then [(kind, t)] else [].

Section Stage1.
Variable sty : style.
Let keys := sty_keys sty.

(** Layer geometries (LEF 5.8 "Macro Obstruction / Port statement", layerGeometries):
    LAYER layerName [EXCEPTPGNET] [SPACING minSpacing | DESIGNRULEWIDTH value] ;
      [WIDTH width ;]
      { PATH [MASK n] pt ... ; | PATH [MASK n] ITERATE pt ... stepPattern ;
      | RECT [MASK n] pt pt ; | RECT [MASK n] ITERATE pt pt stepPattern ;
      | POLYGON [MASK n] pt pt pt pt ... ; | POLYGON [MASK n] ITERATE pt pt pt pt ... stepPattern ;
      | VIA pt viaName ; } ...                                                        *)
Definition t_shape_head (s : lef_shape) (iter : bool) : list stok :=
  let it := if iter then [K "ITERATE"] else [] in
  match s with
  | ShRect m a b => [K "RECT"] ++ t_mask m ++ it ++ t_point a ++ t_point b
  | ShPolygon m ps => [K "POLYGON"] ++ t_mask m ++ it ++ t_points ps
  | ShPath m ps => [K "PATH"] ++ t_mask m ++ it ++ t_points ps
  end.
Definition t_geometry (g : lef_geometry) : list stok :=
  match g with
  | GShape s => t_shape_head s false ++ [SSemi]
  | GIterate s p => t_shape_head s true ++ t_step p ++ [SSemi]
  end.
Definition t_via_inst (v : lef_via_inst) : list stok :=
  [K "VIA"] ++ t_point (vi_pt v) ++ [SName (vi_via_name v); SSemi].
Definition t_layer_geoms (off : nat) (l : lef_layer_geoms) : list stok :=
  [K "LAYER"; SName (lg_layer_name l)]
  ++ (match lg_except_pg_net l with Some true => [K "EXCEPTPGNET"] | _ => [] end)
  ++ (match lg_spacing l with
      | Some (LsSpacing d) => [K "SPACING"; SNum d]
      | Some (LsDesignRuleWidth d) => [K "DESIGNRULEWIDTH"; SNum d]
      | None => []
      end)
  ++ [SSemi]
  ++ (match lg_width l with Some w => [K "WIDTH"; SNum w; SSemi] | None => [] end)
  ++ List.concat (interleave keys off
               (map (fun g => (0%nat, t_geometry g)) (lg_geometries l)
                ++ map (fun v => (1%nat, t_via_inst v)) (lg_vias l))).
Fixpoint t_layer_list (off : nat) (ls : list lef_layer_geoms) : list stok :=
  match ls with
  | [] => []
  | l :: r => t_layer_geoms off l ++ t_layer_list (off + 7) r
  end.

(** PORT [CLASS {NONE | CORE | BUMP} ;] {layerGeometries} ... END *)
Definition t_port (off : nat) (p : lef_port) : list stok :=
  [K "PORT"]
  ++ (match po_class p with
      | Some c => [K "CLASS"; K (s_port_class c); SSemi]
      | None => []
      end)
  ++ t_layer_list off (po_layers p)
  ++ [K "END"].

(** PROPERTY propName propVal ... ; *)
Definition t_property (p : lef_property) : list stok :=
  [K "PROPERTY"; SName (pr_name p); SRaw (pr_value p); SSemi].
Definition property_items (kind : nat) (ps : list lef_property) : list (nat * list stok) :=
  match ps with
  | [] => []
  | _ =>
    if sty_props_joined sty then
      [(kind, [K "PROPERTY"] ++ flat_map (fun p => [SName (pr_name p); SRaw (pr_value p)]) ps ++ [SSemi])]
    else map (fun p => (kind, t_property p)) ps
  end.

(** PIN pinName
      [TAPERRULE ruleName ;] [DIRECTION {INPUT | OUTPUT [TRISTATE] | INOUT | FEEDTHRU} ;]
      [USE {SIGNAL | ANALOG | POWER | GROUND | CLOCK} ;] [NETEXPR "netExprPropName defaultNetName" ;]
      [SUPPLYSENSITIVITY powerPinName ;] [GROUNDSENSITIVITY groundPinName ;]
      [SHAPE {ABUTMENT | RING | FEEDTHRU} ;] [MUSTJOIN pinName ;]
      {PORT ... END} ... [PROPERTY ...]
      [ANTENNAPARTIALMETALAREA value [LAYER layerName] ;] ... [ANTENNAMODEL {OXIDE1 | ..} ;] ...
    END pinName *)
Definition t_direction (d : lef_pin_direction) : list stok :=
  [K "DIRECTION"]
  ++ (match d with
      | DirInput => [K "INPUT"]
      | DirOutput false => [K "OUTPUT"]
      | DirOutput true => [K "OUTPUT"; K "TRISTATE"]
      | DirInout => [K "INOUT"]
      | DirFeedThru => [K "FEEDTHRU"]
      end)
  ++ [SSemi].
Definition t_antenna (a : lef_antenna_attr) : list stok :=
  [SName (aa_key a); SNum (aa_val a)]
  ++ (match aa_layer a with Some l => [K "LAYER"; SName l] | None => [] end)
  ++ [SSemi].
Fixpoint port_items (off : nat) (ps : list lef_port) : list (nat * list stok) :=
  match ps with
  | [] => []
  | p :: r => (8%nat, t_port off p) :: port_items (off + 31) r
  end.
Definition t_pin (off : nat) (p : lef_pin) : list stok :=
  [K "PIN"; SName (pin_name p)]
  ++ List.concat (interleave keys off
       (opt_item 0 (pin_taper_rule p) (fun v => [K "TAPERRULE"; SName v; SSemi])
        ++ opt_item 1 (pin_direction p) t_direction
        ++ opt_item 2 (pin_use_ p) (fun v => [K "USE"; K (s_pin_use v); SSemi])
        ++ opt_item 3 (pin_net_expr p) (fun v => [K "NETEXPR"; SRaw v; SSemi])
        ++ opt_item 4 (pin_supply_sensitivity p) (fun v => [K "SUPPLYSENSITIVITY"; SName v; SSemi])
        ++ opt_item 5 (pin_ground_sensitivity p) (fun v => [K "GROUNDSENSITIVITY"; SName v; SSemi])
        ++ opt_item 6 (pin_shape p) (fun v => [K "SHAPE"; K (s_pin_shape v); SSemi])
        ++ opt_item 7 (pin_must_join p) (fun v => [K "MUSTJOIN"; SName v; SSemi])
        ++ port_items (off + 3) (pin_ports p)
        ++ property_items 9 (pin_properties p)
        ++ opt_item 10 (pin_antenna_model p) (fun v => [K "ANTENNAMODEL"; K (s_antenna_model v); SSemi])
        ++ map (fun a => (11%nat, t_antenna a)) (pin_antenna_attrs p)))
  ++ [K "END"; SName (pin_name p)].

(** MACRO macroName
      [CLASS { COVER [BUMP] | RING | BLOCK [BLACKBOX | SOFT] | PAD [INPUT | ..] | CORE [FEEDTHRU | ..]
             | ENDCAP {PRE | POST | TOPLEFT | TOPRIGHT | BOTTOMLEFT | BOTTOMRIGHT} } ;]
      [FIXEDMASK ;] [FOREIGN foreignCellName [pt [orient]] ;] [ORIGIN pt ;] [EEQ macroName ;]
      [SIZE width BY height ;] [SYMMETRY {X | Y | R90} ... ;] [SITE siteName ;]
      [SOURCE {USER | ..} ;  (5.4 and earlier)]
      [PIN statement] ... [OBS statement] [DENSITY statement] [PROPERTY propName propVal ;] ...
    END macroName *)
Definition t_macro_class (c : lef_macro_class) : list stok :=
  [K "CLASS"]
  ++ (match c with
      | McCover b => [K "COVER"] ++ (if b then [K "BUMP"] else [])
      | McRing => [K "RING"]
      | McBlock t => [K "BLOCK"] ++ (match t with Some x => [K (s_block x)] | None => [] end)
      | McPad t => [K "PAD"] ++ (match t with Some x => [K (s_pad x)] | None => [] end)
      | McCore t => [K "CORE"] ++ (match t with Some x => [K (s_core x)] | None => [] end)
      | McEndCap t => [K "ENDCAP"; K (s_endcap t)]
      end)
  ++ [SSemi].
Definition t_foreign (f : lef_foreign) : list stok :=
  [K "FOREIGN"; SName (fo_cell_name f)]
  ++ (match fo_pt f with
      | Some p => t_point p ++ (match fo_orient f with Some o => [K (s_orient o)] | None => [] end)
      | None => []
      end)
  ++ [SSemi].
Definition t_symmetry (s : list LefSymmetry) : list stok :=
  [K "SYMMETRY"] ++ map (fun x => K (s_symmetry x)) s ++ [SSemi].
Definition t_size (s : dec * dec) : list stok := [K "SIZE"; SNum (fst s); K "BY"; SNum (snd s); SSemi].
(** OBS {layerGeometries} ... END *)
Definition t_obs (off : nat) (ls : list lef_layer_geoms) : list stok :=
  [K "OBS"] ++ t_layer_list off ls ++ [K "END"].
(** DENSITY {LAYER layerName ; {RECT x1 y1 x2 y2 densityValue ;} ...} ... END *)
Definition t_density (d : list lef_density_geoms) : list stok :=
  [K "DENSITY"]
  ++ flat_map (fun g =>
       [K "LAYER"; SName (dg_layer_name g); SSemi]
       ++ flat_map (fun r => [K "RECT"] ++ t_point (dr_pt1 r) ++ t_point (dr_pt2 r)
                             ++ [SNum (dr_density_value r); SSemi]) (dg_geometries g)) d
  ++ [K "END"].
Fixpoint pin_items (off : nat) (ps : list lef_pin) : list (nat * list stok) :=
  match ps with
  | [] => []
  | p :: r => (9%nat, t_pin off p) :: pin_items (off + 101) r
  end.
Definition t_macro (off : nat) (m : lef_macro) : list stok :=
  [K "MACRO"; SName (mac_name m)]
  ++ List.concat (interleave keys off
       (opt_item 0 (mac_class m) t_macro_class
        ++ flag_item 1 (mac_fixed_mask m) [K "FIXEDMASK"; SSemi]
        ++ opt_item 2 (mac_foreign m) t_foreign
        ++ opt_item 3 (mac_origin m) (fun p => [K "ORIGIN"] ++ t_point p ++ [SSemi])
        ++ opt_item 4 (mac_eeq m) (fun v => [K "EEQ"; SName v; SSemi])
        ++ opt_item 5 (mac_size m) t_size
        ++ opt_item 6 (mac_symmetry m) t_symmetry
        ++ opt_item 7 (mac_site m) (fun v => [K "SITE"; SName v; SSemi])
        ++ opt_item 8 (mac_source m) (fun v => [K "SOURCE"; K (s_source v); SSemi])
        ++ pin_items (off + 5) (mac_pins m)
        ++ (match mac_obs m with [] => [] | obs => [(10%nat, t_obs (off + 11) obs)] end)
        ++ opt_item 11 (mac_density m) t_density
        ++ property_items 12 (mac_properties m)))
  ++ [K "END"; SName (mac_name m)].

(** SITE siteName CLASS {PAD | CORE} ; [SYMMETRY {X | Y | R90} ... ;] SIZE width BY height ; END siteName *)
Definition t_site (off : nat) (s : lef_site) : list stok :=
  [K "SITE"; SName (site_name s)]
  ++ List.concat (interleave keys off
       ([(0%nat, [K "CLASS"; K (s_site_class (site_class s)); SSemi])]
        ++ opt_item 1 (site_symmetry s) t_symmetry
        ++ [(2%nat, t_size (site_size s))]))
  ++ [K "END"; SName (site_name s)].

(** VIA viaName [DEFAULT]
      { VIARULE viaRuleName ; CUTSIZE xSize ySize ; LAYERS botMetalLayer cutLayer topMetalLayer ;
        CUTSPACING xCutSpacing yCutSpacing ; ENCLOSURE xBotEnc yBotEnc xTopEnc yTopEnc ;
        [ROWCOL numCutRows NumCutCols ;] [ORIGIN xOffset yOffset ;] [OFFSET xBotOs yBotOs xTopOs yTopOs ;]
      | [RESISTANCE resistValue ;]
        {LAYER layerName ; { RECT [MASK maskNum] pt pt ; | POLYGON [MASK maskNum] pt pt pt ... ;} ...} ... }
    END viaName *)
Definition t_via_shape (s : lef_via_shape) : list stok :=
  match s with
  | VsRect m a b => [K "RECT"] ++ t_mask m ++ t_point a ++ t_point b ++ [SSemi]
  | VsPolygon m ps => [K "POLYGON"] ++ t_mask m ++ t_points ps ++ [SSemi]
  end.
Definition t_via_def (off : nat) (v : lef_via_def) : list stok :=
  [K "VIA"; SName (vd_name v)] ++ (if vd_default v then [K "DEFAULT"] else [])
  ++ (match vd_data v with
      | VdGenerated g =>
        [K "VIARULE"; SName (gv_via_rule_name g); SSemi]
        ++ List.concat (interleave keys off
             ([(0%nat, [K "CUTSIZE"; SNum (gv_cut_size_x g); SNum (gv_cut_size_y g); SSemi]);
               (1%nat, [K "LAYERS"; SName (gv_bot_metal_layer g); SName (gv_cut_layer g); SName (gv_top_metal_layer g); SSemi]);
               (2%nat, [K "CUTSPACING"; SNum (gv_cut_spacing_x g); SNum (gv_cut_spacing_y g); SSemi]);
               (3%nat, [K "ENCLOSURE"; SNum (gv_bot_enc_x g); SNum (gv_bot_enc_y g); SNum (gv_top_enc_x g); SNum (gv_top_enc_y g); SSemi])]
              ++ opt_item 4 (gv_rowcol g) (fun r => [K "ROWCOL"; SNum (rc_rows r); SNum (rc_cols r); SSemi])
              ++ opt_item 5 (gv_origin g) (fun p => [K "ORIGIN"] ++ t_point p ++ [SSemi])
              ++ opt_item 6 (gv_offset g) (fun o => [K "OFFSET"; SNum (of_bot_x o); SNum (of_bot_y o); SNum (of_top_x o); SNum (of_top_y o); SSemi])))
      | VdFixed f =>
        (match fv_resistance_ohms f with Some r => [K "RESISTANCE"; SNum r; SSemi] | None => [] end)
        ++ flat_map (fun l => [K "LAYER"; SName (vl_layer_name l); SSemi] ++ flat_map t_via_shape (vl_shapes l))
                    (fv_layers f)
      end)
  ++ [K "END"; SName (vd_name v)].

(** UNITS [TIME NANOSECONDS c ;] [CAPACITANCE PICOFARADS c ;] [RESISTANCE OHMS c ;] [POWER MILLIWATTS c ;]
          [CURRENT MILLIAMPS c ;] [VOLTAGE VOLTS c ;] [DATABASE MICRONS LEFconvertFactor ;]
          [FREQUENCY MEGAHERTZ c ;] END UNITS *)
Definition t_units (off : nat) (u : lef_units) : list stok :=
  let ent (kind : nat) (a b : string) (v : option dec) := opt_item kind v (fun d => [K a; K b; SNum d; SSemi]) in
  [K "UNITS"]
  ++ List.concat (interleave keys off
       (ent 0%nat "TIME" "NANOSECONDS" (u_time_ns u)
        ++ ent 1%nat "CAPACITANCE" "PICOFARADS" (u_capacitance_pf u)
        ++ ent 2%nat "RESISTANCE" "OHMS" (u_resistance_ohms u)
        ++ ent 3%nat "POWER" "MILLIWATTS" (u_power_mw u)
        ++ ent 4%nat "CURRENT" "MILLIAMPS" (u_current_ma u)
        ++ ent 5%nat "VOLTAGE" "VOLTS" (u_voltage_volts u)
        ++ opt_item 6 (u_database_microns u) (fun v => [K "DATABASE"; K "MICRONS"; SNum (dec_of_Z v); SSemi])
        ++ ent 7%nat "FREQUENCY" "MEGAHERTZ" (u_frequency_mhz u)))
  ++ [K "END"; K "UNITS"].

(** PROPERTYDEFINITIONS {objectType propName propType [RANGE min max] [value | "stringValue"] ;} ...
    END PROPERTYDEFINITIONS *)
Definition t_propdef (p : lef_propdef) : list stok :=
  let num (ot : LefPropertyDefinitionObjectType) (name : bytes) (ty : string) (v : option dec) (r : option (dec * dec)) :=
    [K (s_objtype ot); SName name; K ty]
    ++ (match r with Some (a, b) => [K "RANGE"; SNum a; SNum b] | None => [] end)
    ++ (match v with Some d => [SNum d] | None => [] end)
    ++ [SSemi] in
  match p with
  | PdLefString ot name v =>
    [K (s_objtype ot); SName name; K "STRING"]
    ++ (match v with Some s => [SRaw s] | None => [] end) ++ [SSemi]
  | PdLefReal ot name v r => num ot name "REAL" v r
  | PdLefInteger ot name v r => num ot name "INTEGER" v r
  end.

(** BEGINEXT "tag" extensionText ENDEXT; the library value keeps the text as its tokens, each followed
    by one blank *)
Fixpoint split_blank (cur : bytes) (s : bytes) : list bytes :=
  match s with
  | [] => match cur with [] => [] | _ => [rev cur] end
  | b :: r => if b =? 32 then rev cur :: split_blank [] r else split_blank (b :: cur) r
  end.
Definition t_extension (e : lef_extension) : list stok :=
  [K "BEGINEXT"; SRaw (ext_name e)] ++ map SRaw (split_blank [] (ext_data e)) ++ [K "ENDEXT"].

Fixpoint macro_items (off : nat) (ms : list lef_macro) : list (nat * list stok) :=
  match ms with
  | [] => []
  | m :: r => (12%nat, t_macro off m) :: macro_items (off + 1009) r
  end.
Fixpoint site_items (off : nat) (ss : list lef_site) : list (nat * list stok) :=
  match ss with
  | [] => []
  | s :: r => (11%nat, t_site off s) :: site_items (off + 13) r
  end.
Fixpoint via_items (off : nat) (vs : list lef_via_def) : list (nat * list stok) :=
  match vs with
  | [] => []
  | v :: r => (10%nat, t_via_def off v) :: via_items (off + 17) r
  end.

(** Library: [VERSION number ;] [NAMESCASESENSITIVE {ON | OFF} ;] [NOWIREEXTENSIONATPIN {ON | OFF} ;]
    [BUSBITCHARS "delimiterPair" ;] [DIVIDERCHAR "character" ;] [UNITS] [MANUFACTURINGGRID value ;]
    [USEMINSPACING OBS {ON | OFF} ;] [CLEARANCEMEASURE {MAXXY | EUCLIDEAN} ;] [PROPERTYDEFINITIONS]
    [FIXEDMASK ;] [VIA] ... [SITE] ... [MACRO] ... [BEGINEXT] ... [END LIBRARY] *)
Definition quoted (cs : list Z) (enc : Z -> bytes) : bytes := [34] ++ flat_map enc cs ++ [34].
Definition toks_of_lib (enc : Z -> bytes) (l : lef_lib) : list stok :=
  (match lib_version l with Some v => [K "VERSION"; SNum v; SSemi] | None => [] end)
  ++ List.concat (interleave keys 0
       (opt_item 0 (lib_names_case_sensitive l) (fun v => [K "NAMESCASESENSITIVE"; K (s_onoff v); SSemi])
        ++ opt_item 1 (lib_no_wire_extension_at_pin l) (fun v => [K "NOWIREEXTENSIONATPIN"; K (s_onoff v); SSemi])
        ++ opt_item 2 (lib_bus_bit_chars l) (fun c => [K "BUSBITCHARS"; SRaw (quoted [fst c; snd c] enc); SSemi])
        ++ opt_item 3 (lib_divider_char l) (fun c => [K "DIVIDERCHAR"; SRaw (quoted [c] enc); SSemi])
        ++ opt_item 4 (lib_units l) (t_units 3)
        ++ opt_item 5 (lib_manufacturing_grid l) (fun v => [K "MANUFACTURINGGRID"; SNum v; SSemi])
        ++ opt_item 6 (lib_use_min_spacing l) (fun v => [K "USEMINSPACING"; K "OBS"; K (s_onoff v); SSemi])
        ++ opt_item 7 (lib_clearance_measure l) (fun v => [K "CLEARANCEMEASURE"; K (s_clearance v); SSemi])
        ++ (match lib_property_definitions l with
            | [] => []
            | pds => [(8%nat, [K "PROPERTYDEFINITIONS"] ++ flat_map t_propdef pds ++ [K "END"; K "PROPERTYDEFINITIONS"])]
            end)
        ++ flag_item 9 (lib_fixed_mask l) [K "FIXEDMASK"; SSemi]
        ++ via_items 19 (lib_vias l)
        ++ site_items 23 (lib_sites l)
        ++ macro_items 29 (lib_macros l)
        ++ map (fun e => (13%nat, t_extension e)) (lib_extensions l)))
  ++ (if sty_end_lib sty then [K "END"; K "LIBRARY"] else []).
End Stage1.

(** * Stage 2: text *)
Definition lower_b (b : Z) : Z := if (65 <=? b) && (b <=? 90) then b + 32 else b.
Fixpoint apply_case (mask : list bool) (j : nat) (s : bytes) : bytes :=
  match s with
  | [] => []
  | b :: r => (if cyc false mask j then lower_b b else b) :: apply_case mask (S j) r
  end.

(** decimal digits of n >= 0, most significant first ("0" for zero); written independently of LefDec.dec_to_bytes *)
Fixpoint nat_digits (fuel : nat) (n : Z) (acc : bytes) : bytes :=
  match fuel with
  | O => acc
  | S f => if n <? 10 then (48 + n) :: acc else nat_digits f (n / 10) ((48 + n mod 10) :: acc)
  end.
Definition int_digits (n : Z) : bytes := nat_digits 40 n [].
Fixpoint rep0 (k : nat) : bytes := match k with O => [] | S k' => 48 :: rep0 k' end.
Definition ndigits (n : Z) : nat := List.length (int_digits n).

(** one spelling of the decimal (-1)^neg * mant / 10^scale *)
Definition spell (sp : numsp) (d : dec) : bytes :=
  let p := 10 ^ d_scale d in
  let ip := d_mant d / p in
  let fp := d_mant d mod p in
  let sc := Z.to_nat (d_scale d) in
  let frac0 := match sc with O => [] | _ => rep0 (sc - ndigits fp) ++ int_digits fp end in
  (* extra trailing zeros only while the number keeps at most 28 digits in all and 28 fraction digits *)
  let room := Nat.min (28 - sc) (28 - Nat.max (ndigits (d_mant d)) sc) in
  let frac := frac0 ++ rep0 (Nat.min (ns_trail_zeros sp) room) in
  let intp := rep0 (ns_lead_zeros sp) ++ int_digits ip in
  let intp := if ns_drop_zero sp && (ip =? 0) && negb (match frac with [] => true | _ => false end) then [] else intp in
  let body := match frac with
              | [] => if ns_trail_dot sp then intp ++ [46] else intp
              | _ => intp ++ [46] ++ frac
              end in
  if d_neg d then 45 :: body else body.

Definition render_sep_item (i : sep_item) : bytes :=
  match i with SWs c => [c] | SComment t => [35] ++ t ++ [10] end.
Definition render_sep (s : list sep_item) : bytes := flat_map render_sep_item s.

(** text of one token; [kc], [nc] count the keywords / numbers rendered so far *)
Definition render_tok (sty : style) (kc nc : nat) (t : stok) : bytes * nat * nat :=
  match t with
  | SKw k => (apply_case (cyc [] (sty_case sty) kc) 0 (bytes_of_string k), S kc, nc)
  | SName b => (b, kc, nc)
  | SNum d => (spell (cyc (mknumsp 0 false 0 false) (sty_nums sty) nc) d, kc, S nc)
  | SRaw b => (b, kc, nc)
  | SSemi => ([59], kc, nc)
  end.
Fixpoint render_toks_from (sty : style) (i kc nc : nat) (ts : list stok) : bytes :=
  match ts with
  | [] => []
  | t :: r =>
    let '(b, kc', nc') := render_tok sty kc nc t in
    match r with
    | [] => b
    | _ => b ++ render_sep (cyc [SWs 32] (sty_seps sty) i) ++ render_toks_from sty (S i) kc' nc' r
    end
  end.
Definition render_toks (sty : style) (ts : list stok) : bytes :=
  render_sep (sty_lead sty) ++ render_toks_from sty 0 0 0 ts ++ render_sep (sty_trail sty)
  ++ match sty_trail_comment sty with Some t => [35] ++ t | None => [] end.

(** UTF-8 encoding of a scalar value, for BUSBITCHARS / DIVIDERCHAR (RFC 3629) *)
Definition spec_utf8 (c : Z) : bytes :=
  if c <? 128 then [c]
  else if c <? 2048 then [192 + c / 64; 128 + c mod 64]
  else if c <? 65536 then [224 + c / 4096; 128 + c / 64 mod 64; 128 + c mod 64]
  else [240 + c / 262144; 128 + c / 4096 mod 64; 128 + c / 64 mod 64; 128 + c mod 64].

Definition render (sty : style) (l : lef_lib) : bytes := render_toks sty (toks_of_lib sty spec_utf8 l).

(** * The supported subset *)
(** white space in the sense of LEF text plus every Unicode space the lexer would split at *)
Fixpoint no_space (s : bytes) : bool :=
  match s with
  | [] => true
  | b :: r => if is_cont b then no_space r else negb (is_whitespace (cp_at s)) && no_space r
  end.
(** the first character of a token that the lexer takes as a name or a number: alphabetic, a digit, `.` or `-`;
    lef21's lexer rejects every other character at the start of a token ("Some other, invalid character"), so names
    such as `_x`, `$x`, `[x` are outside the subset lef21 reads *)
Definition tok_start_ok (s : bytes) : bool :=
  let c := cp_at s in is_alphabetic c || is_digit10 c || (c =? 46) || (c =? 45).
(** an identifier: non-empty valid UTF-8 without white space that the lexer takes as a Name: it starts with an alphabetic
    character, or with a digit, `.` or `-` and is not a number *)
Definition name_ok (s : bytes) : bool :=
  match s with
  | [] => false
  | _ =>
    let c := cp_at s in
    (is_alphabetic c || ((is_digit10 c || (c =? 46) || (c =? 45)) && negb (is_rust_float s)))
    && utf8_validb s && no_space s
  end.
(** a string literal with its quotes: no quote inside, valid UTF-8 *)
Definition quoted_ok (s : bytes) : bool :=
  match s with
  | 34 :: r =>
    match rev r with
    | 34 :: m => negb (existsb (fun b => b =? 34) m) && utf8_validb (rev m)
    | _ => false
    end
  | _ => false
  end.
(** a token kept verbatim that is not a string literal: a name or a number *)
Definition plain_tok_ok (s : bytes) : bool :=
  match s with
  | [] => false
  | _ => tok_start_ok s && utf8_validb s && no_space s
  end.
Definition prop_value_ok (s : bytes) : bool := quoted_ok s || plain_tok_ok s.
(** numbers: at most 28 digits in all and after the point *)
Definition dec_ok (d : dec) : bool :=
  (0 <=? d_mant d) && (d_mant d <? 10 ^ 28) && (0 <=? d_scale d) && (d_scale d <=? 28)
  && (if d_neg d then negb (d_mant d =? 0) else true).
Definition char_ok (c : Z) : bool :=
  (32 <? c) && (c <? 1114112) && negb ((55296 <=? c) && (c <? 57344)) && negb (c =? 34) && negb (c =? 127)
  && negb (is_whitespace c).
Definition point_ok (p : lef_point) : bool := dec_ok (pt_x p) && dec_ok (pt_y p).
Definition optb {A} (f : A -> bool) (o : option A) : bool := match o with Some x => f x | None => true end.
Definition shape_ok (s : lef_shape) : bool :=
  match s with
  | ShRect m a b => optb dec_ok m && point_ok a && point_ok b
  | ShPolygon m ps => optb dec_ok m && forallb point_ok ps && Nat.leb 3 (List.length ps)
  | ShPath m ps => optb dec_ok m && forallb point_ok ps && Nat.leb 2 (List.length ps)
  end.
Definition step_ok (s : lef_step) : bool :=
  dec_ok (st_numx s) && dec_ok (st_numy s) && dec_ok (st_spacex s) && dec_ok (st_spacey s).
Definition geometry_ok (g : lef_geometry) : bool :=
  match g with GShape s => shape_ok s | GIterate s p => shape_ok s && step_ok p end.
Definition layer_geoms_ok (l : lef_layer_geoms) : bool :=
  name_ok (lg_layer_name l) && forallb geometry_ok (lg_geometries l)
  && forallb (fun v => name_ok (vi_via_name v) && point_ok (vi_pt v)) (lg_vias l)
  && (match lg_except_pg_net l with Some false => false | _ => true end)
  && optb (fun s => match s with LsSpacing d | LsDesignRuleWidth d => dec_ok d end) (lg_spacing l)
  && optb dec_ok (lg_width l).
Definition property_ok (p : lef_property) : bool := name_ok (pr_name p) && prop_value_ok (pr_value p).
Definition antenna_keys : list bytes :=
  map bytes_of_string ["ANTENNADIFFAREA"; "ANTENNAGATEAREA"; "ANTENNAPARTIALMETALAREA"; "ANTENNAPARTIALMETALSIDEAREA";
                       "ANTENNAPARTIALCUTAREA"; "ANTENNAPARTIALDIFFAREA"; "ANTENNAMAXAREACAR"; "ANTENNAMAXSIDEAREACAR";
                       "ANTENNAMAXCUTCAR"].
Definition antenna_ok (a : lef_antenna_attr) : bool :=
  existsb (bytes_eqb (upper_bytes (aa_key a))) antenna_keys && dec_ok (aa_val a) && optb name_ok (aa_layer a).
Definition pin_ok (p : lef_pin) : bool :=
  name_ok (pin_name p)
  && forallb (fun po => forallb layer_geoms_ok (po_layers po)) (pin_ports p)
  && forallb antenna_ok (pin_antenna_attrs p)
  && optb name_ok (pin_taper_rule p) && optb name_ok (pin_supply_sensitivity p)
  && optb name_ok (pin_ground_sensitivity p) && optb name_ok (pin_must_join p)
  && optb quoted_ok (pin_net_expr p) && forallb property_ok (pin_properties p).
(** [old]: the library's version is 5.4 or earlier (SOURCE / NAMESCASESENSITIVE / NOWIREEXTENSIONATPIN exist) *)
Definition macro_ok (old : bool) (m : lef_macro) : bool :=
  name_ok (mac_name m) && forallb pin_ok (mac_pins m) && forallb layer_geoms_ok (mac_obs m)
  && optb (fun f => name_ok (fo_cell_name f) && optb point_ok (fo_pt f)
                    && (match fo_pt f, fo_orient f with None, Some _ => false | _, _ => true end)) (mac_foreign m)
  && optb point_ok (mac_origin m)
  && optb (fun s => dec_ok (fst s) && dec_ok (snd s)) (mac_size m)
  && optb name_ok (mac_site m) && optb name_ok (mac_eeq m)
  && (match mac_source m with Some _ => old | None => true end)
  && forallb property_ok (mac_properties m)
  && optb (forallb (fun g => name_ok (dg_layer_name g)
                             && forallb (fun r => point_ok (dr_pt1 r) && point_ok (dr_pt2 r) && dec_ok (dr_density_value r))
                                        (dg_geometries g))) (mac_density m).
Definition via_shape_ok (s : lef_via_shape) : bool :=
  match s with
  | VsRect m a b => optb dec_ok m && point_ok a && point_ok b
  | VsPolygon m ps => optb dec_ok m && forallb point_ok ps && Nat.leb 3 (List.length ps)
  end.
Definition via_def_ok (v : lef_via_def) : bool :=
  name_ok (vd_name v)
  && match vd_data v with
     | VdFixed f => optb dec_ok (fv_resistance_ohms f)
                    && forallb (fun l => name_ok (vl_layer_name l) && forallb via_shape_ok (vl_shapes l)) (fv_layers f)
     | VdGenerated g =>
       name_ok (gv_via_rule_name g) && name_ok (gv_bot_metal_layer g) && name_ok (gv_cut_layer g) && name_ok (gv_top_metal_layer g)
       && forallb dec_ok [gv_cut_size_x g; gv_cut_size_y g; gv_cut_spacing_x g; gv_cut_spacing_y g;
                          gv_bot_enc_x g; gv_bot_enc_y g; gv_top_enc_x g; gv_top_enc_y g]
       && optb (fun r => dec_ok (rc_rows r) && dec_ok (rc_cols r)) (gv_rowcol g)
       && optb point_ok (gv_origin g)
       && optb (fun o => forallb dec_ok [of_bot_x o; of_bot_y o; of_top_x o; of_top_y o]) (gv_offset g)
     end.
Definition site_ok (s : lef_site) : bool :=
  name_ok (site_name s) && dec_ok (fst (site_size s)) && dec_ok (snd (site_size s)).
Definition units_ok (u : lef_units) : bool :=
  optb (fun v => existsb (Z.eqb v) [100; 200; 400; 800; 1000; 2000; 4000; 8000; 10000; 20000]) (u_database_microns u)
  && forallb (optb dec_ok) [u_time_ns u; u_capacitance_pf u; u_resistance_ohms u; u_power_mw u; u_current_ma u;
                            u_voltage_volts u; u_frequency_mhz u].
Definition propdef_ok (p : lef_propdef) : bool :=
  match p with
  | PdLefString _ n v => name_ok n && optb quoted_ok v
  | PdLefReal _ n v r | PdLefInteger _ n v r =>
    name_ok n && optb dec_ok v && optb (fun x => dec_ok (fst x) && dec_ok (snd x)) r
  end.
Definition ext_tok_ok (s : bytes) : bool :=
  (bytes_eqb s [59] || quoted_ok s || plain_tok_ok s) && no_space s && negb (bytes_eqb (upper_bytes s) (bs "ENDEXT")).
Definition extension_ok (e : lef_extension) : bool :=
  quoted_ok (ext_name e)
  && forallb ext_tok_ok (split_blank [] (ext_data e))
  && bytes_eqb (flat_map (fun t => t ++ [32]) (split_blank [] (ext_data e))) (ext_data e).
(** VERSION 5.0 .. 5.8 with one significant fraction digit *)
Definition version_valid (v : dec) : bool :=
  dec_ok v && negb (d_neg v)
  && existsb (fun k => dec_eq v (mkdec false (50 + k) 1)) [0; 1; 2; 3; 4; 5; 6; 7; 8].
Definition lib_is_old (l : lef_lib) : bool :=
  match lib_version l with Some v => negb (dec_gt v (mkdec false 54 1)) | None => false end.
Definition lib_supportedb (l : lef_lib) : bool :=
  let old := lib_is_old l in
  forallb (macro_ok old) (lib_macros l) && forallb site_ok (lib_sites l) && forallb via_def_ok (lib_vias l)
  && optb version_valid (lib_version l)
  && (match lib_names_case_sensitive l with Some _ => old | None => true end)
  && (match lib_no_wire_extension_at_pin l with Some _ => old | None => true end)
  && optb (fun c => char_ok (fst c) && char_ok (snd c)) (lib_bus_bit_chars l)
  && optb char_ok (lib_divider_char l)
  && optb units_ok (lib_units l)
  && forallb extension_ok (lib_extensions l)
  && optb dec_ok (lib_manufacturing_grid l)
  && forallb propdef_ok (lib_property_definitions l).
Definition lib_supported (l : lef_lib) : Prop := lib_supportedb l = true.

(** * Well-formed styles *)
Definition ws_char_ok (c : Z) : bool := (c =? 32) || (c =? 9) || (c =? 10) || (c =? 13) || (c =? 11) || (c =? 12).
Definition comment_ok (t : bytes) : bool := utf8_validb t && negb (existsb (fun b => b =? 10) t).
Definition sep_item_ok (i : sep_item) : bool :=
  match i with SWs c => ws_char_ok c | SComment t => comment_ok t end.
Definition sep_ok (s : list sep_item) : bool :=
  match s with
  | SWs c :: r => ws_char_ok c && forallb sep_item_ok r
  | _ => false
  end.
(** the text after the last token: white space first if anything follows *)
Definition trail_ok (sty : style) : bool :=
  match sty_trail sty, sty_trail_comment sty with
  | [], None => true
  | [], Some _ => false
  | s, c => sep_ok s && optb comment_ok c
  end.
Definition style_okb (sty : style) (l : lef_lib) : bool :=
  forallb sep_item_ok (sty_lead sty)
  && forallb sep_ok (sty_seps sty)
  && trail_ok sty
  && (sty_end_lib sty
      || match lib_version l with Some v => dec_ge v (mkdec false 56 1) | None => true end).
Definition style_ok (sty : style) (l : lef_lib) : Prop := style_okb sty l = true.
