#!/bin/sh
# Build Coq targets under the project-wide lock. Usage: coq/build.sh [-jN] Target.vo ...   (no args: everything)
cd "$(dirname "$0")"
mkdir -p ../work
exec flock ../work/coq.lock sh -c './mk.sh && timeout 3000 make -j${JOBS:-8} "$@"' sh "$@"
